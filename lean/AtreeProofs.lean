import AtreeProofs.StorageLemmas
import AtreeProofs.Props.C14
import AtreeProofs.Props.C15
import AtreeProofs.ArrayInv
import AtreeProofs.ArrayLemmas
import AtreeProofs.Props.C01
import AtreeProofs.Props.C05
