import AtreeProofs.StorageLemmas
import AtreeProofs.Props.C14
import AtreeProofs.Props.C15
