import AtreeProofs.E2EMapSpec
import AtreeProofs.E2EBytesSpec
import AtreeProofs.Codec.RoundTripD
import AtreeProofs.Codec.RoundTripM
/-
  The byte-level codec (`AtreeModel/Codec`) on the stored slabs of ordered maps (`E2EM.MSSlab r`).
  DEFINITIONS ONLY; theorems in `AtreeProofs/Props/E2EMapBytes.lean`.

  COVERED SLAB SHAPES (every slab a map of plain keys and plain values occupies):
  * map data slabs – root (with the extra data type / count / seed) and non-root, with or without
    sibling link – whose first-level elements are single elements, INLINE collision groups (nested
    to the number of digest levels, ending in last-level element lists) and REFERENCES to external
    collision groups (`Codec.Slab.mdata`, `group = false`);
  * map index slabs (`Codec.Slab.mindex`);
  * the slabs of EXTERNAL collision groups (`Codec.Slab.mdata` with `group = true`, `anySize`);
  * large-value slabs of plain values (`Codec.Slab.storable`);
  keys are plain values, values are plain values or references to large-value slabs.
  NOT COVERED: nested containers as values / inlined children / wrapped values (`Stor.arr`,
  `Stor.map`, `Stor.some`, `storableG`): maps of the `OMap` model never contain them (nested
  containers live in the World model).

  The stored form of the model carries data the bytes do not: the size fields (recomputed by the
  decoders), the first-key fields, the `root` / `inlined` flags, and the DIGESTS OF THE KEYS (the Go
  code re-hashes a key when it needs its digests).  `ofSlabM` rebuilds all of them, the digests
  with the digest function `D`; the keyed codec therefore depends on `D`, and its encoder refuses
  (`OkM`) a slab whose keys do not carry the digests `D` assigns to them.
  The type info of the map model is a number; it is encoded as the harness's plain type info.
-/
namespace Atree.E2EM
open Atree Atree.Codec Gen

variable {r : Nat}

/-! ### from the model to the codec's slabs -/

/-- a key as the codec sees it: a plain value of the harness -/
def keyStor (k : MKey) : Stor := .val k.size k.pay

def toSEl (x : SElem) : SEl := .mk (keyStor x.key) (Stor.ofElem x.val)

def toMElWith {α : Type} (f : α → MEls) : MElemF α → MEl
  | .single x => .single (toSEl x)
  | .inl g => .inl (f g)
  | .ext id _ _ => .ext id

/-- `elements` -/
def toMEls : (r : Nat) → MElems r → MEls
  | 0, (se : SingleElems) => .single se.level (se.elems.map toSEl)
  | r + 1, (he : HkeyElems (MElems r)) => .hkey he.level he.hkeys (he.elems.map (toMElWith (toMEls r)))

def mextra (x : Option (Nat × Nat × Nat)) : Option MapExtra :=
  x.map (fun p => ⟨.plain p.1, p.2.1, p.2.2⟩)

def toMChildHdr (h : MHdr) : MChildHdr := ⟨h.id, h.size, h.firstKey⟩

/-- the ID a stored slab carries in its own header (`undef` for a large-value slab, which has none) -/
def ownIdM : MSSlab r → SlabID
  | .tree (.data s) _ => s.hdr.id
  | .tree (.index h _ _) _ => h.id
  | .tree (.group g) _ => g.hdr.id
  | .large _ => SlabID.undef

/-- the stored slab as the codec sees it; `id` is only used for a large-value slab -/
def toSlabM (id : SlabID) : MSSlab r → Slab
  | .tree (.data s) x =>
    .mdata { id := s.hdr.id, next := s.next, extra := mextra x, els := toMEls (r + 1) s.elems,
             anySize := false, group := false }
  | .tree (.index h chs _) x =>
    .mindex { id := h.id, extra := mextra x, childHdrs := chs.map toMChildHdr }
  | .tree (.group g) x =>
    .mdata { id := g.hdr.id, next := SlabID.undef, extra := mextra x, els := toMEls r g.elems,
             anySize := true, group := true }
  | .large v => .storable id v

/-! ### from the codec's slabs back to the model (what the decoders rebuild) -/

def elemOfStor : Stor → Option Elem
  | .val s p => some ⟨s, .val p⟩
  | .ref id => some ⟨slabIDStorableSize, .ref id⟩
  | _ => none

/-- a single element: sizes recomputed, the key re-hashed with `D` -/
def ofSEl {L : Nat} (D : DigestFn L) : SEl → Option SElem
  | .mk (.val ks kp) v =>
    (elemOfStor v).map (fun ve =>
      { key := ⟨ks, kp, D.dg (ks, kp)⟩, val := ve, size := singleElementPrefixSize + ks + ve.size })
  | _ => none

def ofMElWith {L : Nat} (D : DigestFn L) {α : Type} (f : MEls → Option α) (empty : α) : MEl → Option (MElemF α)
  | .single e => (ofSEl D e).map .single
  | .inl els => (f els).map .inl
  | .ext id => some (.ext id (externalCollisionGroupPrefixSize + slabIDStorableSize) ⟨⟨id, 0, 0⟩, empty⟩)

/-- `elements` with `r` digest levels left (`none` if the nesting does not have that shape) -/
def ofMEls {L : Nat} (D : DigestFn L) : (r : Nat) → MEls → Option (MElems r)
  | 0, .single level es =>
    (E2E.optAll (ofSEl D) es).map (fun xs =>
      ({ elems := xs, size := singleElementsPrefixSize + (xs.map (·.size)).sum, level := level } : SingleElems))
  | 0, .hkey _ _ _ => none
  | r + 1, .hkey level hkeys es =>
    (E2E.optAll (ofMElWith D (ofMEls D r) (emptyElems r)) es).map (fun els =>
      ({ hkeys := hkeys, elems := els,
         size := hkeyElementsPrefixSize + HkeyElems.elemSizes (MElems.ops r) els, level := level } :
        HkeyElems (MElems r)))
  | _ + 1, .single _ _ => none

def xback (x : Option MapExtra) : Option (Nat × Nat × Nat) :=
  x.map (fun e => (E2E.tyNum e.ty, e.count, e.seed))

def ofMChildHdr (h : MChildHdr) : MHdr := ⟨h.id, h.size, h.firstKey⟩

/-- what the decoder returns, as a stored slab (`none` for the slab kinds that are not covered) -/
def ofSlabM (D : DigestFn (r + 1)) : Slab → Option (MSSlab r)
  | .mdata md =>
    if md.group then
      (ofMEls D r md.els).map (fun e =>
        .tree (.group ⟨⟨md.id, mapDataSlabPrefixSize + (MElems.ops r).size e, (MElems.ops r).firstKey e⟩, e⟩)
          (xback md.extra))
    else
      (ofMEls D (r + 1) md.els).map (fun (e : HkeyElems (MElems r)) =>
        .tree (.data { hdr := ⟨md.id, (if md.extra.isSome then mapRootDataSlabPrefixSize else mapDataSlabPrefixSize)
                                + e.size, e.firstKey⟩,
                       next := md.next, elems := e, root := md.extra.isSome, inlined := false })
          (xback md.extra))
  | .mindex m =>
    some (.tree (.index ⟨m.id, mapMetaDataSlabPrefixSize + mapSlabHeaderSize * m.childHdrs.length,
                        ((m.childHdrs.map ofMChildHdr).headD default).firstKey⟩
                  (m.childHdrs.map ofMChildHdr) m.extra.isSome) (xback m.extra))
  | .storable _ e => some (.large e)
  | _ => none

/-! ### the encoder's preconditions, on the model side (decidable) -/

/-- one stored key/value pair: the key carries the digests of `D`, key and value are values the
    harness can encode (a reference has the size the library gives it and a 16-byte ID), the size
    bookkeeping is exact -/
def SElemEnc {L : Nat} (D : DigestFn L) (x : SElem) : Prop :=
  x.key.digs = D.dg (x.key.size, x.key.pay) ∧ validElem ⟨x.key.size, .val x.key.pay⟩ ∧ validElem x.val ∧
  x.size = singleElementPrefixSize + x.key.size + x.val.size ∧ x.size ≤ maxUint32

/-- the placeholder of the stored form (`stripElem`) -/
def IsEmptyElems : (r : Nat) → MElems r → Prop
  | 0, (se : SingleElems) => se.elems.length = 0 ∧ se.size = 0 ∧ se.level = 0
  | _ + 1, (he : HkeyElems (MElems _)) => he.hkeys = [] ∧ he.elems.length = 0 ∧ he.size = 0 ∧ he.level = 0

def ElemEncF {L : Nat} (D : DigestFn L) {α : Type} (P E : α → Prop) : MElemF α → Prop
  | .single x => SElemEnc D x
  | .inl g => P g
  | .ext id sz s =>
    sz = externalCollisionGroupPrefixSize + slabIDStorableSize ∧ id.addr < 2 ^ 64 ∧ id.idx < 2 ^ 64 ∧
    s.hdr = ⟨id, 0, 0⟩ ∧ E s.elems

/-- `elements` in stored form: levels below 24, one digest (< 2⁶⁴) per element and fewer than 8192
    of them, last-level lists non-empty with fewer than 65536 entries, sizes exact and within
    `uint32`, external groups referenced by placeholder -/
def ElemsEnc {L : Nat} (D : DigestFn L) : (r : Nat) → MElems r → Prop
  | 0, (se : SingleElems) =>
    se.level < 24 ∧ se.elems ≠ [] ∧ se.elems.length < 65536 ∧ (∀ x ∈ se.elems, SElemEnc D x) ∧
    se.size = singleElementsPrefixSize + (se.elems.map (·.size)).sum ∧ se.size ≤ maxUint32
  | r + 1, (he : HkeyElems (MElems r)) =>
    he.level < 24 ∧ he.hkeys.length = he.elems.length ∧ he.elems.length < 8192 ∧
    (∀ h ∈ he.hkeys, h < 2 ^ 64) ∧ (∀ el ∈ he.elems, ElemEncF D (ElemsEnc D r) (IsEmptyElems r) el) ∧
    he.size = hkeyElementsPrefixSize + HkeyElems.elemSizes (MElems.ops r) he.elems ∧ he.size ≤ maxUint32

/-- the extra data of a root fits its fields -/
def XOk (x : Option (Nat × Nat × Nat)) : Prop :=
  match x with
  | none => True
  | some p => p.1 < 2 ^ 64 ∧ p.2.1 < 2 ^ 64 ∧ p.2.2 < 2 ^ 64

def MHdrOk (addr : Nat) (c : MHdr) : Prop :=
  c.id.addr = addr ∧ c.id.idx < 2 ^ 64 ∧ c.firstKey < 2 ^ 64 ∧ c.size < 65536

/-- THE ENCODER'S PRECONDITIONS for a stored map slab (they imply `Codec.MapDataOK` /
    `Codec.MapMetaOK` / `validElem` of `toSlabM`, and that the redundant fields of the stored form –
    sizes, first keys, flags, digests – are the ones the decoder recomputes).  `r ≤ 8`: at most nine
    digest levels, so that the nesting of collision groups stays within the CBOR library's limit
    of 32 levels. -/
def OkM (D : DigestFn (r + 1)) : MSSlab r → Prop
  | .tree (.data s) x =>
    r ≤ 8 ∧ ElemsEnc D (r + 1) s.elems ∧ s.hdr.size = s.prefixSize + s.elems.size ∧
    s.hdr.firstKey = s.elems.firstKey ∧ s.root = x.isSome ∧ s.inlined = false ∧ validNext s.next ∧ XOk x ∧
    s.hdr.size ≤ maxUint32
  | .tree (.index h chs root) x =>
    h.id.addr < 2 ^ 64 ∧ (∀ c ∈ chs, MHdrOk h.id.addr c) ∧ chs.length < 65536 ∧ XOk x ∧
    h.size = mapMetaDataSlabPrefixSize + mapSlabHeaderSize * chs.length ∧
    h.firstKey = (chs.headD default).firstKey ∧ root = x.isSome
  | .tree (.group g) x =>
    r ≤ 8 ∧ x.isNone = true ∧ ElemsEnc D r g.elems ∧
    g.hdr.size = mapDataSlabPrefixSize + (MElems.ops r).size g.elems ∧
    g.hdr.firstKey = (MElems.ops r).firstKey g.elems ∧ g.hdr.size ≤ maxUint32
  | .large v => validElem v

/-! ### decidability -/

instance {L : Nat} (D : DigestFn L) (x : SElem) : Decidable (SElemEnc D x) := by
  unfold SElemEnc; infer_instance

def decIsEmptyElems : (r : Nat) → (e : MElems r) → Decidable (IsEmptyElems r e)
  | 0, (se : SingleElems) =>
    inferInstanceAs (Decidable (se.elems.length = 0 ∧ se.size = 0 ∧ se.level = 0))
  | _ + 1, (he : HkeyElems (MElems _)) =>
    inferInstanceAs (Decidable (he.hkeys = [] ∧ he.elems.length = 0 ∧ he.size = 0 ∧ he.level = 0))

instance (r : Nat) (e : MElems r) : Decidable (IsEmptyElems r e) := decIsEmptyElems r e

def decElemEncF {L : Nat} (D : DigestFn L) {α : Type} (P E : α → Prop) (dP : ∀ a, Decidable (P a))
    (dE : ∀ a, Decidable (E a)) : (el : MElemF α) → Decidable (ElemEncF D P E el)
  | .single x => inferInstanceAs (Decidable (SElemEnc D x))
  | .inl g => dP g
  | .ext id sz s =>
    have := dE s.elems
    inferInstanceAs (Decidable (sz = externalCollisionGroupPrefixSize + slabIDStorableSize ∧ id.addr < 2 ^ 64 ∧
      id.idx < 2 ^ 64 ∧ s.hdr = ⟨id, 0, 0⟩ ∧ E s.elems))

def decElemsEnc {L : Nat} (D : DigestFn L) : (r : Nat) → (e : MElems r) → Decidable (ElemsEnc D r e)
  | 0, (se : SingleElems) =>
    inferInstanceAs (Decidable (se.level < 24 ∧ se.elems ≠ [] ∧ se.elems.length < 65536 ∧
      (∀ x ∈ se.elems, SElemEnc D x) ∧
      se.size = singleElementsPrefixSize + (se.elems.map (·.size)).sum ∧ se.size ≤ maxUint32))
  | r + 1, (he : HkeyElems (MElems r)) =>
    have : ∀ el, Decidable (ElemEncF D (ElemsEnc D r) (IsEmptyElems r) el) :=
      decElemEncF D _ _ (decElemsEnc D r) (decIsEmptyElems r)
    inferInstanceAs (Decidable (he.level < 24 ∧ he.hkeys.length = he.elems.length ∧ he.elems.length < 8192 ∧
      (∀ h ∈ he.hkeys, h < 2 ^ 64) ∧ (∀ el ∈ he.elems, ElemEncF D (ElemsEnc D r) (IsEmptyElems r) el) ∧
      he.size = hkeyElementsPrefixSize + HkeyElems.elemSizes (MElems.ops r) he.elems ∧ he.size ≤ maxUint32))

instance {L : Nat} (D : DigestFn L) (r : Nat) (e : MElems r) : Decidable (ElemsEnc D r e) := decElemsEnc D r e

instance (x : Option (Nat × Nat × Nat)) : Decidable (XOk x) := by
  unfold XOk; cases x <;> infer_instance

instance (addr : Nat) (c : MHdr) : Decidable (MHdrOk addr c) := by unfold MHdrOk; infer_instance

instance (D : DigestFn (r + 1)) (v : MSSlab r) : Decidable (OkM D v) := by
  cases v with
  | tree t x =>
    cases t with
    | data s =>
      have : Decidable (ElemsEnc D (r + 1) s.elems) := decElemsEnc D (r + 1) s.elems
      dsimp only [OkM]; infer_instance
    | index h chs root => dsimp only [OkM]; infer_instance
    | group g => dsimp only [OkM]; infer_instance
  | large e => dsimp only [OkM]; infer_instance

/-! ### what makes the stored slabs of a map encodable (hypotheses of the theorems) -/

/-- a key/value pair the harness can encode -/
def KVOk (p : MKey × Elem) : Prop := validElem ⟨p.1.size, .val p.1.pay⟩ ∧ validElem p.2

def FitEl {α : Type} (P : α → Prop) : MElemF α → Prop
  | .inl g => P g
  | _ => True

/-- `elements` (of an external collision group) respect the field widths of the encoding: fewer than
    8192 digests per digest table (their byte string has a 16-bit length), fewer than 65536 entries
    per last-level list, sizes within `uint32`.  (The library does not check these; with the default
    collision limit of 255 entries per first-level digest they cannot be exceeded.) -/
def Fit : (r : Nat) → MElems r → Prop
  | 0, (se : SingleElems) => se.elems.length < 65536 ∧ se.size ≤ maxUint32
  | r + 1, (he : HkeyElems (MElems r)) =>
    he.elems.length < 8192 ∧ he.size ≤ maxUint32 ∧ ∀ el ∈ he.elems, FitEl (Fit r) el

def FitView : MSlabView r → Prop
  | .group g => Fit r g.elems ∧ g.hdr.size ≤ maxUint32
  | _ => True

/-- every external collision group of the map respects the field widths (see `Fit`; an external
    group smaller than 64 KiB always does: `E2EM.groupsFit_of_small`) -/
def GroupsFit (m : OMap r) : Prop := ∀ p ∈ MTree.slabs m.d m.root, FitView p.2

/-- what makes the stored slabs of a map encodable: at most nine digest levels, digests, address,
    counter, type info, count and seed within 64 bits, encodable keys, values and large values,
    external collision groups within the field widths -/
structure MEncOk (D : DigestFn (r + 1)) (m : OMap r) (extra : SlabID → Option Elem) (ctr : Nat) : Prop where
  levels : r ≤ 8
  digests : ∀ p, ∀ h ∈ D.dg p, h < 2 ^ 64
  entries : ∀ p ∈ m.toList, KVOk p
  extra : ∀ id v, extra id = some v → validElem v
  addr : m.addr < 2 ^ 64
  ctr : ctr < 2 ^ 64
  ty : m.ty < 2 ^ 64
  count : m.count < 2 ^ 64
  seed : m.seed < 2 ^ 64
  groups : GroupsFit m

def decFit : (r : Nat) → (e : MElems r) → Decidable (Fit r e)
  | 0, (se : SingleElems) => inferInstanceAs (Decidable (se.elems.length < 65536 ∧ se.size ≤ maxUint32))
  | r + 1, (he : HkeyElems (MElems r)) =>
    have : ∀ el, Decidable (FitEl (Fit r) el) := fun el =>
      match el with
      | .single _ => isTrue trivial
      | .inl g => decFit r g
      | .ext _ _ _ => isTrue trivial
    inferInstanceAs (Decidable (he.elems.length < 8192 ∧ he.size ≤ maxUint32 ∧ ∀ el ∈ he.elems, FitEl (Fit r) el))

instance (r : Nat) (e : MElems r) : Decidable (Fit r e) := decFit r e

instance (v : MSlabView r) : Decidable (FitView v) := by
  cases v <;> (dsimp only [FitView]; infer_instance)

instance (m : OMap r) : Decidable (GroupsFit m) := by unfold GroupsFit; infer_instance

instance (p : MKey × Elem) : Decidable (KVOk p) := by unfold KVOk; infer_instance

/-! ### the codec -/

/-- `EncodeSlab` -/
def encM (v : MSSlab r) : Bytes := encodeSlab (toSlabM (ownIdM v) v)

/-- `DecodeSlab(id, data)`, the result rebuilt with the digest function `D` -/
def decM (D : DigestFn (r + 1)) (id : SlabID) (b : Bytes) : Option (MSSlab r) :=
  match decodeSlab id b 0 with
  | .ok sl _ => ofSlabM D sl
  | _ => none

/-- THE KEYED BYTE CODEC FOR MAPS (see `E2E.keyedCodec`): a register is the ledger entry
    `(key, bytes)`: `EncodeSlab` of a slab that meets the encoder's preconditions (an encoding error
    otherwise), filed under the slab's own ID; decoding an entry is `DecodeSlab(key of the entry,
    bytes)`, keys re-hashed with `D`. -/
def keyedCodecM (D : DigestFn (r + 1)) : Codec (MSSlab r) (SlabID × Bytes) :=
  { enc := fun v => if OkM D v then some (ownIdM v, encM v) else none,
    dec := fun _ p => decM D p.1 p.2,
    size := fun v => (toSlabM (ownIdM v) v).byteSize }

/-- a request whose key and value can be encoded by the harness -/
def MOp.Enc : MOp → Prop
  | .set k v => validElem ⟨k.size, .val k.pay⟩ ∧ validElem v
  | .setType ty => ty < 2 ^ 64
  | _ => True

instance (op : MOp) : Decidable op.Enc := by
  cases op <;> (dsimp only [MOp.Enc]; infer_instance)

end Atree.E2EM
