import AtreeModel.StorageOps
import AtreeProofs.StorageLemmas
import AtreeProofs.CommitLemmas
/-
  A concrete, non-trivial storage state used by the `NonVacuity` sections of the property files:
  it shows that `RoundTrip`, `Inv` and `NoEncodeFailure` are jointly satisfiable by a state with a
  pending store, a pending deletion, a pending temporary slab, a cached entry and committed entries.
-/
namespace Atree.Example
open Atree St

/-- Slabs and registers are numbers; encoding is the identity. -/
def natCodec : Codec Nat Nat := { enc := some, dec := fun _ b => some b, size := fun _ => 1 }

/-- pending: store `1.1 ↦ 5`, delete `1.2`, temporary `0.1 ↦ 8`;  cached: `1.3`;
    committed: `1.3 ↦ 7`, `1.4 ↦ 9`, `1.2 ↦ 3`. -/
def exSt : St Nat Nat :=
  { deltas := [(⟨1, 1⟩, some 5), (⟨1, 2⟩, none), (⟨0, 1⟩, some 8)],
    cache  := [(⟨1, 3⟩, some 7)],
    base   := [(⟨1, 4⟩, 9), (⟨1, 3⟩, 7), (⟨1, 2⟩, 3)],
    tempIx := 1,
    alloc  := [(1, 4)] }

theorem roundTrip : RoundTrip natCodec := by
  intro id v b h
  simp only [natCodec, Option.some.injEq] at h
  simp [natCodec, h]

theorem noEncodeFailure (s : St Nat Nat) : NoEncodeFailure natCodec s := fun _ _ _ => rfl

theorem inv : Inv natCodec exSt := by
  refine ⟨?_, by decide, by decide, by decide, ?_, fun _ _ _ => rfl⟩
  · intro id v h
    simp only [exSt, AList.find?_cons, AList.find?_nil] at h
    split at h
    · rename_i hid
      subst hid
      simp only [Option.some.injEq] at h
      subst h
      decide
    · simp at h
  · intro id ht
    rw [AList.find?_eq_none_iff]
    intro hm
    simp only [exSt, AList.keys, List.map_cons, List.map_nil, List.mem_cons, List.not_mem_nil,
      or_false] at hm
    rcases hm with rfl | rfl | rfl <;> simp [SlabID.isTemp] at ht

/-- The state is also reachable from the empty storage. -/
def exOps : List (Op Nat) :=
  [.store ⟨1, 2⟩ 3, .store ⟨1, 4⟩ 9, .store ⟨1, 3⟩ 7, .commit .det [] [] [], .dropCache,
   .retrieve ⟨1, 3⟩, .store ⟨0, 1⟩ 8, .remove ⟨1, 2⟩, .store ⟨1, 1⟩ 5]

example : (St.run natCodec St.init exOps).deltas = exSt.deltas := by decide
example : (St.run natCodec St.init exOps).cache = exSt.cache := by decide
example : (St.run natCodec St.init exOps).base = exSt.base := by decide

/-- The pieces the state is made of. -/
example : AList.find? exSt.deltas ⟨1, 1⟩ = some (some 5) := by decide   -- pending store
example : AList.find? exSt.deltas ⟨1, 2⟩ = some none := by decide       -- pending deletion
example : AList.find? exSt.deltas ⟨0, 1⟩ = some (some 8) := by decide   -- pending temporary slab
example : AList.find? exSt.cache ⟨1, 3⟩ = some (some 7) := by decide    -- cached entry
example : AList.find? exSt.base ⟨1, 4⟩ = some 9 := by decide            -- committed entry
example : exSt.view natCodec ⟨1, 2⟩ = none ∧ exSt.committed natCodec ⟨1, 2⟩ = some 3 := by decide

end Atree.Example
