import AtreeModel.StorageOps
import AtreeProofs.StorageLemmas
import AtreeProofs.HeapSpec
import AtreeProofs.ArrayInv
/-
  END-TO-END specification (arrays): the three models tied together.

    array model  --effect log-->  storage state machine  --commit / reopen-->  ledger
         ^                                                                        |
         +------------------------- loadArr (lazy slab loading) <-----------------+

  DEFINITIONS ONLY (the theorems are in `AtreeProofs/Props/E2E.lean`):

  * `SSlab`      – what is stored under one slab ID: an array slab (with the type info when it is
                   the root) or a large-value slab (`StorableSlab`);
  * `effOps` / `applyEffs` – an effect log of the array model run against the storage state machine;
  * `effOpsI`    – the same with an arbitrary content snapshot per event (intermediate contents);
  * `Rep`        – "the storage represents the array";
  * `loadAt` / `findDepth` / `loadArr` – `NewArrayWithRootID` + lazy slab loading, from a lookup
                   function; `loadArrSt` – the same through a state-threading fetch (`Retrieve`);
  * `AOp`, `stepA`, `stepS`, `specStep` – histories of array operations, their run against the
                   storage, and their `List` semantics.
-/
namespace Atree.E2E
open Atree Gen

/-! ### stored slabs -/

/-- What the storage holds under one slab ID of an array's owner: a slab of the array's tree
    (`ASlab`, with the type info iff it is the root slab: `ArrayExtraData`), or a large-value slab
    (`StorableSlab`) created by `Value.Storable` for an element too large to inline. -/
inductive SSlab where
  | tree (s : ASlab) (ty : Option Nat)
  | large (v : Elem)

/-- The slab that must be visible under `id` when the array is `a` and the live large-value slabs
    are `extra`. -/
def stored (a : Arr) (extra : SlabID → Option Elem) (id : SlabID) : Option SSlab :=
  match a.slabAt id with
  | some p => some (.tree p.1 p.2)
  | none => (extra id).map .large

/-! ### effect logs against the storage state machine

One event of the effect log becomes one storage operation:
  `.alloc addr _` ↦ `GenerateSlabID(addr)`, `.store id` ↦ `Store(id, content id)`,
  `.remove id` ↦ `Remove(id)`.

The array model keeps the tree, not the intermediate versions of the slabs, so the content passed
to `Store` is the content of `id` in the tree AFTER the operation (`content`).  This yields the same
final storage state as storing the intermediate contents: `Store`/`Remove` only overwrite the entry
of `id` in `deltas` (`AList.insert`), so the entry of `id` at the end is the one written by the LAST
store/remove event of `id`, and (`EffectsComplete`) the slab written by the last store event of `id`
is the final content.  A store event of a slab that does not exist at the end (`content id = none`)
is always followed by a remove event of the same slab; it is skipped.  `effOpsI` is the version with
a content snapshot per event; `E2E.applyEffsI_eq_applyEffs` proves the equivalence. -/

def effOp (content : SlabID → Option SSlab) : Eff → List (Op SSlab)
  | .alloc addr _ => [.genID addr]
  | .store id =>
    match content id with
    | some v => [.store id v]
    | none => []
  | .remove id => [.remove id]

/-- events with their own content snapshot -/
def effOpsI (EC : List (Eff × (SlabID → Option SSlab))) : List (Op SSlab) :=
  EC.flatMap (fun p => effOp p.2 p.1)

/-- all events with the final content -/
def effOps (content : SlabID → Option SSlab) (E : List Eff) : List (Op SSlab) :=
  E.flatMap (effOp content)

variable {β : Type}

def applyEffsI (c : Codec SSlab β) (s : St SSlab β) (EC : List (Eff × (SlabID → Option SSlab))) :
    St SSlab β :=
  St.run c s (effOpsI EC)

def applyEffs (c : Codec SSlab β) (s : St SSlab β) (content : SlabID → Option SSlab)
    (E : List Eff) : St SSlab β :=
  St.run c s (effOps content E)

/-- the entry a log with snapshots leaves in `deltas` for `id` (`none` = it does not touch `id`) -/
def writeStep (id : SlabID) (acc : Option (Option SSlab))
    (p : Eff × (SlabID → Option SSlab)) : Option (Option SSlab) :=
  match p.1 with
  | .store i =>
    if i = id then
      match p.2 id with
      | some v => some (some v)
      | none => acc
    else acc
  | .remove i => if i = id then some none else acc
  | .alloc _ _ => acc

def lastWrite (EC : List (Eff × (SlabID → Option SSlab))) (id : SlabID) : Option (Option SSlab) :=
  EC.foldl (writeStep id) none

/-- number of `GenerateSlabID(addr)` calls in a log -/
def allocCount (addr : Nat) (E : List Eff) : Nat :=
  (E.filter (fun e => match e with | .alloc a _ => a == addr | _ => false)).length

/-! ### representation -/

/-- The storage `s` represents the array `a`: restricted to the array's owner address, the view
    (latest store/remove, else cache, else ledger) is exactly the slabs of the tree plus the live
    large-value slabs `extra`.  `ctr` is the allocation counter of the array model; the large-value
    slabs are disjoint from the tree and were allocated before `ctr`. -/
structure Rep (c : Codec SSlab β) (s : St SSlab β) (a : Arr) (extra : SlabID → Option Elem)
    (ctr : Nat) : Prop where
  view : ∀ id, id.addr = a.addr → s.view c id = stored a extra id
  extra_fresh : ∀ id, (extra id).isSome → (a.slabAt id).isNone ∧ id.idx ≤ ctr

/-- the storage's allocation counter for the owner agrees with the array model's -/
def AllocSync (s : St SSlab β) (addr ctr : Nat) : Prop :=
  (AList.find? s.alloc addr).getD 0 = ctr

/-- The live large-value slabs after an operation with log `E` that created `created`, computed
    from the log alone (what `EffectsComplete` determines). -/
def extraStep (a' : Arr) (E : List Eff) (created : List (SlabID × Elem))
    (extra : SlabID → Option Elem) (id : SlabID) : Option Elem :=
  if (a'.slabAt id).isSome then none
  else
    match lastAction E id with
    | some true => AList.find? created id
    | some false => none
    | none => extra id

/-! ### loading an array from its slabs -/

def optAll {α γ : Type} (f : α → Option γ) : List α → Option (List γ)
  | [] => some []
  | x :: xs =>
    match f x, optAll f xs with
    | some y, some ys => some (y :: ys)
    | _, _ => none

/-- Load the subtree of depth `d` rooted at `id`: a data slab at depth 0, an index slab whose
    children are loaded through its child headers otherwise. -/
def loadAt (look : SlabID → Option SSlab) : (d : Nat) → SlabID → Option (ATree d)
  | 0, id =>
    match look id with
    | some (.tree (.data s) _) => some s
    | _ => none
  | d + 1, id =>
    match look id with
    | some (.tree (.index hdr chs cs root) _) =>
      match optAll (fun (h : Hdr) => loadAt look d h.id) chs with
      | some kids =>
        some ({ hdr := hdr, childHdrs := chs, countSum := cs, children := kids, root := root } :
          MetaSlab (ATree d))
      | none => none
    | _ => none

/-- the depth of the tree under `id`, found by following the first child headers -/
def findDepth (look : SlabID → Option SSlab) : Nat → SlabID → Option Nat
  | 0, _ => none
  | fuel + 1, id =>
    match look id with
    | some (.tree (.data _) _) => some 0
    | some (.tree (.index _ chs _ _) _) =>
      match chs with
      | [] => none
      | h :: _ => (findDepth look fuel h.id).map (· + 1)
    | _ => none

/-- `NewArrayWithRootID(storage, rootID)` followed by loading every slab: the root slab gives the
    type info, the child headers give the children.  `fuel` only bounds the search for the depth. -/
def loadArr (look : SlabID → Option SSlab) (rootID : SlabID) (fuel : Nat) : Option Arr :=
  match findDepth look fuel rootID, look rootID with
  | some d, some (.tree _ (some ty)) => (loadAt look d rootID).map (fun t => (⟨d, t, ty⟩ : Arr))
  | _, _ => none

/-! ### the same through a state-threading fetch (`PersistentSlabStorage.Retrieve`) -/

section Stateful
variable {S : Type}

/-- a fetch: reads one slab, may change the storage state (cache fill) or fail -/
abbrev Fetch (S : Type) := S → SlabID → Except StErr (Option SSlab × S)

def optAllSt {α γ : Type} (f : S → α → Except StErr (Option γ × S)) :
    S → List α → Except StErr (Option (List γ) × S)
  | s, [] => .ok (some [], s)
  | s, x :: xs =>
    match f s x with
    | .error e => .error e
    | .ok (none, s') => .ok (none, s')
    | .ok (some y, s') =>
      match optAllSt f s' xs with
      | .error e => .error e
      | .ok (none, s'') => .ok (none, s'')
      | .ok (some ys, s'') => .ok (some (y :: ys), s'')

def loadAtSt (fetch : Fetch S) : (d : Nat) → S → SlabID → Except StErr (Option (ATree d) × S)
  | 0, s, id =>
    match fetch s id with
    | .error e => .error e
    | .ok (some (.tree (.data sl) _), s') => .ok (some sl, s')
    | .ok (_, s') => .ok (none, s')
  | d + 1, s, id =>
    match fetch s id with
    | .error e => .error e
    | .ok (some (.tree (.index hdr chs cs root) _), s') =>
      match optAllSt (fun s (h : Hdr) => loadAtSt fetch d s h.id) s' chs with
      | .error e => .error e
      | .ok (some kids, s'') =>
        .ok (some ({ hdr := hdr, childHdrs := chs, countSum := cs, children := kids, root := root } :
          MetaSlab (ATree d)), s'')
      | .ok (none, s'') => .ok (none, s'')
    | .ok (_, s') => .ok (none, s')

def findDepthSt (fetch : Fetch S) : Nat → S → SlabID → Except StErr (Option Nat × S)
  | 0, s, _ => .ok (none, s)
  | fuel + 1, s, id =>
    match fetch s id with
    | .error e => .error e
    | .ok (some (.tree (.data _) _), s') => .ok (some 0, s')
    | .ok (some (.tree (.index _ chs _ _) _), s') =>
      match chs with
      | [] => .ok (none, s')
      | h :: _ =>
        match findDepthSt fetch fuel s' h.id with
        | .error e => .error e
        | .ok (r, s'') => .ok (r.map (· + 1), s'')
    | .ok (_, s') => .ok (none, s')

/-- `loadArr` through a fetch: the depth search, the root slab (type info), then the tree. -/
def loadArrSt (fetch : Fetch S) (s : S) (rootID : SlabID) (fuel : Nat) :
    Except StErr (Option Arr × S) :=
  match findDepthSt fetch fuel s rootID with
  | .error e => .error e
  | .ok (none, s1) => .ok (none, s1)
  | .ok (some d, s1) =>
    match fetch s1 rootID with
    | .error e => .error e
    | .ok (some (.tree _ (some ty)), s2) =>
      match loadAtSt fetch d s2 rootID with
      | .error e => .error e
      | .ok (r, s3) => .ok (r.map (fun t => (⟨d, t, ty⟩ : Arr)), s3)
    | .ok (_, s2) => .ok (none, s2)

end Stateful

/-- A fetch is transparent for the storage: it returns the visible slab and changes neither the
    view, nor the write set, nor the ledger, and keeps the storage invariant.  (`Retrieve` is one;
    so is `Retrieve` preceded by cache drops, preloads and other reads.) -/
def FetchOk (c : Codec SSlab β) (fetch : Fetch (St SSlab β)) : Prop :=
  ∀ s id, Inv c s → ∃ s', fetch s id = .ok (s.view c id, s') ∧ Inv c s' ∧ s'.view c = s.view c ∧
    s'.deltas = s.deltas ∧ s'.base = s.base

/-- maintenance / read operations that may be interleaved anywhere (C08) -/
def readOnlyOp : Op SSlab → Bool
  | .retrieve _ | .retrieveIfLoaded _ | .retrieveIgnoringDeltas _ _ | .dropCache | .preload _ => true
  | _ => false

/-- `Retrieve` preceded by arbitrary read-only operations chosen by a schedule -/
def fetchWith (c : Codec SSlab β) (sched : St SSlab β → SlabID → List (Op SSlab)) :
    Fetch (St SSlab β) :=
  fun s id => (St.run c s ((sched s id).filter readOnlyOp)).retrieve c id

/-! ### histories of array operations -/

/-- One request on an array. -/
inductive AOp where
  | insert (i : Nat) (v : Elem)
  | append (v : Elem)
  | set (i : Nat) (v : Elem)
  | remove (i : Nat)
  | popIterate
  | setType (ty : Nat)

/-- the values handed over are plain values of at least one byte (any size) -/
def AOp.Ok : AOp → Prop
  | .insert _ v | .append v | .set _ v => ValueOk v
  | _ => True

/-- One request on the array model; a rejected request (error) changes nothing. -/
def stepA (T : Nat) (st : Arr × Ctx) : AOp → Arr × Ctx
  | .insert i v =>
    match st.1.insert T i v st.2 with
    | .ok r => r
    | .error _ => st
  | .append v =>
    match st.1.append T v st.2 with
    | .ok r => r
    | .error _ => st
  | .set i v =>
    match st.1.set T i v st.2 with
    | .ok (_, r) => r
    | .error _ => st
  | .remove i =>
    match st.1.remove T i st.2 with
    | .ok (_, r) => r
    | .error _ => st
  | .popIterate => (st.1.popIterate st.2).2
  | .setType ty => st.1.setType ty st.2

def runA (T : Nat) (st : Arr × Ctx) (ops : List AOp) : Arr × Ctx := ops.foldl (stepA T) st

/-- what a run appended to the effect log -/
def newEffs (c c' : Ctx) : List Eff := c'.eff.drop c.eff.length

/-- the content of the stored slabs after an operation: the new tree, else a large-value slab -/
def contentOf (st : Arr × Ctx) : SlabID → Option SSlab := stored st.1 (AList.find? st.2.created)

/-- One request on the array model AND its storage calls on the storage state machine. -/
def stepS (c : Codec SSlab β) (T : Nat) (x : (Arr × Ctx) × St SSlab β) (op : AOp) :
    (Arr × Ctx) × St SSlab β :=
  let st' := stepA T x.1 op
  (st', applyEffs c x.2 (contentOf st') (newEffs x.1.2 st'.2))

def runS (c : Codec SSlab β) (T : Nat) (x : (Arr × Ctx) × St SSlab β) (ops : List AOp) :
    (Arr × Ctx) × St SSlab β := ops.foldl (stepS c T) x

/-- `NewArray(storage, addr, ty)` on an empty storage -/
def newS (c : Codec SSlab β) (addr ty : Nat) : (Arr × Ctx) × St SSlab β :=
  let st := Arr.new addr ty ⟨0, [], []⟩
  (st, applyEffs c (St.init : St SSlab β) (contentOf st) st.2.eff)

/-- The `List` semantics of a request, on the VALUES (a large value is the value itself, not the
    reference that replaces it in the slab): out-of-range requests and insertions into a full
    array (`maxArrayElementCount`) are rejected and change nothing. -/
def specStep (l : List Elem) : AOp → List Elem
  | .insert i v => if l.length < maxArrayElementCount ∧ i ≤ l.length then l.insertIdx i v else l
  | .append v => if l.length < maxArrayElementCount then l ++ [v] else l
  | .set i v => if i < l.length then l.set i v else l
  | .remove i => if i < l.length then l.eraseIdx i else l
  | .popIterate => []
  | .setType _ => l

def specRun (l : List Elem) (ops : List AOp) : List Elem := ops.foldl specStep l

/-- the type info after a history -/
def specTy (ty : Nat) (ops : List AOp) : Nat :=
  ops.foldl (fun t op => match op with | .setType t' => t' | _ => t) ty

/-- the value an element stands for: a reference to a large-value slab is the value in that slab -/
def resolve (created : List (SlabID × Elem)) (e : Elem) : Elem :=
  match e.pay with
  | .ref id => (AList.find? created id).getD e
  | .val _ => e

/-- the sequence of values the array represents -/
def values (st : Arr × Ctx) : List Elem := st.1.toList.map (resolve st.2.created)

end Atree.E2E
