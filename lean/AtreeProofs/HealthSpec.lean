import AtreeModel.Health
/-
  What "healthy" means (C20/C09), independent of how `CheckStorageHealth` computes it.
  DEFINITIONS ONLY (part of the reviewed statement of the theorems).
-/
namespace Atree
namespace Health

/-- all reference edges (parent, child) of a heap, in heap order -/
def edges (h : Heap) : List (SlabID × SlabID) :=
  h.flatMap (fun p => p.2.refs.map (fun r => (p.1, r)))

/-- `Reach h a b`: `b` is reachable from `a` along zero or more references between slabs of `h` -/
inductive Reach (h : Heap) : SlabID → SlabID → Prop where
  | refl (a : SlabID) : Reach h a a
  | step {a b c : SlabID} : Reach h a b → (b, c) ∈ edges h → Reach h a c

/-- No reference cycle can be entered from `root`: no slab reachable from `root` lies on a cycle.
    (On such a cycle `getAllChildReferences` / `CheckStorageHealth` do not terminate.) -/
def NoCycleBelow (h : Heap) (root : SlabID) : Prop :=
  ∀ x y, Reach h root x → (x, y) ∈ edges h → ¬ Reach h y x

/-- The heap is healthy and `roots` is its set of roots. -/
structure Healthy (h : Heap) (roots : List SlabID) : Prop where
  /-- every reference resolves -/
  resolves : ∀ e ∈ edges h, AList.contains h e.2 = true
  /-- no slab is referenced from two places -/
  single : ((edges h).map (·.2)).Nodup
  /-- all slabs of one tree share the owner address -/
  owner : ∀ e ∈ edges h, ∀ p c, AList.find? h e.1 = some p → AList.find? h e.2 = some c →
            p.self.addr = c.self.addr
  /-- the roots are exactly the slabs nobody references -/
  roots_iff : ∀ id, id ∈ roots ↔ (AList.contains h id = true ∧ id ∉ (edges h).map (·.2))
  roots_nodup : roots.Nodup
  /-- every slab hangs under a root (in particular there is no reference cycle) -/
  reach : ∀ id, AList.contains h id = true → ∃ r ∈ roots, Reach h r id

end Health
end Atree
