import AtreeProofs.E2E.Writes
/-
  One operation of the array model whose effect log is a complete account of the change of the
  tree (`EffectsComplete`, C09) keeps the representation relation `Rep`.
-/
namespace Atree.E2E
open Atree St

variable {β : Type}

theorem mem_of_find?_some {α : Type} {l : List (SlabID × α)} {k : SlabID} {v : α}
    (h : AList.find? l k = some v) : (k, v) ∈ l := by
  induction l with
  | nil => simp at h
  | cons p l ih =>
    obtain ⟨k', v'⟩ := p
    rw [AList.find?_cons] at h
    split at h
    · rename_i hk; subst hk; cases h; simp
    · exact List.mem_cons_of_mem _ (ih h)

theorem find?_isSome_of_mem_keys {α : Type} {l : List (SlabID × α)} {k : SlabID}
    (h : k ∈ l.map (·.1)) : (AList.find? l k).isSome := by
  have := (AList.find?_ne_none_iff l k).2 h
  cases hf : AList.find? l k with
  | none => exact absurd hf this
  | some v => rfl

theorem ne_undef_of_addr {id : SlabID} {addr : Nat} (h : id.addr = addr) (hne : addr ≠ 0) :
    id ≠ SlabID.undef := by
  intro e
  rw [e] at h
  exact hne h.symm

theorem stored_of_some {a : Arr} {extra : SlabID → Option Elem} {id : SlabID} {p : ASlab × Option Nat}
    (h : a.slabAt id = some p) : stored a extra id = some (.tree p.1 p.2) := by
  simp [stored, h]

theorem stored_of_none {a : Arr} {extra : SlabID → Option Elem} {id : SlabID}
    (h : a.slabAt id = none) : stored a extra id = (extra id).map .large := by
  simp [stored, h]

/-- the final content is defined for every slab whose last event is a store -/
theorem content_wf {a a' : Arr} {E : List Eff} {created : List (SlabID × Elem)}
    (heff : EffectsComplete a a' E (created.map (·.1))) (id : SlabID)
    (h : lastAction E id = some true) : (stored a' (AList.find? created) id).isSome := by
  rcases heff.stored_in_tree id h with h1 | h1
  · cases hs : a'.slabAt id with
    | none => rw [hs] at h1; cases h1
    | some p => rw [stored_of_some hs]; rfl
  · cases hs : a'.slabAt id with
    | none =>
      rw [stored_of_none hs]
      have := find?_isSome_of_mem_keys h1
      cases hf : AList.find? created id with
      | none => rw [hf] at this; cases this
      | some v => rfl
    | some p => rw [stored_of_some hs]; rfl

/-- REP STEP.  If the storage represents `a`, and the log `E` is a complete account of the change
    from `a` to `a'` (with `created` the large-value slabs created meanwhile), then running `E`
    against the storage yields a storage that represents `a'`; the live large-value slabs are
    given by `extraStep`. -/
theorem rep_step_gen (c : Codec SSlab β) (s : St SSlab β) (a a' : Arr)
    (extra : SlabID → Option Elem) (ctr ctr' : Nat) (E : List Eff) (created : List (SlabID × Elem))
    (hrep : Rep c s a extra ctr) (heff : EffectsComplete a a' E (created.map (·.1)))
    (haddr : a'.addr = a.addr) (hne : a.addr ≠ 0) (hle : ctr ≤ ctr')
    (hcr : ∀ p ∈ created, p.1.idx ≤ ctr') :
    Rep c (applyEffs c s (stored a' (AList.find? created)) E) a' (extraStep a' E created extra) ctr' := by
  refine ⟨?_, ?_⟩
  · intro id hid
    have hid0 : id.addr = a.addr := hid.trans haddr
    have hu := ne_undef_of_addr hid0 hne
    rw [view_applyEffs c s _ E id hu (content_wf heff id)]
    cases hl : lastAction E id with
    | none =>
      simp only
      rw [hrep.view id hid0]
      cases hs' : a'.slabAt id with
      | some p =>
        have heq : a'.slabAt id = a.slabAt id := by
          apply Classical.byContradiction
          intro hne'
          have := heff.changed_stored id (by rw [hs']; rfl) hne'
          rw [hl] at this; cases this
        rw [stored_of_some hs', stored_of_some (heq ▸ hs')]
      | none =>
        have hs : a.slabAt id = none := by
          cases hs : a.slabAt id with
          | none => rfl
          | some p =>
            have := heff.gone_removed id (by rw [hs]; rfl) (by rw [hs']; rfl)
            rw [hl] at this; cases this
        rw [stored_of_none hs', stored_of_none hs]
        simp [extraStep, hs', hl]
    | some b =>
      cases b with
      | true =>
        simp only
        cases hs' : a'.slabAt id with
        | some p => rw [stored_of_some hs', stored_of_some hs']
        | none =>
          rw [stored_of_none hs', stored_of_none hs']
          simp [extraStep, hs', hl]
      | false =>
        simp only
        have hs' : a'.slabAt id = none := by
          have := heff.removed_not_in_tree id hl
          cases hs : a'.slabAt id with
          | none => rfl
          | some p => rw [hs] at this; cases this
        rw [stored_of_none hs']
        simp [extraStep, hs', hl]
  · intro id hsome
    unfold extraStep at hsome
    split at hsome
    · cases hsome
    · rename_i hns
      refine ⟨by cases hs : a'.slabAt id <;> simp_all, ?_⟩
      split at hsome
      · cases hf : AList.find? created id with
        | none => rw [hf] at hsome; cases hsome
        | some v => exact hcr _ (mem_of_find?_some hf)
      · cases hsome
      · exact Nat.le_trans (hrep.extra_fresh id hsome).2 hle

/-! ### the live large-value slabs are the created ones

With the footprint of the log (`Acct.foot`: an event touches a slab of the old tree or a slab
allocated during the operation) and the fact that every created large-value slab is stored and
stays stored, `extraStep` is "the old ones plus the created ones". -/

theorem find?_append {α : Type} (l1 l2 : List (SlabID × α)) (k : SlabID) :
    AList.find? (l1 ++ l2) k = (AList.find? l1 k).or (AList.find? l2 k) := by
  induction l1 with
  | nil => simp
  | cons p l1 ih =>
    obtain ⟨k', v'⟩ := p
    simp only [List.cons_append, AList.find?_cons]
    split
    · simp
    · exact ih

/-- `extraStep` from the lookup in the created list, for a log with footprint `foot` whose created
    slabs `C` are fresh, stored, and outside the new tree. -/
theorem extraStep_created (a a' : Arr) (E : List Eff) (old C : List (SlabID × Elem)) (ctr : Nat)
    (hold : ∀ id, (AList.find? old id).isSome → (a.slabAt id).isNone ∧ id.idx ≤ ctr)
    (hfoot : ∀ id, lastAction E id ≠ none → (a.slabAt id).isSome ∨ ctr < id.idx)
    (hstored : ∀ id, lastAction E id = some true → (a'.slabAt id).isSome ∨ id ∈ C.map (·.1))
    (hkeep : ∀ id, (a.slabAt id).isNone → ctr < id.idx ∨ (a'.slabAt id).isNone)
    (hC : ∀ id ∈ C.map (·.1), ctr < id.idx ∧ lastAction E id = some true ∧ (a'.slabAt id).isNone) :
    extraStep a' E (old ++ C) (AList.find? old) = AList.find? (old ++ C) := by
  funext id
  rw [find?_append]
  unfold extraStep
  cases hfo : AList.find? old id with
  | some v =>
    -- an old large-value slab: untouched
    obtain ⟨h1, h2⟩ := hold id (by rw [hfo]; rfl)
    have hla : lastAction E id = none := by
      apply Classical.byContradiction
      intro hne
      rcases hfoot id hne with h | h
      · cases hs : a.slabAt id <;> simp_all
      · omega
    have hs' : (a'.slabAt id).isSome = false := by
      rcases hkeep id h1 with h | h
      · omega
      · cases hs : a'.slabAt id <;> simp_all
    simp [hs', hla]
  | none =>
    simp only [Option.none_or]
    by_cases hin : id ∈ C.map (·.1)
    · obtain ⟨_, h2, h3⟩ := hC id hin
      have hs' : (a'.slabAt id).isSome = false := by cases hs : a'.slabAt id <;> simp_all
      simp [hs', h2, find?_append, hfo]
    · have hfc : AList.find? C id = none := (AList.find?_eq_none_iff C id).2 hin
      rw [hfc]
      split
      · rfl
      · split
        · rename_i hl
          rcases hstored id hl with h | h
          · simp_all
          · exact absurd h hin
        · rfl
        · rfl

end Atree.E2E
