import AtreeProofs.E2E.Dispose
/-
  Histories with disposal (audit a1 F2): every request keeps `GoodD` (exact heap) and follows the
  `List` semantics.
-/
namespace Atree.E2ED
open Atree Gen E2E St

variable {β : Type}

theorem resolves_iff (st : Arr × Ctx) : Resolves st ↔ E2E.RefsOk st := by
  constructor
  · intro h e he y hy
    exact h y (mem_refIdsOf.2 ⟨e, he, hy⟩)
  · intro h id hid
    obtain ⟨e, he, hy⟩ := mem_refIdsOf.1 hid
    exact h e he id hy

theorem stepSum_of_acct {T : Nat} {a a' : Arr} {ctx ctx' : Ctx} {E : List Eff} {C : List (SlabID × Elem)}
    (hinv : ArrInv T a ctx.ctr) (hlog : Log ctx ctx' E C)
    (hacct : Acct ctx.ctr (ATree.slabs a.d a.root) (ATree.slabs a'.d a'.root) E (C.map (·.1)))
    (hcr : CreatedOk a.addr ctx.ctr ctx'.ctr E (C.map (·.1)) (ATree.slabIds a'.d a'.root))
    (hal : AllocCnt a.addr ctx ctx' E) (hinv' : ArrInv T a' ctx'.ctr)
    (hid : a'.rootID = a.rootID) (hty : a'.ty = a.ty) : StepSum T a ctx a' ctx' E C :=
  ⟨hlog, effectsComplete_of_acct hacct hinv.ids.1 hid hty, (foot_of_acct hacct).1, hcr, hal, hinv',
    C09R.addr_of_rootID hid⟩

/-- `Insert` -/
theorem goodD_insert (c : Codec SSlab β) (hc : RoundTrip c) (T : Nat) (hT : legalThreshold T = true)
    (x : (Arr × Ctx) × St SSlab β) (hg : GoodD c T x) (i : Nat) (v : Elem) (hv : ValueOk v) :
    GoodD c T (stepD c T x (.insert i v)) ∧
    values (stepD c T x (.insert i v)).1 = specStep (values x.1) (.insert i v) ∧
    (stepD c T x (.insert i v)).1.1.rootID = x.1.1.rootID ∧
    (stepD c T x (.insert i v)).1.1.ty = x.1.1.ty := by
  obtain ⟨⟨a, ctx⟩, s⟩ := x
  have hlen : a.count = a.toList.length := count_eq_length hg.inv
  simp only [stepD, stepS, stepA, handed, specStep, values_length]
  by_cases hok : a.toList.length < maxArrayElementCount ∧ i ≤ a.toList.length
  · obtain ⟨hcount, hi⟩ := hok
    obtain ⟨a', ctx', heq, hinv', hlist, hid, hty⟩ :=
      arr_insert_ok hT a ctx i v hv hg.inv (by omega) hi
    rw [heq]
    simp only [hcount, hi, and_self, if_true]
    obtain ⟨E, C, hlog, hacct⟩ := arr_insert_acct hT a ctx i v hv hg.inv a' ctx' heq
    obtain ⟨E', C', hlog', hcr, hal, hC⟩ := arr_insert_created hT a ctx i v hv hg.inv a' ctx' heq
    obtain ⟨rfl, rfl⟩ := hlog.unique hlog'
    have sum := stepSum_of_acct hg.inv hlog hacct hcr hal hinv' hid hty
    obtain ⟨hR', hperm⟩ := C09R.refs_insert T hT a ctx i v hv hg.inv hg.refsR a' ctx' heq
    have hCids : C.map (·.1) = refIdsOf [(toStorable T a.addr v ctx).1] := by
      rw [hC]; exact C09R.crOf_ids T a.addr v ctx hv
    have hcre : ctx'.created = ctx.created ++ crOf T a.addr v ctx := by rw [hlog.created, hC]
    obtain ⟨hres, _⟩ := resolve_storedForm T a.addr v ctx hv hg.cle
    refine ⟨goodD_step c hc T a ctx s a' ctx' E C [] hg sum hR' ?_ (fun _ h => by cases h) ?_ ?_,
      ?_, hid, hty⟩
    · intro id hin
      rw [hCids] at hin
      exact hperm.mem_iff.2 (List.mem_append.2 (Or.inl hin))
    · intro id hin
      exact Or.inr (hperm.mem_iff.2 (List.mem_append.2 (Or.inr hin)))
    · intro id hin
      rcases List.mem_append.1 (hperm.mem_iff.1 hin) with h | h
      · right; rw [hCids]; exact h
      · exact Or.inl h
    · simp only [values]
      rw [hlist, map_insertIdx', hcre, hres,
        values_append a ctx.created _ ((resolves_iff (a, ctx)).1 hg.res) rfl]
  · have herr : ∃ e, a.insert T i v ctx = .error e := by
      by_cases hcount : a.count = maxArrayElementCount
      · exact ⟨_, by unfold Arr.insert; rw [if_pos hcount]⟩
      · refine ⟨_, arr_insert_err a ctx i v hg.inv hcount ?_⟩
        have hlt : a.count < maxArrayElementCount + 1 := hg.inv.count_lt
        omega
    obtain ⟨e, he⟩ := herr
    rw [he]
    simp only [hok, if_false]
    refine ⟨goodD_unchanged c T ((a, ctx), s) hg, ?_, ?_, ?_⟩ <;> first | rfl | trivial

theorem stepD_append (c : Codec SSlab β) (T : Nat) (x : (Arr × Ctx) × St SSlab β) (v : Elem) :
    stepD c T x (.append v) = stepD c T x (.insert x.1.1.count v) := rfl

/-- what `Set` / `Remove` do to the references: `old` leaves, the stored form of `v` enters -/
theorem refs_perm_set (l : List Elem) (i : Nat) (e : Elem) (hi : i < l.length) :
    (refIdsOf l).Perm (refIdsOf [l.getD i default] ++ refIdsOf (l.eraseIdx i)) ∧
    (refIdsOf (l.set i e)).Perm (refIdsOf [e] ++ refIdsOf (l.eraseIdx i)) := by
  constructor
  · rw [← refIdsOf_cons]; exact refIdsOf_perm (perm_old_eraseIdx _ _ hi)
  · rw [← refIdsOf_cons]; exact refIdsOf_perm (perm_set_eraseIdx _ _ _ hi)

/-- `Set` -/
theorem goodD_set (c : Codec SSlab β) (hc : RoundTrip c) (T : Nat) (hT : legalThreshold T = true)
    (x : (Arr × Ctx) × St SSlab β) (hg : GoodD c T x) (i : Nat) (v : Elem) (hv : ValueOk v) :
    GoodD c T (stepD c T x (.set i v)) ∧
    values (stepD c T x (.set i v)).1 = specStep (values x.1) (.set i v) ∧
    (stepD c T x (.set i v)).1.1.rootID = x.1.1.rootID ∧
    (stepD c T x (.set i v)).1.1.ty = x.1.1.ty := by
  obtain ⟨⟨a, ctx⟩, s⟩ := x
  simp only [stepD, stepS, stepA, handed, specStep, values_length]
  by_cases hi : i < a.toList.length
  · obtain ⟨a', ctx', heq, hinv', hlist, hid, hty⟩ := arr_set_ok hT a ctx i v hv hg.inv hi
    rw [heq]
    simp only [hi, if_true]
    obtain ⟨E, C, hlog, hacct⟩ := arr_set_acct hT a ctx i v hv hg.inv _ a' ctx' heq
    obtain ⟨E', C', hlog', hcr, hal, hC⟩ := arr_set_created hT a ctx i v hv hg.inv _ a' ctx' heq
    obtain ⟨rfl, rfl⟩ := hlog.unique hlog'
    have sum := stepSum_of_acct hg.inv hlog hacct hcr hal hinv' hid hty
    obtain ⟨hR', hback⟩ := C09R.refs_set T hT a ctx i v hv hg.inv hg.refsR _ a' ctx' heq
    have hCids : C.map (·.1) = refIdsOf [(toStorable T a.addr v ctx).1] := by
      rw [hC]; exact C09R.crOf_ids T a.addr v ctx hv
    have hcre : ctx'.created = ctx.created ++ crOf T a.addr v ctx := by rw [hlog.created, hC]
    obtain ⟨hres, _⟩ := resolve_storedForm T a.addr v ctx hv hg.cle
    obtain ⟨hp, hp'⟩ := refs_perm_set a.toList i (toStorable T a.addr v ctx).1 hi
    have hp2 : a'.refIds.Perm (refIdsOf [(toStorable T a.addr v ctx).1] ++ refIdsOf (a.toList.eraseIdx i)) := by
      unfold Arr.refIds; rw [hlist]; exact hp'
    refine ⟨goodD_step c hc T a ctx s a' ctx' E C _ hg sum hR' ?_ ?_ ?_ ?_, ?_, hid, hty⟩
    · intro id hin
      rw [hCids] at hin
      exact hp2.mem_iff.2 (List.mem_append.2 (Or.inl hin))
    · intro id hin
      obtain ⟨e, he, hpay⟩ := mem_refIdsOf.1 hin
      simp only [List.mem_singleton] at he
      subst he
      exact (hback id hpay).2
    · intro id hin
      rcases List.mem_append.1 (hp.mem_iff.1 hin) with h | h
      · exact Or.inl h
      · exact Or.inr (hp2.mem_iff.2 (List.mem_append.2 (Or.inr h)))
    · intro id hin
      rcases List.mem_append.1 (hp2.mem_iff.1 hin) with h | h
      · right; rw [hCids]; exact h
      · exact Or.inl (hp.mem_iff.2 (List.mem_append.2 (Or.inr h)))
    · simp only [values]
      rw [hlist, List.map_set, hcre, hres,
        values_append a ctx.created _ ((resolves_iff (a, ctx)).1 hg.res) rfl]
  · have he := arr_set_err a ctx i v hg.inv (by omega)
    rw [he]
    simp only [hi, if_false]
    refine ⟨goodD_unchanged c T ((a, ctx), s) hg, ?_, ?_, ?_⟩ <;> first | rfl | trivial

/-- `Remove` -/
theorem goodD_remove (c : Codec SSlab β) (hc : RoundTrip c) (T : Nat) (hT : legalThreshold T = true)
    (x : (Arr × Ctx) × St SSlab β) (hg : GoodD c T x) (i : Nat) :
    GoodD c T (stepD c T x (.remove i)) ∧
    values (stepD c T x (.remove i)).1 = specStep (values x.1) (.remove i) ∧
    (stepD c T x (.remove i)).1.1.rootID = x.1.1.rootID ∧
    (stepD c T x (.remove i)).1.1.ty = x.1.1.ty := by
  obtain ⟨⟨a, ctx⟩, s⟩ := x
  simp only [stepD, stepS, stepA, handed, specStep, values_length]
  by_cases hi : i < a.toList.length
  · obtain ⟨a', ctx', heq, hinv', hlist, hid, hty⟩ := arr_remove_ok hT a ctx i hg.inv hi
    rw [heq]
    simp only [hi, if_true]
    obtain ⟨E, C, hlog, hacct⟩ := arr_remove_acct hT a ctx i hg.inv _ a' ctx' heq
    obtain ⟨E', hlog', hal⟩ := arr_remove_created a ctx i _ a' ctx' heq
    obtain ⟨rfl, rfl⟩ := hlog.unique hlog'
    have sum := stepSum_of_acct hg.inv hlog hacct (CreatedOk.nil _ _ _ _ _) (hal _) hinv' hid hty
    obtain ⟨hR', hback⟩ := C09R.refs_remove T hT a ctx i hg.inv hg.refsR _ a' ctx' heq
    have hcre : ctx'.created = ctx.created := by rw [hlog.created]; simp
    obtain ⟨hp, _⟩ := refs_perm_set a.toList i default hi
    have hp2 : a'.refIds = refIdsOf (a.toList.eraseIdx i) := by
      unfold Arr.refIds; rw [hlist]
    refine ⟨goodD_step c hc T a ctx s a' ctx' E [] _ hg sum hR' (fun _ h => by cases h) ?_ ?_ ?_,
      ?_, hid, hty⟩
    · intro id hin
      obtain ⟨e, he, hpay⟩ := mem_refIdsOf.1 hin
      simp only [List.mem_singleton] at he
      subst he
      exact (hback id hpay).2
    · intro id hin
      rcases List.mem_append.1 (hp.mem_iff.1 hin) with h | h
      · exact Or.inl h
      · exact Or.inr (by rw [hp2]; exact h)
    · intro id hin
      rw [hp2] at hin
      exact Or.inl (hp.mem_iff.2 (List.mem_append.2 (Or.inr hin)))
    · simp only [values]
      rw [hlist, map_eraseIdx', hcre]
  · have he := arr_remove_err a ctx i hg.inv (by omega)
    rw [he]
    simp only [hi, if_false]
    refine ⟨goodD_unchanged c T ((a, ctx), s) hg, ?_, ?_, ?_⟩ <;> first | rfl | trivial

/-- `PopIterate` -/
theorem goodD_pop (c : Codec SSlab β) (hc : RoundTrip c) (T : Nat) (hT : legalThreshold T = true)
    (x : (Arr × Ctx) × St SSlab β) (hg : GoodD c T x) :
    GoodD c T (stepD c T x .popIterate) ∧
    values (stepD c T x .popIterate).1 = specStep (values x.1) .popIterate ∧
    (stepD c T x .popIterate).1.1.rootID = x.1.1.rootID ∧
    (stepD c T x .popIterate).1.1.ty = x.1.1.ty := by
  obtain ⟨⟨a, ctx⟩, s⟩ := x
  simp only [stepD, stepS, stepA, handed, specStep]
  obtain ⟨h1, h2, h3, h4⟩ := arr_popIterate_refines a ctx
  obtain ⟨hcre, hctr⟩ := arr_popIterate_ctx a ctx
  obtain ⟨E0, heffs, hE1, hE2⟩ := arr_popIterate_eff a ctx hg.inv.standalone
  have hinv' := arr_popIterate_inv hT a ctx hg.inv
  obtain ⟨heff, _, _⟩ := C09.pop_releases_all T hT a ctx hg.inv
  obtain ⟨hR', hnil, _, _, hiff, hnot⟩ := C09R.refs_popIterate T hT a ctx hg.inv hg.refsR
  generalize hr : a.popIterate ctx = r at *
  obtain ⟨es, a', ctx'⟩ := r
  simp only at *
  have hlog : Log ctx ctx' (E0 ++ [.store a.rootID]) [] := by
    refine ⟨heffs, by simp [hcre], by omega, ?_⟩
    intro addr id hm
    rcases List.mem_append.1 hm with h | h
    · obtain ⟨j, _, hj⟩ := hE1 _ h; cases hj
    · simp at h
  have hnE : C09.newEffects ctx ctx' = E0 ++ [.store a.rootID] := by
    unfold C09.newEffects; rw [heffs]; exact List.drop_left
  rw [hnE] at heff
  have haddr : a'.addr = a.addr := by unfold Arr.addr; rw [h3]
  have hfoot : ∀ id, lastAction (E0 ++ [.store a.rootID]) id ≠ none →
      (a.slabAt id).isSome ∨ ctx.ctr < id.idx := by
    intro id hne
    left
    rw [slabAt_isSome, slabIds_eq]
    rw [lastAction_concat_store] at hne
    split at hne
    · rename_i he; subst he; exact List.mem_cons_self
    · have hrem : ∀ e ∈ E0, ∃ i, e = Eff.remove i := fun e he => by
        obtain ⟨j, _, rfl⟩ := hE1 e he; exact ⟨j, rfl⟩
      have h5 := lastAction_only_removes E0 hrem id
      cases hl : lastAction E0 id with
      | none => exact absurd hl hne
      | some b =>
        cases b with
        | true => exact absurd hl h5.2
        | false =>
          obtain ⟨j, hj, hje⟩ := hE1 _ (h5.1.1 hl)
          cases hje
          exact List.mem_cons_of_mem _ hj
  have hal : AllocCnt a.addr ctx ctx' (E0 ++ [.store a.rootID]) := by
    unfold AllocCnt
    rw [hctr]
    have : nAllocAt a.addr (E0 ++ [.store a.rootID]) = 0 := by
      unfold nAllocAt
      rw [List.length_eq_zero_iff, List.filter_eq_nil_iff]
      intro e he
      rcases List.mem_append.1 he with h | h
      · obtain ⟨j, _, rfl⟩ := hE1 _ h; simp [isAllocAt]
      · simp at h; subst h; simp [isAllocAt]
    omega
  have sum : StepSum T a ctx a' ctx' (E0 ++ [.store a.rootID]) [] :=
    ⟨hlog, heff, hfoot, CreatedOk.nil _ _ _ _ _, hal, by rw [hctr] at hinv' ⊢; exact hinv', haddr⟩
  refine ⟨goodD_step c hc T a ctx s a' ctx' _ [] _ hg sum hR' (fun _ h => by cases h) ?_ ?_ ?_, ?_, h3, h4⟩
  · intro id hin
    exact ⟨by rw [hnil]; exact List.not_mem_nil, hnot id hin⟩
  · intro id hin
    exact Or.inl ((hiff id).2 hin)
  · intro id hin
    rw [hnil] at hin; cases hin
  · simp [values, h2]

/-- `SetType` -/
theorem goodD_setType (c : Codec SSlab β) (hc : RoundTrip c) (T : Nat)
    (x : (Arr × Ctx) × St SSlab β) (hg : GoodD c T x) (ty : Nat) :
    GoodD c T (stepD c T x (.setType ty)) ∧
    values (stepD c T x (.setType ty)).1 = specStep (values x.1) (.setType ty) ∧
    (stepD c T x (.setType ty)).1.1.rootID = x.1.1.rootID ∧
    (stepD c T x (.setType ty)).1.1.ty = ty := by
  obtain ⟨⟨a, ctx⟩, s⟩ := x
  simp only [stepD, stepS, stepA, handed, specStep]
  have hst := hg.inv.standalone
  have hres : a.setType ty ctx = ({ a with ty := ty }, ctx.emit (.store a.rootID)) := by
    unfold Arr.setType; rw [hst]; rfl
  rw [hres]
  have hslabs : ∀ id, id ≠ a.rootID → ({ a with ty := ty } : Arr).slabAt id = a.slabAt id := by
    intro id hne
    have hne' : ¬ id = ({ a with ty := ty } : Arr).rootID := hne
    simp only [Arr.slabAt, hne, hne', if_false]
  have hsome : ∀ id, (({ a with ty := ty } : Arr).slabAt id).isSome = (a.slabAt id).isSome := by
    intro id; simp [Arr.slabAt]
  have hla : ∀ id, lastAction [Eff.store a.rootID] id = if a.rootID = id then some true else none := by
    intro id
    have := lastAction_concat_store [] a.rootID id
    simpa using this
  have heff : EffectsComplete a { a with ty := ty } [.store a.rootID] (([] : List (SlabID × Elem)).map (·.1)) := by
    refine ⟨?_, ?_, ?_, ?_⟩
    · intro id _ hne
      rw [hla]
      by_cases h : a.rootID = id
      · simp [h]
      · exact absurd (hslabs id (fun e => h e.symm)) hne
    · intro id h1 h2
      have h3 := hsome id
      rw [h1] at h3
      cases hs : ({ a with ty := ty } : Arr).slabAt id <;> simp_all
    · intro id h
      rw [hla] at h
      split at h
      · rename_i he; subst he
        left
        rw [hsome, slabAt_isSome]
        exact hdr_id_mem_slabIds a.d a.root
      · cases h
    · intro id h
      rw [hla] at h
      split at h <;> cases h
  have hfoot : ∀ id, lastAction [Eff.store a.rootID] id ≠ none →
      (a.slabAt id).isSome ∨ ctx.ctr < id.idx := by
    intro id hne
    rw [hla] at hne
    split at hne
    · rename_i he; subst he
      left; rw [slabAt_isSome]; exact hdr_id_mem_slabIds a.d a.root
    · exact absurd rfl hne
  have hinv' : ArrInv T { a with ty := ty } (ctx.emit (.store a.rootID)).ctr := by
    have := C05.inv_setType T a ctx ty hg.inv
    rw [hres] at this
    exact this
  have hR' : ARefsOk { a with ty := ty } (ctx.emit (.store a.rootID)).ctr := by
    have := C09R.refs_setType a ctx ty hg.refsR
    rw [hres] at this
    exact this
  have sum : StepSum T a ctx { a with ty := ty } (ctx.emit (.store a.rootID)) [.store a.rootID] [] :=
    ⟨Log.store ctx a.rootID, heff, hfoot, CreatedOk.nil _ _ _ _ _, AllocCnt.store _ _ _, hinv', rfl⟩
  refine ⟨goodD_step c hc T a ctx s { a with ty := ty } (ctx.emit (.store a.rootID)) _ [] [] hg sum hR'
    (fun _ h => by cases h) (fun _ h => by cases h) (fun id h => Or.inr h) (fun id h => Or.inl h),
    rfl, rfl, rfl⟩

/-- EVERY REQUEST followed by disposal keeps the exact-heap invariant and follows the `List`
    semantics. -/
theorem goodD_stepD (c : Codec SSlab β) (hc : RoundTrip c) (T : Nat) (hT : legalThreshold T = true)
    (x : (Arr × Ctx) × St SSlab β) (hg : GoodD c T x) (op : AOp) (hop : op.Ok) :
    GoodD c T (stepD c T x op) ∧
    values (stepD c T x op).1 = specStep (values x.1) op ∧
    (stepD c T x op).1.1.rootID = x.1.1.rootID ∧
    (stepD c T x op).1.1.ty = specTy x.1.1.ty [op] := by
  cases op with
  | insert i v => exact goodD_insert c hc T hT x hg i v hop
  | append v =>
    rw [stepD_append]
    obtain ⟨h1, h2, h3, h4⟩ := goodD_insert c hc T hT x hg x.1.1.count v hop
    refine ⟨h1, ?_, h3, h4⟩
    rw [h2]
    have hlen := count_eq_length hg.inv
    simp only [specStep, values_length, hlen, Nat.le_refl, and_true]
    split
    · rw [← values_length, List.insertIdx_length_self]
    · rfl
  | set i v => exact goodD_set c hc T hT x hg i v hop
  | remove i => exact goodD_remove c hc T hT x hg i
  | popIterate => exact goodD_pop c hc T hT x hg
  | setType ty => exact goodD_setType c hc T x hg ty

/-- a whole history -/
theorem goodD_runD (c : Codec SSlab β) (hc : RoundTrip c) (T : Nat) (hT : legalThreshold T = true) :
    ∀ (ops : List AOp) (x : (Arr × Ctx) × St SSlab β), GoodD c T x → (∀ op ∈ ops, op.Ok) →
    GoodD c T (runD c T x ops) ∧ values (runD c T x ops).1 = specRun (values x.1) ops ∧
    (runD c T x ops).1.1.rootID = x.1.1.rootID ∧ (runD c T x ops).1.1.ty = specTy x.1.1.ty ops
  | [], x, hg, _ => ⟨hg, rfl, rfl, rfl⟩
  | op :: ops, x, hg, hok => by
    obtain ⟨g1, g2, g3, g4⟩ := goodD_stepD c hc T hT x hg op (hok op (by simp))
    obtain ⟨r1, r2, r3, r4⟩ := goodD_runD c hc T hT ops (stepD c T x op) g1
      (fun o ho => hok o (by simp [ho]))
    refine ⟨r1, ?_, ?_, ?_⟩
    · show values (runD c T (stepD c T x op) ops).1 = specRun (specStep (values x.1) op) ops
      rw [r2, g2]
    · show (runD c T (stepD c T x op) ops).1.1.rootID = _
      rw [r3, g3]
    · show (runD c T (stepD c T x op) ops).1.1.ty = _
      rw [r4, g4, specTy_cons]
      rfl

/-- `NewArray` on an empty storage satisfies the invariant -/
theorem goodD_new (c : Codec SSlab β) (hc : RoundTrip c) (T : Nat) (hT : legalThreshold T = true)
    (addr ty : Nat) (haddr : addr ≠ 0) : GoodD c T (newS c addr ty) := by
  obtain ⟨hg, _, _, _⟩ := good_new c hc T hT addr ty haddr
  have hlive : live (newS c addr ty).1 = AList.find? (newS c addr ty).1.2.created := by
    funext id
    rfl
  refine ⟨hg.inv, C09R.refs_new addr ty _, ?_, hg.st, hg.addr, hg.sync, hg.caddr, hg.created_le, ?_⟩
  · rw [hlive]; exact hg.rep
  · intro id hid; cases hid

end Atree.E2ED
