import AtreeProofs.E2E.Dispose
/-
  Histories with disposal (audit a1 F2): every request keeps `GoodD` (exact heap) and follows the
  `List` semantics.
-/
namespace Atree.E2ED
open Atree Gen E2E St

variable {β : Type}

theorem resolves_iff (st : Arr × Ctx) : Resolves st ↔ E2E.RefsOk st := by
  constructor
  · intro h e he y hy
    exact h y (mem_refIdsOf.2 ⟨e, he, hy⟩)
  · intro h id hid
    obtain ⟨e, he, hy⟩ := mem_refIdsOf.1 hid
    exact h e he id hy

theorem stepSum_of_acct {T : Nat} {a a' : Arr} {ctx ctx' : Ctx} {E : List Eff} {C : List (SlabID × Elem)}
    (hinv : ArrInv T a ctx.ctr) (hlog : Log ctx ctx' E C)
    (hacct : Acct ctx.ctr (ATree.slabs a.d a.root) (ATree.slabs a'.d a'.root) E (C.map (·.1)))
    (hcr : CreatedOk a.addr ctx.ctr ctx'.ctr E (C.map (·.1)) (ATree.slabIds a'.d a'.root))
    (hal : AllocCnt a.addr ctx ctx' E) (hinv' : ArrInv T a' ctx'.ctr)
    (hid : a'.rootID = a.rootID) (hty : a'.ty = a.ty) : StepSum T a ctx a' ctx' E C :=
  ⟨hlog, effectsComplete_of_acct hacct hinv.ids.1 hid hty, (foot_of_acct hacct).1, hcr, hal, hinv',
    C09R.addr_of_rootID hid⟩

/-- `Insert` -/
theorem goodD_insert (c : Codec SSlab β) (hc : RoundTrip c) (T : Nat) (hT : legalThreshold T = true)
    (x : (Arr × Ctx) × St SSlab β) (hg : GoodD c T x) (i : Nat) (v : Elem) (hv : ValueOk v) :
    GoodD c T (stepD c T x (.insert i v)) ∧
    values (stepD c T x (.insert i v)).1 = specStep (values x.1) (.insert i v) ∧
    (stepD c T x (.insert i v)).1.1.rootID = x.1.1.rootID ∧
    (stepD c T x (.insert i v)).1.1.ty = x.1.1.ty := by
  obtain ⟨⟨a, ctx⟩, s⟩ := x
  have hlen : a.count = a.toList.length := count_eq_length hg.inv
  simp only [stepD, stepS, stepA, handed, specStep, values_length]
  by_cases hok : a.toList.length < maxArrayElementCount ∧ i ≤ a.toList.length
  · obtain ⟨hcount, hi⟩ := hok
    obtain ⟨a', ctx', heq, hinv', hlist, hid, hty⟩ :=
      arr_insert_ok hT a ctx i v hv hg.inv (by omega) hi
    rw [heq]
    simp only [hcount, hi, and_self, if_true]
    obtain ⟨E, C, hlog, hacct⟩ := arr_insert_acct hT a ctx i v hv hg.inv a' ctx' heq
    obtain ⟨E', C', hlog', hcr, hal, hC⟩ := arr_insert_created hT a ctx i v hv hg.inv a' ctx' heq
    obtain ⟨rfl, rfl⟩ := hlog.unique hlog'
    have sum := stepSum_of_acct hg.inv hlog hacct hcr hal hinv' hid hty
    obtain ⟨hR', hperm⟩ := C09R.refs_insert T hT a ctx i v hv hg.inv hg.refsR a' ctx' heq
    have hCids : C.map (·.1) = refIdsOf [(toStorable T a.addr v ctx).1] := by
      rw [hC]; exact C09R.crOf_ids T a.addr v ctx hv
    have hcre : ctx'.created = ctx.created ++ crOf T a.addr v ctx := by rw [hlog.created, hC]
    obtain ⟨hres, _⟩ := resolve_storedForm T a.addr v ctx hv hg.cle
    refine ⟨goodD_step c hc T a ctx s a' ctx' E C [] hg sum hR' ?_ (fun _ h => by cases h) ?_ ?_,
      ?_, hid, hty⟩
    · intro id hin
      rw [hCids] at hin
      exact hperm.mem_iff.2 (List.mem_append.2 (Or.inl hin))
    · intro id hin
      exact Or.inr (hperm.mem_iff.2 (List.mem_append.2 (Or.inr hin)))
    · intro id hin
      rcases List.mem_append.1 (hperm.mem_iff.1 hin) with h | h
      · right; rw [hCids]; exact h
      · exact Or.inl h
    · simp only [values]
      rw [hlist, map_insertIdx', hcre, hres,
        values_append a ctx.created _ ((resolves_iff (a, ctx)).1 hg.res) rfl]
  · have herr : ∃ e, a.insert T i v ctx = .error e := by
      by_cases hcount : a.count = maxArrayElementCount
      · exact ⟨_, by unfold Arr.insert; rw [if_pos hcount]⟩
      · refine ⟨_, arr_insert_err a ctx i v hg.inv hcount ?_⟩
        have hlt : a.count < maxArrayElementCount + 1 := hg.inv.count_lt
        omega
    obtain ⟨e, he⟩ := herr
    rw [he]
    simp only [hok, if_false]
    refine ⟨goodD_unchanged c T ((a, ctx), s) hg, ?_, ?_, ?_⟩ <;> first | rfl | trivial

theorem stepD_append (c : Codec SSlab β) (T : Nat) (x : (Arr × Ctx) × St SSlab β) (v : Elem) :
    stepD c T x (.append v) = stepD c T x (.insert x.1.1.count v) := rfl

/-- what `Set` / `Remove` do to the references: `old` leaves, the stored form of `v` enters -/
theorem refs_perm_set (l : List Elem) (i : Nat) (e : Elem) (hi : i < l.length) :
    (refIdsOf l).Perm (refIdsOf [l.getD i default] ++ refIdsOf (l.eraseIdx i)) ∧
    (refIdsOf (l.set i e)).Perm (refIdsOf [e] ++ refIdsOf (l.eraseIdx i)) := by
  constructor
  · rw [← refIdsOf_cons]; exact refIdsOf_perm (perm_old_eraseIdx _ _ hi)
  · rw [← refIdsOf_cons]; exact refIdsOf_perm (perm_set_eraseIdx _ _ _ hi)

/-- `Set` -/
theorem goodD_set (c : Codec SSlab β) (hc : RoundTrip c) (T : Nat) (hT : legalThreshold T = true)
    (x : (Arr × Ctx) × St SSlab β) (hg : GoodD c T x) (i : Nat) (v : Elem) (hv : ValueOk v) :
    GoodD c T (stepD c T x (.set i v)) ∧
    values (stepD c T x (.set i v)).1 = specStep (values x.1) (.set i v) ∧
    (stepD c T x (.set i v)).1.1.rootID = x.1.1.rootID ∧
    (stepD c T x (.set i v)).1.1.ty = x.1.1.ty := by
  obtain ⟨⟨a, ctx⟩, s⟩ := x
  simp only [stepD, stepS, stepA, handed, specStep, values_length]
  by_cases hi : i < a.toList.length
  · obtain ⟨a', ctx', heq, hinv', hlist, hid, hty⟩ := arr_set_ok hT a ctx i v hv hg.inv hi
    rw [heq]
    simp only [hi, if_true]
    obtain ⟨E, C, hlog, hacct⟩ := arr_set_acct hT a ctx i v hv hg.inv _ a' ctx' heq
    obtain ⟨E', C', hlog', hcr, hal, hC⟩ := arr_set_created hT a ctx i v hv hg.inv _ a' ctx' heq
    obtain ⟨rfl, rfl⟩ := hlog.unique hlog'
    have sum := stepSum_of_acct hg.inv hlog hacct hcr hal hinv' hid hty
    obtain ⟨hR', hback⟩ := C09R.refs_set T hT a ctx i v hv hg.inv hg.refsR _ a' ctx' heq
    have hCids : C.map (·.1) = refIdsOf [(toStorable T a.addr v ctx).1] := by
      rw [hC]; exact C09R.crOf_ids T a.addr v ctx hv
    have hcre : ctx'.created = ctx.created ++ crOf T a.addr v ctx := by rw [hlog.created, hC]
    obtain ⟨hres, _⟩ := resolve_storedForm T a.addr v ctx hv hg.cle
    obtain ⟨hp, hp'⟩ := refs_perm_set a.toList i (toStorable T a.addr v ctx).1 hi
    have hp2 : a'.refIds.Perm (refIdsOf [(toStorable T a.addr v ctx).1] ++ refIdsOf (a.toList.eraseIdx i)) := by
      unfold Arr.refIds; rw [hlist]; exact hp'
    refine ⟨goodD_step c hc T a ctx s a' ctx' E C _ hg sum hR' ?_ ?_ ?_ ?_, ?_, hid, hty⟩
    · intro id hin
      rw [hCids] at hin
      exact hp2.mem_iff.2 (List.mem_append.2 (Or.inl hin))
    · intro id hin
      obtain ⟨e, he, hpay⟩ := mem_refIdsOf.1 hin
      simp only [List.mem_singleton] at he
      subst he
      exact (hback id hpay).2
    · intro id hin
      rcases List.mem_append.1 (hp.mem_iff.1 hin) with h | h
      · exact Or.inl h
      · exact Or.inr (hp2.mem_iff.2 (List.mem_append.2 (Or.inr h)))
    · intro id hin
      rcases List.mem_append.1 (hp2.mem_iff.1 hin) with h | h
      · right; rw [hCids]; exact h
      · exact Or.inl (hp.mem_iff.2 (List.mem_append.2 (Or.inr h)))
    · simp only [values]
      rw [hlist, List.map_set, hcre, hres,
        values_append a ctx.created _ ((resolves_iff (a, ctx)).1 hg.res) rfl]
  · have he := arr_set_err a ctx i v hg.inv (by omega)
    rw [he]
    simp only [hi, if_false]
    refine ⟨goodD_unchanged c T ((a, ctx), s) hg, ?_, ?_, ?_⟩ <;> first | rfl | trivial

/-- `Remove` -/
theorem goodD_remove (c : Codec SSlab β) (hc : RoundTrip c) (T : Nat) (hT : legalThreshold T = true)
    (x : (Arr × Ctx) × St SSlab β) (hg : GoodD c T x) (i : Nat) :
    GoodD c T (stepD c T x (.remove i)) ∧
    values (stepD c T x (.remove i)).1 = specStep (values x.1) (.remove i) ∧
    (stepD c T x (.remove i)).1.1.rootID = x.1.1.rootID ∧
    (stepD c T x (.remove i)).1.1.ty = x.1.1.ty := by
  obtain ⟨⟨a, ctx⟩, s⟩ := x
  simp only [stepD, stepS, stepA, handed, specStep, values_length]
  by_cases hi : i < a.toList.length
  · obtain ⟨a', ctx', heq, hinv', hlist, hid, hty⟩ := arr_remove_ok hT a ctx i hg.inv hi
    rw [heq]
    simp only [hi, if_true]
    obtain ⟨E, C, hlog, hacct⟩ := arr_remove_acct hT a ctx i hg.inv _ a' ctx' heq
    obtain ⟨E', hlog', hal⟩ := arr_remove_created a ctx i _ a' ctx' heq
    obtain ⟨rfl, rfl⟩ := hlog.unique hlog'
    have sum := stepSum_of_acct hg.inv hlog hacct (CreatedOk.nil _ _ _ _ _) (hal _) hinv' hid hty
    obtain ⟨hR', hback⟩ := C09R.refs_remove T hT a ctx i hg.inv hg.refsR _ a' ctx' heq
    have hcre : ctx'.created = ctx.created := by rw [hlog.created]; simp
    obtain ⟨hp, _⟩ := refs_perm_set a.toList i default hi
    have hp2 : a'.refIds = refIdsOf (a.toList.eraseIdx i) := by
      unfold Arr.refIds; rw [hlist]
    refine ⟨goodD_step c hc T a ctx s a' ctx' E [] _ hg sum hR' (fun _ h => by cases h) ?_ ?_ ?_,
      ?_, hid, hty⟩
    · intro id hin
      obtain ⟨e, he, hpay⟩ := mem_refIdsOf.1 hin
      simp only [List.mem_singleton] at he
      subst he
      exact (hback id hpay).2
    · intro id hin
      rcases List.mem_append.1 (hp.mem_iff.1 hin) with h | h
      · exact Or.inl h
      · exact Or.inr (by rw [hp2]; exact h)
    · intro id hin
      rw [hp2] at hin
      exact Or.inl (hp.mem_iff.2 (List.mem_append.2 (Or.inr hin)))
    · simp only [values]
      rw [hlist, map_eraseIdx', hcre]
  · have he := arr_remove_err a ctx i hg.inv (by omega)
    rw [he]
    simp only [hi, if_false]
    refine ⟨goodD_unchanged c T ((a, ctx), s) hg, ?_, ?_, ?_⟩ <;> first | rfl | trivial

end Atree.E2ED
