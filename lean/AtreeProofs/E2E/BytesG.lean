import AtreeProofs.E2EBytesGSpec
import AtreeProofs.E2E.Bytes
import AtreeProofs.E2E.BytesHistory
/-
  Arrays with the byte codec and large-value slabs of any supported storable (`LargeInterp`): round
  trip, stored slabs encodable, no encoding failure along histories.
-/
namespace Atree.E2E
open Atree Atree.Codec Gen ATree

variable (I : LargeInterp) {β : Type}

theorem toSlabG_tree (id : SlabID) (t : ASlab) (ty : Option Nat) :
    toSlabG I id (.tree t ty) = toSlab id (.tree t ty) := rfl

theorem ofSlabG_toSlab_tree (id : SlabID) (t : ASlab) (ty : Option Nat) :
    ofSlabG I (toSlab id (.tree t ty)) = ofSlab (toSlab id (.tree t ty)) := by
  cases t <;> rfl

theorem okG_tree (t : ASlab) (ty : Option Nat) : OkG I (.tree t ty) = OkS (.tree t ty) := rfl

/-- ROUND TRIP AT THE OWN KEY with general large-value slabs -/
theorem decG_encG (v : SSlab) (ok : OkG I v) (id : SlabID) (hid : ownId v = id ∨ ∃ e, v = .large e) :
    decG I id (encG I v) = some v := by
  cases v with
  | large e =>
    have hok : I.ok e = true := ok
    unfold decG encG
    by_cases hf : (I.γ e).isFlat = true
    · obtain ⟨_, hv⟩ := I.flat e hok hf
      simp only [toSlabG, hf, if_true, encodeSlab]
      rw [C07.decode_encode_storable id e hv 0]
      rfl
    · have hf' : (I.γ e).isFlat = false := by cases h : (I.γ e).isFlat <;> simp_all
      obtain ⟨x, hx, h1, h2, h3⟩ := I.wrapped e hok hf'
      simp only [toSlabG, hf', Bool.false_eq_true, if_false, encodeSlab]
      rw [hx, C07.decode_encode_storable_wrapped id x h1 h2 h3 0]
      simp only [ofSlabG]
      rw [← hx, I.inv e hok]
      rfl
  | tree t ty =>
    have ok' : OkS (.tree t ty) := ok
    have hown : ownId (.tree t ty) = id := by
      rcases hid with h | ⟨e, he⟩
      · exact h
      · cases he
    have hsid : (toSlab (ownId (.tree t ty)) (.tree t ty)).id = id := by
      rw [toSlab_id _ _ (Or.inl rfl)]; exact hown
    have := C07.decode_encode_flat (toSlab (ownId (.tree t ty)) (.tree t ty)) ok' 0
    rw [hsid] at this
    unfold decG encG
    rw [toSlabG_tree, this]
    show ofSlabG I (toSlab (ownId (.tree t ty)) (.tree t ty)) = _
    rw [ofSlabG_toSlab_tree]
    exact ofSlab_toSlab _ _

/-- the keyed byte codec with general large-value slabs satisfies the abstract round-trip law -/
theorem keyedCodecG_roundTrip : RoundTrip (keyedCodecG I) := by
  intro id v b h
  simp only [keyedCodecG] at h ⊢
  split at h
  · rename_i ok
    cases h
    exact decG_encG I v ok (ownId v) (Or.inl rfl)
  · cases h

theorem keyedCodecG_enc_isSome (v : SSlab) (ok : OkG I v) : ((keyedCodecG I).enc v).isSome := by
  simp [keyedCodecG, ok]

/-- what makes the stored slabs encodable (as `EncOk`, large values through the interpretation) -/
structure EncOkG (a : Arr) (extra : SlabID → Option Elem) (ctr : Nat) : Prop where
  elems : ∀ e ∈ a.toList, validElem e
  extra : ∀ id v, extra id = some v → I.ok v = true
  addr : a.addr < 2 ^ 64
  ctr : ctr < 2 ^ 64
  ty : a.ty < 2 ^ 64

/-- STORED SLABS ARE ENCODABLE (general large-value slabs) -/
theorem stored_okG {T : Nat} (hT : legalThreshold T = true) (a : Arr) (extra : SlabID → Option Elem)
    (ctr : Nat) (hinv : ArrInv T a ctr) (henc : EncOkG I a extra ctr) (id : SlabID) (v : SSlab)
    (hv : stored a extra id = some v) :
    OkG I v ∧ (ownId v = id ∨ ∃ e, v = .large e) := by
  cases hs : a.slabAt id with
  | none =>
    rw [stored_of_none hs] at hv
    cases he : extra id with
    | none => rw [he] at hv; cases hv
    | some e =>
      rw [he] at hv
      simp only [Option.map_some, Option.some.injEq] at hv
      subst hv
      exact ⟨henc.extra id e he, Or.inr ⟨e, rfl⟩⟩
  | some p =>
    rw [stored_of_some hs] at hv
    simp only [Option.some.injEq] at hv
    subst hv
    have h0 : stored a (fun _ => none) id = some (.tree p.1 p.2) := stored_of_some hs
    have := stored_ok hT a (fun _ => none) ctr hinv
      ⟨henc.elems, (fun _ _ h => by cases h), henc.addr, henc.ctr, henc.ty⟩ id _ h0
    exact ⟨this.1, this.2⟩

/-! ### histories -/

structure EncStG (st : Arr × Ctx) : Prop where
  elems : ∀ e ∈ st.1.toList, ElemEnc e
  created : ∀ p ∈ st.2.created, I.ok p.2 = true
  ty : st.1.ty < 2 ^ 64

/-- the stored form of an encodable value is encodable, and what is created is encodable -/
theorem storedForm_encG (T addr : Nat) (v : Elem) (ctx : Ctx) (hv : ValueOk v)
    (h1 : v.size ≤ maxInlineArr T → validElem v) (h2 : maxInlineArr T < v.size → I.ok v = true) :
    ElemEnc (toStorable T addr v ctx).1 ∧ ∀ p ∈ crOf T addr v ctx, I.ok p.2 = true := by
  obtain ⟨_, n, hn⟩ := hv
  unfold crOf toStorable
  rw [hn]
  simp only
  split
  · rename_i hgt
    refine ⟨by simp [ElemEnc], ?_⟩
    intro p hp
    simp [Ctx.alloc] at hp
    rw [hp]; exact h2 hgt
  · rename_i hle
    refine ⟨elemEnc_of_valid (h1 (by omega)) ⟨n, hn⟩, ?_⟩
    intro p hp
    simp at hp

theorem encStG_insert (c : Codec SSlab β) (T : Nat) (hT : legalThreshold T = true)
    (a : Arr) (ctx : Ctx) (s : St SSlab β) (hg : Good c T ((a, ctx), s)) (he : EncStG I (a, ctx))
    (i : Nat) (v : Elem) (hop : ValueOk v)
    (h1 : v.size ≤ maxInlineArr T → validElem v) (h2 : maxInlineArr T < v.size → I.ok v = true) :
    EncStG I (stepA T (a, ctx) (.insert i v)) := by
  simp only [stepA]
  cases hr : a.insert T i v ctx with
  | error e => exact he
  | ok res =>
    obtain ⟨a', ctx'⟩ := res
    simp only
    have hne : a.count ≠ maxArrayElementCount := by
      intro heq; unfold Arr.insert at hr; rw [if_pos heq] at hr; cases hr
    have hclt : a.count < maxArrayElementCount + 1 := hg.inv.count_lt
    have hlt : a.count < maxArrayElementCount := by omega
    rcases Nat.lt_or_ge a.toList.length i with hi | hi
    · rw [arr_insert_err a ctx i v hg.inv hne hi] at hr; cases hr
    · obtain ⟨a2, c2, heq, _, hlist, _, hty⟩ := arr_insert_ok hT a ctx i v hop hg.inv hlt hi
      rw [hr] at heq
      simp only [Except.ok.injEq, Prod.mk.injEq] at heq
      obtain ⟨rfl, rfl⟩ := heq
      obtain ⟨E, C, hlog, _, _, hC⟩ := arr_insert_created hT a ctx i v hop hg.inv a' ctx' hr
      obtain ⟨g1, g2⟩ := storedForm_encG I T a.addr v ctx hop h1 h2
      refine ⟨?_, ?_, by rw [hty]; exact he.ty⟩
      · intro e hmem
        simp only at hmem
        rw [hlist, List.mem_insertIdx hi] at hmem
        rcases hmem with rfl | hmem
        · exact g1
        · exact he.elems e hmem
      · intro p hp
        simp only at hp
        rw [hlog.created, hC] at hp
        rcases List.mem_append.1 hp with h | h
        · exact he.created p h
        · exact g2 p h

theorem encStG_step (c : Codec SSlab β) (T : Nat) (hT : legalThreshold T = true)
    (x : (Arr × Ctx) × St SSlab β) (hg : Good c T x) (he : EncStG I x.1) (op : AOp) (hop : op.Ok)
    (henc : AOp.EncG I T op) : EncStG I (stepA T x.1 op) := by
  obtain ⟨⟨a, ctx⟩, s⟩ := x
  cases op with
  | insert i v => exact encStG_insert I c T hT a ctx s hg he i v hop henc.1 henc.2
  | append v =>
    have : stepA T (a, ctx) (.append v) = stepA T (a, ctx) (.insert a.count v) := rfl
    rw [this]
    exact encStG_insert I c T hT a ctx s hg he a.count v hop henc.1 henc.2
  | set i v =>
    simp only [stepA]
    cases hr : a.set T i v ctx with
    | error e => exact he
    | ok res =>
      obtain ⟨old, a', ctx'⟩ := res
      simp only
      rcases Nat.lt_or_ge i a.toList.length with hi | hi
      · obtain ⟨a2, c2, heq, _, hlist, _, hty⟩ := arr_set_ok hT a ctx i v hop hg.inv hi
        rw [hr] at heq
        simp only [Except.ok.injEq, Prod.mk.injEq] at heq
        obtain ⟨_, rfl, rfl⟩ := heq
        obtain ⟨E, C, hlog, _, _, hC⟩ := arr_set_created hT a ctx i v hop hg.inv old a' ctx' hr
        obtain ⟨g1, g2⟩ := storedForm_encG I T a.addr v ctx hop henc.1 henc.2
        refine ⟨?_, ?_, by rw [hty]; exact he.ty⟩
        · intro e hmem
          simp only at hmem
          rw [hlist] at hmem
          rcases List.mem_or_eq_of_mem_set hmem with hmem | rfl
          · exact he.elems e hmem
          · exact g1
        · intro p hp
          simp only at hp
          rw [hlog.created, hC] at hp
          rcases List.mem_append.1 hp with h | h
          · exact he.created p h
          · exact g2 p h
      · rw [arr_set_err a ctx i v hg.inv hi] at hr; cases hr
  | remove i =>
    simp only [stepA]
    cases hr : a.remove T i ctx with
    | error e => exact he
    | ok res =>
      obtain ⟨old, a', ctx'⟩ := res
      simp only
      rcases Nat.lt_or_ge i a.toList.length with hi | hi
      · obtain ⟨a2, c2, heq, _, hlist, _, hty⟩ := arr_remove_ok hT a ctx i hg.inv hi
        rw [hr] at heq
        simp only [Except.ok.injEq, Prod.mk.injEq] at heq
        obtain ⟨_, rfl, rfl⟩ := heq
        obtain ⟨E, hlog, _⟩ := arr_remove_created a ctx i old a' ctx' hr
        refine ⟨?_, ?_, by rw [hty]; exact he.ty⟩
        · intro e hmem
          simp only at hmem
          rw [hlist] at hmem
          exact he.elems e (List.mem_of_mem_eraseIdx hmem)
        · intro p hp
          simp only at hp
          rw [hlog.created] at hp
          simp only [List.append_nil] at hp
          exact he.created p hp
      · rw [arr_remove_err a ctx i hg.inv hi] at hr; cases hr
  | popIterate =>
    simp only [stepA]
    obtain ⟨_, h2, _, h4⟩ := arr_popIterate_refines a ctx
    obtain ⟨hcre, _⟩ := arr_popIterate_ctx a ctx
    refine ⟨?_, ?_, by rw [h4]; exact he.ty⟩
    · intro e hmem; rw [h2] at hmem; cases hmem
    · intro p hp; rw [hcre] at hp; exact he.created p hp
  | setType ty =>
    simp only [stepA]
    refine ⟨he.elems, ?_, henc⟩
    intro p hp
    have : (a.setType ty ctx).2.created = ctx.created := by
      unfold Arr.setType; simp only; split <;> rfl
    rw [this] at hp
    exact he.created p hp

theorem encStG_runS (c : Codec SSlab β) (hc : RoundTrip c) (T : Nat) (hT : legalThreshold T = true) :
    ∀ (ops : List AOp) (x : (Arr × Ctx) × St SSlab β), Good c T x → EncStG I x.1 →
      (∀ op ∈ ops, op.Ok) → (∀ op ∈ ops, AOp.EncG I T op) → EncStG I (runS c T x ops).1
  | [], _, _, he, _, _ => he
  | op :: ops, x, hg, he, hok, henc => by
    have h1 := encStG_step I c T hT x hg he op (hok op (by simp)) (henc op (by simp))
    have g1 := (good_stepS c hc T hT x hg op (hok op (by simp))).1
    exact encStG_runS c hc T hT ops (stepS c T x op) g1 h1 (fun o ho => hok o (by simp [ho]))
      (fun o ho => henc o (by simp [ho]))

theorem encStG_new (c : Codec SSlab β) (addr ty : Nat) (hty : ty < 2 ^ 64) : EncStG I (newS c addr ty).1 := by
  refine ⟨?_, ?_, hty⟩
  · intro e he; exact absurd he (by simp [newS, Arr.new, Arr.toList, ATree.flatten])
  · intro p hp; exact absurd hp (by simp [newS, Arr.new, Ctx.alloc, Ctx.emit])

theorem encOkG_of_good (c : Codec SSlab β) (T : Nat) (x : (Arr × Ctx) × St SSlab β) (hg : Good c T x)
    (he : EncStG I x.1) (haddr : x.1.1.addr < 2 ^ 64) (hctr : x.1.2.ctr < 2 ^ 64) :
    EncOkG I x.1.1 (AList.find? x.1.2.created) x.1.2.ctr := by
  refine ⟨?_, ?_, haddr, hctr, he.ty⟩
  · intro e hmem
    have h1 := he.elems e hmem
    unfold ElemEnc at h1
    unfold validElem
    cases hp : e.pay with
    | val n => rw [hp] at h1; unfold validElem at h1; rw [hp] at h1; exact h1
    | ref y =>
      rw [hp] at h1
      simp only at h1 ⊢
      have := hg.refs e hmem y hp
      cases hf : AList.find? x.1.2.created y with
      | none => rw [hf] at this; cases this
      | some w =>
        have hm := mem_of_find?_some hf
        have h2 := hg.caddr _ hm
        have h3 := hg.created_le _ hm
        simp only at h2 h3
        exact ⟨h1, by rw [h2]; exact haddr, by omega⟩
  · intro id v hv
    exact he.created _ (mem_of_find?_some hv)

/-- NO ENCODING FAILURE (general large-value slabs) -/
theorem noEncodeFailure_of_goodG (T : Nat) (hT : legalThreshold T = true)
    (x : (Arr × Ctx) × St SSlab (SlabID × Bytes)) (hg : Good (keyedCodecG I) T x)
    (he : EncStG I x.1) (haddr : x.1.1.addr < 2 ^ 64) (hctr : x.1.2.ctr < 2 ^ 64) :
    NoEncodeFailure (keyedCodecG I) x.2 := by
  intro id v hv
  have ha := hg.pend id v hv
  have hview : x.2.view (keyedCodecG I) id = some v := view_of_deltas (keyedCodecG I) x.2 id (some v) hv
  rw [hg.rep.view id ha] at hview
  have := stored_okG I hT x.1.1 _ _ hg.inv (encOkG_of_good I (keyedCodecG I) T x hg he haddr hctr) id v hview
  exact keyedCodecG_enc_isSome I v this.1

end Atree.E2E
