import AtreeProofs.E2EBytesSpec
import AtreeProofs.E2E.Load
import AtreeProofs.Props.C07
import AtreeProofs.Props.C06
/-
  The byte codec round-trips on the stored slabs of arrays: at the slab's own key (`decS_encS`), as
  the keyed codec for every key (`keyedCodec_roundTrip`), and every slab that represents an array
  satisfying the invariant – with encodable elements and identifiers / counters within their field
  widths – meets the encoder's preconditions (`stored_ok`).
-/
namespace Atree.E2E
open Atree Atree.Codec Gen ATree

/-! ### round trip -/

theorem ofSlab_toSlab (id : SlabID) (v : SSlab) : ofSlab (toSlab id v) = some v := by
  cases v with
  | tree t ty =>
    cases t with
    | data s => cases ty <;> rfl
    | index h chs cs root => cases ty <;> rfl
  | large e => rfl

theorem toSlab_id (id : SlabID) (v : SSlab) (h : ownId v = id ∨ ∃ e, v = .large e) :
    (toSlab id v).id = id := by
  cases v with
  | tree t ty =>
    rcases h with h | ⟨e, he⟩
    · cases t <;> exact h
    · cases he
  | large e => rfl

theorem encS_large (e : Elem) : encS (.large e) = encodeStorableSlab e := rfl

/-- ROUND TRIP AT THE OWN KEY: `DecodeSlab(id, EncodeSlab(slab)) = slab` for every stored slab of an
    array that meets the encoder's preconditions, `id` being the slab's ID (any `id` for a
    large-value slab, whose header holds no ID). -/
theorem decS_encS (v : SSlab) (ok : OkS v) (id : SlabID) (hid : ownId v = id ∨ ∃ e, v = .large e) :
    decS id (encS v) = some v := by
  cases v with
  | large e =>
    unfold decS
    rw [encS_large, C07.decode_encode_storable id e ok 0]
    rfl
  | tree t ty =>
    have hown : ownId (.tree t ty) = id := by
      rcases hid with h | ⟨e, he⟩
      · exact h
      · cases he
    have hsid : (toSlab (ownId (.tree t ty)) (.tree t ty)).id = id := by
      rw [toSlab_id _ _ (Or.inl rfl)]; exact hown
    have := C07.decode_encode_flat (toSlab (ownId (.tree t ty)) (.tree t ty)) ok 0
    rw [hsid] at this
    unfold decS encS
    rw [this]
    exact ofSlab_toSlab _ _

/-- THE KEYED BYTE CODEC SATISFIES THE ABSTRACT ROUND-TRIP LAW (the hypothesis `RoundTrip c` of all
    E2E / C15 / C03 / C14 / C08 theorems). -/
theorem keyedCodec_roundTrip : RoundTrip keyedCodec := by
  intro id v b h
  simp only [keyedCodec] at h ⊢
  split at h
  · rename_i ok
    cases h
    exact decS_encS v ok (ownId v) (Or.inl rfl)
  · cases h

theorem keyedCodec_enc_isSome (v : SSlab) (ok : OkS v) : (keyedCodec.enc v).isSome := by
  simp [keyedCodec, ok]

/-- under its own key, the keyed codec is `DecodeSlab(key, bytes)` -/
theorem keyedCodec_dec_own (id : SlabID) (b : Bytes) : keyedCodec.dec id (id, b) = decS id b := rfl

/-! ### the stored slabs of an array meet the encoder's preconditions -/

theorem validNext_undef : validNext SlabID.undef := by
  unfold validNext SlabID.undef; exact ⟨by decide, by decide⟩

theorem leaf_id_mem : ∀ (d : Nat) (t : ATree d) (s : DataSlab), s ∈ Arr.leaves d t → s.hdr.id ∈ slabIds d t
  | 0, t, s, h => by
    revert h; refine forall_ofData ?_ t; intro s0 h
    simp only [leaves_zero, List.mem_singleton] at h
    subst h; simp
  | d + 1, t, s, h => by
    revert h; refine forall_ofMeta ?_ t; intro m h
    simp only [leaves_succ, List.mem_flatMap] at h
    obtain ⟨c, hc, hs⟩ := h
    simp only [slabIds_succ, List.mem_cons, List.mem_flatMap]
    exact Or.inr ⟨c, hc, leaf_id_mem d c s hs⟩

theorem chain_nexts (l : List DataSlab) (hch : LeafChain l) (hid : ∀ s ∈ l, validNext s.hdr.id) :
    ∀ s ∈ l, validNext s.next := by
  induction l with
  | nil => intro s hs; cases hs
  | cons a l ih =>
    cases l with
    | nil =>
      intro s hs
      simp only [List.mem_singleton] at hs
      subst hs
      have : s.next = SlabID.undef := hch
      rw [this]; exact validNext_undef
    | cons b rest =>
      obtain ⟨h1, h2⟩ : a.next = b.hdr.id ∧ LeafChain (b :: rest) := hch
      intro s hs
      rcases List.mem_cons.1 hs with rfl | hs
      · rw [h1]; exact hid b (by simp)
      · exact ih h2 (fun x hx => hid x (List.mem_cons_of_mem _ hx)) s hs

theorem count_le_sumCounts {d : Nat} (l : List (ATree d)) (c : ATree d) (hc : c ∈ l) :
    (hdr d c).count ≤ MetaSlab.sumCounts (l.map (hdr d)) := by
  induction l with
  | nil => cases hc
  | cons x l ih =>
    rw [List.map_cons, MetaSlab.sumCounts_cons]
    rcases List.mem_cons.1 hc with rfl | h
    · omega
    · have := ih h; omega

/-- Every slab of a subtree satisfying the invariant meets the encoder's preconditions. -/
theorem tree_ok {T : Nat} (hT : legalThreshold T = true) (addr ctr : Nat) (haddr : addr < 2 ^ 64)
    (hctr : ctr < 2 ^ 64) :
    ∀ (d : Nat) (top : Bool) (t : ATree d) (ty : Option Nat),
      TreeInv T d top t → NotInl d t → ty.isSome = top → (∀ n, ty = some n → n < 2 ^ 64) →
      (∀ e ∈ flatten d t, validElem e) → IdsOk addr ctr (slabIds d t) →
      (hdr d t).count < 2 ^ 32 → (∀ s ∈ Arr.leaves d t, validNext s.next) →
      OkS (.tree (ent d t) ty) ∧ ∀ p ∈ sub d t, OkS (.tree p.2 none)
  | 0, top, t, ty, hinv, hni, hty, htyb, hel, hids, hcnt, hnx => by
    revert hinv hni hel hids hcnt hnx; refine forall_ofData ?_ t; intro s hinv hni hel hids hcnt hnx
    have hd : DataInv T top s := (treeInv_zero T top s).1 hinv
    obtain ⟨h16a, h16b⟩ := C06.no_uint16_truncation T hT top s hd
    refine ⟨?_, by intro p hp; cases hp⟩
    show SlabOK (.data (tyInfo ty) s)
    refine ⟨⟨?_, h16b, hni, hd.count_eq, hd.size_eq, by omega, hnx s (by simp), ?_⟩, ?_⟩
    · intro e he; exact hel e (by simpa using he)
    · intro hr
      cases ty with
      | none => rw [hd.root_eq] at hr; rw [← hty] at hr; cases hr
      | some n => exact htyb n rfl
    · rw [hd.root_eq, ← hty]; cases ty <;> rfl
  | d + 1, top, t, ty, hinv, _, hty, htyb, hel, hids, hcnt, hnx => by
    revert hinv hel hids hcnt hnx; refine forall_ofMeta ?_ t; intro m hinv hel hids hcnt hnx
    obtain ⟨hs, hmax, _, _⟩ := (treeInv_succ T d top m).1 hinv
    have F := thrFacts hT
    have hlen : m.childHdrs.length = m.children.length := hs.hdrs_length
    have hksz := hs.kids_of_size
    have hmx : maxThr T ≤ 49152 := by rw [F.maxE]; have := F.hi; omega
    have hidm := hids.2 m.hdr.id (by simp)
    constructor
    · show SlabOK (.index (tyInfo ty) ⟨m.hdr, m.childHdrs, m.countSum, [], m.root⟩)
      refine ⟨⟨by rw [hidm.1]; exact haddr, ?_, (by show m.childHdrs.length < 65536; omega),
        hs.sums_eq, ?_, ?_, ?_, rfl, ?_⟩, ?_⟩
      · intro h hh
        rw [hs.hdrs_eq, List.mem_map] at hh
        obtain ⟨c, hc, rfl⟩ := hh
        have hidc := hids.2 (hdr d c).id (by
          simp only [slabIds_succ, List.mem_cons, List.mem_flatMap]
          exact Or.inr ⟨c, hc, hdr_id_mem_slabIds d c⟩)
        refine ⟨hs.kids_addr c hc, by omega, ?_, ?_⟩
        · have := count_le_sumCounts m.children c hc
          have h2 : m.hdr.count = MetaSlab.sumCounts (m.children.map (hdr d)) := by
            rw [hs.count_eq, hs.hdrs_eq]
          simp only [hdr_succ] at hcnt
          omega
        · have := TreeInv.le_max (hs.kids_inv c hc); omega
      · show m.hdr.count = m.countSum.getLastD 0
        rw [hs.sums_eq, MetaSlab.prefixSums_getLastD, hs.count_eq]; simp
      · show MetaSlab.sumCounts m.childHdrs ≤ 4294967295
        have : m.hdr.count = MetaSlab.sumCounts m.childHdrs := hs.count_eq
        simp only [hdr_succ] at hcnt
        omega
      · show m.hdr.size = arrayMetaDataSlabPrefixSize + arraySlabHeaderSize * m.childHdrs.length
        rw [hlen]; exact hs.size_eq
      · intro hr
        cases ty with
        | none => rw [hs.root_eq] at hr; rw [← hty] at hr; cases hr
        | some n => exact htyb n rfl
      · show (tyInfo ty).isSome = m.root
        rw [hs.root_eq, ← hty]; cases ty <;> rfl
    · intro p hp
      simp only [sub_succ, List.mem_flatMap] at hp
      obtain ⟨c, hc, hpc⟩ := hp
      have hcnt' : (hdr d c).count < 2 ^ 32 := by
        have := count_le_sumCounts m.children c hc
        have h2 : m.hdr.count = MetaSlab.sumCounts (m.children.map (hdr d)) := by
          rw [hs.count_eq, hs.hdrs_eq]
        simp only [hdr_succ] at hcnt
        omega
      have hidsc : IdsOk addr ctr (slabIds d c) := by
        refine ⟨?_, fun id hid => hids.2 id (by
          simp only [slabIds_succ, List.mem_cons, List.mem_flatMap]
          exact Or.inr ⟨c, hc, hid⟩)⟩
        have hnd := hids.1
        rw [slabIds_succ] at hnd
        have hnd2 := (List.nodup_cons.1 hnd).2
        obtain ⟨A, B, hAB⟩ := List.append_of_mem hc
        rw [hAB, List.flatMap_append, List.flatMap_cons] at hnd2
        exact (List.nodup_append.1 (List.nodup_append.1 hnd2).2.1).1
      obtain ⟨g1, g2⟩ := tree_ok hT addr ctr haddr hctr d false c none (hs.kids_inv c hc)
        (TreeInv.notInl_of_false (hs.kids_inv c hc)) rfl (fun n h => by cases h)
        (fun e he => hel e (by
          simp only [flatten_succ, List.mem_flatMap]; exact ⟨c, hc, he⟩))
        hidsc hcnt'
        (fun s hs' => hnx s (by simp only [leaves_succ, List.mem_flatMap]; exact ⟨c, hc, hs'⟩))
      rw [slabs_eq] at hpc
      rcases List.mem_cons.1 hpc with rfl | h
      · exact g1
      · exact g2 p h

/-- what makes the stored slabs of an array encodable: encodable elements and large values,
    address, counter and type info within their field widths -/
structure EncOk (a : Arr) (extra : SlabID → Option Elem) (ctr : Nat) : Prop where
  elems : ∀ e ∈ a.toList, validElem e
  extra : ∀ id v, extra id = some v → validElem v
  addr : a.addr < 2 ^ 64
  ctr : ctr < 2 ^ 64
  ty : a.ty < 2 ^ 64

/-- STORED SLABS ARE ENCODABLE.  Every slab the representation of an array puts into the storage
    meets the encoder's preconditions and is filed under its own ID (a large-value slab has none). -/
theorem stored_ok {T : Nat} (hT : legalThreshold T = true) (a : Arr) (extra : SlabID → Option Elem)
    (ctr : Nat) (hinv : ArrInv T a ctr) (henc : EncOk a extra ctr) (id : SlabID) (v : SSlab)
    (hv : stored a extra id = some v) :
    OkS v ∧ (ownId v = id ∨ ∃ e, v = .large e) := by
  cases hs : a.slabAt id with
  | none =>
    rw [stored_of_none hs] at hv
    cases he : extra id with
    | none => rw [he] at hv; cases hv
    | some e =>
      rw [he] at hv
      simp only [Option.map_some, Option.some.injEq] at hv
      subst hv
      exact ⟨henc.extra id e he, Or.inr ⟨e, rfl⟩⟩
  | some p =>
    rw [stored_of_some hs] at hv
    simp only [Option.some.injEq] at hv
    subst hv
    -- `p` is the entry of `id` in the slabs of the tree
    unfold Arr.slabAt at hs
    cases hf : AList.find? (ATree.slabs a.d a.root) id with
    | none => rw [hf] at hs; cases hs
    | some sl =>
      rw [hf] at hs
      simp only [Option.map_some, Option.some.injEq] at hs
      subst hs
      have hmem := mem_of_find?_slabs hf
      obtain ⟨d, t, ty⟩ := a
      have hnx : ∀ s ∈ Arr.leaves d t, validNext s.next := by
        apply chain_nexts _ hinv.chain
        intro s hs'
        have := hinv.ids.2 s.hdr.id (leaf_id_mem d t s hs')
        have h1 : s.hdr.id.addr < 2 ^ 64 := by rw [this.1]; exact henc.addr
        have h2 := henc.ctr
        exact ⟨h1, by omega⟩
      have hcnt : (hdr d t).count < 2 ^ 32 := by
        have := hinv.count_lt
        simp only [Arr.count, Arr.rootHdr, maxArrayElementCount] at this
        omega
      obtain ⟨g1, g2⟩ := tree_ok hT _ ctr henc.addr henc.ctr d true t (some ty) hinv.tree hinv.notInl rfl
        (fun n h => by cases h; exact henc.ty) henc.elems hinv.ids hcnt hnx
      rw [slabs_eq] at hmem
      rcases List.mem_cons.1 hmem with heq | hsub
      · -- the root slab
        simp only [Prod.mk.injEq] at heq
        obtain ⟨rfl, rfl⟩ := heq
        have hroot : (hdr d t).id = (⟨d, t, ty⟩ : Arr).rootID := rfl
        simp only [hroot, if_true]
        refine ⟨g1, Or.inl ?_⟩
        cases d with
        | zero => rfl
        | succ d => rfl
      · -- a slab below the root
        have hne : ¬ id = (⟨d, t, ty⟩ : Arr).rootID := by
          intro he
          have hnd := hinv.ids.1
          rw [slabIds_eq] at hnd
          have : id ∈ subIds d t := by
            rw [← keys_sub]; exact mem_keys_of_mem hsub
          rw [he] at this
          exact (List.nodup_cons.1 hnd).1 this
        simp only [hne, if_false]
        refine ⟨g2 (id, sl) hsub, Or.inl ?_⟩
        -- the key of an entry is the ID in the header of the slab
        have key : ∀ (d : Nat) (t : ATree d) (p : SlabID × ASlab), p ∈ ATree.slabs d t →
            ownId (.tree p.2 none) = p.1 := by
          intro d
          induction d with
          | zero =>
            intro t p hp
            revert hp; refine forall_ofData ?_ t; intro s hp
            simp only [ATree.slabs, ofData, List.mem_singleton] at hp
            subst hp; rfl
          | succ d ih =>
            intro t p hp
            revert hp; refine forall_ofMeta ?_ t; intro m hp
            simp only [ATree.slabs, ofMeta, List.mem_cons, List.mem_flatMap] at hp
            rcases hp with rfl | ⟨c, _, hc⟩
            · rfl
            · exact ih c p hc
        have := key d t (id, sl) (by rw [slabs_eq]; exact List.mem_cons_of_mem _ hsub)
        cases sl <;> exact this

end Atree.E2E
