import AtreeProofs.Array.EffectsTop
/-
  Large-value slabs (`StorableSlab`) created by an array operation: each of them is stored, is
  never removed or overwritten afterwards within the operation, and is not a slab of the new tree
  ("no dangling reference to a large value", complement of C09 `EffectsComplete`).
  Proved on top of the accounts (`Acct`) of the repair steps: a repair step only touches slabs of
  the tree it starts from or slabs it allocates itself.
-/
namespace Atree
open Gen ATree MetaSlab
variable {T d : Nat}

/-- the created slabs `C` are stored at the end of `E`, fresh w.r.t. `c`, allocated up to `c1`,
    and outside `K` (the IDs of the resulting tree) -/
def CreatedOk (addr c c1 : Nat) (E : List Eff) (C : List SlabID) (K : List SlabID) : Prop :=
  ∀ x ∈ C, lastAction E x = some true ∧ x ∉ K ∧ c < x.idx ∧ x.idx ≤ c1 ∧ x.addr = addr

theorem CreatedOk.nil (addr c c1 : Nat) (E : List Eff) (K : List SlabID) :
    CreatedOk addr c c1 E [] K := by
  intro x hx; cases hx

/-- a repair step after the creation -/
theorem CreatedOk.trans {addr c c1 c2 : Nat} {E1 E2 : List Eff} {C K1 : List SlabID}
    {S1 S2 : List (SlabID × ASlab)}
    (h1 : CreatedOk addr c c1 E1 C K1) (h2 : Acct c1 S1 S2 E2 []) (hc : c1 ≤ c2)
    (hS1 : ∀ id ∈ AList.keys S1, id ∈ K1 ∨ id.idx ≤ c) :
    CreatedOk addr c c2 (E1 ++ E2) C (AList.keys S2) := by
  intro x hx
  obtain ⟨g1, g2, g3, g4, g5⟩ := h1 x hx
  have hnot : x ∉ AList.keys S1 := by
    intro hin
    rcases hS1 x hin with h | h
    · exact g2 h
    · omega
  have hla : lastAction E2 x = none := by
    apply Classical.byContradiction
    intro hne
    rcases h2.foot x hne with h | h
    · exact hnot h
    · omega
  refine ⟨by rw [lastAction_append_none hla]; exact g1, ?_, g3, by omega, g5⟩
  intro hin
  rcases h2.keys_new x hin with h | h
  · exact hnot h
  · omega

theorem Log.unique {c c' : Ctx} {E E' : List Eff} {C C' : List (SlabID × Elem)}
    (h : Log c c' E C) (h' : Log c c' E' C') : E = E' ∧ C = C' := by
  refine ⟨List.append_cancel_left (h.eff.symm.trans h'.eff), ?_⟩
  exact List.append_cancel_left (h.created.symm.trans h'.created)

/-! ### counting allocations -/

def isAllocAt (addr : Nat) : Eff → Bool
  | .alloc a _ => a == addr
  | _ => false

def nAllocAt (addr : Nat) (E : List Eff) : Nat := (E.filter (isAllocAt addr)).length

/-- the allocation counter advanced by exactly the number of `GenerateSlabID(addr)` events -/
def AllocCnt (addr : Nat) (c c' : Ctx) (E : List Eff) : Prop := c'.ctr = c.ctr + nAllocAt addr E

theorem nAllocAt_append (addr : Nat) (E1 E2 : List Eff) :
    nAllocAt addr (E1 ++ E2) = nAllocAt addr E1 + nAllocAt addr E2 := by
  simp [nAllocAt, List.filter_append]

theorem AllocCnt.trans {addr : Nat} {c c1 c2 : Ctx} {E1 E2 : List Eff}
    (h1 : AllocCnt addr c c1 E1) (h2 : AllocCnt addr c1 c2 E2) : AllocCnt addr c c2 (E1 ++ E2) := by
  unfold AllocCnt at *
  rw [nAllocAt_append]; omega

theorem AllocCnt.refl (addr : Nat) (c : Ctx) : AllocCnt addr c c [] := by
  simp [AllocCnt, nAllocAt]

theorem AllocCnt.store (addr : Nat) (c : Ctx) (i : SlabID) : AllocCnt addr c (c.emit (.store i)) [.store i] := by
  simp [AllocCnt, nAllocAt, isAllocAt, Ctx.emit]

/-- from an explicit description of the appended log -/
theorem AllocCnt.of_eq {addr : Nat} {c c' : Ctx} {E E0 : List Eff} {C : List (SlabID × Elem)}
    (hlog : Log c c' E C) (h0 : c'.eff = c.eff ++ E0) (hctr : c'.ctr = c.ctr + nAllocAt addr E0) :
    AllocCnt addr c c' E := by
  have : E = E0 := List.append_cancel_left (hlog.eff.symm.trans h0)
  rw [this]; exact hctr

/-- the large-value slab (if any) that `Value.Storable` creates for `v` -/
def crOf (T addr : Nat) (v : Elem) (c : Ctx) : List (SlabID × Elem) :=
  (toStorable T addr v c).2.created.drop c.created.length

/-! ### data slabs -/

theorem toStorable_created (T addr : Nat) (v : Elem) (c : Ctx) :
    ∃ E C, Log c (toStorable T addr v c).2 E C ∧ (∀ e ∈ E, ∀ i, e ≠ Eff.remove i) ∧
      (∀ x ∈ C.map (·.1), Eff.store x ∈ E ∧ c.ctr < x.idx ∧ x.idx ≤ (toStorable T addr v c).2.ctr ∧
        x.addr = addr) ∧
      AllocCnt addr c (toStorable T addr v c).2 E := by
  unfold toStorable
  split
  · exact ⟨[], [], Log.refl c, by simp, by simp, AllocCnt.refl _ _⟩
  · split
    · refine ⟨[.alloc addr ⟨addr, c.ctr + 1⟩, .store ⟨addr, c.ctr + 1⟩], [(⟨addr, c.ctr + 1⟩, v)],
        ⟨?_, ?_, ?_, ?_⟩, by simp, ?_, by simp [AllocCnt, nAllocAt, isAllocAt, Ctx.emit, Ctx.alloc]⟩
      · simp [Ctx.emit, Ctx.alloc]
      · simp [Ctx.alloc]
      · simp [Ctx.alloc]
      · intro a id h
        simp only [List.mem_cons, Eff.alloc.injEq, reduceCtorEq, List.not_mem_nil, or_false] at h
        obtain ⟨_, rfl⟩ := h
        simp [Ctx.emit, Ctx.alloc]
      · intro x hx
        simp only [List.map_cons, List.map_nil, List.mem_singleton] at hx
        subst hx
        simp [Ctx.emit, Ctx.alloc]
    · exact ⟨[], [], Log.refl c, by simp, by simp, AllocCnt.refl _ _⟩

/-- a data slab rewritten in place after `toStorable` -/
theorem leaf_created {c : Ctx} (s : DataSlab) (addr0 : Nat) (v : Elem)
    (hle : s.hdr.id.idx ≤ c.ctr) :
    ∃ E C, Log c ((toStorable T addr0 v c).2.emit (.store s.hdr.id)) E C ∧
      CreatedOk addr0 c.ctr ((toStorable T addr0 v c).2.emit (.store s.hdr.id)).ctr E (C.map (·.1))
        [s.hdr.id] ∧
      AllocCnt addr0 c ((toStorable T addr0 v c).2.emit (.store s.hdr.id)) E ∧
      C = crOf T addr0 v c := by
  obtain ⟨E, C, hlog, hno, hC, hal⟩ := toStorable_created T addr0 v c
  refine ⟨E ++ [.store s.hdr.id], C, by simpa using hlog.trans (Log.store _ s.hdr.id), ?_,
    hal.trans (AllocCnt.store _ _ _), by unfold crOf; rw [hlog.created, List.drop_left]⟩
  intro x hx
  obtain ⟨h1, h2, h3, h4⟩ := hC x hx
  have hne : ¬ s.hdr.id = x := by intro e; rw [← e] at h2; omega
  refine ⟨?_, ?_, h2, by simpa [Ctx.emit] using h3, h4⟩
  · rw [lastAction_concat_store, if_neg hne]
    exact (lastAction_no_remove E hno x).1.2 h1
  · simp only [List.mem_singleton]
    exact fun e => hne e.symm

theorem data_insert_created (s s' : DataSlab) (i : Nat) (v : Elem) (c c' : Ctx) (hni : s.inlined = false)
    (hle : s.hdr.id.idx ≤ c.ctr) (h : s.insert T i v c = .ok (s', c')) :
    ∃ E C, Log c c' E C ∧
      CreatedOk s.hdr.id.addr c.ctr c'.ctr E (C.map (·.1)) (slabIds 0 (ofData s')) ∧
      AllocCnt s.hdr.id.addr c c' E ∧ C = crOf T s.hdr.id.addr v c := by
  unfold DataSlab.insert at h
  split at h
  · cases h
  · simp only [Except.ok.injEq, Prod.mk.injEq] at h
    obtain ⟨hs', hc'⟩ := h
    have hid : s'.hdr.id = s.hdr.id := by rw [← hs']
    have hc'' : c' = (toStorable T s.hdr.id.addr v c).2.emit (.store s.hdr.id) := by
      rw [← hc']; simp [DataSlab.storeIfNotInlined, hni]
    rw [hc'', slabIds_zero, hid]
    exact leaf_created s _ v hle

theorem data_set_created (s s' : DataSlab) (i : Nat) (v old : Elem) (c c' : Ctx) (hni : s.inlined = false)
    (hle : s.hdr.id.idx ≤ c.ctr) (h : s.set T i v c = .ok (old, s', c')) :
    ∃ E C, Log c c' E C ∧
      CreatedOk s.hdr.id.addr c.ctr c'.ctr E (C.map (·.1)) (slabIds 0 (ofData s')) ∧
      AllocCnt s.hdr.id.addr c c' E ∧ C = crOf T s.hdr.id.addr v c := by
  unfold DataSlab.set at h
  split at h
  · cases h
  · simp only [Except.ok.injEq, Prod.mk.injEq] at h
    obtain ⟨_, hs', hc'⟩ := h
    have hid : s'.hdr.id = s.hdr.id := by rw [← hs']
    have hc'' : c' = (toStorable T s.hdr.id.addr v c).2.emit (.store s.hdr.id) := by
      rw [← hc']; simp [DataSlab.storeIfNotInlined, hni]
    rw [hc'', slabIds_zero, hid]
    exact leaf_created s _ v hle

/-! ### one level up -/

/-- child step followed by the parent's repair step -/
theorem parent_created {m m2 : MetaSlab (ATree d)} {A B : List (ATree d)} {child child' : ATree d}
    {c c1 c2 : Ctx} {E1 E2 : List Eff} {C1 : List (SlabID × Elem)} {addr : Nat} {e : ASlab}
    (hch : m.children = A ++ child :: B)
    (hids : IdsOk addr c.ctr (slabIds (d + 1) (ofMeta m)))
    (hlog1 : Log c c1 E1 C1)
    (hchild : CreatedOk addr c.ctr c1.ctr E1 (C1.map (·.1)) (slabIds d child'))
    (hlog2 : Log c1 c2 E2 [])
    (htail : Acct c1.ctr ((m.hdr.id, e) :: (A ++ child' :: B).flatMap (ATree.slabs d))
      (ATree.slabs (d + 1) (ofMeta m2)) E2 [])
    (hal1 : AllocCnt addr c c1 E1) (hal2 : AllocCnt addr c1 c2 E2) :
    Log c c2 (E1 ++ E2) C1 ∧
      CreatedOk addr c.ctr c2.ctr (E1 ++ E2) (C1.map (·.1)) (slabIds (d + 1) (ofMeta m2)) ∧
      AllocCnt addr c c2 (E1 ++ E2) := by
  refine ⟨by simpa using hlog1.trans hlog2, ?_, hal1.trans hal2⟩
  rw [← keys_slabs]
  refine hchild.trans htail hlog2.ctr_le ?_
  intro id hid
  rw [keys_cons', keys_flatMap_slabs] at hid
  simp only [List.flatMap_append, List.flatMap_cons, List.mem_cons, List.mem_append] at hid
  have hold : ∀ j, j ∈ slabIds (d + 1) (ofMeta m) → j.idx ≤ c.ctr := fun j hj => (hids.2 j hj).2.2
  rw [slabIds_succ, hch] at hold
  simp only [List.flatMap_append, List.flatMap_cons, List.mem_cons, List.mem_append] at hold
  rcases hid with h | h | h | h
  · exact Or.inr (hold id (Or.inl h))
  · exact Or.inr (hold id (Or.inr (Or.inl h)))
  · exact Or.inl h
  · exact Or.inr (hold id (Or.inr (Or.inr (Or.inr h))))

/-! ### allocation counts of the repair steps -/

theorem splitChildSlab_allocCnt {m1 m2 : MetaSlab (ATree d)} {child' : ATree d} {k : Nat}
    {c c2 : Ctx} {E : List Eff}
    (h : m1.splitChildSlab child' k c = .ok (m2, c2)) (hlog : Log c c2 E []) :
    AllocCnt (hdr d child').id.addr c c2 E := by
  unfold splitChildSlab at h
  cases hsp : ATree.split d child' c with
  | error err => simp [hsp, bind, Except.bind] at h
  | ok p =>
    obtain ⟨l, r, cs⟩ := p
    simp only [hsp, bind, Except.bind, pure, Except.pure, Except.ok.injEq, Prod.mk.injEq] at h
    obtain ⟨rfl, rfl⟩ := h
    obtain ⟨_, _, _, rfl⟩ := split_struct d child' c l r cs hsp
    refine AllocCnt.of_eq hlog (E0 := [.alloc (hdr d child').id.addr ⟨(hdr d child').id.addr, c.ctr + 1⟩,
      .store (hdr d l).id, .store (hdr d r).id, .store m1.hdr.id]) ?_ ?_
    · simp [Ctx.emit, Ctx.alloc]
    · simp [nAllocAt, isAllocAt, Ctx.emit, Ctx.alloc]

theorem mor_allocCnt (addr : Nat) {m1 m2 : MetaSlab (ATree d)} {child' : ATree d} {k u : Nat}
    {c c2 : Ctx} {E : List Eff}
    (h : mergeOrRebalanceChildSlab T m1 child' k u c = .ok (m2, c2)) (hlog : Log c c2 E []) :
    AllocCnt addr c c2 E := by
  obtain ⟨l, r, li, _, hact⟩ := mor_cases m1 child' k u c m2 c2 h
  rcases hact with ⟨flag, h1⟩ | h1
  · have h2 := congrArg Prod.snd h1
    simp only at h2
    refine AllocCnt.of_eq hlog (E0 := [.store (hdr d (rebalPair T d flag l r).1).id,
      .store (hdr d (rebalPair T d flag l r).2).id, .store m1.hdr.id]) ?_ ?_
    · rw [h2, rebal_ctx]; simp [Ctx.emit]
    · rw [h2, rebal_ctx]; simp [nAllocAt, isAllocAt, Ctx.emit]
  · have h2 := congrArg Prod.snd h1
    simp only at h2
    refine AllocCnt.of_eq hlog (E0 := [.store (hdr d (ATree.merge d l r)).id, .store m1.hdr.id,
      .remove (hdr d r).id]) ?_ ?_
    · rw [h2, merge_ctx]; simp [Ctx.emit]
    · rw [h2, merge_ctx]; simp [nAllocAt, isAllocAt, Ctx.emit]

theorem splitRoot_allocCnt (d : Nat) (t : ATree d) (ty : Nat) (c : Ctx) (a2 : Arr) (c2 : Ctx)
    (E : List Eff) (h : Arr.splitRoot ⟨d, t, ty⟩ c = .ok (a2, c2)) (hlog : Log c c2 E []) :
    AllocCnt (hdr d t).id.addr c c2 E := by
  rw [splitRoot_eq] at h
  obtain ⟨⟨l, r, cs⟩, hsp, h⟩ := bind_eq_ok h
  cases h
  obtain ⟨_, _, _, rfl⟩ := split_struct d _ _ l r cs hsp
  obtain ⟨_, ho2⟩ := sub_oldRoot d t ⟨(hdr d t).id.addr, c.ctr + 1⟩ false
  refine AllocCnt.of_eq hlog (E0 := [.alloc (hdr d t).id.addr ⟨(hdr d t).id.addr, c.ctr + 1⟩,
    .alloc (hdr d t).id.addr ⟨(hdr d t).id.addr, c.ctr + 1 + 1⟩,
    .store (hdr d l).id, .store (hdr d r).id, .store (hdr d t).id]) ?_ ?_
  · simp [Ctx.emit, Ctx.alloc, ho2]
  · simp [nAllocAt, isAllocAt, Ctx.emit, Ctx.alloc, ho2]

theorem promote_ctx (a : Arr) (c : Ctx) :
    (∃ i j, (a.promoteIfSingleChild c).2 = (c.emit (.store i)).emit (.remove j)) ∨
      (a.promoteIfSingleChild c).2 = c := by
  unfold Arr.promoteIfSingleChild
  split
  · right; rfl
  · split
    · left; exact ⟨_, _, rfl⟩
    · right; rfl

theorem promote_allocCnt (addr : Nat) (a : Arr) (c : Ctx) (E : List Eff)
    (hlog : Log c (a.promoteIfSingleChild c).2 E []) :
    AllocCnt addr c (a.promoteIfSingleChild c).2 E := by
  rcases promote_ctx a c with ⟨i, j, h⟩ | h
  · refine AllocCnt.of_eq hlog (E0 := [.store i, .remove j]) ?_ ?_
    · rw [h]; simp [Ctx.emit]
    · rw [h]; simp [nAllocAt, isAllocAt, Ctx.emit]
  · refine AllocCnt.of_eq hlog (E0 := []) ?_ ?_
    · rw [h]; simp
    · rw [h]; simp [nAllocAt]

/-- the address of a child of a tree whose IDs are all at `addr` -/
theorem child_addr {m : MetaSlab (ATree d)} {A B : List (ATree d)} {child : ATree d} {c addr : Nat}
    (hch : m.children = A ++ child :: B) (hids : IdsOk addr c (slabIds (d + 1) (ofMeta m))) :
    (hdr d child).id.addr = addr :=
  ((ids_child hch hids).2 _ (hdr_id_mem_slabIds d child)).1

/-! ### insert -/

theorem insert_created (hT : legalThreshold T = true) :
    ∀ (d : Nat) (t : ATree d) (top : Bool) (i : Nat) (v : Elem) (c : Ctx) (addr : Nat)
      (t' : ATree d) (c' : Ctx),
    TreeInv T d top t → NotInl d t → ValueOk v → IdsOk addr c.ctr (slabIds d t) →
    ATree.insert T d t i v c = .ok (t', c') →
    ∃ E C, Log c c' E C ∧ CreatedOk addr c.ctr c'.ctr E (C.map (·.1)) (slabIds d t') ∧
      AllocCnt addr c c' E ∧ C = crOf T addr v c
  | 0, t, top, i, v, c, addr, t', c' => by
    refine forall_ofData ?_ t; intro s _ hni _ hids hr
    have hid := hids.2 s.hdr.id (by simp)
    have := data_insert_created s t' i v c c' hni hid.2.2 hr
    rw [hid.1] at this
    exact this
  | d + 1, t, top, i, v, c, addr, t', c' => by
    refine forall_ofMeta ?_ t; intro m hinv _ hv hids hr
    obtain ⟨hs, _, _, _⟩ := (treeInv_succ T d top m).1 hinv
    obtain ⟨k, adj, child, child', c1, hchild, hins, htl⟩ := insert_succ_inv m i v c t' c' hr
    obtain ⟨A, B, hch, hk⟩ := split_at_getElem? hchild
    have hc : TreeInv T d false child := hs.kids_inv child (by rw [hch]; simp)
    have hadj : adj ≤ (flatten d child).length := by
      rcases Nat.lt_or_ge (flatten d child).length adj with h | h
      · rw [insert_err_gen d child false adj v c hc.shape_false h] at hins; cases hins
      · exact h
    obtain ⟨child'', c1', hins', hstep, _⟩ :=
      insert_gen hT d child false adj v c hc hc.notInl_of_false hv hadj
    rw [hins] at hins'
    simp only [Except.ok.injEq, Prod.mk.injEq] at hins'
    obtain ⟨rfl, rfl⟩ := hins'
    obtain ⟨E1, C1, hlog1, hcr1, hal1, hC1⟩ := insert_created hT d child false adj v c addr child' c1 hc
      hc.notInl_of_false hv (ids_child hch hids) hins
    have hch1 : (insM1 m k child').children = A ++ child' :: B := by
      show m.children.set k child' = _
      rw [hch, set_mid hk]
    have ids1 := ids_after_child (m1 := insM1 m k child') hch hch1 rfl hstep.repl hids
    rw [slabIds_succ] at ids1
    have hnd := ids1.1
    have hle : ∀ id ∈ (insM1 m k child').hdr.id :: (insM1 m k child').children.flatMap (slabIds d),
        id.idx ≤ c1.ctr := fun id h => (ids1.2 id h).2.2
    have haddr' : (hdr d child').id.addr = addr := by rw [hstep.id_eq]; exact child_addr hch hids
    rcases htl with ⟨m2, hsp, rfl⟩ | ⟨rfl, rfl⟩
    · obtain ⟨E2, hlog2, hacct2⟩ := tail_split_acct (e := ent (d + 1) (ofMeta m)) hch1 hk hsp hnd hle
      rw [hch1] at hacct2
      have hal2 := splitChildSlab_allocCnt hsp hlog2
      rw [haddr'] at hal2
      obtain ⟨h1, h2, h3⟩ := parent_created hch hids hlog1 hcr1 hlog2 hacct2 hal1 hal2
      exact ⟨_, _, h1, h2, h3, hC1⟩
    · have hacct2 := tail_plain_acct (m1 := insM1 m k child') (m2 := insM1 m k child')
        (e := ent (d + 1) (ofMeta m)) rfl rfl hnd hle
      rw [hch1] at hacct2
      obtain ⟨h1, h2, h3⟩ := parent_created hch hids hlog1 hcr1 (Log.store c1 m.hdr.id) hacct2 hal1
        (AllocCnt.store _ _ _)
      exact ⟨_, _, h1, h2, h3, hC1⟩

/-! ### set -/

theorem set_created (hT : legalThreshold T = true) :
    ∀ (d : Nat) (t : ATree d) (top : Bool) (i : Nat) (v : Elem) (c : Ctx) (addr : Nat) (old : Elem)
      (t' : ATree d) (c' : Ctx),
    TreeInv T d top t → NotInl d t → ValueOk v → IdsOk addr c.ctr (slabIds d t) →
    ATree.set T d t i v c = .ok (old, t', c') →
    ∃ E C, Log c c' E C ∧ CreatedOk addr c.ctr c'.ctr E (C.map (·.1)) (slabIds d t') ∧
      AllocCnt addr c c' E ∧ C = crOf T addr v c
  | 0, t, top, i, v, c, addr, old, t', c' => by
    refine forall_ofData ?_ t; intro s _ hni _ hids hr
    have hid := hids.2 s.hdr.id (by simp)
    have := data_set_created s t' i v old c c' hni hid.2.2 hr
    rw [hid.1] at this
    exact this
  | d + 1, t, top, i, v, c, addr, old, t', c' => by
    refine forall_ofMeta ?_ t; intro m hinv _ hv hids hr
    obtain ⟨hs, _, _, _⟩ := (treeInv_succ T d top m).1 hinv
    obtain ⟨k, adj, child, child', c1, m2, hchild, hset, haft, rfl⟩ := set_succ_inv m i v c old t' c' hr
    obtain ⟨A, B, hch, hk⟩ := split_at_getElem? hchild
    have hc : TreeInv T d false child := hs.kids_inv child (by rw [hch]; simp)
    have hadj : adj < (flatten d child).length := by
      rcases Nat.lt_or_ge adj (flatten d child).length with h | h
      · exact h
      · rw [set_err_gen d child false adj v c hc.shape_false h] at hset; cases hset
    obtain ⟨child'', c1', hset', hstep, _⟩ :=
      set_gen hT d child false adj v c hc hc.notInl_of_false hv hadj
    rw [hset] at hset'
    simp only [Except.ok.injEq, Prod.mk.injEq] at hset'
    obtain ⟨_, rfl, rfl⟩ := hset'
    obtain ⟨E1, C1, hlog1, hcr1, hal1, hC1⟩ := set_created hT d child false adj v c addr old child' c1 hc
      hc.notInl_of_false hv (ids_child hch hids) hset
    have hch1 : (setM1 m k child').children = A ++ child' :: B := by
      rw [setM1_children, hch, set_mid hk]
    have ids1 := ids_after_child (m1 := setM1 m k child') hch hch1 rfl hstep.repl hids
    rw [slabIds_succ] at ids1
    have hnd := ids1.1
    have hle : ∀ id ∈ (setM1 m k child').hdr.id :: (setM1 m k child').children.flatMap (slabIds d),
        id.idx ≤ c1.ctr := fun id h => (ids1.2 id h).2.2
    have haddr' : (hdr d child').id.addr = addr := by rw [hstep.id_eq]; exact child_addr hch hids
    rcases afterSet_inv _ _ _ _ _ _ haft with hsp | ⟨u, hmr⟩ | ⟨rfl, rfl⟩
    · obtain ⟨E2, hlog2, hacct2⟩ := tail_split_acct (e := ent (d + 1) (ofMeta m)) hch1 hk hsp hnd hle
      rw [hch1] at hacct2
      have hal2 := splitChildSlab_allocCnt hsp hlog2
      rw [haddr'] at hal2
      obtain ⟨h1, h2, h3⟩ := parent_created hch hids hlog1 hcr1 hlog2 hacct2 hal1 hal2
      exact ⟨_, _, h1, h2, h3, hC1⟩
    · obtain ⟨E2, hlog2, hacct2⟩ := tail_mor_acct (e := ent (d + 1) (ofMeta m)) hch1 hk hmr hnd hle
      rw [hch1] at hacct2
      obtain ⟨h1, h2, h3⟩ := parent_created hch hids hlog1 hcr1 hlog2 hacct2 hal1
        (mor_allocCnt addr hmr hlog2)
      exact ⟨_, _, h1, h2, h3, hC1⟩
    · have hacct2 := tail_plain_acct (m1 := setM1 m k child') (m2 := setM1 m k child')
        (e := ent (d + 1) (ofMeta m)) rfl rfl hnd hle
      rw [hch1] at hacct2
      obtain ⟨h1, h2, h3⟩ := parent_created hch hids hlog1 hcr1 (Log.store c1 m.hdr.id) hacct2 hal1
        (AllocCnt.store _ _ _)
      exact ⟨_, _, h1, h2, h3, hC1⟩

/-! ### remove: no creation, no allocation -/

theorem remove_noalloc :
    ∀ (d : Nat) (t : ATree d) (i : Nat) (c : Ctx) (old : Elem) (t' : ATree d) (c' : Ctx),
      ATree.remove T d t i c = .ok (old, t', c') →
      ∃ E, Log c c' E [] ∧ ∀ addr, AllocCnt addr c c' E
  | 0, t, i, c, old, t', c' => by
    refine forall_ofData ?_ t; intro s hr
    change s.remove i c = _ at hr
    unfold DataSlab.remove at hr
    split at hr
    · cases hr
    · cases hr
      unfold DataSlab.storeIfNotInlined
      split
      · exact ⟨[], Log.refl c, fun _ => AllocCnt.refl _ _⟩
      · exact ⟨_, Log.store c _, fun _ => AllocCnt.store _ _ _⟩
  | d + 1, t, i, c, old, t', c' => by
    refine forall_ofMeta ?_ t; intro m hr
    obtain ⟨k, adj, child, child', c1, m2, c2, hchild, hrem, htl, ht', hc'⟩ :=
      remove_succ_inv m i c old t' c' hr
    obtain ⟨E1, hlog1, hal1⟩ := remove_noalloc d child adj c old child' c1 hrem
    subst hc'
    rcases htl with ⟨u, hmr⟩ | ⟨_, rfl⟩
    · obtain ⟨l, r, li, _, hact⟩ := mor_cases (remM1 m k child') child' k u c1 m2 c2 hmr
      have : ∃ E2, Log c1 c2 E2 [] := by
        rcases hact with ⟨flag, h1⟩ | h1
        · have := congrArg Prod.snd h1
          simp only at this
          rw [this, rebal_ctx]
          exact ⟨_, by simpa using ((Log.store c1 _).trans (Log.store _ _)).trans (Log.store _ _)⟩
        · have := congrArg Prod.snd h1
          simp only at this
          rw [this, merge_ctx]
          exact ⟨_, by simpa using ((Log.store c1 _).trans (Log.store _ _)).trans (Log.remove _ _)⟩
      obtain ⟨E2, hlog2⟩ := this
      exact ⟨_, by simpa using (hlog1.trans hlog2).trans (Log.store c2 _),
        fun addr => ((hal1 addr).trans (mor_allocCnt addr hmr hlog2)).trans (AllocCnt.store _ _ _)⟩
    · exact ⟨_, by simpa using hlog1.trans (Log.store c2 _),
        fun addr => (hal1 addr).trans (AllocCnt.store _ _ _)⟩

/-! ### the array operations -/

/-- a repair step at the root (split of the root, promotion of the only child) -/
theorem top_created {c c1 c2 : Ctx} {E1 E2 : List Eff} {C1 : List (SlabID × Elem)}
    {d1 d2 : Nat} {t1 : ATree d1} {t2 : ATree d2} {addr : Nat}
    (hlog1 : Log c c1 E1 C1)
    (h1 : CreatedOk addr c.ctr c1.ctr E1 (C1.map (·.1)) (slabIds d1 t1))
    (hlog2 : Log c1 c2 E2 [])
    (h2 : Acct c1.ctr (ATree.slabs d1 t1) (ATree.slabs d2 t2) E2 [])
    (hal1 : AllocCnt addr c c1 E1) (hal2 : AllocCnt addr c1 c2 E2) :
    Log c c2 (E1 ++ E2) C1 ∧ CreatedOk addr c.ctr c2.ctr (E1 ++ E2) (C1.map (·.1)) (slabIds d2 t2) ∧
      AllocCnt addr c c2 (E1 ++ E2) := by
  refine ⟨by simpa using hlog1.trans hlog2, ?_, hal1.trans hal2⟩
  rw [← keys_slabs]
  refine h1.trans h2 hlog2.ctr_le ?_
  intro id hid
  rw [keys_slabs] at hid
  exact Or.inl hid

theorem arr_insert_created (hT : legalThreshold T = true) (a : Arr) (c : Ctx) (i : Nat) (v : Elem)
    (hv : ValueOk v) (h : ArrInv T a c.ctr) (a' : Arr) (c' : Ctx)
    (hr : a.insert T i v c = .ok (a', c')) :
    ∃ E C, Log c c' E C ∧ CreatedOk a.addr c.ctr c'.ctr E (C.map (·.1)) (slabIds a'.d a'.root) ∧
      AllocCnt a.addr c c' E ∧ C = crOf T a.addr v c := by
  obtain ⟨d, t, ty⟩ := a
  unfold Arr.insert at hr
  split at hr
  · cases hr
  · obtain ⟨⟨t', c1⟩, hins, hr⟩ := bind_eq_ok hr
    simp only at hins hr
    have hi : i ≤ (flatten d t).length := by
      rcases Nat.lt_or_ge (flatten d t).length i with h1 | h1
      · rw [insert_err_gen d t true i v c h.shape h1] at hins; cases hins
      · exact h1
    obtain ⟨t'', c1', hins', hstep, _⟩ := insert_gen hT d t true i v c h.tree h.notInl hv hi
    rw [hins] at hins'
    simp only [Except.ok.injEq, Prod.mk.injEq] at hins'
    obtain ⟨rfl, rfl⟩ := hins'
    obtain ⟨E1, C1, hlog1, hcr1, hal1, hC1⟩ :=
      insert_created hT d t true i v c _ t' c1 h.tree h.notInl hv h.ids hins
    by_cases hfull : ATree.isFull T d t' = true
    · simp only [hfull, if_true] at hr
      have hids' := repl_single_ids hstep.repl _ h.ids
      obtain ⟨_, E2, hlog2, hacct2⟩ := splitRoot_acct d t' ty c1 _ a' c' hids' hr
      have hal2 := splitRoot_allocCnt d t' ty c1 a' c' E2 hr hlog2
      rw [hstep.id_eq] at hal2
      obtain ⟨g1, g2, g3⟩ := top_created hlog1 hcr1 hlog2 hacct2 hal1 hal2
      exact ⟨_, _, g1, g2, g3, hC1⟩
    · simp only [hfull] at hr
      cases hr
      exact ⟨E1, C1, hlog1, hcr1, hal1, hC1⟩

theorem arr_set_created (hT : legalThreshold T = true) (a : Arr) (c : Ctx) (i : Nat) (v : Elem)
    (hv : ValueOk v) (h : ArrInv T a c.ctr) (old : Elem) (a' : Arr) (c' : Ctx)
    (hr : a.set T i v c = .ok (old, a', c')) :
    ∃ E C, Log c c' E C ∧ CreatedOk a.addr c.ctr c'.ctr E (C.map (·.1)) (slabIds a'.d a'.root) ∧
      AllocCnt a.addr c c' E ∧ C = crOf T a.addr v c := by
  obtain ⟨d, t, ty⟩ := a
  unfold Arr.set at hr
  obtain ⟨⟨old', t', c1⟩, hset, hr⟩ := bind_eq_ok hr
  simp only at hset hr
  have hi : i < (flatten d t).length := by
    rcases Nat.lt_or_ge i (flatten d t).length with h1 | h1
    · exact h1
    · rw [set_err_gen d t true i v c h.shape h1] at hset; cases hset
  obtain ⟨t'', c1', hset', hstep, _⟩ := set_gen hT d t true i v c h.tree h.notInl hv hi
  rw [hset] at hset'
  simp only [Except.ok.injEq, Prod.mk.injEq] at hset'
  obtain ⟨_, rfl, rfl⟩ := hset'
  obtain ⟨E1, C1, hlog1, hcr1, hal1, hC1⟩ :=
    set_created hT d t true i v c _ old' t' c1 h.tree h.notInl hv h.ids hset
  have hids' := repl_single_ids hstep.repl _ h.ids
  by_cases hfull : ATree.isFull T d t' = true
  · simp only [hfull, if_true] at hr
    obtain ⟨⟨a2, c2⟩, hsr, hr⟩ := bind_eq_ok hr
    simp only [pure, Except.pure, Except.ok.injEq, Prod.mk.injEq] at hr
    obtain ⟨_, rfl, rfl⟩ := hr
    obtain ⟨⟨m2, rfl, hlen⟩, E2, hlog2, hacct2⟩ := splitRoot_acct d t' ty c1 _ a2 c2 hids' hsr
    have hal2 := splitRoot_allocCnt d t' ty c1 _ c2 E2 hsr hlog2
    rw [hstep.id_eq] at hal2
    rw [promote_not_single d m2 ty c2 (by omega)]
    obtain ⟨g1, g2, g3⟩ := top_created hlog1 hcr1 hlog2 hacct2 hal1 hal2
    exact ⟨_, _, g1, g2, g3, hC1⟩
  · simp only [hfull] at hr
    obtain ⟨⟨a2, c2⟩, hsr, hr⟩ := bind_eq_ok hr
    simp only [pure, Except.pure, Except.ok.injEq, Prod.mk.injEq] at hr hsr
    obtain ⟨_, rfl, rfl⟩ := hr
    obtain ⟨rfl, rfl⟩ := hsr
    obtain ⟨E2, hlog2, hacct2⟩ := promote_acct d t' ty c1 _ hstep.shape hids'
    obtain ⟨g1, g2, g3⟩ := top_created hlog1 hcr1 hlog2 hacct2 hal1
      (promote_allocCnt _ _ _ _ hlog2)
    exact ⟨_, _, g1, g2, g3, hC1⟩

/-- `remove` creates no large-value slab and allocates nothing -/
theorem arr_remove_created (a : Arr) (c : Ctx) (i : Nat)
    (old : Elem) (a' : Arr) (c' : Ctx) (hr : a.remove T i c = .ok (old, a', c')) :
    ∃ E, Log c c' E [] ∧ ∀ addr, AllocCnt addr c c' E := by
  obtain ⟨d, t, ty⟩ := a
  unfold Arr.remove at hr
  obtain ⟨⟨old', t', c1⟩, hrem, hr⟩ := bind_eq_ok hr
  simp only [pure, Except.pure, Except.ok.injEq, Prod.mk.injEq] at hr
  obtain ⟨_, _, rfl⟩ := hr
  obtain ⟨E1, hlog1, hal1⟩ := remove_noalloc d t i c old' t' c1 hrem
  rcases promote_ctx (⟨d, t', ty⟩ : Arr) c1 with ⟨x, y, h⟩ | h
  · have hlog2 : Log c1 ((⟨d, t', ty⟩ : Arr).promoteIfSingleChild c1).2 [.store x, .remove y] [] := by
      rw [h]; simpa using (Log.store c1 x).trans (Log.remove _ y)
    exact ⟨_, by simpa using hlog1.trans hlog2,
      fun addr => (hal1 addr).trans (promote_allocCnt addr _ _ _ hlog2)⟩
  · rw [h]; exact ⟨E1, hlog1, hal1⟩

/-- `PopIterate` creates no large-value slab and allocates nothing -/
theorem popIterate_ctx : ∀ (d : Nat) (t : ATree d) (c : Ctx),
    (ATree.popIterate d t c).2.2.created = c.created ∧ (ATree.popIterate d t c).2.2.ctr = c.ctr
  | 0, t, c => by
    refine forall_ofData ?_ t; intro s
    exact ⟨rfl, rfl⟩
  | d + 1, t, c => by
    refine forall_ofMeta ?_ t; intro m
    have key : ∀ (L : List (ATree d)) (acc : List Elem × Ctx),
        (L.foldl (fun (acc : List Elem × Ctx) child =>
          (acc.1 ++ (ATree.popIterate d child acc.2).1,
           (ATree.popIterate d child acc.2).2.2.emit (.remove (hdr d child).id))) acc).2.created
          = acc.2.created ∧
        (L.foldl (fun (acc : List Elem × Ctx) child =>
          (acc.1 ++ (ATree.popIterate d child acc.2).1,
           (ATree.popIterate d child acc.2).2.2.emit (.remove (hdr d child).id))) acc).2.ctr
          = acc.2.ctr := by
      intro L
      induction L with
      | nil => intro acc; exact ⟨rfl, rfl⟩
      | cons x L ih =>
        intro acc
        simp only [List.foldl_cons]
        obtain ⟨h1, h2⟩ := ih (acc.1 ++ (ATree.popIterate d x acc.2).1,
           (ATree.popIterate d x acc.2).2.2.emit (.remove (hdr d x).id))
        obtain ⟨p1, p2⟩ := popIterate_ctx d x acc.2
        exact ⟨h1.trans (by simpa [Ctx.emit] using p1), h2.trans (by simpa [Ctx.emit] using p2)⟩
    exact key m.children.reverse ([], c)

theorem arr_popIterate_ctx (a : Arr) (c : Ctx) :
    (a.popIterate c).2.2.created = c.created ∧ (a.popIterate c).2.2.ctr = c.ctr := by
  obtain ⟨h1, h2⟩ := popIterate_ctx a.d a.root c
  unfold Arr.popIterate
  simp only
  split
  · exact ⟨h1, h2⟩
  · exact ⟨by simpa [Ctx.emit] using h1, by simpa [Ctx.emit] using h2⟩

end Atree
