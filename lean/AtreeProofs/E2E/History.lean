import AtreeProofs.E2E.Load
import AtreeProofs.E2E.Created
import AtreeProofs.Props.C09
import AtreeProofs.Props.C05
/-
  Histories of array operations run against the storage state machine: the invariant `Good`
  (array invariant, representation, storage invariant, allocation counters in step, no dangling
  reference to a large value) is kept by every request, and the values represented follow the
  `List` semantics.
-/
namespace Atree.E2E
open Atree Gen ATree

variable {β : Type}

/-! ### list helpers -/

theorem map_insertIdx' {α γ : Type} (f : α → γ) (a : α) : ∀ (l : List α) (i : Nat),
    (l.insertIdx i a).map f = (l.map f).insertIdx i (f a)
  | _, 0 => by simp
  | [], i + 1 => by simp
  | x :: l, i + 1 => by simp [List.insertIdx_succ_cons, map_insertIdx' f a l i]

theorem map_eraseIdx' {α γ : Type} (f : α → γ) : ∀ (l : List α) (i : Nat),
    (l.eraseIdx i).map f = (l.map f).eraseIdx i
  | [], _ => by simp
  | x :: l, 0 => by simp
  | x :: l, i + 1 => by simp [map_eraseIdx' f l i]

theorem allocCount_eq (addr : Nat) (E : List Eff) : allocCount addr E = nAllocAt addr E := by
  unfold allocCount nAllocAt
  congr 1

theorem newEffs_of_log {c c' : Ctx} {E : List Eff} {C : List (SlabID × Elem)} (h : Log c c' E C) :
    newEffs c c' = E := by
  unfold newEffs; rw [h.eff]; exact List.drop_left

theorem newEffs_self (c : Ctx) : newEffs c c = [] := by simp [newEffs]

theorem applyEffs_nil (c : Codec SSlab β) (s : St SSlab β) (content : SlabID → Option SSlab) :
    applyEffs c s content [] = s := rfl

/-! ### the invariant of a run -/

/-- every reference element of the array points to a live large-value slab -/
def RefsOk (st : Arr × Ctx) : Prop :=
  ∀ e ∈ st.1.toList, ∀ y, e.pay = .ref y → (AList.find? st.2.created y).isSome

structure Good (c : Codec SSlab β) (T : Nat) (x : (Arr × Ctx) × St SSlab β) : Prop where
  inv : ArrInv T x.1.1 x.1.2.ctr
  rep : Rep c x.2 x.1.1 (AList.find? x.1.2.created) x.1.2.ctr
  st : Inv c x.2
  addr : x.1.1.addr ≠ 0
  sync : AllocSync x.2 x.1.1.addr x.1.2.ctr
  caddr : ∀ p ∈ x.1.2.created, p.1.addr = x.1.1.addr
  refs : RefsOk x.1
  /-- every pending store is owned by the array's address -/
  pend : ∀ id v, AList.find? x.2.deltas id = some (some v) → id.addr = x.1.1.addr

theorem Good.created_le {c : Codec SSlab β} {T : Nat} {x : (Arr × Ctx) × St SSlab β}
    (h : Good c T x) : ∀ p ∈ x.1.2.created, p.1.idx ≤ x.1.2.ctr := by
  intro p hp
  exact (h.rep.extra_fresh p.1 (find?_isSome_of_mem_keys (List.mem_map_of_mem hp))).2

theorem effectsComplete_mono {a a' : Arr} {E : List Eff} {cr cr0 : List SlabID}
    (h : EffectsComplete a a' E cr) : EffectsComplete a a' E (cr0 ++ cr) :=
  ⟨h.changed_stored, h.gone_removed, fun j hj => (h.stored_in_tree j hj).imp (fun h => h)
    (fun h => List.mem_append.2 (Or.inr h)), h.removed_not_in_tree⟩

/-- ONE STEP, generic: an operation whose log is a complete account with footprint, whose created
    slabs are stored and whose allocations are counted, keeps everything but `refs`. -/
theorem good_step (c : Codec SSlab β) (hc : RoundTrip c) (T : Nat) (a : Arr) (ctx : Ctx)
    (s : St SSlab β) (a' : Arr) (ctx' : Ctx) (E : List Eff) (C : List (SlabID × Elem))
    (hg : Good c T ((a, ctx), s))
    (hlog : Log ctx ctx' E C)
    (heff : EffectsComplete a a' E (C.map (·.1)))
    (hfoot : ∀ id, lastAction E id ≠ none → (a.slabAt id).isSome ∨ ctx.ctr < id.idx)
    (hnew : ∀ id, (a'.slabAt id).isSome → (a.slabAt id).isSome ∨ ctx.ctr < id.idx)
    (hcr : CreatedOk a.addr ctx.ctr ctx'.ctr E (C.map (·.1)) (slabIds a'.d a'.root))
    (hal : AllocCnt a.addr ctx ctx' E)
    (hinv' : ArrInv T a' ctx'.ctr) (haddr : a'.addr = a.addr)
    (hrefs : RefsOk (a', ctx')) :
    Good c T ((a', ctx'), applyEffs c s (contentOf (a', ctx')) (newEffs ctx ctx')) := by
  have hcre : ctx'.created = ctx.created ++ C := hlog.created
  have hrep := rep_step_gen c s a a' (AList.find? ctx.created) ctx.ctr ctx'.ctr E
    (ctx.created ++ C) hg.rep (by rw [List.map_append]; exact effectsComplete_mono heff) haddr hg.addr
    hlog.ctr_le (by
      intro p hp
      rcases List.mem_append.1 hp with h | h
      · exact Nat.le_trans (hg.created_le p h) hlog.ctr_le
      · exact (hcr p.1 (List.mem_map_of_mem h)).2.2.2.1)
  have hex : extraStep a' E (ctx.created ++ C) (AList.find? ctx.created)
      = AList.find? (ctx.created ++ C) := by
    refine extraStep_created a a' E ctx.created C ctx.ctr hg.rep.extra_fresh hfoot
      heff.stored_in_tree ?_ ?_
    · intro id hn
      by_cases h : (a'.slabAt id).isSome
      · rcases hnew id h with h1 | h1
        · cases hs : a.slabAt id <;> simp_all
        · exact Or.inl h1
      · right; cases hs : a'.slabAt id <;> simp_all
    · intro id hid
      obtain ⟨h1, h2, h3, _, _⟩ := hcr id hid
      exact ⟨h3, h1, (slabAt_isNone a' id).2 h2⟩
  rw [hex] at hrep
  have hcaddr : ∀ p ∈ ctx'.created, p.1.addr = a.addr := by
    intro p hp
    rw [hcre] at hp
    rcases List.mem_append.1 hp with h | h
    · exact hg.caddr p h
    · exact (hcr p.1 (List.mem_map_of_mem h)).2.2.2.2
  refine ⟨hinv', ?_, ?_, by show a'.addr ≠ 0; rw [haddr]; exact hg.addr, ?_, ?_, hrefs, ?_⟩
  rotate_left 4
  · -- pending stores are owned
    intro id v hv
    show id.addr = a'.addr
    rw [haddr]
    have hv' : AList.find? (applyEffs c s (stored a' (AList.find? (ctx.created ++ C))) E).deltas id
        = some (some v) := by
      have := hv
      simp only [contentOf, newEffs_of_log hlog, hcre] at this
      exact this
    by_cases hu : id = SlabID.undef
    · subst hu
      rw [find?_deltas_applyEffs_undef] at hv'
      exact hg.pend _ v hv'
    · have heff' : EffectsComplete a a' E ((ctx.created ++ C).map (·.1)) := by
        rw [List.map_append]; exact effectsComplete_mono heff
      rw [find?_deltas_applyEffs c s _ E id hu (content_wf heff' id)] at hv'
      cases hl : lastAction E id with
      | none => rw [hl] at hv'; exact hg.pend id v hv'
      | some b =>
        rw [hl] at hv'
        cases b with
        | false => cases hv'
        | true =>
          rcases heff'.stored_in_tree id hl with h | h
          · rw [slabAt_isSome] at h
            have := (hinv'.ids.2 id h).1
            rw [this, haddr]
          · simp only [List.mem_map] at h
            obtain ⟨p, hp, rfl⟩ := h
            exact hcaddr p (by rw [hcre]; exact hp)
  · show Rep c (applyEffs c s (stored a' (AList.find? ctx'.created)) (newEffs ctx ctx')) a'
      (AList.find? ctx'.created) ctx'.ctr
    rw [newEffs_of_log hlog, hcre]
    exact hrep
  · exact applyEffs_inv c hc s _ _ hg.st
  · show AllocSync _ a'.addr ctx'.ctr
    unfold AllocSync
    rw [haddr, applyEffs_alloc c s _ _ a.addr hg.addr, newEffs_of_log hlog, allocCount_eq, hal]
    have := hg.sync
    unfold AllocSync at this
    show _ + _ = _
    rw [this]
  · intro p hp
    show p.1.addr = a'.addr
    rw [haddr]
    rw [hcre] at hp
    rcases List.mem_append.1 hp with h | h
    · exact hg.caddr p h
    · exact (hcr p.1 (List.mem_map_of_mem h)).2.2.2.2

/-- a rejected request -/
theorem good_unchanged (c : Codec SSlab β) (T : Nat) (x : (Arr × Ctx) × St SSlab β)
    (hg : Good c T x) :
    Good c T (x.1, applyEffs c x.2 (contentOf x.1) (newEffs x.1.2 x.1.2)) := by
  rw [newEffs_self, applyEffs_nil]
  exact hg

/-- footprint and new keys from an account -/
theorem foot_of_acct {a a' : Arr} {cn : Nat} {E : List Eff} {cr : List SlabID}
    (h : Acct cn (ATree.slabs a.d a.root) (ATree.slabs a'.d a'.root) E cr) :
    (∀ id, lastAction E id ≠ none → (a.slabAt id).isSome ∨ cn < id.idx) ∧
    (∀ id, (a'.slabAt id).isSome → (a.slabAt id).isSome ∨ cn < id.idx) := by
  constructor
  · intro id hne
    rcases h.foot id hne with h1 | h1
    · left; rw [slabAt_isSome, ← keys_slabs]; exact h1
    · exact Or.inr h1
  · intro id hs
    rw [slabAt_isSome, ← keys_slabs] at hs
    rcases h.keys_new id hs with h1 | h1
    · left; rw [slabAt_isSome, ← keys_slabs]; exact h1
    · exact Or.inr h1

/-! ### values -/

theorem resolve_val {created : List (SlabID × Elem)} {e : Elem} (h : ∃ n, e.pay = .val n) :
    resolve created e = e := by
  obtain ⟨n, hn⟩ := h
  simp [resolve, hn]

/-- appending created slabs does not change what the existing references resolve to -/
theorem resolve_append {created C : List (SlabID × Elem)} {e : Elem}
    (h : ∀ y, e.pay = .ref y → (AList.find? created y).isSome) :
    resolve (created ++ C) e = resolve created e := by
  unfold resolve
  cases hp : e.pay with
  | val n => rfl
  | ref y =>
    simp only
    have := h y hp
    rw [find?_append]
    cases hf : AList.find? created y with
    | none => rw [hf] at this; cases this
    | some v => rfl

theorem values_append (a : Arr) (created C : List (SlabID × Elem)) (h : RefsOk (a, created_ctx))
    (hc : created_ctx.created = created) :
    a.toList.map (resolve (created ++ C)) = a.toList.map (resolve created) := by
  apply List.map_congr_left
  intro e he
  exact resolve_append (fun y hy => by have := h e he y hy; rwa [hc] at this)

/-- the stored form of a value resolves to the value, and is a live reference -/
theorem resolve_storedForm (T addr : Nat) (v : Elem) (ctx : Ctx) (hv : ValueOk v)
    (hle : ∀ p ∈ ctx.created, p.1.idx ≤ ctx.ctr) :
    resolve (ctx.created ++ crOf T addr v ctx) (toStorable T addr v ctx).1 = v ∧
    ∀ y, (toStorable T addr v ctx).1.pay = .ref y →
      (AList.find? (ctx.created ++ crOf T addr v ctx) y).isSome := by
  obtain ⟨_, n, hn⟩ := hv
  unfold crOf toStorable
  rw [hn]
  simp only
  split
  · have hfresh : AList.find? ctx.created ⟨addr, ctx.ctr + 1⟩ = none := by
      rw [AList.find?_eq_none_iff]
      intro hin
      simp only [AList.keys, List.mem_map] at hin
      obtain ⟨p, hp, hpe⟩ := hin
      have := hle p hp
      rw [hpe] at this
      simp only at this
      omega
    simp [resolve, Ctx.alloc, find?_append, hfresh, AList.find?_cons]
  · simp [resolve, hn]

/-! ### one request -/

theorem count_eq_length {T : Nat} {a : Arr} {ctr : Nat} (h : ArrInv T a ctr) :
    a.count = a.toList.length := by
  obtain ⟨d, t, ty⟩ := a
  exact h.shape.count_eq_length

theorem values_length (st : Arr × Ctx) : (values st).length = st.1.toList.length := by
  simp [values]

/-- `Insert` -/
theorem good_insert (c : Codec SSlab β) (hc : RoundTrip c) (T : Nat) (hT : legalThreshold T = true)
    (x : (Arr × Ctx) × St SSlab β) (hg : Good c T x) (i : Nat) (v : Elem) (hv : ValueOk v) :
    Good c T (stepS c T x (.insert i v)) ∧
    values (stepS c T x (.insert i v)).1 = specStep (values x.1) (.insert i v) ∧
    (stepS c T x (.insert i v)).1.1.rootID = x.1.1.rootID ∧
    (stepS c T x (.insert i v)).1.1.ty = x.1.1.ty := by
  obtain ⟨⟨a, ctx⟩, s⟩ := x
  have hlen : a.count = a.toList.length := count_eq_length hg.inv
  simp only [stepS, stepA, specStep, values_length]
  by_cases hok : a.toList.length < maxArrayElementCount ∧ i ≤ a.toList.length
  · obtain ⟨hcount, hi⟩ := hok
    obtain ⟨a', ctx', heq, hinv', hlist, hid, hty⟩ :=
      arr_insert_ok hT a ctx i v hv hg.inv (by omega) hi
    rw [heq]
    simp only [hcount, hi, and_self, if_true]
    obtain ⟨E, C, hlog, hacct⟩ := arr_insert_acct hT a ctx i v hv hg.inv a' ctx' heq
    obtain ⟨E', C', hlog', hcr, hal, hC⟩ := arr_insert_created hT a ctx i v hv hg.inv a' ctx' heq
    obtain ⟨rfl, rfl⟩ := hlog.unique hlog'
    have heff := effectsComplete_of_acct hacct hg.inv.ids.1 hid hty
    obtain ⟨hfoot, hnew⟩ := foot_of_acct hacct
    have haddr : a'.addr = a.addr := by unfold Arr.addr; rw [hid]
    have hcre : ctx'.created = ctx.created ++ crOf T a.addr v ctx := by rw [hlog.created, hC]
    obtain ⟨hres, hsf⟩ := resolve_storedForm T a.addr v ctx hv hg.created_le
    have hrefs : RefsOk (a', ctx') := by
      intro e he y hy
      simp only at he hy ⊢
      rw [hlist, List.mem_insertIdx hi] at he
      rw [hcre]
      rcases he with rfl | he
      · exact hsf y hy
      · rw [find?_append]
        have := hg.refs e he y hy
        simp only at this
        cases hf : AList.find? ctx.created y with
        | none => rw [hf] at this; cases this
        | some w => rfl
    refine ⟨good_step c hc T a ctx s a' ctx' E C hg hlog heff hfoot hnew hcr hal hinv' haddr hrefs,
      ?_, hid, hty⟩
    simp only [values]
    rw [hlist, map_insertIdx', hcre, hres, values_append a ctx.created _ hg.refs rfl]
  · have herr : ∃ e, a.insert T i v ctx = .error e := by
      by_cases hcount : a.count = maxArrayElementCount
      · exact ⟨_, by unfold Arr.insert; rw [if_pos hcount]⟩
      · refine ⟨_, arr_insert_err a ctx i v hg.inv hcount ?_⟩
        have hlt : a.count < maxArrayElementCount + 1 := hg.inv.count_lt
        omega
    obtain ⟨e, he⟩ := herr
    rw [he]
    simp only [hok, if_false]
    refine ⟨good_unchanged c T ((a, ctx), s) hg, ?_, ?_, ?_⟩ <;> first | rfl | trivial

/-- `Append` is `Insert` at the end -/
theorem stepS_append (c : Codec SSlab β) (T : Nat) (x : (Arr × Ctx) × St SSlab β) (v : Elem) :
    stepS c T x (.append v) = stepS c T x (.insert x.1.1.count v) := rfl

/-- `Set` -/
theorem good_set (c : Codec SSlab β) (hc : RoundTrip c) (T : Nat) (hT : legalThreshold T = true)
    (x : (Arr × Ctx) × St SSlab β) (hg : Good c T x) (i : Nat) (v : Elem) (hv : ValueOk v) :
    Good c T (stepS c T x (.set i v)) ∧
    values (stepS c T x (.set i v)).1 = specStep (values x.1) (.set i v) ∧
    (stepS c T x (.set i v)).1.1.rootID = x.1.1.rootID ∧
    (stepS c T x (.set i v)).1.1.ty = x.1.1.ty := by
  obtain ⟨⟨a, ctx⟩, s⟩ := x
  simp only [stepS, stepA, specStep, values_length]
  by_cases hi : i < a.toList.length
  · obtain ⟨a', ctx', heq, hinv', hlist, hid, hty⟩ := arr_set_ok hT a ctx i v hv hg.inv hi
    rw [heq]
    simp only [hi, if_true]
    obtain ⟨E, C, hlog, hacct⟩ := arr_set_acct hT a ctx i v hv hg.inv _ a' ctx' heq
    obtain ⟨E', C', hlog', hcr, hal, hC⟩ := arr_set_created hT a ctx i v hv hg.inv _ a' ctx' heq
    obtain ⟨rfl, rfl⟩ := hlog.unique hlog'
    have heff := effectsComplete_of_acct hacct hg.inv.ids.1 hid hty
    obtain ⟨hfoot, hnew⟩ := foot_of_acct hacct
    have haddr : a'.addr = a.addr := by unfold Arr.addr; rw [hid]
    have hcre : ctx'.created = ctx.created ++ crOf T a.addr v ctx := by rw [hlog.created, hC]
    obtain ⟨hres, hsf⟩ := resolve_storedForm T a.addr v ctx hv hg.created_le
    have hrefs : RefsOk (a', ctx') := by
      intro e he y hy
      simp only at he hy ⊢
      rw [hlist] at he
      rw [hcre]
      rcases List.mem_or_eq_of_mem_set he with he | rfl
      · rw [find?_append]
        have := hg.refs e he y hy
        simp only at this
        cases hf : AList.find? ctx.created y with
        | none => rw [hf] at this; cases this
        | some w => rfl
      · exact hsf y hy
    refine ⟨good_step c hc T a ctx s a' ctx' E C hg hlog heff hfoot hnew hcr hal hinv' haddr hrefs,
      ?_, hid, hty⟩
    simp only [values]
    rw [hlist, List.map_set, hcre, hres, values_append a ctx.created _ hg.refs rfl]
  · have he := arr_set_err a ctx i v hg.inv (by omega)
    rw [he]
    simp only [hi, if_false]
    refine ⟨good_unchanged c T ((a, ctx), s) hg, ?_, ?_, ?_⟩ <;> first | rfl | trivial

/-- `Remove` -/
theorem good_remove (c : Codec SSlab β) (hc : RoundTrip c) (T : Nat) (hT : legalThreshold T = true)
    (x : (Arr × Ctx) × St SSlab β) (hg : Good c T x) (i : Nat) :
    Good c T (stepS c T x (.remove i)) ∧
    values (stepS c T x (.remove i)).1 = specStep (values x.1) (.remove i) ∧
    (stepS c T x (.remove i)).1.1.rootID = x.1.1.rootID ∧
    (stepS c T x (.remove i)).1.1.ty = x.1.1.ty := by
  obtain ⟨⟨a, ctx⟩, s⟩ := x
  simp only [stepS, stepA, specStep, values_length]
  by_cases hi : i < a.toList.length
  · obtain ⟨a', ctx', heq, hinv', hlist, hid, hty⟩ := arr_remove_ok hT a ctx i hg.inv hi
    rw [heq]
    simp only [hi, if_true]
    obtain ⟨E, C, hlog, hacct⟩ := arr_remove_acct hT a ctx i hg.inv _ a' ctx' heq
    obtain ⟨E', hlog', hal⟩ := arr_remove_created a ctx i _ a' ctx' heq
    obtain ⟨rfl, rfl⟩ := hlog.unique hlog'
    have heff := effectsComplete_of_acct hacct hg.inv.ids.1 hid hty
    obtain ⟨hfoot, hnew⟩ := foot_of_acct hacct
    have haddr : a'.addr = a.addr := by unfold Arr.addr; rw [hid]
    have hcre : ctx'.created = ctx.created := by rw [hlog.created]; simp
    have hrefs : RefsOk (a', ctx') := by
      intro e he y hy
      simp only at he hy ⊢
      rw [hlist] at he
      rw [hcre]
      exact hg.refs e (List.mem_of_mem_eraseIdx he) y hy
    refine ⟨good_step c hc T a ctx s a' ctx' E [] hg hlog heff hfoot hnew (CreatedOk.nil _ _ _ _ _)
      (hal _) hinv' haddr hrefs, ?_, hid, hty⟩
    simp only [values]
    rw [hlist, map_eraseIdx', hcre]
  · have he := arr_remove_err a ctx i hg.inv (by omega)
    rw [he]
    simp only [hi, if_false]
    refine ⟨good_unchanged c T ((a, ctx), s) hg, ?_, ?_, ?_⟩ <;> first | rfl | trivial

/-- `PopIterate` -/
theorem good_pop (c : Codec SSlab β) (hc : RoundTrip c) (T : Nat) (hT : legalThreshold T = true)
    (x : (Arr × Ctx) × St SSlab β) (hg : Good c T x) :
    Good c T (stepS c T x .popIterate) ∧
    values (stepS c T x .popIterate).1 = specStep (values x.1) .popIterate ∧
    (stepS c T x .popIterate).1.1.rootID = x.1.1.rootID ∧
    (stepS c T x .popIterate).1.1.ty = x.1.1.ty := by
  obtain ⟨⟨a, ctx⟩, s⟩ := x
  simp only [stepS, stepA, specStep]
  obtain ⟨h1, h2, h3, h4⟩ := arr_popIterate_refines a ctx
  obtain ⟨hcre, hctr⟩ := arr_popIterate_ctx a ctx
  obtain ⟨E0, heffs, hE1, hE2⟩ := arr_popIterate_eff a ctx hg.inv.standalone
  have hinv' := arr_popIterate_inv hT a ctx hg.inv
  obtain ⟨heff, _, _⟩ := C09.pop_releases_all T hT a ctx hg.inv
  generalize hr : a.popIterate ctx = r at *
  obtain ⟨es, a', ctx'⟩ := r
  simp only at *
  have hlog : Log ctx ctx' (E0 ++ [.store a.rootID]) [] := by
    refine ⟨heffs, by simp [hcre], by omega, ?_⟩
    intro addr id hm
    rcases List.mem_append.1 hm with h | h
    · obtain ⟨j, _, hj⟩ := hE1 _ h; cases hj
    · simp at h
  have hnE : C09.newEffects ctx ctx' = E0 ++ [.store a.rootID] := by
    unfold C09.newEffects; rw [heffs]; exact List.drop_left
  rw [hnE] at heff
  have haddr : a'.addr = a.addr := by unfold Arr.addr; rw [h3]
  have hfoot : ∀ id, lastAction (E0 ++ [.store a.rootID]) id ≠ none →
      (a.slabAt id).isSome ∨ ctx.ctr < id.idx := by
    intro id hne
    left
    rw [slabAt_isSome, slabIds_eq]
    rw [lastAction_concat_store] at hne
    split at hne
    · rename_i he; subst he; exact List.mem_cons_self
    · have hrem : ∀ e ∈ E0, ∃ i, e = Eff.remove i := fun e he => by
        obtain ⟨j, _, rfl⟩ := hE1 e he; exact ⟨j, rfl⟩
      have h5 := lastAction_only_removes E0 hrem id
      cases hl : lastAction E0 id with
      | none => exact absurd hl hne
      | some b =>
        cases b with
        | true => exact absurd hl h5.2
        | false =>
          obtain ⟨j, hj, hje⟩ := hE1 _ (h5.1.1 hl)
          cases hje
          exact List.mem_cons_of_mem _ hj
  have hnew : ∀ id, (a'.slabAt id).isSome → (a.slabAt id).isSome ∨ ctx.ctr < id.idx := by
    intro id hs
    left
    have hids' : slabIds a'.d a'.root = [a.rootID] := by
      have := congrArg (fun r => slabIds r.2.1.d r.2.1.root) hr
      simp only at this
      rw [← this]; rfl
    rw [slabAt_isSome, hids', List.mem_singleton] at hs
    rw [slabAt_isSome, hs, slabIds_eq]
    exact List.mem_cons_self
  have hal : AllocCnt a.addr ctx ctx' (E0 ++ [.store a.rootID]) := by
    unfold AllocCnt
    rw [hctr]
    have : nAllocAt a.addr (E0 ++ [.store a.rootID]) = 0 := by
      unfold nAllocAt
      rw [List.length_eq_zero_iff, List.filter_eq_nil_iff]
      intro e he
      rcases List.mem_append.1 he with h | h
      · obtain ⟨j, _, rfl⟩ := hE1 _ h; simp [isAllocAt]
      · simp at h; subst h; simp [isAllocAt]
    omega
  have hrefs : RefsOk (a', ctx') := by
    intro e he
    rw [h2] at he; cases he
  refine ⟨good_step c hc T a ctx s a' ctx' _ [] hg hlog heff hfoot hnew (CreatedOk.nil _ _ _ _ _)
    hal (by rw [hctr] at hinv' ⊢; exact hinv') haddr hrefs, ?_, h3, h4⟩
  simp [values, h2]

/-- `SetType` -/
theorem good_setType (c : Codec SSlab β) (hc : RoundTrip c) (T : Nat)
    (x : (Arr × Ctx) × St SSlab β) (hg : Good c T x) (ty : Nat) :
    Good c T (stepS c T x (.setType ty)) ∧
    values (stepS c T x (.setType ty)).1 = specStep (values x.1) (.setType ty) ∧
    (stepS c T x (.setType ty)).1.1.rootID = x.1.1.rootID ∧
    (stepS c T x (.setType ty)).1.1.ty = ty := by
  obtain ⟨⟨a, ctx⟩, s⟩ := x
  simp only [stepS, stepA, specStep]
  have hst := hg.inv.standalone
  have hres : a.setType ty ctx = ({ a with ty := ty }, ctx.emit (.store a.rootID)) := by
    unfold Arr.setType; rw [hst]; rfl
  rw [hres]
  have hslabs : ∀ id, id ≠ a.rootID → ({ a with ty := ty } : Arr).slabAt id = a.slabAt id := by
    intro id hne
    have hne' : ¬ id = ({ a with ty := ty } : Arr).rootID := hne
    simp only [Arr.slabAt, hne, hne', if_false]
  have hsome : ∀ id, (({ a with ty := ty } : Arr).slabAt id).isSome = (a.slabAt id).isSome := by
    intro id; simp [Arr.slabAt]
  have hla : ∀ id, lastAction [Eff.store a.rootID] id = if a.rootID = id then some true else none := by
    intro id
    have := lastAction_concat_store [] a.rootID id
    simpa using this
  have heff : EffectsComplete a { a with ty := ty } [.store a.rootID] (([] : List (SlabID × Elem)).map (·.1)) := by
    refine ⟨?_, ?_, ?_, ?_⟩
    · intro id _ hne
      rw [hla]
      by_cases h : a.rootID = id
      · simp [h]
      · exact absurd (hslabs id (fun e => h e.symm)) hne
    · intro id h1 h2
      have h3 := hsome id
      rw [h1] at h3
      cases hs : ({ a with ty := ty } : Arr).slabAt id <;> simp_all
    · intro id h
      rw [hla] at h
      split at h
      · rename_i he; subst he
        left
        rw [hsome, slabAt_isSome]
        exact hdr_id_mem_slabIds a.d a.root
      · cases h
    · intro id h
      rw [hla] at h
      split at h <;> cases h
  have hfoot : ∀ id, lastAction [Eff.store a.rootID] id ≠ none →
      (a.slabAt id).isSome ∨ ctx.ctr < id.idx := by
    intro id hne
    rw [hla] at hne
    split at hne
    · rename_i he; subst he
      left; rw [slabAt_isSome]; exact hdr_id_mem_slabIds a.d a.root
    · exact absurd rfl hne
  have hinv' : ArrInv T { a with ty := ty } (ctx.emit (.store a.rootID)).ctr := by
    have := C05.inv_setType T a ctx ty hg.inv
    rw [hres] at this
    exact this
  refine ⟨good_step c hc T a ctx s { a with ty := ty } (ctx.emit (.store a.rootID)) _ [] hg
    (Log.store ctx a.rootID) heff hfoot (fun id h => Or.inl (by rw [← hsome]; exact h))
    (CreatedOk.nil _ _ _ _ _) (AllocCnt.store _ _ _) hinv' rfl ?_, rfl, rfl, rfl⟩
  intro e he y hy
  exact hg.refs e he y hy

/-- EVERY REQUEST keeps the invariant and follows the `List` semantics. -/
theorem good_stepS (c : Codec SSlab β) (hc : RoundTrip c) (T : Nat) (hT : legalThreshold T = true)
    (x : (Arr × Ctx) × St SSlab β) (hg : Good c T x) (op : AOp) (hop : op.Ok) :
    Good c T (stepS c T x op) ∧
    values (stepS c T x op).1 = specStep (values x.1) op ∧
    (stepS c T x op).1.1.rootID = x.1.1.rootID ∧
    (stepS c T x op).1.1.ty = specTy x.1.1.ty [op] := by
  cases op with
  | insert i v => exact good_insert c hc T hT x hg i v hop
  | append v =>
    rw [stepS_append]
    obtain ⟨h1, h2, h3, h4⟩ := good_insert c hc T hT x hg x.1.1.count v hop
    refine ⟨h1, ?_, h3, h4⟩
    rw [h2]
    have hlen := count_eq_length hg.inv
    simp only [specStep, values_length, hlen, Nat.le_refl, and_true]
    split
    · rw [← values_length, List.insertIdx_length_self]
    · rfl
  | set i v => exact good_set c hc T hT x hg i v hop
  | remove i => exact good_remove c hc T hT x hg i
  | popIterate => exact good_pop c hc T hT x hg
  | setType ty => exact good_setType c hc T x hg ty

theorem specTy_cons (ty : Nat) (op : AOp) (ops : List AOp) :
    specTy ty (op :: ops) = specTy (specTy ty [op]) ops := rfl

/-- ANY HISTORY, from any good state. -/
theorem good_runS (c : Codec SSlab β) (hc : RoundTrip c) (T : Nat) (hT : legalThreshold T = true) :
    ∀ (ops : List AOp) (x : (Arr × Ctx) × St SSlab β), Good c T x → (∀ op ∈ ops, op.Ok) →
      Good c T (runS c T x ops) ∧
      values (runS c T x ops).1 = specRun (values x.1) ops ∧
      (runS c T x ops).1.1.rootID = x.1.1.rootID ∧
      (runS c T x ops).1.1.ty = specTy x.1.1.ty ops
  | [], x, hg, _ => ⟨hg, rfl, rfl, rfl⟩
  | op :: ops, x, hg, hok => by
    obtain ⟨h1, h2, h3, h4⟩ := good_stepS c hc T hT x hg op (hok op (by simp))
    obtain ⟨g1, g2, g3, g4⟩ := good_runS c hc T hT ops (stepS c T x op) h1
      (fun o ho => hok o (by simp [ho]))
    refine ⟨g1, ?_, g3.trans h3, ?_⟩
    · show values (runS c T (stepS c T x op) ops).1 = specRun (specStep (values x.1) op) ops
      rw [g2, h2]
    · show (runS c T (stepS c T x op) ops).1.1.ty = _
      rw [g4, h4]
      exact (specTy_cons _ _ _).symm

/-- the array model's side of `runS` is `runA` -/
theorem runS_fst (c : Codec SSlab β) (T : Nat) :
    ∀ (ops : List AOp) (x : (Arr × Ctx) × St SSlab β), (runS c T x ops).1 = runA T x.1 ops
  | [], _ => rfl
  | op :: ops, x => by
    show (runS c T (stepS c T x op) ops).1 = runA T (stepA T x.1 op) ops
    rw [runS_fst c T ops]
    rfl

/-! ### `NewArray` -/

theorem lastAction_new (addr : Nat) (id : SlabID) :
    lastAction [Eff.alloc addr ⟨addr, 1⟩, Eff.store ⟨addr, 1⟩] id
      = if (⟨addr, 1⟩ : SlabID) = id then some true else none := by
  have := lastAction_concat_store [Eff.alloc addr ⟨addr, 1⟩] ⟨addr, 1⟩ id
  simp only [List.cons_append, List.nil_append] at this
  rw [this]
  rfl

theorem good_new (c : Codec SSlab β) (hc : RoundTrip c) (T : Nat) (hT : legalThreshold T = true)
    (addr ty : Nat) (haddr : addr ≠ 0) :
    Good c T (newS c addr ty) ∧ values (newS c addr ty).1 = [] ∧
    (newS c addr ty).1.1.rootID = ⟨addr, 1⟩ ∧ (newS c addr ty).1.1.ty = ty := by
  have hinv := C05.inv_new T addr ty ⟨0, [], []⟩ hT
  refine ⟨⟨hinv, ?_, ?_, haddr, ?_, ?_, ?_, ?_⟩, rfl, rfl, rfl⟩
  rotate_left 5
  · -- pending stores are owned
    intro id v hv
    show id.addr = addr
    have hv' : AList.find? (applyEffs c St.init (contentOf (Arr.new addr ty ⟨0, [], []⟩))
        [Eff.alloc addr ⟨addr, 1⟩, Eff.store ⟨addr, 1⟩]).deltas id = some (some v) := hv
    by_cases hu : id = SlabID.undef
    · subst hu
      rw [find?_deltas_applyEffs_undef] at hv'
      cases hv'
    · by_cases hroot : (⟨addr, 1⟩ : SlabID) = id
      · subst hroot; rfl
      · rw [find?_deltas_applyEffs c St.init _ _ id hu
          (by rw [lastAction_new, if_neg hroot]; intro h; cases h), lastAction_new, if_neg hroot] at hv'
        cases hv'
  · -- representation
    refine ⟨?_, ?_⟩
    · intro id hid
      have hid' : id.addr = addr := hid
      have hu := ne_undef_of_addr hid' haddr
      show (applyEffs c St.init (contentOf (Arr.new addr ty ⟨0, [], []⟩))
        [Eff.alloc addr ⟨addr, 1⟩, Eff.store ⟨addr, 1⟩]).view c id
        = contentOf (Arr.new addr ty ⟨0, [], []⟩) id
      by_cases hroot : (⟨addr, 1⟩ : SlabID) = id
      · subst hroot
        have hcs : (contentOf (Arr.new addr ty ⟨0, [], []⟩) ⟨addr, 1⟩).isSome := by
          simp [contentOf, stored, Arr.slabAt, Arr.new, Ctx.alloc, Ctx.emit, ATree.slabs, AList.find?]
        rw [view_applyEffs c St.init _ _ _ hu (fun _ => hcs), lastAction_new, if_pos rfl]
      · rw [view_applyEffs c St.init _ _ id hu (by rw [lastAction_new, if_neg hroot]; intro h; cases h),
          lastAction_new, if_neg hroot]
        have : ¬ id = (⟨addr, 1⟩ : SlabID) := fun e => hroot e.symm
        have hne2 : ¬ (⟨addr, 1⟩ : SlabID) = id := hroot
        simp [St.view, St.init, St.fresh, contentOf, stored, Arr.slabAt, Arr.new, Ctx.alloc, Ctx.emit,
          ATree.slabs, AList.find?, hne2]
    · intro id h
      exact absurd h (by simp [newS, Arr.new, Ctx.alloc, Ctx.emit])
  · exact applyEffs_inv c hc _ _ _ (inv_init c)
  · show (AList.find? (applyEffs c St.init (contentOf (Arr.new addr ty ⟨0, [], []⟩))
        [Eff.alloc addr ⟨addr, 1⟩, Eff.store ⟨addr, 1⟩]).alloc addr).getD 0 = 1
    rw [applyEffs_alloc c _ _ _ addr haddr]
    simp [allocCount, St.init, St.fresh]
  · intro p hp
    exact absurd hp (by simp [newS, Arr.new, Ctx.alloc, Ctx.emit])
  · intro e he
    exact absurd he (by simp [newS, Arr.new, Arr.toList, ATree.flatten])

end Atree.E2E
