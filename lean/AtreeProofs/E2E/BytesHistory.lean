import AtreeProofs.E2E.Bytes
import AtreeProofs.E2E.History
/-
  Histories whose values the harness can encode: the stored elements stay encodable (`EncSt`), hence
  every slab pending in the storage meets the encoder's preconditions (`noEncodeFailure_of_good`).
-/
namespace Atree.E2E
open Atree Atree.Codec Gen ATree

variable {β : Type}

/-- the stored elements, the large values and the type info can be encoded -/
structure EncSt (st : Arr × Ctx) : Prop where
  elems : ∀ e ∈ st.1.toList, ElemEnc e
  created : ∀ p ∈ st.2.created, validElem p.2
  ty : st.1.ty < 2 ^ 64

theorem elemEnc_of_valid {e : Elem} (h : validElem e) (hv : ∃ n, e.pay = .val n) : ElemEnc e := by
  obtain ⟨n, hn⟩ := hv
  unfold ElemEnc; rw [hn]; exact h

/-- the stored form of an encodable value is encodable, and what is created is the value -/
theorem storedForm_enc (T addr : Nat) (v : Elem) (ctx : Ctx) (hv : ValueOk v) (hval : validElem v) :
    ElemEnc (toStorable T addr v ctx).1 ∧ ∀ p ∈ crOf T addr v ctx, validElem p.2 := by
  obtain ⟨_, n, hn⟩ := hv
  unfold crOf toStorable
  rw [hn]
  simp only
  split
  · refine ⟨by simp [ElemEnc], ?_⟩
    intro p hp
    simp [Ctx.alloc] at hp
    rw [hp]; exact hval
  · refine ⟨elemEnc_of_valid hval ⟨n, hn⟩, ?_⟩
    intro p hp
    simp at hp

theorem encSt_insert (c : Codec SSlab β) (T : Nat) (hT : legalThreshold T = true)
    (a : Arr) (ctx : Ctx) (s : St SSlab β) (hg : Good c T ((a, ctx), s)) (he : EncSt (a, ctx))
    (i : Nat) (v : Elem) (hop : ValueOk v) (henc : validElem v) :
    EncSt (stepA T (a, ctx) (.insert i v)) := by
  simp only [stepA]
  cases hr : a.insert T i v ctx with
  | error e => exact he
  | ok res =>
    obtain ⟨a', ctx'⟩ := res
    simp only
    have hne : a.count ≠ maxArrayElementCount := by
      intro heq; unfold Arr.insert at hr; rw [if_pos heq] at hr; cases hr
    have hclt : a.count < maxArrayElementCount + 1 := hg.inv.count_lt
    have hlt : a.count < maxArrayElementCount := by omega
    rcases Nat.lt_or_ge a.toList.length i with hi | hi
    · rw [arr_insert_err a ctx i v hg.inv hne hi] at hr; cases hr
    · obtain ⟨a2, c2, heq, _, hlist, _, hty⟩ := arr_insert_ok hT a ctx i v hop hg.inv hlt hi
      rw [hr] at heq
      simp only [Except.ok.injEq, Prod.mk.injEq] at heq
      obtain ⟨rfl, rfl⟩ := heq
      obtain ⟨E, C, hlog, _, _, hC⟩ := arr_insert_created hT a ctx i v hop hg.inv a' ctx' hr
      obtain ⟨h1, h2⟩ := storedForm_enc T a.addr v ctx hop henc
      refine ⟨?_, ?_, by rw [hty]; exact he.ty⟩
      · intro e hmem
        simp only at hmem
        rw [hlist, List.mem_insertIdx hi] at hmem
        rcases hmem with rfl | hmem
        · exact h1
        · exact he.elems e hmem
      · intro p hp
        simp only at hp
        rw [hlog.created, hC] at hp
        rcases List.mem_append.1 hp with h | h
        · exact he.created p h
        · exact h2 p h

theorem encSt_step (c : Codec SSlab β) (T : Nat) (hT : legalThreshold T = true)
    (x : (Arr × Ctx) × St SSlab β) (hg : Good c T x) (he : EncSt x.1) (op : AOp) (hop : op.Ok)
    (henc : op.Enc) : EncSt (stepA T x.1 op) := by
  obtain ⟨⟨a, ctx⟩, s⟩ := x
  cases op with
  | insert i v => exact encSt_insert c T hT a ctx s hg he i v hop henc
  | append v =>
    -- `Append` is `Insert` at the end
    have : stepA T (a, ctx) (.append v) = stepA T (a, ctx) (.insert a.count v) := rfl
    rw [this]
    exact encSt_insert c T hT a ctx s hg he a.count v hop henc
  | set i v =>
    simp only [stepA]
    cases hr : a.set T i v ctx with
    | error e => exact he
    | ok res =>
      obtain ⟨old, a', ctx'⟩ := res
      simp only
      rcases Nat.lt_or_ge i a.toList.length with hi | hi
      · obtain ⟨a2, c2, heq, _, hlist, _, hty⟩ := arr_set_ok hT a ctx i v hop hg.inv hi
        rw [hr] at heq
        simp only [Except.ok.injEq, Prod.mk.injEq] at heq
        obtain ⟨_, rfl, rfl⟩ := heq
        obtain ⟨E, C, hlog, _, _, hC⟩ := arr_set_created hT a ctx i v hop hg.inv old a' ctx' hr
        obtain ⟨h1, h2⟩ := storedForm_enc T a.addr v ctx hop henc
        refine ⟨?_, ?_, by rw [hty]; exact he.ty⟩
        · intro e hmem
          simp only at hmem
          rw [hlist] at hmem
          rcases List.mem_or_eq_of_mem_set hmem with hmem | rfl
          · exact he.elems e hmem
          · exact h1
        · intro p hp
          simp only at hp
          rw [hlog.created, hC] at hp
          rcases List.mem_append.1 hp with h | h
          · exact he.created p h
          · exact h2 p h
      · rw [arr_set_err a ctx i v hg.inv hi] at hr; cases hr
  | remove i =>
    simp only [stepA]
    cases hr : a.remove T i ctx with
    | error e => exact he
    | ok res =>
      obtain ⟨old, a', ctx'⟩ := res
      simp only
      rcases Nat.lt_or_ge i a.toList.length with hi | hi
      · obtain ⟨a2, c2, heq, _, hlist, _, hty⟩ := arr_remove_ok hT a ctx i hg.inv hi
        rw [hr] at heq
        simp only [Except.ok.injEq, Prod.mk.injEq] at heq
        obtain ⟨_, rfl, rfl⟩ := heq
        obtain ⟨E, hlog, _⟩ := arr_remove_created a ctx i old a' ctx' hr
        refine ⟨?_, ?_, by rw [hty]; exact he.ty⟩
        · intro e hmem
          simp only at hmem
          rw [hlist] at hmem
          exact he.elems e (List.mem_of_mem_eraseIdx hmem)
        · intro p hp
          simp only at hp
          rw [hlog.created] at hp
          simp only [List.append_nil] at hp
          exact he.created p hp
      · rw [arr_remove_err a ctx i hg.inv hi] at hr; cases hr
  | popIterate =>
    simp only [stepA]
    obtain ⟨_, h2, _, h4⟩ := arr_popIterate_refines a ctx
    obtain ⟨hcre, _⟩ := arr_popIterate_ctx a ctx
    refine ⟨?_, ?_, by rw [h4]; exact he.ty⟩
    · intro e hmem; rw [h2] at hmem; cases hmem
    · intro p hp; rw [hcre] at hp; exact he.created p hp
  | setType ty =>
    simp only [stepA]
    refine ⟨he.elems, ?_, henc⟩
    intro p hp
    have : (a.setType ty ctx).2.created = ctx.created := by
      unfold Arr.setType; simp only; split <;> rfl
    rw [this] at hp
    exact he.created p hp

theorem encSt_runS (c : Codec SSlab β) (hc : RoundTrip c) (T : Nat) (hT : legalThreshold T = true) :
    ∀ (ops : List AOp) (x : (Arr × Ctx) × St SSlab β), Good c T x → EncSt x.1 →
      (∀ op ∈ ops, op.Ok) → (∀ op ∈ ops, op.Enc) → EncSt (runS c T x ops).1
  | [], _, _, he, _, _ => he
  | op :: ops, x, hg, he, hok, henc => by
    have h1 := encSt_step c T hT x hg he op (hok op (by simp)) (henc op (by simp))
    have g1 := (good_stepS c hc T hT x hg op (hok op (by simp))).1
    exact encSt_runS c hc T hT ops (stepS c T x op) g1 h1 (fun o ho => hok o (by simp [ho]))
      (fun o ho => henc o (by simp [ho]))

theorem encSt_new (c : Codec SSlab β) (addr ty : Nat) (hty : ty < 2 ^ 64) : EncSt (newS c addr ty).1 := by
  refine ⟨?_, ?_, hty⟩
  · intro e he; exact absurd he (by simp [newS, Arr.new, Arr.toList, ATree.flatten])
  · intro p hp; exact absurd hp (by simp [newS, Arr.new, Ctx.alloc, Ctx.emit])

/-- from the history invariants to the encoder's preconditions on the final state -/
theorem encOk_of_good (c : Codec SSlab β) (T : Nat) (x : (Arr × Ctx) × St SSlab β) (hg : Good c T x)
    (he : EncSt x.1) (haddr : x.1.1.addr < 2 ^ 64) (hctr : x.1.2.ctr < 2 ^ 64) :
    EncOk x.1.1 (AList.find? x.1.2.created) x.1.2.ctr := by
  refine ⟨?_, ?_, haddr, hctr, he.ty⟩
  · intro e hmem
    have h1 := he.elems e hmem
    unfold ElemEnc at h1
    unfold validElem
    cases hp : e.pay with
    | val n => rw [hp] at h1; unfold validElem at h1; rw [hp] at h1; exact h1
    | ref y =>
      rw [hp] at h1
      simp only at h1 ⊢
      have := hg.refs e hmem y hp
      cases hf : AList.find? x.1.2.created y with
      | none => rw [hf] at this; cases this
      | some w =>
        have hm := mem_of_find?_some hf
        have h2 := hg.caddr _ hm
        have h3 := hg.created_le _ hm
        simp only at h2 h3
        exact ⟨h1, by rw [h2]; exact haddr, by omega⟩
  · intro id v hv
    exact he.created _ (mem_of_find?_some hv)

/-- NO ENCODING FAILURE: every slab pending in a storage that represents the array can be encoded. -/
theorem noEncodeFailure_of_good (T : Nat) (hT : legalThreshold T = true)
    (x : (Arr × Ctx) × St SSlab (SlabID × Bytes)) (hg : Good keyedCodec T x)
    (he : EncSt x.1) (haddr : x.1.1.addr < 2 ^ 64) (hctr : x.1.2.ctr < 2 ^ 64) :
    NoEncodeFailure keyedCodec x.2 := by
  intro id v hv
  have ha := hg.pend id v hv
  have hview : x.2.view keyedCodec id = some v := view_of_deltas keyedCodec x.2 id (some v) hv
  rw [hg.rep.view id ha] at hview
  have := stored_ok hT x.1.1 _ _ hg.inv (encOk_of_good keyedCodec T x hg he haddr hctr) id v hview
  exact keyedCodec_enc_isSome v this.1

end Atree.E2E
