import AtreeProofs.E2E.RepStep
import AtreeProofs.ArrayLemmas
import AtreeProofs.Array.EffectsTop
/-
  Loading an array from its slabs: the tree is determined by its slabs (`loadArr_of_agree`), and
  loading through a transparent state-threading fetch (`Retrieve`) is loading from the view
  (`loadArrSt_spec`).
-/
namespace Atree.E2E
open Atree Gen ATree

/-! ### what loading needs of a tree -/

/-- child headers are the headers of the children, index slabs have children -/
def LoadOk : (d : Nat) → ATree d → Prop
  | 0, _ => True
  | d + 1, (m : MetaSlab (ATree d)) =>
    m.childHdrs = m.children.map (hdr d) ∧ m.children ≠ [] ∧ ∀ c ∈ m.children, LoadOk d c

theorem loadOk_succ (d : Nat) (m : MetaSlab (ATree d)) :
    LoadOk (d + 1) (ofMeta m) ↔
      (m.childHdrs = m.children.map (hdr d) ∧ m.children ≠ [] ∧ ∀ c ∈ m.children, LoadOk d c) := Iff.rfl

theorem loadOk_of_treeInv {T : Nat} (hT : legalThreshold T = true) :
    ∀ (d : Nat) (top : Bool) (t : ATree d), TreeInv T d top t → LoadOk d t
  | 0, _, _, _ => trivial
  | d + 1, top, t, h => by
    revert h; refine forall_ofMeta ?_ t; intro m h
    obtain ⟨hs, _, h1, h2⟩ := (treeInv_succ T d top m).1 h
    refine (loadOk_succ d m).2 ⟨hs.hdrs_eq, ?_, fun c hc => loadOk_of_treeInv hT d false c (hs.kids_inv c hc)⟩
    intro hnil
    cases top with
    | true => have := h2 rfl; rw [hnil] at this; simp at this
    | false =>
      have hpos := TreeInv.count_pos hT h
      simp only [hdr_succ, hs.count_eq, hs.hdrs_eq, hnil] at hpos
      simp [MetaSlab.sumCounts] at hpos

theorem optAll_map {α γ : Type} (f : α → Option γ) (g : γ → α) :
    ∀ (l : List γ), (∀ x ∈ l, f (g x) = some x) → optAll f (l.map g) = some l
  | [], _ => rfl
  | x :: xs, h => by
    simp only [List.map_cons, optAll]
    rw [h x (by simp), optAll_map f g xs (fun y hy => h y (by simp [hy]))]

/-- The subtree is rebuilt from any lookup that returns its slabs. -/
theorem loadAt_tree (look : SlabID → Option SSlab) :
    ∀ (d : Nat) (t : ATree d), LoadOk d t →
      (∀ p ∈ ATree.slabs d t, ∃ ty, look p.1 = some (.tree p.2 ty)) →
      loadAt look d (hdr d t).id = some t
  | 0, t, _, h => by
    revert h; refine forall_ofData ?_ t; intro s h
    obtain ⟨ty, hl⟩ := h (s.hdr.id, .data s) (by simp [ATree.slabs, ofData])
    simp only [hdr_zero, loadAt]
    simp only at hl
    rw [hl]
    rfl
  | d + 1, t, hok, h => by
    revert hok h; refine forall_ofMeta ?_ t; intro m hok h
    obtain ⟨h1, _, h3⟩ := (loadOk_succ d m).1 hok
    obtain ⟨ty, hl⟩ := h (m.hdr.id, .index m.hdr m.childHdrs m.countSum m.root)
      (by simp [ATree.slabs, ofMeta])
    simp only at hl
    have hkids : optAll (fun (hh : Hdr) => loadAt look d hh.id) m.childHdrs = some m.children := by
      rw [h1]
      apply optAll_map (fun (hh : Hdr) => loadAt look d hh.id) (hdr d)
      intro ch hch
      apply loadAt_tree look d ch (h3 ch hch)
      intro p hp
      apply h p
      simp only [ATree.slabs, ofMeta, List.mem_cons, List.mem_flatMap]
      exact Or.inr ⟨ch, hch, hp⟩
    simp only [hdr_succ, loadAt]
    rw [hl]
    simp only [hkids]
    rfl

/-- … and its depth is found by following the first child headers. -/
theorem findDepth_tree (look : SlabID → Option SSlab) :
    ∀ (d : Nat) (t : ATree d) (fuel : Nat), d < fuel → LoadOk d t →
      (∀ p ∈ ATree.slabs d t, ∃ ty, look p.1 = some (.tree p.2 ty)) →
      findDepth look fuel (hdr d t).id = some d
  | 0, t, fuel, hf, _, h => by
    revert h; refine forall_ofData ?_ t; intro s h
    obtain ⟨ty, hl⟩ := h (s.hdr.id, .data s) (by simp [ATree.slabs, ofData])
    simp only at hl
    obtain ⟨f, rfl⟩ : ∃ f, fuel = f + 1 := ⟨fuel - 1, by omega⟩
    simp only [hdr_zero, findDepth, hl]
  | d + 1, t, fuel, hf, hok, h => by
    revert hok h; refine forall_ofMeta ?_ t; intro m hok h
    obtain ⟨h1, h2, h3⟩ := (loadOk_succ d m).1 hok
    obtain ⟨ty, hl⟩ := h (m.hdr.id, .index m.hdr m.childHdrs m.countSum m.root)
      (by simp [ATree.slabs, ofMeta])
    simp only at hl
    obtain ⟨f, rfl⟩ : ∃ f, fuel = f + 1 := ⟨fuel - 1, by omega⟩
    match hch : m.children with
    | [] => exact absurd hch h2
    | ch :: rest =>
      have hmem : ch ∈ m.children := by rw [hch]; simp
      have ih := findDepth_tree look d ch f (by omega) (h3 ch hmem) (by
        intro p hp
        apply h p
        simp only [ATree.slabs, ofMeta, List.mem_cons, List.mem_flatMap]
        exact Or.inr ⟨ch, hmem, hp⟩)
      simp only [hdr_succ, findDepth, hl, h1, hch, List.map_cons, ih, Option.map_some]

/-! ### the whole array -/

theorem slabAt_of_mem {a : Arr} (hnd : (slabIds a.d a.root).Nodup) {p : SlabID × ASlab}
    (hp : p ∈ ATree.slabs a.d a.root) :
    a.slabAt p.1 = some (p.2, if p.1 = a.rootID then some a.ty else none) := by
  have := find?_slabs_of_mem (L := ATree.slabs a.d a.root) (by rw [keys_slabs]; exact hnd)
    (id := p.1) (s := p.2) hp
  simp [Arr.slabAt, this]

/-- LOAD: any lookup that agrees with the representation of `a` on the owner's identifiers yields
    `a` itself – same depth, same slabs with the same headers / counts / links, same elements, same
    type info. -/
theorem loadArr_of_agree {T : Nat} (hT : legalThreshold T = true) (a : Arr) (ctr : Nat)
    (hinv : ArrInv T a ctr) (extra : SlabID → Option Elem) (look : SlabID → Option SSlab)
    (hag : ∀ id, id.addr = a.addr → look id = stored a extra id) (fuel : Nat) (hf : a.d < fuel) :
    loadArr look a.rootID fuel = some a := by
  have hok := loadOk_of_treeInv hT a.d true a.root hinv.tree
  have hlook : ∀ p ∈ ATree.slabs a.d a.root, ∃ ty, look p.1 = some (.tree p.2 ty) := by
    intro p hp
    have haddr : p.1.addr = a.addr := by
      have : p.1 ∈ slabIds a.d a.root := by rw [← keys_slabs]; exact mem_keys_of_mem hp
      exact (hinv.ids.2 p.1 this).1
    rw [hag p.1 haddr, stored_of_some (slabAt_of_mem hinv.ids.1 hp)]
    exact ⟨_, rfl⟩
  have hroot : look a.rootID = some (.tree (ent a.d a.root) (some a.ty)) := by
    have hp : (a.rootID, ent a.d a.root) ∈ ATree.slabs a.d a.root := by
      rw [slabs_eq]; exact List.mem_cons_self
    rw [hag a.rootID rfl, stored_of_some (slabAt_of_mem hinv.ids.1 hp)]
    simp
  unfold loadArr
  have h1 : findDepth look fuel a.rootID = some a.d := findDepth_tree look a.d a.root fuel hf hok hlook
  have h2 : loadAt look a.d a.rootID = some a.root := loadAt_tree look a.d a.root hok hlook
  rw [h1, hroot]
  simp only [h2, Option.map_some]

/-! ### loading through a fetch -/

variable {β : Type}

/-- `s'` is `s` after transparent reads -/
structure Keep (c : Codec SSlab β) (s s' : St SSlab β) : Prop where
  inv : Inv c s'
  view : s'.view c = s.view c
  deltas : s'.deltas = s.deltas
  base : s'.base = s.base

theorem Keep.refl {c : Codec SSlab β} {s : St SSlab β} (h : Inv c s) : Keep c s s := ⟨h, rfl, rfl, rfl⟩

theorem Keep.trans {c : Codec SSlab β} {s s' s'' : St SSlab β} (h1 : Keep c s s') (h2 : Keep c s' s'') :
    Keep c s s'' :=
  ⟨h2.inv, h2.view.trans h1.view, h2.deltas.trans h1.deltas, h2.base.trans h1.base⟩

theorem FetchOk.get {c : Codec SSlab β} {fetch : Fetch (St SSlab β)} (hf : FetchOk c fetch)
    (s : St SSlab β) (id : SlabID) (hI : Inv c s) :
    ∃ s', fetch s id = .ok (s.view c id, s') ∧ Keep c s s' := by
  obtain ⟨s', h1, h2, h3, h4, h5⟩ := hf s id hI
  exact ⟨s', h1, h2, h3, h4, h5⟩

theorem optAllSt_spec {α γ : Type} (c : Codec SSlab β) (V : SlabID → Option SSlab)
    (f : St SSlab β → α → Except StErr (Option γ × St SSlab β)) (g : α → Option γ)
    (hf : ∀ s x, Inv c s → s.view c = V → ∃ s', f s x = .ok (g x, s') ∧ Keep c s s') :
    ∀ (l : List α) (s : St SSlab β), Inv c s → s.view c = V →
      ∃ s', optAllSt f s l = .ok (optAll g l, s') ∧ Keep c s s'
  | [], s, hI, _ => ⟨s, rfl, Keep.refl hI⟩
  | x :: xs, s, hI, hV => by
    obtain ⟨s1, h1, k1⟩ := hf s x hI hV
    obtain ⟨s2, h2, k2⟩ := optAllSt_spec c V f g hf xs s1 k1.inv (k1.view.trans hV)
    simp only [optAllSt, h1, optAll]
    cases hg : g x with
    | none => exact ⟨s1, rfl, k1⟩
    | some y =>
      simp only [h2]
      cases hr : optAll g xs with
      | none => exact ⟨s2, rfl, k1.trans k2⟩
      | some ys => exact ⟨s2, rfl, k1.trans k2⟩

/-- loading a subtree through a transparent fetch is loading it from the view -/
theorem loadAtSt_spec (c : Codec SSlab β) (fetch : Fetch (St SSlab β)) (hf : FetchOk c fetch)
    (V : SlabID → Option SSlab) :
    ∀ (d : Nat) (s : St SSlab β) (id : SlabID), Inv c s → s.view c = V →
      ∃ s', loadAtSt fetch d s id = .ok (loadAt V d id, s') ∧ Keep c s s'
  | 0, s, id, hI, hV => by
    obtain ⟨s1, h1, k1⟩ := hf.get s id hI
    rw [hV] at h1
    simp only [loadAtSt, h1, loadAt]
    cases hv : V id with
    | none => exact ⟨s1, rfl, k1⟩
    | some sl =>
      cases sl with
      | large v => exact ⟨s1, rfl, k1⟩
      | tree t ty =>
        cases t with
        | data ds => exact ⟨s1, rfl, k1⟩
        | index h chs cs r => exact ⟨s1, rfl, k1⟩
  | d + 1, s, id, hI, hV => by
    obtain ⟨s1, h1, k1⟩ := hf.get s id hI
    rw [hV] at h1
    simp only [loadAtSt, h1, loadAt]
    cases hv : V id with
    | none => exact ⟨s1, rfl, k1⟩
    | some sl =>
      cases sl with
      | large v => exact ⟨s1, rfl, k1⟩
      | tree t ty =>
        cases t with
        | data ds => exact ⟨s1, rfl, k1⟩
        | index h chs cs r =>
          obtain ⟨s2, h2, k2⟩ := optAllSt_spec c V
            (fun s (hh : Hdr) => loadAtSt fetch d s hh.id) (fun (hh : Hdr) => loadAt V d hh.id)
            (fun s x hI' hV' => loadAtSt_spec c fetch hf V d s x.id hI' hV') chs s1 k1.inv
            (k1.view.trans hV)
          simp only [h2]
          cases hk : optAll (fun (hh : Hdr) => loadAt V d hh.id) chs with
          | none => exact ⟨s2, rfl, k1.trans k2⟩
          | some kids => exact ⟨s2, rfl, k1.trans k2⟩

theorem findDepthSt_spec (c : Codec SSlab β) (fetch : Fetch (St SSlab β)) (hf : FetchOk c fetch)
    (V : SlabID → Option SSlab) :
    ∀ (fuel : Nat) (s : St SSlab β) (id : SlabID), Inv c s → s.view c = V →
      ∃ s', findDepthSt fetch fuel s id = .ok (findDepth V fuel id, s') ∧ Keep c s s'
  | 0, s, id, hI, _ => ⟨s, rfl, Keep.refl hI⟩
  | fuel + 1, s, id, hI, hV => by
    obtain ⟨s1, h1, k1⟩ := hf.get s id hI
    rw [hV] at h1
    simp only [findDepthSt, h1, findDepth]
    cases hv : V id with
    | none => exact ⟨s1, rfl, k1⟩
    | some sl =>
      cases sl with
      | large v => exact ⟨s1, rfl, k1⟩
      | tree t ty =>
        cases t with
        | data ds => exact ⟨s1, rfl, k1⟩
        | index h chs cs r =>
          cases chs with
          | nil => exact ⟨s1, rfl, k1⟩
          | cons hh rest =>
            obtain ⟨s2, h2, k2⟩ := findDepthSt_spec c fetch hf V fuel s1 hh.id k1.inv (k1.view.trans hV)
            simp only [h2]
            exact ⟨s2, rfl, k1.trans k2⟩

/-- LOAD THROUGH THE STORAGE: with a transparent fetch, `loadArrSt` returns what `loadArr` returns
    on the view, and the storage afterwards has the same view, write set and ledger. -/
theorem loadArrSt_spec (c : Codec SSlab β) (fetch : Fetch (St SSlab β)) (hf : FetchOk c fetch)
    (s : St SSlab β) (hI : Inv c s) (rootID : SlabID) (fuel : Nat) :
    ∃ s', loadArrSt fetch s rootID fuel = .ok (loadArr (s.view c) rootID fuel, s') ∧ Keep c s s' := by
  obtain ⟨s1, h1, k1⟩ := findDepthSt_spec c fetch hf (s.view c) fuel s rootID hI rfl
  unfold loadArrSt loadArr
  rw [h1]
  cases hd : findDepth (s.view c) fuel rootID with
  | none => exact ⟨s1, rfl, k1⟩
  | some d =>
    obtain ⟨s2, h2, k2⟩ := hf.get s1 rootID k1.inv
    rw [k1.view] at h2
    simp only [h2]
    cases hv : s.view c rootID with
    | none => exact ⟨s2, rfl, k1.trans k2⟩
    | some sl =>
      cases sl with
      | large v => exact ⟨s2, rfl, k1.trans k2⟩
      | tree t ty =>
        cases ty with
        | none => exact ⟨s2, rfl, k1.trans k2⟩
        | some ty =>
          obtain ⟨s3, h3, k3⟩ := loadAtSt_spec c fetch hf (s.view c) d s2 rootID k2.inv
            (k2.view.trans k1.view)
          simp only [h3]
          exact ⟨s3, rfl, (k1.trans k2).trans k3⟩

/-! ### transparent fetches -/

theorem retrieve_fetchOk (c : Codec SSlab β) : FetchOk c (fun s id => s.retrieve c id) := by
  intro s id hI
  exact retrieve_spec c s hI id

/-- a read-only operation keeps view, write set, ledger and invariant -/
theorem readOnly_keep (c : Codec SSlab β) (s : St SSlab β) (hI : Inv c s) (op : Op SSlab)
    (hro : readOnlyOp op = true) : Keep c s (St.step c s op).1 := by
  cases op with
  | retrieve id =>
    obtain ⟨s', h1, h2, h3, h4, h5⟩ := retrieve_spec c s hI id
    simp only [St.step, h1]
    exact ⟨h2, h3, h4, h5⟩
  | retrieveIfLoaded id => exact Keep.refl hI
  | retrieveIgnoringDeltas id ch =>
    obtain ⟨s', h1, h2, h3, h4, h5⟩ := retrieveIgnoringDeltas_spec c s hI id ch
    simp only [St.step, h1]
    exact ⟨h2, h3, h4, h5⟩
  | dropCache =>
    exact ⟨inv_dropCache c s hI, funext (fun id => view_dropCache c s hI id), rfl, rfl⟩
  | preload ids =>
    rw [step_preload_fst]
    obtain ⟨h1, h2, h3, h4⟩ := batchPreload_spec c s hI ids
    exact ⟨h1, h2, h3, h4⟩
  | store _ _ => cases hro
  | remove _ => cases hro
  | commit _ _ _ _ => cases hro
  | dropDeltas => cases hro
  | recreate => cases hro
  | genID _ => cases hro

theorem readOnly_run_keep (c : Codec SSlab β) :
    ∀ (ops : List (Op SSlab)) (s : St SSlab β), Inv c s → (∀ op ∈ ops, readOnlyOp op = true) →
      Keep c s (St.run c s ops)
  | [], s, hI, _ => Keep.refl hI
  | op :: ops, s, hI, h => by
    have k1 := readOnly_keep c s hI op (h op (by simp))
    have k2 := readOnly_run_keep c ops (St.step c s op).1 k1.inv (fun o ho => h o (by simp [ho]))
    exact k1.trans k2

/-- `Retrieve` preceded by any read-only operations (cache drops, preloads, other reads …) chosen
    by an arbitrary schedule is a transparent fetch (C08 at container level). -/
theorem fetchWith_fetchOk (c : Codec SSlab β) (sched : St SSlab β → SlabID → List (Op SSlab)) :
    FetchOk c (fetchWith c sched) := by
  intro s id hI
  have k1 := readOnly_run_keep c ((sched s id).filter readOnlyOp) s hI
    (fun op hop => (List.mem_filter.1 hop).2)
  obtain ⟨s', h1, h2, h3, h4, h5⟩ := retrieve_spec c _ k1.inv id
  refine ⟨s', ?_, h2, h3.trans k1.view, h4.trans k1.deltas, h5.trans k1.base⟩
  unfold fetchWith
  rw [h1, k1.view]

end Atree.E2E
