import AtreeProofs.E2EDisposeSpec
import AtreeProofs.E2E.History
import AtreeProofs.Props.C09Refs
/-
  Histories with disposal (audit a1 F2), generic layer: disposal as an effect log of removes, the
  representation step with the LIVE large-value slabs, and the generic step of `GoodD`.
-/
namespace Atree.E2ED
open Atree Gen E2E St

variable {β : Type}

/-! ### disposal is a log of removes -/

def rmLog (ids : List SlabID) : List Eff := ids.map Eff.remove

theorem dispose_eq (c : Codec SSlab β) (s : St SSlab β) (content : SlabID → Option SSlab)
    (ids : List SlabID) : dispose c s ids = applyEffs c s content (rmLog ids) := by
  unfold dispose applyEffs effOps rmLog
  congr 1
  induction ids with
  | nil => rfl
  | cons x xs ih => simp [effOp, ih]

theorem lastAction_rm (E : List Eff) (ids : List SlabID) (id : SlabID) :
    lastAction (E ++ rmLog ids) id = if id ∈ ids then some false else lastAction E id := by
  have hrem : ∀ e ∈ rmLog ids, ∃ i, e = Eff.remove i := by
    intro e he
    simp only [rmLog, List.mem_map] at he
    obtain ⟨i, _, rfl⟩ := he
    exact ⟨i, rfl⟩
  obtain ⟨h1, h2⟩ := lastAction_only_removes (rmLog ids) hrem id
  have hmem : Eff.remove id ∈ rmLog ids ↔ id ∈ ids := by
    simp [rmLog]
  rw [lastAction_append]
  by_cases hin : id ∈ ids
  · rw [if_pos hin, h1.2 (hmem.2 hin)]; rfl
  · rw [if_neg hin]
    cases hl : lastAction (rmLog ids) id with
    | none => rfl
    | some b =>
      cases b with
      | true => exact absurd hl h2
      | false => exact absurd (hmem.1 (h1.1 hl)) hin

theorem nAllocAt_rm (addr : Nat) (ids : List SlabID) : nAllocAt addr (rmLog ids) = 0 := by
  unfold nAllocAt
  rw [List.length_eq_zero_iff, List.filter_eq_nil_iff]
  intro e he
  simp only [rmLog, List.mem_map] at he
  obtain ⟨i, _, rfl⟩ := he
  simp [isAllocAt]

theorem effectsComplete_dispose {a a' : Arr} {E : List Eff} {cr : List SlabID} {ids : List SlabID}
    (h : EffectsComplete a a' E cr) (hids : ∀ id ∈ ids, (a'.slabAt id).isNone) :
    EffectsComplete a a' (E ++ rmLog ids) cr := by
  refine ⟨?_, ?_, ?_, ?_⟩
  · intro id h1 h2
    rw [lastAction_rm]
    split
    · rename_i hin
      have := hids id hin
      cases hs : a'.slabAt id <;> simp_all
    · exact h.changed_stored id h1 h2
  · intro id h1 h2
    rw [lastAction_rm]
    split
    · rfl
    · exact h.gone_removed id h1 h2
  · intro id h1
    rw [lastAction_rm] at h1
    split at h1
    · cases h1
    · exact h.stored_in_tree id h1
  · intro id h1
    rw [lastAction_rm] at h1
    split at h1
    · rename_i hin; exact hids id hin
    · exact h.removed_not_in_tree id h1

/-! ### the live large-value slabs after a step with disposal -/

theorem extraStep_live {a a' : Arr} {ctx ctx' : Ctx} {E : List Eff} {C : List (SlabID × Elem)}
    {ids : List SlabID}
    (hcre : ctx'.created = ctx.created ++ C)
    (hR : ARefsOk a ctx.ctr) (hR' : ARefsOk a' ctx'.ctr)
    (hres : Resolves (a, ctx))
    (hfoot : ∀ id, lastAction E id ≠ none → (a.slabAt id).isSome ∨ ctx.ctr < id.idx)
    (hst : ∀ id, lastAction E id = some true → (a'.slabAt id).isSome ∨ id ∈ C.map (·.1))
    (hC : ∀ id ∈ C.map (·.1), id ∈ a'.refIds ∧ lastAction E id = some true)
    (hhand : ∀ id ∈ ids, id ∉ a'.refIds)
    (hold : ∀ id ∈ a.refIds, id ∈ ids ∨ id ∈ a'.refIds)
    (hnewr : ∀ id ∈ a'.refIds, id ∈ a.refIds ∨ id ∈ C.map (·.1)) :
    extraStep a' (E ++ rmLog ids) ctx'.created (live (a, ctx)) = live (a', ctx') := by
  funext id
  have hquiet : id ∈ a.refIds → lastAction E id = none := by
    intro hin
    apply Classical.byContradiction
    intro hne
    rcases hfoot id hne with h | h
    · rw [slabAt_isSome] at h; exact hR.not_tree id hin h
    · have := (hR.alloc id hin).2.2; omega
  unfold extraStep
  by_cases ht : (a'.slabAt id).isSome
  · rw [if_pos ht]
    unfold live
    rw [if_neg]
    intro hin
    rw [slabAt_isSome] at ht
    exact hR'.not_tree id hin ht
  · rw [if_neg ht, lastAction_rm]
    by_cases hin : id ∈ ids
    · rw [if_pos hin]
      simp only [live]
      rw [if_neg (hhand id hin)]
    · rw [if_neg hin]
      by_cases hr' : id ∈ a'.refIds
      · have hlive : live (a', ctx') id = AList.find? ctx'.created id := by simp [live, hr']
        rw [hlive]
        rcases hnewr id hr' with h | h
        · rw [hquiet h]
          simp only [live, if_pos h]
          rw [hcre, find?_append]
          have := hres id h
          simp only at this
          cases hf : AList.find? ctx.created id with
          | none => rw [hf] at this; cases this
          | some v => rfl
        · rw [(hC id h).2]
      · have hlive : live (a', ctx') id = none := by simp [live, hr']
        rw [hlive]
        cases hl : lastAction E id with
        | none =>
          simp only [live]
          rw [if_neg]
          intro h
          rcases hold id h with h1 | h1
          · exact hin h1
          · exact hr' h1
        | some b =>
          cases b with
          | false => rfl
          | true =>
            rcases hst id hl with h | h
            · exact absurd h ht
            · exact absurd (hC id h).1 hr'

/-! ### the generic step -/

/-- what the model-level theorems say about one successful request -/
structure StepSum (T : Nat) (a : Arr) (ctx : Ctx) (a' : Arr) (ctx' : Ctx) (E : List Eff)
    (C : List (SlabID × Elem)) : Prop where
  log : Log ctx ctx' E C
  eff : EffectsComplete a a' E (C.map (·.1))
  foot : ∀ id, lastAction E id ≠ none → (a.slabAt id).isSome ∨ ctx.ctr < id.idx
  cr : CreatedOk a.addr ctx.ctr ctx'.ctr E (C.map (·.1)) (ATree.slabIds a'.d a'.root)
  al : AllocCnt a.addr ctx ctx' E
  inv' : ArrInv T a' ctx'.ctr
  addr : a'.addr = a.addr

theorem goodD_step (c : Codec SSlab β) (hc : RoundTrip c) (T : Nat) (a : Arr) (ctx : Ctx)
    (s : St SSlab β) (a' : Arr) (ctx' : Ctx) (E : List Eff) (C : List (SlabID × Elem))
    (ids : List SlabID)
    (hg : GoodD c T ((a, ctx), s)) (sum : StepSum T a ctx a' ctx' E C)
    (hR' : ARefsOk a' ctx'.ctr)
    (hCr : ∀ id ∈ C.map (·.1), id ∈ a'.refIds)
    (hhand : ∀ id ∈ ids, id ∉ a'.refIds ∧ id ∉ ATree.slabIds a'.d a'.root)
    (hold : ∀ id ∈ a.refIds, id ∈ ids ∨ id ∈ a'.refIds)
    (hnewr : ∀ id ∈ a'.refIds, id ∈ a.refIds ∨ id ∈ C.map (·.1)) :
    GoodD c T ((a', ctx'),
      dispose c (applyEffs c s (contentOf (a', ctx')) (newEffs ctx ctx')) ids) := by
  have hlog := sum.log
  have hcre : ctx'.created = ctx.created ++ C := hlog.created
  have hcle' : ∀ p ∈ ctx'.created, p.1.idx ≤ ctx'.ctr := by
    intro p hp
    rw [hcre] at hp
    rcases List.mem_append.1 hp with h | h
    · exact Nat.le_trans (hg.cle p h) hlog.ctr_le
    · exact (sum.cr p.1 (List.mem_map_of_mem h)).2.2.2.1
  have hres' : Resolves (a', ctx') := by
    intro id hin
    show (AList.find? ctx'.created id).isSome
    rw [hcre, find?_append]
    rcases hnewr id hin with h | h
    · have := hg.res id h
      simp only at this
      cases hf : AList.find? ctx.created id with
      | none => rw [hf] at this; cases this
      | some v => rfl
    · cases hf : AList.find? ctx.created id with
      | some v => rfl
      | none =>
        simp only [Option.none_or]
        exact find?_isSome_of_mem_keys h
  have heff' : EffectsComplete a a' (E ++ rmLog ids) (ctx'.created.map (·.1)) := by
    rw [hcre, List.map_append]
    exact effectsComplete_dispose (effectsComplete_mono sum.eff)
      (fun id hid => (slabAt_isNone a' id).2 (hhand id hid).2)
  have hstate : dispose c (applyEffs c s (contentOf (a', ctx')) (newEffs ctx ctx')) ids
      = applyEffs c s (stored a' (AList.find? ctx'.created)) (E ++ rmLog ids) := by
    rw [dispose_eq c _ (contentOf (a', ctx')), newEffs_of_log hlog, applyEffs_append]
    rfl
  have hrep := rep_step_gen c s a a' (live (a, ctx)) ctx.ctr ctx'.ctr (E ++ rmLog ids) ctx'.created
    hg.rep heff' sum.addr hg.addr hlog.ctr_le hcle'
  rw [extraStep_live hcre hg.refsR hR' hg.res sum.foot sum.eff.stored_in_tree
    (fun id hid => ⟨hCr id hid, (sum.cr id hid).1⟩) (fun id hid => (hhand id hid).1) hold hnewr] at hrep
  refine ⟨sum.inv', hR', ?_, ?_, by show a'.addr ≠ 0; rw [sum.addr]; exact hg.addr, ?_, ?_, hcle', hres'⟩
  · rw [hstate]; exact hrep
  · rw [hstate]; exact applyEffs_inv c hc s _ _ hg.st
  · show AllocSync _ a'.addr ctx'.ctr
    rw [hstate]
    unfold AllocSync
    rw [sum.addr, applyEffs_alloc c s _ _ a.addr hg.addr, allocCount_eq, nAllocAt_append, nAllocAt_rm,
      sum.al]
    have := hg.sync
    unfold AllocSync at this
    simp only at this
    show _ + _ = _
    rw [this]; omega
  · intro p hp
    show p.1.addr = a'.addr
    rw [sum.addr]
    rw [hcre] at hp
    rcases List.mem_append.1 hp with h | h
    · exact hg.caddr p h
    · exact (sum.cr p.1 (List.mem_map_of_mem h)).2.2.2.2

/-- a rejected request: nothing changes, nothing is handed back -/
theorem goodD_unchanged (c : Codec SSlab β) (T : Nat) (x : (Arr × Ctx) × St SSlab β)
    (hg : GoodD c T x) :
    GoodD c T (x.1, dispose c (applyEffs c x.2 (contentOf x.1) (newEffs x.1.2 x.1.2)) []) := by
  rw [newEffs_self, applyEffs_nil]
  exact hg

end Atree.E2ED
