import AtreeModel.Array.Tree
import AtreeModel.Gen.Trans
import AtreeModel.Gen.TransSlabs
import AtreeProofs.Trans.Basic
/-
  Set-up for `Props/TransSlabs*.lean`: the instantiation of the parameters (`Env`) of the generated array-slab
  functions (`Gen/TransSlabs.lean`, regenerated from slice_utils.go / array_data_slab.go / array_metadata_slab.go /
  array.go on every run by the slab engine of gotrans) with the components of the hand-written model
  (`AtreeModel/Array/Slab.lean`, `Tree.lean`), and the translation of model slabs into generated records.
  Core Lean only.

  * type parameters: a `Storable` payload and a `Value` payload are the model's `Elem`, extra data is `Unit` (only its
    presence matters), an error is the model's error class `AErr`, the `SlabStorage` is the model's `Ctx` (allocation
    counter + effect log), the world behind an `ArrayPopIterationFunc` is the list of elements handed to it.
  * `envA T look`: `Storable.ByteSize` is the element's size as `uint32`; `Value.Storable` is the model's `toStorable`
    with the size limit IT IS PASSED; `GenerateSlabID` / `Store` / `Remove` are `Ctx.alloc` / `emit (.store ..)` /
    `emit (.remove ..)` and never fail (the model has no failing storage: what a failing call leaves behind is stated
    by the `*_storeError` theorems for ANY environment); `getArraySlab` looks the identifier up in `look`.
  * `trHdr`, `trData`, `trMeta`, `trTree`: a model slab as the generated record (`uint32` sizes and counts, elements
    under `some`, extra data present iff root).
-/
namespace Atree.TransEq
open Atree Atree.Gen

/-- the generated records over the model's element type -/
abbrev GData := TransSl.ArrayDataSlab Elem Unit
abbrev GMeta := TransSl.ArrayMetaDataSlab Unit
abbrev GSlab := TransSl.ArraySlabV Elem Unit
abbrev GHdr := TransSl.ArraySlabHeader
abbrev GArray := TransSl.Array Elem Unit Ctx
abbrev SEnv := TransSl.Env Elem Elem Unit AErr Ctx (List (Option Elem))

/-- the model's `toStorable` with the size limit as a parameter (`Value.Storable(storage, address, maxInlineSize)`) -/
def toStorableMax (mx : Nat) (addr : Nat) (v : Elem) (c : Ctx) : Elem × Ctx :=
  match v.pay with
  | .ref _ => (v, c)
  | .val _ =>
    if v.size > mx then
      let (id, c) := c.alloc addr
      ({ size := slabIDStorableSize, pay := .ref id },
       { (c.emit (.store id)) with created := c.created ++ [(id, v)] })
    else (v, c)

theorem toStorableMax_eq (T addr : Nat) (v : Elem) (c : Ctx) :
    toStorableMax (maxInlineArr T) addr v c = toStorable T addr v c := rfl

/-- `ArrayMetaDataSlab.childSlabIndexInfo` as a parameter of the slab engine: the translation of the STATELESS engine
    (`Gen/Trans.lean`, regenerated on every run, `TransEq.ArrayMetaDataSlab_childSlabIndexInfo_eq_model`) applied to the
    fields of the generated record; `childID = childHeader.slabID` (the statement that engine leaves out) is read off
    `childrenHeaders`; the error is `NewIndexOutOfBoundsError`.  As there, an index past the end of `childrenHeaders`
    (a Go panic) is not modelled. -/
def childInfoOf {ε : Type} (ioob : Option ε) (a : TransSl.ArrayMetaDataSlab Unit) (index : UInt64) :
    Int × UInt64 × SlabID × Option ε :=
  match Trans.ArrayMetaDataSlab_childSlabIndexInfo a.header.count a.childrenCountSum
      (a.childrenHeaders.map (·.count)) index with
  | none => (0, 0, SlabID.undef, ioob)
  | some (k, adj) => (k, adj, (a.childrenHeaders.getD k.toNat TransSl.ArraySlabHeader.zero).slabID, none)

/-- the parameters of the generated functions, from the model -/
def envA (T : Nat) (look : SlabID → Option GSlab) : SEnv where
  ArrayMetaDataSlab_childSlabIndexInfo := childInfoOf (some .indexOutOfBounds)
  Array_notifyParentIfNeeded a := (none, a)
  Array_setCallbackWithChild a _ _ _ := a
  Array_incrementIndexFrom a _ := (none, a)
  Array_decrementIndexFrom a _ := (none, a)
  NewArrayElementCannotExceedMaxElementCountError _ := some .maxElementCount
  Storable_StoredValue e c := (some e, none, c)
  ArrayPopIterationFunc_call acc e := acc ++ [e]
  NewIndexOutOfBoundsError _ _ _ := some .indexOutOfBounds
  NewSlabSplitErrorf := some .slabSplit
  SlabStorage_GenerateSlabID c addr := ((c.alloc addr).1, none, (c.alloc addr).2)
  SlabStorage_Remove c id := (none, c.emit (.remove id))
  SlabStorage_Store c id _ := (none, c.emit (.store id))
  Storable_ByteSize e := u32 e.size
  Value_Storable v c addr mx := (some (toStorableMax mx.toNat addr v c).1, none, (toStorableMax mx.toNat addr v c).2)
  getArraySlab c id := match look id with
    | some v => (some v, none, c)
    | none => (none, some .slabNotFound, c)
  maxInlineArrayElementSize := u32 (maxInlineArr T)
  maxThreshold := u32 (maxThr T)
  minThreshold := u32 (minThr T)
  wrapErrorfAsExternalErrorIfNeeded e := e

section envFields
variable (T : Nat) (look : SlabID → Option GSlab)
@[simp] theorem envA_call (acc : List (Option Elem)) (e : Option Elem) :
    (envA T look).ArrayPopIterationFunc_call acc e = acc ++ [e] := rfl
@[simp] theorem envA_ioob (a b c : UInt64) : (envA T look).NewIndexOutOfBoundsError a b c = some .indexOutOfBounds := rfl
@[simp] theorem envA_split : (envA T look).NewSlabSplitErrorf = some .slabSplit := rfl
@[simp] theorem envA_gen (c : Ctx) (addr : Nat) :
    (envA T look).SlabStorage_GenerateSlabID c addr = ((c.alloc addr).1, none, (c.alloc addr).2) := rfl
@[simp] theorem envA_remove (c : Ctx) (id : SlabID) : (envA T look).SlabStorage_Remove c id = (none, c.emit (.remove id)) := rfl
@[simp] theorem envA_store (c : Ctx) (id : SlabID) (v : Option GSlab) :
    (envA T look).SlabStorage_Store c id v = (none, c.emit (.store id)) := rfl
@[simp] theorem envA_byteSize (e : Elem) : (envA T look).Storable_ByteSize e = u32 e.size := rfl
@[simp] theorem envA_storable (v : Elem) (c : Ctx) (addr : Nat) (mx : UInt32) :
    (envA T look).Value_Storable v c addr mx =
      (some (toStorableMax mx.toNat addr v c).1, none, (toStorableMax mx.toNat addr v c).2) := rfl
@[simp] theorem envA_getArraySlab (c : Ctx) (id : SlabID) :
    (envA T look).getArraySlab c id = match look id with
      | some v => (some v, none, c)
      | none => (none, some .slabNotFound, c) := rfl
@[simp] theorem envA_maxInline : (envA T look).maxInlineArrayElementSize = u32 (maxInlineArr T) := rfl
@[simp] theorem envA_maxThreshold : (envA T look).maxThreshold = u32 (maxThr T) := rfl
@[simp] theorem envA_minThreshold : (envA T look).minThreshold = u32 (minThr T) := rfl
@[simp] theorem envA_wrap (e : Option AErr) : (envA T look).wrapErrorfAsExternalErrorIfNeeded e = e := rfl
end envFields

/-! ### translation of model slabs -/

def trHdr (h : Hdr) : GHdr := { slabID := h.id, size := u32 h.size, count := u32 h.count }

def trExtra (root : Bool) : Option Unit := if root then some () else none

def trData (s : DataSlab) : GData :=
  { next := s.next, header := trHdr s.hdr, elements := s.elems.map some, extraData := trExtra s.root,
    inlined := s.inlined }

def trMeta {α : Type} (m : MetaSlab α) : GMeta :=
  { header := trHdr m.hdr, childrenHeaders := m.childHdrs.map trHdr, childrenCountSum := m.countSum.map u32,
    extraData := trExtra m.root }

/-- a model slab tree as the value of the Go interface `ArraySlab` (an index slab does not embed its children: Go
    reads them from storage) -/
def trTree : (d : Nat) → ATree d → GSlab
  | 0, (s : DataSlab) => .dataSlab (trData s)
  | _ + 1, (m : MetaSlab _) => .metaSlab (trMeta m)

@[simp] theorem trData_elements (s : DataSlab) : (trData s).elements = s.elems.map some := rfl
@[simp] theorem trData_header (s : DataSlab) : (trData s).header = trHdr s.hdr := rfl
@[simp] theorem trData_next (s : DataSlab) : (trData s).next = s.next := rfl
@[simp] theorem trData_inlined (s : DataSlab) : (trData s).inlined = s.inlined := rfl
@[simp] theorem trData_extraData (s : DataSlab) : (trData s).extraData = trExtra s.root := rfl
@[simp] theorem trHdr_slabID (h : Hdr) : (trHdr h).slabID = h.id := rfl
@[simp] theorem trHdr_size (h : Hdr) : (trHdr h).size = u32 h.size := rfl
@[simp] theorem trHdr_count (h : Hdr) : (trHdr h).count = u32 h.count := rfl
@[simp] theorem trMeta_header {α : Type} (m : MetaSlab α) : (trMeta m).header = trHdr m.hdr := rfl
@[simp] theorem trMeta_childrenHeaders {α : Type} (m : MetaSlab α) : (trMeta m).childrenHeaders = m.childHdrs.map trHdr := rfl
@[simp] theorem trMeta_childrenCountSum {α : Type} (m : MetaSlab α) : (trMeta m).childrenCountSum = m.countSum.map u32 := rfl
@[simp] theorem trMeta_extraData {α : Type} (m : MetaSlab α) : (trMeta m).extraData = trExtra m.root := rfl
@[simp] theorem trExtra_isSome (b : Bool) : (trExtra b).isSome = b := by cases b <;> rfl

/-! ### the slice primitives on in-range arguments -/

theorem goIdx_ofNat {α : Type} (l : List α) (i : Nat) : TransSl.goIdx l (Int.ofNat i) = l[i]? := by
  have h : ¬ ((i : Int) < 0) := by omega
  simp [TransSl.goIdx, h]

theorem goIdx_map_some {α : Type} (l : List α) (i : Nat) :
    TransSl.goIdx (l.map some) (Int.ofNat i) = (l[i]?).map some := by
  rw [goIdx_ofNat]; simp

theorem goIdx_neg {α : Type} (l : List α) (i : Int) (h : i < 0) : TransSl.goIdx l i = none := by
  simp [TransSl.goIdx, h]

theorem goSet_ofNat {α : Type} (l : List α) (i : Nat) (v : α) :
    TransSl.goSet l (Int.ofNat i) v = if i < l.length then some (l.set i v) else none := by
  simp [TransSl.goSet]

theorem goSlice_ofNat {α : Type} (l : List α) (lo hi : Nat) :
    TransSl.goSlice l (Int.ofNat lo) (Int.ofNat hi) =
      if lo ≤ hi ∧ hi ≤ l.length then some ((l.drop lo).take (hi - lo)) else none := by
  simp only [TransSl.goSlice, Int.ofNat_eq_natCast, Int.natCast_nonneg, Int.ofNat_le, true_and, Int.toNat_natCast]
  have : ((hi : Int) - (lo : Int)).toNat = hi - lo := by omega
  rw [this]

theorem goInsert_ofNat {α : Type} (l : List α) (i : Nat) (v : List α) :
    TransSl.goInsert l (Int.ofNat i) v = if i ≤ l.length then some (l.take i ++ v ++ l.drop i) else none := by
  simp [TransSl.goInsert]

theorem goDelete_ofNat {α : Type} (l : List α) (i j : Nat) :
    TransSl.goDelete l (Int.ofNat i) (Int.ofNat j) =
      if i ≤ j ∧ j ≤ l.length then some (l.take i ++ l.drop j) else none := by
  simp [TransSl.goDelete]

/-- `slices.Insert(s, i, v)` of ONE element is the model's `insertIdx` -/
theorem take_cons_drop_eq_insertIdx {α : Type} (l : List α) (i : Nat) (v : α) (h : i ≤ l.length) :
    l.take i ++ [v] ++ l.drop i = l.insertIdx i v := by
  induction l generalizing i with
  | nil => cases i with
    | zero => rfl
    | succ i => simp at h
  | cons a t ih =>
    cases i with
    | zero => rfl
    | succ i =>
      have := ih i (by simpa using h)
      simp only [List.take_succ_cons, List.drop_succ_cons, List.insertIdx_succ_cons, List.cons_append] at this ⊢
      rw [this]

/-- `slices.Delete(s, i, i+1)` is the model's `eraseIdx` -/
theorem take_drop_succ_eq_eraseIdx {α : Type} (l : List α) (i : Nat) :
    l.take i ++ l.drop (i + 1) = l.eraseIdx i := by
  induction l generalizing i with
  | nil => simp
  | cons a t ih =>
    cases i with
    | zero => simp
    | succ i => simp [ih i]

/-! ### `storeSlab` and the dispatchers on translated slabs -/

theorem slabID_trTree (T : Nat) (look) (d : Nat) (t : ATree d) :
    TransSl.ArraySlab_SlabID (envA T look) (trTree d t) = (ATree.hdr d t).id := by
  cases d <;> rfl

/-- `storeSlab(storage, slab)` with the model's storage: one `store` effect, no error -/
theorem storeSlab_envA (T : Nat) (look) (c : Ctx) (v : GSlab) :
    TransSl.storeSlab (envA T look) c (some v) =
      some (none, c.emit (.store (TransSl.ArraySlab_SlabID (envA T look) v))) := by
  simp [TransSl.storeSlab, envA]

theorem storeSlab_data (T : Nat) (look) (c : Ctx) (a : GData) :
    TransSl.storeSlab (envA T look) c (some (.dataSlab a)) = some (none, c.emit (.store a.header.slabID)) := by
  simp [TransSl.storeSlab, envA, TransSl.ArraySlab_SlabID, TransSl.ArrayDataSlab_SlabID]

theorem storeSlab_meta (T : Nat) (look) (c : Ctx) (a : GMeta) :
    TransSl.storeSlab (envA T look) c (some (.metaSlab a)) = some (none, c.emit (.store a.header.slabID)) := by
  simp [TransSl.storeSlab, envA, TransSl.ArraySlab_SlabID, TransSl.ArrayMetaDataSlab_SlabID]

theorem map_some_insertIdx {α : Type} (l : List α) (i : Nat) (v : α) (h : i ≤ l.length) :
    List.take i (l.map some) ++ [some v] ++ List.drop i (l.map some) = (l.insertIdx i v).map some := by
  rw [take_cons_drop_eq_insertIdx _ _ _ (by simpa using h)]
  induction l generalizing i with
  | nil => cases i <;> simp_all
  | cons a t ih =>
    cases i with
    | zero => simp
    | succ i => simp [ih i (by simpa using h)]

theorem map_some_eraseIdx {α : Type} (l : List α) (i : Nat) :
    List.take i (l.map some) ++ List.drop (i + 1) (l.map some) = (l.eraseIdx i).map some := by
  rw [take_drop_succ_eq_eraseIdx]
  induction l generalizing i with
  | nil => simp
  | cons a t ih =>
    cases i with
    | zero => simp
    | succ i => simp [ih i]

/-! ### `uint32` is a ring modulo 2^32: additions and multiplications of translated numbers need no range hypothesis;
    only Nat's TRUNCATED subtraction and the comparisons do -/

theorem u32_add' (a b : Nat) : u32 a + u32 b = u32 (a + b) := by
  simp [u32, UInt32.ofNat_add]
theorem u32_sub' {a b : Nat} (h : b ≤ a) : u32 a - u32 b = u32 (a - b) := by
  have : u32 a = u32 (a - b) + u32 b := by rw [u32_add']; congr 1; omega
  rw [this]; simp
theorem u32_mul' (a b : Nat) : u32 a * u32 b = u32 (a * b) := by
  simp [u32, UInt32.ofNat_mul]

/-- `uint64(len(s))` -/
theorem u64_len (n : Nat) : UInt64.ofInt (Int.ofNat n) = u64 n := u64_ofInt n

theorem sumSizes_cons (e : Elem) (l : List Elem) : sumSizes (e :: l) = e.size + sumSizes l := by
  simp [sumSizes]

theorem sumSizes_append (a b : List Elem) : sumSizes (a ++ b) = sumSizes a + sumSizes b := by
  simp [sumSizes]

theorem sumSizes_nil : sumSizes [] = 0 := rfl

end Atree.TransEq
