import AtreeProofs.Trans.Basic
import AtreeModel.Codec.Cbor
/-
  Justification of the VIEW that gotrans uses for `SlabID.Compare` (slab_id.go): the 8-byte arrays `address` and
  `index` are seen as the big-endian numbers they encode, and `bytes.Compare` on two of them as the three-way
  comparison `goCmpU64` of those numbers.  Here: for the model's big-endian encoder `Codec.beBytes`, the
  lexicographic comparison of two k-byte encodings IS the comparison of the numbers.
-/
namespace Atree.TransEq
open Atree

/-- `bytes.Compare` (lexicographic, a proper prefix is smaller) -/
def bytesCompare : List Nat → List Nat → Int
  | [], [] => 0
  | [], _ :: _ => -1
  | _ :: _, [] => 1
  | x :: xs, y :: ys => if x < y then -1 else if y < x then 1 else bytesCompare xs ys

/-- three-way comparison of numbers -/
def natCompare (a b : Nat) : Int := if a < b then -1 else if a = b then 0 else 1

theorem lt_digits (m qa ra qb rb : Nat) (ha : ra < m) (hb : rb < m) :
    (qa * m + ra < qb * m + rb) ↔ (qa < qb ∨ (qa = qb ∧ ra < rb)) := by
  rcases Nat.lt_trichotomy qa qb with h | h | h
  · have h1 : (qa + 1) * m ≤ qb * m := Nat.mul_le_mul_right m h
    rw [Nat.add_mul, Nat.one_mul] at h1
    constructor
    · intro _; exact Or.inl h
    · intro _; omega
  · subst h
    constructor
    · intro h'; exact Or.inr ⟨rfl, by omega⟩
    · intro h'; rcases h' with h' | ⟨_, h'⟩ <;> omega
  · have h1 : (qb + 1) * m ≤ qa * m := Nat.mul_le_mul_right m h
    rw [Nat.add_mul, Nat.one_mul] at h1
    constructor
    · intro h'; omega
    · intro h'; rcases h' with h' | ⟨h', _⟩ <;> omega

theorem mod_succ_pow (a k : Nat) : a % 256 ^ (k + 1) = (a / 256 ^ k % 256) * 256 ^ k + a % 256 ^ k := by
  rw [Nat.pow_succ, Nat.mod_mul, Nat.mul_comm (256 ^ k)]; omega

/-- comparing the k-byte big-endian encodings = comparing the numbers (mod 256^k) -/
theorem bytesCompare_beBytes (k a b : Nat) :
    bytesCompare (Codec.beBytes k a) (Codec.beBytes k b) = natCompare (a % 256 ^ k) (b % 256 ^ k) := by
  induction k with
  | zero => simp [Codec.beBytes, bytesCompare, natCompare, Nat.mod_one]
  | succ k ih =>
    have hpos : 0 < 256 ^ k := Nat.pow_pos (by omega)
    have ha : a % 256 ^ k < 256 ^ k := Nat.mod_lt _ hpos
    have hb : b % 256 ^ k < 256 ^ k := Nat.mod_lt _ hpos
    simp only [Codec.beBytes, bytesCompare, ih, mod_succ_pow, natCompare]
    have l1 := lt_digits (256 ^ k) (a / 256 ^ k % 256) (a % 256 ^ k) (b / 256 ^ k % 256) (b % 256 ^ k) ha hb
    have l2 := lt_digits (256 ^ k) (b / 256 ^ k % 256) (b % 256 ^ k) (a / 256 ^ k % 256) (a % 256 ^ k) hb ha
    generalize a / 256 ^ k % 256 = qa at *
    generalize b / 256 ^ k % 256 = qb at *
    generalize a % 256 ^ k = ra at *
    generalize b % 256 ^ k = rb at *
    generalize 256 ^ k = m at *
    by_cases c1 : qa < qb
    · have : qa * m + ra < qb * m + rb := l1.mpr (Or.inl c1)
      simp [c1, this]
    · by_cases c2 : qb < qa
      · have h2 : qb * m + rb < qa * m + ra := l2.mpr (Or.inl c2)
        have h3 : ¬ (qa * m + ra < qb * m + rb) := by omega
        have h4 : ¬ (qa * m + ra = qb * m + rb) := by omega
        simp [c1, c2, h3, h4]
      · have e : qa = qb := by omega
        subst e
        simp only [c1, if_false]
        by_cases c3 : ra < rb
        · have : qa * m + ra < qa * m + rb := by omega
          simp [c3, this]
        · have h3 : ¬ (qa * m + ra < qa * m + rb) := by omega
          by_cases c4 : ra = rb
          · subst c4; simp
          · have h4 : ¬ (qa * m + ra = qa * m + rb) := by omega
            simp [c3, c4, h3, h4]

/-- `bytes.Compare` of the 8-byte big-endian encodings of two `uint64` values is `goCmpU64` -/
theorem goCmpU64_is_bytesCompare (a b : UInt64) :
    Gen.Trans.goCmpU64 a b = bytesCompare (Codec.beBytes 8 a.toNat) (Codec.beBytes 8 b.toNat) := by
  have ha := a.toNat_lt; have hb := b.toNat_lt
  rw [bytesCompare_beBytes, Nat.mod_eq_of_lt (by omega), Nat.mod_eq_of_lt (by omega)]
  simp only [Gen.Trans.goCmpU64, natCompare, UInt64.lt_iff_toNat_lt, ← UInt64.toNat_inj]

end Atree.TransEq
