import AtreeModel.Gen.TransMapSlabs
import AtreeModel.Map.Tree
import AtreeProofs.Props.TransLoops
/-
  Set-up for the equivalence proofs between the GENERATED full translation of the slab-level restructuring code of
  the maps (`AtreeModel/Gen/TransMapSlabs.lean`, namespace `Atree.Gen.TransMap`, written by the object engine of
  harness/cmd/gotrans on every run) and the hand-written model (`AtreeModel/Map/Elems.lean`, `Tree.lean`):
  the translation of model values into the generated records (`cH`, `cD`, `cM`, ...), what is assumed of the
  environment (`EnvH`), and the slice helpers of slice_utils.go by their effect on lists.  Core Lean only.
-/
namespace Atree.TransEq
open Atree Atree.Gen.TransMap

/-! ## the slice helpers (slice_utils.go): generated code = take / drop / append -/

theorem msl_goSlice_from {α : Type} (l : List α) (n : Nat) (h : n ≤ l.length) :
    goSlice l (some (Int.ofNat n)) none = some (l.drop n) := by
  simp only [goSlice, Option.getD_some, Option.getD_none]
  have h1 : (0 : Int) ≤ Int.ofNat n ∧ Int.ofNat n ≤ Int.ofNat l.length ∧ Int.ofNat l.length ≤ Int.ofNat l.length := by
    refine ⟨by simp, by simp only [Int.ofNat_eq_natCast]; omega, Int.le_refl _⟩
  rw [if_pos h1]
  simp

theorem msl_goSlice_to {α : Type} (l : List α) (n : Nat) (h : n ≤ l.length) :
    goSlice l none (some (Int.ofNat n)) = some (l.take n) := by
  simp only [goSlice, Option.getD_some, Option.getD_none]
  have h1 : (0 : Int) ≤ 0 ∧ (0 : Int) ≤ Int.ofNat n ∧ Int.ofNat n ≤ Int.ofNat l.length := by
    refine ⟨Int.le_refl _, by simp, by simp only [Int.ofNat_eq_natCast]; omega⟩
  rw [if_pos h1]
  simp

theorem msl_goSlicesDelete_tail {α : Type} (l : List α) (n : Nat) (h : n ≤ l.length) :
    goSlicesDelete l (Int.ofNat n) (Int.ofNat l.length) = some (l.take n) := by
  simp only [goSlicesDelete]
  have h1 : (0 : Int) ≤ Int.ofNat n ∧ Int.ofNat n ≤ Int.ofNat l.length ∧ Int.ofNat l.length ≤ Int.ofNat l.length := by
    refine ⟨by simp, by simp only [Int.ofNat_eq_natCast]; omega, Int.le_refl _⟩
  rw [if_pos h1]
  simp

theorem msl_goSlicesInsert_front {α : Type} (l vs : List α) :
    goSlicesInsert l (0 : Int) vs = some (vs ++ l) := by
  simp [goSlicesInsert]

/-- `split(s, n)` = `(s[:n], s[n:])` when `0 ≤ n ≤ len(s)` -/
theorem msl_split_eq {α : Type} (s : List α) (n : Nat) (h : n ≤ s.length) :
    split s (Int.ofNat n) = some (s.take n, s.drop n) := by
  simp only [split, msl_goSlice_from s n h, msl_goSlicesDelete_tail s n h]

/-- `split(s, n)` panics when `n > len(s)` -/
theorem msl_split_panics {α : Type} (s : List α) (n : Nat) (h : s.length < n) :
    split s (Int.ofNat n) = none := by
  have hn : ¬ n ≤ s.length := by omega
  simp [split, goSlice, hn]

/-- `merge(left, right)` = `left ++ right` (the cleared `right` is dead, see `deadAfterCall`) -/
theorem msl_merge_eq {α : Type} (l r : List α) : merge l r = l ++ r := rfl

/-- `lendToRight(left, right, c)` moves the last `c` elements of `left` in front of `right` -/
theorem msl_lendToRight_eq {α : Type} (l r : List α) (c : Nat) (h : c ≤ l.length) :
    lendToRight l r (Int.ofNat c) = some (l.take (l.length - c), l.drop (l.length - c) ++ r) := by
  have e : Int.ofNat l.length - Int.ofNat c = Int.ofNat (l.length - c) := by
    simp only [Int.ofNat_eq_natCast]; omega
  simp only [lendToRight, e, msl_goSlice_from l (l.length - c) (by omega), msl_goSlicesInsert_front,
    msl_goSlicesDelete_tail l (l.length - c) (by omega)]

/-- `borrowFromRight(left, right, c)` moves the first `c` elements of `right` behind `left` -/
theorem msl_borrowFromRight_eq {α : Type} (l r : List α) (c : Nat) (h : c ≤ r.length) :
    borrowFromRight l r (Int.ofNat c) = some (l ++ r.take c, r.drop c) := by
  have z : goSlice r none (some (0 : Int)) = some [] := by
    have := msl_goSlice_to r 0 (by omega)
    simpa using this
  simp only [borrowFromRight, msl_goSlice_to r c h, z, msl_goSlice_from r c h, msl_goSlicesInsert_front, List.append_nil]

/-! ## model values as generated records -/

/-- the error payload of the generated code is the model's error class -/
abbrev GE := MErr

/-- `hkeyElements` of the model as the generated record: the elements themselves are the model's (`E := MElemF α`,
    observed through `element.Size()` only), digests / size / level as machine integers -/
def cH {α : Type} (e : HkeyElems α) : hkeyElements (MElemF α) :=
  { hkeys := u64s e.hkeys, elems := e.elems, size := u32 e.size, level := u64 e.level }

/-- what the theorems assume of the parameters of the generated code: `element.Size()` is the model's element size,
    `minThreshold` the model's, every error constructor yields its class -/
structure EnvH {α V W X S : Type} (o : ElemsOps α) (T : Nat) (env : Env (MElemF α) V W X S GE) : Prop where
  size : ∀ msl_el, env.element_Size msl_el = u32 (msl_el.size o)
  minThr : env.minThreshold = u32 (minThr T)
  eMerge : env.NewSlabMergeError = some .slabMerge
  eRebalance : env.NewSlabRebalanceError = some .slabRebalance
  eRebalancef : env.NewSlabRebalanceErrorf = some .slabRebalance
  eSplit : env.NewSlabSplitErrorf = some .slabSplit
  eNotApplicable : env.NewNotApplicableError = some .notApplicable

/-- `MapSlabHeader` -/
def cHdr (h : MHdr) : MapSlabHeader := { slabID := h.id, size := u32 h.size, firstKey := u64 h.firstKey }

/-- `MapMetaDataSlab` of the model as the generated record.  The generated record has no children (they live in the
    storage); `x` = its `extraData` pointer, which the model does not carry. -/
def cMeta {α X : Type} (m : MMetaSlab α) (x : Option X) : MapMetaDataSlab X :=
  { header := cHdr m.hdr, childrenHeaders := m.childHdrs.map cHdr, extraData := x }

/-- `MapDataSlab` of the slab tree (size-limited: `anySize = collisionGroup = false`) as the generated record -/
def cData {r : Nat} {V X : Type} (s : MDataSlab r) (x : Option X) : MapDataSlab (MElemF (MElems r)) V X :=
  { next := s.next, header := cHdr s.hdr, elements := .hkey (cH s.elems), extraData := x,
    anySize := false, collisionGroup := false, inlined := s.inlined }

/-- a subtree root as the generated `MapSlab` value (non-root slabs carry no extra data) -/
def cTree {r : Nat} {V X : Type} : (d : Nat) → MTree r d → MapSlab (MElemF (MElems r)) V X
  | 0, (s : MDataSlab r) => .dataSlab (cData s none)
  | _ + 1, (m : MMetaSlab _) => .metaSlab (cMeta m none)

/-- the slab storage as the model sees it: the state is the model's `Ctx` (allocation counter + effect log);
    `GenerateSlabID` = `Ctx.alloc`, `Store` / `Remove` append their effect and never fail; the error wrapper is the
    identity on the (already categorised) errors that occur -/
structure EnvS {E V W X : Type} (env : Env E V W X Ctx GE) : Prop where
  gen : ∀ c a, env.SlabStorage_GenerateSlabID c a = ((c.alloc a).1, none, (c.alloc a).2)
  store : ∀ c id slab, env.SlabStorage_Store c id slab = (none, c.emit (.store id))
  remove : ∀ c id, env.SlabStorage_Remove c id = (none, c.emit (.remove id))
  wrapNone : env.wrapErrorfAsExternalErrorIfNeeded none = none

theorem msl_u64s_take (l : List Nat) (n : Nat) : (u64s l).take n = u64s (l.take n) := by simp [u64s, List.map_take]
theorem msl_u64s_drop (l : List Nat) (n : Nat) : (u64s l).drop n = u64s (l.drop n) := by simp [u64s, List.map_drop]
theorem msl_u64s_append (a b : List Nat) : u64s a ++ u64s b = u64s (a ++ b) := by simp [u64s]

end Atree.TransEq
