import AtreeProofs.Trans.MapElemsOn
import AtreeProofs.Trans.MapElemOn
import AtreeProofs.Props.TransElemInline
/-
  WP13 "tying the knot": the CLOSED generated functions of the map element layer.

  The two generated units of the element layer are open: unit A (`Gen/TransMapElems.lean`, `hkeyElements.Get / Set /
  Remove`) takes the `element` methods as fields of its `env`, unit B (`Gen/TransMapElem.lean`, the three `element`
  implementations and their dispatchers) takes the methods of the nested `elements` as fields of its `env`; the last level
  (`singleElements.Get / Set / Remove`) is in `Gen/TransMapSlabs.lean`.  Here the two units are instantiated WITH EACH
  OTHER by recursion on the number `r` of digest levels left (as `MElems.ops r` in the model):

    mcl_envB cfg retr 0       : unit-B env whose `elements_*` run the GENERATED `singleElements_*`      (G := MElems 0)
    mcl_envA cfg d (envB r)   : unit-A env whose `element_*`  run the GENERATED dispatchers `element_*` of unit B
    mcl_envB cfg retr (r + 1) : unit-B env whose `elements_*` run the GENERATED `hkeyElements_*` of unit A under
                                `mcl_envA cfg d (mcl_envB cfg retr r)`                                     (G := MElems (r+1))

  Carriers are the MODEL types (`G := MElems r`, `E := MElemF (MElems r)`, `S := Ctx`, `D := MKey`): every closed function
  translates its argument into the generated record (`cS`, `mel_cH`, `mei_cEl`), runs the generated function and decodes
  the generated result back (`mcl_dS`, `mcl_dH`, `mcl_dElS`, `mcl_dElR`).  No model operation (`SingleElems.*`,
  `HkeyElems.*`, `MElemF.*`, `MElems.ops`) occurs in any definition of this file.

  TRUSTED GLUE (not generated; each item is a Go function / accessor that is not a translated target, or a conversion):
   * storage, comparator, `Value.Storable`, `Storable.ByteSize / StoredValue`, digester (= the key with its digests),
     error constructors: as in the witnesses `msl_envSingle0`, `mei_env0` of WP10 / WP11;
   * `newSingleElement` (map_element.go): by its model transcription `Atree.newSingleElement` (as in `msl_envSingle0`);
   * `newSingleElementsWithElement`, `newHkeyElementsWithElement`: the one-element group (`mcl_newS`, `mcl_newH`);
   * `elements.Element(i)` (`mcl_elemAtS`, `mcl_elemAtH`), `hkeyElements.Size / Count / firstKey` (field reads; at the
     last level the generated accessors `singleElements_Size / Count / firstKey` are used),
     `externalCollisionGroup.Count` (count of the group's slab);
   * `MapSlab.Get` on a data slab = `elements.Get` of its elements (method promotion), `MapSlab.Set` on a data slab = the
     GENERATED `MapDataSlab_Set`;
   * the slab of an external collision group is not part of the Go element `{slabID, size}`; the decoder of an
     `externalGroup` RESULT obtains it by running the GENERATED `MapDataSlab_Set / MapDataSlab_Remove` on the slab of the
     receiver (`.ext` receiver), resp. (export of an inline group by `Set`) from the receiver state the GENERATED
     `inlineCollisionGroup_Set` leaves, with the header `{id, prefix + Size(), firstKey()}` that
     `inlineCollisionGroup_Set_export_slab` (WP11) proves is the one handed to `Store`;
   * a run-time panic (`none`) of a nested generated function is mapped to an arbitrary total value (env fields are
     total); the theorems show `some`, so the choice is never observed.
  Core Lean only.  Helper names carry the prefix `mcl_`.
-/
namespace Atree.TransEq
open Atree

abbrev mcl_EnvB (α X : Type) := Gen.TransElem.Env α SV SW X MKey Unit Ctx GE
abbrev mcl_EnvA (α : Type) := Gen.TransElems.Env (MElemF α) SV SW Ctx GE
abbrev mcl_Retr (α X : Type) := Ctx → SlabID → Gen.TransElem.MapSlab α X × Bool × Option GE × Ctx

/-! ## decoders: generated records back to model values -/

/-- `singleElement` (record of `Gen/TransMapSlabs.lean`) back to the model; inverse of `cE` on sizes < 2^32 -/
def mcl_dE0 (s : Gen.TransMap.singleElement SV) : SElem :=
  match s.key, s.value with
  | some (.key k'), some (.val v') => { key := k', val := v', size := s.size.toNat }
  | _, _ => default

/-- `singleElement` (record of `Gen/TransMapElems.lean`) back to the model; inverse of `mel_cE` -/
def mcl_dEA (s : Gen.TransElems.singleElement SV) : SElem :=
  match s.key, s.value with
  | some (.key k'), some (.val v') => { key := k', val := v', size := s.size.toNat }
  | _, _ => default

/-- `singleElements` back to the model; inverse of `cS` -/
def mcl_dS (s : Gen.TransMap.singleElements SV) : SingleElems :=
  { elems := s.elems.map mcl_dE0, size := s.size.toNat, level := s.level.toNat }

/-- `hkeyElements` back to the model; inverse of `mel_cH` -/
def mcl_dH {α : Type} (h : Gen.TransElems.hkeyElements (MElemF α)) : HkeyElems α :=
  { hkeys := h.hkeys.map (·.toNat), elems := h.elems.filterMap id, size := h.size.toNat, level := h.level.toNat }

/-- `MapSlabHeader` back to the model; inverse of `mei_cHdr` -/
def mcl_dHdr (h : Gen.TransElem.MapSlabHeader) : MHdr :=
  { id := h.slabID, size := h.size.toNat, firstKey := h.firstKey.toNat }

/-- the data slab of an external collision group back to the model; inverse of `mei_cGroupSlab` -/
def mcl_dGroupSlab {α X : Type} (m : Gen.TransElem.MapDataSlab α X) : GroupSlab α :=
  { hdr := mcl_dHdr m.header, elems := m.elements }

/-! ## the shared (non-`elements`) part of the unit-B environment -/

/-- the closed `elements` methods of one level -/
structure mcl_GOps (α : Type) where
  get : α → Ctx → MKey → UInt64 → UInt64 → SW → Option SV × Option SV × Option GE × Ctx
  set : α → Ctx → Nat → Unit → MKey → UInt64 → UInt64 → SW → SW → Option SV × Option SV × Option GE × α × Ctx
  remove : α → Ctx → MKey → UInt64 → UInt64 → SW → Option SV × Option SV × Option GE × α × Ctx
  size : α → UInt32
  count : α → UInt32
  firstKey : α → UInt64
  elemAt : α → Int → Gen.TransElem.element α SV × Option GE
  newS : UInt64 → Gen.TransElem.singleElement SV → α
  newH : UInt64 → UInt64 → Gen.TransElem.element α SV → α

/-- unit-B environment over the closed `elements` methods `G` (without the `MapSlab.Set` dispatch) -/
def mcl_envB0 {α X : Type} (cfg : MCfg) (G : mcl_GOps α) (retr : mcl_Retr α X) : mcl_EnvB α X where
  DigesterBuilder_Digest := fun _ w => match w with | .key k' => (k', none) | .val _ => (default, some .goPanic)
  Digester_Digest := fun d l => (u64 (d.dig l.toNat), none)
  Digester_Levels := fun _ => u64 cfg.L
  MapSlab_Get := fun sl c d lvl hk w => match sl with
    | .dataSlab m => G.get m.elements c d lvl hk w
    | _ => (none, none, some .goPanic, c)
  MapSlab_Set := fun s c _ _ _ _ _ _ => (none, none, some .goPanic, s, c)
  MapSlab_getElementAndNextKey := fun _ c _ _ _ _ => (none, none, none, some .goPanic, c)
  NewHashLevelErrorf := some .hashLevel
  NewKeyNotFoundError := some .keyNotFound
  NewSlabDataErrorf := some .goPanic
  NewSlabNotFoundErrorf := some .slabNotFound
  SlabIDStorable_ByteSize := u32 slabIDStorableSize
  SlabStorage_GenerateSlabID := fun c a => ((c.alloc a).1, none, (c.alloc a).2)
  SlabStorage_Remove := fun c id => (none, c.emit (.remove id))
  SlabStorage_Retrieve := retr
  SlabStorage_Store := fun c id _ => (none, c.emit (.store id))
  Storable_ByteSize := fun s => match s with | .key k' => u32 k'.size | .val v' => u32 v'.size
  Storable_StoredValue := fun s c => match s with | .key k' => (.key k', none, c) | .val v' => (.val v', none, c)
  ValueComparator := fun c w s => match w, s with
    | .key a, some (.key b') => (b'.same a, none, c)
    | _, _ => (false, some .goPanic, c)
  Value_Storable := fun w c a lim => match w with
    | .val v' => (some (.val (toStorableLim lim.toNat a v' c).1), none, (toStorableLim lim.toNat a v' c).2)
    | .key _ => (none, some .goPanic, c)
  elements_Count := G.count
  elements_Element := G.elemAt
  elements_Get := G.get
  elements_Remove := G.remove
  elements_Set := G.set
  elements_Size := G.size
  elements_firstKey := G.firstKey
  elements_getElementAndNextKey := fun _ c _ _ _ _ => (none, none, none, some .goPanic, c)
  maxInlineMapElementSize := u32 (maxInlineMapElem cfg.T)
  maxInlineMapValueSize := fun n => u32 (maxInlineMapValue cfg.T n.toNat)
  newHkeyElementsWithElement := G.newH
  newSingleElementsWithElement := G.newS
  wrapErrorfAsExternalErrorIfNeeded := id

/-- the same with `MapSlab.Set` on a data slab dispatching to the GENERATED `MapDataSlab.Set` -/
def mcl_envBG {α X : Type} (cfg : MCfg) (G : mcl_GOps α) (retr : mcl_Retr α X) : mcl_EnvB α X :=
  { mcl_envB0 cfg G retr with
    MapSlab_Set := fun sl c b d lvl hk w w' => match sl with
      | .dataSlab m =>
        (match Gen.TransElem.MapDataSlab_Set (mcl_envB0 cfg G retr) m c b d lvl hk w w' with
         | some r => (r.1, r.2.1, r.2.2.1, .dataSlab r.2.2.2.1, r.2.2.2.2)
         | none => (none, none, none, .dataSlab m, c))
      | _ => (none, none, some .goPanic, sl, c) }

/-! ## unit A from unit B: the `element` methods are the GENERATED dispatchers -/

/-- the slab of an external collision group after `MapDataSlab.Remove` (GENERATED) on the receiver's slab -/
def mcl_slabAfterRemove {α X : Type} (envB : mcl_EnvB α X) (d : MKey) (s : GroupSlab α) (c : Ctx) (lvl : UInt64) (w : SW) :
    GroupSlab α :=
  match Gen.TransElem.MapDataSlab_Remove envB (mei_cGroupSlab s) c d (lvl + 1) (envB.Digester_Digest d (lvl + 1)).1 w with
  | some r => mcl_dGroupSlab r.2.2.2.1
  | none => s

/-- the slab of an external collision group after `MapDataSlab.Set` (GENERATED) on the receiver's slab -/
def mcl_slabAfterSet {α X : Type} (envB : mcl_EnvB α X) (d : MKey) (s : GroupSlab α) (c : Ctx) (lvl : UInt64) (w w' : SW) :
    GroupSlab α :=
  match Gen.TransElem.MapDataSlab_Set envB (mei_cGroupSlab s) c () d (lvl + 1) (envB.Digester_Digest d (lvl + 1)).1 w w' with
  | some r => mcl_dGroupSlab r.2.2.2.1
  | none => s

/-- the inline group `singleElement.Set` builds around the resident element on a collision (as in the generated
    `singleElement_Set`: last-level list iff `level + 1 == Levels`, else a digest table under the resident key's digest) -/
def mcl_freshGroup {α X : Type} (envB : mcl_EnvB α X) (d : MKey) (x : SElem) (lvl : UInt64) : α :=
  if lvl + 1 = envB.Digester_Levels d then envB.newSingleElementsWithElement (lvl + 1) (mei_cE x)
  else envB.newHkeyElementsWithElement (lvl + 1) (envB.Digester_Digest x.key (lvl + 1)).1 (.single (mei_cE x))

/-- the elements of an inline group after the GENERATED `inlineCollisionGroup_Set` (its receiver state) -/
def mcl_groupAfterSet {α X : Type} (envB : mcl_EnvB α X) (d : MKey) (g : α) (c : Ctx) (addr : Nat) (lvl hk : UInt64)
    (w w' : SW) : α :=
  match Gen.TransElem.inlineCollisionGroup_Set envB { elements := g } c addr () d lvl hk w w' with
  | some r => r.2.2.2.2.1.elements
  | none => g

/-- the slab an inline group is exported to (header as handed to `Store`, see `inlineCollisionGroup_Set_export_slab`) -/
def mcl_exportSlab {α X : Type} (envB : mcl_EnvB α X) (id : SlabID) (g' : α) : GroupSlab α :=
  { hdr := { id := id, size := (UInt32.ofNat Gen.mapDataSlabPrefixSize + envB.elements_Size g').toNat,
             firstKey := (envB.elements_firstKey g').toNat }, elems := g' }

/-- the element `element.Remove` hands back, as a model element (`nil` = gone) -/
def mcl_dElR {α X : Type} (envB : mcl_EnvB α X) (d : MKey) (el : MElemF α) (c : Ctx) (lvl : UInt64) (w : SW) :
    Gen.TransElem.element α SV → Option (MElemF α)
  | .nil => none
  | .single se => some (.single (mei_il_inv se))
  | .inlineGroup ig => some (.inl ig.elements)
  | .externalGroup eg =>
    match el with
    | .ext _ _ s => some (.ext eg.slabID eg.size.toNat (mcl_slabAfterRemove envB d s c lvl w))
    | _ => none

/-- the element `element.Set` hands back, as a model element -/
def mcl_dElS {α X : Type} (envB : mcl_EnvB α X) (d : MKey) (el : MElemF α) (c : Ctx) (addr : Nat) (lvl hk : UInt64)
    (w w' : SW) : Gen.TransElem.element α SV → Option (MElemF α)
  | .nil => none
  | .single se => some (.single (mei_il_inv se))
  | .inlineGroup ig => some (.inl ig.elements)
  | .externalGroup eg =>
    match el with
    | .ext _ _ s => some (.ext eg.slabID eg.size.toNat (mcl_slabAfterSet envB d s c lvl w w'))
    | .inl g => some (.ext eg.slabID eg.size.toNat
        (mcl_exportSlab envB eg.slabID (mcl_groupAfterSet envB d g c addr lvl hk w w')))
    | .single x => some (.ext eg.slabID eg.size.toNat
        (mcl_exportSlab envB eg.slabID (mcl_groupAfterSet envB d (mcl_freshGroup envB d x lvl) c addr lvl hk w w')))

/-- unit-A environment for the digester `d` over the unit-B environment `envB`: `element.Get / Set / Remove / Size` are the
    GENERATED dispatchers of unit B on the translated element -/
def mcl_envA {α X : Type} (cfg : MCfg) (envB : mcl_EnvB α X) (d : MKey) : mcl_EnvA α where
  Digester_Levels := envB.Digester_Levels d
  NewCollisionLimitError := some .collisionLimit
  NewHashLevelErrorf := some .hashLevel
  NewKeyNotFoundError := some .keyNotFound
  NewMapElementCountError := some .mapElementCount
  NewUnreachableError := some .goPanic
  element_Count := fun el c => match el with
    | .single x => ((Gen.TransElem.singleElement_Count envB (mei_cE x) c).1, (Gen.TransElem.singleElement_Count envB (mei_cE x) c).2, c)
    | .inl g => ((Gen.TransElem.inlineCollisionGroup_Count envB { elements := g } c).1,
                 (Gen.TransElem.inlineCollisionGroup_Count envB { elements := g } c).2, c)
    | .ext _ _ s => (envB.elements_Count s.elems, none, c)
  element_Get := fun el c lvl hk w =>
    match Gen.TransElem.element_Get envB (mei_cEl el) c d lvl hk w with
    | some r => r
    | none => (none, none, some .goPanic, c)
  element_Remove := fun el c lvl hk w =>
    match Gen.TransElem.element_Remove envB (mei_cEl el) c d lvl hk w with
    | some r => (r.1, r.2.1, mcl_dElR envB d el c lvl w r.2.2.1, r.2.2.2.1, r.2.2.2.2.2)
    | none => (none, none, none, some .goPanic, c)
  element_Set := fun el c addr lvl hk w w' =>
    match Gen.TransElem.element_Set envB (mei_cEl el) c addr () d lvl hk w w' with
    | some r => (mcl_dElS envB d el c addr lvl hk w w' r.1, r.2.1, r.2.2.1, r.2.2.2.1, r.2.2.2.2.2)
    | none => (none, none, none, some .goPanic, c)
  element_Size := fun el => (Gen.TransElem.element_Size envB (mei_cEl el)).getD 0
  element_getElementAndNextKey := fun el c lvl hk w =>
    match Gen.TransElem.element_getElementAndNextKey envB (mei_cEl el) c d lvl hk w with
    | some r => r
    | none => (none, none, none, some .goPanic, c)
  element_ofSingleElement := fun s => .single (mcl_dEA s)
  errors_As_KeyNotFoundError := fun err => decide (err = .keyNotFound)
  firstKeyInElement := fun c _ => (none, some .goPanic, c)
  maxCollisionLimitPerDigest := u32 cfg.climit
  newSingleElement := fun c addr kw vw => match kw, vw with
    | .key k, .val v => (mel_cE (newSingleElement cfg.T addr k v c).1, none, (newSingleElement cfg.T addr k v c).2)
    | _, _ => ({}, some .goPanic, c)

/-! ## unit B from unit A one level deeper: the `elements` methods are the GENERATED `hkeyElements_*` -/

/-- `elements.Element(i)` of a digest table whose elements hold groups of type `α`: only used (by the generated code) to
    tell a single element from a group and to hand the single element back -/
def mcl_elemAtH {α : Type} (g : HkeyElems α) (i : Int) : Gen.TransElem.element (HkeyElems α) SV × Option GE :=
  match g.elems[i.toNat]? with
  | some (.single x) => (.single (mei_cE x), none)
  | some (.inl _) => (.inlineGroup { elements := g }, none)
  | some (.ext id sz _) => (.externalGroup { slabID := id, size := u32 sz }, none)
  | none => (.nil, some .goPanic)

/-- `newHkeyElementsWithElement(level, hkey, elem)` (map_elements_hashkey.go) for a single element -/
def mcl_newH {α : Type} (lvl hk : UInt64) (el : Gen.TransElem.element (HkeyElems α) SV) : HkeyElems α :=
  match el with
  | .single s => { level := lvl.toNat, hkeys := [hk.toNat], elems := [.single (mei_il_inv s)],
                   size := (UInt32.ofNat Gen.hkeyElementsPrefixSize + UInt32.ofNat Gen.digestSize + s.size).toNat }
  | _ => { level := lvl.toNat, hkeys := [], elems := [], size := Gen.hkeyElementsPrefixSize }

/-- the closed `elements` methods of a digest table over the unit-A environments `envA d` -/
def mcl_gopsH {α : Type} (envA : MKey → mcl_EnvA α) : mcl_GOps (HkeyElems α) where
  get := fun g c d lvl hk w =>
    match Gen.TransElems.hkeyElements_Get (envA d) (mel_cH g) c lvl hk w with
    | some r => r
    | none => (none, none, some .goPanic, c)
  set := fun g c addr _ d lvl hk w w' =>
    match Gen.TransElems.hkeyElements_Set (envA d) (mel_cH g) c addr lvl hk w w' with
    | some r => (r.1, r.2.1, r.2.2.1, mcl_dH r.2.2.2.1, r.2.2.2.2)
    | none => (none, none, some .goPanic, g, c)
  remove := fun g c d lvl hk w =>
    match Gen.TransElems.hkeyElements_Remove (envA d) (mel_cH g) c lvl hk w with
    | some r => (r.1, r.2.1, r.2.2.1, mcl_dH r.2.2.2.1, r.2.2.2.2)
    | none => (none, none, some .goPanic, g, c)
  size := fun g => (mel_cH g).size
  count := fun g => UInt32.ofInt (Int.ofNat (mel_cH g).elems.length)
  firstKey := fun g => (mel_cH g).hkeys.headD 0
  elemAt := mcl_elemAtH
  newS := fun lvl _ => { level := lvl.toNat, hkeys := [], elems := [], size := Gen.hkeyElementsPrefixSize }
  newH := mcl_newH

/-! ## the last level: the `elements` methods are the GENERATED `singleElements_*` -/

def mcl_elemAtS (g : SingleElems) (i : Int) : Gen.TransElem.element SingleElems SV × Option GE :=
  match g.elems[i.toNat]? with
  | some x => (.single (mei_cE x), none)
  | none => (.nil, some .goPanic)

/-- `newSingleElementsWithElement(level, elem)` (map_elements_nokey.go) -/
def mcl_newS (lvl : UInt64) (e : Gen.TransElem.singleElement SV) : SingleElems :=
  { level := lvl.toNat, size := (UInt32.ofNat Gen.singleElementsPrefixSize + e.size).toNat, elems := [mei_il_inv e] }

def mcl_gopsS (cfg : MCfg) : mcl_GOps SingleElems where
  get := fun g c _ lvl hk w => Gen.TransMap.singleElements_Get (msl_envSingle0 cfg) (cS g) c lvl hk w
  set := fun g c addr _ _ lvl hk w w' =>
    match Gen.TransMap.singleElements_Set (msl_envSingle0 cfg) (cS g) c addr lvl hk w w' with
    | some r => (r.1, r.2.1, r.2.2.1, mcl_dS r.2.2.2.1, r.2.2.2.2)
    | none => (none, none, some .goPanic, g, c)
  remove := fun g c _ lvl hk w =>
    match Gen.TransMap.singleElements_Remove (msl_envSingle0 cfg) (cS g) c lvl hk w with
    | some r => (r.1, r.2.1, r.2.2.1, mcl_dS r.2.2.2.1, r.2.2.2.2)
    | none => (none, none, some .goPanic, g, c)
  size := fun g => Gen.TransMap.singleElements_Size (msl_envSingle0 cfg) (cS g)
  count := fun g => Gen.TransMap.singleElements_Count (msl_envSingle0 cfg) (cS g)
  firstKey := fun g => Gen.TransMap.singleElements_firstKey (msl_envSingle0 cfg) (cS g)
  elemAt := mcl_elemAtS
  newS := mcl_newS
  newH := fun lvl _ _ => { level := lvl.toNat, size := Gen.singleElementsPrefixSize, elems := [] }

/-! ## the knot -/

/-- the retrieval functions of all levels (external collision groups exist at the first level only: the nested levels
    never retrieve anything) -/
abbrev mcl_Retrs (X : Type) := (r : Nat) → mcl_Retr (MElems r) X

/-- the closed `elements` methods of level `r` -/
def mcl_gops {X : Type} (cfg : MCfg) (retr : mcl_Retrs X) : (r : Nat) → mcl_GOps (MElems r)
  | 0 => mcl_gopsS cfg
  | r + 1 => mcl_gopsH (mcl_envA cfg (mcl_envBG cfg (mcl_gops cfg retr r) (retr r)))

/-- the closed unit-B environment of level `r` (nested `elements` = `MElems r`) -/
def clEnvB {X : Type} (cfg : MCfg) (retr : mcl_Retrs X) (r : Nat) : mcl_EnvB (MElems r) X :=
  mcl_envBG cfg (mcl_gops cfg retr r) (retr r)

/-- the closed unit-A environment of level `r` (elements hold `MElems r`) for the digester `d` -/
def clEnvA {X : Type} (cfg : MCfg) (retr : mcl_Retrs X) (r : Nat) (d : MKey) : mcl_EnvA (MElems r) :=
  mcl_envA cfg (clEnvB cfg retr r) d

/-- the CLOSED generated `elements.Get` at level `r`: built from the generated functions and conversion glue only -/
def clElements_Get {X : Type} (cfg : MCfg) (retr : mcl_Retrs X) (r : Nat) :=
  (mcl_gops cfg retr r).get

/-- the CLOSED generated `elements.Set` at level `r` -/
def clElements_Set {X : Type} (cfg : MCfg) (retr : mcl_Retrs X) (r : Nat) :=
  (mcl_gops cfg retr r).set

/-- the CLOSED generated `elements.Remove` at level `r` -/
def clElements_Remove {X : Type} (cfg : MCfg) (retr : mcl_Retrs X) (r : Nat) :=
  (mcl_gops cfg retr r).remove

end Atree.TransEq
