import AtreeModel.Gen.TransMapElem
import AtreeModel.Map.Tree
import AtreeProofs.Props.TransMapSlabsSingle
/-
  Set-up for the equivalence proofs of the ELEMENT layer, part 2: the GENERATED translation of the three `element`
  implementations `singleElement`, `inlineCollisionGroup`, `externalCollisionGroup` (`Get` / `Set` / `Remove`), of their
  dynamic dispatch and of `MapDataSlab.Set / Remove` (`AtreeModel/Gen/TransMapElem.lean`, namespace
  `Atree.Gen.TransElem`, written by the object engine of harness/cmd/gotrans on every run) against the hand-written model
  `MElemF.get / set / remove / inlSet / groupSlabUpdate` (`AtreeModel/Map/Elems.lean`) and `MDataSlab.set / remove`
  (`AtreeModel/Map/Tree.lean`).

  As in the model, the `elements` interface of the NEXT level is a parameter: the generated code calls `env.elements_Get`,
  `env.elements_Set`, ... where the model calls `o.get`, `o.set`, ... for `o : ElemsOps α` (`G := α`).  The digester of a key
  is the key itself with its digests (`D := MKey`), the storage state is the model's `Ctx`.  `EnvB` says that the
  parameters are the model's.  Core Lean only.  Helper names carry the prefix `mei_`.
-/
namespace Atree.TransEq
open Atree Atree.Gen.TransElem

/-- `singleElement` of the model as the generated record (`Gen.TransElem.singleElement`) -/
def mei_cE (x : SElem) : singleElement SV :=
  { key := some (.key x.key), value := some (.val x.val), size := u32 x.size }

/-- an `element` of the model as the generated closed-interface value.  The slab of an external collision group is NOT
    part of the Go element (it lives in the storage): the translation forgets it. -/
def mei_cEl {α : Type} : MElemF α → element α SV
  | .single x => .single (mei_cE x)
  | .inl g => .inlineGroup { elements := g }
  | .ext id sz _ => .externalGroup { slabID := id, size := u32 sz }

/-- `MapSlabHeader` -/
def mei_cHdr (h : MHdr) : MapSlabHeader := { slabID := h.id, size := u32 h.size, firstKey := u64 h.firstKey }

/-- the `MapDataSlab` of an external collision group (anySize, collisionGroup, never a root, never inlined) -/
def mei_cGroupSlab {α X : Type} (s : GroupSlab α) : MapDataSlab α X :=
  { next := SlabID.undef, header := mei_cHdr s.hdr, elements := s.elems, extraData := none,
    anySize := true, collisionGroup := true, inlined := false }

/-- result of a `Get` in state `c` (reads do not change the state) -/
def mei_rGet (c : Ctx) : Except MErr (MKey × Elem) → Option SV × Option SV × Option GE × Ctx
  | .ok (k, v) => (some (.key k), some (.val v), none, c)
  | .error err => (none, none, some err, c)

/-- result of `elements.Set` on `g` in state `c` (the receiver's new state is part of the result) -/
def mei_rGSet {α : Type} (g : α) (c : Ctx) :
    Except MErr (MKey × Option Elem × α × Ctx) → Option SV × Option SV × Option GE × α × Ctx
  | .ok (ks, old, g', c') => (some (.key ks), old.map .val, none, g', c')
  | .error err => (none, none, some err, g, c)

/-- result of `elements.Remove` on `g` in state `c` -/
def mei_rGRemove {α : Type} (g : α) (c : Ctx) :
    Except MErr (MKey × Elem × α × Ctx) → Option SV × Option SV × Option GE × α × Ctx
  | .ok (rk, rv, g', c') => (some (.key rk), some (.val rv), none, g', c')
  | .error err => (none, none, some err, g, c)

/-- the element a `Remove` hands back: Go's nil = "the element is gone" -/
def mei_cOptEl {α : Type} : Option (MElemF α) → element α SV
  | none => .nil
  | some el => mei_cEl el

/-- What the theorems assume of the parameters of the generated code for ONE map operation (key `k`, value `v`, the
    operations `o` of the nested `elements`, storage state = the model's `Ctx`). -/
structure EnvB {α X : Type} (o : ElemsOps α) (cfg : MCfg) (k : MKey) (v : Elem)
    (env : Env α SV SW X MKey Unit Ctx GE) : Prop where
  /-- `digester.Levels()` -/
  levels : ∀ d, env.Digester_Levels d = u64 cfg.L
  /-- `digester.Digest(level)`: the digester of a key is the key with its digests -/
  dig : ∀ (d : MKey) lvl, lvl < 2^64 → env.Digester_Digest d (u64 lvl) = (u64 (d.dig lvl), none)
  /-- `b.Digest(hip, kv)`: the digester of the stored value of a key storable -/
  builder : ∀ b k', env.DigesterBuilder_Digest b (.key k') = (k', none)
  stored : ∀ k' c, env.Storable_StoredValue (.key k') c = (.key k', none, c)
  /-- the caller's comparator on (key argument, stored key): the model's `MKey.same`, no error, storage unchanged -/
  cmp : ∀ c k', env.ValueComparator c (.key k) (some (.key k')) = (k'.same k, none, c)
  keySize : ∀ k', env.Storable_ByteSize (.key k') = u32 k'.size
  valSize : ∀ v', env.Storable_ByteSize (.val v') = u32 v'.size
  maxInline : ∀ n, n < 2^32 → env.maxInlineMapValueSize (u32 n) = u32 (maxInlineMapValue cfg.T n)
  storable : ∀ c lim, env.Value_Storable (.val v) c cfg.addr lim =
    (some (.val (toStorableLim lim.toNat cfg.addr v c).1), none, (toStorableLim lim.toNat cfg.addr v c).2)
  maxElem : env.maxInlineMapElementSize = u32 (maxInlineMapElem cfg.T)
  sidSize : env.SlabIDStorable_ByteSize = u32 slabIDStorableSize
  -- the nested `elements` (open interface, G := α): the model's operations
  gSize : ∀ g, env.elements_Size g = u32 (o.size g)
  gCount : ∀ g, env.elements_Count g = u32 (o.count g)
  gFirst : ∀ g, env.elements_firstKey g = u64 (o.firstKey g)
  gGet : ∀ g c lvl, lvl < 2^64 →
    env.elements_Get g c k (u64 lvl) (u64 (k.dig lvl)) (.key k) = mei_rGet c (o.get cfg g lvl k)
  gSet : ∀ g c lvl b, lvl < 2^64 →
    env.elements_Set g c cfg.addr b k (u64 lvl) (u64 (k.dig lvl)) (.key k) (.val v) = mei_rGSet g c (o.set cfg g lvl k v c)
  gRemove : ∀ g c lvl, lvl < 2^64 →
    env.elements_Remove g c k (u64 lvl) (u64 (k.dig lvl)) (.key k) = mei_rGRemove g c (o.remove cfg g lvl k c)
  /-- `Count() == 1` and `Element(0)`: the model's `soleSingle` -/
  gSole : ∀ g, (o.count g = 1 → ∃ el, env.elements_Element g 0 = (mei_cEl el, none) ∧
                  o.soleSingle g = (match el with | .single x => some x | _ => none)) ∧
               (o.count g ≠ 1 → o.soleSingle g = none)
  /-- a fresh group holding the resident element one level deeper: `newSingleElementsWithElement` at the last level,
      `newHkeyElementsWithElement` (with the resident key's digest at that level) otherwise -/
  newWith : ∀ lvl x g, lvl < 2^64 → x.size < 2^32 → o.newWith cfg lvl x = .ok g →
    (if lvl = cfg.L then env.newSingleElementsWithElement (u64 lvl) (mei_cE x) = g
     else env.newHkeyElementsWithElement (u64 lvl) (u64 (x.key.dig lvl)) (.single (mei_cE x)) = g)
  -- the slab storage as the model sees it (allocation counter + effect log; no storage failures)
  gen : ∀ c a, env.SlabStorage_GenerateSlabID c a = ((c.alloc a).1, none, (c.alloc a).2)
  store : ∀ c id slab, env.SlabStorage_Store c id slab = (none, c.emit (.store id))
  remove : ∀ c id, env.SlabStorage_Remove c id = (none, c.emit (.remove id))
  wrapNone : env.wrapErrorfAsExternalErrorIfNeeded none = none
  eHashLevel : env.NewHashLevelErrorf = some .hashLevel
  eKeyNotFound : env.NewKeyNotFoundError = some .keyNotFound
  eSlabNotFound : env.NewSlabNotFoundErrorf = some .slabNotFound

/-- result of `element.Set` / `inlineCollisionGroup.Set` ... in state `c`: the new element, key storable, old value -/
def mei_rESet {α : Type} (c : Ctx) :
    Except MErr (MElemF α × MKey × Option Elem × Ctx) → element α SV × Option SV × Option SV × Option GE × Ctx
  | .ok (el, ks, old, c') => (mei_cEl el, some (.key ks), old.map .val, none, c')
  | .error err => (.nil, none, none, some err, c)

/-- result of `element.Remove` ... in state `c` -/
def mei_rERemove {α : Type} (c : Ctx) :
    Except MErr (MKey × Elem × Option (MElemF α) × Ctx) → Option SV × Option SV × element α SV × Option GE × Ctx
  | .ok (rk, rv, el, c') => (some (.key rk), some (.val rv), mei_cOptEl el, none, c')
  | .error err => (none, none, .nil, some err, c)

end Atree.TransEq
