import AtreeProofs.Trans.Slabs
import AtreeProofs.HeapSpec
/-
  Set-up for `Props/TransDescent*.lean` (WP12): the DESCENT of the generated array code - `ArrayMetaDataSlab.Get / Set /
  Insert / Remove / PopIterate` and `Array.Get / set / Insert / Append / remove` of `Gen/TransSlabs.lean` - runs over a
  HEAP of slabs: an index slab does not embed its children, it reads them from the storage (`getArraySlab`) and writes
  them back (`storeSlab`).  The model works on EMBEDDED trees (`ATree d`).  This file instantiates the parameters of the
  generated functions with a storage that IS a heap, and defines what it means for a heap to hold a model tree.

  * `HSt`: the storage = the stored array slabs by identifier (VALUES: `Store` snapshots the slab it is handed, a later
    `getArraySlab` returns that snapshot; a slab that is mutated and not stored again is therefore NOT seen by later
    reads - stricter than Go's pointer sharing, and what persistence needs) + the model's `Ctx` (allocation counter,
    effect log).
  * `envH T`: as `envA` (Trans/Slabs.lean) with `getArraySlab` = lookup in the CURRENT heap, `Store` / `Remove` = update
    of the heap + the effect, `GenerateSlabID` / `Value.Storable` on the `Ctx` component (the slab of an oversized value
    is not an array slab: it is recorded in `Ctx.created` as in the model).  The nesting machinery of `Array`
    (`setCallbackWithChild`, `notifyParentIfNeeded`, `incrementIndexFrom`, `decrementIndexFrom`) is the identity: a
    stand-alone array without tracked children.  `childSlabIndexInfo` is the translation of the stateless engine.
  * `heapOf d t`: the heap a model tree occupies - the generated record of every slab of `ATree.slabs d t`
    (HeapSpec.lean) under its identifier (`heapOf_eq_slabs`).
  * `Holds h d t`: the heap `h` holds the tree (recursive form); `HeapPost`: the heap after an operation holds the new
    tree, the slabs that left the tree are gone, everything else is untouched.
  Core Lean only.
-/
namespace Atree.TransEq
open Atree Atree.Gen

/-- the storage of the heap-based translation -/
structure HSt where
  heap : SlabID → Option GSlab
  ctx : Ctx

abbrev HEnv := TransSl.Env Elem Elem Unit AErr HSt (List (Option Elem))
abbrev HArray := TransSl.Array Elem Unit HSt

namespace HSt
/-- `Store(id, slab)` -/
def store (s : HSt) (id : SlabID) (v : Option GSlab) : HSt :=
  ⟨fun i => if i = id then v else s.heap i, s.ctx.emit (.store id)⟩
/-- `Remove(id)` -/
def remove (s : HSt) (id : SlabID) : HSt :=
  ⟨fun i => if i = id then none else s.heap i, s.ctx.emit (.remove id)⟩
/-- the same heap with another `Ctx` (allocation, externalised values) -/
def withCtx (s : HSt) (c : Ctx) : HSt := ⟨s.heap, c⟩

@[simp] theorem store_heap (s : HSt) (id : SlabID) (v : Option GSlab) (i : SlabID) :
    (s.store id v).heap i = if i = id then v else s.heap i := rfl
@[simp] theorem store_ctx (s : HSt) (id : SlabID) (v : Option GSlab) : (s.store id v).ctx = s.ctx.emit (.store id) := rfl
@[simp] theorem remove_heap (s : HSt) (id : SlabID) (i : SlabID) :
    (s.remove id).heap i = if i = id then none else s.heap i := rfl
@[simp] theorem remove_ctx (s : HSt) (id : SlabID) : (s.remove id).ctx = s.ctx.emit (.remove id) := rfl
@[simp] theorem withCtx_heap (s : HSt) (c : Ctx) : (s.withCtx c).heap = s.heap := rfl
@[simp] theorem withCtx_ctx (s : HSt) (c : Ctx) : (s.withCtx c).ctx = c := rfl
@[simp] theorem withCtx_self (s : HSt) : s.withCtx s.ctx = s := rfl
@[simp] theorem withCtx_withCtx (s : HSt) (a b : Ctx) : (s.withCtx a).withCtx b = s.withCtx b := rfl
end HSt

/-- a model array handle over a heap storage as the generated `Array` record (as `trArr` of Props/TransSlabsRoot.lean,
    with the heap storage) -/
def trArrH (a : Arr) (s : HSt) : HArray := { Storage := s, root := some (trTree a.d a.root) }

@[simp] theorem trArrH_Storage (a : Arr) (s : HSt) : (trArrH a s).Storage = s := rfl
@[simp] theorem trArrH_root (a : Arr) (s : HSt) : (trArrH a s).root = some (trTree a.d a.root) := rfl

/-- the parameters of the generated functions over a heap -/
def envH (T : Nat) : HEnv where
  ArrayMetaDataSlab_childSlabIndexInfo := childInfoOf (some .indexOutOfBounds)
  Array_notifyParentIfNeeded a := (none, a)
  Array_setCallbackWithChild a _ _ _ := a
  Array_incrementIndexFrom a _ := (none, a)
  Array_decrementIndexFrom a _ := (none, a)
  NewArrayElementCannotExceedMaxElementCountError _ := some .maxElementCount
  Storable_StoredValue e s := (some e, none, s)
  ArrayPopIterationFunc_call acc e := acc ++ [e]
  NewIndexOutOfBoundsError _ _ _ := some .indexOutOfBounds
  NewSlabSplitErrorf := some .slabSplit
  SlabStorage_GenerateSlabID s addr := ((s.ctx.alloc addr).1, none, s.withCtx (s.ctx.alloc addr).2)
  SlabStorage_Remove s id := (none, s.remove id)
  SlabStorage_Store s id v := (none, s.store id v)
  Storable_ByteSize e := u32 e.size
  Value_Storable v s addr mx :=
    (some (toStorableMax mx.toNat addr v s.ctx).1, none, s.withCtx (toStorableMax mx.toNat addr v s.ctx).2)
  getArraySlab s id := match s.heap id with
    | some v => (some v, none, s)
    | none => (none, some .slabNotFound, s)
  maxInlineArrayElementSize := u32 (maxInlineArr T)
  maxThreshold := u32 (maxThr T)
  minThreshold := u32 (minThr T)
  wrapErrorfAsExternalErrorIfNeeded e := e

section envFields
variable (T : Nat)
@[simp] theorem envH_childInfo (a : GMeta) (i : UInt64) :
    (envH T).ArrayMetaDataSlab_childSlabIndexInfo a i = childInfoOf (some .indexOutOfBounds) a i := rfl
@[simp] theorem envH_notify (a : HArray) : (envH T).Array_notifyParentIfNeeded a = (none, a) := rfl
@[simp] theorem envH_setCallback (a : HArray) (i : UInt64) (v : Option Elem) (mx : UInt32) :
    (envH T).Array_setCallbackWithChild a i v mx = a := rfl
@[simp] theorem envH_incr (a : HArray) (i : UInt64) : (envH T).Array_incrementIndexFrom a i = (none, a) := rfl
@[simp] theorem envH_decr (a : HArray) (i : UInt64) : (envH T).Array_decrementIndexFrom a i = (none, a) := rfl
@[simp] theorem envH_maxCount (n : UInt64) :
    (envH T).NewArrayElementCannotExceedMaxElementCountError n = some .maxElementCount := rfl
@[simp] theorem envH_storedValue (e : Elem) (s : HSt) : (envH T).Storable_StoredValue e s = (some e, none, s) := rfl
@[simp] theorem envH_call (acc : List (Option Elem)) (e : Option Elem) :
    (envH T).ArrayPopIterationFunc_call acc e = acc ++ [e] := rfl
@[simp] theorem envH_ioob (a b c : UInt64) : (envH T).NewIndexOutOfBoundsError a b c = some .indexOutOfBounds := rfl
@[simp] theorem envH_split : (envH T).NewSlabSplitErrorf = some .slabSplit := rfl
@[simp] theorem envH_gen (s : HSt) (addr : Nat) :
    (envH T).SlabStorage_GenerateSlabID s addr = ((s.ctx.alloc addr).1, none, s.withCtx (s.ctx.alloc addr).2) := rfl
@[simp] theorem envH_remove (s : HSt) (id : SlabID) : (envH T).SlabStorage_Remove s id = (none, s.remove id) := rfl
@[simp] theorem envH_store (s : HSt) (id : SlabID) (v : Option GSlab) :
    (envH T).SlabStorage_Store s id v = (none, s.store id v) := rfl
@[simp] theorem envH_byteSize (e : Elem) : (envH T).Storable_ByteSize e = u32 e.size := rfl
@[simp] theorem envH_storable (v : Elem) (s : HSt) (addr : Nat) (mx : UInt32) :
    (envH T).Value_Storable v s addr mx =
      (some (toStorableMax mx.toNat addr v s.ctx).1, none, s.withCtx (toStorableMax mx.toNat addr v s.ctx).2) := rfl
@[simp] theorem envH_getArraySlab (s : HSt) (id : SlabID) :
    (envH T).getArraySlab s id = match s.heap id with
      | some v => (some v, none, s)
      | none => (none, some .slabNotFound, s) := rfl
@[simp] theorem envH_maxInline : (envH T).maxInlineArrayElementSize = u32 (maxInlineArr T) := rfl
@[simp] theorem envH_maxThreshold : (envH T).maxThreshold = u32 (maxThr T) := rfl
@[simp] theorem envH_minThreshold : (envH T).minThreshold = u32 (minThr T) := rfl
@[simp] theorem envH_wrap (e : Option AErr) : (envH T).wrapErrorfAsExternalErrorIfNeeded e = e := rfl
end envFields

/-- `getArraySlab` finds a stored slab -/
theorem getArraySlab_envH_some (T : Nat) (s : HSt) (id : SlabID) (v : GSlab) (h : s.heap id = some v) :
    (envH T).getArraySlab s id = (some v, none, s) := by
  simp [h]

/-- `getArraySlab` of an identifier that is not stored: `SlabNotFoundError` -/
theorem getArraySlab_envH_none (T : Nat) (s : HSt) (id : SlabID) (h : s.heap id = none) :
    (envH T).getArraySlab s id = (none, some .slabNotFound, s) := by
  simp [h]

/-- `storeSlab(storage, slab)` on a heap: the slab is stored under its own identifier, one `store` effect, no error -/
theorem storeSlab_envH (T : Nat) (s : HSt) (v : GSlab) :
    TransSl.storeSlab (envH T) s (some v) =
      some (none, s.store (TransSl.ArraySlab_SlabID (envH T) v) (some v)) := by
  simp [TransSl.storeSlab]

theorem slabID_trTree_envH (T : Nat) (d : Nat) (t : ATree d) :
    TransSl.ArraySlab_SlabID (envH T) (trTree d t) = (ATree.hdr d t).id := by
  cases d <;> rfl

theorem storeSlab_envH_tree (T : Nat) (s : HSt) (d : Nat) (t : ATree d) :
    TransSl.storeSlab (envH T) s (some (trTree d t)) = some (none, s.store (ATree.hdr d t).id (some (trTree d t))) := by
  rw [storeSlab_envH, slabID_trTree_envH]

/-! ### the heap of a model tree -/

/-- a stored slab of HeapSpec.lean as the generated record -/
def trASlab : ASlab → GSlab
  | .data s => .dataSlab (trData s)
  | .index hdr childHdrs countSum root =>
    .metaSlab { header := trHdr hdr, childrenHeaders := childHdrs.map trHdr, childrenCountSum := countSum.map u32,
                extraData := trExtra root }

/-- the heap a model tree occupies: every slab of the tree (root included) under its identifier, nothing else -/
def heapOf : (d : Nat) → ATree d → SlabID → Option GSlab
  | 0, (s : DataSlab), id => if id = s.hdr.id then some (.dataSlab (trData s)) else none
  | d + 1, (m : MetaSlab (ATree d)), id =>
    if id = m.hdr.id then some (.metaSlab (trMeta m)) else m.children.findSome? (fun c => heapOf d c id)

/-- the heap `h` holds the tree `t`: every slab of `t`, root included, is stored under its identifier as the generated
    record of that slab -/
def Holds (h : SlabID → Option GSlab) : (d : Nat) → ATree d → Prop
  | 0, (s : DataSlab) => h s.hdr.id = some (.dataSlab (trData s))
  | d + 1, (m : MetaSlab (ATree d)) => h m.hdr.id = some (.metaSlab (trMeta m)) ∧ ∀ c ∈ m.children, Holds h d c

/-- the children of an index slab are held (what the receiver of a generated index-slab method needs: the receiver
    itself is passed by value) -/
def HoldsChildren (h : SlabID → Option GSlab) {d : Nat} (m : MetaSlab (ATree d)) : Prop :=
  ∀ c ∈ m.children, Holds h d c

theorem Holds.root {h : SlabID → Option GSlab} {d : Nat} {t : ATree d} (hh : Holds h d t) :
    h (ATree.hdr d t).id = some (trTree d t) := by
  cases d with
  | zero => exact hh
  | succ d => exact hh.1

theorem Holds.children {h : SlabID → Option GSlab} {d : Nat} {m : MetaSlab (ATree d)} (hh : Holds h (d + 1) m) :
    HoldsChildren h m := hh.2

/-- `Holds` only looks at the identifiers of the tree -/
theorem Holds.congr {h h' : SlabID → Option GSlab} {d : Nat} {t : ATree d} (hh : Holds h d t)
    (heq : ∀ id ∈ ATree.slabIds d t, h' id = h id) : Holds h' d t := by
  induction d with
  | zero =>
    have : h' (t : DataSlab).hdr.id = h (t : DataSlab).hdr.id :=
      heq _ (by show (t : DataSlab).hdr.id ∈ [(t : DataSlab).hdr.id]; exact List.mem_singleton.2 rfl)
    exact this.trans hh
  | succ d ih =>
    obtain ⟨h1, h2⟩ := hh
    have hroot : (t : MetaSlab (ATree d)).hdr.id ∈ ATree.slabIds (d + 1) t := by
      show _ ∈ (t : MetaSlab (ATree d)).hdr.id :: _
      exact List.mem_cons_self
    refine ⟨(heq _ hroot).trans h1, fun c hc => ih (h2 c hc) (fun id hid => heq id ?_)⟩
    show id ∈ (t : MetaSlab (ATree d)).hdr.id :: (t : MetaSlab (ATree d)).children.flatMap (ATree.slabIds d)
    exact List.mem_cons_of_mem _ (List.mem_flatMap.2 ⟨c, hc, hid⟩)

/-- the heap after an operation that turns the tree `t` into `t'`: it holds `t'`, the slabs that left the tree are gone,
    every other identifier is untouched -/
structure HeapPost (h h' : SlabID → Option GSlab) {d d' : Nat} (t : ATree d) (t' : ATree d') : Prop where
  holds : Holds h' d' t'
  gone : ∀ id ∈ ATree.slabIds d t, id ∉ ATree.slabIds d' t' → h' id = none
  frame : ∀ id, id ∉ ATree.slabIds d t → id ∉ ATree.slabIds d' t' → h' id = h id

end Atree.TransEq
