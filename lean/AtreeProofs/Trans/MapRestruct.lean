import AtreeProofs.Trans.MapDescent
import AtreeProofs.Trans.MapSlabs
/-
  Set-up for `Props/TransMapRestruct*.lean` (WP13, step 3): the restructuring calls of the map descent -
  `MapMetaDataSlab.SplitChildSlab`, `MergeOrRebalanceChildSlab`, `OrderedMap.splitRoot`, `promoteChildAsNewRoot` - are
  PARAMETERS of the descent unit (`Gen/TransMapDescent.lean`, record `DRestruct`); they are translated by the unit of
  `Gen/TransMapSlabs.lean` (namespace `Atree.Gen.TransMap`, WP10).  This file instantiates the parameters with THAT
  generated code, run over the heap of the descent:

  * the two units have structurally identical records in different namespaces; the only real difference is the `elements`
    of a data slab: the descent carries the MODEL's `HkeyElems (MElems r)` (as the element layer does), the restructuring
    unit the generated `hkeyElements` record (`cH`: digests / size / level as machine integers).  `mr_toM` / `mr_fromM`
    convert a stored slab between the two (field by field; `mr_dH` = inverse of `cH`, exact on `uint` ranges:
    `mr_dH_cH`).
  * `envMH T`: the parameters of the restructuring unit over the heap `MHSt r` of the descent: `Store` converts the slab it is
    handed with `mr_fromM` and stores it, `Retrieve` converts what it finds with `mr_toM`; `GenerateSlabID` / `Remove` as in
    `envD`; element sizes, thresholds, error classes as in WP10's `envMap`; the two lend decisions
    (`MapSlab.CanLendToLeft / Right`: translated by the integer engine, `Gen/Trans.lean`) are the model's on the decoded slab.
  * `rsOf T`: the record `DRestruct r` built from the four GENERATED functions (a run-time panic `none` of the generated
    code is mapped to the error value `goPanic` with nothing changed; the theorems show `some`).
  Core Lean only.  Helper names carry the prefix `mr_`.
-/
namespace Atree.TransEq
open Atree

abbrev ME (r : Nat) := MElemF (MElems r)
abbrev MSlabM (r : Nat) := Gen.TransMap.MapSlab (ME r) SV DX
abbrev MEnvM (r : Nat) := Gen.TransMap.Env (ME r) SV SW DX (MHSt r) GE

/-- inverse of `cH` (exact when size `< 2^32`, digests and level `< 2^64`) -/
def mr_dH {α : Type} (e : Gen.TransMap.hkeyElements (MElemF α)) : HkeyElems α :=
  { hkeys := e.hkeys.map (·.toNat), elems := e.elems, size := e.size.toNat, level := e.level.toNat }

/-- the `uint` ranges on which `cH` is injective -/
structure mr_HFit {α : Type} (e : HkeyElems α) : Prop where
  size : e.size < 2^32
  level : e.level < 2^64
  dig : ∀ h ∈ e.hkeys, h < 2^64

theorem mr_toNat_u64s (l : List Nat) (h : ∀ x ∈ l, x < 2^64) : (u64s l).map (·.toNat) = l := by
  induction l with
  | nil => rfl
  | cons a l ih =>
    have h1 := ih (fun x hx => h x (List.mem_cons_of_mem _ hx))
    simp only [u64s, List.map_cons, List.map_map] at h1 ⊢
    rw [u64_toNat (h a List.mem_cons_self), h1]

theorem mr_dH_cH {α : Type} (e : HkeyElems α) (h : mr_HFit e) : mr_dH (cH e) = e := by
  obtain ⟨hkeys, elems, size, level⟩ := e
  simp only [mr_dH, cH, mr_toNat_u64s hkeys h.dig, u32_toNat h.size, u64_toNat h.level]

/-- `MapSlabHeader` of the restructuring unit -> of the descent unit, and back (field by field) -/
def mr_hdrD (h : Gen.TransMap.MapSlabHeader) : Gen.TransMapD.MapSlabHeader :=
  { slabID := h.slabID, size := h.size, firstKey := h.firstKey }
def mr_hdrM (h : Gen.TransMapD.MapSlabHeader) : Gen.TransMap.MapSlabHeader :=
  { slabID := h.slabID, size := h.size, firstKey := h.firstKey }

@[simp] theorem mr_hdrD_hdrM (h : Gen.TransMapD.MapSlabHeader) : mr_hdrD (mr_hdrM h) = h := rfl
@[simp] theorem mr_hdrM_hdrD (h : Gen.TransMap.MapSlabHeader) : mr_hdrM (mr_hdrD h) = h := rfl
@[simp] theorem mr_hdrD_cHdr (h : MHdr) : mr_hdrD (cHdr h) = md_hdr h := rfl
@[simp] theorem mr_hdrM_md_hdr (h : MHdr) : mr_hdrM (md_hdr h) = cHdr h := rfl

def mr_metaD (m : Gen.TransMap.MapMetaDataSlab DX) : Gen.TransMapD.MapMetaDataSlab DX :=
  { header := mr_hdrD m.header, childrenHeaders := m.childrenHeaders.map mr_hdrD, extraData := m.extraData }
def mr_metaM (m : Gen.TransMapD.MapMetaDataSlab DX) : Gen.TransMap.MapMetaDataSlab DX :=
  { header := mr_hdrM m.header, childrenHeaders := m.childrenHeaders.map mr_hdrM, extraData := m.extraData }

theorem mr_metaD_metaM (m : Gen.TransMapD.MapMetaDataSlab DX) : mr_metaD (mr_metaM m) = m := by
  obtain ⟨h, ch, x⟩ := m
  simp [mr_metaD, mr_metaM, List.map_map, Function.comp_def]

theorem mr_metaD_cMeta {α : Type} (m : MMetaSlab α) (x : Option DX) : mr_metaD (cMeta m x) = md_meta m x := by
  simp [mr_metaD, cMeta, md_meta, List.map_map, Function.comp_def]

theorem mr_metaM_md_meta {α : Type} (m : MMetaSlab α) (x : Option DX) : mr_metaM (md_meta m x) = cMeta m x := by
  simp [mr_metaM, cMeta, md_meta, List.map_map, Function.comp_def]

/-- a data slab of the descent (model elements) as a data slab of the restructuring unit (generated `hkeyElements`) -/
def mr_dataM {r : Nat} (d : Gen.TransMapD.MapDataSlab (DG r) DX) : Gen.TransMap.MapDataSlab (ME r) SV DX :=
  { next := d.next, header := mr_hdrM d.header, elements := .hkey (cH d.elements), extraData := d.extraData,
    anySize := d.anySize, collisionGroup := d.collisionGroup, inlined := d.inlined }

/-- back; the `elements` of a data slab of the tree are always an `hkeyElements` (a `singleElements` / nil value decodes to
    the empty table: never produced by the restructuring code on slabs of the tree) -/
def mr_dataD {r : Nat} (d : Gen.TransMap.MapDataSlab (ME r) SV DX) : Gen.TransMapD.MapDataSlab (DG r) DX :=
  { next := d.next, header := mr_hdrD d.header,
    elements := (match d.elements with
      | .hkey e => mr_dH e
      | _ => { hkeys := [], elems := [], size := 0, level := 0 }),
    extraData := d.extraData, anySize := d.anySize, collisionGroup := d.collisionGroup, inlined := d.inlined }

def mr_toM {r : Nat} : DSlab r → MSlabM r
  | .nil => .nil
  | .dataSlab d => .dataSlab (mr_dataM d)
  | .metaSlab m => .metaSlab (mr_metaM m)

def mr_fromM {r : Nat} : MSlabM r → DSlab r
  | .nil => .nil
  | .dataSlab d => .dataSlab (mr_dataD d)
  | .metaSlab m => .metaSlab (mr_metaD m)

/-- the translations of the two units agree on every model slab: WP10's `cData` / `cMeta` / `cTree` are `mr_toM` of the
    descent's `md_data` / `md_meta` / `md_tree` -/
theorem mr_toM_data {r : Nat} (s : MDataSlab r) (x : Option DX) :
    mr_toM (.dataSlab (md_data s x) : DSlab r) = .dataSlab (cData s x) := rfl

theorem mr_toM_meta {r : Nat} {α : Type} (m : MMetaSlab α) (x : Option DX) :
    mr_toM (.metaSlab (md_meta m x) : DSlab r) = .metaSlab (cMeta m x) := by
  show Gen.TransMap.MapSlab.metaSlab (mr_metaM (md_meta m x)) = _
  rw [mr_metaM_md_meta]

theorem mr_toM_md_tree_none {r : Nat} (d : Nat) (t : MTree r d) : mr_toM (md_tree d t none) = cTree d t := by
  cases d with
  | zero => rfl
  | succ d => exact mr_toM_meta (t : MMetaSlab (MTree r d)) none

/-- `uint` ranges of the data slabs of a (sub)tree root: what the way back needs -/
def mr_RootFit {r : Nat} : (d : Nat) → MTree r d → Prop
  | 0, (s : MDataSlab r) => mr_HFit s.elems
  | _ + 1, _ => True

theorem mr_fromM_cData {r : Nat} (s : MDataSlab r) (x : Option DX) (h : mr_HFit s.elems) :
    mr_fromM (.dataSlab (cData s x)) = (.dataSlab (md_data s x) : DSlab r) := by
  simp only [mr_fromM, mr_dataD, cData, md_data, mr_dH_cH s.elems h, mr_hdrD_cHdr]

theorem mr_fromM_cMeta {r : Nat} {α : Type} (m : MMetaSlab α) (x : Option DX) :
    mr_fromM (.metaSlab (cMeta m x)) = (.metaSlab (md_meta m x) : DSlab r) := by
  simp only [mr_fromM, mr_metaD_cMeta]

/-- the way back is exact on the translation of a model slab whose data-slab fields are in range -/
theorem mr_fromM_cTree {r : Nat} (d : Nat) (t : MTree r d) (h : mr_RootFit d t) :
    mr_fromM (cTree d t) = md_tree d t none := by
  cases d with
  | zero => exact mr_fromM_cData (t : MDataSlab r) none h
  | succ d => exact mr_fromM_cMeta (t : MMetaSlab (MTree r d)) none

/-- the model slab a stored data slab of the restructuring unit stands for (for the two lend decisions) -/
def mr_modelData {r : Nat} (d : Gen.TransMap.MapDataSlab (ME r) SV DX) : MDataSlab r :=
  { hdr := { id := d.header.slabID, size := d.header.size.toNat, firstKey := d.header.firstKey.toNat },
    next := d.next, elems := (mr_dataD d).elements, root := d.extraData.isSome, inlined := d.inlined }

/-- `MapSlab.CanLendToLeft` (`back = false`) / `CanLendToRight` (`back = true`): the model's decisions on the decoded slab
    (the Go functions are translated by the integer engine: `TransEq.MapDataSlab_CanLendTo*_eq_model`,
    `MapMetaDataSlab_CanLendTo*_eq_model`) -/
def mr_canLend {r : Nat} (T : Nat) (back : Bool) : MSlabM r → UInt32 → Bool
  | .nil, _ => false
  | .dataSlab d, n => HkeyElems.canLend (MElems.ops r) T (mr_modelData d).elems n.toNat back
  | .metaSlab m, n =>
    MMetaSlab.canLend T ({ hdr := { id := m.header.slabID, size := m.header.size.toNat, firstKey := m.header.firstKey.toNat },
                           childHdrs := [], children := ([] : List Unit), root := false } : MMetaSlab Unit) n.toNat

/-- the parameters of the restructuring unit over the heap of the descent -/
def envMH {r : Nat} (T : Nat) : MEnvM r where
  Digester_Levels := u64 (r + 1)
  MapSlab_CanLendToLeft := mr_canLend T false
  MapSlab_CanLendToRight := mr_canLend T true
  NewHashLevelErrorf := some .hashLevel
  NewKeyNotFoundError := some .keyNotFound
  NewNotApplicableError := some .notApplicable
  NewSlabDataErrorf := some .goPanic
  NewSlabMergeError := some .slabMerge
  NewSlabNotFoundErrorf := some .slabNotFound
  NewSlabRebalanceError := some .slabRebalance
  NewSlabRebalanceErrorf := some .slabRebalance
  NewSlabSplitErrorf := some .slabSplit
  SlabStorage_GenerateSlabID := fun s a => ((s.ctx.alloc a).1, none, s.withCtx (s.ctx.alloc a).2)
  SlabStorage_Remove := fun s id => (none, s.remove id)
  SlabStorage_Retrieve := fun s id => match s.heap id with
    | some v => (mr_toM v, true, none, s)
    | none => (.nil, false, none, s)
  SlabStorage_Store := fun s id v => (none, s.store id (mr_fromM v))
  Storable_ByteSize := fun x => match x with | .key k => u32 k.size | .val v => u32 v.size
  ValueComparator := fun s _ _ => (false, none, s)
  Value_Storable := fun _ s _ _ => (none, none, s)
  element_Size := fun el => u32 (el.size (MElems.ops r))
  maxInlineMapValueSize := fun n => u32 (maxInlineMapValue T n.toNat)
  minThreshold := u32 (minThr T)
  newSingleElement := fun s _ _ _ => ({ key := none, value := none }, none, s)
  wrapErrorfAsExternalErrorIfNeeded := id

/-- the element sizes / thresholds / error classes of `envMH` are the model's (what WP10's storage-free theorems need) -/
theorem envMH_EnvH {r : Nat} (T : Nat) : EnvH (MElems.ops r) T (envMH (r := r) T) where
  size := fun _ => rfl
  minThr := rfl
  eMerge := rfl
  eRebalance := rfl
  eRebalancef := rfl
  eSplit := rfl
  eNotApplicable := rfl

section envMHFields
variable {r : Nat} (T : Nat)
@[simp] theorem envMH_gen (s : MHSt r) (a : Nat) :
    (envMH T).SlabStorage_GenerateSlabID s a = ((s.ctx.alloc a).1, none, s.withCtx (s.ctx.alloc a).2) := rfl
@[simp] theorem envMH_store (s : MHSt r) (id : SlabID) (v : MSlabM r) :
    (envMH T).SlabStorage_Store s id v = (none, s.store id (mr_fromM v)) := rfl
@[simp] theorem envMH_remove (s : MHSt r) (id : SlabID) : (envMH T).SlabStorage_Remove s id = (none, s.remove id) := rfl
@[simp] theorem envMH_retrieve (s : MHSt r) (id : SlabID) :
    (envMH T).SlabStorage_Retrieve s id = match s.heap id with
      | some v => (mr_toM v, true, none, s)
      | none => (.nil, false, none, s) := rfl
@[simp] theorem envMH_wrap (e : Option GE) : (envMH (r := r) T).wrapErrorfAsExternalErrorIfNeeded e = e := rfl
@[simp] theorem envMH_snf : (envMH (r := r) T).NewSlabNotFoundErrorf = some .slabNotFound := rfl
@[simp] theorem envMH_sde : (envMH (r := r) T).NewSlabDataErrorf = some .goPanic := rfl
@[simp] theorem envMH_canL : (envMH (r := r) T).MapSlab_CanLendToLeft = mr_canLend T false := rfl
@[simp] theorem envMH_canR : (envMH (r := r) T).MapSlab_CanLendToRight = mr_canLend T true := rfl
end envMHFields

/-- a map handle of the descent unit as a handle of the restructuring unit, and back -/
def mr_mapM {r : Nat} (m : DMap r) : Gen.TransMap.OrderedMap (ME r) SV DX (MHSt r) :=
  { Storage := m.Storage, root := mr_toM m.root }
def mr_mapD {r : Nat} (m : Gen.TransMap.OrderedMap (ME r) SV DX (MHSt r)) : DMap r :=
  { Storage := m.Storage, root := mr_fromM m.root, digesterBuilder := () }

/-- THE RESTRUCTURING RECORD OF THE DESCENT, built from the generated code of `Gen/TransMapSlabs.lean` over the heap -/
def rsOf {r : Nat} (T : Nat) : DRestruct r where
  splitChild := fun m s child i =>
    match Gen.TransMap.MapMetaDataSlab_SplitChildSlab (envMH T) (mr_metaM m) s (mr_toM child) i with
    | some q => (q.1, mr_metaD q.2.1, q.2.2.1, mr_fromM q.2.2.2)
    | none => (some .goPanic, m, s, child)
  mergeOrRebalance := fun m s child i u =>
    match Gen.TransMap.MapMetaDataSlab_MergeOrRebalanceChildSlab (envMH T) (mr_metaM m) s (mr_toM child) i u with
    | some q => (q.1, mr_metaD q.2.1, q.2.2.1, mr_fromM q.2.2.2)
    | none => (some .goPanic, m, s, child)
  splitRoot := fun m =>
    match Gen.TransMap.OrderedMap_splitRoot (envMH T) (mr_mapM m) with
    | some q => (q.1, mr_mapD q.2)
    | none => (some .goPanic, m)
  promote := fun m id =>
    match Gen.TransMap.OrderedMap_promoteChildAsNewRoot (envMH T) (mr_mapM m) id with
    | some q => (q.1, mr_mapD q.2)
    | none => (some .goPanic, m)

end Atree.TransEq
