import AtreeModel.Storage
import AtreeModel.Gen.TransStorage
import AtreeProofs.AListLemmas
/-
  Set-up for `Props/TransStorage.lean`: the instantiation of the parameters (`env`) of the generated
  storage functions (`Gen/TransStorage.lean`, regenerated from storage.go on every run) with the
  components of the hand-written model (`AtreeModel/Storage.lean`), and the translation between
  generated states and model states.  Core Lean only.

  * error values `GErr`: what the storage functions can return - an error built by a `New…Error`
    constructor, an uncategorised error of the caller's `BaseStorage`, the (already categorised) error of
    `EncodeSlab` / `DecodeSlab`, and `NewExternalError(e, msg)`; `wrapExt` is
    `wrapErrorfAsExternalErrorIfNeeded` (errors.go: nil stays nil, categorised errors pass, anything else
    is wrapped), `GErr.cls` the model's error class.
  * `MBase`: a `BaseStorage` = the model's ledger map and allocation counters, plus the position in the
    fault plan and the log of issued `Store` / `Remove` calls (the model keeps these two in `CommitRes`).
  * `Junk`: the values the Go signatures leave unspecified (the `[]byte` next to an error or to
    `found = false`, the `Slab` `DecodeSlab` returns next to an error, `EncodeSlab(nil)`); the theorems
    hold for EVERY choice, i.e. the translated functions never let them through.
-/
namespace Atree.TransEq
open Atree Atree.Gen.TransSt

inductive GErr where
  | ctor (name : String)
  | base (n : Nat)
  | codec (enc : Bool)
  | external (e : GErr)
deriving DecidableEq, Repr

def GErr.categorised : GErr → Bool
  | .base _ => false
  | _ => true

/-- `wrapErrorfAsExternalErrorIfNeeded(err, msg)` -/
def wrapExt : Option GErr → Option GErr
  | none => none
  | some e => if e.categorised then some e else some (.external e)

/-- the model's error class of a Go error value (`none`: an uncategorised error - never returned) -/
def GErr.cls : GErr → Option StErr
  | .ctor n => if n = "NewSlabIDError" then some .slabIDUndefined else none
  | .external _ => some .external
  | .codec true => some .encoding
  | .codec false => some .decoding
  | .base _ => none

/-- the Go error value of a model error that carries no payload -/
def GErr.ofSt : StErr → GErr
  | .slabIDUndefined => .ctor "NewSlabIDError"
  | .encoding => .codec true
  | .decoding => .codec false
  | .external => .external (.base 0)

theorem GErr.cls_ofSt (e : StErr) : (GErr.ofSt e).cls = some e := by
  cases e <;> simp [GErr.ofSt, GErr.cls]

variable {σ β : Type}

structure MBase (β : Type) where
  regs : AList SlabID β
  alloc : AList Nat Nat
  n : Nat
  log : List (St.BaseCall β)

structure Junk (σ β : Type) where
  data : β
  slab : SlabID → β → Option σ
  encNil : β × Option GErr

/-- the parameters of the generated functions, built from the model's codec, a fault plan for the
    `Store` / `Remove` calls, a `ByteSize` and the unspecified values -/
def envM (c : Codec σ β) (fault : Nat → Bool) (sz : σ → UInt32) (j : Junk σ β) :
    PersistentSlabStorage_Env σ β (MBase β) GErr where
  BaseStorage_GenerateSlabID b a :=
    let n := (AList.find? b.alloc a).getD 0 + 1
    ((⟨a, n⟩, none), { b with alloc := AList.insert b.alloc a n })
  BaseStorage_Remove b id :=
    if fault b.n then (some (.base b.n), { b with n := b.n + 1, log := b.log ++ [.remove id] })
    else (none, { b with regs := AList.erase b.regs id, n := b.n + 1, log := b.log ++ [.remove id] })
  BaseStorage_Store b id d :=
    if fault b.n then (some (.base b.n), { b with n := b.n + 1, log := b.log ++ [.store id d] })
    else (none, { b with regs := AList.insert b.regs id d, n := b.n + 1, log := b.log ++ [.store id d] })
  BaseStorage_Retrieve b id :=
    match AList.find? b.regs id with
    | some d => ((d, true, none), b)
    | none => ((j.data, false, none), b)
  DecodeSlab id d :=
    match c.dec id d with
    | some v => (some v, none)
    | none => (j.slab id d, some (.codec false))
  EncodeSlab
    | some v => (match c.enc v with
                 | some b => (b, none)
                 | none => (j.data, some (.codec true)))
    | none => j.encNil
  NewSlabIDError := some (.ctor "NewSlabIDError")
  Slab_ByteSize := sz
  wrapErrorfAsExternalErrorIfNeeded := wrapExt

abbrev GSt (σ β : Type) := PersistentSlabStorage σ (MBase β)

/-- the model state of a generated state -/
def abs (s : GSt σ β) : St σ β :=
  { deltas := s.deltas, cache := s.cache, base := s.baseStorage.regs,
    tempIx := s.tempSlabIndex.toNat, alloc := s.baseStorage.alloc }

/-- the generated state of a model state (with the fault-plan position and the call log) -/
def conc (m : St σ β) (n : Nat) (log : List (St.BaseCall β)) : GSt σ β :=
  { baseStorage := { regs := m.base, alloc := m.alloc, n := n, log := log },
    cache := m.cache, deltas := m.deltas, tempSlabIndex := UInt64.ofNat m.tempIx }

theorem conc_abs (s : GSt σ β) : conc (abs s) s.baseStorage.n s.baseStorage.log = s := by
  cases s with
  | mk b c d t => cases b; simp [conc, abs]

/-- the same with `abs` unfolded (simp normal form) -/
@[simp] theorem conc_abs' (s : GSt σ β) :
    conc { deltas := s.deltas, cache := s.cache, base := s.baseStorage.regs,
           tempIx := s.tempSlabIndex.toNat, alloc := s.baseStorage.alloc }
      s.baseStorage.n s.baseStorage.log = s := conc_abs s

theorem abs_conc (m : St σ β) (n : Nat) (log : List (St.BaseCall β)) (h : m.tempIx < 2 ^ 64) :
    abs (conc m n log) = m := by
  cases m
  simp only [abs, conc, St.mk.injEq, true_and, and_true]
  simp only [UInt64.toNat_ofNat']
  exact Nat.mod_eq_of_lt h

/-- the representation invariant of Go maps as association lists: distinct keys -/
def WF {B : Type} (s : PersistentSlabStorage σ B) : Prop :=
  (AList.keys s.deltas).Nodup ∧ (AList.keys s.cache).Nodup

end Atree.TransEq
