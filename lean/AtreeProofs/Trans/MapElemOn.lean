import AtreeProofs.Trans.MapElem
/-
  RELATIVISED version of `EnvB` (WP13, "tying the knot"): the nested `elements` methods `Get / Set / Remove` and the two
  group constructors of the environment of unit B (`Gen/TransMapElem.lean`) agree with the model's operations `o` only
  on the groups / levels / storage states that satisfy a guard (`Qg`, `Qs`, `Qr`; `Qn` for the resident element a new
  group is built from).  `EnvB` is the special case of the trivial guards (`EnvB.toOn`).  Core Lean only.
-/
namespace Atree.TransEq
open Atree Atree.Gen.TransElem

/-- `EnvB` with guarded `gGet / gSet / gRemove / newWith` (everything else as in `EnvB`) -/
structure EnvBOn {α X : Type} (o : ElemsOps α) (cfg : MCfg) (k : MKey) (v : Elem)
    (env : Env α SV SW X MKey Unit Ctx GE) (Qg Qs Qr : α → Nat → Ctx → Prop) (Qn : Nat → SElem → Prop) : Prop where
  levels : ∀ d, env.Digester_Levels d = u64 cfg.L
  dig : ∀ (d : MKey) lvl, lvl < 2^64 → env.Digester_Digest d (u64 lvl) = (u64 (d.dig lvl), none)
  builder : ∀ b k', env.DigesterBuilder_Digest b (.key k') = (k', none)
  stored : ∀ k' c, env.Storable_StoredValue (.key k') c = (.key k', none, c)
  cmp : ∀ c k', env.ValueComparator c (.key k) (some (.key k')) = (k'.same k, none, c)
  keySize : ∀ k', env.Storable_ByteSize (.key k') = u32 k'.size
  valSize : ∀ v', env.Storable_ByteSize (.val v') = u32 v'.size
  maxInline : ∀ n, n < 2^32 → env.maxInlineMapValueSize (u32 n) = u32 (maxInlineMapValue cfg.T n)
  storable : ∀ c lim, env.Value_Storable (.val v) c cfg.addr lim =
    (some (.val (toStorableLim lim.toNat cfg.addr v c).1), none, (toStorableLim lim.toNat cfg.addr v c).2)
  maxElem : env.maxInlineMapElementSize = u32 (maxInlineMapElem cfg.T)
  sidSize : env.SlabIDStorable_ByteSize = u32 slabIDStorableSize
  gSize : ∀ g, env.elements_Size g = u32 (o.size g)
  gCount : ∀ g, env.elements_Count g = u32 (o.count g)
  gFirst : ∀ g, env.elements_firstKey g = u64 (o.firstKey g)
  gGet : ∀ g c lvl, lvl < 2^64 → Qg g lvl c →
    env.elements_Get g c k (u64 lvl) (u64 (k.dig lvl)) (.key k) = mei_rGet c (o.get cfg g lvl k)
  gSet : ∀ g c lvl b, lvl < 2^64 → Qs g lvl c →
    env.elements_Set g c cfg.addr b k (u64 lvl) (u64 (k.dig lvl)) (.key k) (.val v) = mei_rGSet g c (o.set cfg g lvl k v c)
  gRemove : ∀ g c lvl, lvl < 2^64 → Qr g lvl c →
    env.elements_Remove g c k (u64 lvl) (u64 (k.dig lvl)) (.key k) = mei_rGRemove g c (o.remove cfg g lvl k c)
  gSole : ∀ g, (o.count g = 1 → ∃ el, env.elements_Element g 0 = (mei_cEl el, none) ∧
                  o.soleSingle g = (match el with | .single x => some x | _ => none)) ∧
               (o.count g ≠ 1 → o.soleSingle g = none)
  newWith : ∀ lvl x g, lvl < 2^64 → x.size < 2^32 → Qn lvl x → o.newWith cfg lvl x = .ok g →
    (if lvl = cfg.L then env.newSingleElementsWithElement (u64 lvl) (mei_cE x) = g
     else env.newHkeyElementsWithElement (u64 lvl) (u64 (x.key.dig lvl)) (.single (mei_cE x)) = g)
  gen : ∀ c a, env.SlabStorage_GenerateSlabID c a = ((c.alloc a).1, none, (c.alloc a).2)
  store : ∀ c id slab, env.SlabStorage_Store c id slab = (none, c.emit (.store id))
  remove : ∀ c id, env.SlabStorage_Remove c id = (none, c.emit (.remove id))
  wrapNone : env.wrapErrorfAsExternalErrorIfNeeded none = none
  eHashLevel : env.NewHashLevelErrorf = some .hashLevel
  eKeyNotFound : env.NewKeyNotFoundError = some .keyNotFound
  eSlabNotFound : env.NewSlabNotFoundErrorf = some .slabNotFound

/-- the trivial guards -/
def mei_QTrue {α : Type} : α → Nat → Ctx → Prop := fun _ _ _ => True
def mei_QnTrue : Nat → SElem → Prop := fun _ _ => True

theorem EnvB.toOn {α X : Type} {o : ElemsOps α} {cfg : MCfg} {k : MKey} {v : Elem}
    {env : Env α SV SW X MKey Unit Ctx GE} (h : EnvB o cfg k v env) :
    EnvBOn o cfg k v env mei_QTrue mei_QTrue mei_QTrue mei_QnTrue where
  levels := h.levels
  dig := h.dig
  builder := h.builder
  stored := h.stored
  cmp := h.cmp
  keySize := h.keySize
  valSize := h.valSize
  maxInline := h.maxInline
  storable := h.storable
  maxElem := h.maxElem
  sidSize := h.sidSize
  gSize := h.gSize
  gCount := h.gCount
  gFirst := h.gFirst
  gGet := fun g c lvl hl _ => h.gGet g c lvl hl
  gSet := fun g c lvl b hl _ => h.gSet g c lvl b hl
  gRemove := fun g c lvl hl _ => h.gRemove g c lvl hl
  gSole := h.gSole
  newWith := fun lvl x g hl hx _ hg => h.newWith lvl x g hl hx hg
  gen := h.gen
  store := h.store
  remove := h.remove
  wrapNone := h.wrapNone
  eHashLevel := h.eHashLevel
  eKeyNotFound := h.eKeyNotFound
  eSlabNotFound := h.eSlabNotFound

end Atree.TransEq
