import AtreeProofs.Trans.Basic
import AtreeModel.Array.Slab
import AtreeModel.Map.Tree
/-
  Loop lemmas: each translated Go loop (`Gen.Trans.<f>.loopN`, machine integers) computes what the model's
  structurally recursive loop computes, as long as nothing wraps around.  The `Nat` loops of `Map/Elems.lean`
  (`HkeyElems.canLendLoop/splitLoop/lendLoop/borrowLoop`, over a list of sizes) are the common reference;
  the array model's loops over `List Elem` are these loops on the element sizes.
-/
namespace Atree.TransEq
open Atree Atree.Gen.Trans

/-! ### the array model's loops are the `Nat` loops on the element sizes -/

def sizesOf (l : List Elem) : List Nat := l.map (·.size)

theorem sumSizes_eq (l : List Elem) : sumSizes l = (sizesOf l).sum := rfl

theorem arr_canLendLoop_eq (T h w : Nat) (l : List Elem) (lend : Nat) :
    DataSlab.canLendLoop T h w l lend = HkeyElems.canLendLoop (minThr T) h w (sizesOf l) lend := by
  induction l generalizing lend with
  | nil => rfl
  | cons e t ih => simp only [DataSlab.canLendLoop, HkeyElems.canLendLoop, sizesOf, List.map_cons]; rw [ih]; rfl

theorem arr_splitLoop_eq (mid data : Nat) (l : List Elem) (i ls : Nat) :
    DataSlab.splitLoop mid data l i ls = HkeyElems.splitLoop mid data (sizesOf l) i ls := by
  induction l generalizing i ls with
  | nil => rfl
  | cons e t ih => simp only [DataSlab.splitLoop, HkeyElems.splitLoop, sizesOf, List.map_cons]; rw [ih]; rfl

theorem arr_lendLoop_eq (T size mid : Nat) (l : List Elem) (lc ls : Nat) :
    DataSlab.lendLoop T size mid l lc ls = HkeyElems.lendLoop (minThr T) size mid (sizesOf l) lc ls := by
  induction l generalizing lc ls with
  | nil => rfl
  | cons e t ih => simp only [DataSlab.lendLoop, HkeyElems.lendLoop, sizesOf, List.map_cons]; rw [ih]; rfl

theorem arr_borrowLoop_eq (T size mid : Nat) (l : List Elem) (lc ls : Nat) :
    DataSlab.borrowLoop T size mid l lc ls = HkeyElems.borrowLoop (minThr T) size mid (sizesOf l) lc ls := by
  induction l generalizing lc ls with
  | nil => rfl
  | cons e t ih => simp only [DataSlab.borrowLoop, HkeyElems.borrowLoop, sizesOf, List.map_cons]; rw [ih]; rfl

/-! ### list facts -/

theorem take_succ_reverse (l : List Nat) (n : Nat) (h : n < l.length) :
    (l.take (n + 1)).reverse = l.getD n 0 :: (l.take n).reverse := by
  rw [List.take_add_one, List.reverse_append]
  simp [List.getD_eq_getElem?_getD, List.getElem?_eq_getElem h]

theorem sum_take_succ (l : List Nat) (n : Nat) (h : n < l.length) :
    (l.take (n + 1)).sum = (l.take n).sum + l.getD n 0 := by
  rw [List.take_add_one, List.sum_append]
  simp [List.getD_eq_getElem?_getD, List.getElem?_eq_getElem h]

theorem sum_take_le (l : List Nat) (n : Nat) : (l.take n).sum ≤ l.sum := by
  induction l generalizing n with
  | nil => simp
  | cons a t ih => cases n with
    | zero => simp
    | succ n => simp only [List.take_succ_cons, List.sum_cons]; have := ih n; omega

theorem getD_le_sum (l : List Nat) (n : Nat) : l.getD n 0 ≤ l.sum := by
  induction l generalizing n with
  | nil => simp
  | cons a t ih => cases n with
    | zero => simp
    | succ n => simp only [List.getD_cons_succ, List.sum_cons]; have := ih n; omega

/-! ### `CanLendToLeft` / `CanLendToRight` of array data slabs -/

theorem arrCanLendLeft_loop (minT hsize want : Nat) (hm : minT < 2^32) (hh : hsize < 2^32) (hw : want < 2^32)
    (rest : List Nat) (i : Int) (lend : Nat) (hsum : lend + rest.sum ≤ hsize) :
    loopBool (ArrayDataSlab_CanLendToLeft.loop1 (u32 hsize) (u32 want) (u32 minT) (u32s rest) i (u32 lend)) =
      HkeyElems.canLendLoop minT hsize want rest lend := by
  induction rest generalizing i lend with
  | nil => simp [u32s, ArrayDataSlab_CanLendToLeft.loop1, HkeyElems.canLendLoop, loopBool]
  | cons x t ih =>
    simp only [List.sum_cons] at hsum
    rw [u32s_cons]
    simp only [ArrayDataSlab_CanLendToLeft.loop1, HkeyElems.canLendLoop]
    rw [u32_add (by omega), u32_sub (by omega) hh]
    simp only [ge_iff_le, u32_lt (show hsize - (lend + x) < 2^32 by omega) hm,
      u32_le hw (show lend + x < 2^32 by omega)]
    by_cases c1 : hsize - (lend + x) < minT
    · simp [c1, loopBool]
    · by_cases c2 : want ≤ lend + x
      · simp [c1, c2, loopBool]
      · simp only [c1, c2, decide_false, if_false, Bool.false_eq_true]
        exact ih (i + 1) (lend + x) (by omega)

theorem arrCanLendRight_loop (minT hsize want : Nat) (hm : minT < 2^32) (hh : hsize < 2^32) (hw : want < 2^32)
    (sizes : List Nat) (n : Nat) (hn : n ≤ sizes.length) (lend : Nat) (hsum : lend + (sizes.take n).sum ≤ hsize) :
    loopBool (ArrayDataSlab_CanLendToRight.loop1 (u32 hsize) (u32s sizes) (u32 want) (u32 minT) n
        (u32 lend, Int.ofNat n - 1)) =
      HkeyElems.canLendLoop minT hsize want (sizes.take n).reverse lend := by
  induction n generalizing lend with
  | zero => simp [ArrayDataSlab_CanLendToRight.loop1, HkeyElems.canLendLoop, loopBool]
  | succ n ih =>
    have hlt : n < sizes.length := by omega
    rw [sum_take_succ _ _ hlt] at hsum
    rw [take_succ_reverse _ _ hlt]
    have hi : (Int.ofNat (n + 1) - 1) = Int.ofNat n := by simp
    rw [hi]
    simp only [ArrayDataSlab_CanLendToRight.loop1, HkeyElems.canLendLoop]
    have hge : decide (Int.ofNat n ≥ (0 : Int)) = true := by simp
    rw [hge]
    simp only [if_true, Int.toNat_natCast, Int.ofNat_eq_natCast, u32s_getD]
    have ih' := fun l h => ih (by omega) l h
    generalize sizes.getD n 0 = x at *
    rw [u32_add (by omega), u32_sub (by omega) hh]
    simp only [ge_iff_le, u32_lt (show hsize - (lend + x) < 2^32 by omega) hm,
      u32_le hw (show lend + x < 2^32 by omega)]
    by_cases c1 : hsize - (lend + x) < minT
    · simp [c1, loopBool]
    · by_cases c2 : want ≤ lend + x
      · simp [c1, c2, loopBool]
      · simp only [c1, c2, decide_false, if_false, Bool.false_eq_true]
        have := ih' (lend + x) (by omega)
        simpa using this

/-! ### the split-point loop of `ArrayDataSlab.Split` -/

theorem splitLoop_bounds (mid data : Nat) (rest : List Nat) (i ls : Nat) :
    (HkeyElems.splitLoop mid data rest i ls).2 ≤ ls + rest.sum ∧
    (HkeyElems.splitLoop mid data rest i ls).1 ≤ i + rest.length := by
  induction rest generalizing i ls with
  | nil => simp [HkeyElems.splitLoop]
  | cons x t ih =>
    simp only [HkeyElems.splitLoop, List.sum_cons, List.length_cons]
    split
    · split <;> simp <;> omega
    · have := ih (i + 1) (ls + x); omega

theorem arrSplit_loop (mid data : Nat) (hd : data < 2^32) (hmid : mid < 2^32) (rest : List Nat) (i ls : Nat)
    (hsum : ls + rest.sum ≤ data) :
    ArrayDataSlab_Split.loop1 (u32 data) (u32 mid) (u32s rest) (Int.ofNat i) (u32 ls, 0) =
      (u32 (HkeyElems.splitLoop mid data rest i ls).2, Int.ofNat (HkeyElems.splitLoop mid data rest i ls).1) := by
  induction rest generalizing i ls with
  | nil => simp [u32s, ArrayDataSlab_Split.loop1, HkeyElems.splitLoop]
  | cons x t ih =>
    simp only [List.sum_cons] at hsum
    rw [u32s_cons]
    simp only [ArrayDataSlab_Split.loop1, HkeyElems.splitLoop]
    rw [u32_add (show ls + x < 2^32 by omega), u32_dge (by omega) hmid, u32_sub (show ls ≤ data by omega) hd,
      u32_sub (show x ≤ data - ls by omega) (by omega), u32_dle (by omega) (by omega)]
    by_cases c1 : ls + x ≥ mid
    · by_cases c2 : ls ≤ data - ls - x
      · simp [c1, c2]
      · simp [c1, c2]
    · simp only [c1, decide_false, if_false, Bool.false_eq_true]
      have := ih (i + 1) (ls + x) (by omega)
      simpa using this

/-! ### the rebalancing loops of `ArrayDataSlab.LendToRight` / `BorrowFromRight` -/

theorem lendLoop_bounds (minS size mid : Nat) (rest : List Nat) (lc ls : Nat) :
    (HkeyElems.lendLoop minS size mid rest lc ls).1 ≤ lc ∧ (HkeyElems.lendLoop minS size mid rest lc ls).2 ≤ ls := by
  induction rest generalizing lc ls with
  | nil => simp [HkeyElems.lendLoop]
  | cons x t ih =>
    simp only [HkeyElems.lendLoop]
    split
    · simp
    · have := ih (lc - 1) (ls - x); omega

theorem borrowLoop_bounds (minS size mid : Nat) (rest : List Nat) (lc ls : Nat) :
    lc ≤ (HkeyElems.borrowLoop minS size mid rest lc ls).1 ∧
    (HkeyElems.borrowLoop minS size mid rest lc ls).1 ≤ lc + rest.length ∧
    ls ≤ (HkeyElems.borrowLoop minS size mid rest lc ls).2 ∧
    (HkeyElems.borrowLoop minS size mid rest lc ls).2 ≤ ls + rest.sum := by
  induction rest generalizing lc ls with
  | nil => simp [HkeyElems.borrowLoop]
  | cons x t ih =>
    simp only [HkeyElems.borrowLoop, List.length_cons, List.sum_cons]
    split
    · split <;> simp <;> omega
    · have := ih (lc + 1) (ls + x); omega

theorem arrLend_loop (minT size mid : Nat) (hm : minT < 2^32) (hsz : size < 2^32) (hmid : mid < 2^32)
    (sizes : List Nat) (n : Nat) (hn : n ≤ sizes.length) (lc ls : Nat) (hlc : n ≤ lc) (hlc2 : lc < 2^32)
    (hls : (sizes.take n).sum ≤ ls) (hls2 : ls ≤ size) :
    (ArrayDataSlab_LendToRight.loop1 (u32s sizes) (u32 minT) (u32 size) (u32 mid) n
        (u32 lc, u32 ls, Int.ofNat n - 1)).1 = u32 (HkeyElems.lendLoop minT size mid (sizes.take n).reverse lc ls).1 ∧
    (ArrayDataSlab_LendToRight.loop1 (u32s sizes) (u32 minT) (u32 size) (u32 mid) n
        (u32 lc, u32 ls, Int.ofNat n - 1)).2.1 = u32 (HkeyElems.lendLoop minT size mid (sizes.take n).reverse lc ls).2 := by
  induction n generalizing lc ls with
  | zero => simp [ArrayDataSlab_LendToRight.loop1, HkeyElems.lendLoop]
  | succ n ih =>
    have hlt : n < sizes.length := by omega
    rw [sum_take_succ _ _ hlt] at hls
    rw [take_succ_reverse _ _ hlt]
    have hi : (Int.ofNat (n + 1) - 1) = Int.ofNat n := by simp
    rw [hi]
    simp only [ArrayDataSlab_LendToRight.loop1, HkeyElems.lendLoop, int_dge0, if_true, Int.toNat_natCast,
      Int.ofNat_eq_natCast, u32s_getD]
    have ih' := fun lc ls h1 h2 h3 h4 => ih (by omega) lc ls h1 h2 h3 h4
    generalize sizes.getD n 0 = x at *
    have e1 : (1 : UInt32) = u32 1 := rfl
    rw [e1, u32_sub (show x ≤ ls by omega) (by omega), u32_sub hls2 hsz, u32_sub (show 1 ≤ lc by omega) hlc2,
      u32_dlt (by omega) hmid, u32_dge (by omega) hm]
    by_cases c : ls - x < mid ∧ size - ls ≥ minT
    · have c' : (decide (ls - x < mid) && decide (size - ls ≥ minT)) = true := by simp [c]
      simp [c']
    · have c' : (decide (ls - x < mid) && decide (size - ls ≥ minT)) = false := by
        simp only [Bool.and_eq_false_iff, decide_eq_false_iff_not]; omega
      simp only [c', Bool.false_eq_true, if_false]
      have := ih' (lc - 1) (ls - x) (by omega) (by omega) (by omega) (by omega)
      simpa using this

theorem arrBorrow_loop (minT size mid : Nat) (hm : minT < 2^32) (hsz : size < 2^32) (hmid : mid < 2^32)
    (rest : List Nat) (i : Int) (lc ls : Nat) (hlc : lc + rest.length < 2^32) (hls : ls + rest.sum ≤ size) :
    ArrayDataSlab_BorrowFromRight.loop1 (u32 minT) (u32 size) (u32 mid) (u32s rest) i (u32 lc, u32 ls) =
      (u32 (HkeyElems.borrowLoop minT size mid rest lc ls).1, u32 (HkeyElems.borrowLoop minT size mid rest lc ls).2) := by
  induction rest generalizing i lc ls with
  | nil => simp [u32s, ArrayDataSlab_BorrowFromRight.loop1, HkeyElems.borrowLoop]
  | cons x t ih =>
    simp only [List.sum_cons, List.length_cons] at hls hlc
    rw [u32s_cons]
    simp only [ArrayDataSlab_BorrowFromRight.loop1, HkeyElems.borrowLoop]
    have e1 : (1 : UInt32) = u32 1 := rfl
    rw [e1, u32_add (show ls + x < 2^32 by omega), u32_add (show lc + 1 < 2^32 by omega),
      u32_sub (show ls ≤ size by omega) hsz, u32_sub (show x ≤ size - ls by omega) (by omega),
      u32_dgt (by omega) hmid, u32_dge (by omega) hm]
    by_cases c1 : ls + x > mid
    · by_cases c2 : size - ls - x ≥ minT
      · simp [c1, c2]
      · simp [c1, c2]
    · simp only [c1, decide_false, if_false, Bool.false_eq_true]
      exact ih (i + 1) (lc + 1) (ls + x) (by omega) (by omega)

/-! ### `ArrayMetaDataSlab.childSlabIndexInfo`: linear scan and binary search -/

theorem getD_lt_of_all (l : List Nat) (B : Nat) (hB : 0 < B) (h : ∀ x ∈ l, x < B) (i : Nat) : l.getD i 0 < B := by
  induction l generalizing i with
  | nil => simpa using hB
  | cons a t ih => cases i with
    | zero => simpa using h a (by simp)
    | succ i => simpa using ih (fun x hx => h x (by simp [hx])) i

theorem scanLinear_loop (index : Nat) (hi : index < 2^64) (cs : List Nat) (hcs : ∀ x ∈ cs, x < 2^32) (i : Nat) :
    ArrayMetaDataSlab_childSlabIndexInfo.loop1 (u64 index) (u32s cs) (Int.ofNat i) 0 =
      Int.ofNat (MetaSlab.scanLinear index cs i) := by
  induction cs generalizing i with
  | nil => simp [u32s, ArrayMetaDataSlab_childSlabIndexInfo.loop1, MetaSlab.scanLinear]
  | cons x t ih =>
    have hx : x < 2^32 := hcs x (by simp)
    rw [u32s_cons]
    simp only [ArrayMetaDataSlab_childSlabIndexInfo.loop1, MetaSlab.scanLinear]
    rw [u32_toUInt64 hx, u64_dlt hi (by omega)]
    by_cases c : index < x
    · simp [c]
    · simp only [c, decide_false, if_false, Bool.false_eq_true]
      have := ih (fun y hy => hcs y (by simp [hy])) (i + 1)
      simpa using this

theorem scanBinary_loop (index : Nat) (hi : index < 2^64) (cs : List Nat) (hcs : ∀ x ∈ cs, x < 2^32)
    (fuel low high : Nat) (hlh : low ≤ high) (hh : high < 2^63) :
    (ArrayMetaDataSlab_childSlabIndexInfo.loop2 (u32s cs) (u64 index) fuel (Int.ofNat low, Int.ofNat high)).1 =
      Int.ofNat (MetaSlab.scanBinary index cs low high fuel) := by
  induction fuel generalizing low high with
  | zero => simp [ArrayMetaDataSlab_childSlabIndexInfo.loop2, MetaSlab.scanBinary]
  | succ fuel ih =>
    simp only [ArrayMetaDataSlab_childSlabIndexInfo.loop2, MetaSlab.scanBinary, int_dlt]
    by_cases c : low < high
    · simp only [c, decide_true, if_true]
      rw [mid_eq low high (by omega)]
      simp only [Int.ofNat_eq_natCast, Int.toNat_natCast, u32s_getD]
      have hm := getD_lt_of_all cs (2^32) (by omega) hcs ((low + high) / 2)
      generalize cs.getD ((low + high) / 2) 0 = mv at *
      rw [u32_toUInt64 hm, u64_dlt (by omega) hi, u64_dgt (by omega) hi]
      by_cases c1 : mv < index
      · simp only [c1, decide_true, if_true]
        have := ih ((low + high) / 2 + 1) high (by omega) hh
        simpa using this
      · by_cases c2 : mv > index
        · simp only [c1, c2, decide_true, decide_false, if_true, if_false, Bool.false_eq_true]
          have := ih low ((low + high) / 2) (by omega) (by omega)
          simpa using this
        · simp [c1, c2]
    · simp [c]

/-- the model's binary search does not depend on its fuel once there is enough of it -/
theorem scanBinary_fuel (index : Nat) (cs : List Nat) (low high f1 f2 : Nat) (h1 : high - low ≤ f1)
    (h2 : high - low ≤ f2) :
    MetaSlab.scanBinary index cs low high f1 = MetaSlab.scanBinary index cs low high f2 := by
  induction f1 generalizing f2 low high with
  | zero =>
    cases f2 with
    | zero => rfl
    | succ f2 => simp only [MetaSlab.scanBinary]; rw [if_neg (by omega)]
  | succ f1 ih =>
    cases f2 with
    | zero => simp only [MetaSlab.scanBinary]; rw [if_neg (by omega)]
    | succ f2 =>
      simp only [MetaSlab.scanBinary]
      by_cases c : low < high
      · simp only [c, if_true]
        split
        · exact ih _ _ _ (by omega) (by omega)
        · split
          · exact ih _ _ _ (by omega) (by omega)
          · rfl
      · simp [c]

/-! ### the loops of `hkeyElements` (map_elements_hashkey.go): every element counts `Size() + digestSize` -/

/-- element sizes with the digest added (the list the map model's loops run over) -/
def dg (l : List Nat) : List Nat := l.map (· + Gen.digestSize)

theorem dg_cons (x : Nat) (t : List Nat) : dg (x :: t) = (x + Gen.digestSize) :: dg t := rfl
theorem dg_length (l : List Nat) : (dg l).length = l.length := by simp [dg]
theorem dg_getD (l : List Nat) (n : Nat) (h : n < l.length) : (dg l).getD n 0 = l.getD n 0 + Gen.digestSize := by
  simp [dg, List.getD_eq_getElem?_getD, List.getElem?_map, List.getElem?_eq_getElem h]
theorem dg_take (l : List Nat) (n : Nat) : (dg l).take n = dg (l.take n) := by simp [dg, List.map_take]

theorem hkeyCanLendLeft_loop (minS esize want : Nat) (hm : minS < 2^32) (hh : esize < 2^32) (hw : want < 2^32)
    (rest : List Nat) (i : Int) (lend : Nat) (hsum : lend + (dg rest).sum ≤ esize) :
    loopBool (hkeyElements_CanLendToLeft.loop1 (u32 esize) (u32 want) (u32 minS) (u32s rest) i (u32 lend)) =
      HkeyElems.canLendLoop minS esize want (dg rest) lend := by
  induction rest generalizing i lend with
  | nil => simp [u32s, dg, hkeyElements_CanLendToLeft.loop1, HkeyElems.canLendLoop, loopBool]
  | cons x t ih =>
    rw [dg_cons] at hsum ⊢
    simp only [List.sum_cons] at hsum
    rw [u32s_cons]
    simp only [hkeyElements_CanLendToLeft.loop1, HkeyElems.canLendLoop]
    rw [u32_add (show x + Gen.digestSize < 2^32 by omega), u32_add (by omega), u32_sub (by omega) hh]
    generalize x + Gen.digestSize = y at *
    simp only [ge_iff_le, u32_lt (show esize - (lend + y) < 2^32 by omega) hm,
      u32_le hw (show lend + y < 2^32 by omega)]
    by_cases c1 : esize - (lend + y) < minS
    · simp [c1, loopBool]
    · by_cases c2 : want ≤ lend + y
      · simp [c1, c2, loopBool]
      · simp only [c1, c2, decide_false, if_false, Bool.false_eq_true]
        exact ih (i + 1) (lend + y) (by omega)

theorem hkeyCanLendRight_loop (minS esize want : Nat) (hm : minS < 2^32) (hh : esize < 2^32) (hw : want < 2^32)
    (sizes : List Nat) (n : Nat) (hn : n ≤ sizes.length) (lend : Nat)
    (hsum : lend + ((dg sizes).take n).sum ≤ esize) :
    loopBool (hkeyElements_CanLendToRight.loop1 (u32 esize) (u32s sizes) (u32 want) (u32 minS) n
        (u32 lend, Int.ofNat n - 1)) =
      HkeyElems.canLendLoop minS esize want ((dg sizes).take n).reverse lend := by
  induction n generalizing lend with
  | zero => simp [hkeyElements_CanLendToRight.loop1, HkeyElems.canLendLoop, loopBool]
  | succ n ih =>
    have hlt : n < (dg sizes).length := by rw [dg_length]; omega
    rw [sum_take_succ _ _ hlt] at hsum
    rw [take_succ_reverse _ _ hlt]
    rw [dg_getD _ _ (by omega)] at hsum ⊢
    have hi : (Int.ofNat (n + 1) - 1) = Int.ofNat n := by simp
    rw [hi]
    simp only [hkeyElements_CanLendToRight.loop1, HkeyElems.canLendLoop]
    have hge : decide (Int.ofNat n ≥ (0 : Int)) = true := by simp
    rw [hge]
    simp only [if_true, Int.toNat_natCast, Int.ofNat_eq_natCast, u32s_getD]
    have ih' := fun l h => ih (by omega) l h
    generalize sizes.getD n 0 = x at *
    rw [u32_add (show x + Gen.digestSize < 2^32 by omega), u32_add (by omega), u32_sub (by omega) hh]
    generalize x + Gen.digestSize = y at *
    simp only [ge_iff_le, u32_lt (show esize - (lend + y) < 2^32 by omega) hm,
      u32_le hw (show lend + y < 2^32 by omega)]
    by_cases c1 : esize - (lend + y) < minS
    · simp [c1, loopBool]
    · by_cases c2 : want ≤ lend + y
      · simp [c1, c2, loopBool]
      · simp only [c1, c2, decide_false, if_false, Bool.false_eq_true]
        have := ih' (lend + y) (by omega)
        simpa using this

theorem hkeySplit_loop (mid data : Nat) (hd : data < 2^32) (hmid : mid < 2^32) (rest : List Nat) (i ls : Nat)
    (hsum : ls + (dg rest).sum ≤ data) :
    hkeyElements_Split.loop1 (u32 data) (u32 mid) (u32s rest) (Int.ofNat i) (u32 ls, 0) =
      (u32 (HkeyElems.splitLoop mid data (dg rest) i ls).2, Int.ofNat (HkeyElems.splitLoop mid data (dg rest) i ls).1) := by
  induction rest generalizing i ls with
  | nil => simp [u32s, dg, hkeyElements_Split.loop1, HkeyElems.splitLoop]
  | cons x t ih =>
    rw [dg_cons] at hsum ⊢
    simp only [List.sum_cons] at hsum
    rw [u32s_cons]
    simp only [hkeyElements_Split.loop1, HkeyElems.splitLoop]
    rw [u32_add (show x + Gen.digestSize < 2^32 by omega)]
    generalize x + Gen.digestSize = y at *
    rw [u32_add (show ls + y < 2^32 by omega), u32_dge (by omega) hmid, u32_sub (show ls ≤ data by omega) hd,
      u32_sub (show y ≤ data - ls by omega) (by omega), u32_dle (by omega) (by omega)]
    by_cases c1 : ls + y ≥ mid
    · by_cases c2 : ls ≤ data - ls - y
      · simp [c1, c2]
      · simp [c1, c2]
    · simp only [c1, decide_false, if_false, Bool.false_eq_true]
      have := ih (i + 1) (ls + y) (by omega)
      simpa using this

theorem hkeyLend_loop (minS size mid : Nat) (hm : minS < 2^32) (hsz : size < 2^32) (hmid : mid < 2^32)
    (sizes : List Nat) (n : Nat) (hn : n ≤ sizes.length) (lc ls : Nat) (hlc : n ≤ lc)
    (hls : ((dg sizes).take n).sum ≤ ls) (hls2 : ls ≤ size) :
    (hkeyElements_LendToRight.loop1 (u32s sizes) (u32 minS) (u32 size) (u32 mid) n
        (Int.ofNat lc, u32 ls, Int.ofNat n - 1)).1 =
      Int.ofNat (HkeyElems.lendLoop minS size mid ((dg sizes).take n).reverse lc ls).1 ∧
    (hkeyElements_LendToRight.loop1 (u32s sizes) (u32 minS) (u32 size) (u32 mid) n
        (Int.ofNat lc, u32 ls, Int.ofNat n - 1)).2.1 =
      u32 (HkeyElems.lendLoop minS size mid ((dg sizes).take n).reverse lc ls).2 := by
  induction n generalizing lc ls with
  | zero => simp [hkeyElements_LendToRight.loop1, HkeyElems.lendLoop]
  | succ n ih =>
    have hlt : n < (dg sizes).length := by rw [dg_length]; omega
    rw [sum_take_succ _ _ hlt] at hls
    rw [take_succ_reverse _ _ hlt]
    rw [dg_getD _ _ (by omega)] at hls ⊢
    have hi : (Int.ofNat (n + 1) - 1) = Int.ofNat n := by simp
    rw [hi]
    simp only [hkeyElements_LendToRight.loop1, HkeyElems.lendLoop, Int.toNat_natCast,
      Int.ofNat_eq_natCast, u32s_getD]
    have hge : decide ((n : Int) ≥ (0 : Int)) = true := by simp
    rw [hge]
    simp only [if_true]
    have ih' := fun lc ls h1 h3 h4 => ih (by omega) lc ls h1 h3 h4
    generalize sizes.getD n 0 = x at *
    rw [u32_add (show x + Gen.digestSize < 2^32 by omega)]
    generalize x + Gen.digestSize = y at *
    rw [u32_sub (show y ≤ ls by omega) (by omega), u32_sub hls2 hsz,
      u32_dlt (by omega) hmid, u32_dge (by omega) hm]
    by_cases c : ls - y < mid ∧ size - ls ≥ minS
    · have c' : (decide (ls - y < mid) && decide (size - ls ≥ minS)) = true := by simp [c]
      simp [c']
    · have c' : (decide (ls - y < mid) && decide (size - ls ≥ minS)) = false := by
        simp only [Bool.and_eq_false_iff, decide_eq_false_iff_not]; omega
      simp only [c', Bool.false_eq_true, if_false]
      have := ih' (lc - 1) (ls - y) (by omega) (by omega) (by omega)
      have e : ((lc : Int) - 1) = ((lc - 1 : Nat) : Int) := by omega
      rw [e]
      simpa using this

theorem hkeyBorrow_loop (minS size mid : Nat) (hm : minS < 2^32) (hsz : size < 2^32) (hmid : mid < 2^32)
    (rest : List Nat) (i : Int) (lc ls : Nat) (hls : ls + (dg rest).sum ≤ size) :
    hkeyElements_BorrowFromRight.loop1 (u32 minS) (u32 size) (u32 mid) (u32s rest) i (Int.ofNat lc, u32 ls) =
      (Int.ofNat (HkeyElems.borrowLoop minS size mid (dg rest) lc ls).1,
       u32 (HkeyElems.borrowLoop minS size mid (dg rest) lc ls).2) := by
  induction rest generalizing i lc ls with
  | nil => simp [u32s, dg, hkeyElements_BorrowFromRight.loop1, HkeyElems.borrowLoop]
  | cons x t ih =>
    rw [dg_cons] at hls ⊢
    simp only [List.sum_cons] at hls
    rw [u32s_cons]
    simp only [hkeyElements_BorrowFromRight.loop1, HkeyElems.borrowLoop]
    rw [u32_add (show x + Gen.digestSize < 2^32 by omega)]
    generalize x + Gen.digestSize = y at *
    rw [u32_add (show ls + y < 2^32 by omega),
      u32_sub (show ls ≤ size by omega) hsz, u32_sub (show y ≤ size - ls by omega) (by omega),
      u32_dgt (by omega) hmid, u32_dge (by omega) hm]
    by_cases c1 : ls + y > mid
    · by_cases c2 : size - ls - y ≥ minS
      · simp [c1, c2]
      · simp [c1, c2]
    · simp only [c1, decide_false, if_false, Bool.false_eq_true]
      have := ih (i + 1) (lc + 1) (ls + y) (by omega)
      simpa using this

/-! ### the binary search of `MapMetaDataSlab.getChildSlabByDigest / Set / Remove` -/

/-- Go's `ans` (-1 = not found) for the model's `Option Nat` -/
def ansInt : Option Nat → Int
  | none => -1
  | some k => Int.ofNat k

def firstKeysOf (hdrs : List MHdr) : List Nat := hdrs.map (·.firstKey)

theorem firstKeysOf_getD (hdrs : List MHdr) (h : Nat) :
    (firstKeysOf hdrs).getD h 0 = (hdrs.getD h default).firstKey := by
  induction hdrs generalizing h with
  | nil => rfl
  | cons a t ih => cases h with
    | zero => rfl
    | succ h => simpa [firstKeysOf] using ih h

/-- the model's search does not depend on its fuel once there is enough of it -/
theorem findChild_fuel (hdrs : List MHdr) (hkey i j : Nat) (ans : Option Nat) (f1 f2 : Nat) (h1 : j - i ≤ f1)
    (h2 : j - i ≤ f2) :
    MMetaSlab.findChild hdrs hkey i j ans f1 = MMetaSlab.findChild hdrs hkey i j ans f2 := by
  induction f1 generalizing f2 i j ans with
  | zero =>
    cases f2 with
    | zero => rfl
    | succ f2 => simp only [MMetaSlab.findChild]; rw [if_neg (by omega)]
  | succ f1 ih =>
    cases f2 with
    | zero => simp only [MMetaSlab.findChild]; rw [if_neg (by omega)]
    | succ f2 =>
      simp only [MMetaSlab.findChild]
      by_cases c : i < j
      · simp only [c, if_true]
        split
        · exact ih _ _ _ _ (by omega) (by omega)
        · exact ih _ _ _ _ (by omega) (by omega)
      · simp [c]

theorem findChild_loop_get (hdrs : List MHdr) (hfk : ∀ x ∈ firstKeysOf hdrs, x < 2^64) (hkey : Nat) (hk : hkey < 2^64)
    (fuel i j : Nat) (o : Option Nat) (hij : i ≤ j) (hj : j < 2^63) :
    (MapMetaDataSlab_getChildSlabByDigest.loop1 (u64s (firstKeysOf hdrs)) (u64 hkey) fuel (ansInt o, Int.ofNat i, Int.ofNat j)).1 =
      ansInt (MMetaSlab.findChild hdrs hkey i j o fuel) := by
  induction fuel generalizing i j o with
  | zero => simp [MapMetaDataSlab_getChildSlabByDigest.loop1, MMetaSlab.findChild]
  | succ fuel ih =>
    simp only [MapMetaDataSlab_getChildSlabByDigest.loop1, MMetaSlab.findChild, int_dlt]
    by_cases c : i < j
    · simp only [c, decide_true, if_true]
      rw [mid_eq i j (by omega)]
      simp only [Int.ofNat_eq_natCast, Int.toNat_natCast, u64s_getD]
      have hm := getD_lt_of_all (firstKeysOf hdrs) (2^64) (by omega) hfk ((i + j) / 2)
      rw [← firstKeysOf_getD]
      generalize (firstKeysOf hdrs).getD ((i + j) / 2) 0 = mv at *
      rw [u64_dgt hm hk]
      by_cases c1 : mv > hkey
      · simp only [c1, decide_true, if_true]
        have := ih i ((i + j) / 2) o (by omega) (by omega)
        simpa using this
      · simp only [c1, decide_false, if_false, Bool.false_eq_true]
        have := ih ((i + j) / 2 + 1) j (some ((i + j) / 2)) (by omega) hj
        simpa [ansInt] using this
    · simp [c]

theorem findChild_loop_set (hdrs : List MHdr) (hfk : ∀ x ∈ firstKeysOf hdrs, x < 2^64) (hkey : Nat) (hk : hkey < 2^64)
    (fuel i j : Nat) (o : Option Nat) (hij : i ≤ j) (hj : j < 2^63) :
    (MapMetaDataSlab_Set_search.loop1 (u64s (firstKeysOf hdrs)) (u64 hkey) fuel (ansInt o, Int.ofNat i, Int.ofNat j)).1 =
      ansInt (MMetaSlab.findChild hdrs hkey i j o fuel) := by
  induction fuel generalizing i j o with
  | zero => simp [MapMetaDataSlab_Set_search.loop1, MMetaSlab.findChild]
  | succ fuel ih =>
    simp only [MapMetaDataSlab_Set_search.loop1, MMetaSlab.findChild, int_dlt]
    by_cases c : i < j
    · simp only [c, decide_true, if_true]
      rw [mid_eq i j (by omega)]
      simp only [Int.ofNat_eq_natCast, Int.toNat_natCast, u64s_getD]
      have hm := getD_lt_of_all (firstKeysOf hdrs) (2^64) (by omega) hfk ((i + j) / 2)
      rw [← firstKeysOf_getD]
      generalize (firstKeysOf hdrs).getD ((i + j) / 2) 0 = mv at *
      rw [u64_dgt hm hk]
      by_cases c1 : mv > hkey
      · simp only [c1, decide_true, if_true]
        have := ih i ((i + j) / 2) o (by omega) (by omega)
        simpa using this
      · simp only [c1, decide_false, if_false, Bool.false_eq_true]
        have := ih ((i + j) / 2 + 1) j (some ((i + j) / 2)) (by omega) hj
        simpa [ansInt] using this
    · simp [c]

theorem findChild_loop_remove (hdrs : List MHdr) (hfk : ∀ x ∈ firstKeysOf hdrs, x < 2^64) (hkey : Nat) (hk : hkey < 2^64)
    (fuel i j : Nat) (o : Option Nat) (hij : i ≤ j) (hj : j < 2^63) :
    (MapMetaDataSlab_Remove_search.loop1 (u64s (firstKeysOf hdrs)) (u64 hkey) fuel (ansInt o, Int.ofNat i, Int.ofNat j)).1 =
      ansInt (MMetaSlab.findChild hdrs hkey i j o fuel) := by
  induction fuel generalizing i j o with
  | zero => simp [MapMetaDataSlab_Remove_search.loop1, MMetaSlab.findChild]
  | succ fuel ih =>
    simp only [MapMetaDataSlab_Remove_search.loop1, MMetaSlab.findChild, int_dlt]
    by_cases c : i < j
    · simp only [c, decide_true, if_true]
      rw [mid_eq i j (by omega)]
      simp only [Int.ofNat_eq_natCast, Int.toNat_natCast, u64s_getD]
      have hm := getD_lt_of_all (firstKeysOf hdrs) (2^64) (by omega) hfk ((i + j) / 2)
      rw [← firstKeysOf_getD]
      generalize (firstKeysOf hdrs).getD ((i + j) / 2) 0 = mv at *
      rw [u64_dgt hm hk]
      by_cases c1 : mv > hkey
      · simp only [c1, decide_true, if_true]
        have := ih i ((i + j) / 2) o (by omega) (by omega)
        simpa using this
      · simp only [c1, decide_false, if_false, Bool.false_eq_true]
        have := ih ((i + j) / 2 + 1) j (some ((i + j) / 2)) (by omega) hj
        simpa [ansInt] using this
    · simp [c]

/-! ### the count loop of `ArrayMetaDataSlab.Split` (`for i := range leftChildrenCount`) -/

theorem drop_take_cons (l : List Nat) (n i : Nat) (hi : i < n) (hn : n ≤ l.length) :
    (l.take n).drop i = l.getD i 0 :: (l.take n).drop (i + 1) := by
  have h1 : i < (l.take n).length := by simp only [List.length_take]; omega
  rw [List.drop_eq_getElem_cons h1]
  congr 1
  simp [List.getD_eq_getElem?_getD, List.getElem?_eq_getElem (show i < l.length by omega)]

theorem arrMetaSplit_loop (counts : List Nat) (leftN : Nat) (hle : leftN ≤ counts.length) (fuel i lc : Nat)
    (hf : fuel = leftN - i) (hi : i ≤ leftN) (hsum : lc + ((counts.take leftN).drop i).sum < 2^32) :
    ArrayMetaDataSlab_Split.loop1 (u32s counts) (Int.ofNat leftN) fuel (u32 lc, Int.ofNat i) =
      (u32 (lc + ((counts.take leftN).drop i).sum), Int.ofNat leftN) := by
  induction fuel generalizing i lc with
  | zero =>
    have : i = leftN := by omega
    subst this
    have hd : (counts.take i).drop i = [] := by
      apply List.drop_eq_nil_of_le; simp only [List.length_take]; omega
    simp [ArrayMetaDataSlab_Split.loop1, hd]
  | succ fuel ih =>
    have hlt : i < leftN := by omega
    rw [drop_take_cons counts leftN i hlt hle] at hsum ⊢
    simp only [List.sum_cons] at hsum ⊢
    simp only [ArrayMetaDataSlab_Split.loop1, int_dlt, hlt, decide_true, if_true, Int.ofNat_eq_natCast,
      Int.toNat_natCast, u32s_getD]
    rw [u32_add (by omega)]
    have := ih (i + 1) (lc + counts.getD i 0) (by omega) (by omega) (by omega)
    have e : ((i : Int) + 1) = ((i + 1 : Nat) : Int) := by omega
    rw [e]
    simp only [Int.ofNat_eq_natCast] at this
    rw [this, Nat.add_assoc]
    have hlt' : (i : Int) < (leftN : Int) := by omega
    simp [hlt']

end Atree.TransEq
