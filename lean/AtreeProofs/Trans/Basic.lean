import AtreeModel.Gen.Trans
/-
  Helpers for the equivalence proofs between the GENERATED machine-integer translation of atree's decision
  functions (`AtreeModel/Gen/Trans.lean`, written by harness/cmd/gotrans on every run) and the hand-written
  `Nat` model.  Core Lean only.
-/
namespace Atree.TransEq

/-- a model number as the Go value of type `uint8` / `uint32` / `uint64` -/
abbrev u8 (n : Nat) : UInt8 := UInt8.ofNat n
abbrev u32 (n : Nat) : UInt32 := UInt32.ofNat n
abbrev u64 (n : Nat) : UInt64 := UInt64.ofNat n

theorem u8_toNat {n : Nat} (h : n < 2^8) : (u8 n).toNat = n := by
  simp only [u8, UInt8.toNat_ofNat']; omega
theorem u32_toNat {n : Nat} (h : n < 2^32) : (u32 n).toNat = n := by
  simp only [u32, UInt32.toNat_ofNat']; omega
theorem u64_toNat {n : Nat} (h : n < 2^64) : (u64 n).toNat = n := by
  simp only [u64, UInt64.toNat_ofNat']; omega

theorem u32_of_toNat (x : UInt32) : u32 x.toNat = x := by simp [u32]
theorem u8_of_toNat (x : UInt8) : u8 x.toNat = x := by simp [u8]
theorem u64_of_toNat (x : UInt64) : u64 x.toNat = x := by simp [u64]

/-- a property of all bytes follows from the 256 cases (used with `decide`) -/
theorem forall_u8 {P : UInt8 → Prop} (h : ∀ n, n < 256 → P (UInt8.ofNat n)) : ∀ x, P x := by
  intro x
  have := h x.toNat x.toNat_lt
  simpa using this

/-- Go's `(n uint32, ok bool)` result read as the model's `Option Nat` -/
def optOfPair (p : UInt32 × Bool) : Option Nat := if p.2 then some p.1.toNat else none

/-- list of model sizes as Go `uint32` values -/
def u32s (l : List Nat) : List UInt32 := l.map u32

theorem u32s_length (l : List Nat) : (u32s l).length = l.length := by simp [u32s]

theorem u32s_getD_toNat (l : List Nat) (i : Nat) (h : ∀ x ∈ l, x < 2^32) :
    ((u32s l).getD i 0).toNat = l.getD i 0 := by
  induction l generalizing i with
  | nil => simp [u32s]
  | cons a t ih =>
    cases i with
    | zero => simpa [u32s] using u32_toNat (h a (by simp))
    | succ i =>
      have := ih i (fun x hx => h x (by simp [hx]))
      simpa [u32s] using this


/-! ### `u32` / `u64` arithmetic without wrap-around -/

theorem u32_add {a b : Nat} (h : a + b < 2^32) : u32 a + u32 b = u32 (a + b) := by
  apply UInt32.toNat_inj.mp
  rw [UInt32.toNat_add, u32_toNat (by omega), u32_toNat (by omega), u32_toNat h]; omega
theorem u32_sub {a b : Nat} (h : b ≤ a) (ha : a < 2^32) : u32 a - u32 b = u32 (a - b) := by
  apply UInt32.toNat_inj.mp
  rw [UInt32.toNat_sub, u32_toNat (by omega), u32_toNat (by omega), u32_toNat (by omega)]; omega
theorem u32_lt {a b : Nat} (ha : a < 2^32) (hb : b < 2^32) : (u32 a < u32 b) = (a < b) := by
  rw [UInt32.lt_iff_toNat_lt, u32_toNat ha, u32_toNat hb]
theorem u32_le {a b : Nat} (ha : a < 2^32) (hb : b < 2^32) : (u32 a ≤ u32 b) = (a ≤ b) := by
  rw [UInt32.le_iff_toNat_le, u32_toNat ha, u32_toNat hb]
theorem u32_half {a : Nat} (ha : a < 2^32) : u32 a >>> 1 = u32 (a / 2) := by
  apply UInt32.toNat_inj.mp
  rw [UInt32.toNat_shiftRight, u32_toNat ha, u32_toNat (by omega)]
  simp [Nat.shiftRight_eq_div_pow]
theorem u32_half' {a : Nat} (ha : a < 2^32) : u32 a >>> u32 1 = u32 (a / 2) := u32_half ha
theorem u32_inj {a b : Nat} (ha : a < 2^32) (hb : b < 2^32) : (u32 a = u32 b) = (a = b) := by
  rw [← UInt32.toNat_inj, u32_toNat ha, u32_toNat hb]

theorem u64_add {a b : Nat} (h : a + b < 2^64) : u64 a + u64 b = u64 (a + b) := by
  apply UInt64.toNat_inj.mp
  rw [UInt64.toNat_add, u64_toNat (by omega), u64_toNat (by omega), u64_toNat h]; omega
theorem u64_sub {a b : Nat} (h : b ≤ a) (ha : a < 2^64) : u64 a - u64 b = u64 (a - b) := by
  apply UInt64.toNat_inj.mp
  rw [UInt64.toNat_sub, u64_toNat (by omega), u64_toNat (by omega), u64_toNat (by omega)]; omega
theorem u64_lt {a b : Nat} (ha : a < 2^64) (hb : b < 2^64) : (u64 a < u64 b) = (a < b) := by
  rw [UInt64.lt_iff_toNat_lt, u64_toNat ha, u64_toNat hb]
theorem u64_le {a b : Nat} (ha : a < 2^64) (hb : b < 2^64) : (u64 a ≤ u64 b) = (a ≤ b) := by
  rw [UInt64.le_iff_toNat_le, u64_toNat ha, u64_toNat hb]
theorem u32_toUInt64 {a : Nat} (ha : a < 2^32) : (u32 a).toUInt64 = u64 a := by
  apply UInt64.toNat_inj.mp
  rw [UInt32.toNat_toUInt64, u32_toNat ha, u64_toNat (by omega)]

/-- Go's `uintN(i)` for a non-negative `int` i -/
theorem u64_ofInt (n : Nat) : UInt64.ofInt (Int.ofNat n) = u64 n := by
  apply UInt64.toNat_inj.mp
  simp only [UInt64.ofInt, u64, UInt64.toNat_ofNat']
  have : ((Int.ofNat n) % 2 ^ 64).toNat = n % 2^64 := by
    have h : (Int.ofNat n) % 2^64 = Int.ofNat (n % 2^64) := by simp
    rw [h]; rfl
  rw [this]; omega
theorem u32_ofInt (n : Nat) : UInt32.ofInt (Int.ofNat n) = u32 n := by
  apply UInt32.toNat_inj.mp
  simp only [UInt32.ofInt, u32, UInt32.toNat_ofNat']
  have : ((Int.ofNat n) % 2 ^ 32).toNat = n % 2^32 := by
    have h : (Int.ofNat n) % 2^32 = Int.ofNat (n % 2^32) := by simp
    rw [h]; rfl
  rw [this]; omega

/-- `int(uint(a + b) >> 1)`, the overflow-free midpoint of the binary searches -/
theorem mid_eq (a b : Nat) (h : a + b < 2^64) :
    Int.ofNat ((UInt64.ofInt (Int.ofNat a + Int.ofNat b)) >>> 1).toNat = Int.ofNat ((a + b) / 2) := by
  have e : Int.ofNat a + Int.ofNat b = Int.ofNat (a + b) := by simp
  rw [e, u64_ofInt, UInt64.toNat_shiftRight, u64_toNat h]
  simp [Nat.shiftRight_eq_div_pow]

/-! ### the same facts under `decide` (the form the generated code uses) -/

theorem u32_dlt {a b : Nat} (ha : a < 2^32) (hb : b < 2^32) : decide (u32 a < u32 b) = decide (a < b) := by
  simp only [u32_lt ha hb]
theorem u32_dle {a b : Nat} (ha : a < 2^32) (hb : b < 2^32) : decide (u32 a ≤ u32 b) = decide (a ≤ b) := by
  simp only [u32_le ha hb]
theorem u32_dgt {a b : Nat} (ha : a < 2^32) (hb : b < 2^32) : decide (u32 a > u32 b) = decide (a > b) := by
  simp only [gt_iff_lt, u32_lt hb ha]
theorem u32_dge {a b : Nat} (ha : a < 2^32) (hb : b < 2^32) : decide (u32 a ≥ u32 b) = decide (a ≥ b) := by
  simp only [ge_iff_le, u32_le hb ha]
theorem u64_dlt {a b : Nat} (ha : a < 2^64) (hb : b < 2^64) : decide (u64 a < u64 b) = decide (a < b) := by
  simp only [u64_lt ha hb]
theorem u64_dgt {a b : Nat} (ha : a < 2^64) (hb : b < 2^64) : decide (u64 a > u64 b) = decide (a > b) := by
  simp only [gt_iff_lt, u64_lt hb ha]
theorem u64_dge {a b : Nat} (ha : a < 2^64) (hb : b < 2^64) : decide (u64 a ≥ u64 b) = decide (a ≥ b) := by
  simp only [ge_iff_le, u64_le hb ha]
theorem int_dlt (a b : Nat) : decide (Int.ofNat a < Int.ofNat b) = decide (a < b) := by
  simp only [Int.ofNat_eq_natCast, Int.ofNat_lt]
theorem int_dlt_two (a : Nat) : decide (Int.ofNat a < (2 : Int)) = decide (a < 2) := int_dlt a 2
theorem int_deq_zero (a : Nat) : decide (Int.ofNat a = (0 : Int)) = decide (a = 0) := by
  have : (0 : Int) = Int.ofNat 0 := rfl
  rw [this]; simp only [Int.ofNat_eq_natCast, Int.natCast_inj]
theorem int_dge0 (a : Nat) : decide (Int.ofNat a ≥ (0 : Int)) = true := by simp


theorem u32s_cons (x : Nat) (t : List Nat) : u32s (x :: t) = u32 x :: u32s t := rfl

def u64s (l : List Nat) : List UInt64 := l.map u64
theorem u64s_length (l : List Nat) : (u64s l).length = l.length := by simp [u64s]
theorem u64s_getD (l : List Nat) (i : Nat) : (u64s l).getD i 0 = u64 (l.getD i 0) := by
  induction l generalizing i with
  | nil => simp [u64s, u64]
  | cons a t ih => cases i with
    | zero => simp [u64s]
    | succ i => simpa [u64s] using ih i
theorem u32s_getD (l : List Nat) (i : Nat) : (u32s l).getD i 0 = u32 (l.getD i 0) := by
  induction l generalizing i with
  | nil => simp [u32s, u32]
  | cons a t ih => cases i with
    | zero => simp [u32s]
    | succ i => simpa [u32s] using ih i

/-- what a translated loop with early `return` contributes to a Bool-valued function that ends in
    `return false` -/
def loopBool {σ : Type} : Gen.Trans.Loop Bool σ → Bool
  | .ret r => r
  | .done _ => false

end Atree.TransEq
