import AtreeModel.Gen.TransMapDescent
import AtreeProofs.Trans.MapElem
import AtreeProofs.MapInv
import AtreeProofs.MapHeapSpec
/-
  Set-up for `Props/TransMapDescent*.lean` (WP13): the DESCENT of the generated map code - `MapMetaDataSlab.Get / Set /
  Remove / PopIterate / getChildSlabByDigest` and `OrderedMap.get / Get / Has / set / remove / Count / PopIterate` of
  `Gen/TransMapDescent.lean` (namespace `Atree.Gen.TransMapD`) - runs over a HEAP of slabs: an index slab does not embed
  its children, it reads them from the storage (`getMapSlab`) and writes them back (`storeSlab`).  The model works on
  EMBEDDED trees (`MTree r d`, `OMap r`).  This file instantiates the parameters of the generated functions with a storage
  that IS a heap and defines what it means for a heap to hold a model tree (as Trans/Descent.lean does for arrays).

  * carriers: `G := HkeyElems (MElems r)` (the elements of a data slab of the tree are the MODEL's, as in WP11 / the
    closed element layer; the slab of an external collision group is embedded in its element, as in the model),
    `V := SV`, `W := SW`, `X := DX` (type, count as `uint64`, seed), `D := MKey` (a key with its digests), `B := Unit`,
    `S := MHSt r`, `ε := GE`.
  * `MHSt r`: the stored map slabs BY VALUE under their identifier + the model's `Ctx` + what the pop callback received.
  * `envD`: the parameters over a heap.  The `elements` methods come from an environment `eb` of the element layer
    (`Gen.TransElem.Env`, WP11; closed by Props/TransElemClosed*.lean) run on the `Ctx` component; the restructuring calls
    (`SplitChildSlab`, `MergeOrRebalanceChildSlab`, `splitRoot`, `promoteChildAsNewRoot`: translated in
    `Gen/TransMapSlabs.lean`) come from a record `rs`; the nesting machinery is the identity (a stand-alone map).
  * `md_heapOf d t x`: the heap a model tree occupies; `MHolds`, `MHeapPost` as for arrays.
  Core Lean only.  Helper names carry the prefix `md_`.
-/
namespace Atree.TransEq
open Atree Atree.Gen.TransMapD

/-- `MapExtraData` (TypeInfo as a number, `Count uint64`, `Seed`) -/
abbrev DX := Nat × UInt64 × Nat

abbrev DG (r : Nat) := HkeyElems (MElems r)
abbrev DSlab (r : Nat) := MapSlab (DG r) DX

/-- the storage of the heap-based translation of the maps -/
structure MHSt (r : Nat) where
  heap : SlabID → Option (DSlab r)
  ctx : Ctx
  popped : List (MKey × Elem) := []

namespace MHSt
variable {r : Nat}
/-- `Store(id, slab)` -/
def store (s : MHSt r) (id : SlabID) (v : DSlab r) : MHSt r :=
  { s with heap := fun i => if i = id then some v else s.heap i, ctx := s.ctx.emit (.store id) }
/-- `Remove(id)` -/
def remove (s : MHSt r) (id : SlabID) : MHSt r :=
  { s with heap := fun i => if i = id then none else s.heap i, ctx := s.ctx.emit (.remove id) }
/-- the same heap with another `Ctx` -/
def withCtx (s : MHSt r) (c : Ctx) : MHSt r := { s with ctx := c }

@[simp] theorem store_heap (s : MHSt r) (id : SlabID) (v : DSlab r) (i : SlabID) :
    (s.store id v).heap i = if i = id then some v else s.heap i := rfl
@[simp] theorem store_ctx (s : MHSt r) (id : SlabID) (v : DSlab r) : (s.store id v).ctx = s.ctx.emit (.store id) := rfl
@[simp] theorem store_popped (s : MHSt r) (id : SlabID) (v : DSlab r) : (s.store id v).popped = s.popped := rfl
@[simp] theorem remove_heap (s : MHSt r) (id : SlabID) (i : SlabID) :
    (s.remove id).heap i = if i = id then none else s.heap i := rfl
@[simp] theorem remove_ctx (s : MHSt r) (id : SlabID) : (s.remove id).ctx = s.ctx.emit (.remove id) := rfl
@[simp] theorem remove_popped (s : MHSt r) (id : SlabID) : (s.remove id).popped = s.popped := rfl
@[simp] theorem withCtx_heap (s : MHSt r) (c : Ctx) : (s.withCtx c).heap = s.heap := rfl
@[simp] theorem withCtx_ctx (s : MHSt r) (c : Ctx) : (s.withCtx c).ctx = c := rfl
@[simp] theorem withCtx_popped (s : MHSt r) (c : Ctx) : (s.withCtx c).popped = s.popped := rfl
@[simp] theorem withCtx_self (s : MHSt r) : s.withCtx s.ctx = s := rfl
@[simp] theorem withCtx_withCtx (s : MHSt r) (a b : Ctx) : (s.withCtx a).withCtx b = s.withCtx b := rfl
end MHSt

abbrev DEnv (r : Nat) := Env (DG r) SV SW DX MKey Unit (MHSt r) GE
abbrev DMap (r : Nat) := OrderedMap (DG r) DX Unit (MHSt r)
/-- the environment of the element layer (WP11) whose `elements` are the elements of a data slab of the tree -/
abbrev DEnvB (r : Nat) := Gen.TransElem.Env (DG r) SV SW DX MKey Unit Ctx GE

/-- the restructuring calls of the descent (translated by the unit of `Gen/TransMapSlabs.lean`), over a heap -/
structure DRestruct (r : Nat) where
  splitChild : MapMetaDataSlab DX → MHSt r → DSlab r → Int → (Option GE × MapMetaDataSlab DX × MHSt r × DSlab r)
  mergeOrRebalance : MapMetaDataSlab DX → MHSt r → DSlab r → Int → UInt32 →
    (Option GE × MapMetaDataSlab DX × MHSt r × DSlab r)
  splitRoot : DMap r → (Option GE × DMap r)
  promote : DMap r → SlabID → (Option GE × DMap r)

/-! ### model values as generated records -/

/-- `MapSlabHeader` -/
def md_hdr (h : MHdr) : MapSlabHeader := { slabID := h.id, size := u32 h.size, firstKey := u64 h.firstKey }

/-- a data slab of the tree (`x` = its `extraData` pointer: present iff root) -/
def md_data {r : Nat} (s : MDataSlab r) (x : Option DX) : MapDataSlab (DG r) DX :=
  { next := s.next, header := md_hdr s.hdr, elements := s.elems, extraData := x,
    anySize := false, collisionGroup := false, inlined := s.inlined }

/-- an index slab: the generated record has no children (they live in the storage) -/
def md_meta {α : Type} (m : MMetaSlab α) (x : Option DX) : MapMetaDataSlab DX :=
  { header := md_hdr m.hdr, childrenHeaders := m.childHdrs.map md_hdr, extraData := x }

/-- a subtree root as the generated `MapSlab` value -/
def md_tree {r : Nat} : (d : Nat) → MTree r d → Option DX → DSlab r
  | 0, (s : MDataSlab r), x => .dataSlab (md_data s x)
  | _ + 1, (m : MMetaSlab _), x => .metaSlab (md_meta m x)

/-- the extra data of a map handle -/
def md_extra {r : Nat} (m : OMap r) : DX := (m.ty, u64 m.count, m.seed)

/-- a model map handle over a heap storage as the generated `OrderedMap` record -/
def md_map {r : Nat} (m : OMap r) (s : MHSt r) : DMap r :=
  { Storage := s, root := md_tree m.d m.root (some (md_extra m)), digesterBuilder := () }

/-! ### the parameters of the generated functions over a heap -/

/-- the parameters over a heap: `getMapSlab` (through `Retrieve`) reads what `Store` wrote -/
def envD {r : Nat} (T : Nat) (eb : DEnvB r) (rs : DRestruct r) : DEnv r where
  DigesterBuilder_Digest := fun _ w => match w with | .key k => (k, none) | .val _ => (default, none)
  Digester_Digest := fun d l => (u64 (d.dig l.toNat), none)
  MapExtraData_Count := fun x => x.2.1
  MapExtraData_decrementCount := fun x => (x.1, x.2.1 - 1, x.2.2)
  MapExtraData_incrementCount := fun x => (x.1, x.2.1 + 1, x.2.2)
  MapExtraData_set_Count := fun x n => (x.1, n, x.2.2)
  MapMetaDataSlab_MergeOrRebalanceChildSlab := rs.mergeOrRebalance
  MapMetaDataSlab_SplitChildSlab := rs.splitChild
  NewKeyNotFoundError := some .keyNotFound
  NewSlabDataErrorf := some .goPanic
  NewSlabNotFoundErrorf := some .slabNotFound
  NewUnreachableError := some .goPanic
  OrderedMap_notifyParentIfNeeded := fun m => (none, m)
  OrderedMap_promoteChildAsNewRoot := rs.promote
  OrderedMap_setCallbackWithChild := fun m _ _ _ => m
  OrderedMap_splitRoot := rs.splitRoot
  SlabStorage_Remove := fun s id => (none, s.remove id)
  SlabStorage_Retrieve := fun s id => match s.heap id with
    | some v => (v, true, none, s)
    | none => (.nil, false, none, s)
  SlabStorage_Store := fun s id v => (none, s.store id v)
  Storable_ByteSize := fun x => match x with | .key k => u32 k.size | .val v => u32 v.size
  Storable_StoredValue := fun x s => match x with | .key k => (.key k, none, s) | .val v => (.val v, none, s)
  Value_nil := .val default
  elements_Get := fun g s d lvl hk w =>
    let q := eb.elements_Get g s.ctx d lvl hk w
    (q.1, q.2.1, q.2.2.1, s.withCtx q.2.2.2)
  elements_PopIterate := fun g s =>
    -- `elements.PopIterate` is not a translated target: the parameter is the MODEL's (elements last to first, the
    -- slabs of external groups removed); the callback's effect is the list of popped entries
    -- (`hkeyElements.PopIterate` leaves its receiver EMPTY: `hkeys = nil`, `elems = nil`, `size = hkeyElementsPrefixSize`)
    let q := HkeyElems.popIter (MElems.ops r) g s.ctx
    (none, { g with hkeys := [], elems := [], size := Gen.hkeyElementsPrefixSize },
     { s with ctx := q.2, popped := s.popped ++ q.1 })
  elements_Remove := fun g s d lvl hk w =>
    let q := eb.elements_Remove g s.ctx d lvl hk w
    (q.1, q.2.1, q.2.2.1, q.2.2.2.1, s.withCtx q.2.2.2.2)
  elements_Set := fun g s a b d lvl hk w w' =>
    let q := eb.elements_Set g s.ctx a b d lvl hk w w'
    (q.1, q.2.1, q.2.2.1, q.2.2.2.1, s.withCtx q.2.2.2.2)
  elements_Size := eb.elements_Size
  elements_firstKey := eb.elements_firstKey
  elements_getElementAndNextKey := fun g s d lvl hk w =>
    let q := eb.elements_getElementAndNextKey g s.ctx d lvl hk w
    (q.1, q.2.1, q.2.2.1, q.2.2.2.1, s.withCtx q.2.2.2.2)
  errors_As_KeyNotFoundError := fun e => decide (e = .keyNotFound)
  firstKeyInMapSlab := fun s _ => (none, some .goPanic, s)
  maxInlineMapValueSize := fun n => u32 (maxInlineMapValue T n.toNat)
  maxThreshold := u32 (maxThr T)
  minThreshold := u32 (minThr T)
  newHkeyElements := fun lvl => { hkeys := [], elems := [], size := Gen.hkeyElementsPrefixSize, level := lvl.toNat }
  uninlineStorableIfNeeded := fun s x => (x, 0, false, none, s)
  wrapErrorfAsExternalErrorIfNeeded := id

/-- What the descent theorems assume of the element layer `eb` for ONE map operation (key `k`, value `v`): on the
    elements of a data slab that satisfy `P` its `elements` methods are the model's `HkeyElems.get / set / remove` at
    level 0.  (`EnvB (HkeyElems.ops (MElems.ops r)) cfg k v eb` of WP11 gives it with `P := fun _ => True`:
    `ElemsSpec.of_EnvB`; the closed element layer gives it under the element invariant.) -/
structure ElemsSpec {r : Nat} (cfg : MCfg) (k : MKey) (v : Elem) (P : DG r → Prop) (eb : DEnvB r) : Prop where
  size : ∀ g, eb.elements_Size g = u32 g.size
  first : ∀ g, eb.elements_firstKey g = u64 (HkeyElems.firstKey g)
  get : ∀ g c, P g → eb.elements_Get g c k (u64 0) (u64 (k.dig 0)) (.key k) =
    mei_rGet c (HkeyElems.get (MElems.ops r) cfg g 0 k)
  set : ∀ g c, P g → eb.elements_Set g c cfg.addr () k (u64 0) (u64 (k.dig 0)) (.key k) (.val v) =
    mei_rGSet g c (HkeyElems.set (MElems.ops r) cfg g 0 k v c)
  remove : ∀ g c, P g → eb.elements_Remove g c k (u64 0) (u64 (k.dig 0)) (.key k) =
    mei_rGRemove g c (HkeyElems.remove (MElems.ops r) cfg g 0 k c)

theorem ElemsSpec.of_EnvB {r : Nat} {cfg : MCfg} {k : MKey} {v : Elem} {eb : DEnvB r}
    (hE : EnvB (HkeyElems.ops (MElems.ops r)) cfg k v eb) : ElemsSpec cfg k v (fun _ => True) eb where
  size := fun g => hE.gSize g
  first := fun g => hE.gFirst g
  get := fun g c _ => hE.gGet g c 0 (by decide)
  set := fun g c _ => hE.gSet g c 0 () (by decide)
  remove := fun g c _ => hE.gRemove g c 0 (by decide)

/-! ### the heap of a model tree -/

/-- the heap a model tree occupies: every data / index slab of the tree under its identifier (the root with the extra
    data `x`), nothing else.  (The slab of an external collision group is embedded in its element here, as in the
    model; `MTree.slabs` of MapHeapSpec.lean lists it separately.) -/
def md_heapOf {r : Nat} : (d : Nat) → MTree r d → Option DX → SlabID → Option (DSlab r)
  | 0, (s : MDataSlab r), x, id => if id = s.hdr.id then some (.dataSlab (md_data s x)) else none
  | d + 1, (m : MMetaSlab (MTree r d)), x, id =>
    if id = m.hdr.id then some (.metaSlab (md_meta m x)) else m.children.findSome? (fun c => md_heapOf d c none id)

/-- the heap `h` holds the tree `t` (root with extra data `x`): every slab of `t` is stored under its identifier as
    the generated record of that slab -/
def MHolds {r : Nat} (h : SlabID → Option (DSlab r)) : (d : Nat) → MTree r d → Option DX → Prop
  | 0, (s : MDataSlab r), x => h s.hdr.id = some (.dataSlab (md_data s x))
  | d + 1, (m : MMetaSlab (MTree r d)), x =>
    h m.hdr.id = some (.metaSlab (md_meta m x)) ∧ ∀ c ∈ m.children, MHolds h d c none

/-- the children of an index slab are held (the receiver itself is passed by value) -/
def MHoldsChildren {r d : Nat} (h : SlabID → Option (DSlab r)) (m : MMetaSlab (MTree r d)) : Prop :=
  ∀ c ∈ m.children, MHolds h d c none

/-- the identifiers of the data / index slabs of a tree -/
def md_ids {r : Nat} : (d : Nat) → MTree r d → List SlabID
  | 0, (s : MDataSlab r) => [s.hdr.id]
  | d + 1, (m : MMetaSlab (MTree r d)) => m.hdr.id :: m.children.flatMap (md_ids d)

theorem MHolds.root {r : Nat} {h : SlabID → Option (DSlab r)} {d : Nat} {t : MTree r d} {x : Option DX}
    (hh : MHolds h d t x) : h (MTree.hdr d t).id = some (md_tree d t x) := by
  cases d with
  | zero => exact hh
  | succ d => exact hh.1

/-- the heap after an operation that turns the tree `t` into `t'`: it holds `t'`, the slabs that left the tree are gone,
    every other identifier is untouched -/
structure MHeapPost {r : Nat} (h h' : SlabID → Option (DSlab r)) {d d' : Nat} (t : MTree r d) (t' : MTree r d')
    (x' : Option DX) : Prop where
  holds : MHolds h' d' t' x'
  gone : ∀ id ∈ md_ids d t, id ∉ md_ids d' t' → h' id = none
  frame : ∀ id, id ∉ md_ids d t → id ∉ md_ids d' t' → h' id = h id

/-! ### the fields of `envD` (simp lemmas) -/
section envFields
variable {r : Nat} (T : Nat) (eb : DEnvB r) (rs : DRestruct r)
@[simp] theorem envD_retrieve (s : MHSt r) (id : SlabID) :
    (envD T eb rs).SlabStorage_Retrieve s id = match s.heap id with
      | some v => (v, true, none, s)
      | none => (.nil, false, none, s) := rfl
@[simp] theorem envD_store (s : MHSt r) (id : SlabID) (v : DSlab r) :
    (envD T eb rs).SlabStorage_Store s id v = (none, s.store id v) := rfl
@[simp] theorem envD_remove (s : MHSt r) (id : SlabID) : (envD T eb rs).SlabStorage_Remove s id = (none, s.remove id) := rfl
@[simp] theorem envD_wrap (e : Option GE) : (envD T eb rs).wrapErrorfAsExternalErrorIfNeeded e = e := rfl
@[simp] theorem envD_knf : (envD T eb rs).NewKeyNotFoundError = some .keyNotFound := rfl
@[simp] theorem envD_snf : (envD T eb rs).NewSlabNotFoundErrorf = some .slabNotFound := rfl
@[simp] theorem envD_maxThr : (envD T eb rs).maxThreshold = u32 (maxThr T) := rfl
@[simp] theorem envD_minThr : (envD T eb rs).minThreshold = u32 (minThr T) := rfl
@[simp] theorem envD_dig (d : MKey) (l : UInt64) : (envD T eb rs).Digester_Digest d l = (u64 (d.dig l.toNat), none) := rfl
@[simp] theorem envD_builder (b : Unit) (k : MKey) : (envD T eb rs).DigesterBuilder_Digest b (.key k) = (k, none) := rfl
@[simp] theorem envD_asKNF (e : GE) : (envD T eb rs).errors_As_KeyNotFoundError e = decide (e = .keyNotFound) := rfl
@[simp] theorem envD_count (x : DX) : (envD T eb rs).MapExtraData_Count x = x.2.1 := rfl
@[simp] theorem envD_incr (x : DX) : (envD T eb rs).MapExtraData_incrementCount x = (x.1, x.2.1 + 1, x.2.2) := rfl
@[simp] theorem envD_decr (x : DX) : (envD T eb rs).MapExtraData_decrementCount x = (x.1, x.2.1 - 1, x.2.2) := rfl
@[simp] theorem envD_setCount (x : DX) (n : UInt64) : (envD T eb rs).MapExtraData_set_Count x n = (x.1, n, x.2.2) := rfl
@[simp] theorem envD_notify (m : DMap r) : (envD T eb rs).OrderedMap_notifyParentIfNeeded m = (none, m) := rfl
@[simp] theorem envD_setCallback (m : DMap r) (a b : SW) (n : UInt32) :
    (envD T eb rs).OrderedMap_setCallbackWithChild m a b n = m := rfl
@[simp] theorem envD_splitChild : (envD T eb rs).MapMetaDataSlab_SplitChildSlab = rs.splitChild := rfl
@[simp] theorem envD_mor : (envD T eb rs).MapMetaDataSlab_MergeOrRebalanceChildSlab = rs.mergeOrRebalance := rfl
@[simp] theorem envD_splitRoot : (envD T eb rs).OrderedMap_splitRoot = rs.splitRoot := rfl
@[simp] theorem envD_promote : (envD T eb rs).OrderedMap_promoteChildAsNewRoot = rs.promote := rfl
@[simp] theorem envD_elemGet (g : DG r) (s : MHSt r) (d : MKey) (lvl hk : UInt64) (w : SW) :
    (envD T eb rs).elements_Get g s d lvl hk w =
      ((eb.elements_Get g s.ctx d lvl hk w).1, (eb.elements_Get g s.ctx d lvl hk w).2.1,
       (eb.elements_Get g s.ctx d lvl hk w).2.2.1, s.withCtx (eb.elements_Get g s.ctx d lvl hk w).2.2.2) := rfl
@[simp] theorem envD_elemSet (g : DG r) (s : MHSt r) (a : Nat) (b : Unit) (d : MKey) (lvl hk : UInt64) (w w' : SW) :
    (envD T eb rs).elements_Set g s a b d lvl hk w w' =
      ((eb.elements_Set g s.ctx a b d lvl hk w w').1, (eb.elements_Set g s.ctx a b d lvl hk w w').2.1,
       (eb.elements_Set g s.ctx a b d lvl hk w w').2.2.1, (eb.elements_Set g s.ctx a b d lvl hk w w').2.2.2.1,
       s.withCtx (eb.elements_Set g s.ctx a b d lvl hk w w').2.2.2.2) := rfl
@[simp] theorem envD_elemRemove (g : DG r) (s : MHSt r) (d : MKey) (lvl hk : UInt64) (w : SW) :
    (envD T eb rs).elements_Remove g s d lvl hk w =
      ((eb.elements_Remove g s.ctx d lvl hk w).1, (eb.elements_Remove g s.ctx d lvl hk w).2.1,
       (eb.elements_Remove g s.ctx d lvl hk w).2.2.1, (eb.elements_Remove g s.ctx d lvl hk w).2.2.2.1,
       s.withCtx (eb.elements_Remove g s.ctx d lvl hk w).2.2.2.2) := rfl
@[simp] theorem envD_elemSize : (envD T eb rs).elements_Size = eb.elements_Size := rfl
@[simp] theorem envD_elemFirst : (envD T eb rs).elements_firstKey = eb.elements_firstKey := rfl
end envFields

end Atree.TransEq
