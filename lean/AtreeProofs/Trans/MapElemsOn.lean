import AtreeProofs.Trans.MapElems
/-
  RELATIVISED version of `EnvA` (WP13, "tying the knot"): the three element methods `Get / Set / Remove` of the
  environment of unit A (`Gen/TransMapElems.lean`) agree with the model's `MElemF.get / set / remove` only on the
  elements / levels / storage states that satisfy a guard (`Pg`, `Ps`, `Pr`).  `EnvA` is the special case of the trivial
  guards (`EnvA.toOn`).  The closed environment (`Trans/MapClosed.lean`), built from the GENERATED element dispatchers,
  satisfies `EnvAOn` for guards that follow from the map invariant and `uint` range conditions; it does not satisfy `EnvA`
  (`u32` is not injective).  Core Lean only.
-/
namespace Atree.TransEq
open Atree Atree.Gen.TransElems

/-- `EnvA` with guarded `get / set / remove` (everything else as in `EnvA`) -/
structure EnvAOn {α : Type} (o : ElemsOps α) (cfg : MCfg) (k : MKey) (v : Elem)
    (env : Env (MElemF α) SV SW Ctx GE) (Pg Ps Pr : MElemF α → Nat → Ctx → Prop) : Prop where
  levels : env.Digester_Levels = u64 cfg.L
  climit : env.maxCollisionLimitPerDigest = u32 cfg.climit
  size : ∀ el, env.element_Size el = u32 (el.size o)
  count : ∀ el c, env.element_Count el c = (u32 (el.count o), none, c)
  get : ∀ el c lvl hk, lvl < 2^64 → Pg el lvl c →
    env.element_Get el c (u64 lvl) hk (.key k) = mel_rGet c (el.get o cfg lvl k)
  set : ∀ el c lvl hk, lvl < 2^64 → Ps el lvl c →
    env.element_Set el c cfg.addr (u64 lvl) hk (.key k) (.val v) = mel_rESet c (el.set o cfg lvl k v c)
  remove : ∀ el c lvl hk, lvl < 2^64 → Pr el lvl c →
    env.element_Remove el c (u64 lvl) hk (.key k) = mel_rERemove c (el.remove o cfg lvl k c)
  newElem : ∀ c, env.newSingleElement c cfg.addr (.key k) (.val v) =
    (mel_cE (newSingleElement cfg.T cfg.addr k v c).1, none, (newSingleElement cfg.T cfg.addr k v c).2)
  inj : ∀ x, x.size < 2^32 → env.element_ofSingleElement (mel_cE x) = .single x
  asKNF : ∀ err, env.errors_As_KeyNotFoundError err = decide (err = .keyNotFound)
  eHashLevel : env.NewHashLevelErrorf = some .hashLevel
  eKeyNotFound : env.NewKeyNotFoundError = some .keyNotFound
  eCollisionLimit : env.NewCollisionLimitError = some .collisionLimit
  eElementCount : env.NewMapElementCountError = some .mapElementCount

/-- the trivial guard -/
def mel_PTrue {α : Type} : MElemF α → Nat → Ctx → Prop := fun _ _ _ => True

theorem EnvA.toOn {α : Type} {o : ElemsOps α} {cfg : MCfg} {k : MKey} {v : Elem}
    {env : Env (MElemF α) SV SW Ctx GE} (h : EnvA o cfg k v env) :
    EnvAOn o cfg k v env mel_PTrue mel_PTrue mel_PTrue where
  levels := h.levels
  climit := h.climit
  size := h.size
  count := h.count
  get := fun el c lvl hk hl _ => h.get el c lvl hk hl
  set := fun el c lvl hk hl _ => h.set el c lvl hk hl
  remove := fun el c lvl hk hl _ => h.remove el c lvl hk hl
  newElem := h.newElem
  inj := h.inj
  asKNF := h.asKNF
  eHashLevel := h.eHashLevel
  eKeyNotFound := h.eKeyNotFound
  eCollisionLimit := h.eCollisionLimit
  eElementCount := h.eElementCount

end Atree.TransEq
