import AtreeModel.Gen.TransMapElems
import AtreeProofs.Props.TransMapSlabsSingle
/-
  Set-up for the equivalence proofs of the ELEMENT layer, part 1: the GENERATED translation of `hkeyElements`
  `getElement` / `Get` / `getElementAndNextKey` / `Set` / `Remove` (`AtreeModel/Gen/TransMapElems.lean`, namespace
  `Atree.Gen.TransElems`, written by the object engine of harness/cmd/gotrans on every run) against the hand-written
  model `HkeyElems.get / set / remove` (`AtreeModel/Map/Elems.lean`).

  As in the model, the `element` interface is a PARAMETER of this layer: the generated code calls `env.element_Get`,
  `env.element_Set`, ... where the model calls `MElemF.get o`, `MElemF.set o`, ... for the operations `o : ElemsOps α` of
  the nested `elements`.  `EnvA` says that the parameters are the model's; part 2 (`Trans/MapElem.lean`) proves that
  the generated element implementations have exactly that behaviour given the operations of the next level.
  Core Lean only.  Helper names carry the prefix `mel_`.
-/
namespace Atree.TransEq
open Atree Atree.Gen.TransElems

/-- `singleElement` of the model as the generated record (`Gen.TransElems.singleElement`) -/
def mel_cE (x : SElem) : singleElement SV :=
  { key := some (.key x.key), value := some (.val x.val), size := u32 x.size }

/-- `hkeyElements` of the model as the generated record: the elements are the model's (`E := MElemF α`, non-nil),
    digests / size / level as machine integers -/
def mel_cH {α : Type} (e : HkeyElems α) : hkeyElements (MElemF α) :=
  { hkeys := u64s e.hkeys, elems := e.elems.map some, size := u32 e.size, level := u64 e.level }

/-- result of `element.Get` / `hkeyElements.Get` in state `c` (reads do not change the state) -/
def mel_rGet (c : Ctx) : Except MErr (MKey × Elem) → Option SV × Option SV × Option GE × Ctx
  | .ok (k, v) => (some (.key k), some (.val v), none, c)
  | .error err => (none, none, some err, c)

/-- result of `element.Set` in state `c` -/
def mel_rESet {α : Type} (c : Ctx) :
    Except MErr (MElemF α × MKey × Option Elem × Ctx) → Option (MElemF α) × Option SV × Option SV × Option GE × Ctx
  | .ok (el, ks, old, c') => (some el, some (.key ks), old.map .val, none, c')
  | .error err => (none, none, none, some err, c)

/-- result of `element.Remove` in state `c` (`none` element = the element is gone) -/
def mel_rERemove {α : Type} (c : Ctx) :
    Except MErr (MKey × Elem × Option (MElemF α) × Ctx) → Option SV × Option SV × Option (MElemF α) × Option GE × Ctx
  | .ok (rk, rv, el, c') => (some (.key rk), some (.val rv), el, none, c')
  | .error err => (none, none, none, some err, c)

/-- What the theorems assume of the parameters of the generated code for ONE map operation (key `k`, value `v`, the
    operations `o` of the nested level, storage state = the model's `Ctx`): the element methods are the model's
    `MElemF.*`, `newSingleElement` the model's, every error constructor yields its class, `errors.As(err, &knfe)`
    recognises exactly KeyNotFoundError. -/
structure EnvA {α : Type} (o : ElemsOps α) (cfg : MCfg) (k : MKey) (v : Elem)
    (env : Env (MElemF α) SV SW Ctx GE) : Prop where
  levels : env.Digester_Levels = u64 cfg.L
  climit : env.maxCollisionLimitPerDigest = u32 cfg.climit
  size : ∀ el, env.element_Size el = u32 (el.size o)
  count : ∀ el c, env.element_Count el c = (u32 (el.count o), none, c)
  get : ∀ el c lvl hk, lvl < 2^64 → env.element_Get el c (u64 lvl) hk (.key k) = mel_rGet c (el.get o cfg lvl k)
  set : ∀ el c lvl hk, lvl < 2^64 →
    env.element_Set el c cfg.addr (u64 lvl) hk (.key k) (.val v) = mel_rESet c (el.set o cfg lvl k v c)
  remove : ∀ el c lvl hk, lvl < 2^64 →
    env.element_Remove el c (u64 lvl) hk (.key k) = mel_rERemove c (el.remove o cfg lvl k c)
  newElem : ∀ c, env.newSingleElement c cfg.addr (.key k) (.val v) =
    (mel_cE (newSingleElement cfg.T cfg.addr k v c).1, none, (newSingleElement cfg.T cfg.addr k v c).2)
  /-- the injection `*singleElement -> element` (for sizes that are `uint32` values: `mel_cE` stores `u32 x.size`) -/
  inj : ∀ x, x.size < 2^32 → env.element_ofSingleElement (mel_cE x) = .single x
  asKNF : ∀ err, env.errors_As_KeyNotFoundError err = decide (err = .keyNotFound)
  eHashLevel : env.NewHashLevelErrorf = some .hashLevel
  eKeyNotFound : env.NewKeyNotFoundError = some .keyNotFound
  eCollisionLimit : env.NewCollisionLimitError = some .collisionLimit
  eElementCount : env.NewMapElementCountError = some .mapElementCount

/-- result of `hkeyElements.Set` on `e` in state `c` -/
def mel_rSet {α : Type} (e : HkeyElems α) (c : Ctx) :
    Except MErr (MKey × Option Elem × HkeyElems α × Ctx) →
      Option (Option SV × Option SV × Option GE × hkeyElements (MElemF α) × Ctx)
  | .ok (ks, old, e', c') => some (some (.key ks), old.map .val, none, mel_cH e', c')
  | .error err => some (none, none, some err, mel_cH e, c)

/-- result of `hkeyElements.Remove` on `e` in state `c` -/
def mel_rRemove {α : Type} (e : HkeyElems α) (c : Ctx) :
    Except MErr (MKey × Elem × HkeyElems α × Ctx) →
      Option (Option SV × Option SV × Option GE × hkeyElements (MElemF α) × Ctx)
  | .ok (rk, rv, e', c') => some (some (.key rk), some (.val rv), none, mel_cH e', c')
  | .error err => some (none, none, some err, mel_cH e, c)

/-- the well-formedness the theorems need of a digest table: as many elements as digests, digests are `uint64` values,
    fewer than 2^62 of them (the `int` midpoint `uint(i+j) >> 1` of the binary search is then exact) -/
structure mel_HOk {α : Type} (e : HkeyElems α) : Prop where
  len : e.elems.length = e.hkeys.length
  dig : ∀ x ∈ e.hkeys, x < 2^64
  short : e.hkeys.length < 2^62

theorem mel_cH_hkeys_length {α : Type} (e : HkeyElems α) : (mel_cH e).hkeys.length = e.hkeys.length := by
  simp [mel_cH, u64s]

theorem mel_cH_elems_length {α : Type} (e : HkeyElems α) : (mel_cH e).elems.length = e.elems.length := by
  simp [mel_cH]

theorem mel_goIdx_nat {β : Type} (l : List β) (n : Nat) : goIdx l (Int.ofNat n) = l[n]? := by
  show (if Int.ofNat n < 0 then none else l[(Int.ofNat n).toNat]?) = l[n]?
  have h : ¬ (Int.ofNat n < 0) := Int.not_lt.mpr (Int.natCast_nonneg n)
  rw [if_neg h]
  rfl

theorem mel_goIdx_hkeys {α : Type} (e : HkeyElems α) (n : Nat) (h : n < e.hkeys.length) :
    goIdx (mel_cH e).hkeys (Int.ofNat n) = some (u64 (e.hkeys.getD n 0)) := by
  rw [mel_goIdx_nat]
  simp [mel_cH, u64s, List.getD, h]

theorem mel_goIdx_elems {α : Type} (e : HkeyElems α) (n : Nat) :
    goIdx (mel_cH e).elems (Int.ofNat n) = (e.elems[n]?).map some := by
  rw [mel_goIdx_nat]
  simp [mel_cH]

end Atree.TransEq
