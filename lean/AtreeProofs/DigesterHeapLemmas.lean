import AtreeModel.DigesterHeap
import AtreeProofs.DigesterLemmas
/-
  Helper lemmas for the object-identity digester model (`AtreeModel/DigesterHeap.lean`): the
  simulation between a DISCIPLINED pointer-level history and the cache-free, state-free one.
  Core Lean only.
-/
namespace Atree.Dig

/-! ### heap access -/

theorem obj_setObj (w : HWorld) (a : Nat) (d : BasicDigester) (b : Nat) :
    (w.setObj a d).obj b = if b = a ∧ a < w.heap.length then d else w.obj b := by
  unfold HWorld.obj HWorld.setObj
  simp only [List.getD_eq_getElem?_getD, List.getElem?_set]
  by_cases h : a = b
  · subst h
    by_cases h2 : a < w.heap.length
    · simp [h2]
    · simp [h2]
  · have : ¬ (b = a ∧ a < w.heap.length) := fun hh => h hh.1.symm
    simp [h, this]

theorem heap_setObj_length (w : HWorld) (a : Nat) (d : BasicDigester) :
    (w.setObj a d).heap.length = w.heap.length := by
  simp [HWorld.setObj]

theorem obj_alloc_old (w : HWorld) (b : Nat) (hb : b < w.heap.length) : w.alloc.2.obj b = w.obj b := by
  simp [HWorld.obj, HWorld.alloc, List.getD_eq_getElem?_getD, List.getElem?_append_left hb]

theorem obj_alloc_new (w : HWorld) : w.alloc.2.obj w.heap.length = BasicDigester.fresh := by
  simp [HWorld.obj, HWorld.alloc, List.getD_eq_getElem?_getD]

/-! ### the ghost table of the cache-free side -/

theorem find_filter_ne (l : List (Nat × SpecDigester)) (a b : Nat) :
    (l.filter (fun p => p.1 != a)).find? (fun p => p.1 == b) =
      if b = a then none else l.find? (fun p => p.1 == b) := by
  induction l with
  | nil => simp
  | cons x xs ih =>
    by_cases hx : x.1 = a
    · have : (x.1 != a) = false := by simp [hx]
      rw [List.filter_cons_of_neg (by simp [this]), ih]
      by_cases hb : b = a
      · simp [hb]
      · have : (x.1 == b) = false := by simp [hx]; exact fun h => hb h.symm
        simp [hb, this]
    · have : (x.1 != a) = true := by simp [hx]
      rw [List.filter_cons_of_pos (by simp [this]), List.find?_cons, List.find?_cons, ih]
      by_cases hb : b = a
      · subst hb
        have : (x.1 == b) = false := by simp [hx]
        simp [this]
      · simp [hb]

theorem lookup_setOwn (s : HSpec) (a : Nat) (d : SpecDigester) (b : Nat) :
    (s.setOwn a d).lookup b = if b = a then some d else s.lookup b := by
  unfold HSpec.lookup HSpec.setOwn
  simp only [List.find?_cons]
  by_cases h : b = a
  · subst h; simp
  · have : (a == b) = false := by simp; exact fun hh => h hh.symm
    simp only [this, h, if_false]
    rw [find_filter_ne]; simp [h]

theorem lookup_dropOwn (s : HSpec) (a : Nat) (p : List Nat) (b : Nat) :
    ({ s with pool := p, own := s.own.filter (fun q => q.1 != a) } : HSpec).lookup b =
      if b = a then none else s.lookup b := by
  unfold HSpec.lookup
  simp only [find_filter_ne]
  by_cases h : b = a <;> simp [h]


/-! ### the invariant of disciplined histories -/

structure HInv (H : Hashes) (w : HWorld) (s : HSpec) : Prop where
  next : s.next = w.heap.length
  pool : s.pool = w.pool
  poolLt : ∀ a ∈ w.pool, a < w.heap.length
  poolReset : ∀ a ∈ w.pool, IsReset (w.obj a)
  poolNodup : w.pool.Nodup
  ownNodup : w.owned.Nodup
  ownLt : ∀ a ∈ w.owned, a < w.heap.length
  disj : ∀ a ∈ w.owned, a ∉ w.pool
  own : ∀ a, a ∈ w.owned ↔ (s.lookup a).isSome
  rep : ∀ a d, s.lookup a = some d → Rep H (w.obj a) d

theorem hinv_init (H : Hashes) : HInv H {} {} := by
  refine ⟨rfl, rfl, ?_, ?_, List.nodup_nil, List.nodup_nil, ?_, ?_, ?_, ?_⟩
  · intro a ha; simp at ha
  · intro a ha; simp at ha
  · intro a ha; simp at ha
  · intro a ha; simp at ha
  · intro a; simp [HSpec.lookup]
  · intro a d h; simp [HSpec.lookup] at h

/-- what `Get` returns: the same address on both sides, a live object in reset state that is
    neither parked nor owned any more -/
theorem hget_spec {H : Hashes} {w : HWorld} {s : HSpec} (h : HInv H w s) (c : Option Nat) :
    (s.get c).1 = (w.get c).1 ∧ (w.get c).1 < (w.get c).2.heap.length ∧
    IsReset ((w.get c).2.obj (w.get c).1) ∧ (w.get c).1 ∉ (w.get c).2.pool ∧
    (w.get c).2.owned = w.owned ∧ (w.get c).1 ∉ w.owned ∧ HInv H (w.get c).2 (s.get c).2 := by
  have halloc : (s.alloc).1 = (w.alloc).1 ∧ (w.alloc).1 < (w.alloc).2.heap.length ∧
      IsReset ((w.alloc).2.obj (w.alloc).1) ∧ (w.alloc).1 ∉ (w.alloc).2.pool ∧
      (w.alloc).2.owned = w.owned ∧ (w.alloc).1 ∉ w.owned ∧ HInv H (w.alloc).2 (s.alloc).2 := by
    refine ⟨h.next, by simp [HWorld.alloc], ?_, ?_, rfl, ?_, ?_⟩
    · show IsReset (w.alloc.2.obj w.heap.length)
      rw [obj_alloc_new]; exact isReset_fresh
    · intro hm
      have := h.poolLt _ hm
      simp [HWorld.alloc] at this
    · intro hm
      have := h.ownLt _ hm
      simp [HWorld.alloc] at this
    · have hlen : w.alloc.2.heap.length = w.heap.length + 1 := by simp [HWorld.alloc]
      refine ⟨by simp [HSpec.alloc, h.next, hlen], h.pool, ?_, ?_, h.poolNodup, h.ownNodup, ?_, h.disj, h.own, ?_⟩
      · intro a ha; rw [hlen]; exact Nat.lt_succ_of_lt (h.poolLt a ha)
      · intro a ha
        show IsReset (w.alloc.2.obj a)
        rw [obj_alloc_old w a (h.poolLt a ha)]; exact h.poolReset a ha
      · intro a ha; rw [hlen]; exact Nat.lt_succ_of_lt (h.ownLt a ha)
      · intro a d hl
        have hl' : s.lookup a = some d := hl
        have hown : a ∈ w.owned := (h.own a).mpr (by rw [hl']; rfl)
        show Rep H (w.alloc.2.obj a) d
        rw [obj_alloc_old w a (h.ownLt a hown)]; exact h.rep a d hl
  cases c with
  | none => exact halloc
  | some a =>
    by_cases ha : a ∈ w.pool
    · have ha' : a ∈ s.pool := by rw [h.pool]; exact ha
      simp only [HWorld.get, HSpec.get, ha, ha', if_true]
      refine ⟨trivial, h.poolLt a ha, h.poolReset a ha, h.poolNodup.not_mem_erase, trivial, ?_, ?_⟩
      · intro hm; exact h.disj a hm ha
      · refine ⟨h.next, by simp [h.pool], ?_, ?_, h.poolNodup.erase a, h.ownNodup, h.ownLt, ?_, h.own, h.rep⟩
        · intro b hb; exact h.poolLt b (List.mem_of_mem_erase hb)
        · intro b hb; exact h.poolReset b (List.mem_of_mem_erase hb)
        · intro b hb hm; exact h.disj b hb (List.mem_of_mem_erase hm)
    · have ha' : a ∉ s.pool := by rw [h.pool]; exact ha
      simp only [HWorld.get, HSpec.get, ha, ha', if_false]
      exact halloc

/-- replacing the object at an address that is not parked, and (re)declaring what it stands for -/
theorem hinv_setObj {H : Hashes} {w : HWorld} {s s' : HSpec} (h : HInv H w s) (a : Nat) (halt : a < w.heap.length)
    (hap : a ∉ w.pool) (d' : BasicDigester) (sd : SpecDigester) (hrep : Rep H d' sd) (owned' : List Nat)
    (hown : ∀ b, b ∈ owned' ↔ (b = a ∨ b ∈ w.owned)) (hnd : owned'.Nodup)
    (hl : ∀ b, s'.lookup b = if b = a then some sd else s.lookup b) (hp : s'.pool = s.pool) (hn : s'.next = s.next) :
    HInv H { (w.setObj a d') with owned := owned' } s' := by
  have hobj : ∀ b, ({ (w.setObj a d') with owned := owned' } : HWorld).obj b = (w.setObj a d').obj b := fun _ => rfl
  refine ⟨by rw [hn, h.next]; simp [HWorld.setObj], by rw [hp, h.pool]; rfl, ?_, ?_, h.poolNodup, hnd, ?_, ?_, ?_, ?_⟩
  · intro b hb; simp only [HWorld.setObj, List.length_set]; exact h.poolLt b hb
  · intro b hb
    have hb' : b ∈ w.pool := hb
    have hne : ¬ (b = a ∧ a < w.heap.length) := fun hh => hap (hh.1 ▸ hb')
    rw [hobj, obj_setObj, if_neg hne]; exact h.poolReset b hb'
  · intro b hb
    simp only [HWorld.setObj, List.length_set]
    rcases (hown b).mp hb with rfl | hb
    · exact halt
    · exact h.ownLt b hb
  · intro b hb hm
    have hm' : b ∈ w.pool := hm
    rcases (hown b).mp hb with rfl | hb
    · exact hap hm'
    · exact h.disj b hb hm'
  · intro b
    rw [hl b]
    by_cases hba : b = a
    · simp [hba, (hown a).mpr (Or.inl rfl)]
    · simp only [hba, if_false]
      rw [← h.own b]
      constructor
      · intro hb; rcases (hown b).mp hb with h1 | h1
        · exact absurd h1 hba
        · exact h1
      · intro hb; exact (hown b).mpr (Or.inr hb)
  · intro b d hlb
    rw [hl b] at hlb
    rw [hobj, obj_setObj]
    by_cases hba : b = a
    · simp only [hba, if_true] at hlb
      injection hlb with hlb
      subst hlb
      simp [hba, halt, hrep]
    · simp only [hba, if_false] at hlb
      have : ¬ (b = a ∧ a < w.heap.length) := fun hh => hba hh.1
      rw [if_neg this]; exact h.rep b d hlb

/-- parking an address that is live, not parked and not owned (after its object was reset) -/
theorem hinv_park {H : Hashes} {w : HWorld} {s : HSpec} (h : HInv H w s) (a : Nat) (halt : a < w.heap.length)
    (hap : a ∉ w.pool) (hao : a ∉ w.owned) (d' : BasicDigester) (hd : IsReset d') :
    HInv H { (w.setObj a d') with pool := a :: w.pool } { s with pool := a :: s.pool } := by
  have hobj : ∀ b, ({ (w.setObj a d') with pool := a :: w.pool } : HWorld).obj b = (w.setObj a d').obj b := fun _ => rfl
  refine ⟨by rw [h.next]; simp [HWorld.setObj], by simp [h.pool], ?_, ?_, ?_, h.ownNodup, ?_, ?_, h.own, ?_⟩
  · intro b hb
    simp only [HWorld.setObj, List.length_set]
    rcases List.mem_cons.mp hb with rfl | hb
    · exact halt
    · exact h.poolLt b hb
  · intro b hb
    rw [hobj, obj_setObj]
    rcases List.mem_cons.mp hb with rfl | hb
    · simp [halt, hd]
    · have : ¬ (b = a ∧ a < w.heap.length) := fun hh => hap (hh.1 ▸ hb)
      rw [if_neg this]; exact h.poolReset b hb
  · exact List.nodup_cons.mpr ⟨hap, h.poolNodup⟩
  · intro b hb; simp only [HWorld.setObj, List.length_set]; exact h.ownLt b hb
  · intro b hb hm
    have hb' : b ∈ w.owned := hb
    rcases List.mem_cons.mp hm with rfl | hm
    · exact hao hb'
    · exact h.disj b hb' hm
  · intro b d hlb
    have hown : b ∈ w.owned := (h.own b).mpr (by rw [show s.lookup b = some d from hlb]; rfl)
    have hne : ¬ (b = a ∧ a < w.heap.length) := fun hh => hao (hh.1 ▸ hown)
    rw [hobj, obj_setObj, if_neg hne]; exact h.rep b d hlb

end Atree.Dig
