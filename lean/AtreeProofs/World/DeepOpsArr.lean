import AtreeProofs.World.DeepOps
import AtreeProofs.Props.C10WAll
/-
  DEEP ACCOUNT, part 10: `Array.Insert`, `Array.Remove` (membership form `DeepM`).
-/
namespace Atree.Deep
open Gen World Codec
open MapHolder (StoredSince Ext)

variable {D : SlabID → DigestFn 4}

/-- the inserted / stored child -/
def MvOf (v : WVal) : SlabID → Prop := fun z => ∃ wr, v = .child z wr
/-- the child handed back -/
def MoOf (old : Elem) : SlabID → Prop := fun z => old.pay = .ref z

theorem uniqueRef_of_ok' {w : World} {ctr : Nat} (H : WorldOk' D w ctr) : UniqueRef w := by
  obtain ⟨rank, H0⟩ := H
  exact H0.unique

theorem uniqueRef_congr {w w' : World} (h : ∀ z, w'.cont? z = w.cont? z) (hT : w'.T = w.T) (hu : UniqueRef w) :
    UniqueRef w' :=
  ContsSig.uniqueRef ⟨hT, fun q => by rw [h]⟩ hu

theorem inl_of_form {w w2 : World} {p : SlabID} {c c' : Cont} (hc : w.cont? p = some c) (hc' : w2.cont? p = some c')
    (hf : c'.isInlined = c.isInlined) : Inl w p → Inl w2 p := by
  rintro ⟨c0, h1, h2⟩
  rw [hc] at h1; cases h1
  exact ⟨c', hc', by rw [hf]; exact h2⟩

/-- `Array.Insert` -/
theorem arrInsert_deepM {rank0 : SlabID → Nat} {w w' : World} {p : SlabID} {i : Nat} {v : WVal} {cx cx' : Ctx}
    (H0 : WorldOkPK D rank0 (fun _ => False) w cx.ctr) (Hh : HeapOk w cx.ctr) (hh : HandleOk w p)
    (hv : WValOk w p (maxInlineArr w.T) v) (h : w.arrInsert p i v cx = .ok (w', cx')) : DeepM w cx w' cx' := by
  obtain ⟨H', _, hins, _, _, _, _⟩ := C10W.worldOk'_arrInsert_all D w p i v cx w' cx' ⟨rank0, H0⟩ hh hv h
  have U' := uniqueRef_of_ok' H'
  obtain ⟨rank, hrk, hv'⟩ := C09W.wvalH_of_ok H0 hv
  have P := WPre.of_inv ((HInv.of_pk H0).with_rank hrk) Hh
  unfold arrInsert at h
  split at h
  · rename_i a hp
    split at h
    · cases h
    · simp only [bind, Except.bind] at h
      split at h
      · cases h
      · rename_i r hst
        obtain ⟨e, w1, cx1⟩ := r
        simp only at h
        split at h
        · cases h
        · rename_i a' cx2 hs
          split at h
          · cases h
          · rename_i r2 hnp
            obtain ⟨w3, cx3⟩ := r2
            simp only [pure, Except.pure] at h
            cases h
            obtain ⟨P1, post1, hctr1, hm1, hh1, hco1, he1, he2, hepay⟩ := storableOf_pre P hv' (Nat.le_refl _) hst
            obtain ⟨_, _, _, _, hfr, _⟩ := storableOf_frame hst
            have hT1 : w1.T = w.T := P1.T
            have hp1 : w1.cont? p = some (.arr a) := by rw [hco1 p (Nat.le_refl _)]; exact hp
            have hlegal := P1.legal
            have hpok : ArrOk w1.T a cx1.ctr := (P1.conts p _ hp1).1
            have hvid : a.rootID = p := (P1.conts p _ hp1).2.1
            have hpaddr : p.addr = w1.addr := (P1.conts p _ hp1).2.2.1
            have hroom := P1.arr_room hp1 (hco1 p (Nat.le_refl _))
            have hve : ElemOk w1.T e := ⟨he1, by rw [hT1]; exact he2⟩
            obtain ⟨hi, hl, hok', hinl', hrid, hty, hle, hsz⟩ := hpok.insert_ok hlegal (StorOk.of_elemOk hve) hroom hs
            rw [toStorable_fit w1.T a.addr e cx1 hve.2] at hl hsz
            simp only at hl hsz
            obtain ⟨E, C, hlog, hca, _, _⟩ := cstep_arr_insert hlegal hpok hve hroom hs
            have htree : TreeOk w1.addr cx2.ctr (.arr a') := by
              have := treeOk_arr hok'
              have ha : a'.addr = w1.addr := by
                show a'.rootID.addr = w1.addr
                rw [hrid, hvid, hpaddr]
              rw [ha] at this; exact this
            have hb2 := two_inline_le w1.T hlegal
            obtain ⟨P2, hsame2, post12⟩ := mutate_pre
              (w2 := (w1.setCont p (.arr a')).shiftIdx p (fun j => if j ≥ i then j + 1 else j)) P1
              (fun z hz => hco1 z (Nat.le_of_lt hz)) hp1 hlog hca hok' htree (hrid.trans hvid)
              (by
                intro hi0'
                have hi0 : a.isInlined = true := by rw [← hinl']; exact hi0'
                have h1 := hsz hi0
                have h3 := hve.2
                show a'.rootHdr.size ≤ w1.T
                have : a.rootHdr.size ≤ maxInlineArr w1.T := by
                  have := P1.inv0.room p (.arr a) (by rw [← hco1 p (Nat.le_refl _)]; exact hp1) hi0
                  rw [← P1.T] at this
                  exact this
                omega)
              rfl
              (by
                intro x hx
                simp only [Cont.pays, Cont.storedElems, hl, List.mem_map] at hx ⊢
                obtain ⟨e', he', hpe⟩ := hx
                rcases (List.mem_insertIdx hi).1 he' with h1 | h1
                · subst h1; exact Or.inr (hepay x hpe)
                · exact Or.inl ⟨e', h1, hpe⟩)
              (sameTab_shiftIdx _ _ _)
            have h2p : ((w1.setCont p (.arr a')).shiftIdx p (fun j => if j ≥ i then j + 1 else j)).cont? p = some (.arr a') := by
              rw [cont?_shiftIdx, cont?_setCont_self]
            have h2o : ∀ z, z ≠ p →
                ((w1.setCont p (.arr a')).shiftIdx p (fun j => if j ≥ i then j + 1 else j)).cont? z = w1.cont? z := by
              intro z hz; rw [cont?_shiftIdx, cont?_setCont_ne _ _ _ _ hz]
            have hpar2 : HandleOk ((w1.setCont p (.arr a')).shiftIdx p (fun j => if j ≥ i then j + 1 else j)) p := by
              refine handleOk_mutate P1.rank P2.rank hp1 h2p h2o rfl rfl ?_ (handleOk_storableOf hst hh)
              intro q x hq
              rw [find?_idxOf_shiftIdx, if_neg (Ne.symm hq)]
              simp [World.idxOf]
            have ND := notifyDeep D rank _ w cx.ctr _ p cx2 w3 cx' P2 hsame2 hpar2 hnp
            have post23 := notifyHeap D rank _ w cx.ctr _ p cx2 w3 cx' P2 hsame2 hnp
            have hcw : ∀ z, (w3.setCallbackArr p i v).cont? z = w3.cont? z := fun z => cont?_setCallbackArr _ _ _ _ _
            have U3 : UniqueRef w3 := uniqueRef_congr (fun z => (hcw z).symm) (T_setCallbackArr _ _ _ _).symm U'
            obtain ⟨a0, a'', e'', hp0, hp', hi0, hl'', _, hch⟩ := hins
            refine deep_of_track (p := p) (Mv := MvOf v) (Mo := fun _ => False) ?_ (fun z _ => hcw z) (fun h => h)
              (by rw [hp]; rfl) (by rw [hp']; rfl) (inl_of_form hp h2p hinl') ?_ (fun m hm => absurd hm id)
              (ND.track U3) ((ext_of_post post1).trans (ext_of_post post12)) (ext_of_post post23) (Ext.refl _)
              (fun id s hs => Or.inl (hasSlab_congr (fun z => (hcw z).symm) hs)) (kept_of_post post23) U'
            · intro z hz hzv
              rw [h2o z hz]
              exact hfr z (fun wr hvz => hzv ⟨wr, hvz⟩)
            · rintro m ⟨wr, rfl⟩
              obtain ⟨hlive, hnone, _, _⟩ := hv
              obtain ⟨hpe, _, c, hc, _⟩ := hch m wr rfl
              refine ⟨hnone, ⟨_, hp', ?_⟩, by rw [hc]; rfl⟩
              simp only [Cont.pays, Cont.storedElems, hl'', List.mem_map]
              exact ⟨e'', (List.mem_insertIdx hi0).2 (Or.inl rfl), hpe⟩
  · cases h

/-- `Array.Remove` -/
theorem arrRemove_deepM {rank0 : SlabID → Nat} {w w' : World} {p : SlabID} {i : Nat} {cx cx' : Ctx} {old' : Elem}
    (H0 : WorldOkPK D rank0 (fun _ => False) w cx.ctr) (Hh : HeapOk w cx.ctr) (hh : HandleOk w p)
    (h : w.arrRemove p i cx = .ok (old', w', cx')) : DeepM w cx w' cx' := by
  obtain ⟨H', _, hrem, _, _, _, _⟩ := C10W.worldOk'_arrRemove_all D w p i cx old' w' cx' ⟨rank0, H0⟩ hh h
  have U' := uniqueRef_of_ok' H'
  have HI := HInv.of_pk H0
  have P := WPre.of_inv HI Hh
  unfold arrRemove at h
  split at h
  · rename_i a hp
    split at h
    · cases h
    · rename_i old a' cx2 hs
      simp only [bind, Except.bind] at h
      split at h
      · cases h
      · rename_i r hnp
        obtain ⟨w3, cx3⟩ := r
        simp only at h
        split at h
        · cases h
        · rename_i r2 hun
          obtain ⟨o', ov, w4, cx4⟩ := r2
          simp only [pure, Except.pure] at h
          cases h
          have hlegal := P.legal
          have hpok : ArrOk w.T a cx.ctr := (P.conts p _ hp).1
          have hvid : a.rootID = p := (P.conts p _ hp).2.1
          have hpaddr : p.addr = w.addr := (P.conts p _ hp).2.2.1
          obtain ⟨hget, hl, hok', hinl', hrid, hty, hle, hsz⟩ := hpok.remove_ok hlegal hs
          obtain ⟨E, C, hlog, hca, _, _⟩ := cstep_arr_remove hlegal hpok hs
          have htree : TreeOk w.addr cx2.ctr (.arr a') := by
            have := treeOk_arr hok'
            have ha : a'.addr = w.addr := by
              show a'.rootID.addr = w.addr
              rw [hrid, hvid, hpaddr]
            rw [ha] at this; exact this
          have hb2 := two_inline_le w.T hlegal
          obtain ⟨P2, hsame2, post12⟩ := mutate_pre
            (w2 := (w.setCont p (.arr a')).shiftIdx p (fun j => if j > i then j - 1 else j)) P
            (fun _ _ => rfl) hp hlog hca hok' htree (hrid.trans hvid)
            (by
              intro hi0'
              have hi0 : a.isInlined = true := by rw [← hinl']; exact hi0'
              have h1 := hsz hi0
              show a'.rootHdr.size ≤ w.T
              have : a.rootHdr.size ≤ maxInlineArr w.T := HI.room p (.arr a) hp hi0
              omega)
            rfl
            (by
              intro x hx
              simp only [Cont.pays, Cont.storedElems, hl, List.mem_map] at hx ⊢
              obtain ⟨e', he', hpe⟩ := hx
              exact Or.inl ⟨e', List.mem_of_mem_eraseIdx he', hpe⟩)
            (sameTab_shiftIdx _ _ _)
          have h2p : ((w.setCont p (.arr a')).shiftIdx p (fun j => if j > i then j - 1 else j)).cont? p = some (.arr a') := by
            rw [cont?_shiftIdx, cont?_setCont_self]
          have h2o : ∀ z, z ≠ p →
              ((w.setCont p (.arr a')).shiftIdx p (fun j => if j > i then j - 1 else j)).cont? z = w.cont? z := by
            intro z hz; rw [cont?_shiftIdx, cont?_setCont_ne _ _ _ _ hz]
          have hpar2 : HandleOk ((w.setCont p (.arr a')).shiftIdx p (fun j => if j > i then j - 1 else j)) p := by
            refine handleOk_mutate HI.rank P2.rank hp h2p h2o rfl rfl ?_ hh
            intro q x hq
            rw [find?_idxOf_shiftIdx, if_neg (Ne.symm hq)]
            simp [World.idxOf]
          have ND := notifyDeep D rank0 _ w cx.ctr _ p cx2 w3 cx3 P2 hsame2 hpar2 hnp
          have post23 := notifyHeap D rank0 _ w cx.ctr _ p cx2 w3 cx3 P2 hsame2 hnp
          have post34 := uninlineIfNeeded_post post23.heapOk post23.idsOk hun
          have hfin : ∀ z, (match ov with
              | none => w4
              | some ov => w4.setIdx p (AList.erase (w4.idxOf p) ov)).cont? z = w4.cont? z := by
            intro z; split <;> rfl
          have hfinT : (match ov with
              | none => w4
              | some ov => w4.setIdx p (AList.erase (w4.idxOf p) ov)).T = w4.T := by
            split <;> rfl
          have hu4 := uninline_conts hun
          have hT4 : w4.T = w3.T := (uninlineIfNeeded_ok hun).2.2.2.1
          obtain ⟨a0, a'', old0, hp0, hp', hget0, hl'', _, hback⟩ := hrem
          rw [hp] at hp0; cases hp0
          rw [hget] at hget0; cases hget0
          -- the containers of the final world are those of `w3`, except the one handed back
          have hB : ∀ z, ¬ (old.pay = .ref z ∧ (w3.cont? z).isSome) →
              (match ov with
                | none => w4
                | some ov => w4.setIdx p (AList.erase (w4.idxOf p) ov)).cont? z = w3.cont? z := by
            intro z hz; rw [hfin, hu4 z hz]
          have hlive3 : ∀ z, z ≠ p → (w3.cont? z).isSome → (w.cont? z).isSome := by
            intro z hz h3
            rw [ND.sig.isSome, h2o z hz] at h3
            exact h3
          have hpne : ¬ (old.pay = .ref p ∧ (w3.cont? p).isSome) := by
            rintro ⟨hpp, _⟩
            obtain ⟨c, hc⟩ : ∃ c, w.cont? p = some c := ⟨_, hp⟩
            obtain ⟨c', _, _, _, _, hno⟩ := hback p c hpp hc
            have hH : World.Holds w p p :=
              ⟨_, hp, by
                simp only [Cont.pays, Cont.storedElems, List.mem_map]
                exact ⟨old, List.mem_of_getElem? hget, hpp⟩⟩
            have := HI.rank p p hH (by rw [hp]; rfl)
            omega
          have U3 : UniqueRef w3 := by
            refine ContsSig.uniqueRef ⟨(hfinT.trans hT4).symm, fun q => ?_⟩ U'
            by_cases hq : old.pay = .ref q ∧ (w3.cont? q).isSome
            · rw [hfin]
              obtain ⟨_, _, _, _, _, hc⟩ := uninlineIfNeeded_ok hun
              rcases hc with ⟨_, _, rfl, _, _⟩ | ⟨x, c, _, hpx, hx, ⟨_, _, rfl, _⟩ | ⟨_, c', hsd, _, rfl, _, _⟩⟩
              · rfl
              · rfl
              · rw [hq.1] at hpx; cases hpx
                rw [cont?_setCont_self, hx]
                simp [hsd.sig_eq]
            · rw [hB q hq]
          refine deep_of_track (p := p) (Mv := fun _ => False) (Mo := fun z => old.pay = .ref z ∧ (w3.cont? z).isSome)
            (fun z hz _ => h2o z hz) hB hpne
            (by rw [hp]; rfl) (by rw [hp']; rfl) (inl_of_form hp h2p hinl') (fun m hm => absurd hm id) ?_
            (ND.track U3) (ext_of_post post12) (ext_of_post post23) (ext_of_post post34)
            ?_ (kept_of_post post23) U'
          · rintro m ⟨hm, hl3⟩
            have hmp : m ≠ p := fun e => hpne ⟨e ▸ hm, e ▸ hl3⟩
            obtain ⟨c, hc⟩ := Option.isSome_iff_exists.1 (hlive3 m hmp hl3)
            obtain ⟨c', _, _, _, _, hno⟩ := hback m c hm hc
            exact hno
          · intro id s hs
            exact kept_of_post post34 id s (hasSlab_congr (fun z => (hfin z).symm) hs)
  · cases h

end Atree.Deep
