import AtreeProofs.Props.C10WPop
import AtreeProofs.Props.C10WPopOps
import AtreeProofs.World.PopScenario
import AtreeProofs.World.OkScenario
/-
  NON-VACUITY of the theorems of `Props/C10WPop.lean`, on worlds obtained by RUNNING the model
  (T = 256), with the invariant established by chaining the operation theorems:

  * run H — why `WorldOk` itself does not survive a pop: root array `R` ∋ inlined array `F` ∋ `X`;
    `X` is removed from `F` (its closure keeps naming `F`), then `R` is popped: `F` is disposed of,
    the live `X` keeps a closure that names a container that no longer exists.
  * run P — the depth-3 world of `World/OkScenario.lean` (`R` ∋ inlined map `M` ∋ inlined wrapped
    array `A`; `R` ∋ standalone `B`): the inlined map `M` is popped through its handle, its inlined
    child `A` is disposed of (`worldOk_mapPop`).
  * run K — the same pop, the caller KEEPING `A` (an in-memory slab): `WorldOkKept`, the invariant
    fails exactly at `A`; `A` is mutated through its handle (nothing else changes); `A` is disposed
    of: the invariant holds again.
-/
namespace Atree.PopOkScenario
open Atree Gen World
open Atree.Scenario (okW eq_okW okE eq_okE w0 cx0)
open Atree.PopScenario (okL eq_okL okK eq_okK)
open Atree.OkScenario (D pl unrefB unrefB_sound freshB freshB_live not_anc_of_fresh holds_of_check cont?_getD)
open Atree.C10W

/-! ### kernel-evaluable copies of the pops with kept containers -/

def arrPopKeepS (w : World) (h : SlabID) (keep : List SlabID) (cx : Ctx) : Except WErr (List Elem × World × Ctx) :=
  match w.cont? h with
  | some (.arr a) =>
    let (es, a', cx) := a.popIterate cx
    let w := w.setCont h (.arr a')
    let w := w.setIdx h []
    let w := w.forgetElems (disposed keep es)
    match notifyS w.fuelOf w h cx with
    | .error e => .error e
    | .ok (w, cx) => .ok (es, w, cx)
  | _ => .error .unknownContainer

/-- evaluable copy of `mapPopKeep` -/
def mapPopKeepS (w : World) (h : SlabID) (keep : List SlabID) (cx : Ctx) :
    Except WErr (List (MKey × Elem) × World × Ctx) :=
  match w.cont? h with
  | some (.map m) =>
    let (kvs, m', cx) := m.popIterate cx
    let w := w.setCont h (.map m')
    let w := w.forgetElems (disposed keep (kvs.map (·.2)))
    match notifyS w.fuelOf w h cx with
    | .error e => .error e
    | .ok (w, cx) => .ok (kvs, w, cx)
  | _ => .error .unknownContainer

/-- the evaluable copy is the model -/
theorem arrPopKeep_eq_S : arrPopKeep = arrPopKeepS := by
  funext w h keep cx
  unfold arrPopKeep arrPopKeepS
  simp only [notifyParent_eq_notifyS]
  rfl

/-- the evaluable copy is the model -/
theorem mapPopKeep_eq_S : mapPopKeep = mapPopKeepS := by
  funext w h keep cx
  unfold mapPopKeep mapPopKeepS
  simp only [notifyParent_eq_notifyS]
  rfl

/-! ### a decidable check of "the handle of `x`, held by the array `p` whose handle is current, is current" -/

def curArrB (w : World) (x p : SlabID) : Bool :=
  match AList.find? w.hinfo x, w.cont? p with
  | some hi, some (.arr pa) =>
    hi.parent == p &&
    (match AList.find? (w.idxOf p) x with
     | some i => (match pa.toList[i]? with
        | some e => e.pay == .ref x
        | none => false)
     | none => false)
  | _, _ => false

/-- soundness of `curArrB` -/
theorem handleOk_of_curArrB {w : World} {x p : SlabID} (h : curArrB w x p = true) (hp : HandleOk w p) :
    HandleOk w x := by
  unfold curArrB at h
  split at h
  · rename_i hi pa hhi hpa
    simp only [Bool.and_eq_true, beq_iff_eq] at h
    obtain ⟨h1, h2⟩ := h
    split at h2
    · rename_i i hidx
      split at h2
      · rename_i e he
        simp only [beq_iff_eq] at h2
        refine HandleOk.child x hi hhi ⟨maxInlineArr w.T, e, Or.inl ⟨pa, i, ?_, ?_, he, h2, rfl⟩⟩ (by rw [h1]; exact hp)
        · rw [h1]; exact hpa
        · rw [h1]; exact hidx
      · cases h2
    · cases h2
  · cases h

/-! ### run H: `hinfoLive` fails after a pop -/

def R : SlabID := ⟨1, 1⟩
/-- the array inlined in `R` -/
def F : SlabID := ⟨1, 2⟩
/-- the array inserted into `F`, then removed -/
def X : SlabID := ⟨1, 3⟩

/-- `R` created -/
def h1 : SlabID × World × Ctx := w0.newArr 7 cx0
/-- `F` created -/
def h2 : SlabID × World × Ctx := h1.2.1.newArr 8 h1.2.2
/-- `X` created -/
def h3 : SlabID × World × Ctx := h2.2.1.newArr 9 h2.2.2
/-- `F` inserted into `R` (inlined) -/
def h4 : World × Ctx := okW (h3.2.1.arrInsertS R 0 (.child F 0) h3.2.2)
/-- `X` inserted into `F` -/
def h5 : World × Ctx := okW (h4.1.arrInsertS F 0 (.child X 0) h4.2)
/-- `X` removed from `F`: handed back, its closure still names `F` -/
def h6 : Elem × World × Ctx := okE (h5.1.arrRemoveS F 0 h5.2)
/-- `R` popped: `F` is disposed of -/
def h7 : List Elem × World × Ctx := okL (h6.2.1.arrPopS R h6.2.2)

/-- the three fresh containers satisfy the invariant -/
theorem okH3 : WorldOk D h3.2.1 h3.2.2.ctr :=
  (newArr_ok (D := D) (ty := 9) (newArr_ok (D := D) (ty := 8) OkScenario.ok1.1).1).1

/-- the model run of the insertion of `F` into `R` -/
theorem runH4 : h3.2.1.arrInsert R 0 (.child F 0) h3.2.2 = .ok h4 := by
  rw [arrInsert_eq_S]; exact eq_okW _ (by decide)

/-- invariant and handle of `F` after its insertion into `R` -/
theorem okH4 : WorldOk D h4.1 h4.2.ctr ∧ HandleOk h4.1 F := by
  have hv : WValOk h3.2.1 R (maxInlineArr h3.2.1.T) (.child F 0) :=
    ⟨freshB_live (by decide), unrefB_sound (by decide), not_anc_of_fresh (by decide) (by decide), by decide⟩
  obtain ⟨g1, _, g3, _, _⟩ := arrInsert_ok okH3 (HandleOk.root _ (unrefB_sound (by decide))) hv runH4
  obtain ⟨a, a', e, _, _, _, _, _, hch⟩ := g3
  exact ⟨g1, (hch F 0 rfl).2.1⟩

/-- the model run of the insertion of `X` into `F` -/
theorem runH5 : h4.1.arrInsert F 0 (.child X 0) h4.2 = .ok h5 := by
  rw [arrInsert_eq_S]; exact eq_okW _ (by decide)

/-- invariant and handle of `F` after the insertion of `X` -/
theorem okH5 : WorldOk D h5.1 h5.2.ctr ∧ HandleOk h5.1 F := by
  have hv : WValOk h4.1 F (maxInlineArr h4.1.T) (.child X 0) :=
    ⟨freshB_live (by decide), unrefB_sound (by decide), not_anc_of_fresh (by decide) (by decide), by decide⟩
  obtain ⟨g1, _, _, g4, _⟩ := arrInsert_ok okH4.1 okH4.2 hv runH5
  exact ⟨g1, g4⟩

/-- the model run of the removal of `X` from `F` -/
theorem runH6 : h5.1.arrRemove F 0 h5.2 = .ok h6 := by
  rw [arrRemove_eq_S]; exact eq_okE _ (by decide)

/-- the world before the pop satisfies the FULL invariant `WorldOk` -/
theorem okH6 : WorldOk D h6.2.1 h6.2.2.ctr := (arrRemove_ok okH5.1 okH5.2 runH6).1

/-- the model run of the pop of `R` -/
theorem runH7 : h6.2.1.arrPop R h6.2.2 = .ok h7 := by
  rw [arrPop_eq_S]; exact eq_okL _ (by decide)

/-- the world after the pop: `X` is live, its closure names `F`, and `F` is gone -/
theorem h7_facts :
    (h7.2.1.cont? X).isSome = true ∧ (AList.find? h7.2.1.hinfo X).map (·.parent) = some F ∧
    (h7.2.1.cont? F).isSome = false := by decide

/-- `WorldOk` holds before the pop, the pop goes through a current handle and succeeds, and
    `WorldOk` FAILS afterwards (clause `hinfoLive`), whereas `WorldOk'` holds. -/
theorem hinfoLive_fails :
    WorldOk D h6.2.1 h6.2.2.ctr ∧ HandleOk h6.2.1 R ∧ h6.2.1.arrPop R h6.2.2 = .ok h7 ∧
    ¬ HinfoLive h7.2.1 ∧ (∀ ctr, ¬ WorldOk D h7.2.1 ctr) ∧ WorldOk' D h7.2.1 h7.2.2.ctr := by
  have hR : HandleOk h6.2.1 R := HandleOk.root _ (unrefB_sound (by decide))
  have hnl : ¬ HinfoLive h7.2.1 := by
    intro hl
    obtain ⟨_, f2, f3⟩ := h7_facts
    cases hx : AList.find? h7.2.1.hinfo X with
    | none => rw [hx] at f2; cases f2
    | some hi =>
      rw [hx] at f2
      simp only [Option.map_some, Option.some.injEq] at f2
      have := hl X hi hx
      rw [f2, f3] at this
      cases this
  refine ⟨okH6, hR, runH7, hnl, fun ctr H => ?_, ?_⟩
  · obtain ⟨_, H0⟩ := H
    exact hnl H0.hinfoLive
  · obtain ⟨a, _, _, g3, _⟩ := worldOk_arrPop D _ R _ _ _ _ (worldOk'_of_worldOk okH6) hR runH7
    exact g3

/-! ### run P: the inlined map `M` of the depth-3 world is popped through its handle -/

open Atree.OkScenario (t14 M A B K1)

/-- the depth-3 world -/
def v0 : World × Ctx := t14

/-- the depth-3 world satisfies `WorldOk'` -/
theorem okV0 : WorldOk' D v0.1 v0.2.ctr := worldOk'_of_worldOk OkScenario.scenario_worldOk.1

/-- the handle of `M` (slot 0 of the root array `R`) is current -/
theorem handleM : HandleOk v0.1 M :=
  handleOk_of_curArrB (p := OkScenario.R) (by decide) (HandleOk.root _ (unrefB_sound (by decide)))

/-- `M` popped through its handle (everything handed out is disposed of) -/
def p1 : List (MKey × Elem) × World × Ctx := okK (v0.1.mapPopS M v0.2)

/-- the model run of the pop of `M` -/
theorem runP1 : v0.1.mapPop M v0.2 = .ok p1 := by
  rw [mapPop_eq_S]; exact eq_okK _ (by decide)

/-- shape of the world after the pop: `A` is gone, `M` is an empty map still inlined in `R`, whose
    element has shrunk from 80 to 22 bytes; `B` is untouched -/
theorem p1_facts :
    (p1.2.1.cont? A).isSome = false ∧
    (p1.2.1.cont? M).map Cont.pays = some [] ∧ (p1.2.1.cont? M).map Cont.isInlined = some true ∧
    (p1.2.1.cont? OkScenario.R).map Cont.pays = some [.ref M, .ref B] ∧
    (p1.2.1.cont? OkScenario.R).map (fun c => c.storedElems.map (·.size)) = some [22, 19] ∧
    (p1.2.1.cont? B).map Cont.rootSize = some 125 ∧
    p1.1.map (·.2.pay) = [.ref A] := by decide

/-- the invariant holds after the pop, by `worldOk_mapPop` -/
theorem okP1 : WorldOk' D p1.2.1 p1.2.2.ctr ∧ HandleOk p1.2.1 M ∧ PoppedAt p1.2.1 M ((v0.1.cont? M).getD (.arr (Arr.new 0 0 cx0).1)) := by
  obtain ⟨m, g1, _, g3, _, g5, _, g7, _⟩ := worldOk_mapPop D _ M _ _ _ _ okV0 handleM runP1
  refine ⟨g3, g7, ?_⟩
  rw [g1]; exact g5

/-! ### run K: the same pop, `A` kept by the caller, mutated, then disposed of -/

def k1 : List (MKey × Elem) × World × Ctx := okK (mapPopKeepS v0.1 M [A] v0.2)

/-- the model run of the pop of `M` with `A` kept -/
theorem runK1 : v0.1.mapPopKeep M [A] v0.2 = .ok k1 := by
  rw [mapPopKeep_eq_S]; exact eq_okK _ (by decide)

/-- a value inserted through the handle of the kept `A` -/
def k2 : World × Ctx := okW (k1.2.1.arrInsertS A 1 (pl 9) k1.2.2)

/-- the model run of the insertion through the kept `A` -/
theorem runK2 : k1.2.1.arrInsert A 1 (pl 9) k1.2.2 = .ok k2 := by
  rw [arrInsert_eq_S]; exact eq_okW _ (by decide)

/-- `A` disposed of by the caller -/
def k3 : World := World.forget k2.1.fuelOf k2.1 A

/-- shapes along run K -/
theorem k_facts :
    -- after the pop with `A` kept: `A` is live, still inlined, referenced by nobody
    (k1.2.1.cont? A).map Cont.isInlined = some true ∧ (k1.2.1.cont? A).map Cont.pays = some [.val 1] ∧
    unrefB k1.2.1 A = true ∧ (k1.2.1.cont? M).map Cont.pays = some [] ∧
    -- after the mutation of `A`: only `A` has changed
    (k2.1.cont? A).map Cont.pays = some [.val 1, .val 9] ∧
    (k2.1.cont? M).map Cont.pays = some [] ∧
    (k2.1.cont? OkScenario.R).map (fun c => c.storedElems.map (·.size)) = some [22, 19] ∧
    -- after the disposal
    (k3.cont? A).isSome = false ∧ (k3.cont? M).isSome = true ∧ (k3.cont? B).isSome = true := by decide

/-- The chain: `WorldOkKept` after the pop with `A` kept; `A` (inlined) is an in-memory slab
    referenced by nobody, so the invariant fails — at `A` only; the mutation of `A` changes no
    other container; after the disposal of `A` the invariant holds again. -/
theorem okK :
    (∃ m, v0.1.cont? M = some (.map m) ∧ WorldOkKept D (KeptOf [A] (.map m)) k1.2.1 k1.2.2.ctr) ∧
    DetachedRoot k1.2.1 A ∧ (∀ ctr, ¬ WorldOk' D k1.2.1 ctr) ∧
    SigFrame k1.2.1 k2.1 A ∧
    WorldOk' D k3 k2.2.ctr := by
  obtain ⟨m, g1, _, g3, _, _, g6, _, _⟩ := worldOk_mapPopKeep D _ M [A] _ _ _ _ okV0 handleM runK1
  have hA := cont?_getD (w := v0.1) (x := A) (.arr (Arr.new 0 0 cx0).1) (by decide)
  have hpays : (v0.1.cont? M).map Cont.pays = some [.ref A] := by decide
  have hkc : Pay.ref A ∈ (Cont.map m).pays := by
    rw [g1] at hpays
    simp only [Option.map_some, Option.some.injEq] at hpays
    rw [hpays]; simp
  obtain ⟨c1, c2, _, _, c5, _, _⟩ := kept_child_after_pop D _ _ M A _ _ _ g3 g6 hkc hA
  have hinl : ((v0.1.cont? A).getD (.arr (Arr.new 0 0 cx0).1)).isInlined = true := by decide
  have hK : ∀ x, KeptOf [A] (.map m) x → x = A := fun x hx => by simpa using hx.1
  obtain ⟨_, d2, _, _, d5, _⟩ := kept_child_arrInsert D _ _ A 1 ⟨20, .val 9⟩ _ _ _ g3 c2
    ⟨⟨by decide, 9, rfl⟩, by decide⟩ runK2
  exact ⟨⟨m, g1, g3⟩, c2, (c5 hinl).2, d2, d5 hK⟩

/-! ### the operation theorems for `WorldOk'` at work after a pop -/

/-- run H continued: a value is inserted through the handle of `X` in the world where `WorldOk`
    fails (the closure of `X` names the disposed `F`) -/
def h8 : World × Ctx := okW (h7.2.1.arrInsertS X 0 (pl 1) h7.2.2)

/-- the model run of the insertion through `X` -/
theorem runH8 : h7.2.1.arrInsert X 0 (pl 1) h7.2.2 = .ok h8 := by
  rw [arrInsert_eq_S]; exact eq_okW _ (by decide)

/-- `worldOk'_arrInsert` applies in a world that does not satisfy `WorldOk`; the notification of `X`
    finds no parent and drops the stale closure: afterwards even `WorldOk` holds again -/
theorem okH8 : WorldOk' D h8.1 h8.2.ctr ∧ AList.find? h8.1.hinfo X = none ∧ WorldOk D h8.1 h8.2.ctr := by
  have hv : WValOk h7.2.1 X (maxInlineArr h7.2.1.T) (pl 1) := ⟨⟨by decide, 1, rfl⟩, by decide⟩
  obtain ⟨g1, _⟩ := worldOk'_arrInsert D _ X 0 _ _ _ _ hinfoLive_fails.2.2.2.2.2
    (HandleOk.root _ (unrefB_sound (by decide))) hv runH8
  have hnone : AList.find? h8.1.hinfo X = none := by decide
  refine ⟨g1, hnone, worldOk_of_worldOk' g1 ?_⟩
  intro x hi hx
  have hall : h8.1.hinfo.all (fun e => (h8.1.cont? e.2.parent).isSome) = true := by decide
  have := List.all_eq_true.mp hall (x, hi) (OkScenario.find?_mem hx)
  simpa using this

/-- run P continued: a value stored under `K1` in the emptied map `M` through its handle (which the
    pop has kept current) -/
def p2 : Option Elem × World × Ctx := OkScenario.okM (OkScenario.mapSetS p1.2.1 M K1 (pl 5) p1.2.2)

/-- the model run of the `mapSet` through `M` -/
theorem runP2 : p1.2.1.mapSet M K1 (pl 5) p1.2.2 = .ok p2 := by
  rw [OkScenario.mapSet_eq_S]; exact OkScenario.eq_okM _ (by decide)

/-- `worldOk'_mapSet` applies after the pop; the parent `R` accounts 61 bytes for `M` -/
theorem okP2 : WorldOk' D p2.2.1 p2.2.2.ctr ∧ (p2.2.1.cont? M).map Cont.pays = some [.val 5] ∧
    (p2.2.1.cont? OkScenario.R).map (fun c => c.storedElems.map (·.size)) = some [61, 19] := by
  have hv : WValOk p1.2.1 M (maxInlineMapValue p1.2.1.T K1.size) (pl 5) := ⟨⟨by decide, 5, rfl⟩, by decide⟩
  obtain ⟨g1, _⟩ := worldOk'_mapSet D _ M K1 _ _ _ _ _ okP1.1 okP1.2.1 OkScenario.keyOk_K1 hv runP2
  exact ⟨g1, by decide, by decide⟩

end Atree.PopOkScenario
