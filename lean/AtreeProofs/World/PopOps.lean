import AtreeProofs.World.PopFrame
import AtreeProofs.World.RootStable
/-
  `arrPop` / `mapPop` = (emptying `h` in place) ; (`forgetElems` of what was popped) ;
  (`notifyParent` from `h`).  This file describes the state at the call of `notifyParent`
  (`Emptied`, `mid_…` lemmas), generically for arrays and maps.
-/
namespace Atree
open Gen
namespace World

/-- `w0` is `w` with the container `h` replaced by an empty one (`c0`), and possibly another
    index table for `h`; nothing else differs -/
structure Emptied (w : World) (h : SlabID) (c0 : Cont) (w0 : World) : Prop where
  T : w0.T = w.T
  addr : w0.addr = w.addr
  hinfo : w0.hinfo = w.hinfo
  cont_h : w0.cont? h = some c0
  cont_ne : ∀ y, y ≠ h → w0.cont? y = w.cont? y
  idx_ne : ∀ y, y ≠ h → AList.find? w0.mutIdx y = AList.find? w.mutIdx y
  empty : c0.storedElems = []
  was : (w.cont? h).isSome

namespace Emptied
variable {w w0 : World} {h : SlabID} {c0 : Cont}

theorem isSome_iff (E : Emptied w h c0 w0) (y : SlabID) : (w0.cont? y).isSome = (w.cont? y).isSome := by
  by_cases hy : y = h
  · subst hy; rw [E.cont_h, E.was]; rfl
  · rw [E.cont_ne y hy]

/-- emptying `h` only removes edges of the element-reference graph -/
theorem reach_of (E : Emptied w h c0 w0) {v x : SlabID} (hr : Reach w0 v x) : Reach w v x := by
  induction hr with
  | refl hv => exact Reach.refl (by rw [← E.isSome_iff]; exact hv)
  | @step u v x c e hc he hp _ ih =>
    by_cases hu : u = h
    · subst hu
      rw [E.cont_h] at hc; cases hc
      rw [E.empty] at he; cases he
    · exact Reach.step (by rw [← E.cont_ne u hu]; exact hc) he hp ih

/-- a path that never meets `h` survives the emptying of `h` -/
theorem reach_to (E : Emptied w h c0 w0) {v x : SlabID} (hr : Reach w v x) (hn : ¬ Reach w v h) :
    Reach w0 v x := by
  induction hr with
  | refl hv => exact Reach.refl (by rw [E.isSome_iff]; exact hv)
  | @step u v x c e hc he hp hre ih =>
    have hu : u ≠ h := by
      intro hu; subst hu
      exact hn (Reach.refl (by rw [hc]; rfl))
    refine Reach.step (by rw [E.cont_ne u hu]; exact hc) he hp (ih ?_)
    intro hvh
    exact hn (Reach.step hc he hp hvh)

theorem notBelow (E : Emptied w h c0 w0) {es : List Elem} {x : SlabID} (hx : NotBelow w es x) :
    NotBelow w0 es x :=
  fun e he v hv hr => hx e he v hv (E.reach_of hr)

/-! #### the state after `forgetElems` -/

theorem mid_shrink (_ : Emptied w h c0 w0) (es : List Elem) : Shrink w0 (w0.forgetElems es) :=
  (forgetElems_spec es w0).1

theorem mid_T (E : Emptied w h c0 w0) (es : List Elem) : (w0.forgetElems es).T = w.T := by
  rw [(E.mid_shrink es).T, E.T]

theorem mid_mcfg (E : Emptied w h c0 w0) (es : List Elem) : (w0.forgetElems es).mcfg = w.mcfg := by
  simp only [World.mcfg, (E.mid_shrink es).T, (E.mid_shrink es).addr, E.T, E.addr]

/-- `h` itself, when it is not nested below what it held -/
theorem mid_h (E : Emptied w h c0 w0) {es : List Elem} (hfree : NotBelow w es h) :
    (w0.forgetElems es).cont? h = some c0 ∧
    AList.find? (w0.forgetElems es).hinfo h = AList.find? w.hinfo h ∧
    AList.find? (w0.forgetElems es).mutIdx h = AList.find? w0.mutIdx h := by
  obtain ⟨k1, k2, k3⟩ := forgetElems_keep (E.notBelow hfree)
  exact ⟨k1.trans E.cont_h, by rw [k2, E.hinfo], k3⟩

/-- every other container outside the popped subtree -/
theorem mid_other (E : Emptied w h c0 w0) {es : List Elem} {x : SlabID} (hx : NotBelow w es x) (hne : x ≠ h) :
    (w0.forgetElems es).cont? x = w.cont? x ∧
    AList.find? (w0.forgetElems es).hinfo x = AList.find? w.hinfo x ∧
    AList.find? (w0.forgetElems es).mutIdx x = AList.find? w.mutIdx x ∧
    (w0.forgetElems es).idxOf x = w.idxOf x := by
  obtain ⟨k1, k2, k3⟩ := forgetElems_keep (E.notBelow hx)
  have k3' := k3.trans (E.idx_ne x hne)
  exact ⟨k1.trans (E.cont_ne x hne), by rw [k2, E.hinfo], k3', by simp only [idxOf, k3']⟩

/-- the popped subtree is gone -/
theorem mid_gone (E : Emptied w h c0 w0) {es : List Elem} (hfree : NotBelow w es h)
    {e : Elem} {v x : SlabID} (he : e ∈ es) (hp : e.pay = .ref v) (hr : Reach w v x) :
    (w0.forgetElems es).cont? x = none :=
  forgetElems_reach_none he hp (E.reach_to hr (hfree e he v hp))

/-- nothing else is -/
theorem mid_isSome (E : Emptied w h c0 w0) {es : List Elem} {x : SlabID} (hx : NotBelow w es x) :
    ((w0.forgetElems es).cont? x).isSome = (w.cont? x).isSome := by
  rw [(forgetElems_keep (E.notBelow hx)).1, E.isSome_iff]

theorem mid_rankOk (E : Emptied w h c0 w0) (es : List Elem) {rank : SlabID → Nat} (hr : RankOk rank w) :
    RankOk rank (w0.forgetElems es) := by
  intro y hi hy
  have s := E.mid_shrink es
  rcases s.keep y with ⟨_, a, _⟩ | ⟨_, _, b, _⟩
  · rw [a, E.hinfo] at hy; exact hr y hi hy
  · rw [b] at hy; cases hy

theorem mid_idsOk (E : Emptied w h c0 w0) (es : List Elem) (hids : IdsOk w) (hid : c0.vid = h) :
    IdsOk (w0.forgetElems es) := by
  intro y c hy
  have hy0 := (E.mid_shrink es).some_of_some hy
  by_cases hyh : y = h
  · subst hyh; rw [E.cont_h] at hy0; cases hy0; exact hid
  · rw [E.cont_ne y hyh] at hy0; exact hids y c hy0

end Emptied

/-! ### instances -/

theorem emptied_arr {w : World} {h : SlabID} {a : Arr} (hc : w.cont? h = some (.arr a)) (cx : Ctx) :
    Emptied w h (.arr (a.popIterate cx).2.1) ((w.setCont h (.arr (a.popIterate cx).2.1)).setIdx h []) := by
  refine ⟨rfl, rfl, rfl, by simp, fun y hy => by simp [Ne.symm hy], fun y hy => ?_, rfl, by rw [hc]; rfl⟩
  simp only [World.setIdx, World.setCont, AList.find?_insert, if_neg (Ne.symm hy)]

theorem emptied_map {w : World} {h : SlabID} {m : OMap 3} (hc : w.cont? h = some (.map m)) (cx : Ctx) :
    Emptied w h (.map (m.popIterate cx).2.1) (w.setCont h (.map (m.popIterate cx).2.1)) := by
  refine ⟨rfl, rfl, rfl, by simp, fun y hy => by simp [Ne.symm hy], fun y hy => rfl, rfl, by rw [hc]; rfl⟩

/-- the state at the call of `notifyParent` inside `arrPop` -/
def arrPopMid (w : World) (h : SlabID) (a : Arr) (cx : Ctx) : World :=
  ((w.setCont h (.arr (a.popIterate cx).2.1)).setIdx h []).forgetElems (a.popIterate cx).1

/-- the state at the call of `notifyParent` inside `mapPop` -/
def mapPopMid (w : World) (h : SlabID) (m : OMap 3) (cx : Ctx) : World :=
  (w.setCont h (.map (m.popIterate cx).2.1)).forgetElems ((m.popIterate cx).1.map (·.2))

/-- `arrPop` succeeds only on arrays -/
theorem arrPop_isArr {w : World} {h : SlabID} {cx : Ctx} {es : List Elem} {w' : World} {cx' : Ctx}
    (hp : w.arrPop h cx = .ok (es, w', cx')) : ∃ a, w.cont? h = some (.arr a) := by
  unfold arrPop at hp
  split at hp
  · exact ⟨_, by assumption⟩
  · cases hp

theorem mapPop_isMap {w : World} {h : SlabID} {cx : Ctx} {kvs : List (MKey × Elem)} {w' : World} {cx' : Ctx}
    (hp : w.mapPop h cx = .ok (kvs, w', cx')) : ∃ m, w.cont? h = some (.map m) := by
  unfold mapPop at hp
  split at hp
  · exact ⟨_, by assumption⟩
  · cases hp

/-- `arrPop` = emptying in place, disposal of what was popped, ordinary parent notification -/
theorem arrPop_ok {w : World} {h : SlabID} {cx : Ctx} {a : Arr} {es : List Elem} {w' : World} {cx' : Ctx}
    (hc : w.cont? h = some (.arr a)) (hp : w.arrPop h cx = .ok (es, w', cx')) :
    es = (a.popIterate cx).1 ∧
    notifyParent ((arrPopMid w h a cx).conts.length + 1 + 1) (arrPopMid w h a cx) h (a.popIterate cx).2.2
      = .ok (w', cx') := by
  unfold arrPop at hp
  rw [hc] at hp
  simp only at hp
  split at hp
  · cases hp
  · rename_i w1 cx1 hn
    cases hp
    exact ⟨rfl, hn⟩

theorem mapPop_ok {w : World} {h : SlabID} {cx : Ctx} {m : OMap 3} {kvs : List (MKey × Elem)} {w' : World} {cx' : Ctx}
    (hc : w.cont? h = some (.map m)) (hp : w.mapPop h cx = .ok (kvs, w', cx')) :
    kvs = (m.popIterate cx).1 ∧
    notifyParent ((mapPopMid w h m cx).conts.length + 1 + 1) (mapPopMid w h m cx) h (m.popIterate cx).2.2
      = .ok (w', cx') := by
  unfold mapPop at hp
  rw [hc] at hp
  simp only at hp
  split at hp
  · cases hp
  · rename_i w1 cx1 hn
    cases hp
    exact ⟨rfl, hn⟩

/-! ### the notification from the emptied container -/

/-- What any notification does to the notifying container and to the rest of the world, with
    acyclic parent pointers: same data, same value ID, same index table; same set of containers. -/
theorem notify_self {rank : SlabID → Nat} {fuel : Nat} {w : World} {x : SlabID} {cx : Ctx} {w' : World} {cx' : Ctx}
    (hr : RankOk rank w) {c : Cont} (hc : w.cont? x = some c)
    (h : notifyParent fuel w x cx = .ok (w', cx')) :
    (∃ c', w'.cont? x = some c' ∧ Cont.SameData c c') ∧ w'.idxOf x = w.idxOf x ∧
    (∀ z, (w'.cont? z).isSome = (w.cont? z).isSome) ∧ (IdsOk w → IdsOk w') := by
  obtain ⟨_, _, g3⟩ := (mutual_frame rank fuel).1 _ _ _ _ _ hr h
  rw [hc] at g3
  have d := notifyParent_domRel h
  exact ⟨g3.get_some, notifyParent_idxOf hr h (Nat.le_refl _), d.2.2.1, fun hi => d.idsOk (rootStable _ _) hi⟩

/-- the callback finds nothing in the recorded parent -/
def Detached (w : World) (x : SlabID) (hi : HInfo) : Prop :=
  w.cont? hi.parent = none ∨
  (∃ pa, w.cont? hi.parent = some (.arr pa) ∧
    (AList.find? (w.idxOf hi.parent) x = none ∨
     ∃ idx el, AList.find? (w.idxOf hi.parent) x = some idx ∧ pa.get idx = .ok el ∧ el.pay ≠ .ref x)) ∨
  (∃ pm k, w.cont? hi.parent = some (.map pm) ∧ hi.key = some k ∧
    (pm.get w.mcfg k = .error .keyNotFound ∨ ∃ k' el, pm.get w.mcfg k = .ok (k', el) ∧ el.pay ≠ .ref x))

/-- a detached child notifies nobody (all cases of C11, and the case of a vanished parent) -/
theorem notify_detached {fuel : Nat} {w : World} {x : SlabID} {hi : HInfo} {cx : Ctx} {c : Cont}
    (hh : AList.find? w.hinfo x = some hi) (hc : w.cont? x = some c) (hd : Detached w x hi) :
    notifyParent (fuel + 1) w x cx = .ok (w, cx) ∨
    notifyParent (fuel + 1) w x cx = .ok ({ w with hinfo := AList.erase w.hinfo x }, cx) := by
  rcases hd with hnone | ⟨pa, hpa, hslot⟩ | ⟨pm, k, hpm, hk, hslot⟩
  · rw [notifyParent]
    simp only [hh, hc, hnone]
    split
    · left; rfl
    · right; rfl
  · rcases hslot with hgone | ⟨idx, el, hidx, hget, hother⟩
    · rw [notifyParent]
      simp only [hh, hc, hpa, hgone]
      split
      · left; rfl
      · right; rfl
    · rw [notifyParent]
      simp only [hh, hc, hpa, hidx, hget]
      split
      · left; rfl
      · right; first | rfl | (rw [if_pos hother])
  · rw [notifyParent]
    simp only [hh, hc, hpm, hk]
    split
    · left; rfl
    · right
      rcases hslot with h | ⟨k', el, h, hne⟩
      · rw [h]
      · rw [h]; first | rfl | (simp only; rw [if_pos hne])

end World
end Atree
