import AtreeProofs.World.HeapCont
import AtreeProofs.Map.EffectsTop
import AtreeProofs.World.MapRefW
/-
  Heap accounts of an INLINED map: its root data slab is embedded in the parent's slab, but it may
  own external collision-group slabs.  `OMap.set / remove` on such a map rewrite the group slabs
  (account `set0_acct` / `remove0_acct` of the first level of the data slab) and store nothing else.
-/
namespace Atree
open Gen

variable {r : Nat} {T : Nat}

/-- `MDataSlab.set` on an inlined slab: only the group slabs are touched -/
theorem mdataInl_set_acct {cfg : MCfg} (s s' : MDataSlab r) {k : MKey} {v : Elem} {c c' : Ctx} {ks : MKey}
    {old : Option Elem} (hinl : s.inlined = true)
    (hF : ∀ el ∈ s.elems.elems, FirstOk (NoExt r) el)
    (hnd : (AList.keys (grp s.elems.elems)).Nodup)
    (hold : ∀ id ∈ AList.keys (grp s.elems.elems), Old cfg.addr c.ctr id)
    (h : s.set cfg k v c = .ok (ks, old, s', c')) :
    s'.hdr.id = s.hdr.id ∧ s'.inlined = true ∧ ∃ E C, MLog cfg.addr c c' E C ∧
      MAcct cfg.addr c.ctr c'.ctr (grp s.elems.elems) (grp s'.elems.elems) E (C.map (·.1)) := by
  unfold MDataSlab.set at h
  obtain ⟨⟨ks', old', elems, c1⟩, hset, h⟩ := mbind_eq_ok h
  simp only [pure, Except.pure, Except.ok.injEq, Prod.mk.injEq] at h
  obtain ⟨_, _, rfl, rfl⟩ := h
  refine ⟨rfl, hinl, ?_⟩
  have hE : OpsEff cfg (MDataSlab.eops r) (NoExt r) := MElems.opsEff cfg r
  obtain ⟨E, C, hlog, hacct⟩ := set0_acct hE hF hnd hold hset
  simp only [MDataSlab.storeIfNotInlined, hinl, if_true]
  exact ⟨E, C, hlog, hacct⟩

theorem mdataInl_remove_acct {cfg : MCfg} (s s' : MDataSlab r) {k : MKey} {c c' : Ctx} {rk : MKey}
    {rv : Elem} (hinl : s.inlined = true)
    (hF : ∀ el ∈ s.elems.elems, FirstOk (NoExt r) el)
    (hnd : (AList.keys (grp s.elems.elems)).Nodup)
    (hold : ∀ id ∈ AList.keys (grp s.elems.elems), Old cfg.addr c.ctr id)
    (h : s.remove cfg k c = .ok (rk, rv, s', c')) :
    s'.hdr.id = s.hdr.id ∧ s'.inlined = true ∧ ∃ E, MLog cfg.addr c c' E [] ∧
      MAcct cfg.addr c.ctr c'.ctr (grp s.elems.elems) (grp s'.elems.elems) E [] := by
  unfold MDataSlab.remove at h
  obtain ⟨⟨rk', rv', elems, c1⟩, hrem, h⟩ := mbind_eq_ok h
  simp only [pure, Except.pure, Except.ok.injEq, Prod.mk.injEq] at h
  obtain ⟨_, _, rfl, rfl⟩ := h
  refine ⟨rfl, hinl, ?_⟩
  have hE : OpsEff cfg (MDataSlab.eops r) (NoExt r) := MElems.opsEff cfg r
  obtain ⟨E, hlog, hacct⟩ := remove0_acct hE hF hnd hold hrem
  simp only [MDataSlab.storeIfNotInlined, hinl, if_true]
  exact ⟨E, hlog, hacct⟩

theorem OMap.isInlined_succ {d : Nat} (x : MTree r (d + 1)) (ty cnt seed : Nat) :
    (⟨d + 1, x, ty, cnt, seed⟩ : OMap r).isInlined = false := rfl

theorem OMap.splitRoot_notInl {m m' : OMap r} {c c' : Ctx} (h : m.splitRoot c = .ok (m', c')) :
    m'.isInlined = false := by
  unfold OMap.splitRoot at h
  simp only [bind, Except.bind, pure, Except.pure] at h
  split at h
  · cases h
  · cases h; rfl

theorem OMap.splitRootIfFull_cases {T' : Nat} {m m3 : OMap r} {c c3 : Ctx} (h : m.splitRootIfFull T' c = .ok (m3, c3)) :
    m.splitRoot c = .ok (m3, c3) ∨ (m3 = m ∧ c3 = c) := by
  unfold OMap.splitRootIfFull at h
  split at h
  · exact Or.inl h
  · cases h; exact Or.inr ⟨rfl, rfl⟩

/-- `OMap.set` on an inlined map that stays inlined -/
theorem omapInl_set_acct {cfg : MCfg} (s : MDataSlab r) (ty cnt seed : Nat) {k : MKey} {v : Elem} {c c' : Ctx}
    {old : Option Elem} {m' : OMap r} (hinl : s.inlined = true)
    (hF : ∀ el ∈ s.elems.elems, FirstOk (NoExt r) el)
    (hnd : (AList.keys (grp s.elems.elems)).Nodup)
    (hold : ∀ id ∈ AList.keys (grp s.elems.elems), Old cfg.addr c.ctr id)
    (h : OMap.set cfg (⟨0, s, ty, cnt, seed⟩ : OMap r) k v c = .ok (old, m', c')) (hinl' : m'.isInlined = true) :
    ∃ (s' : MDataSlab r) (cnt' : Nat), m' = ⟨0, s', ty, cnt', seed⟩ ∧ s'.hdr.id = s.hdr.id ∧ s'.inlined = true ∧
      ∃ E C, MLog cfg.addr c c' E C ∧
        MAcct cfg.addr c.ctr c'.ctr (grp s.elems.elems) (grp s'.elems.elems) E (C.map (·.1)) := by
  simp only [OMap.set, bind, Except.bind, pure, Except.pure] at h
  split at h
  · cases h
  · rename_i res hset
    obtain ⟨ks, old1, t', c1⟩ := res
    have hset' : s.set cfg k v c = .ok (ks, old1, t', c1) := hset
    obtain ⟨hid, hi', E, C, hlog, hacct⟩ := mdataInl_set_acct s t' hinl hF hnd hold hset'
    simp only [OMap.promoteIfSingleChild] at h
    split at h
    · cases h
    · rename_i res2 hfix
      simp only [Except.ok.injEq, Prod.mk.injEq] at h
      obtain ⟨_, rfl, rfl⟩ := h
      obtain ⟨m3, c3⟩ := res2
      rcases OMap.splitRootIfFull_cases hfix with hsp | ⟨rfl, rfl⟩
      · -- the root split: the result would not be inlined
        rw [OMap.splitRoot_notInl hsp] at hinl'
        cases hinl'
      · exact ⟨t', _, rfl, hid, hi', E, C, hlog, hacct⟩

/-- `OMap.remove` on an inlined map that stays inlined -/
theorem omapInl_remove_acct {cfg : MCfg} (s : MDataSlab r) (ty cnt seed : Nat) {k : MKey} {c c' : Ctx}
    {rk : MKey} {rv : Elem} {m' : OMap r} (hinl : s.inlined = true)
    (hF : ∀ el ∈ s.elems.elems, FirstOk (NoExt r) el)
    (hnd : (AList.keys (grp s.elems.elems)).Nodup)
    (hold : ∀ id ∈ AList.keys (grp s.elems.elems), Old cfg.addr c.ctr id)
    (h : OMap.remove cfg (⟨0, s, ty, cnt, seed⟩ : OMap r) k c = .ok (rk, rv, m', c')) (hinl' : m'.isInlined = true) :
    ∃ (s' : MDataSlab r) (cnt' : Nat), m' = ⟨0, s', ty, cnt', seed⟩ ∧ s'.hdr.id = s.hdr.id ∧ s'.inlined = true ∧
      ∃ E, MLog cfg.addr c c' E [] ∧
        MAcct cfg.addr c.ctr c'.ctr (grp s.elems.elems) (grp s'.elems.elems) E [] := by
  simp only [OMap.remove, bind, Except.bind, pure, Except.pure] at h
  split at h
  · cases h
  · rename_i res hrem
    obtain ⟨rk1, rv1, t', c1⟩ := res
    have hrem' : s.remove cfg k c = .ok (rk1, rv1, t', c1) := hrem
    obtain ⟨hid, hi', E, hlog, hacct⟩ := mdataInl_remove_acct s t' hinl hF hnd hold hrem'
    simp only [OMap.promoteIfSingleChild] at h
    split at h
    · cases h
    · rename_i res2 hfix
      simp only [Except.ok.injEq, Prod.mk.injEq] at h
      obtain ⟨_, _, rfl, rfl⟩ := h
      obtain ⟨m3, c3⟩ := res2
      rcases OMap.splitRootIfFull_cases hfix with hsp | ⟨rfl, rfl⟩
      · rw [OMap.splitRoot_notInl hsp] at hinl'
        cases hinl'
      · exact ⟨t', _, rfl, hid, hi', E, hlog, hacct⟩

namespace World

/-- the slabs an inlined map owns: its external collision groups -/
theorem slabs_mapInl (s : MDataSlab 3) (ty cnt seed : Nat) (hi : s.inlined = true) :
    (Cont.map ⟨0, s, ty, cnt, seed⟩).slabs = (grp s.elems.elems).map (fun p =>
      (p.1, WSlab.map (.group p.2) (if p.1 = s.hdr.id then some (ty, cnt, seed) else none))) := by
  rw [Cont.slabs_of_inlined (c := .map ⟨0, s, ty, cnt, seed⟩) hi]
  simp only [Cont.treeSlabs, mslabs_zero, List.map_cons, List.tail_cons, groupSlabs_eq, List.map_map]
  rfl

theorem treeIds_mapInl (s : MDataSlab 3) (ty cnt seed : Nat) :
    (Cont.map ⟨0, s, ty, cnt, seed⟩).treeIds = s.hdr.id :: AList.keys (grp s.elems.elems) := by
  rw [Cont.treeIds_map]
  simp only [mslabs_zero, keys_cons', groupSlabs_eq]
  congr 1
  simp [AList.keys]

/-- an inlined map: the account of its group slabs is the account of the container -/
theorem cacct_of_macct_mapInl {s s' : MDataSlab 3} {ty cnt seed ty' cnt' seed' : Nat} {a c c' : Nat}
    {E : List Eff} {cr : List SlabID}
    (h : MAcct a c c' (grp s.elems.elems) (grp s'.elems.elems) E cr)
    (hi : s.inlined = true) (hi' : s'.inlined = true) (hid : s'.hdr.id = s.hdr.id)
    (hrid : s.hdr.id ∉ AList.keys (grp s.elems.elems)) (hold : s.hdr.id.idx ≤ c) :
    CAcct c c' (.map ⟨0, s, ty, cnt, seed⟩) (.map ⟨0, s', ty', cnt', seed'⟩) E cr := by
  have hs := slabs_mapInl s ty cnt seed hi
  have hs' := slabs_mapInl s' ty' cnt' seed' hi'
  have hk : (Cont.map ⟨0, s, ty, cnt, seed⟩).heapIds = AList.keys (grp s.elems.elems) := by
    unfold Cont.heapIds; rw [hs]; simp [AList.keys]
  have hk' : (Cont.map ⟨0, s', ty', cnt', seed'⟩).heapIds = AList.keys (grp s'.elems.elems) := by
    unfold Cont.heapIds; rw [hs']; simp [AList.keys]
  have hrid' : s.hdr.id ∉ AList.keys (grp s'.elems.elems) := by
    intro hm
    rcases h.keys_new _ hm with h1 | h1
    · exact hrid h1
    · have := h1.2.1; omega
  refine ⟨h.le, ?_, ?_, ?_, ?_, ?_, ?_, ?_⟩
  · intro p hp
    rw [hs'] at hp
    obtain ⟨q, hq, rfl⟩ := List.mem_map.1 hp
    have hq1 : q.1 ≠ s.hdr.id := fun e => hrid' (e ▸ mem_keys_of_mem hq)
    rcases h.kept q hq with h1 | h1
    · left
      rw [hs]
      refine List.mem_map.2 ⟨q, h1, ?_⟩
      simp only [hid, hq1, if_false]
    · exact Or.inr h1
  · intro id h1 h2
    rw [hk] at h1; rw [hk'] at h2
    exact h.gone id h1 h2
  · intro id h1; rw [hk']; exact h.stored id h1
  · intro id h1; rw [hk']; exact h.removed id h1
  · intro id h1
    rw [treeIds_mapInl]
    rcases h.foot id h1 with h2 | h2
    · exact Or.inl (List.mem_cons_of_mem _ h2)
    · exact Or.inr h2.2.1
  · intro id h1; exact (h.fresh id h1).2.1
  · intro id h1
    rw [treeIds_mapInl] at h1 ⊢
    rcases List.mem_cons.1 h1 with e | e
    · left; rw [e, hid]; exact List.mem_cons_self
    · rcases h.keys_new id e with h2 | h2
      · exact Or.inl (List.mem_cons_of_mem _ h2)
      · exact Or.inr h2.2.1

end World
end Atree
