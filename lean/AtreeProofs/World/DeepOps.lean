import AtreeProofs.World.DeepNotify
import AtreeProofs.World.HeapWOps2
import AtreeProofs.Props.C09W
/-
  DEEP ACCOUNT, part 9: from the tracked chain to the account of a whole operation.

  An operation through the handle of `p`:  `w` —(value handed in changes form; ONE core operation on
  `p`)→ `w2` —(notification from `p`)→ `w3` —(closure installed; value handed back un-inlined)→ `w'`.
  `deep_of_track`: every heap slab present before and after with the same shallow content whose deep
  content differs was stored.  `deepStoredC_of`: … hence its LAST action in the log is a store.
-/
namespace Atree.Deep
open Gen World Codec
open MapHolder (StoredSince Ext)
open Atree.C09 (newEffects newEffects_of_log)

/-- membership form of the deep account -/
def DeepM (w : World) (cx : Ctx) (w' : World) (cx' : Ctx) : Prop :=
  ∀ id s, w'.HasSlab id s → w.HasSlab id s → ¬ WC.DeepSame w w' s → StoredSince cx cx' id

/-- FROM MEMBERSHIP TO LAST ACTION: a heap slab of the final world that was stored was not removed
    afterwards (`WAcct.removed`) -/
theorem deepStoredC_of {w w' : World} {cx cx' : Ctx} (Hh : HeapOk w cx.ctr) (hp : Post w cx w' cx')
    (hM : DeepM w cx w' cx') : WC.DeepStoredC w w' (newEffects cx cx') := by
  obtain ⟨E, C, hlog, hacct, hheap, _⟩ := hp
  intro id s hs' hs hd
  have h1 : w'.HasSlab id s := (hheap.slabAt_eq_some id s).1 hs'
  have h2 : w.HasSlab id s := (Hh.slabAt_eq_some id s).1 hs
  obtain ⟨E', hE', hst⟩ := hM id s h1 h2 hd
  have hEE : E' = E := List.append_cancel_left (hE'.symm.trans hlog.eff)
  subst hEE
  rw [(newEffects_of_log hlog).2.1]
  cases hl : lastAction E' id with
  | none => exact absurd hl (MapHolder.lastAction_ne_none_of_store hst)
  | some b =>
    cases b with
    | true => rfl
    | false => exact absurd h1.inHeap (hacct.removed id hl)

/-- the generic argument -/
theorem deep_of_track {w w2 w3 w' : World} {cx cx2 cx3 cx' : Ctx} {p : SlabID} {Mv Mo : SlabID → Prop}
    (hA : ∀ z, z ≠ p → ¬ Mv z → w2.cont? z = w.cont? z)
    (hB : ∀ z, ¬ Mo z → w'.cont? z = w3.cont? z)
    (hpo : ¬ Mo p)
    (hplive : (w.cont? p).isSome) (hplive' : (w'.cont? p).isSome)
    (hpf : Inl w p → Inl w2 p)
    (hMv : ∀ m, Mv m → (∀ q, ¬ World.Holds w q m) ∧ World.Holds w' p m ∧ (w'.cont? m).isSome)
    (hMo : ∀ m, Mo m → ∀ q, ¬ World.Holds w' q m)
    (tr : Track p w2 cx2 w3 cx3) (he1 : Ext cx cx2) (he2 : Ext cx2 cx3) (he3 : Ext cx3 cx')
    (k3 : ∀ id s, w'.HasSlab id s → w3.HasSlab id s ∨ StoredSince cx3 cx' id)
    (k2 : ∀ id s, w3.HasSlab id s → w2.HasSlab id s ∨ StoredSince cx2 cx3 id)
    (U' : UniqueRef w') : DeepM w cx w' cx' := by
  intro id s hs' hs hd
  obtain ⟨x, hx, hns⟩ := not_deepSame hd
  rcases k3 id s hs' with hs3 | hst
  case inr => exact StoredSince.after (he1.trans he2) hst
  rcases k2 id s hs3 with hs2 | hst
  case inr => exact (StoredSince.after he1 hst).mono he3
  have fromTr : (∃ x, DRef w3 (C10Persist.slabElems s) x ∧
      (¬ StorSame w2 w3 x ∨ (x = p ∧ (Inl w2 p ∨ Inl w3 p)))) → StoredSince cx cx' id :=
    fun h => (StoredSince.after he1 (tr id s hs3 hs2 h)).mono he3
  have toW3 : ∀ z, DRef w' (C10Persist.slabElems s) z → DRef w3 (C10Persist.slabElems s) z := by
    intro z hz
    refine hz.congr_held hs' ?_
    rintro u ⟨q, hq⟩
    exact (hB u (fun hm => hMo u hm q hq)).symm
  have hx3 := toW3 x hx
  by_cases hxo : Mo x
  · obtain ⟨q, hq⟩ := held_of_dref hs' hx
    exact absurd hq (hMo x hxo q)
  have inl3 : Inl w' p → Inl w3 p := by
    rintro ⟨c, h1, h2⟩
    exact ⟨c, by rw [← hB p hpo]; exact h1, h2⟩
  by_cases hxv : Mv x
  · obtain ⟨hno, hpx, hxl⟩ := hMv x hxv
    rcases hx.last with ⟨e, he, hp⟩ | ⟨z, cz, hz, hcz, hi, e, he, hp⟩
    · exfalso
      obtain ⟨z0, cz0, hz0, hm⟩ := hs
      exact hno z0 (holds_of_elem hz0 (slabElems_sub (slabs_sub_treeSlabs cz0 _ hm) e he) hp)
    · have hzx : World.Holds w' z x := holds_of_elem hcz (inlElems_sub cz e he) hp
      have hzp : z = p := holder_unique U' hzx hpx hxl
      subst hzp
      exact fromTr ⟨z, toW3 z hz, Or.inr ⟨rfl, Or.inr (inl3 ⟨cz, hcz, hi⟩)⟩⟩
  by_cases hxp : x = p
  · subst hxp
    refine fromTr ⟨x, hx3, Or.inr ⟨rfl, ?_⟩⟩
    obtain ⟨c, hc⟩ := Option.isSome_iff_exists.1 hplive
    obtain ⟨c', hc'⟩ := Option.isSome_iff_exists.1 hplive'
    rcases Bool.eq_false_or_eq_true c.isInlined with hi | hi
    · exact Or.inl (hpf ⟨c, hc, hi⟩)
    · rcases Bool.eq_false_or_eq_true c'.isInlined with hi' | hi'
      · exact Or.inr (inl3 ⟨c', hc', hi'⟩)
      · exact absurd (Or.inr ⟨c, c', hc, hc', hi, hi'⟩) hns
  · refine fromTr ⟨x, hx3, Or.inl ?_⟩
    intro hss
    apply hns
    unfold StorSame at hss ⊢
    rw [hB x hxo, ← hA x hxp hxv]
    exact hss

/-! ### handles across the transition of the value handed in -/

theorem contsSig_storableOf {w : World} {v : WVal} {lim : Nat} {cx : Ctx} {e : Elem} {w1 : World} {cx1 : Ctx}
    (h : w.storableOf v lim cx = .ok (e, w1, cx1)) : ContsSig w w1 := by
  obtain ⟨_, _, hT, _, _, hos⟩ := storableOf_frame h
  refine ⟨hT, fun q => ?_⟩
  have := hos q
  cases h1 : w.cont? q with
  | none =>
    cases h2 : w1.cont? q with
    | none => rfl
    | some c' => rw [h1, h2] at this; simp only [OSame] at this
  | some c =>
    cases h2 : w1.cont? q with
    | none => rw [h1, h2] at this; simp only [OSame] at this
    | some c' =>
      rw [h1, h2] at this
      simp only [OSame] at this
      simp [this.sig_eq]

theorem handleOk_storableOf {w : World} {v : WVal} {lim : Nat} {cx : Ctx} {e : Elem} {w1 : World} {cx1 : Ctx}
    (h : w.storableOf v lim cx = .ok (e, w1, cx1)) {z : SlabID} (hz : HandleOk w z) : HandleOk w1 z := by
  have hS := contsSig_storableOf h
  obtain ⟨hh, hm, _, _, _, _⟩ := storableOf_frame h
  refine hz.transfer (fun p x => (hS.holds_iff p x).mp) (CurKept.of_sig hS ?_ ?_)
  · intro q x; simp [World.idxOf, hm]
  · intro x hi hx _; rw [hh]; exact hx

/-! ### the value handed back -/

/-- `uninlineStorableIfNeeded` only touches the container the element refers to -/
theorem uninline_conts {w : World} {e : Elem} {cx : Ctx} {e' : Elem} {ov : Option SlabID} {w4 : World} {cx4 : Ctx}
    (h : w.uninlineIfNeeded e cx = .ok (e', ov, w4, cx4)) :
    ∀ z, ¬ (e.pay = .ref z ∧ (w.cont? z).isSome) → w4.cont? z = w.cont? z := by
  obtain ⟨_, _, _, _, _, hc⟩ := uninlineIfNeeded_ok h
  intro z hz
  rcases hc with ⟨_, _, rfl, _, _⟩ | ⟨x, c, _, hp, hx, ⟨_, _, rfl, _⟩ | ⟨_, c', _, _, rfl, _, _⟩⟩
  · rfl
  · rfl
  · apply cont?_setCont_ne
    intro hzx
    subst hzx
    exact hz ⟨hp, by rw [hx]; rfl⟩

theorem contsSig_uninline {w : World} {e : Elem} {cx : Ctx} {e' : Elem} {ov : Option SlabID} {w4 : World} {cx4 : Ctx}
    (h : w.uninlineIfNeeded e cx = .ok (e', ov, w4, cx4)) : ContsSig w w4 := by
  obtain ⟨_, _, _, hT, _, hc⟩ := uninlineIfNeeded_ok h
  refine ⟨hT, fun q => ?_⟩
  rcases hc with ⟨_, _, rfl, _, _⟩ | ⟨x, c, _, hp, hx, ⟨_, _, rfl, _⟩ | ⟨_, c', hsd, _, rfl, _, _⟩⟩
  · rfl
  · rfl
  · by_cases hq : x = q
    · subst hq
      rw [cont?_setCont_self, hx]
      simp [hsd.sig_eq]
    · rw [cont?_setCont, if_neg hq]

/-! ### the shape of `arrSetRaw` / `mapSetRaw` / `arrSet` / `mapSet` -/

theorem arrSetRaw_split {fuel : Nat} {w : World} {p : SlabID} {i : Nat} {v : WVal} {cx : Ctx} {old : Elem} {w3c : World}
    {cx3 : Ctx} (h : arrSetRaw fuel w p i v cx = .ok (old, w3c, cx3)) :
    ∃ a e w1 cx1 a' cx2 w3, w.cont? p = some (.arr a) ∧ w.storableOf v (maxInlineArr w.T) cx = .ok (e, w1, cx1) ∧
      a.set w1.T i e cx1 = .ok (old, a', cx2) ∧
      notifyParent fuel (w1.setCont p (.arr a')) p cx2 = .ok (w3, cx3) ∧ w3c = w3.setCallbackArr p i v := by
  rw [arrSetRaw] at h
  split at h
  · rename_i a hp
    split at h
    · cases h
    · split at h
      · cases h
      · rename_i e w1 cx1 hst
        split at h
        · cases h
        · rename_i old1 a' cx2 hs
          try dsimp only at h
          split at h
          · cases h
          · rename_i w3 cx3' hnp
            cases h
            exact ⟨a, e, w1, cx1, a', cx2, w3, hp, hst, hs, hnp, rfl⟩
  · cases h

theorem mapSetRaw_split {fuel : Nat} {w : World} {p : SlabID} {k : MKey} {v : WVal} {cx : Ctx} {old : Option Elem}
    {w3c : World} {cx3 : Ctx} (h : mapSetRaw fuel w p k v cx = .ok (old, w3c, cx3)) :
    ∃ m e w1 cx1 m' cx2 w3, w.cont? p = some (.map m) ∧
      w.storableOf v (maxInlineMapValue w.T k.size) cx = .ok (e, w1, cx1) ∧
      m.set w1.mcfg k e cx1 = .ok (old, m', cx2) ∧
      notifyParent fuel (w1.setCont p (.map m')) p cx2 = .ok (w3, cx3) ∧ w3c = w3.setCallbackMap p k v := by
  rw [mapSetRaw] at h
  split at h
  · rename_i m hp
    split at h
    · cases h
    · rename_i e w1 cx1 hst
      split at h
      · cases h
      · rename_i old1 m' cx2 hs
        try dsimp only at h
        split at h
        · cases h
        · rename_i w3 cx3' hnp
          cases h
          exact ⟨m, e, w1, cx1, m', cx2, w3, hp, hst, hs, hnp, rfl⟩
  · cases h

theorem arrSet_split {w : World} {p : SlabID} {i : Nat} {v : WVal} {cx : Ctx} {old' : Elem} {w' : World} {cx' : Ctx}
    (h : w.arrSet p i v cx = .ok (old', w', cx')) :
    ∃ old w3c cx3 ov w4, arrSetRaw w.fuelOf w p i v cx = .ok (old, w3c, cx3) ∧
      w3c.uninlineIfNeeded old cx3 = .ok (old', ov, w4, cx') ∧ (∀ z, w'.cont? z = w4.cont? z) ∧ w'.T = w4.T := by
  unfold arrSet at h
  simp only [bind, Except.bind] at h
  split at h
  · cases h
  · rename_i r hsr
    obtain ⟨old, w1, cx1⟩ := r
    simp only at h
    split at h
    · cases h
    · rename_i r2 hun
      obtain ⟨o', ov, w2, cx2⟩ := r2
      simp only [pure, Except.pure] at h
      cases h
      refine ⟨old, w1, cx1, ov, w2, hsr, hun, ?_, ?_⟩
      · intro z; split <;> (try split) <;> (try split) <;> rfl
      · split <;> (try split) <;> (try split) <;> rfl

theorem mapSet_split {w : World} {p : SlabID} {k : MKey} {v : WVal} {cx : Ctx} {old' : Option Elem} {w' : World}
    {cx' : Ctx} (h : w.mapSet p k v cx = .ok (old', w', cx')) :
    ∃ old w3c cx3, mapSetRaw w.fuelOf w p k v cx = .ok (old, w3c, cx3) ∧
      ((old = none ∧ w' = w3c ∧ cx' = cx3) ∨
       (∃ o o' ov, old = some o ∧ w3c.uninlineIfNeeded o cx3 = .ok (o', ov, w', cx'))) := by
  unfold mapSet at h
  simp only [bind, Except.bind] at h
  split at h
  · cases h
  · rename_i r hsr
    obtain ⟨old, w1, cx1⟩ := r
    simp only at h
    split at h
    · simp only [pure, Except.pure] at h
      cases h
      exact ⟨none, _, _, hsr, Or.inl ⟨rfl, rfl, rfl⟩⟩
    · rename_i o
      split at h
      · cases h
      · rename_i r2 hun
        obtain ⟨o', ov, w2, cx2⟩ := r2
        simp only [pure, Except.pure] at h
        cases h
        exact ⟨some o, w1, cx1, hsr, Or.inr ⟨o, o', ov, rfl, hun⟩⟩

end Atree.Deep
