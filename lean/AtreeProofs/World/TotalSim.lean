import AtreeProofs.World.WPopOps
/-
  TOTAL correctness, part 5 (audit item S3): THE REVERSE SIMULATION.  `World/WPopSim.lean` and
  `World/WPopOps.lean` go from a successful run on a world `w` to a successful run on the same
  world without the closures whose recorded parent has been disposed of (`Sim n w0 w`, in
  particular `w0 = w.prune`).  Here: a successful run on `w0` gives a successful run on `w`, with the
  same results and `Sim` kept — the extra closures of `w` name dead parents; `notifyParent` answers
  `.ok` (nothing found, the closure is dropped) for them.  The only proviso: the container being
  notified is LIVE (with a stale closure and no container, `notifyParent` answers
  `unknownContainer` where the world without the closure answers `.ok`).

  With `WorldOk'.down` this lifts the totality theorems from `WorldOk` to `WorldOk'`.
-/
namespace Atree
open Gen

namespace World

/-! ### the notification -/

/-- `Array.set` from the side without the stale closures to the side with them -/
theorem rsim_arrSetRaw (fuel : Nat)
    (ihn : ∀ n w0 w x cx w0' cx', Sim n w0 w → (w.cont? x).isSome → notifyParent fuel w0 x cx = .ok (w0', cx') →
      ∃ w', notifyParent fuel w x cx = .ok (w', cx') ∧ Sim n w0' w') :
    ∀ n w0 w p i v cx old w0' cx', Sim n w0 w → arrSetRaw fuel w0 p i v cx = .ok (old, w0', cx') →
      ∃ w', arrSetRaw fuel w p i v cx = .ok (old, w', cx') ∧ Sim n w0' w' := by
  intro n w0 w p i v cx old w0' cx' S h
  have e0 := S.eq
  generalize w0.hinfo = H0 at e0
  subst e0
  rw [arrSetRaw] at h ⊢
  simp only [cont?_withH, T_withH] at h
  cases hpa : w.cont? p with
  | none => simp only [hpa] at h; cases h
  | some c =>
    cases c with
    | map m => simp only [hpa] at h; cases h
    | arr a =>
      simp only [hpa] at h ⊢
      by_cases hi : i ≥ a.count
      · rw [if_pos hi] at h; cases h
      · rw [if_neg hi] at h ⊢
        rw [storableOf_withH] at h
        cases hst : w.storableOf v (maxInlineArr w.T) cx with
        | error er => simp only [hst, liftH] at h; cases h
        | ok r =>
          obtain ⟨e, w1, cx1⟩ := r
          simp only [hst, liftH, T_withH] at h ⊢
          obtain ⟨f1, f2⟩ := storableOf_dead hst
          cases hset : a.set w1.T i e cx1 with
          | error er => simp only [hset] at h; cases h
          | ok r2 =>
            obtain ⟨old1, a', cx2⟩ := r2
            simp only [hset, setCont_withH] at h ⊢
            have S2 : Sim n ((w1.setCont p (.arr a')).withH H0) (w1.setCont p (.arr a')) :=
              S.step (w2 := w1.setCont p (.arr a')) (by simp [f1]) (fun q hq => by
                rw [cont?_setCont, if_neg]
                · exact f2 q hq
                · intro he; subst he; rw [hpa] at hq; cases hq)
            cases hnp0 : notifyParent fuel ((w1.setCont p (.arr a')).withH H0) p cx2 with
            | error er => simp only [hnp0] at h; cases h
            | ok r3 =>
              obtain ⟨w03, cx3⟩ := r3
              simp only [hnp0] at h
              cases h
              obtain ⟨w3, hn, S3⟩ := ihn _ _ _ _ _ _ _ S2 (by rw [cont?_setCont_self]; rfl) hnp0
              simp only [hn]
              exact ⟨_, rfl, S3.setCallbackArr p i v⟩

/-- `OrderedMap.set`, the same -/
theorem rsim_mapSetRaw (fuel : Nat)
    (ihn : ∀ n w0 w x cx w0' cx', Sim n w0 w → (w.cont? x).isSome → notifyParent fuel w0 x cx = .ok (w0', cx') →
      ∃ w', notifyParent fuel w x cx = .ok (w', cx') ∧ Sim n w0' w') :
    ∀ n w0 w p k v cx old w0' cx', Sim n w0 w → mapSetRaw fuel w0 p k v cx = .ok (old, w0', cx') →
      ∃ w', mapSetRaw fuel w p k v cx = .ok (old, w', cx') ∧ Sim n w0' w' := by
  intro n w0 w p k v cx old w0' cx' S h
  have e0 := S.eq
  generalize w0.hinfo = H0 at e0
  subst e0
  rw [mapSetRaw] at h ⊢
  simp only [cont?_withH, T_withH] at h
  cases hpm : w.cont? p with
  | none => simp only [hpm] at h; cases h
  | some c =>
    cases c with
    | arr a => simp only [hpm] at h; cases h
    | map m =>
      simp only [hpm] at h ⊢
      rw [storableOf_withH] at h
      cases hst : w.storableOf v (maxInlineMapValue w.T k.size) cx with
      | error er => simp only [hst, liftH] at h; cases h
      | ok r =>
        obtain ⟨e, w1, cx1⟩ := r
        simp only [hst, liftH, mcfg_withH] at h ⊢
        obtain ⟨f1, f2⟩ := storableOf_dead hst
        cases hset : m.set w1.mcfg k e cx1 with
        | error er => simp only [hset] at h; cases h
        | ok r2 =>
          obtain ⟨old1, m', cx2⟩ := r2
          simp only [hset, setCont_withH] at h ⊢
          have S2 : Sim n ((w1.setCont p (.map m')).withH H0) (w1.setCont p (.map m')) :=
            S.step (w2 := w1.setCont p (.map m')) (by simp [f1]) (fun q hq => by
              rw [cont?_setCont, if_neg]
              · exact f2 q hq
              · intro he; subst he; rw [hpm] at hq; cases hq)
          cases hnp0 : notifyParent fuel ((w1.setCont p (.map m')).withH H0) p cx2 with
          | error er => simp only [hnp0] at h; cases h
          | ok r3 =>
            obtain ⟨w03, cx3⟩ := r3
            simp only [hnp0] at h
            cases h
            obtain ⟨w3, hn, S3⟩ := ihn _ _ _ _ _ _ _ S2 (by rw [cont?_setCont_self]; rfl) hnp0
            simp only [hn]
            exact ⟨_, rfl, S3.setCallbackMap p k v⟩

/-- THE REVERSE SIMULATION of `notifyParentIfNeeded`, by induction on the fuel -/
theorem rsim_notifyParent : ∀ fuel n w0 w x cx w0' cx', Sim n w0 w → (w.cont? x).isSome →
    notifyParent fuel w0 x cx = .ok (w0', cx') →
    ∃ w', notifyParent fuel w x cx = .ok (w', cx') ∧ Sim n w0' w' := by
  intro fuel
  induction fuel with
  | zero => intro n w0 w x cx w0' cx' _ _ h; rw [notifyParent] at h; cases h
  | succ fuel ih =>
    intro n w0 w x cx w0' cx' S hlive h
    obtain ⟨c, hc⟩ := Option.isSome_iff_exists.mp hlive
    have e0 := S.eq
    generalize hH0 : w0.hinfo = H0 at e0
    subst e0
    rw [notifyParent] at h ⊢
    simp only [cont?_withH, hinfo_withH, idxOf_withH, mcfg_withH, hc] at h ⊢
    rcases S.hinfo x with hsame | ⟨hnone, hi, hsome, hdead, _⟩
    · -- the closure of `x` is the same on both sides
      simp only [hinfo_withH] at hsame
      rw [hsame] at h
      cases hh : AList.find? w.hinfo x with
      | none => simp only [hh] at h; cases h; exact ⟨_, rfl, S⟩
      | some hi =>
        simp only [hh] at h ⊢
        by_cases hstay : (!c.isInlined && !c.inlinable hi.maxInline) = true
        · rw [if_pos hstay] at h ⊢
          cases h; exact ⟨_, rfl, S⟩
        · rw [if_neg hstay] at h ⊢
          cases hp : w.cont? hi.parent with
          | none => simp only [hp] at h; cases h; exact ⟨_, rfl, S.erase x⟩
          | some pc =>
            cases pc with
            | arr pa =>
              simp only [hp] at h ⊢
              cases hidx : AList.find? (w.idxOf hi.parent) x with
              | none => simp only [hidx] at h; cases h; exact ⟨_, rfl, S.erase x⟩
              | some idx =>
                simp only [hidx] at h ⊢
                cases hget : pa.get idx with
                | error er => simp only [hget] at h; cases h
                | ok el =>
                  simp only [hget] at h ⊢
                  by_cases hne : el.pay ≠ Pay.ref x
                  · rw [if_pos hne] at h ⊢
                    cases h; exact ⟨_, rfl, S.erase x⟩
                  · rw [if_neg hne] at h ⊢
                    cases hset : arrSetRaw fuel (w.withH H0) hi.parent idx (.child x hi.wrap) cx with
                    | error er => simp only [hset] at h; cases h
                    | ok r =>
                      obtain ⟨old, w02, cx2⟩ := r
                      simp only [hset] at h
                      obtain ⟨w2, hs, S2⟩ := rsim_arrSetRaw fuel ih _ _ _ _ _ _ _ _ _ _ S hset
                      simp only [hs]
                      by_cases hne2 : old.pay ≠ Pay.ref x
                      · rw [if_pos hne2] at h; cases h
                      · rw [if_neg hne2] at h ⊢
                        cases h; exact ⟨_, rfl, S2⟩
            | map pm =>
              simp only [hp] at h ⊢
              cases hk : hi.key with
              | none => simp only [hk] at h; cases h
              | some k =>
                simp only [hk] at h ⊢
                cases hget : pm.get w.mcfg k with
                | error er =>
                  simp only [hget] at h ⊢
                  cases er <;> (try simp only at h ⊢) <;> cases h <;> exact ⟨_, rfl, S.erase x⟩
                | ok r =>
                  obtain ⟨k', el⟩ := r
                  simp only [hget] at h ⊢
                  by_cases hne : el.pay ≠ Pay.ref x
                  · rw [if_pos hne] at h ⊢
                    cases h; exact ⟨_, rfl, S.erase x⟩
                  · rw [if_neg hne] at h ⊢
                    cases hset : mapSetRaw fuel (w.withH H0) hi.parent k (.child x hi.wrap) cx with
                    | error er => simp only [hset] at h; cases h
                    | ok r =>
                      obtain ⟨old, w02, cx2⟩ := r
                      simp only [hset] at h
                      obtain ⟨w2, hs, S2⟩ := rsim_mapSetRaw fuel ih _ _ _ _ _ _ _ _ _ _ S hset
                      simp only [hs]
                      cases old with
                      | none => simp only at h; cases h
                      | some o =>
                        simp only at h ⊢
                        by_cases hne2 : o.pay ≠ Pay.ref x
                        · rw [if_pos hne2] at h; cases h
                        · rw [if_neg hne2] at h ⊢
                          cases h; exact ⟨_, rfl, S2⟩
    · -- the closure of `x` is stale (its parent is gone) and absent from `w0`: `w0` does nothing,
      -- `w` finds no parent and drops the closure
      simp only [hinfo_withH] at hnone
      simp only [hnone] at h
      cases h
      simp only [hsome]
      by_cases hstay : (!c.isInlined && !c.inlinable hi.maxInline) = true
      · rw [if_pos hstay]
        exact ⟨_, rfl, S⟩
      · rw [if_neg hstay]
        simp only [hdead]
        exact ⟨_, rfl, S.erase_right x hnone⟩

/-! ### the public operations -/

/-- `storableOf` from the side without the stale closures -/
theorem Sim.storableOf_up {n : Nat} {w : World} {H0 : AList SlabID HInfo} (S : Sim n (w.withH H0) w)
    {v : WVal} {lim : Nat} {cx : Ctx} {e : Elem} {w01 : World} {cx1 : Ctx}
    (h : (w.withH H0).storableOf v lim cx = .ok (e, w01, cx1)) :
    ∃ w1, w.storableOf v lim cx = .ok (e, w1, cx1) ∧ w01 = w1.withH H0 ∧ Sim n (w1.withH H0) w1 ∧
      ∀ q, (w.cont? q).isSome → (w1.cont? q).isSome := by
  rw [storableOf_withH] at h
  cases hst : w.storableOf v lim cx with
  | error er => simp only [hst, liftH] at h; cases h
  | ok r =>
    obtain ⟨e1, w1, cx1'⟩ := r
    simp only [hst, liftH] at h
    cases h
    obtain ⟨_, S1, hl⟩ := S.storableOf hst
    exact ⟨w1, rfl, rfl, S1, hl⟩

/-- `uninlineIfNeeded` from the side without the stale closures -/
theorem Sim.uninlineIfNeeded_up {n : Nat} {w : World} {H0 : AList SlabID HInfo} (S : Sim n (w.withH H0) w)
    {e : Elem} {cx : Ctx} {e' : Elem} {ov : Option SlabID} {w01 : World} {cx1 : Ctx}
    (h : (w.withH H0).uninlineIfNeeded e cx = .ok (e', ov, w01, cx1)) :
    ∃ w1, w.uninlineIfNeeded e cx = .ok (e', ov, w1, cx1) ∧ w01 = w1.withH H0 ∧ Sim n (w1.withH H0) w1 := by
  rw [uninlineIfNeeded_withH] at h
  cases hun : w.uninlineIfNeeded e cx with
  | error er => simp only [hun] at h; cases h
  | ok r =>
    obtain ⟨e1, ov1, w1, cx1'⟩ := r
    simp only [hun] at h
    cases h
    obtain ⟨_, S1⟩ := S.uninlineIfNeeded hun
    exact ⟨w1, rfl, rfl, S1⟩

/-- `Array.Insert` -/
theorem rsim_arrInsert {n : Nat} {w0 w : World} {p : SlabID} {i : Nat} {v : WVal} {cx : Ctx} {w0' : World} {cx' : Ctx}
    (S : Sim n w0 w) (h : w0.arrInsert p i v cx = .ok (w0', cx')) :
    ∃ w', w.arrInsert p i v cx = .ok (w', cx') ∧ Sim n w0' w' := by
  have e0 := S.eq
  generalize w0.hinfo = H0 at e0
  subst e0
  unfold arrInsert at h ⊢
  simp only [cont?_withH, T_withH] at h
  cases hpa : w.cont? p with
  | none => simp only [hpa] at h; cases h
  | some c =>
    cases c with
    | map m => simp only [hpa] at h; cases h
    | arr a =>
      simp only [hpa] at h ⊢
      by_cases hi : i > a.count
      · rw [if_pos hi] at h; cases h
      · rw [if_neg hi] at h ⊢
        simp only [bind, Except.bind] at h ⊢
        cases hst0 : (w.withH H0).storableOf v (maxInlineArr w.T) cx with
        | error er => simp only [hst0] at h; cases h
        | ok r =>
          obtain ⟨e, w01, cx1⟩ := r
          obtain ⟨w1, hst, rfl, S1, hl1⟩ := S.storableOf_up hst0
          simp only [hst0, hst, T_withH] at h ⊢
          cases hins : a.insert w1.T i e cx1 with
          | error er => simp only [hins] at h; cases h
          | ok r2 =>
            obtain ⟨a', cx2⟩ := r2
            simp only [hins, setCont_withH, shiftIdx_withH, fuelOf_withH] at h ⊢
            have S2 := (S1.setCont_withH (hl1 p (by rw [hpa]; rfl)) (.arr a')).shiftIdx p
              (fun j => if j ≥ i then j + 1 else j)
            simp only [shiftIdx_withH] at S2
            cases hnp0 : notifyParent ((w1.setCont p (.arr a')).shiftIdx p (fun j => if j ≥ i then j + 1 else j)).fuelOf
                (((w1.setCont p (.arr a')).shiftIdx p (fun j => if j ≥ i then j + 1 else j)).withH H0) p cx2 with
            | error er => simp only [hnp0] at h; cases h
            | ok r3 =>
              obtain ⟨w03, cx3⟩ := r3
              simp only [hnp0, pure, Except.pure] at h
              cases h
              obtain ⟨w3, hn, S3⟩ := rsim_notifyParent _ _ _ _ _ _ _ _ S2 (by simp) hnp0
              simp only [hn, pure, Except.pure]
              exact ⟨_, rfl, S3.setCallbackArr p i v⟩

/-- `Array.Set` -/
theorem rsim_arrSet {n : Nat} {w0 w : World} {p : SlabID} {i : Nat} {v : WVal} {cx : Ctx} {old : Elem}
    {w0' : World} {cx' : Ctx} (S : Sim n w0 w) (h : w0.arrSet p i v cx = .ok (old, w0', cx')) :
    ∃ w', w.arrSet p i v cx = .ok (old, w', cx') ∧ Sim n w0' w' := by
  have e0 := S.eq
  generalize w0.hinfo = H0 at e0
  subst e0
  unfold arrSet at h ⊢
  simp only [bind, Except.bind, fuelOf_withH] at h ⊢
  cases hraw0 : arrSetRaw w.fuelOf (w.withH H0) p i v cx with
  | error er => simp only [hraw0] at h; cases h
  | ok r =>
    obtain ⟨old1, w01, cx1⟩ := r
    obtain ⟨w1, hraw, S1⟩ := rsim_arrSetRaw _ (rsim_notifyParent _) _ _ _ _ _ _ _ _ _ _ S hraw0
    simp only [hraw0, hraw] at h ⊢
    have e1 := S1.eq
    generalize w01.hinfo = H1 at e1
    subst e1
    cases hun0 : (w1.withH H1).uninlineIfNeeded old1 cx1 with
    | error er => simp only [hun0] at h; cases h
    | ok r2 =>
      obtain ⟨old', ov, w02, cx2⟩ := r2
      obtain ⟨w2, hun, rfl, S2⟩ := S1.uninlineIfNeeded_up hun0
      simp only [hun0, hun, pure, Except.pure] at h ⊢
      cases h
      refine ⟨_, rfl, ?_⟩
      cases ov with
      | none => exact S2
      | some o =>
        simp only
        split
        · split
          · exact S2
          · exact S2.setIdx _ _
        · exact S2.setIdx _ _

/-- `Array.Remove` -/
theorem rsim_arrRemove {n : Nat} {w0 w : World} {p : SlabID} {i : Nat} {cx : Ctx} {old : Elem}
    {w0' : World} {cx' : Ctx} (S : Sim n w0 w) (h : w0.arrRemove p i cx = .ok (old, w0', cx')) :
    ∃ w', w.arrRemove p i cx = .ok (old, w', cx') ∧ Sim n w0' w' := by
  have e0 := S.eq
  generalize w0.hinfo = H0 at e0
  subst e0
  unfold arrRemove at h ⊢
  simp only [cont?_withH, T_withH] at h
  cases hpa : w.cont? p with
  | none => simp only [hpa] at h; cases h
  | some c =>
    cases c with
    | map m => simp only [hpa] at h; cases h
    | arr a =>
      simp only [hpa] at h ⊢
      cases hrem : a.remove w.T i cx with
      | error er => simp only [hrem] at h; cases h
      | ok r =>
        obtain ⟨old1, a', cx1⟩ := r
        simp only [hrem, bind, Except.bind, setCont_withH, shiftIdx_withH, fuelOf_withH] at h ⊢
        have S2 := (S.setCont_withH (by rw [hpa]; rfl) (.arr a')).shiftIdx p (fun j => if j > i then j - 1 else j)
        simp only [shiftIdx_withH] at S2
        cases hnp0 : notifyParent ((w.setCont p (.arr a')).shiftIdx p (fun j => if j > i then j - 1 else j)).fuelOf
            (((w.setCont p (.arr a')).shiftIdx p (fun j => if j > i then j - 1 else j)).withH H0) p cx1 with
        | error er => simp only [hnp0] at h; cases h
        | ok r3 =>
          obtain ⟨w03, cx3⟩ := r3
          obtain ⟨w3, hn, S3⟩ := rsim_notifyParent _ _ _ _ _ _ _ _ S2 (by simp) hnp0
          simp only [hnp0, hn] at h ⊢
          have e3 := S3.eq
          generalize w03.hinfo = H3 at e3
          subst e3
          cases hun0 : (w3.withH H3).uninlineIfNeeded old1 cx3 with
          | error er => simp only [hun0] at h; cases h
          | ok r4 =>
            obtain ⟨old', ov, w04, cx4⟩ := r4
            obtain ⟨w4, hun, rfl, S4⟩ := S3.uninlineIfNeeded_up hun0
            simp only [hun0, hun, pure, Except.pure] at h ⊢
            cases h
            refine ⟨_, rfl, ?_⟩
            cases ov with
            | none => exact S4
            | some o => exact S4.setIdx _ _

/-- `OrderedMap.Set` -/
theorem rsim_mapSet {n : Nat} {w0 w : World} {p : SlabID} {k : MKey} {v : WVal} {cx : Ctx} {old : Option Elem}
    {w0' : World} {cx' : Ctx} (S : Sim n w0 w) (h : w0.mapSet p k v cx = .ok (old, w0', cx')) :
    ∃ w', w.mapSet p k v cx = .ok (old, w', cx') ∧ Sim n w0' w' := by
  have e0 := S.eq
  generalize w0.hinfo = H0 at e0
  subst e0
  unfold mapSet at h ⊢
  simp only [bind, Except.bind, fuelOf_withH] at h ⊢
  cases hraw0 : mapSetRaw w.fuelOf (w.withH H0) p k v cx with
  | error er => simp only [hraw0] at h; cases h
  | ok r =>
    obtain ⟨old1, w01, cx1⟩ := r
    obtain ⟨w1, hraw, S1⟩ := rsim_mapSetRaw _ (rsim_notifyParent _) _ _ _ _ _ _ _ _ _ _ S hraw0
    simp only [hraw0, hraw] at h ⊢
    cases old1 with
    | none =>
      simp only [pure, Except.pure] at h ⊢
      cases h
      exact ⟨_, rfl, S1⟩
    | some o =>
      simp only at h ⊢
      have e1 := S1.eq
      generalize w01.hinfo = H1 at e1
      subst e1
      cases hun0 : (w1.withH H1).uninlineIfNeeded o cx1 with
      | error er => simp only [hun0] at h; cases h
      | ok r2 =>
        obtain ⟨o', ov, w02, cx2⟩ := r2
        obtain ⟨w2, hun, rfl, S2⟩ := S1.uninlineIfNeeded_up hun0
        simp only [hun0, hun, pure, Except.pure] at h ⊢
        cases h
        exact ⟨_, rfl, S2⟩

/-- `OrderedMap.Remove` -/
theorem rsim_mapRemove {n : Nat} {w0 w : World} {p : SlabID} {k : MKey} {cx : Ctx} {rk : MKey} {rv : Elem}
    {w0' : World} {cx' : Ctx} (S : Sim n w0 w) (h : w0.mapRemove p k cx = .ok (rk, rv, w0', cx')) :
    ∃ w', w.mapRemove p k cx = .ok (rk, rv, w', cx') ∧ Sim n w0' w' := by
  have e0 := S.eq
  generalize w0.hinfo = H0 at e0
  subst e0
  unfold mapRemove at h ⊢
  simp only [cont?_withH, mcfg_withH] at h
  cases hpm : w.cont? p with
  | none => simp only [hpm] at h; cases h
  | some c =>
    cases c with
    | arr a => simp only [hpm] at h; cases h
    | map m =>
      simp only [hpm] at h ⊢
      cases hrem : m.remove w.mcfg k cx with
      | error er => simp only [hrem] at h; cases h
      | ok r =>
        obtain ⟨rk1, rv1, m', cx1⟩ := r
        simp only [hrem, bind, Except.bind, setCont_withH, fuelOf_withH] at h ⊢
        have S2 := S.setCont_withH (by rw [hpm]; rfl) (.map m')
        cases hnp0 : notifyParent (w.setCont p (.map m')).fuelOf ((w.setCont p (.map m')).withH H0) p cx1 with
        | error er => simp only [hnp0] at h; cases h
        | ok r3 =>
          obtain ⟨w03, cx3⟩ := r3
          obtain ⟨w3, hn, S3⟩ := rsim_notifyParent _ _ _ _ _ _ _ _ S2 (by simp) hnp0
          simp only [hnp0, hn] at h ⊢
          have e3 := S3.eq
          generalize w03.hinfo = H3 at e3
          subst e3
          cases hun0 : (w3.withH H3).uninlineIfNeeded rv1 cx3 with
          | error er => simp only [hun0] at h; cases h
          | ok r4 =>
            obtain ⟨rv', ov, w04, cx4⟩ := r4
            obtain ⟨w4, hun, rfl, S4⟩ := S3.uninlineIfNeeded_up hun0
            simp only [hun0, hun, pure, Except.pure] at h ⊢
            cases h
            exact ⟨_, rfl, S4⟩

/-- `SetType` -/
theorem rsim_setType {n : Nat} {w0 w : World} {p : SlabID} {ty : Nat} {cx : Ctx} {w0' : World} {cx' : Ctx}
    (S : Sim n w0 w) (h : w0.setType p ty cx = .ok (w0', cx')) :
    ∃ w', w.setType p ty cx = .ok (w', cx') ∧ Sim n w0' w' := by
  have e0 := S.eq
  generalize w0.hinfo = H0 at e0
  subst e0
  unfold setType at h ⊢
  simp only [cont?_withH] at h
  cases hpc : w.cont? p with
  | none => simp only [hpc] at h; cases h
  | some c =>
    cases c with
    | arr a =>
      simp only [hpc, setCont_withH, fuelOf_withH] at h ⊢
      have S2 := S.setCont_withH (by rw [hpc]; rfl) (.arr (a.setType ty cx).1)
      by_cases hinl : a.isInlined = true
      · rw [if_pos hinl] at h ⊢
        exact rsim_notifyParent _ _ _ _ _ _ _ _ S2 (by simp) h
      · rw [if_neg hinl] at h ⊢
        cases h
        exact ⟨_, rfl, S2⟩
    | map m =>
      simp only [hpc, setCont_withH, fuelOf_withH] at h ⊢
      have S2 := S.setCont_withH (by rw [hpc]; rfl) (.map (m.setType ty cx).1)
      by_cases hinl : m.isInlined = true
      · rw [if_pos hinl] at h ⊢
        exact rsim_notifyParent _ _ _ _ _ _ _ _ S2 (by simp) h
      · rw [if_neg hinl] at h ⊢
        cases h
        exact ⟨_, rfl, S2⟩

end World
end Atree
