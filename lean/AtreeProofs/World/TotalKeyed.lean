import AtreeProofs.World.TotalReject
/-
  TOTAL correctness, part 8 (audit item S3): `KeyedClosures` IS AN INVARIANT of every operation of
  the World model.  (`KeyedClosures w`: a closure that names a live MAP carries a key — the extra
  hypothesis of the totality theorems, `TotalNotify.lean`.)  Purely structural, no invariant needed:
  closures are only installed by `setCallbackArr` on a container that is an array at that moment
  (no key) or by `setCallbackMap` (with the key), and no operation changes the kind of a container
  (`KindsSub`: a container of the new world was a container of the same kind in the old one).
  Only `newMap` needs a hypothesis: no closure names the ID about to be allocated (`HinfoBelow`, a
  clause of `WorldOk'`).
-/
namespace Atree
open Gen

namespace World

/-- every container of `w'` was a container of the same kind in `w` -/
def KindsSub (w w' : World) : Prop :=
  ∀ z c', w'.cont? z = some c' → ∃ c, w.cont? z = some c ∧ c.isArr = c'.isArr

/-- one step of the model as far as `KeyedClosures` is concerned -/
def KStep (w w' : World) : Prop := KindsSub w w' ∧ (KeyedClosures w → KeyedClosures w')

theorem KindsSub.refl (w : World) : KindsSub w w := fun _ c' h => ⟨c', h, rfl⟩

theorem KindsSub.trans {w1 w2 w3 : World} (h12 : KindsSub w1 w2) (h23 : KindsSub w2 w3) : KindsSub w1 w3 := by
  intro z c3 h3
  obtain ⟨c2, h2, e2⟩ := h23 z c3 h3
  obtain ⟨c1, h1, e1⟩ := h12 z c2 h2
  exact ⟨c1, h1, e1.trans e2⟩

theorem KindsSub.not_map {w w' : World} (h : KindsSub w w') {p : SlabID} {a : Arr} (hp : w.cont? p = some (.arr a)) :
    ∀ m, w'.cont? p ≠ some (.map m) := by
  intro m hm
  obtain ⟨c, hc, he⟩ := h p _ hm
  rw [hp] at hc; cases hc; cases he

theorem KindsSub.map_back {w w' : World} (h : KindsSub w w') {p : SlabID} {m' : OMap 3}
    (hp : w'.cont? p = some (.map m')) : ∃ m, w.cont? p = some (.map m) := by
  obtain ⟨c, hc, he⟩ := h p _ hp
  cases c with
  | arr a => cases he
  | map m => exact ⟨m, hc⟩

theorem KStep.refl (w : World) : KStep w w := ⟨KindsSub.refl w, id⟩

theorem KStep.trans {w1 w2 w3 : World} (h12 : KStep w1 w2) (h23 : KStep w2 w3) : KStep w1 w3 :=
  ⟨h12.1.trans h23.1, fun h => h23.2 (h12.2 h)⟩

/-! ### the primitive updates -/

theorem sameData_isArr {c c' : Cont} (h : Cont.SameData c c') : c.isArr = c'.isArr := by
  cases c <;> cases c' <;> simp [Cont.SameData] at h <;> rfl

/-- same containers (up to kind), no new closure -/
theorem KStep.of_sub {w w' : World} (hk : KindsSub w w')
    (hh : ∀ x hi, AList.find? w'.hinfo x = some hi → AList.find? w.hinfo x = some hi) : KStep w w' := by
  refine ⟨hk, fun h x hi pm hx hp => ?_⟩
  obtain ⟨m, hm⟩ := hk.map_back hp
  exact h x hi m (hh x hi hx) hm

/-- a container replaced by one of the same kind -/
theorem kstep_setCont {w : World} {p : SlabID} {c0 c : Cont} (hp : w.cont? p = some c0) (hk : c.isArr = c0.isArr) :
    KStep w (w.setCont p c) := by
  refine KStep.of_sub (fun z c' hz => ?_) (fun _ _ hx => hx)
  rw [cont?_setCont] at hz
  split at hz
  · rename_i hpz; subst hpz; cases hz; exact ⟨c0, hp, hk.symm⟩
  · exact ⟨c', hz, rfl⟩

theorem kstep_of_eq {w w' : World} (hc : ∀ z, w'.cont? z = w.cont? z) (hh : w'.hinfo = w.hinfo) : KStep w w' :=
  KStep.of_sub (fun z c' hz => ⟨c', by rw [← hc]; exact hz, rfl⟩) (fun _ _ hx => by rw [← hh]; exact hx)

theorem kstep_eraseHinfo (w : World) (x : SlabID) : KStep w { w with hinfo := AList.erase w.hinfo x } := by
  refine KStep.of_sub (KindsSub.refl w) (fun y hi hy => ?_)
  have hy' : AList.find? (AList.erase w.hinfo x) y = some hi := hy
  rw [AList.find?_erase] at hy'
  split at hy'
  · cases hy'
  · exact hy'

theorem kstep_setCallbackArr {w : World} {p : SlabID} (i : Nat) (v : WVal) (hp : ∀ m, w.cont? p ≠ some (.map m)) :
    KStep w (w.setCallbackArr p i v) := by
  refine ⟨fun z c' hz => ⟨c', by rw [cont?_setCallbackArr] at hz; exact hz, rfl⟩, fun h x hi pm hx hpar => ?_⟩
  rw [cont?_setCallbackArr] at hpar
  cases v with
  | plain e => exact h x hi pm hx hpar
  | child y wr =>
    rw [hinfo_setCallbackArr] at hx
    split at hx
    · cases hx
      exact absurd hpar (hp pm)
    · exact h x hi pm hx hpar

theorem kstep_setCallbackMap (w : World) (p : SlabID) (k : MKey) (v : WVal) : KStep w (w.setCallbackMap p k v) := by
  refine ⟨fun z c' hz => ⟨c', by rw [cont?_setCallbackMap] at hz; exact hz, rfl⟩, fun h x hi pm hx hpar => ?_⟩
  rw [cont?_setCallbackMap] at hpar
  cases v with
  | plain e => exact h x hi pm hx hpar
  | child y wr =>
    rw [hinfo_setCallbackMap] at hx
    split at hx
    · cases hx; rfl
    · exact h x hi pm hx hpar

theorem kstep_storableOf {w : World} {v : WVal} {lim : Nat} {cx : Ctx} {e : Elem} {w1 : World} {cx1 : Ctx}
    (h : w.storableOf v lim cx = .ok (e, w1, cx1)) : KStep w w1 := by
  cases v with
  | plain e0 => simp only [World.storableOf] at h; cases h; exact KStep.refl w
  | child x wr =>
    obtain ⟨h1, _, _, _, h5, ⟨c, c', hc, hc', hsd⟩, _⟩ := childStorable_frame h
    refine KStep.of_sub (fun z cz hz => ?_) (fun _ _ hx => by rw [← h1]; exact hx)
    by_cases hzx : z = x
    · subst hzx
      rw [hc'] at hz; cases hz
      exact ⟨c, hc, sameData_isArr hsd⟩
    · rw [h5 z hzx] at hz; exact ⟨cz, hz, rfl⟩

theorem kstep_uninlineIfNeeded {w : World} {e : Elem} {cx : Ctx} {e' : Elem} {ov : Option SlabID} {w1 : World}
    {cx1 : Ctx} (h : w.uninlineIfNeeded e cx = .ok (e', ov, w1, cx1)) : KStep w w1 := by
  obtain ⟨_, hh, _, _, _, hcase⟩ := uninlineIfNeeded_ok h
  rcases hcase with ⟨_, _, rfl, _, _⟩ | ⟨x, c, _, _, hxc, hform⟩
  · exact KStep.refl _
  · rcases hform with ⟨_, _, rfl, _⟩ | ⟨_, c', hsd, _, rfl, _, _⟩
    · exact KStep.refl _
    · exact kstep_setCont hxc (sameData_isArr hsd).symm

theorem kstep_shrink {w w' : World} (s : Shrink w w') : KStep w w' := by
  refine KStep.of_sub (fun z c' hz => ⟨c', s.some_of_some hz, rfl⟩) (fun x hi hx => ?_)
  rcases s.keep x with ⟨_, b, _⟩ | ⟨_, _, b, _⟩
  · rw [← b]; exact hx
  · rw [b] at hx; cases hx

/-! ### the notification -/

theorem kstep_arrSetRaw (fuel : Nat)
    (ihn : ∀ w x cx w' cx', notifyParent fuel w x cx = .ok (w', cx') → KStep w w') :
    ∀ w p i v cx old w' cx', arrSetRaw fuel w p i v cx = .ok (old, w', cx') → KStep w w' := by
  intro w p i v cx old w' cx' h
  rw [arrSetRaw] at h
  split at h
  · rename_i a hpa
    split at h
    · cases h
    · split at h
      · cases h
      · rename_i e w1 cx1 hst
        split at h
        · cases h
        · rename_i old1 a' cx2 hset
          simp only at h
          split at h
          · cases h
          · rename_i w3 cx3 hnp
            cases h
            have k1 := kstep_storableOf hst
            obtain ⟨c1, hc1, hk1⟩ : ∃ c1, w1.cont? p = some c1 ∧ c1.isArr = true := by
              cases v with
              | plain e0 => simp only [World.storableOf] at hst; cases hst; exact ⟨_, hpa, rfl⟩
              | child x wr =>
                obtain ⟨_, _, _, _, h5, ⟨c, c', hc, hc', hsd⟩, _⟩ := childStorable_frame hst
                by_cases hpx : p = x
                · subst hpx
                  rw [hpa] at hc; cases hc
                  exact ⟨c', hc', (sameData_isArr hsd).symm⟩
                · rw [← h5 p hpx] at hpa; exact ⟨_, hpa, rfl⟩
            have k2 : KStep w1 (w1.setCont p (.arr a')) := kstep_setCont hc1 (by rw [hk1]; rfl)
            have k3 := ihn _ _ _ _ _ hnp
            have k4 : KStep w3 (w3.setCallbackArr p i v) :=
              kstep_setCallbackArr i v (k3.1.not_map (cont?_setCont_self _ _ _))
            exact ((k1.trans k2).trans k3).trans k4
  · cases h

theorem kstep_mapSetRaw (fuel : Nat)
    (ihn : ∀ w x cx w' cx', notifyParent fuel w x cx = .ok (w', cx') → KStep w w') :
    ∀ w p k v cx old w' cx', mapSetRaw fuel w p k v cx = .ok (old, w', cx') → KStep w w' := by
  intro w p k v cx old w' cx' h
  rw [mapSetRaw] at h
  split at h
  · rename_i m hpm
    split at h
    · cases h
    · rename_i e w1 cx1 hst
      split at h
      · cases h
      · rename_i old1 m' cx2 hset
        simp only at h
        split at h
        · cases h
        · rename_i w3 cx3 hnp
          cases h
          have k1 := kstep_storableOf hst
          obtain ⟨c1, hc1, hk1⟩ : ∃ c1, w1.cont? p = some c1 ∧ c1.isArr = false := by
            cases v with
            | plain e0 => simp only [World.storableOf] at hst; cases hst; exact ⟨_, hpm, rfl⟩
            | child x wr =>
              obtain ⟨_, _, _, _, h5, ⟨c, c', hc, hc', hsd⟩, _⟩ := childStorable_frame hst
              by_cases hpx : p = x
              · subst hpx
                rw [hpm] at hc; cases hc
                exact ⟨c', hc', (sameData_isArr hsd).symm⟩
              · rw [← h5 p hpx] at hpm; exact ⟨_, hpm, rfl⟩
          have k2 : KStep w1 (w1.setCont p (.map m')) := kstep_setCont hc1 (by rw [hk1]; rfl)
          have k3 := ihn _ _ _ _ _ hnp
          exact ((k1.trans k2).trans k3).trans (kstep_setCallbackMap _ _ _ _)
  · cases h

theorem kstep_notifyParent : ∀ fuel w x cx w' cx', notifyParent fuel w x cx = .ok (w', cx') → KStep w w' := by
  intro fuel
  induction fuel with
  | zero => intro w x cx w' cx' h; rw [notifyParent] at h; cases h
  | succ fuel ih =>
    intro w x cx w' cx' h
    rw [notifyParent] at h
    split at h
    · cases h; exact KStep.refl w
    · cases h
    · rename_i hi c hh hc
      split at h
      · cases h; exact KStep.refl w
      · simp only at h
        split at h
        · cases h; exact kstep_eraseHinfo w x
        · split at h
          · cases h; exact kstep_eraseHinfo w x
          · split at h
            · cases h
            · split at h
              · cases h; exact kstep_eraseHinfo w x
              · split at h
                · cases h
                · rename_i old w2 cx2 hsr
                  split at h
                  · cases h
                  · cases h; exact kstep_arrSetRaw fuel ih _ _ _ _ _ _ _ _ hsr
        · split at h
          · cases h
          · split at h
            · cases h; exact kstep_eraseHinfo w x
            · cases h
            · split at h
              · cases h; exact kstep_eraseHinfo w x
              · split at h
                · cases h
                · rename_i old w2 cx2 hsr
                  split at h
                  · split at h
                    · cases h
                    · cases h; exact kstep_mapSetRaw fuel ih _ _ _ _ _ _ _ _ hsr
                  · cases h

/-! ### the public operations -/

theorem kstep_arrInsert {w : World} {p : SlabID} {i : Nat} {v : WVal} {cx : Ctx} {w' : World} {cx' : Ctx}
    (h : w.arrInsert p i v cx = .ok (w', cx')) : KStep w w' := by
  unfold arrInsert at h
  split at h
  · rename_i a hpa
    split at h
    · cases h
    · simp only [bind, Except.bind] at h
      split at h
      · cases h
      · rename_i r hst
        obtain ⟨e, w1, cx1⟩ := r
        simp only at h
        split at h
        · cases h
        · rename_i a' cx2 hins
          split at h
          · cases h
          · rename_i r2 hnp
            obtain ⟨w3, cx3⟩ := r2
            simp only [pure, Except.pure] at h
            cases h
            have k1 := kstep_storableOf hst
            obtain ⟨c1, hc1, hk1⟩ : ∃ c1, w1.cont? p = some c1 ∧ c1.isArr = true := by
              cases v with
              | plain e0 => simp only [World.storableOf] at hst; cases hst; exact ⟨_, hpa, rfl⟩
              | child x wr =>
                obtain ⟨_, _, _, _, h5, ⟨c, c', hc, hc', hsd⟩, _⟩ := childStorable_frame hst
                by_cases hpx : p = x
                · subst hpx
                  rw [hpa] at hc; cases hc
                  exact ⟨c', hc', (sameData_isArr hsd).symm⟩
                · rw [← h5 p hpx] at hpa; exact ⟨_, hpa, rfl⟩
            have k2 : KStep w1 ((w1.setCont p (.arr a')).shiftIdx p (fun j => if j ≥ i then j + 1 else j)) :=
              (kstep_setCont hc1 (c := .arr a') (by rw [hk1]; rfl)).trans (kstep_of_eq (fun _ => rfl) rfl)
            have k3 := kstep_notifyParent _ _ _ _ _ _ hnp
            have k4 : KStep w3 (w3.setCallbackArr p i v) :=
              kstep_setCallbackArr i v (k3.1.not_map (by rw [cont?_shiftIdx]; exact cont?_setCont_self _ _ _))
            exact ((k1.trans k2).trans k3).trans k4
  · cases h

theorem kstep_arrSet {w : World} {p : SlabID} {i : Nat} {v : WVal} {cx : Ctx} {old : Elem} {w' : World} {cx' : Ctx}
    (h : w.arrSet p i v cx = .ok (old, w', cx')) : KStep w w' := by
  unfold arrSet at h
  simp only [bind, Except.bind] at h
  split at h
  · cases h
  · rename_i r hraw
    obtain ⟨old1, w1, cx1⟩ := r
    simp only at h
    split at h
    · cases h
    · rename_i r2 hun
      obtain ⟨old', ov, w2, cx2⟩ := r2
      simp only [pure, Except.pure] at h
      cases h
      have k1 := kstep_arrSetRaw _ (kstep_notifyParent _) _ _ _ _ _ _ _ _ hraw
      have k2 := kstep_uninlineIfNeeded hun
      refine (k1.trans k2).trans ?_
      cases ov with
      | none => exact KStep.refl _
      | some o =>
        simp only
        split
        · split
          · exact KStep.refl _
          · exact kstep_of_eq (fun _ => rfl) rfl
        · exact kstep_of_eq (fun _ => rfl) rfl

theorem kstep_arrRemove {w : World} {p : SlabID} {i : Nat} {cx : Ctx} {old : Elem} {w' : World} {cx' : Ctx}
    (h : w.arrRemove p i cx = .ok (old, w', cx')) : KStep w w' := by
  unfold arrRemove at h
  split at h
  · rename_i a hpa
    split at h
    · cases h
    · rename_i old1 a' cx1 hrem
      simp only [bind, Except.bind] at h
      split at h
      · cases h
      · rename_i r hnp
        obtain ⟨w3, cx3⟩ := r
        simp only at h
        split at h
        · cases h
        · rename_i r2 hun
          obtain ⟨old2, ov, w4, cx4⟩ := r2
          simp only [pure, Except.pure] at h
          cases h
          have k2 : KStep w ((w.setCont p (.arr a')).shiftIdx p (fun j => if j > i then j - 1 else j)) :=
            (kstep_setCont hpa (c := .arr a') rfl).trans (kstep_of_eq (fun _ => rfl) rfl)
          have k3 := kstep_notifyParent _ _ _ _ _ _ hnp
          have k4 := kstep_uninlineIfNeeded hun
          refine ((k2.trans k3).trans k4).trans ?_
          cases ov with
          | none => exact KStep.refl _
          | some o => exact kstep_of_eq (fun _ => rfl) rfl
  · cases h

theorem kstep_mapSet {w : World} {p : SlabID} {k : MKey} {v : WVal} {cx : Ctx} {old : Option Elem} {w' : World}
    {cx' : Ctx} (h : w.mapSet p k v cx = .ok (old, w', cx')) : KStep w w' := by
  unfold mapSet at h
  simp only [bind, Except.bind] at h
  split at h
  · cases h
  · rename_i r hraw
    obtain ⟨old1, w1, cx1⟩ := r
    have k1 := kstep_mapSetRaw _ (kstep_notifyParent _) _ _ _ _ _ _ _ _ hraw
    simp only at h
    cases old1 with
    | none =>
      simp only [pure, Except.pure] at h
      cases h
      exact k1
    | some o =>
      simp only at h
      split at h
      · cases h
      · rename_i r2 hun
        obtain ⟨o', ov, w2, cx2⟩ := r2
        simp only [pure, Except.pure] at h
        cases h
        exact k1.trans (kstep_uninlineIfNeeded hun)

theorem kstep_mapRemove {w : World} {p : SlabID} {k : MKey} {cx : Ctx} {rk : MKey} {rv : Elem} {w' : World}
    {cx' : Ctx} (h : w.mapRemove p k cx = .ok (rk, rv, w', cx')) : KStep w w' := by
  unfold mapRemove at h
  split at h
  · rename_i m hpm
    split at h
    · cases h
    · rename_i rk1 rv1 m' cx1 hrem
      simp only [bind, Except.bind] at h
      split at h
      · cases h
      · rename_i r hnp
        obtain ⟨w3, cx3⟩ := r
        simp only at h
        split at h
        · cases h
        · rename_i r2 hun
          obtain ⟨rv2, ov, w4, cx4⟩ := r2
          simp only [pure, Except.pure] at h
          cases h
          exact ((kstep_setCont hpm (c := .map m') rfl).trans (kstep_notifyParent _ _ _ _ _ _ hnp)).trans
            (kstep_uninlineIfNeeded hun)
  · cases h

theorem kstep_setType {w : World} {p : SlabID} {ty : Nat} {cx : Ctx} {w' : World} {cx' : Ctx}
    (h : w.setType p ty cx = .ok (w', cx')) : KStep w w' := by
  unfold setType at h
  split at h
  · rename_i a hpa
    simp only at h
    have k1 : KStep w (w.setCont p (.arr (a.setType ty cx).1)) := kstep_setCont hpa rfl
    split at h
    · exact k1.trans (kstep_notifyParent _ _ _ _ _ _ h)
    · cases h; exact k1
  · rename_i m hpm
    simp only at h
    have k1 : KStep w (w.setCont p (.map (m.setType ty cx).1)) := kstep_setCont hpm rfl
    split at h
    · exact k1.trans (kstep_notifyParent _ _ _ _ _ _ h)
    · cases h; exact k1
  · cases h

theorem kstep_arrPopKeep {w : World} {h : SlabID} {keep : List SlabID} {cx : Ctx} {es : List Elem} {w' : World}
    {cx' : Ctx} (hp : w.arrPopKeep h keep cx = .ok (es, w', cx')) : KStep w w' := by
  unfold arrPopKeep at hp
  split at hp
  · rename_i a hc
    simp only at hp
    split at hp
    · cases hp
    · rename_i w1 cx1 hn
      cases hp
      have k1 : KStep w ((w.setCont h (.arr (a.popIterate cx).2.1)).setIdx h []) :=
        (kstep_setCont hc (c := .arr (a.popIterate cx).2.1) rfl).trans (kstep_of_eq (fun _ => rfl) rfl)
      exact (k1.trans (kstep_shrink (forgetElems_spec _ _).1)).trans (kstep_notifyParent _ _ _ _ _ _ hn)
  · cases hp

theorem kstep_mapPopKeep {w : World} {h : SlabID} {keep : List SlabID} {cx : Ctx} {kvs : List (MKey × Elem)}
    {w' : World} {cx' : Ctx} (hp : w.mapPopKeep h keep cx = .ok (kvs, w', cx')) : KStep w w' := by
  unfold mapPopKeep at hp
  split at hp
  · rename_i m hc
    simp only at hp
    split at hp
    · cases hp
    · rename_i w1 cx1 hn
      cases hp
      have k1 : KStep w (w.setCont h (.map (m.popIterate cx).2.1)) := kstep_setCont hc rfl
      exact (k1.trans (kstep_shrink (forgetElems_spec _ _).1)).trans (kstep_notifyParent _ _ _ _ _ _ hn)
  · cases hp

theorem kstep_arrGet {w : World} {p : SlabID} {i : Nat} {el : Elem} {w' : World}
    (h : w.arrGet p i = .ok (el, w')) : KStep w w' := by
  unfold arrGet at h
  split at h
  · rename_i a hpa
    split at h
    · cases h
    · split at h
      · split at h
        · cases h; exact KStep.refl w
        · cases h
          exact kstep_setCallbackArr _ _ (fun m hm => by rw [hpa] at hm; cases hm)
      · cases h; exact KStep.refl w
  · cases h

theorem kstep_mapGet {w : World} {p : SlabID} {k : MKey} {el : Elem} {w' : World}
    (h : w.mapGet p k = .ok (el, w')) : KStep w w' := by
  unfold mapGet at h
  split at h
  · split at h
    · cases h
    · split at h
      · split at h
        · cases h; exact KStep.refl w
        · cases h; exact kstep_setCallbackMap _ _ _ _
      · cases h; exact KStep.refl w
  · cases h

/-- `forget` (disposal by the caller) -/
theorem kstep_forget (w : World) (k : SlabID) : KStep w (forget w.fuelOf w k) :=
  kstep_shrink (forget_shrink _ _ _)

/-- reopening drops every closure -/
theorem keyed_reopen (w : World) : KeyedClosures w.reopen := by
  intro x hi pm hx _
  cases hx

/-- a new ARRAY: a closure may name its ID, it is not a map -/
theorem keyed_newArr {w : World} (ty : Nat) (cx : Ctx) (h : KeyedClosures w) : KeyedClosures (w.newArr ty cx).2.1 := by
  intro x hi pm hx hp
  have hp' : (w.setCont (Arr.new w.addr ty cx).1.rootID (.arr (Arr.new w.addr ty cx).1)).cont? hi.parent
      = some (.map pm) := hp
  rw [cont?_setCont] at hp'
  split at hp'
  · cases hp'
  · exact h x hi pm hx hp'

/-- a new MAP: no closure names the ID that is allocated (`HinfoBelow`: closures name allocated IDs) -/
theorem keyed_newMap {w : World} (ty seed : Nat) (cx : Ctx) (h : KeyedClosures w) (hb : HinfoBelow w cx.ctr) :
    KeyedClosures (w.newMap ty seed cx).2.1 := by
  intro x hi pm hx hp
  have hx' : AList.find? w.hinfo x = some hi := hx
  have hid : (OMap.new w.addr ty (fun _ => seed) cx : OMap 3 × Ctx).1.rootID = ⟨w.addr, cx.ctr + 1⟩ := rfl
  have hp' : (w.setCont (OMap.new w.addr ty (fun _ => seed) cx : OMap 3 × Ctx).1.rootID
      (.map (OMap.new w.addr ty (fun _ => seed) cx : OMap 3 × Ctx).1)).cont? hi.parent = some (.map pm) := hp
  rw [cont?_setCont] at hp'
  split at hp'
  · rename_i heq
    have := hb x hi hx'
    rw [← heq, hid] at this
    simp at this
    omega
  · exact h x hi pm hx' hp'

/-- the empty world -/
theorem keyed_empty (T addr : Nat) : KeyedClosures { T := T, addr := addr } := by
  intro x hi pm hx _
  cases hx

end World
end Atree
