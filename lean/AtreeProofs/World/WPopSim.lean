import AtreeProofs.WorldOkPop
import AtreeProofs.World.Basic
/-
  Closures whose recorded parent has been disposed of are inert: a world `w` and the same world
  `w0` without (some of) these closures (`Sim n w0 w`) behave alike under the parent notification
  (`notifyParent` / `arrSetRaw` / `mapSetRaw`, by induction on the fuel): same results, related
  final worlds.  `n` bounds the slab index of the disposed parents (slab IDs are never reused).
-/
namespace Atree
open Gen

namespace World

/-- the world with another closure table -/
def withH (w : World) (H : AList SlabID HInfo) : World := { w with hinfo := H }

/-- replacing the closure table does not change the containers -/
@[simp] theorem cont?_withH (w : World) (H : AList SlabID HInfo) (y : SlabID) : (w.withH H).cont? y = w.cont? y := rfl
/-- replacing the closure table does not change the container table -/
@[simp] theorem conts_withH (w : World) (H : AList SlabID HInfo) : (w.withH H).conts = w.conts := rfl
/-- replacing the closure table does not change the threshold -/
@[simp] theorem T_withH (w : World) (H : AList SlabID HInfo) : (w.withH H).T = w.T := rfl
/-- replacing the closure table does not change the address -/
@[simp] theorem addr_withH (w : World) (H : AList SlabID HInfo) : (w.withH H).addr = w.addr := rfl
/-- replacing the closure table does not change the map configuration -/
@[simp] theorem mcfg_withH (w : World) (H : AList SlabID HInfo) : (w.withH H).mcfg = w.mcfg := rfl
/-- replacing the closure table does not change the index tables -/
@[simp] theorem mutIdx_withH (w : World) (H : AList SlabID HInfo) : (w.withH H).mutIdx = w.mutIdx := rfl
/-- replacing the closure table does not change the index table of a container -/
@[simp] theorem idxOf_withH (w : World) (H : AList SlabID HInfo) (p : SlabID) : (w.withH H).idxOf p = w.idxOf p := rfl
/-- the closure table after replacement -/
@[simp] theorem hinfo_withH (w : World) (H : AList SlabID HInfo) : (w.withH H).hinfo = H := rfl
/-- replacing the closure table does not change the fuel -/
@[simp] theorem fuelOf_withH (w : World) (H : AList SlabID HInfo) : (w.withH H).fuelOf = w.fuelOf := rfl
/-- `setCont` commutes with the replacement of the closure table -/
@[simp] theorem setCont_withH (w : World) (H : AList SlabID HInfo) (v : SlabID) (c : Cont) :
    (w.withH H).setCont v c = (w.setCont v c).withH H := rfl
/-- `setIdx` commutes with the replacement of the closure table -/
@[simp] theorem setIdx_withH (w : World) (H : AList SlabID HInfo) (p : SlabID) (m : AList SlabID Nat) :
    (w.withH H).setIdx p m = (w.setIdx p m).withH H := rfl
/-- `shiftIdx` commutes with the replacement of the closure table -/
@[simp] theorem shiftIdx_withH (w : World) (H : AList SlabID HInfo) (p : SlabID) (f : Nat → Nat) :
    (w.withH H).shiftIdx p f = (w.shiftIdx p f).withH H := rfl
/-- replacing the closure table twice -/
@[simp] theorem withH_withH (w : World) (H H' : AList SlabID HInfo) : (w.withH H).withH H' = w.withH H' := rfl
/-- replacing the closure table by itself -/
theorem withH_self (w : World) : w.withH w.hinfo = w := rfl

/-- `w0` is `w` without some closures whose recorded parent is gone (and was allocated before
    `n`) -/
structure Sim (n : Nat) (w0 w : World) : Prop where
  T : w0.T = w.T
  addr : w0.addr = w.addr
  conts : w0.conts = w.conts
  mutIdx : w0.mutIdx = w.mutIdx
  hinfo : ∀ x, AList.find? w0.hinfo x = AList.find? w.hinfo x ∨
    (AList.find? w0.hinfo x = none ∧
      ∃ hi, AList.find? w.hinfo x = some hi ∧ w.cont? hi.parent = none ∧ hi.parent.idx ≤ n)

namespace Sim
variable {n : Nat} {w0 w : World}

/-- a world simulates itself -/
theorem refl (n : Nat) (w : World) : Sim n w w := ⟨rfl, rfl, rfl, rfl, fun _ => Or.inl rfl⟩

/-- the simulating world is the world with another closure table -/
theorem eq (S : Sim n w0 w) : w0 = w.withH w0.hinfo := by
  obtain ⟨h1, h2, h3, h4, _⟩ := S
  cases w0; cases w
  simp only at h1 h2 h3 h4
  subst h1; subst h2; subst h3; subst h4
  rfl

/-- both sides have the same containers -/
theorem cont? (S : Sim n w0 w) (y : SlabID) : w0.cont? y = w.cont? y := by
  simp only [World.cont?, S.conts]

/-- both sides have the same index tables -/
theorem idxOf (S : Sim n w0 w) (p : SlabID) : w0.idxOf p = w.idxOf p := by
  simp only [World.idxOf, S.mutIdx]

/-- the bound on the disposed parents may grow -/
theorem mono {m : Nat} (S : Sim n w0 w) (h : n ≤ m) : Sim m w0 w :=
  ⟨S.T, S.addr, S.conts, S.mutIdx, fun x => by
    rcases S.hinfo x with a | ⟨a, hi, b, c, d⟩
    · exact Or.inl a
    · exact Or.inr ⟨a, hi, b, c, Nat.le_trans d h⟩⟩

/-- the simulation survives any common update of the other tables that revives no container -/
theorem step {H0 : AList SlabID HInfo} (S : Sim n (w.withH H0) w) {w2 : World}
    (hh : w2.hinfo = w.hinfo) (hdead : ∀ q, w.cont? q = none → w2.cont? q = none) :
    Sim n (w2.withH H0) w2 := by
  refine ⟨rfl, rfl, rfl, rfl, fun x => ?_⟩
  rcases S.hinfo x with a | ⟨a, hi, b, c, d⟩
  · exact Or.inl (by simpa [hh] using a)
  · exact Or.inr ⟨a, hi, by rw [hh]; exact b, hdead _ c, d⟩

/-- … of the closure tables by the same erasure -/
theorem erase (S : Sim n w0 w) (x : SlabID) :
    Sim n { w0 with hinfo := AList.erase w0.hinfo x } { w with hinfo := AList.erase w.hinfo x } := by
  refine ⟨S.T, S.addr, S.conts, S.mutIdx, fun y => ?_⟩
  show AList.find? (AList.erase w0.hinfo x) y = AList.find? (AList.erase w.hinfo x) y ∨ _
  rw [AList.find?_erase, AList.find?_erase]
  by_cases hxy : x = y
  · simp [hxy]
  · simp only [if_neg hxy]
    rcases S.hinfo y with a | ⟨a, hi, b, c, d⟩
    · exact Or.inl a
    · exact Or.inr ⟨a, hi, b, c, d⟩

/-- the stale closure of `x` is dropped on one side only -/
theorem erase_right (S : Sim n w0 w) (x : SlabID) (hx : AList.find? w0.hinfo x = none) :
    Sim n w0 { w with hinfo := AList.erase w.hinfo x } := by
  refine ⟨S.T, S.addr, S.conts, S.mutIdx, fun y => ?_⟩
  show AList.find? w0.hinfo y = AList.find? (AList.erase w.hinfo x) y ∨ _
  rw [AList.find?_erase]
  by_cases hxy : x = y
  · subst hxy; simp [hx]
  · simp only [if_neg hxy]
    rcases S.hinfo y with a | ⟨a, hi, b, c, d⟩
    · exact Or.inl a
    · exact Or.inr ⟨a, hi, b, c, d⟩

/-- the same closure is installed on both sides -/
theorem insertHinfo (S : Sim n w0 w) (x : SlabID) (hn : HInfo) :
    Sim n { w0 with hinfo := AList.insert w0.hinfo x hn } { w with hinfo := AList.insert w.hinfo x hn } := by
  refine ⟨S.T, S.addr, S.conts, S.mutIdx, fun y => ?_⟩
  show AList.find? (AList.insert w0.hinfo x hn) y = AList.find? (AList.insert w.hinfo x hn) y ∨ _
  rw [AList.find?_insert, AList.find?_insert]
  by_cases hxy : x = y
  · simp [hxy]
  · simp only [if_neg hxy]
    rcases S.hinfo y with a | ⟨a, hi, b, c, d⟩
    · exact Or.inl a
    · exact Or.inr ⟨a, hi, b, c, d⟩

/-- the same index table is set on both sides -/
theorem setIdx (S : Sim n w0 w) (p : SlabID) (m : AList SlabID Nat) : Sim n (w0.setIdx p m) (w.setIdx p m) :=
  ⟨S.T, S.addr, S.conts, by simp only [World.setIdx, S.mutIdx], S.hinfo⟩

/-- the same index shift on both sides -/
theorem shiftIdx (S : Sim n w0 w) (p : SlabID) (f : Nat → Nat) : Sim n (w0.shiftIdx p f) (w.shiftIdx p f) := by
  unfold World.shiftIdx
  rw [S.idxOf]
  exact S.setIdx _ _

/-- `setCallbackWithChild` of an array parent on both sides -/
theorem setCallbackArr (S : Sim n w0 w) (p : SlabID) (i : Nat) (v : WVal) :
    Sim n (w0.setCallbackArr p i v) (w.setCallbackArr p i v) := by
  have e0 := S.eq
  generalize w0.hinfo = H0 at e0
  subst e0
  cases v with
  | plain e => exact S
  | child vid wrap => exact (S.setIdx _ _).insertHinfo _ _

/-- `setCallbackWithChild` of a map parent on both sides -/
theorem setCallbackMap (S : Sim n w0 w) (p : SlabID) (k : MKey) (v : WVal) :
    Sim n (w0.setCallbackMap p k v) (w.setCallbackMap p k v) := by
  have e0 := S.eq
  generalize w0.hinfo = H0 at e0
  subst e0
  cases v with
  | plain e => exact S
  | child vid wrap => exact S.insertHinfo _ _

/-- a container is set on both sides (it was live: nothing is revived) -/
theorem setCont (S : Sim n w0 w) {v : SlabID} (hv : (w.cont? v).isSome) (c : Cont) :
    Sim n (w0.setCont v c) (w.setCont v c) := by
  refine ⟨S.T, S.addr, by simp only [World.setCont, S.conts], S.mutIdx, fun x => ?_⟩
  rcases S.hinfo x with a | ⟨a, hi, b, c', d⟩
  · exact Or.inl a
  · refine Or.inr ⟨a, hi, b, ?_, d⟩
    rw [cont?_setCont, if_neg]
    · exact c'
    · intro he; subst he; rw [c'] at hv; cases hv

end Sim

/-! ### operations that do not read the closure table -/

/-- a result with the closure table replaced -/
def liftH (H : AList SlabID HInfo) {α : Type} (r : Except WErr (α × World × Ctx)) : Except WErr (α × World × Ctx) :=
  match r with
  | .ok (a, w, cx) => .ok (a, w.withH H, cx)
  | .error e => .error e

/-- `childStorable` does not read the closure table -/
theorem childStorable_withH (w : World) (H : AList SlabID HInfo) (vid : SlabID) (wrap lim : Nat) (cx : Ctx) :
    (w.withH H).childStorable vid wrap lim cx = liftH H (w.childStorable vid wrap lim cx) := by
  unfold childStorable
  simp only [cont?_withH]
  cases w.cont? vid with
  | none => rfl
  | some c =>
    simp only
    split
    · rfl
    · split
      · rfl
      · split
        · cases c.inline vid cx with
          | error e => rfl
          | ok r => rfl
        · cases c.uninline vid cx with
          | error e => rfl
          | ok r => rfl

/-- `storableOf` does not read the closure table -/
theorem storableOf_withH (w : World) (H : AList SlabID HInfo) (v : WVal) (lim : Nat) (cx : Ctx) :
    (w.withH H).storableOf v lim cx = liftH H (w.storableOf v lim cx) := by
  cases v with
  | plain e => rfl
  | child vid wrap => exact childStorable_withH w H vid wrap lim cx

/-- `storableOf` revives no container and leaves the closure table alone -/
theorem storableOf_dead {w : World} {v : WVal} {lim : Nat} {cx : Ctx} {e : Elem} {w' : World} {cx' : Ctx}
    (h : w.storableOf v lim cx = .ok (e, w', cx')) :
    w'.hinfo = w.hinfo ∧ ∀ q, w.cont? q = none → w'.cont? q = none := by
  cases v with
  | plain e0 =>
    simp only [World.storableOf] at h; cases h
    exact ⟨rfl, fun _ h => h⟩
  | child x wrap =>
    obtain ⟨h1, _, _, _, h5, ⟨c, c', hc, hc', _⟩, _⟩ := childStorable_frame h
    refine ⟨h1, fun q hq => ?_⟩
    by_cases hqx : q = x
    · subst hqx; rw [hc] at hq; cases hq
    · rw [h5 q hqx]; exact hq

/-- `uninlineIfNeeded` does not read the closure table -/
theorem uninlineIfNeeded_withH (w : World) (H : AList SlabID HInfo) (e : Elem) (cx : Ctx) :
    (w.withH H).uninlineIfNeeded e cx =
      match w.uninlineIfNeeded e cx with
      | .ok (e', ov, w', cx') => .ok (e', ov, w'.withH H, cx')
      | .error er => .error er := by
  unfold uninlineIfNeeded
  cases e.pay with
  | val n => rfl
  | ref vid =>
    simp only [cont?_withH]
    cases w.cont? vid with
    | none => rfl
    | some c =>
      simp only
      split
      · cases c.uninline vid cx with
        | error er => rfl
        | ok r => rfl
      · rfl

/-! ### the notification -/

/-- the three simulation statements at a given fuel -/
def SimOk (fuel : Nat) : Prop :=
  (∀ n w0 w x cx w' cx', Sim n w0 w → notifyParent fuel w x cx = .ok (w', cx') →
      ∃ w0', notifyParent fuel w0 x cx = .ok (w0', cx') ∧ Sim n w0' w') ∧
  (∀ n w0 w p i v cx old w' cx', Sim n w0 w → arrSetRaw fuel w p i v cx = .ok (old, w', cx') →
      ∃ w0', arrSetRaw fuel w0 p i v cx = .ok (old, w0', cx') ∧ Sim n w0' w') ∧
  (∀ n w0 w p k v cx old w' cx', Sim n w0 w → mapSetRaw fuel w p k v cx = .ok (old, w', cx') →
      ∃ w0', mapSetRaw fuel w0 p k v cx = .ok (old, w0', cx') ∧ Sim n w0' w')

/-- `Array.set` on both sides, given the simulation of the notification at the same fuel -/
theorem sim_arrSetRaw (fuel : Nat)
    (ihn : ∀ n w0 w x cx w' cx', Sim n w0 w → notifyParent fuel w x cx = .ok (w', cx') →
      ∃ w0', notifyParent fuel w0 x cx = .ok (w0', cx') ∧ Sim n w0' w') :
    ∀ n w0 w p i v cx old w' cx', Sim n w0 w → arrSetRaw fuel w p i v cx = .ok (old, w', cx') →
      ∃ w0', arrSetRaw fuel w0 p i v cx = .ok (old, w0', cx') ∧ Sim n w0' w' := by
  intro n w0 w p i v cx old w' cx' S h
  have e0 := S.eq
  generalize w0.hinfo = H0 at e0
  subst e0
  rw [arrSetRaw] at h ⊢
  simp only [cont?_withH, T_withH]
  split at h
  · rename_i a hpa
    split at h
    · cases h
    · rename_i hi
      rw [if_neg hi]
      split at h
      · cases h
      · rename_i e w1 cx1 hst
        rw [storableOf_withH, hst]
        simp only [liftH]
        obtain ⟨f1, f2⟩ := storableOf_dead hst
        split at h
        · cases h
        · rename_i old1 a' cx2 hset
          simp only at h
          simp only [T_withH, hset, setCont_withH]
          split at h
          · cases h
          · rename_i w3 cx3 hnp
            cases h
            have S2 : Sim n ((w1.setCont p (.arr a')).withH H0) (w1.setCont p (.arr a')) :=
              S.step (w2 := w1.setCont p (.arr a')) (by simp [f1]) (fun q hq => by
                rw [cont?_setCont, if_neg]
                · exact f2 q hq
                · intro he; subst he; rw [hpa] at hq; cases hq)
            obtain ⟨w03, hn0, S3⟩ := ihn _ _ _ _ _ _ _ S2 hnp
            rw [hn0]
            exact ⟨_, rfl, S3.setCallbackArr p i v⟩
  · cases h

/-- `OrderedMap.set` on both sides, given the simulation of the notification at the same fuel -/
theorem sim_mapSetRaw (fuel : Nat)
    (ihn : ∀ n w0 w x cx w' cx', Sim n w0 w → notifyParent fuel w x cx = .ok (w', cx') →
      ∃ w0', notifyParent fuel w0 x cx = .ok (w0', cx') ∧ Sim n w0' w') :
    ∀ n w0 w p k v cx old w' cx', Sim n w0 w → mapSetRaw fuel w p k v cx = .ok (old, w', cx') →
      ∃ w0', mapSetRaw fuel w0 p k v cx = .ok (old, w0', cx') ∧ Sim n w0' w' := by
  intro n w0 w p k v cx old w' cx' S h
  have e0 := S.eq
  generalize w0.hinfo = H0 at e0
  subst e0
  rw [mapSetRaw] at h ⊢
  simp only [cont?_withH, T_withH]
  split at h
  · rename_i m hpm
    split at h
    · cases h
    · rename_i e w1 cx1 hst
      rw [storableOf_withH, hst]
      simp only [liftH]
      obtain ⟨f1, f2⟩ := storableOf_dead hst
      split at h
      · cases h
      · rename_i old1 m' cx2 hset
        simp only at h
        simp only [mcfg_withH, hset, setCont_withH]
        split at h
        · cases h
        · rename_i w3 cx3 hnp
          cases h
          have S2 : Sim n ((w1.setCont p (.map m')).withH H0) (w1.setCont p (.map m')) :=
            S.step (w2 := w1.setCont p (.map m')) (by simp [f1]) (fun q hq => by
              rw [cont?_setCont, if_neg]
              · exact f2 q hq
              · intro he; subst he; rw [hpm] at hq; cases hq)
          obtain ⟨w03, hn0, S3⟩ := ihn _ _ _ _ _ _ _ S2 hnp
          rw [hn0]
          exact ⟨_, rfl, S3.setCallbackMap p k v⟩
  · cases h

/-- THE SIMULATION of `notifyParentIfNeeded`, by induction on the fuel: a stale closure whose parent is gone is at most dropped, every other step is the same on both sides -/
theorem sim_notifyParent : ∀ fuel n w0 w x cx w' cx', Sim n w0 w → notifyParent fuel w x cx = .ok (w', cx') →
    ∃ w0', notifyParent fuel w0 x cx = .ok (w0', cx') ∧ Sim n w0' w' := by
  intro fuel
  induction fuel with
  | zero => intro n w0 w x cx w' cx' _ h; rw [notifyParent] at h; cases h
  | succ fuel ih =>
    intro n w0 w x cx w' cx' S h
    have e0 := S.eq
    generalize hH0 : w0.hinfo = H0 at e0
    subst e0
    rw [notifyParent] at h ⊢
    simp only [cont?_withH, hinfo_withH, idxOf_withH, mcfg_withH]
    rcases S.hinfo x with hsame | ⟨hnone, hi, hsome, hdead, _⟩
    · -- the closure of `x` is the same on both sides
      simp only [hinfo_withH] at hsame
      rw [hsame]
      split at h
      · cases h; exact ⟨_, rfl, S⟩
      · cases h
      · rename_i hi c hh hc
        by_cases hstay : (!c.isInlined && !c.inlinable hi.maxInline) = true
        · rw [if_pos hstay] at h ⊢
          cases h; exact ⟨_, rfl, S⟩
        · rw [if_neg hstay] at h ⊢
          simp only at h ⊢
          split at h
          · cases h; exact ⟨_, rfl, S.erase x⟩
          · rename_i pa hpa
            split at h
            · cases h; exact ⟨_, rfl, S.erase x⟩
            · rename_i idx hidx
              split at h
              · cases h
              · rename_i el hget
                by_cases hne : el.pay ≠ Pay.ref x
                · rw [if_pos hne] at h ⊢
                  cases h; exact ⟨_, rfl, S.erase x⟩
                · rw [if_neg hne] at h ⊢
                  split at h
                  · cases h
                  · rename_i old w2 cx2 hset
                    obtain ⟨w02, hs0, S2⟩ := sim_arrSetRaw fuel ih _ _ _ _ _ _ _ _ _ _ S hset
                    rw [hs0]
                    simp only
                    by_cases hne2 : old.pay ≠ Pay.ref x
                    · rw [if_pos hne2] at h; cases h
                    · rw [if_neg hne2] at h ⊢
                      cases h; exact ⟨_, rfl, S2⟩
          · rename_i pm hpm
            split at h
            · cases h
            · rename_i k hk
              split at h
              · cases h; exact ⟨_, rfl, S.erase x⟩
              · cases h
              · rename_i k' el hget
                by_cases hne : el.pay ≠ Pay.ref x
                · rw [if_pos hne] at h ⊢
                  cases h; exact ⟨_, rfl, S.erase x⟩
                · rw [if_neg hne] at h ⊢
                  split at h
                  · cases h
                  · rename_i old w2 cx2 hset
                    obtain ⟨w02, hs0, S2⟩ := sim_mapSetRaw fuel ih _ _ _ _ _ _ _ _ _ _ S hset
                    rw [hs0]
                    simp only
                    cases old with
                    | none => cases h
                    | some o =>
                      simp only at h ⊢
                      by_cases hne2 : o.pay ≠ Pay.ref x
                      · rw [if_pos hne2] at h; cases h
                      · rw [if_neg hne2] at h ⊢
                        cases h; exact ⟨_, rfl, S2⟩
    · -- the closure of `x` is stale (its parent is gone) and absent from `w0`
      simp only [hinfo_withH] at hnone
      rw [hnone]
      simp only
      rw [hsome] at h
      split at h
      · rename_i heq; cases heq
      · cases h
      · rename_i hi' c hh hc
        cases hh
        by_cases hstay : (!c.isInlined && !c.inlinable hi.maxInline) = true
        · rw [if_pos hstay] at h
          cases h; exact ⟨_, rfl, S⟩
        · rw [if_neg hstay] at h
          simp only at h
          rw [hdead] at h
          simp only at h
          cases h
          exact ⟨_, rfl, S.erase_right x hnone⟩

/-- the three simulation statements hold at every fuel -/
theorem simOk (fuel : Nat) : SimOk fuel :=
  ⟨sim_notifyParent fuel, sim_arrSetRaw fuel (sim_notifyParent fuel), sim_mapSetRaw fuel (sim_notifyParent fuel)⟩

end World
end Atree
