import AtreeProofs.World.NotifyPrep
/-
  THE STEP of a public mutation: the content of the container `p` changes (one slot inserted,
  overwritten or removed).  Positions of the new content are related to the old ones by a partial
  injective map `φ` (new position ↦ old position; `none` = the new slot `jn`).  Afterwards the
  invariant holds with `p` as the container whose parent slot is out of date, the inserted child
  and the removed children being pending (`O2`).
-/
namespace Atree
open Gen

namespace World

variable {D : SlabID → DigestFn 4} {rank : SlabID → Nat}

theorem step_mutate {w w2 : World} {ctr ctr2 : Nat} {p : SlabID} {pc pc' : Cont} {O O2 : SlabID → Prop}
    (H : WorldOkGen D rank none O w ctr) (hp : w.cont? p = some pc) (hOsub : ∀ x, O x → O2 x)
    -- the new container
    (hokp : ContOk w.T (D p) ctr2 pc') (harr : pc'.isArr = pc.isArr) (hinlp : pc'.isInlined = pc.isInlined)
    (hvid : pc'.vid = pc.vid) (hbp : pc'.isInlined = true → pc'.rootSize ≤ w.T) (hctr : ctr ≤ ctr2)
    -- its slots
    (φ : Nat → Option Nat) (tn : Option (Option MKey × Nat × Elem)) (jn : Nat)
    (hφ : ∀ i i0, φ i = some i0 → (pc'.kslots w.T)[i]? = (pc.kslots w.T)[i0]?)
    (hφn : ∀ i, φ i = none → (pc'.kslots w.T)[i]? = if i = jn then tn else none)
    (hφinj : ∀ i i' i0, φ i = some i0 → φ i' = some i0 → i = i')
    -- the new slot: a plain value, or a pending child that nobody refers to
    (hnew : ∀ t, tn = some t → ∀ x c, t.2.2.pay = .ref x → w.cont? x = some c →
      (∀ q, ¬ Holds w q x) ∧ O2 x ∧ rank p < rank x ∧
      ∃ wrap, slabIDStorableSize + 2 * wrap ≤ t.2.1 ∧ t.2.2.size = slotSize c wrap ∧
        c.isInlined = c.inlinable (t.2.1 - 2 * wrap))
    (hnewb : ∀ t, tn = some t → ∀ r, t.2.2.pay = .ref r → r.idx ≤ ctr2)
    -- the removed slots: their children are pending
    (hrem : ∀ i0 t, (pc.kslots w.T)[i0]? = some t → (∀ i, φ i ≠ some i0) → ∀ x, t.2.2.pay = .ref x → O2 x)
    -- the index table of `p` follows the positions
    (ψ : Nat → Nat)
    (hψ : ∀ i0 x, pc.isArr = true → AList.find? (w.idxOf p) x = some i0 → ¬ O2 x → φ (ψ i0) = some i0)
    -- the new world
    (hT : w2.T = w.T) (ha : w2.addr = w.addr) (hh : w2.hinfo = w.hinfo)
    (hidx : ∀ q x, AList.find? (w2.idxOf q) x =
      if p = q then (AList.find? (w.idxOf p) x).map ψ else AList.find? (w.idxOf q) x)
    (hcp : w2.cont? p = some pc') (hco : ∀ z, z ≠ p → w2.cont? z = w.cont? z) :
    WorldOkGen D rank (some p) O2 w2 ctr2 := by
  have hsome : ∀ z, (w2.cont? z).isSome = (w.cont? z).isSome := by
    intro z
    by_cases hz : z = p
    · subst hz; rw [hcp, hp]; rfl
    · rw [hco z hz]
  -- a slot of the new `p`: retained or new
  have hslot : ∀ i t, (pc'.kslots w.T)[i]? = some t →
      (∃ i0, φ i = some i0 ∧ (pc.kslots w.T)[i0]? = some t) ∨ (φ i = none ∧ i = jn ∧ tn = some t) := by
    intro i t hi
    cases hφi : φ i with
    | some i0 => exact Or.inl ⟨i0, rfl, by rw [← hφ i i0 hφi]; exact hi⟩
    | none =>
      have := hφn i hφi
      rw [hi] at this
      split at this
      · rename_i hij; exact Or.inr ⟨rfl, hij, this.symm⟩
      · cases this
  -- `Holds` in the new world
  have hholds : ∀ q x, Holds w2 q x → (w.cont? x).isSome →
      Holds w q x ∨ (q = p ∧ (∀ q', ¬ Holds w q' x) ∧ O2 x ∧ rank p < rank x) := by
    intro q x hq hx
    by_cases hqp : q = p
    · subst hqp
      obtain ⟨qc, hqc, hm⟩ := hq
      rw [hcp] at hqc; cases hqc
      obtain ⟨i, hi⟩ := List.mem_iff_getElem?.mp hm
      obtain ⟨le, hle, hpay⟩ := Cont.pay_slot (T := w.T) hi
      obtain ⟨ko, hk⟩ := Cont.slot_kslot hle
      rcases hslot i _ hk with ⟨i0, _, h0⟩ | ⟨_, _, htn⟩
      · exact Or.inl (holds_of_kslot hp h0 hpay)
      · obtain ⟨c, hc⟩ := Option.isSome_iff_exists.mp hx
        obtain ⟨h1, h2, h3, _⟩ := hnew _ htn x c hpay hc
        exact Or.inr ⟨rfl, h1, h2, h3⟩
    · obtain ⟨qc, hqc, hm⟩ := hq
      rw [hco q hqp] at hqc
      exact Or.inl ⟨qc, hqc, hm⟩
  have hholds' : ∀ q x, q ≠ p → Holds w q x → Holds w2 q x := by
    intro q x hqp ⟨qc, hqc, hm⟩
    exact ⟨qc, by rw [hco q hqp]; exact hqc, hm⟩
  -- `ClosureAt` of a live container that is not pending did not change
  have hCAback : ∀ x hi lim0 e0, ¬ O2 x → (w.cont? x).isSome → ClosureAt w2 x hi lim0 e0 →
      ClosureAt w x hi lim0 e0 := by
    intro x hi lim0 e0 hxO hxs hca
    by_cases hpp : hi.parent = p
    · rcases hca with ⟨pa2, i, hpa2, hi2, hge2, hpay2, hlim2⟩ | ⟨pm2, k, hpm2, hk2, hmem2, hpay2, hlim2⟩
      · rw [hpp, hcp] at hpa2; cases hpa2
        rw [hpp, hidx, if_pos rfl] at hi2
        cases hi0 : AList.find? (w.idxOf p) x with
        | none => rw [hi0] at hi2; cases hi2
        | some i0 =>
          rw [hi0] at hi2
          simp only [Option.map_some, Option.some.injEq] at hi2
          have hφi := hψ i0 x (by rw [← harr]; rfl) hi0 hxO
          rw [hi2] at hφi
          have hk2 : ((Cont.arr pa2).kslots w.T)[i]? = some (none, maxInlineArr w.T, e0) := by
            rw [Cont.kslots_arr]; exact ⟨e0, hge2, rfl⟩
          rw [hφ i i0 hφi] at hk2
          cases pc with
          | map m => cases harr
          | arr pa =>
            obtain ⟨e', he', heq⟩ := (Cont.kslots_arr w.T pa i0 _).mp hk2
            cases heq
            exact Or.inl ⟨pa, i0, by rw [hpp]; exact hp, by rw [hpp]; exact hi0, he', hpay2, by rw [hlim2, hT]⟩
      · rw [hpp, hcp] at hpm2; cases hpm2
        obtain ⟨i, hi⟩ := List.mem_iff_getElem?.mp hmem2
        have hk : ((Cont.map pm2).kslots w.T)[i]? = some (some k, maxInlineMapValue w.T k.size, e0) := by
          rw [Cont.kslots_map]; exact ⟨k, e0, hi, rfl⟩
        rcases hslot i _ hk with ⟨i0, _, h0⟩ | ⟨_, _, htn⟩
        · cases pc with
          | arr pa => cases harr
          | map pm =>
            obtain ⟨k', v', hkv, heq⟩ := (Cont.kslots_map w.T pm i0 _).mp h0
            cases heq
            exact Or.inr ⟨pm, _, by rw [hpp]; exact hp, hk2, List.mem_of_getElem? hkv, hpay2, by rw [hlim2, hT]⟩
        · -- the new slot refers to a pending container
          obtain ⟨c, hc⟩ := Option.isSome_iff_exists.mp hxs
          exact absurd (hnew _ htn x c hpay2 hc).2.1 hxO
    · have : ClosureAt w2 x hi lim0 e0 ↔ ClosureAt w x hi lim0 e0 := by
        unfold ClosureAt
        rw [hco _ hpp, hidx, if_neg (Ne.symm hpp), hT]
      exact this.mp hca
  have hrkp : ∀ x, Holds w p x → (w.cont? x).isSome → x ≠ p := by
    intro x hx hxs he
    subst he
    have := H.rank x x hx hxs
    omega
  refine ⟨by rw [hT]; exact H.legal, ?_, ?_, ?_, ?_, ?_, ?_, ?_, ?_, ?_, ?_, ?_, ?_,
    fun x hi hx => by rw [hh] at hx; rw [hsome]; exact H.hinfoLive x hi hx⟩
  rotate_right
  · intro q x i hi
    rw [hidx] at hi
    rw [hsome]
    have hkind : ∀ q a, w.cont? q = some (.arr a) → ∃ a', w2.cont? q = some (.arr a') := by
      intro q a hq
      by_cases hqp : q = p
      · subst hqp
        rw [hp] at hq; cases hq
        cases pc' with
        | arr a' => exact ⟨a', hcp⟩
        | map m => cases harr
      · exact ⟨a, by rw [hco q hqp]; exact hq⟩
    split at hi
    · rename_i hpq
      cases h0 : AList.find? (w.idxOf p) x with
      | none => rw [h0] at hi; cases hi
      | some i0 =>
        obtain ⟨h1, a, ha⟩ := H.idxLive p x i0 h0
        rw [← hpq]
        exact ⟨h1, hkind p a ha⟩
    · obtain ⟨h1, a, ha⟩ := H.idxLive q x i hi
      exact ⟨h1, hkind q a ha⟩
  · -- ids
    intro z cz hz
    by_cases hzp : z = p
    · subst hzp; rw [hcp] at hz; cases hz; rw [hvid]; exact H.ids _ _ hp
    · rw [hco z hzp] at hz; exact H.ids z cz hz
  · -- addr
    intro z cz hz
    rw [ha]
    by_cases hzp : z = p
    · subst hzp; exact H.addr _ _ hp
    · rw [hco z hzp] at hz; exact H.addr z cz hz
  · -- conts
    intro z cz hz
    rw [hT]
    by_cases hzp : z = p
    · subst hzp; rw [hcp] at hz; cases hz; exact hokp
    · rw [hco z hzp] at hz; exact (H.conts z cz hz).mono hctr
  · -- slots
    intro q qc hq le hle x cx hx hcx
    rw [hT] at hle
    have hxs : (w.cont? x).isSome := by rw [← hsome, hcx]; rfl
    -- the clause for a slot that existed before
    have hold : ∀ qc0, w.cont? q = some qc0 → le ∈ qc0.slots w.T →
        ∃ wrap, slabIDStorableSize + 2 * wrap ≤ le.1 ∧
          (some x ≠ some p → le.2.size = slotSize cx wrap ∧ cx.isInlined = cx.inlinable (le.1 - 2 * wrap)) ∧
          (some x = some p → cx.isInlined = false → le.2.size = slotSize cx wrap) ∧
          (∀ hi, ¬ O2 x → AList.find? w2.hinfo x = some hi → ClosureAt w2 x hi le.1 le.2 → hi.wrap = wrap) := by
      intro qc0 hq0 hle0
      by_cases hxp : x = p
      · have hxp' := hxp.symm
        subst hxp'
        rw [hcp] at hcx; cases hcx
        obtain ⟨wr, h1, h2, _, h4⟩ := H.slots q qc0 hq0 le hle0 p pc hx hp
        obtain ⟨h2a, _⟩ := h2 (by intro he; cases he)
        refine ⟨wr, h1, fun hne => absurd rfl hne, fun _ hni => ?_, ?_⟩
        · rw [h2a, slotSize_standalone hni, slotSize_standalone (by rw [← hinlp]; exact hni)]
        · intro hi hO hhi hca
          rw [hh] at hhi
          exact h4 hi (fun h => hO (hOsub _ h)) hhi (hCAback p hi _ _ hO hxs hca)
      · rw [hco x hxp] at hcx
        obtain ⟨wr, h1, h2, _, h4⟩ := H.slots q qc0 hq0 le hle0 x cx hx hcx
        refine ⟨wr, h1, fun _ => h2 (by intro he; cases he), fun he => ?_, ?_⟩
        · cases he; exact absurd rfl hxp
        · intro hi hO hhi hca
          rw [hh] at hhi
          exact h4 hi (fun h => hO (hOsub _ h)) hhi (hCAback x hi _ _ hO hxs hca)
    by_cases hqp : q = p
    · have hqp' := hqp.symm
      subst hqp'
      rw [hcp] at hq; cases hq
      obtain ⟨i, hi⟩ := List.mem_iff_getElem?.mp hle
      obtain ⟨ko, hk⟩ := Cont.slot_kslot hi
      rcases hslot i _ hk with ⟨i0, _, h0⟩ | ⟨_, _, htn⟩
      · exact hold pc hp (List.mem_of_getElem? (Cont.kslot_slot h0))
      · -- the new slot
        obtain ⟨c, hc⟩ := Option.isSome_iff_exists.mp hxs
        obtain ⟨_, hOx, hrk, wr, hb, hsz, hinl⟩ := hnew _ htn x c hx hc
        have hxp : x ≠ p := by intro he; rw [he] at hrk; omega
        rw [hco x hxp, hc] at hcx; cases hcx
        exact ⟨wr, hb, fun _ => ⟨hsz, hinl⟩, fun he => by cases he; exact absurd rfl hxp,
          fun hi hO _ _ => absurd hOx hO⟩
    · rw [hco q hqp] at hq
      exact hold qc hq hle
  · -- band
    intro z cz hz hi
    rw [hT]
    by_cases hzp : z = p
    · subst hzp; rw [hcp] at hz; cases hz; exact hbp hi
    · rw [hco z hzp] at hz; exact H.band z cz hz hi
  · -- unique
    intro q q' qc qc' i i' x hq hq' hi hi' hx
    rw [hsome] at hx
    -- every reference in the new world is an old one (at the old position) or the new slot
    have hpos : ∀ q1 qc1 i1, w2.cont? q1 = some qc1 → qc1.pays[i1]? = some (Pay.ref x) →
        (∃ qc0 i0, w.cont? q1 = some qc0 ∧ qc0.pays[i0]? = some (Pay.ref x) ∧ (q1 = p → φ i1 = some i0) ∧
            (q1 ≠ p → i0 = i1)) ∨
        (q1 = p ∧ φ i1 = none ∧ ∀ q0, ¬ Holds w q0 x) := by
      intro q1 qc1 i1 hq1 hp1
      by_cases hq1p : q1 = p
      · subst hq1p
        rw [hcp] at hq1; cases hq1
        obtain ⟨le, hle, hpay⟩ := Cont.pay_slot (T := w.T) hp1
        obtain ⟨ko, hk⟩ := Cont.slot_kslot hle
        rcases hslot i1 _ hk with ⟨i0, hφ0, h0⟩ | ⟨hφn', _, htn⟩
        · refine Or.inl ⟨pc, i0, hp, ?_, fun _ => hφ0, fun h => absurd rfl h⟩
          rw [Cont.kslot_pay h0]; exact congrArg some hpay
        · obtain ⟨c, hc⟩ := Option.isSome_iff_exists.mp hx
          exact Or.inr ⟨rfl, hφn', (hnew _ htn x c hpay hc).1⟩
      · rw [hco q1 hq1p] at hq1
        exact Or.inl ⟨qc1, i1, hq1, hp1, fun h => absurd h hq1p, fun _ => rfl⟩
    rcases hpos q qc i hq hi with ⟨qc0, i0, h1, h2, h3, h4⟩ | ⟨h1, h2, h3⟩
    · rcases hpos q' qc' i' hq' hi' with ⟨qc0', i0', h1', h2', h3', h4'⟩ | ⟨h1', h2', h3'⟩
      · obtain ⟨hqq, hii⟩ := H.unique q q' qc0 qc0' i0 i0' x h1 h1' h2 h2' hx
        subst hqq; subst hii
        refine ⟨rfl, ?_⟩
        by_cases hqp : q = p
        · exact hφinj i i' i0 (h3 hqp) (h3' hqp)
        · rw [← h4 hqp, ← h4' hqp]
      · exact absurd ⟨qc0, h1, List.mem_of_getElem? h2⟩ (h3' q)
    · rcases hpos q' qc' i' hq' hi' with ⟨qc0', i0', h1', h2', h3', h4'⟩ | ⟨h1', h2', h3'⟩
      · exact absurd ⟨qc0', h1', List.mem_of_getElem? h2'⟩ (h3 q')
      · subst h1; subst h1'
        refine ⟨rfl, ?_⟩
        rw [hcp] at hq hq'; cases hq; cases hq'
        obtain ⟨le, hle, _⟩ := Cont.pay_slot (T := w.T) hi
        obtain ⟨ko, hk⟩ := Cont.slot_kslot hle
        obtain ⟨le', hle', _⟩ := Cont.pay_slot (T := w.T) hi'
        obtain ⟨ko', hk'⟩ := Cont.slot_kslot hle'
        have e1 := hφn i h2
        have e2 := hφn i' h2'
        rw [hk] at e1
        rw [hk'] at e2
        split at e1
        · split at e2
          · rename_i a b; rw [a, b]
          · cases e2
        · cases e1
  · -- inlRef
    intro z cz hz hi hO
    by_cases hzp : z = p
    · have hzp' := hzp.symm
      subst hzp'
      rw [hcp] at hz; cases hz
      obtain ⟨q, hq⟩ := H.inlRef p pc hp (by rw [← hinlp]; exact hi) (fun h => hO (hOsub _ h))
      have hqp : q ≠ p := by
        intro he; subst he
        exact hrkp q hq (by rw [hp]; rfl) rfl
      exact ⟨q, hholds' q p hqp hq⟩
    · rw [hco z hzp] at hz
      obtain ⟨q, hq⟩ := H.inlRef z cz hz hi (fun h => hO (hOsub _ h))
      by_cases hqp : q = p
      · subst hqp
        obtain ⟨qc, hqc, hm⟩ := hq
        rw [hp] at hqc; cases hqc
        obtain ⟨i0, hi0⟩ := List.mem_iff_getElem?.mp hm
        obtain ⟨le, hle, hpay⟩ := Cont.pay_slot (T := w.T) hi0
        obtain ⟨ko, hk⟩ := Cont.slot_kslot hle
        by_cases hex : ∃ i, φ i = some i0
        · obtain ⟨i, hφi⟩ := hex
          refine ⟨q, pc', hcp, ?_⟩
          have := hφ i i0 hφi
          rw [hk] at this
          have hp2 := Cont.kslot_pay this
          simp only at hp2
          rw [hpay] at hp2
          exact List.mem_of_getElem? hp2
        · exact absurd (hrem i0 _ hk (fun i hφi => hex ⟨i, hφi⟩) z hpay) hO
      · exact ⟨q, hholds' q z hqp hq⟩
  · -- mutIdx
    intro q a hq x i hi hO
    rw [hidx] at hi
    by_cases hqp : p = q
    · subst hqp
      rw [if_pos rfl] at hi
      rw [hcp] at hq
      cases hq
      cases hi0 : AList.find? (w.idxOf p) x with
      | none => rw [hi0] at hi; cases hi
      | some i0 =>
        rw [hi0] at hi
        simp only [Option.map_some, Option.some.injEq] at hi
        have hφi := hψ i0 x (by rw [← harr]; rfl) hi0 hO
        rw [hi] at hφi
        cases pc with
        | map m => cases harr
        | arr pa =>
          have h0 := H.mutIdx p pa hp x i0 hi0 (fun h => hO (hOsub _ h))
          obtain ⟨le, hle, hpay⟩ := Cont.pay_slot (T := w.T) h0
          obtain ⟨ko, hk⟩ := Cont.slot_kslot hle
          have := hφ i i0 hφi
          rw [hk] at this
          have hp2 := Cont.kslot_pay this
          simp only at hp2
          rw [hpay] at hp2
          exact hp2
    · rw [if_neg hqp] at hi
      rw [hco q (Ne.symm hqp)] at hq
      exact H.mutIdx q a hq x i hi (fun h => hO (hOsub _ h))
  · -- closure
    intro x hi hx
    rw [hh] at hx
    obtain ⟨c1, c2⟩ := H.closure x hi hx
    refine ⟨fun pa2 hpa2 => ?_, fun pm2 k2 hpm2 hk2 => ?_⟩
    · rw [hT]
      by_cases hpp : hi.parent = p
      · rw [hpp, hcp] at hpa2; cases hpa2
        cases pc with
        | map m => cases harr
        | arr pa => exact c1 pa (by rw [hpp]; exact hp)
      · rw [hco _ hpp] at hpa2; exact c1 pa2 hpa2
    · rw [hT]
      by_cases hpp : hi.parent = p
      · rw [hpp, hcp] at hpm2; cases hpm2
        cases pc with
        | arr pa => cases harr
        | map pm => exact c2 pm k2 (by rw [hpp]; exact hp) hk2
      · rw [hco _ hpp] at hpm2; exact c2 pm2 k2 hpm2 hk2
  · -- rank
    intro q x hq hx
    rw [hsome] at hx
    rcases hholds q x hq hx with h | ⟨h1, _, _, h4⟩
    · exact H.rank q x h hx
    · rw [h1]; exact h4
  · -- below
    intro q qc hq r hr
    by_cases hqp : q = p
    · subst hqp
      rw [hcp] at hq; cases hq
      obtain ⟨i, hi⟩ := List.mem_iff_getElem?.mp hr
      obtain ⟨le, hle, hpay⟩ := Cont.pay_slot (T := w.T) hi
      obtain ⟨ko, hk⟩ := Cont.slot_kslot hle
      rcases hslot i _ hk with ⟨i0, _, h0⟩ | ⟨_, _, htn⟩
      · have := Cont.kslot_pay h0
        simp only at this
        rw [hpay] at this
        exact Nat.le_trans (H.below q pc hp r (List.mem_of_getElem? this)) hctr
      · exact hnewb _ htn r hpay
    · rw [hco q hqp] at hq
      exact Nat.le_trans (H.below q qc hq r hr) hctr

/-! ### the three shapes of a mutation -/

/-- the pending set after a slot has been dropped: the container it referred to (if any) -/
def Pend (O : SlabID → Prop) (t : Option MKey × Nat × Elem) : SlabID → Prop :=
  fun z => O z ∨ t.2.2.pay = .ref z

/-- one slot inserted at position `i` -/
theorem step_insert {w w2 : World} {ctr ctr2 : Nat} {p : SlabID} {pc pc' : Cont} {O O2 : SlabID → Prop}
    (H : WorldOkGen D rank none O w ctr) (hp : w.cont? p = some pc) (hOsub : ∀ x, O x → O2 x)
    (hokp : ContOk w.T (D p) ctr2 pc') (harr : pc'.isArr = pc.isArr) (hinlp : pc'.isInlined = pc.isInlined)
    (hvid : pc'.vid = pc.vid) (hbp : pc'.isInlined = true → pc'.rootSize ≤ w.T) (hctr : ctr ≤ ctr2)
    {i : Nat} {tn : Option MKey × Nat × Elem}
    (hks : pc'.kslots w.T = (pc.kslots w.T).insertIdx i tn) (hi : i ≤ (pc.kslots w.T).length)
    (hnew : ∀ x c, tn.2.2.pay = .ref x → w.cont? x = some c →
      (∀ q, ¬ Holds w q x) ∧ O2 x ∧ rank p < rank x ∧
      ∃ wrap, slabIDStorableSize + 2 * wrap ≤ tn.2.1 ∧ tn.2.2.size = slotSize c wrap ∧
        c.isInlined = c.inlinable (tn.2.1 - 2 * wrap))
    (hnewb : ∀ r, tn.2.2.pay = .ref r → r.idx ≤ ctr2)
    (hT : w2.T = w.T) (ha : w2.addr = w.addr) (hh : w2.hinfo = w.hinfo)
    (hidx : ∀ q x, AList.find? (w2.idxOf q) x =
      if p = q then (AList.find? (w.idxOf p) x).map (fun j => if j ≥ i then j + 1 else j)
      else AList.find? (w.idxOf q) x)
    (hcp : w2.cont? p = some pc') (hco : ∀ z, z ≠ p → w2.cont? z = w.cont? z) :
    WorldOkGen D rank (some p) O2 w2 ctr2 := by
  refine step_mutate H hp hOsub hokp harr hinlp hvid hbp hctr
    (fun j => if j < i then some j else if j = i then none else some (j - 1)) (some tn) i
    ?_ ?_ ?_ ?_ ?_ ?_ (fun j => if j ≥ i then j + 1 else j) ?_ hT ha hh hidx hcp hco
  · intro j j0 hj
    rw [hks]
    split at hj
    · cases hj
      rename_i hlt
      exact List.getElem?_insertIdx_of_lt hlt
    · split at hj
      · cases hj
      · cases hj
        rw [List.getElem?_insertIdx_of_gt (by omega)]
  · intro j hj
    rw [hks]
    split at hj
    · cases hj
    · split at hj
      · rename_i hji; subst hji
        rw [if_pos rfl, List.getElem?_insertIdx_self, if_pos hi]
      · cases hj
  · intro j j' j0 h1 h2
    split at h1 <;> split at h2 <;> (try split at h1) <;> (try split at h2) <;>
      simp only [Option.some.injEq, reduceCtorEq] at h1 h2 <;> omega
  · intro t ht x c hx hc
    cases ht
    exact hnew x c hx hc
  · intro t ht r hr
    cases ht
    exact hnewb r hr
  · intro i0 t _ hall
    exfalso
    by_cases h0 : i0 < i
    · exact hall i0 (by rw [if_pos h0])
    · exact hall (i0 + 1) (by
        rw [if_neg (by omega), if_neg (by omega)]
        simp)
  · intro i0 x _ _ _
    by_cases h0 : i0 ≥ i
    · rw [if_pos h0, if_neg (by omega), if_neg (by omega)]; simp
    · rw [if_neg h0, if_pos (by omega)]

/-- the slot at position `i` overwritten -/
theorem step_set {w w2 : World} {ctr ctr2 : Nat} {p : SlabID} {pc pc' : Cont} {O O2 : SlabID → Prop}
    (H : WorldOkGen D rank none O w ctr) (hp : w.cont? p = some pc) (hOsub : ∀ x, O x → O2 x)
    (hokp : ContOk w.T (D p) ctr2 pc') (harr : pc'.isArr = pc.isArr) (hinlp : pc'.isInlined = pc.isInlined)
    (hvid : pc'.vid = pc.vid) (hbp : pc'.isInlined = true → pc'.rootSize ≤ w.T) (hctr : ctr ≤ ctr2)
    {i : Nat} {tn told : Option MKey × Nat × Elem}
    (hks : pc'.kslots w.T = (pc.kslots w.T).set i tn) (hi : (pc.kslots w.T)[i]? = some told)
    (hold : ∀ x, told.2.2.pay = .ref x → O2 x)
    (hnew : ∀ x c, tn.2.2.pay = .ref x → w.cont? x = some c →
      (∀ q, ¬ Holds w q x) ∧ O2 x ∧ rank p < rank x ∧
      ∃ wrap, slabIDStorableSize + 2 * wrap ≤ tn.2.1 ∧ tn.2.2.size = slotSize c wrap ∧
        c.isInlined = c.inlinable (tn.2.1 - 2 * wrap))
    (hnewb : ∀ r, tn.2.2.pay = .ref r → r.idx ≤ ctr2)
    (hT : w2.T = w.T) (ha : w2.addr = w.addr) (hh : w2.hinfo = w.hinfo)
    (hidx : ∀ q x, AList.find? (w2.idxOf q) x = AList.find? (w.idxOf q) x)
    (hcp : w2.cont? p = some pc') (hco : ∀ z, z ≠ p → w2.cont? z = w.cont? z) :
    WorldOkGen D rank (some p) O2 w2 ctr2 := by
  have hilt : i < (pc.kslots w.T).length := (List.getElem?_eq_some_iff.mp hi).1
  refine step_mutate H hp hOsub hokp harr hinlp hvid hbp hctr
    (fun j => if j = i then none else some j) (some tn) i
    ?_ ?_ ?_ ?_ ?_ ?_ (fun j => j) ?_ hT ha hh ?_ hcp hco
  · intro j j0 hj
    rw [hks]
    split at hj
    · cases hj
    · cases hj
      rename_i hne
      exact List.getElem?_set_ne (Ne.symm hne)
  · intro j hj
    rw [hks]
    split at hj
    · rename_i hji; subst hji
      rw [if_pos rfl, List.getElem?_set_self hilt]
    · cases hj
  · intro j j' j0 h1 h2
    split at h1 <;> split at h2 <;> simp only [Option.some.injEq, reduceCtorEq] at h1 h2
    omega
  · intro t ht x c hx hc
    cases ht
    exact hnew x c hx hc
  · intro t ht r hr
    cases ht
    exact hnewb r hr
  · intro i0 t ht hall x hx
    by_cases h0 : i0 = i
    · subst h0
      rw [hi] at ht; cases ht
      exact hold x hx
    · exact absurd (by rw [if_neg h0]) (hall i0)
  · intro i0 x hpa hx hO2
    by_cases h0 : i0 = i
    · subst h0
      exfalso
      cases pc with
      | map m => cases hpa
      | arr pa =>
        have := H.mutIdx p pa hp x i0 hx (fun h => hO2 (hOsub _ h))
        have h2 := Cont.kslot_pay hi
        rw [this] at h2
        exact hO2 (hold x (by simpa using h2.symm))
    · rw [if_neg h0]
  · intro q x
    rw [hidx]
    split
    · rename_i hpq; subst hpq
      cases AList.find? (w.idxOf p) x <;> rfl
    · rfl

/-- the slot at position `i` removed -/
theorem step_remove {w w2 : World} {ctr ctr2 : Nat} {p : SlabID} {pc pc' : Cont} {O O2 : SlabID → Prop}
    (H : WorldOkGen D rank none O w ctr) (hp : w.cont? p = some pc) (hOsub : ∀ x, O x → O2 x)
    (hokp : ContOk w.T (D p) ctr2 pc') (harr : pc'.isArr = pc.isArr) (hinlp : pc'.isInlined = pc.isInlined)
    (hvid : pc'.vid = pc.vid) (hbp : pc'.isInlined = true → pc'.rootSize ≤ w.T) (hctr : ctr ≤ ctr2)
    {i : Nat} {told : Option MKey × Nat × Elem}
    (hks : pc'.kslots w.T = (pc.kslots w.T).eraseIdx i) (hi : (pc.kslots w.T)[i]? = some told)
    (hold : ∀ x, told.2.2.pay = .ref x → O2 x)
    (hT : w2.T = w.T) (ha : w2.addr = w.addr) (hh : w2.hinfo = w.hinfo)
    (hidx : ∀ q x, AList.find? (w2.idxOf q) x =
      if p = q then (AList.find? (w.idxOf p) x).map (fun j => if j > i then j - 1 else j)
      else AList.find? (w.idxOf q) x)
    (hcp : w2.cont? p = some pc') (hco : ∀ z, z ≠ p → w2.cont? z = w.cont? z) :
    WorldOkGen D rank (some p) O2 w2 ctr2 := by
  refine step_mutate H hp hOsub hokp harr hinlp hvid hbp hctr
    (fun j => if j < i then some j else some (j + 1)) none 0
    ?_ ?_ ?_ ?_ ?_ ?_ (fun j => if j > i then j - 1 else j) ?_ hT ha hh hidx hcp hco
  · intro j j0 hj
    rw [hks]
    split at hj
    · cases hj
      rename_i hlt
      exact List.getElem?_eraseIdx_of_lt hlt
    · cases hj
      exact List.getElem?_eraseIdx_of_ge (by omega)
  · intro j hj
    split at hj <;> cases hj
  · intro j j' j0 h1 h2
    split at h1 <;> split at h2 <;> simp only [Option.some.injEq] at h1 h2 <;> omega
  · intro t ht; cases ht
  · intro t ht; cases ht
  · intro i0 t ht hall x hx
    by_cases h0 : i0 = i
    · subst h0
      rw [hi] at ht; cases ht
      exact hold x hx
    · exfalso
      by_cases h1 : i0 < i
      · exact hall i0 (by rw [if_pos h1])
      · exact hall (i0 - 1) (by rw [if_neg (by omega)]; congr 1; omega)
  · intro i0 x hpa hx hO2
    by_cases h0 : i0 = i
    · subst h0
      exfalso
      cases pc with
      | map m => cases hpa
      | arr pa =>
        have := H.mutIdx p pa hp x i0 hx (fun h => hO2 (hOsub _ h))
        have h2 := Cont.kslot_pay hi
        rw [this] at h2
        exact hO2 (hold x (by simpa using h2.symm))
    · by_cases h1 : i0 > i
      · rw [if_pos h1, if_neg (by omega)]; congr 1; omega
      · rw [if_neg h1, if_pos (by omega)]

end World
end Atree
