import AtreeProofs.World.OpsMisc
import AtreeProofs.World.Scenario
import AtreeProofs.World.Frame
/-
  NON-VACUITY of the global invariant: a concrete multi-level world obtained by RUNNING the model
  (T = 256) satisfies `WorldOk`, by chaining the operation theorems along the run — so their
  hypotheses (`HandleOk`, `WValOk`, `KeyOk`) are satisfiable at every step.

      R  (root array)
      ├─ [0]  M   map, INLINED in R                      (array parent, depth 2)
      │        └─ K1 ↦ A   array, INLINED in M, WRAPPED once (map parent, depth 3), holds one value
      └─ [1]  B   array, STANDALONE (six 20-byte values: over the 117-byte limit)
-/
namespace Atree.OkScenario
open Atree Gen World
open Atree.Scenario (okW eq_okW okE eq_okE w0 cx0)

/-! ### kernel-evaluable `mapSet` -/

def mapSetS (w : World) (p : SlabID) (k : MKey) (v : WVal) (cx : Ctx) : Except WErr (Option Elem × World × Ctx) := do
  let (old, w, cx) ← mapSetRawWith (notifyS w.fuelOf) w p k v cx
  match old with
  | none => return (none, w, cx)
  | some o =>
    let (o', _, w, cx) ← w.uninlineIfNeeded o cx
    return (some o', w, cx)

theorem mapSet_eq_S : mapSet = mapSetS := by
  funext w p k v cx
  unfold mapSet mapSetS
  simp only [mapSetRaw_eq_S]
  rfl

def okM (r : Except WErr (Option Elem × World × Ctx)) : Option Elem × World × Ctx :=
  match r with | .ok x => x | .error _ => (none, w0, cx0)

theorem eq_okM (r : Except WErr (Option Elem × World × Ctx)) (h : r.toBool = true) : r = .ok (okM r) := by
  cases r with
  | ok x => rfl
  | error e => cases h

/-! ### the run -/

def D0 : DigestFn 4 := ⟨fun p => [p.2, p.2, p.2, p.2], fun _ => rfl⟩
def D : SlabID → DigestFn 4 := fun _ => D0
def K1 : MKey := ⟨10, 1, [1, 1, 1, 1]⟩
def pl (n : Nat) : WVal := .plain ⟨20, .val n⟩

def R : SlabID := ⟨1, 1⟩
def M : SlabID := ⟨1, 2⟩
def A : SlabID := ⟨1, 3⟩
def B : SlabID := ⟨1, 4⟩

def t1 : SlabID × World × Ctx := w0.newArr 7 cx0
def t2 : SlabID × World × Ctx := t1.2.1.newMap 8 5 t1.2.2
def t3 : SlabID × World × Ctx := t2.2.1.newArr 9 t2.2.2
def t4 : SlabID × World × Ctx := t3.2.1.newArr 10 t3.2.2
/-- `M` inserted into `R` -/
def t5 : World × Ctx := okW (t4.2.1.arrInsertS R 0 (.child M 0) t4.2.2)
/-- `A`, wrapped once, stored under `K1` in `M` -/
def t6 : Option Elem × World × Ctx := okM (mapSetS t5.1 M K1 (.child A 1) t5.2)
/-- a value inserted through `A` (depth 3) -/
def t7 : World × Ctx := okW (t6.2.1.arrInsertS A 0 (pl 1) t6.2.2)
/-- `B` inserted into `R` -/
def t8 : World × Ctx := okW (t7.1.arrInsertS R 1 (.child B 0) t7.2)
def t9 : World × Ctx := okW (t8.1.arrInsertS B 0 (pl 2) t8.2)
def t10 : World × Ctx := okW (t9.1.arrInsertS B 1 (pl 3) t9.2)
def t11 : World × Ctx := okW (t10.1.arrInsertS B 2 (pl 4) t10.2)
def t12 : World × Ctx := okW (t11.1.arrInsertS B 3 (pl 5) t11.2)
def t13 : World × Ctx := okW (t12.1.arrInsertS B 4 (pl 6) t12.2)
/-- sixth value: `B` is pushed over the limit and un-inlined -/
def t14 : World × Ctx := okW (t13.1.arrInsertS B 5 (pl 7) t13.2)

/-- what the final world looks like -/
theorem final_facts :
    t1.1 = R ∧ t2.1 = M ∧ t3.1 = A ∧ t4.1 = B ∧
    (t14.1.cont? R).map Cont.isInlined = some false ∧
    (t14.1.cont? R).map Cont.pays = some [.ref M, .ref B] ∧
    (t14.1.cont? M).map Cont.isInlined = some true ∧ (t14.1.cont? M).map Cont.isArr = some false ∧
    (t14.1.cont? M).map Cont.pays = some [.ref A] ∧
    (t14.1.cont? A).map Cont.isInlined = some true ∧ (t14.1.cont? A).map Cont.pays = some [.val 1] ∧
    (t14.1.cont? B).map Cont.isInlined = some false ∧ (t14.1.cont? B).map Cont.rootSize = some 125 ∧
    -- sizes seen from the parents: M inlined (80 bytes), the 19-byte reference to B;
    -- in M: A inlined (17 + 20) behind one wrapper (2 bytes)
    (t14.1.cont? R).map (fun c => c.storedElems.map (·.size)) = some [80, 19] ∧
    (t14.1.cont? M).map (fun c => c.storedElems.map (·.size)) = some [39] := by
  decide

/-! ### decidable side conditions -/

theorem find?_mem {κ α : Type} [DecidableEq κ] {m : AList κ α} {k : κ} {v : α} (h : AList.find? m k = some v) :
    (k, v) ∈ m := by
  induction m with
  | nil => cases h
  | cons p m ih =>
    obtain ⟨k', v'⟩ := p
    rw [AList.find?_cons] at h
    split at h
    · rename_i hk; subst hk; cases h; exact List.mem_cons_self
    · exact List.mem_cons_of_mem _ (ih h)

/-- nobody refers to `x` -/
def unrefB (w : World) (x : SlabID) : Bool := w.conts.all (fun qc => !(qc.2.pays.contains (Pay.ref x)))

theorem unrefB_sound {w : World} {x : SlabID} (h : unrefB w x = true) : ∀ q, ¬ Holds w q x := by
  intro q ⟨pc, hpc, hm⟩
  have := List.all_eq_true.mp h (q, pc) (find?_mem hpc)
  simp only [Bool.not_eq_true', List.contains_eq_mem, decide_eq_false_iff_not] at this
  exact this hm

/-- `x` is live and holds nothing -/
def freshB (w : World) (x : SlabID) : Bool := (w.cont? x).map Cont.pays == some []

theorem freshB_live {w : World} {x : SlabID} (h : freshB w x = true) : (w.cont? x).isSome := by
  unfold freshB at h
  cases hc : w.cont? x with
  | none => rw [hc] at h; cases h
  | some c => rfl

/-- an unreferenced... rather: a container that holds nothing is nobody's ancestor -/
theorem not_anc_of_fresh {w : World} {v p : SlabID} (hne : v ≠ p) (h : freshB w v = true) : ¬ Anc w v p := by
  have hempty : ∀ z, ¬ Holds w v z := by
    intro z ⟨pc, hpc, hm⟩
    unfold freshB at h
    rw [hpc] at h
    simp only [Option.map_some, beq_iff_eq, Option.some.injEq] at h
    rw [h] at hm; cases hm
  have key : ∀ z, Anc w v z → v = z := by
    intro z hz
    induction hz with
    | refl => rfl
    | step _ hpz ih => rw [← ih] at hpz; exact absurd hpz (hempty _)
  exact fun ha => hne (key p ha)

/-- the handle of the container that holds `x` is current if the handle of `x` is -/
theorem handleOk_parent {w : World} {ctr : Nat} (H : WorldOk D w ctr) {x p : SlabID} (hx : HandleOk w x)
    (hp : Holds w p x) (hlive : (w.cont? x).isSome) : HandleOk w p := by
  obtain ⟨rank0, H0⟩ := H
  obtain ⟨hi, _, hcur, hpar⟩ := hx.of_held hp
  rw [closureCurrent_parent H0 hp hlive hcur] at hpar
  exact hpar

theorem holds_of_check {w : World} {p x : SlabID}
    (h : (w.cont? p).map (fun c => c.pays.contains (Pay.ref x)) = some true) : Holds w p x := by
  cases hc : w.cont? p with
  | none => rw [hc] at h; cases h
  | some c =>
    rw [hc] at h
    simp only [Option.map_some, Option.some.injEq, List.contains_eq_mem, decide_eq_true_eq] at h
    exact ⟨c, hc, h⟩

theorem keyOk_K1 : KeyOk 256 4 D0 K1 := ⟨rfl, by decide, by decide⟩

/-! ### the chain -/

theorem ok1 : WorldOk D t1.2.1 t1.2.2.ctr ∧ HandleOk t1.2.1 R :=
  let h := newArr_ok (D := D) (w := w0) (ty := 7) (cx := cx0) (C10W_new)
  ⟨h.1, h.2.2.2.2.2⟩
where
  C10W_new : WorldOk D w0 cx0.ctr := by
    refine ⟨fun _ => 0, by decide, ?_, ?_, ?_, ?_, ?_, ?_, ?_, ?_, ?_, ?_, ?_, ?_, ?_⟩
    all_goals first
      | (intro a b hh; cases hh; done)
      | (intro a b c hh; cases hh; done)
      | (intro a b hh hx; obtain ⟨pc, hpc, _⟩ := hh; cases hpc; done)
      | (intro a b c d e f g hh; cases hh; done)
      | (intro p x i hi; cases hi; done)
      | skip

theorem ok2 : WorldOk D t2.2.1 t2.2.2.ctr := (newMap_ok (D := D) (ty := 8) (seed := 5) ok1.1).1
theorem ok3 : WorldOk D t3.2.1 t3.2.2.ctr := (newArr_ok (D := D) (ty := 9) ok2).1
theorem ok4 : WorldOk D t4.2.1 t4.2.2.ctr := (newArr_ok (D := D) (ty := 10) ok3).1

/-- the four fresh containers are roots: their handles are current -/
theorem handles4 : HandleOk t4.2.1 R ∧ HandleOk t4.2.1 M ∧ HandleOk t4.2.1 A ∧ HandleOk t4.2.1 B :=
  ⟨HandleOk.root _ (unrefB_sound (by decide)), HandleOk.root _ (unrefB_sound (by decide)),
    HandleOk.root _ (unrefB_sound (by decide)), HandleOk.root _ (unrefB_sound (by decide))⟩

theorem run5 : t4.2.1.arrInsert R 0 (.child M 0) t4.2.2 = .ok t5 := by
  rw [arrInsert_eq_S]; exact eq_okW _ (by decide)

/-- `M` inserted into `R`: invariant, handles of `R` and of the inserted `M` -/
theorem ok5 : WorldOk D t5.1 t5.2.ctr ∧ HandleOk t5.1 R ∧ HandleOk t5.1 M := by
  have hv : WValOk t4.2.1 R (maxInlineArr t4.2.1.T) (.child M 0) :=
    ⟨freshB_live (by decide), unrefB_sound (by decide), not_anc_of_fresh (by decide) (by decide), by decide⟩
  obtain ⟨h1, _, h3, h4, _⟩ := arrInsert_ok ok4 handles4.1 hv run5
  obtain ⟨a, a', e, _, _, _, _, _, hch⟩ := h3
  exact ⟨h1, h4, (hch M 0 rfl).2.1⟩

theorem run6 : t5.1.mapSet M K1 (.child A 1) t5.2 = .ok t6 := by
  rw [mapSet_eq_S]; exact eq_okM _ (by decide)

/-- `A` (wrapped once) stored in the map `M`, itself inlined in `R` -/
theorem ok6 : WorldOk D t6.2.1 t6.2.2.ctr ∧ HandleOk t6.2.1 M ∧ HandleOk t6.2.1 A := by
  have hv : WValOk t5.1 M (maxInlineMapValue t5.1.T K1.size) (.child A 1) :=
    ⟨freshB_live (by decide), unrefB_sound (by decide), not_anc_of_fresh (by decide) (by decide), by decide⟩
  obtain ⟨h1, _, h3, h4, _⟩ := mapSet_ok ok5.1 ok5.2.2 keyOk_K1 hv run6
  obtain ⟨m, m', e, oldo, _, _, _, _, _, _, hch⟩ := h3
  exact ⟨h1, h4, (hch A 1 rfl).2.1⟩

theorem run7 : t6.2.1.arrInsert A 0 (pl 1) t6.2.2 = .ok t7 := by
  rw [arrInsert_eq_S]; exact eq_okW _ (by decide)

/-- a mutation at depth 3 (through `A`, inside the map `M`, inside `R`) -/
theorem ok7 : WorldOk D t7.1 t7.2.ctr ∧ HandleOk t7.1 A := by
  have hv : WValOk t6.2.1 A (maxInlineArr t6.2.1.T) (pl 1) := ⟨⟨by decide, 1, rfl⟩, by decide⟩
  obtain ⟨h1, _, _, h4, _⟩ := arrInsert_ok ok6.1 ok6.2.2 hv run7
  exact ⟨h1, h4⟩

/-- the handle of `R` is still current (`A` is held by `M`, `M` by `R`) -/
theorem handleR7 : HandleOk t7.1 R := by
  have hM : HandleOk t7.1 M :=
    handleOk_parent ok7.1 ok7.2 (x := A) (p := M) (holds_of_check (by decide)) (by decide)
  exact handleOk_parent ok7.1 hM (x := M) (p := R) (holds_of_check (by decide)) (by decide)

theorem run8 : t7.1.arrInsert R 1 (.child B 0) t7.2 = .ok t8 := by
  rw [arrInsert_eq_S]; exact eq_okW _ (by decide)

/-- `B` inserted into `R` -/
theorem ok8 : WorldOk D t8.1 t8.2.ctr ∧ HandleOk t8.1 B := by
  have hv : WValOk t7.1 R (maxInlineArr t7.1.T) (.child B 0) :=
    ⟨freshB_live (by decide), unrefB_sound (by decide), not_anc_of_fresh (by decide) (by decide), by decide⟩
  obtain ⟨h1, _, h3, _, _⟩ := arrInsert_ok ok7.1 handleR7 hv run8
  obtain ⟨a, a', e, _, _, _, _, _, hch⟩ := h3
  exact ⟨h1, (hch B 0 rfl).2.1⟩

theorem plOk (w : World) (hT : w.T = 256) (n : Nat) : WValOk w B (maxInlineArr w.T) (pl n) := by
  rw [hT]; exact ⟨⟨(by decide : 1 ≤ 20), n, rfl⟩, (by decide : 20 ≤ maxInlineArr 256)⟩

theorem run9 : t8.1.arrInsert B 0 (pl 2) t8.2 = .ok t9 := by
  rw [arrInsert_eq_S]; exact eq_okW _ (by decide)
theorem ok9 : WorldOk D t9.1 t9.2.ctr ∧ HandleOk t9.1 B :=
  let h := arrInsert_ok ok8.1 ok8.2 (plOk _ (by decide) 2) run9; ⟨h.1, h.2.2.2.1⟩

theorem run10 : t9.1.arrInsert B 1 (pl 3) t9.2 = .ok t10 := by
  rw [arrInsert_eq_S]; exact eq_okW _ (by decide)
theorem ok10 : WorldOk D t10.1 t10.2.ctr ∧ HandleOk t10.1 B :=
  let h := arrInsert_ok ok9.1 ok9.2 (plOk _ (by decide) 3) run10; ⟨h.1, h.2.2.2.1⟩

theorem run11 : t10.1.arrInsert B 2 (pl 4) t10.2 = .ok t11 := by
  rw [arrInsert_eq_S]; exact eq_okW _ (by decide)
theorem ok11 : WorldOk D t11.1 t11.2.ctr ∧ HandleOk t11.1 B :=
  let h := arrInsert_ok ok10.1 ok10.2 (plOk _ (by decide) 4) run11; ⟨h.1, h.2.2.2.1⟩

theorem run12 : t11.1.arrInsert B 3 (pl 5) t11.2 = .ok t12 := by
  rw [arrInsert_eq_S]; exact eq_okW _ (by decide)
theorem ok12 : WorldOk D t12.1 t12.2.ctr ∧ HandleOk t12.1 B :=
  let h := arrInsert_ok ok11.1 ok11.2 (plOk _ (by decide) 5) run12; ⟨h.1, h.2.2.2.1⟩

theorem run13 : t12.1.arrInsert B 4 (pl 6) t12.2 = .ok t13 := by
  rw [arrInsert_eq_S]; exact eq_okW _ (by decide)
theorem ok13 : WorldOk D t13.1 t13.2.ctr ∧ HandleOk t13.1 B :=
  let h := arrInsert_ok ok12.1 ok12.2 (plOk _ (by decide) 6) run13; ⟨h.1, h.2.2.2.1⟩

theorem run14 : t13.1.arrInsert B 5 (pl 7) t13.2 = .ok t14 := by
  rw [arrInsert_eq_S]; exact eq_okW _ (by decide)

/-- THE FINAL WORLD (depth 3; `M` inlined in the array `R`; `A` inlined and wrapped in the map `M`;
    `B` standalone in `R`) satisfies the global invariant, and the handle used last is current. -/
theorem scenario_worldOk : WorldOk D t14.1 t14.2.ctr ∧ HandleOk t14.1 B :=
  let h := arrInsert_ok ok13.1 ok13.2 (plOk _ (by decide) 7) run14; ⟨h.1, h.2.2.2.1⟩

/-- ... and reopening it keeps the invariant; afterwards the lookup `R.Get(0)` hands out `M` with a
    current handle again. -/
theorem scenario_reopen_get :
    WorldOk D t14.1.reopen t14.2.ctr ∧
    ∃ el w', t14.1.reopen.arrGet R 0 = .ok (el, w') ∧ el.pay = .ref M ∧ WorldOk D w' t14.2.ctr ∧ HandleOk w' M := by
  obtain ⟨h1, _, h3⟩ := reopen_ok scenario_worldOk.1
  refine ⟨h1, ?_⟩
  have hR : HandleOk t14.1.reopen R := h3 R (unrefB_sound (by decide))
  obtain ⟨el, w', hget⟩ : ∃ el w', t14.1.reopen.arrGet R 0 = .ok (el, w') := by
    cases hg : t14.1.reopen.arrGet R 0 with
    | ok x => exact ⟨x.1, x.2, rfl⟩
    | error e =>
      have : (t14.1.reopen.arrGet R 0).toBool = true := by decide
      rw [hg] at this; cases this
  obtain ⟨g1, g2, ⟨a, ha, hel⟩, _, g5⟩ := arrGet_ok h1 hR hget
  have hpay : el.pay = .ref M := by
    have h0 : (t14.1.reopen.cont? R).map (fun c => (c.storedElems[0]?).map (·.pay)) = some (some (.ref M)) := by decide
    rw [ha] at h0
    simp only [Option.map_some, Option.some.injEq, Cont.storedElems] at h0
    rw [hel] at h0
    simpa using h0
  exact ⟨el, w', hget, hpay, g1, g5 M hpay (by decide)⟩

/-! ### a handle that is NOT current breaks the invariant (findings F2 / F2b)

After reopening, `A` is opened by its own ID (no closure: the handle is not current, `A` being
nested in `M`) and a value is inserted through it.  The operation succeeds, nobody is notified:
the map `M` still accounts 39 bytes for an element whose container now takes 57 + 2. -/

def bad : World × Ctx := okW (t14.1.reopen.arrInsertS A 1 (pl 9) t14.2)

theorem run_bad : t14.1.reopen.arrInsert A 1 (pl 9) t14.2 = .ok bad := by
  rw [arrInsert_eq_S]; exact eq_okW _ (by decide)

theorem cont?_getD {w : World} {x : SlabID} (d : Cont) (h : (w.cont? x).isSome) :
    w.cont? x = some ((w.cont? x).getD d) := by
  cases hc : w.cont? x with
  | none => rw [hc] at h; cases h
  | some c => rfl

theorem stale_handle_breaks : ¬ HandleOk t14.1.reopen A ∧ ∀ ctr, ¬ WorldOk D bad.1 ctr := by
  constructor
  · intro hA
    -- `A` is held by `M` but has no closure after the reopening
    obtain ⟨hi, hhi, _⟩ := hA.of_held (p := M) (holds_of_check (by decide))
    have : AList.find? t14.1.reopen.hinfo A = none := by decide
    rw [this] at hhi; cases hhi
  · intro ctr H
    obtain ⟨rank0, H0⟩ := H
    let d : Cont := .arr (Arr.new 0 0 cx0).1
    have hM := cont?_getD (w := bad.1) (x := M) d (by decide)
    have hA := cont?_getD (w := bad.1) (x := A) d (by decide)
    have hle : (maxInlineMapValue 256 10, (⟨39, .ref A⟩ : Elem)) ∈ ((bad.1.cont? M).getD d).slots bad.1.T := by decide
    obtain ⟨wr, _, h2, _, _⟩ := H0.slots M _ hM _ hle A _ rfl hA
    obtain ⟨hsz, _⟩ := h2 (by intro h; cases h)
    have h1 : ((bad.1.cont? A).getD d).isInlined = true := by decide
    have h3 : ((bad.1.cont? A).getD d).rootSize = 57 := by decide
    simp only [slotSize, h1, h3, if_true] at hsz
    omega

/-! ### the CLOSURE pointers may form a cycle in a valid world

`X` is inserted into `P`, removed again (its closure keeps pointing at `P`: a stale closure), then
`P` is inserted into `X`.  The world satisfies `WorldOk` (chain of the operation theorems), yet the
closure pointers `X ↦ P ↦ X` form a cycle: the hypothesis `hacyc` (`RankOk`) of
`C10.notify_updates_array_parent` is NOT an invariant; the invariant is the acyclicity of the
"is an element of" relation (`CRank`), for which the stale closure is harmless. -/

def P : SlabID := ⟨1, 1⟩
def X : SlabID := ⟨1, 2⟩
def u1 : SlabID × World × Ctx := w0.newArr 7 cx0
def u2 : SlabID × World × Ctx := u1.2.1.newArr 8 u1.2.2
/-- six 20-byte values: `X` (a root) is too large to be inlined anywhere -/
def v1 : World × Ctx := okW (u2.2.1.arrInsertS X 0 (pl 1) u2.2.2)
def v2 : World × Ctx := okW (v1.1.arrInsertS X 1 (pl 2) v1.2)
def v3 : World × Ctx := okW (v2.1.arrInsertS X 2 (pl 3) v2.2)
def v4 : World × Ctx := okW (v3.1.arrInsertS X 3 (pl 4) v3.2)
def v5 : World × Ctx := okW (v4.1.arrInsertS X 4 (pl 5) v4.2)
def v6 : World × Ctx := okW (v5.1.arrInsertS X 5 (pl 6) v5.2)
def u3 : World × Ctx := okW (v6.1.arrInsertS P 0 (.child X 0) v6.2)
def u4 : Elem × World × Ctx := okE (u3.1.arrRemoveS P 0 u3.2)
def u5 : World × Ctx := okW (u4.2.1.arrInsertS X 6 (.child P 0) u4.2.2)

theorem cyc2 : WorldOk D u2.2.1 u2.2.2.ctr := (newArr_ok (D := D) (ty := 8) ok1.1).1

theorem plOkX (w : World) (hT : w.T = 256) (n : Nat) : WValOk w X (maxInlineArr w.T) (pl n) := by
  rw [hT]; exact ⟨⟨(by decide : 1 ≤ 20), n, rfl⟩, (by decide : 20 ≤ maxInlineArr 256)⟩

theorem cycv1 : WorldOk D v1.1 v1.2.ctr ∧ HandleOk v1.1 X :=
  let h := arrInsert_ok cyc2 (HandleOk.root _ (unrefB_sound (by decide))) (plOkX _ (by decide) 1)
    (show u2.2.1.arrInsert X 0 (pl 1) u2.2.2 = .ok v1 by rw [arrInsert_eq_S]; exact eq_okW _ (by decide))
  ⟨h.1, h.2.2.2.1⟩
theorem cycv2 : WorldOk D v2.1 v2.2.ctr ∧ HandleOk v2.1 X :=
  let h := arrInsert_ok cycv1.1 cycv1.2 (plOkX _ (by decide) 2)
    (show v1.1.arrInsert X 1 (pl 2) v1.2 = .ok v2 by rw [arrInsert_eq_S]; exact eq_okW _ (by decide))
  ⟨h.1, h.2.2.2.1⟩
theorem cycv3 : WorldOk D v3.1 v3.2.ctr ∧ HandleOk v3.1 X :=
  let h := arrInsert_ok cycv2.1 cycv2.2 (plOkX _ (by decide) 3)
    (show v2.1.arrInsert X 2 (pl 3) v2.2 = .ok v3 by rw [arrInsert_eq_S]; exact eq_okW _ (by decide))
  ⟨h.1, h.2.2.2.1⟩
theorem cycv4 : WorldOk D v4.1 v4.2.ctr ∧ HandleOk v4.1 X :=
  let h := arrInsert_ok cycv3.1 cycv3.2 (plOkX _ (by decide) 4)
    (show v3.1.arrInsert X 3 (pl 4) v3.2 = .ok v4 by rw [arrInsert_eq_S]; exact eq_okW _ (by decide))
  ⟨h.1, h.2.2.2.1⟩
theorem cycv5 : WorldOk D v5.1 v5.2.ctr ∧ HandleOk v5.1 X :=
  let h := arrInsert_ok cycv4.1 cycv4.2 (plOkX _ (by decide) 5)
    (show v4.1.arrInsert X 4 (pl 5) v4.2 = .ok v5 by rw [arrInsert_eq_S]; exact eq_okW _ (by decide))
  ⟨h.1, h.2.2.2.1⟩
theorem cycv6 : WorldOk D v6.1 v6.2.ctr ∧ HandleOk v6.1 X :=
  let h := arrInsert_ok cycv5.1 cycv5.2 (plOkX _ (by decide) 6)
    (show v5.1.arrInsert X 5 (pl 6) v5.2 = .ok v6 by rw [arrInsert_eq_S]; exact eq_okW _ (by decide))
  ⟨h.1, h.2.2.2.1⟩

/-- `X` holds plain values only: it is nobody's ancestor -/
theorem not_anc_of_plain {w : World} {v p : SlabID} (hne : v ≠ p)
    (h : (w.cont? v).map (fun c => c.pays.all (fun py => match py with | .val _ => true | .ref _ => false)) = some true) :
    ¬ Anc w v p := by
  have hempty : ∀ z, ¬ Holds w v z := by
    intro z ⟨pc, hpc, hm⟩
    rw [hpc] at h
    simp only [Option.map_some, Option.some.injEq] at h
    have := List.all_eq_true.mp h _ hm
    cases this
  have key : ∀ z, Anc w v z → v = z := by
    intro z hz
    induction hz with
    | refl => rfl
    | step _ hpz ih => rw [← ih] at hpz; exact absurd hpz (hempty _)
  exact fun ha => hne (key p ha)

theorem cyc3 : WorldOk D u3.1 u3.2.ctr ∧ HandleOk u3.1 P := by
  have hv : WValOk v6.1 P (maxInlineArr v6.1.T) (.child X 0) :=
    ⟨by decide, unrefB_sound (by decide), not_anc_of_plain (by decide) (by decide), by decide⟩
  have hrun : v6.1.arrInsert P 0 (.child X 0) v6.2 = .ok u3 := by
    rw [arrInsert_eq_S]; exact eq_okW _ (by decide)
  obtain ⟨h1, _, _, h4, _⟩ := arrInsert_ok cycv6.1 (HandleOk.root _ (unrefB_sound (by decide))) hv hrun
  exact ⟨h1, h4⟩

theorem cyc4 : WorldOk D u4.2.1 u4.2.2.ctr := by
  have hrun : u3.1.arrRemove P 0 u3.2 = .ok u4 := by
    rw [arrRemove_eq_S]; exact eq_okE _ (by decide)
  exact (arrRemove_ok cyc3.1 cyc3.2 hrun).1

theorem cyc5 : WorldOk D u5.1 u5.2.ctr := by
  have hv : WValOk u4.2.1 X (maxInlineArr u4.2.1.T) (.child P 0) :=
    ⟨freshB_live (by decide), unrefB_sound (by decide), not_anc_of_fresh (by decide) (by decide), by decide⟩
  have hrun : u4.2.1.arrInsert X 6 (.child P 0) u4.2.2 = .ok u5 := by
    rw [arrInsert_eq_S]; exact eq_okW _ (by decide)
  exact (arrInsert_ok cyc4 (HandleOk.root _ (unrefB_sound (by decide))) hv hrun).1

/-- a valid world whose closure pointers are cyclic -/
theorem closure_cycle_in_valid_world :
    WorldOk D u5.1 u5.2.ctr ∧ ¬ ∃ rank : SlabID → Nat, RankOk rank u5.1 := by
  refine ⟨cyc5, ?_⟩
  rintro ⟨rank, hr⟩
  have h1 : (AList.find? u5.1.hinfo X).map (·.parent) = some P := by decide
  have h2 : (AList.find? u5.1.hinfo P).map (·.parent) = some X := by decide
  cases hx : AList.find? u5.1.hinfo X with
  | none => rw [hx] at h1; cases h1
  | some hix =>
    cases hp : AList.find? u5.1.hinfo P with
    | none => rw [hp] at h2; cases h2
    | some hip =>
      rw [hx] at h1; rw [hp] at h2
      simp only [Option.map_some, Option.some.injEq] at h1 h2
      have a := hr X hix hx
      have b := hr P hip hp
      rw [h1] at a; rw [h2] at b
      omega

end Atree.OkScenario
