import AtreeProofs.World.ArrRef
/-
  `Arr.set / insert / remove` on an INLINED root (`AtreeProofs/World/ArrRef.lean`: `arrInl_set`,
  `arrInl_insert`, `arrInl_remove`), with the resulting CONTEXT made explicit: the only storage
  calls are those of `toStorable` (none for an element that fits).  Same proofs, one more conjunct.
-/
namespace Atree
open Gen ATree
variable {T : Nat}

theorem arrInl_setC (hT : legalThreshold T = true) {a : Arr} {c : Ctx} (h : ArrInvInl T a c.ctr)
    {i : Nat} {v : Elem} (hv : StorOk T v) (hroom : a.rootHdr.size + maxInlineArr T ≤ maxThr T)
    (hi : i < a.toList.length) :
    ∃ a' c', a.set T i v c = .ok (a.toList.getD i default, a', c') ∧ ArrInvInl T a' c'.ctr ∧
      a'.toList = a.toList.set i (toStorable T a.addr v c).1 ∧ a'.rootID = a.rootID ∧ a'.ty = a.ty ∧
      c.ctr ≤ c'.ctr ∧
      a'.rootHdr.size + (a.toList.getD i default).size = a.rootHdr.size + (toStorable T a.addr v c).1.size ∧
      c' = (toStorable T a.addr v c).2 := by
  obtain ⟨s, ty, rfl, h1, h2, h3, h4, h5, h6, h7, h8, h9⟩ := h
  have hi : i < s.elems.length := hi
  have hget : s.elems[i]? = some (s.elems.getD i default) := getD_getElem? _ _ _ hi
  have hnew := toStorable_okR T s.hdr.id.addr hT v c hv
  have hctr := toStorable_ctr_le T s.hdr.id.addr v c
  have hroom : s.hdr.size + maxInlineArr T ≤ maxThr T := hroom
  show ∃ a' c', Arr.set T ⟨0, s, ty⟩ i v c = .ok (s.elems.getD i default, a', c') ∧ ArrInvInl T a' c'.ctr ∧
      a'.toList = s.elems.set i (toStorable T s.hdr.id.addr v c).1 ∧ a'.rootID = s.hdr.id ∧ a'.ty = ty ∧
      c.ctr ≤ c'.ctr ∧
      a'.rootHdr.size + (s.elems.getD i default).size = s.hdr.size + (toStorable T s.hdr.id.addr v c).1.size ∧
      c' = (toStorable T s.hdr.id.addr v c).2
  obtain ⟨e, c1, hp⟩ : ∃ e c1, toStorable T s.hdr.id.addr v c = (e, c1) := ⟨_, _, rfl⟩
  rw [hp] at hnew hctr ⊢
  simp only at hnew hctr ⊢
  have hsum := sumSizes_set s.elems i e _ hget
  have hpfx : s.prefixSize = inlinedArrayDataSlabPrefixSize := by simp [DataSlab.prefixSize, h2]
  have hsz : (inlSetSlab s i e).hdr.size + (s.elems.getD i default).size = s.hdr.size + e.size := by
    show s.prefixSize + sumSizes _ + _ = _
    rw [hpfx, h5]; omega
  have hnotfull : ¬ ATree.isFull T 0 (ofData (inlSetSlab s i e)) = true := by
    show ¬ decide ((inlSetSlab s i e).hdr.size > maxThr T) = true
    have := hnew.2
    simp only [decide_eq_true_eq]; omega
  have hst : (inlSetSlab s i e).storeIfNotInlined c1 = c1 := by
    simp [DataSlab.storeIfNotInlined, inlSetSlab, h2]
  refine ⟨⟨0, inlSetSlab s i e, ty⟩, c1, ?_, ?_, rfl, rfl, rfl, hctr, hsz, rfl⟩
  · have hset : ATree.set T 0 (ofData s) i v c = .ok (s.elems.getD i default, ofData (inlSetSlab s i e), c1) := by
      apply set_zero_ok
      unfold DataSlab.set
      rw [hget]
      simp only [hp]
      show Except.ok (_, inlSetSlab s i e, (inlSetSlab s i e).storeIfNotInlined c1) = _
      rw [hst]
    unfold Arr.set
    show (ATree.set T 0 (ofData s) i v c >>= _) = _
    rw [hset]
    show (if ATree.isFull T 0 (ofData (inlSetSlab s i e)) = true then _ else _) = _
    rw [if_neg hnotfull]; rfl
  · refine ⟨inlSetSlab s i e, ty, rfl, h1, h2, h3, ?_, ?_, ?_, h7, Nat.le_trans h8 hctr, h9⟩
    · show s.hdr.count = (s.elems.set i _).length
      simp [h4]
    · show s.prefixSize + sumSizes _ = _
      rw [hpfx]; rfl
    · intro x hx
      rcases List.mem_or_eq_of_mem_set hx with h | h
      · exact h6 x h
      · rw [h]; exact hnew

theorem arrInl_insertC (hT : legalThreshold T = true) {a : Arr} {c : Ctx} (h : ArrInvInl T a c.ctr)
    {i : Nat} {v : Elem} (hv : StorOk T v) (hroom : a.rootHdr.size + maxInlineArr T ≤ maxThr T)
    (hcount : a.count < maxArrayElementCount) (hi : i ≤ a.toList.length) :
    ∃ a' c', a.insert T i v c = .ok (a', c') ∧ ArrInvInl T a' c'.ctr ∧
      a'.toList = a.toList.insertIdx i (toStorable T a.addr v c).1 ∧ a'.rootID = a.rootID ∧ a'.ty = a.ty ∧
      c.ctr ≤ c'.ctr ∧
      a'.rootHdr.size = a.rootHdr.size + (toStorable T a.addr v c).1.size ∧
      c' = (toStorable T a.addr v c).2 := by
  obtain ⟨s, ty, rfl, h1, h2, h3, h4, h5, h6, h7, h8, h9⟩ := h
  have hi : i ≤ s.elems.length := hi
  have hnew := toStorable_okR T s.hdr.id.addr hT v c hv
  have hctr := toStorable_ctr_le T s.hdr.id.addr v c
  have hroom : s.hdr.size + maxInlineArr T ≤ maxThr T := hroom
  have hcount : s.hdr.count < maxArrayElementCount := hcount
  show ∃ a' c', Arr.insert T ⟨0, s, ty⟩ i v c = .ok (a', c') ∧ ArrInvInl T a' c'.ctr ∧
      a'.toList = s.elems.insertIdx i (toStorable T s.hdr.id.addr v c).1 ∧ a'.rootID = s.hdr.id ∧ a'.ty = ty ∧
      c.ctr ≤ c'.ctr ∧ a'.rootHdr.size = s.hdr.size + (toStorable T s.hdr.id.addr v c).1.size ∧
      c' = (toStorable T s.hdr.id.addr v c).2
  obtain ⟨e, c1, hp⟩ : ∃ e c1, toStorable T s.hdr.id.addr v c = (e, c1) := ⟨_, _, rfl⟩
  rw [hp] at hnew hctr ⊢
  simp only at hnew hctr ⊢
  have hsum := sumSizes_insertIdx s.elems i e hi
  have hnotfull : ¬ ATree.isFull T 0 (ofData (inlInsSlab s i e)) = true := by
    show ¬ decide ((inlInsSlab s i e).hdr.size > maxThr T) = true
    have := hnew.2
    have : (inlInsSlab s i e).hdr.size = s.hdr.size + e.size := rfl
    simp only [decide_eq_true_eq]; omega
  have hst : (inlInsSlab s i e).storeIfNotInlined c1 = c1 := by
    simp [DataSlab.storeIfNotInlined, inlInsSlab, h2]
  refine ⟨⟨0, inlInsSlab s i e, ty⟩, c1, ?_, ?_, rfl, rfl, rfl, hctr, rfl, rfl⟩
  · have hins : ATree.insert T 0 (ofData s) i v c = .ok (ofData (inlInsSlab s i e), c1) := by
      apply insert_zero_ok
      unfold DataSlab.insert
      rw [if_neg (by omega)]
      simp only [hp]
      show Except.ok (inlInsSlab s i e, (inlInsSlab s i e).storeIfNotInlined c1) = _
      rw [hst]
    unfold Arr.insert
    show (if s.hdr.count = maxArrayElementCount then _ else _) = _
    rw [if_neg (by omega)]
    show (ATree.insert T 0 (ofData s) i v c >>= _) = _
    rw [hins]
    show (if ATree.isFull T 0 (ofData (inlInsSlab s i e)) = true then _ else _) = _
    rw [if_neg hnotfull]; rfl
  · refine ⟨inlInsSlab s i e, ty, rfl, h1, h2, h3, ?_, ?_, ?_, h7, Nat.le_trans h8 hctr, ?_⟩
    · show s.hdr.count + 1 = (s.elems.insertIdx i _).length
      rw [List.length_insertIdx, if_pos hi, h4]
    · show s.hdr.size + _ = _ + sumSizes (s.elems.insertIdx i _)
      rw [hsum, h5]; omega
    · intro x hx
      rcases (List.mem_insertIdx hi).1 hx with h | h
      · rw [h]; exact hnew
      · exact h6 x h
    · show s.hdr.count + 1 < _
      omega

theorem arrInl_removeC {a : Arr} {c : Ctx} (h : ArrInvInl T a c.ctr) {i : Nat} (hi : i < a.toList.length) :
    ∃ a' c', a.remove T i c = .ok (a.toList.getD i default, a', c') ∧ ArrInvInl T a' c'.ctr ∧
      a'.toList = a.toList.eraseIdx i ∧ a'.rootID = a.rootID ∧ a'.ty = a.ty ∧ c.ctr ≤ c'.ctr ∧
      a'.rootHdr.size + (a.toList.getD i default).size = a.rootHdr.size ∧ c' = c := by
  obtain ⟨s, ty, rfl, h1, h2, h3, h4, h5, h6, h7, h8, h9⟩ := h
  have hi : i < s.elems.length := hi
  have hget : s.elems[i]? = some (s.elems.getD i default) := getD_getElem? _ _ _ hi
  have hsum := sumSizes_eraseIdx s.elems i _ hget
  have hst : (inlRemSlab s i (s.elems.getD i default)).storeIfNotInlined c = c := by
    simp [DataSlab.storeIfNotInlined, inlRemSlab, h2]
  refine ⟨⟨0, inlRemSlab s i (s.elems.getD i default), ty⟩, c, ?_, ?_, rfl, rfl, rfl, Nat.le_refl _, ?_, rfl⟩
  · have hrem : ATree.remove T 0 (ofData s) i c
        = .ok (s.elems.getD i default, ofData (inlRemSlab s i (s.elems.getD i default)), c) := by
      apply remove_zero_ok
      unfold DataSlab.remove
      rw [hget]
      simp only
      show Except.ok (_, inlRemSlab s i (s.elems.getD i default),
        (inlRemSlab s i (s.elems.getD i default)).storeIfNotInlined c) = _
      rw [hst]
    unfold Arr.remove
    show (ATree.remove T 0 (ofData s) i c >>= _) = _
    rw [hrem]
    rfl
  · refine ⟨_, ty, rfl, h1, h2, h3, ?_, ?_, ?_, h7, h8, ?_⟩
    · show s.hdr.count - 1 = (s.elems.eraseIdx i).length
      rw [List.length_eraseIdx, if_pos hi, h4]
    · show s.hdr.size - _ = _ + sumSizes (s.elems.eraseIdx i)
      rw [h5]; omega
    · intro x hx
      exact h6 x (List.mem_of_mem_eraseIdx hx)
    · show s.hdr.count - 1 < _
      omega
  · show s.hdr.size - (s.elems.getD i default).size + (s.elems.getD i default).size = s.hdr.size
    rw [h5]; omega

end Atree
