import AtreeProofs.World.Pop
/-
  Two more frame facts about the mutual block `notifyParent` / `arrSetRaw` / `mapSetRaw`:
  * with acyclic parent pointers, a notification from `y` leaves the index table
    (`mutableElementIndex`) of `y` and of everything not above `y` untouched;
  * the effect log only grows (given that array / map `set` only append to it).
-/
namespace Atree
open Gen

/-- "array / map `set` only append to the effect log" -/
def SetAppends (T : Nat) (cfg : MCfg) : Prop :=
  (∀ (a a' : Arr) (c c' : Ctx) (j : Nat) (e old : Elem), a.set T j e c = .ok (old, a', c') →
      ∃ E, c'.eff = c.eff ++ E) ∧
  (∀ (m m' : OMap 3) (c c' : Ctx) (k : MKey) (e : Elem) (old : Option Elem),
      m.set cfg k e c = .ok (old, m', c') → ∃ E, c'.eff = c.eff ++ E)

namespace World

theorem mutIdx_setCallbackArr_ne (w : World) (p : SlabID) (i : Nat) (v : WVal) (z : SlabID) (hz : z ≠ p) :
    AList.find? (w.setCallbackArr p i v).mutIdx z = AList.find? w.mutIdx z := by
  cases v with
  | plain e => rfl
  | child x wrap =>
    simp only [World.setCallbackArr, World.setIdx, AList.find?_insert, if_neg (Ne.symm hz)]

/-- The three index-table frame statements, proved simultaneously by induction on the fuel. -/
theorem mutual_idxFrame (rank : SlabID → Nat) (fuel : Nat) :
    (∀ w y cx w' cx', RankOk rank w → notifyParent fuel w y cx = .ok (w', cx') →
        RankOk rank w' ∧ ∀ z, rank y ≤ rank z → AList.find? w'.mutIdx z = AList.find? w.mutIdx z) ∧
    (∀ w p i v cx old w' cx', RankOk rank w → (∀ z wrap, v = .child z wrap → rank p < rank z) →
        arrSetRaw fuel w p i v cx = .ok (old, w', cx') →
        RankOk rank w' ∧ ∀ z, rank p < rank z → AList.find? w'.mutIdx z = AList.find? w.mutIdx z) ∧
    (∀ w p k v cx old w' cx', RankOk rank w → (∀ z wrap, v = .child z wrap → rank p < rank z) →
        mapSetRaw fuel w p k v cx = .ok (old, w', cx') →
        RankOk rank w' ∧ ∀ z, rank p < rank z → AList.find? w'.mutIdx z = AList.find? w.mutIdx z) := by
  have harr : ∀ fuel, (∀ w y cx w' cx', RankOk rank w → notifyParent fuel w y cx = .ok (w', cx') →
        RankOk rank w' ∧ ∀ z, rank y ≤ rank z → AList.find? w'.mutIdx z = AList.find? w.mutIdx z) →
      (∀ w p i v cx old w' cx', RankOk rank w → (∀ z wrap, v = .child z wrap → rank p < rank z) →
        arrSetRaw fuel w p i v cx = .ok (old, w', cx') →
        RankOk rank w' ∧ ∀ z, rank p < rank z → AList.find? w'.mutIdx z = AList.find? w.mutIdx z) := by
    intro fuel ihn w p i v cx old w' cx' hr hv h
    rw [arrSetRaw] at h
    split at h
    · rename_i a hpa
      split at h
      · cases h
      · split at h
        · cases h
        · rename_i e w1 cx1 hst
          obtain ⟨f1, f2, _, _, _, _⟩ := storableOf_frame hst
          split at h
          · cases h
          · rename_i old1 a' cx2 hset
            simp only at h
            split at h
            · cases h
            · rename_i w3 cx3 hnp
              cases h
              have hr2 : RankOk rank (w1.setCont p (.arr a')) := hr.of_hinfo (by simp [f1])
              obtain ⟨hr3, g2⟩ := ihn _ _ _ _ _ hr2 hnp
              refine ⟨hr3.setCallbackArr p i v hv, fun z hz => ?_⟩
              rw [mutIdx_setCallbackArr_ne _ _ _ _ _ (by intro h; subst h; omega), g2 z (by omega),
                mutIdx_setCont, f2]
    · cases h
  have hmap : ∀ fuel, (∀ w y cx w' cx', RankOk rank w → notifyParent fuel w y cx = .ok (w', cx') →
        RankOk rank w' ∧ ∀ z, rank y ≤ rank z → AList.find? w'.mutIdx z = AList.find? w.mutIdx z) →
      (∀ w p k v cx old w' cx', RankOk rank w → (∀ z wrap, v = .child z wrap → rank p < rank z) →
        mapSetRaw fuel w p k v cx = .ok (old, w', cx') →
        RankOk rank w' ∧ ∀ z, rank p < rank z → AList.find? w'.mutIdx z = AList.find? w.mutIdx z) := by
    intro fuel ihn w p k v cx old w' cx' hr hv h
    rw [mapSetRaw] at h
    split at h
    · rename_i m hpm
      split at h
      · cases h
      · rename_i e w1 cx1 hst
        obtain ⟨f1, f2, _, _, _, _⟩ := storableOf_frame hst
        split at h
        · cases h
        · rename_i old1 m' cx2 hset
          simp only at h
          split at h
          · cases h
          · rename_i w3 cx3 hnp
            cases h
            have hr2 : RankOk rank (w1.setCont p (.map m')) := hr.of_hinfo (by simp [f1])
            obtain ⟨hr3, g2⟩ := ihn _ _ _ _ _ hr2 hnp
            refine ⟨hr3.setCallbackMap p k v hv, fun z hz => ?_⟩
            rw [mutIdx_setCallbackMap, g2 z (by omega), mutIdx_setCont, f2]
    · cases h
  have hnot : ∀ fuel, (∀ w y cx w' cx', RankOk rank w → notifyParent fuel w y cx = .ok (w', cx') →
        RankOk rank w' ∧ ∀ z, rank y ≤ rank z → AList.find? w'.mutIdx z = AList.find? w.mutIdx z) := by
    intro fuel
    induction fuel with
    | zero => intro w x cx w' cx' _ h; rw [notifyParent] at h; cases h
    | succ fuel ih =>
      intro w x cx w' cx' hr h
      have hsame : RankOk rank w ∧ ∀ z, rank x ≤ rank z → AList.find? w.mutIdx z = AList.find? w.mutIdx z :=
        ⟨hr, fun _ _ => rfl⟩
      have hnf : RankOk rank { w with hinfo := AList.erase w.hinfo x } ∧
          ∀ z, rank x ≤ rank z →
            AList.find? ({ w with hinfo := AList.erase w.hinfo x } : World).mutIdx z = AList.find? w.mutIdx z :=
        ⟨hr.erase x, fun _ _ => rfl⟩
      rw [notifyParent] at h
      split at h
      · cases h; exact hsame
      · cases h
      · rename_i hi c hh hc
        have hrk : rank hi.parent < rank x := hr x hi hh
        split at h
        · cases h; exact hsame
        · simp only at h
          split at h
          · cases h; exact hnf
          · rename_i pa hpa
            split at h
            · cases h; exact hnf
            · rename_i idx hidx
              split at h
              · cases h
              · rename_i el hget
                split at h
                · cases h; exact hnf
                · split at h
                  · cases h
                  · rename_i old w2 cx2 hset
                    split at h
                    · cases h
                    · cases h
                      obtain ⟨r1, r2⟩ := harr fuel ih _ _ _ _ _ _ _ _ hr
                        (fun z wrap hz => by cases hz; exact hrk) hset
                      exact ⟨r1, fun z hz => r2 z (by omega)⟩
          · rename_i pm hpm
            split at h
            · cases h
            · rename_i k hk
              split at h
              · cases h; exact hnf
              · cases h
              · rename_i el hget
                split at h
                · cases h; exact hnf
                · split at h
                  · cases h
                  · rename_i old w2 cx2 hset
                    split at h
                    · split at h
                      · cases h
                      · cases h
                        obtain ⟨r1, r2⟩ := hmap fuel ih _ _ _ _ _ _ _ _ hr
                          (fun z wrap hz => by cases hz; exact hrk) hset
                        exact ⟨r1, fun z hz => r2 z (by omega)⟩
                    · cases h
  exact ⟨hnot fuel, harr fuel (hnot fuel), hmap fuel (hnot fuel)⟩

/-- a notification from `y` leaves the index tables of `y` and of everything not above it alone -/
theorem notifyParent_idxOf {rank : SlabID → Nat} {fuel : Nat} {w : World} {y : SlabID} {cx : Ctx}
    {w' : World} {cx' : Ctx} (hr : RankOk rank w) (h : notifyParent fuel w y cx = .ok (w', cx'))
    {z : SlabID} (hz : rank y ≤ rank z) : w'.idxOf z = w.idxOf z := by
  simp only [idxOf, ((mutual_idxFrame rank fuel).1 _ _ _ _ _ hr h).2 z hz]

/-! ### the effect log only grows -/

/-- `c'` extends the log of `c` -/
def LogExt (c c' : Ctx) : Prop := ∃ E, c'.eff = c.eff ++ E

theorem LogExt.refl (c : Ctx) : LogExt c c := ⟨[], by simp⟩
theorem LogExt.trans {c1 c2 c3 : Ctx} (h12 : LogExt c1 c2) (h23 : LogExt c2 c3) : LogExt c1 c3 := by
  obtain ⟨E1, e1⟩ := h12
  obtain ⟨E2, e2⟩ := h23
  exact ⟨E1 ++ E2, by rw [e2, e1, List.append_assoc]⟩
theorem LogExt.emit (c : Ctx) (e : Eff) : LogExt c (c.emit e) := ⟨[e], rfl⟩

theorem LogExt.mem {c c' : Ctx} (h : LogExt c c') {e : Eff} (he : e ∈ c'.eff.drop c.eff.length) {c0 : Ctx}
    (h0 : LogExt c0 c) : e ∈ c'.eff.drop c0.eff.length := by
  obtain ⟨E, hE⟩ := h
  obtain ⟨E0, hE0⟩ := h0
  rw [hE, List.drop_left] at he
  rw [hE, hE0, List.append_assoc, List.drop_left]
  exact List.mem_append.mpr (Or.inr he)

/-- what a first step appended is still among the new effects after the log has been extended -/
theorem LogExt.mem_new {c0 c c' : Ctx} {F : List Eff} (h0 : c.eff = c0.eff ++ F) (h : LogExt c c')
    {e : Eff} (he : e ∈ F) : e ∈ c'.eff.drop c0.eff.length := by
  obtain ⟨E, hE⟩ := h
  rw [hE, h0, List.append_assoc, List.drop_left]
  exact List.mem_append.mpr (Or.inl he)

theorem storableOf_logExt {w : World} {v : WVal} {lim : Nat} {cx : Ctx}
    {e : Elem} {w' : World} {cx' : Ctx} (h : w.storableOf v lim cx = .ok (e, w', cx')) : LogExt cx cx' := by
  cases v with
  | plain e0 => simp only [World.storableOf] at h; cases h; exact LogExt.refl _
  | child x wrap =>
    obtain ⟨c, hc⟩ := childStorable_some h
    obtain ⟨c', _, _, _, hcase⟩ := childStorable_ok hc h
    rcases hcase with ⟨_, _, _, h4⟩ | ⟨_, _, h4⟩
    · subst h4; exact LogExt.refl _
    · subst h4; exact LogExt.emit _ _

/-- The three statements proved simultaneously by induction on the fuel. -/
theorem mutual_logExt (T : Nat) (cfg : MCfg) (hS : SetAppends T cfg) (fuel : Nat) :
    (∀ w x cx w' cx', w.T = T → w.mcfg = cfg → notifyParent fuel w x cx = .ok (w', cx') → LogExt cx cx') ∧
    (∀ w p i v cx old w' cx', w.T = T → w.mcfg = cfg → arrSetRaw fuel w p i v cx = .ok (old, w', cx') →
        LogExt cx cx') ∧
    (∀ w p k v cx old w' cx', w.T = T → w.mcfg = cfg → mapSetRaw fuel w p k v cx = .ok (old, w', cx') →
        LogExt cx cx') := by
  have harr : ∀ fuel, (∀ w x cx w' cx', w.T = T → w.mcfg = cfg → notifyParent fuel w x cx = .ok (w', cx') →
        LogExt cx cx') →
      (∀ w p i v cx old w' cx', w.T = T → w.mcfg = cfg → arrSetRaw fuel w p i v cx = .ok (old, w', cx') →
        LogExt cx cx') := by
    intro fuel ihn w p i v cx old w' cx' hT hcfg h
    rw [arrSetRaw] at h
    split at h
    · rename_i a hpa
      split at h
      · cases h
      · split at h
        · cases h
        · rename_i e w1 cx1 hst
          have d1 : DomRel False w w1 := DomRel.storableOf hst
          have l1 := storableOf_logExt hst
          split at h
          · cases h
          · rename_i old1 a' cx2 hset
            simp only at h
            split at h
            · cases h
            · rename_i w3 cx3 hnp
              cases h
              rw [d1.1, hT] at hset
              have l2 : LogExt cx1 cx2 := hS.1 _ _ _ _ _ _ _ hset
              have l3 := ihn _ _ _ _ _ (by simp [d1.1, hT]) (by simp [d1.mcfg_eq, hcfg]) hnp
              exact l1.trans (l2.trans l3)
    · cases h
  have hmap : ∀ fuel, (∀ w x cx w' cx', w.T = T → w.mcfg = cfg → notifyParent fuel w x cx = .ok (w', cx') →
        LogExt cx cx') →
      (∀ w p k v cx old w' cx', w.T = T → w.mcfg = cfg → mapSetRaw fuel w p k v cx = .ok (old, w', cx') →
        LogExt cx cx') := by
    intro fuel ihn w p k v cx old w' cx' hT hcfg h
    rw [mapSetRaw] at h
    split at h
    · rename_i m hpm
      split at h
      · cases h
      · rename_i e w1 cx1 hst
        have d1 : DomRel False w w1 := DomRel.storableOf hst
        have l1 := storableOf_logExt hst
        split at h
        · cases h
        · rename_i old1 m' cx2 hset
          simp only at h
          split at h
          · cases h
          · rename_i w3 cx3 hnp
            cases h
            rw [d1.mcfg_eq, hcfg] at hset
            have l2 : LogExt cx1 cx2 := hS.2 _ _ _ _ _ _ _ hset
            have l3 := ihn _ _ _ _ _ (by simp [d1.1, hT]) (by simp [d1.mcfg_eq, hcfg]) hnp
            exact l1.trans (l2.trans l3)
    · cases h
  have hnot : ∀ fuel, (∀ w x cx w' cx', w.T = T → w.mcfg = cfg → notifyParent fuel w x cx = .ok (w', cx') →
        LogExt cx cx') := by
    intro fuel
    induction fuel with
    | zero => intro w x cx w' cx' _ _ h; rw [notifyParent] at h; cases h
    | succ fuel ih =>
      intro w x cx w' cx' hT hcfg h
      rw [notifyParent] at h
      split at h
      · cases h; exact LogExt.refl _
      · cases h
      · rename_i hi c hh hc
        split at h
        · cases h; exact LogExt.refl _
        · simp only at h
          split at h
          · cases h; exact LogExt.refl _
          · rename_i pa hpa
            split at h
            · cases h; exact LogExt.refl _
            · rename_i idx hidx
              split at h
              · cases h
              · rename_i el hget
                split at h
                · cases h; exact LogExt.refl _
                · split at h
                  · cases h
                  · rename_i old w2 cx2 hset
                    split at h
                    · cases h
                    · cases h
                      exact harr fuel ih _ _ _ _ _ _ _ _ hT hcfg hset
          · rename_i pm hpm
            split at h
            · cases h
            · rename_i k hk
              split at h
              · cases h; exact LogExt.refl _
              · cases h
              · rename_i el hget
                split at h
                · cases h; exact LogExt.refl _
                · split at h
                  · cases h
                  · rename_i old w2 cx2 hset
                    split at h
                    · split at h
                      · cases h
                      · cases h
                        exact hmap fuel ih _ _ _ _ _ _ _ _ hT hcfg hset
                    · cases h
  exact ⟨hnot fuel, harr fuel (hnot fuel), hmap fuel (hnot fuel)⟩

theorem notifyParent_logExt {fuel : Nat} {w : World} {x : SlabID} {cx : Ctx} {w' : World} {cx' : Ctx}
    (hS : SetAppends w.T w.mcfg) (h : notifyParent fuel w x cx = .ok (w', cx')) : LogExt cx cx' :=
  (mutual_logExt w.T w.mcfg hS fuel).1 _ _ _ _ _ rfl rfl h

end World
end Atree
