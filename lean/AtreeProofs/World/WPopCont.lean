import AtreeProofs.WorldOkPop
import AtreeProofs.Array.Iter
import AtreeProofs.Map.Empty
import AtreeProofs.Map.TreeDefs
import AtreeProofs.E2EMap.History
/-
  The container left behind by `Arr.popIterate` / `OMap.popIterate` is structurally valid in the
  form (standalone / inlined) of the container that was emptied: `ContOk`.
-/
namespace Atree
open Gen

/-- the ID of the root slab is among the slab IDs of a map tree -/
theorem mtree_hdr_id_mem {r : Nat} : ∀ (d : Nat) (t : MTree r d), (MTree.hdr d t).id ∈ CtxOk.mapSlabIds d t
  | 0, (s : MDataSlab r) => by
    rw [mapSlabIds_zero]
    exact List.mem_cons_self
  | d + 1, (m : MMetaSlab (MTree r d)) => by
    show m.hdr.id ∈ m.hdr.id :: _
    simp

namespace World

/-- the emptied array -/
theorem contOk_arr_pop {T : Nat} {Dm : DigestFn 4} (hT : legalThreshold T = true) (a : Arr) (cx : Ctx)
    (h : ContOk T Dm cx.ctr (.arr a)) :
    ContOk T Dm (a.popIterate cx).2.2.ctr (.arr (a.popIterate cx).2.1) ∧
      (a.popIterate cx).2.2.ctr = cx.ctr ∧
      (Cont.arr (a.popIterate cx).2.1).isInlined = (Cont.arr a).isInlined ∧
      (Cont.arr (a.popIterate cx).2.1).vid = (Cont.arr a).vid ∧
      (Cont.arr (a.popIterate cx).2.1).storedElems = [] ∧
      ((Cont.arr (a.popIterate cx).2.1).isInlined = true →
        (Cont.arr (a.popIterate cx).2.1).rootSize = inlinedArrayDataSlabPrefixSize) := by
  have hinl : (a.popIterate cx).2.1.isInlined = a.isInlined := rfl
  refine ⟨⟨fun hi => ?_, fun hi => ?_⟩, arr_popIterate_ctr a cx, hinl, rfl, rfl, fun hi => ?_⟩
  · rw [hinl] at hi
    exact arr_popIterate_inv hT a cx (h.1 hi)
  · rw [hinl] at hi
    obtain ⟨s, ty, rfl, h1, h2, h3, h4, h5, h6, h7, h8, h9⟩ := h.2 hi
    rw [arr_popIterate_ctr]
    refine ⟨_, _, rfl, rfl, hi, rfl, rfl, ?_, ?_, h7, h8, ?_⟩
    · show (if (Arr.isInlined ⟨0, s, ty⟩) = true then inlinedArrayDataSlabPrefixSize else arrayRootDataSlabPrefixSize) = _
      rw [hi]; simp [sumSizes]
    · intro e he
      simp at he
    · show (0 : Nat) < _
      omega
  · have hi' : a.isInlined = true := hi
    show (if a.isInlined = true then inlinedArrayDataSlabPrefixSize else arrayRootDataSlabPrefixSize) = _
    rw [hi']; rfl

/-- the emptied map -/
theorem contOk_map_pop {T : Nat} {Dm : DigestFn 4} (hT : legalThreshold T = true) (m : OMap 3) (cx : Ctx)
    (h : ContOk T Dm cx.ctr (.map m)) :
    ContOk T Dm (m.popIterate cx).2.2.ctr (.map (m.popIterate cx).2.1) ∧
      (m.popIterate cx).2.2.ctr = cx.ctr ∧
      (Cont.map (m.popIterate cx).2.1).isInlined = (Cont.map m).isInlined ∧
      (Cont.map (m.popIterate cx).2.1).vid = (Cont.map m).vid ∧
      (Cont.map (m.popIterate cx).2.1).storedElems = [] ∧
      ((Cont.map (m.popIterate cx).2.1).isInlined = true →
        (Cont.map (m.popIterate cx).2.1).rootSize = inlinedMapDataSlabPrefixSize + hkeyElementsPrefixSize) := by
  have hinl : (m.popIterate cx).2.1.isInlined = m.isInlined := rfl
  have hctr : (m.popIterate cx).2.2.ctr = cx.ctr := (E2EM.omap_popKeep m cx).1
  refine ⟨⟨fun hi => ?_, fun hi => ?_⟩, hctr, hinl, rfl, ?_, fun hi => ?_⟩
  · rw [hinl] at hi
    obtain ⟨hinv, hcok⟩ := h.1 hi
    have hform : (m.popIterate cx).2.1 = ⟨0, emptyRoot 3 m.rootID, m.ty, 0, m.seed⟩ := by
      show (⟨0, _, m.ty, 0, m.seed⟩ : OMap 3) = _
      simp only [hi, emptyRoot]
      rfl
    rw [hform, hctr]
    refine ⟨emptyMap_inv hT m.rootID m.ty m.seed, ?_⟩
    intro id hid _
    have : id = m.rootID := by
      rw [mapSlabIds_zero] at hid
      simpa [emptyRoot, extIds] using hid
    subst this
    exact hcok m.rootID (mtree_hdr_id_mem m.d m.root) rfl
  · rw [hinl] at hi
    obtain ⟨s, ty, cnt, seed, rfl, h1, h2, h3, h4, h5, h6, h7, h8⟩ := h.2 hi
    rw [hctr]
    refine ⟨_, _, _, _, rfl, rfl, hi, rfl, ?_, ?_, rfl, ?_, ?_⟩
    · exact (emptyRoot_inv (T := T) (D := Dm) hT s.hdr.id).elems_inv
    · show (if (OMap.isInlined (⟨0, s, ty, cnt, seed⟩ : OMap 3)) = true then inlinedMapDataSlabPrefixSize
        else mapRootDataSlabPrefixSize) + hkeyElementsPrefixSize = _
      rw [hi]; rfl
    · rfl
    · intro id hid ha
      have : id = s.hdr.id := by
        rw [mapSlabIds_zero] at hid
        have h0 : id = (⟨0, s, ty, cnt, seed⟩ : OMap 3).rootID := by simpa [extIds] using hid
        exact h0
      subst this
      exact h8 _ (by rw [mapSlabIds_zero]; exact List.mem_cons_self) rfl
  · show ((m.popIterate cx).2.1.toList.map (·.2)) = []
    rfl
  · have hi' : m.isInlined = true := hi
    show (if m.isInlined = true then inlinedMapDataSlabPrefixSize else mapRootDataSlabPrefixSize) + hkeyElementsPrefixSize = _
    rw [hi']; rfl

end World
end Atree
