import AtreeProofs.World.WPopPrune
import AtreeProofs.World.NotifyPrep
import AtreeProofs.World.OpsOld
/-
  THE STEP of a bulk pop: the container `h` is replaced by an empty one (same kind, same form,
  same value ID), its index table is cleared, and a set of containers that is closed under
  element references is dropped from all tables — the popped children that are not kept, with
  everything below them.  Afterwards the (pruned) world satisfies the generalised invariant with
  `h` as the container whose parent slot is out of date and the kept popped children `K` pending
  (they are referenced by nobody, inlined or not).
-/
namespace Atree
open Gen

namespace World

variable {D : SlabID → DigestFn 4} {rank : SlabID → Nat}

/-- a container without elements has no payloads -/
theorem Cont.pays_of_empty {c : Cont} (h : c.storedElems = []) : c.pays = [] := by
  simp [Cont.pays, h]

/-- a container without elements has no slots -/
theorem Cont.slots_of_empty (T : Nat) {c : Cont} (h : c.storedElems = []) : c.slots T = [] := by
  have := Cont.slots_map_snd T c
  rw [h] at this
  exact List.map_eq_nil_iff.mp this

/-- `w2` is `w` where the container `h` has been emptied (`pc'`), its index table cleared, and a set
    of containers, closed under element references and referenced by nothing that stays, dropped
    from all tables -/
structure PopRel (w w2 : World) (h : SlabID) (pc pc' : Cont) : Prop where
  T : w2.T = w.T
  addr : w2.addr = w.addr
  was : w.cont? h = some pc
  now : w2.cont? h = some pc'
  empty : pc'.storedElems = []
  hinfo_h : AList.find? w2.hinfo h = AList.find? w.hinfo h
  idx_h : ∀ x, AList.find? (w2.idxOf h) x = none
  other : ∀ z, z ≠ h →
    (w2.cont? z = w.cont? z ∧ AList.find? w2.hinfo z = AList.find? w.hinfo z ∧
      AList.find? w2.mutIdx z = AList.find? w.mutIdx z) ∨
    ((w.cont? z).isSome ∧ w2.cont? z = none ∧ AList.find? w2.hinfo z = none ∧ AList.find? w2.mutIdx z = none)
  closed : ∀ u c, u ≠ h → w.cont? u = some c → w2.cont? u = none → ∀ y, Pay.ref y ∈ c.pays → w2.cont? y = none
  dang : ∀ q qc, q ≠ h → w2.cont? q = some qc → ∀ y, Pay.ref y ∈ qc.pays → (w.cont? y).isSome → (w2.cont? y).isSome

namespace PopRel
variable {w w2 : World} {h : SlabID} {pc pc' : Cont}

/-- a container other than `h` that is still there is unchanged, in every table -/
theorem kept (P : PopRel w w2 h pc pc') {z : SlabID} {c : Cont} (hz : z ≠ h) (hc : w2.cont? z = some c) :
    w.cont? z = some c ∧ w2.idxOf z = w.idxOf z ∧ AList.find? w2.hinfo z = AList.find? w.hinfo z := by
  rcases P.other z hz with ⟨a, b, c'⟩ | ⟨_, b, _⟩
  · exact ⟨by rw [← a]; exact hc, by simp only [idxOf, c'], b⟩
  · rw [b] at hc; cases hc

/-- what is there afterwards was there before -/
theorem live (P : PopRel w w2 h pc pc') {z : SlabID} (hz : (w2.cont? z).isSome) : (w.cont? z).isSome := by
  by_cases hzh : z = h
  · subst hzh; rw [P.was]; rfl
  · obtain ⟨c, hc⟩ := Option.isSome_iff_exists.mp hz
    rw [(P.kept hzh hc).1]; rfl

/-- every closure afterwards is a closure before -/
theorem hinfo_sub (P : PopRel w w2 h pc pc') {x : SlabID} {hi : HInfo} (hx : AList.find? w2.hinfo x = some hi) :
    AList.find? w.hinfo x = some hi := by
  by_cases hxh : x = h
  · subst hxh; rw [← P.hinfo_h]; exact hx
  · rcases P.other x hxh with ⟨_, b, _⟩ | ⟨_, _, b, _⟩
    · rw [← b]; exact hx
    · rw [b] at hx; cases hx

/-- `h` holds nothing any more -/
theorem holds_ne (P : PopRel w w2 h pc pc') {q x : SlabID} (hq : Holds w2 q x) : q ≠ h := by
  obtain ⟨qc, hqc, hm⟩ := hq
  intro he
  subst he
  rw [P.now] at hqc; cases hqc
  rw [Cont.pays_of_empty P.empty] at hm; cases hm

/-- a reference afterwards is a reference before -/
theorem holds_back (P : PopRel w w2 h pc pc') {q x : SlabID} (hq : Holds w2 q x) : Holds w q x := by
  have hne := P.holds_ne hq
  obtain ⟨qc, hqc, hm⟩ := hq
  exact ⟨qc, (P.kept hne hqc).1, hm⟩

/-- a holder (other than `h`) of a container that is still there is still there -/
theorem holder (P : PopRel w w2 h pc pc') {q x : SlabID} (hq : q ≠ h) (hh : Holds w q x)
    (hx : (w2.cont? x).isSome) : Holds w2 q x := by
  obtain ⟨qc, hqc, hm⟩ := hh
  rcases P.other q hq with ⟨a, _⟩ | ⟨_, b, _⟩
  · exact ⟨qc, by rw [a]; exact hqc, hm⟩
  · have := P.closed q qc hq hqc b x hm
    rw [this] at hx; cases hx

/-- a closure position in the new world is one in the old world -/
theorem closureAt_back (P : PopRel w w2 h pc pc') {x : SlabID} {hi : HInfo} {lim : Nat} {e : Elem}
    (hca : ClosureAt w2.prune x hi lim e) : ClosureAt w x hi lim e := by
  have hpne : hi.parent ≠ h := by
    intro he
    rcases hca with ⟨pa, i, hpa, _, hge, _⟩ | ⟨pm, k, hpm, _, hmem, _⟩
    · rw [cont?_prune, he, P.now] at hpa; cases hpa
      have : (Cont.arr pa).storedElems = [] := P.empty
      simp only [Cont.storedElems] at this
      rw [this] at hge; simp at hge
    · rw [cont?_prune, he, P.now] at hpm; cases hpm
      have : (Cont.map pm).storedElems = [] := P.empty
      simp only [Cont.storedElems] at this
      have hm2 : e ∈ pm.toList.map (·.2) := List.mem_map.mpr ⟨_, hmem, rfl⟩
      rw [this] at hm2; cases hm2
  rcases hca with ⟨pa, i, hpa, hi2, hge, hpay, hlim⟩ | ⟨pm, k, hpm, hk, hmem, hpay, hlim⟩
  · rw [cont?_prune] at hpa
    obtain ⟨a1, a2, _⟩ := P.kept hpne hpa
    rw [idxOf_prune, a2] at hi2
    exact Or.inl ⟨pa, i, a1, hi2, hge, hpay, by rw [hlim, T_prune, P.T]⟩
  · rw [cont?_prune] at hpm
    obtain ⟨a1, _⟩ := P.kept hpne hpm
    exact Or.inr ⟨pm, k, a1, hk, hmem, hpay, by rw [hlim, T_prune, P.T]⟩

/-- … and a closure position in the old world whose parent is neither `h` nor dropped is one in the
    new world -/
theorem closureAt_fwd (P : PopRel w w2 h pc pc') {x : SlabID} {hi : HInfo} {lim : Nat} {e : Elem}
    (hne : hi.parent ≠ h) (hl : (w2.cont? hi.parent).isSome) (hca : ClosureAt w x hi lim e) :
    ClosureAt w2.prune x hi lim e := by
  obtain ⟨c, hc⟩ := Option.isSome_iff_exists.mp hl
  obtain ⟨a1, a2, _⟩ := P.kept hne hc
  rcases hca with ⟨pa, i, hpa, hi2, hge, hpay, hlim⟩ | ⟨pm, k, hpm, hk, hmem, hpay, hlim⟩
  · rw [a1] at hpa; cases hpa
    exact Or.inl ⟨pa, i, by rw [cont?_prune]; exact hc, by rw [idxOf_prune, a2]; exact hi2, hge, hpay,
      by rw [hlim, T_prune, P.T]⟩
  · rw [a1] at hpm; cases hpm
    exact Or.inr ⟨pm, k, by rw [cont?_prune]; exact hc, hk, hmem, hpay, by rw [hlim, T_prune, P.T]⟩

/-- Current handles of the containers that are still there stay current (a kept popped child
    becomes a root). -/
theorem handleOk (P : PopRel w w2 h pc pc') (hu : UniqueRef w) {z : SlabID} (hz : HandleOk w z)
    (hl : (w2.cont? z).isSome) : HandleOk w2.prune z := by
  induction hz with
  | root x hr => exact HandleOk.root x (fun q hq => hr q (P.holds_back hq))
  | child x hi hhi hc _ ih =>
    obtain ⟨lim, e, hca⟩ := hc
    have hold : Holds w hi.parent x := ClosureAt.holds hca
    by_cases hph : hi.parent = h
    · -- `x` was an element of `h`: nobody refers to it any more
      refine HandleOk.root x (fun q hq => ?_)
      have hq2 : Holds w2 q x := hq
      obtain ⟨qc, hqc, hm⟩ := P.holds_back hq2
      obtain ⟨pc0, hpc0, hm0⟩ := hold
      obtain ⟨i, hi'⟩ := List.mem_iff_getElem?.mp hm
      obtain ⟨j, hj⟩ := List.mem_iff_getElem?.mp hm0
      have := (hu q hi.parent qc pc0 i j x hqc hpc0 hi' hj (P.live hl)).1
      exact P.holds_ne hq2 (this.trans hph)
    · have hpl : (w2.cont? hi.parent).isSome := by
        obtain ⟨qc, hqc, _⟩ := P.holder hph hold hl
        rw [hqc]; rfl
      have hx2 : AList.find? w2.hinfo x = some hi := by
        by_cases hxh : x = h
        · subst hxh; rw [P.hinfo_h]; exact hhi
        · obtain ⟨c, hc⟩ := Option.isSome_iff_exists.mp hl
          rw [(P.kept hxh hc).2.2]; exact hhi
      exact HandleOk.child x hi (find?_prune_some.mpr ⟨hx2, hpl⟩) ⟨lim, e, P.closureAt_fwd hph hpl hca⟩ (ih hpl)

end PopRel

/-- THE STEP of a bulk pop (see the header): all clauses of the generalised invariant for the pruned world after the pop, `h` being out of date and the kept popped children `K` pending; moreover `mutableElementIndex` is exact and the kept children are referenced by nobody -/
theorem step_pop {w w2 : World} {ctr ctr2 : Nat} {h : SlabID} {pc pc' : Cont} {K : SlabID → Prop}
    (H : WorldOkPK D rank (fun _ => False) w ctr) (P : PopRel w w2 h pc pc')
    -- the emptied container
    (hokp : ContOk w.T (D h) ctr2 pc') (harr : pc'.isArr = pc.isArr) (hinlp : pc'.isInlined = pc.isInlined)
    (hvid : pc'.vid = pc.vid) (hbp : pc'.isInlined = true → pc'.rootSize ≤ w.T) (hctr : ctr ≤ ctr2)
    -- the popped children are dropped or kept
    (hpop : ∀ x, Pay.ref x ∈ pc.pays → (w.cont? x).isSome → w2.cont? x = none ∨ K x)
    (hK : ∀ x, K x → Pay.ref x ∈ pc.pays ∧ (w.cont? x).isSome) :
    WorldOkGen D rank (some h) K w2.prune ctr2 ∧ MutIdxOkX w2.prune (fun _ => False) ∧
      (∀ x, K x → ∀ q, ¬ Holds w2.prune q x) := by
  have hp := P.was
  have hcp := P.now
  have hT := P.T
  have ha := P.addr
  have hemp := P.empty
  have hpays' : pc'.pays = [] := Cont.pays_of_empty hemp
  have hslots' : ∀ T, pc'.slots T = [] := fun T => Cont.slots_of_empty T hemp
  have hkept : ∀ z c, z ≠ h → w2.cont? z = some c → w.cont? z = some c ∧ w2.idxOf z = w.idxOf z :=
    fun z c hz hc => ⟨(P.kept hz hc).1, (P.kept hz hc).2.1⟩
  have hlive : ∀ z, (w2.cont? z).isSome → (w.cont? z).isSome := fun z hz => P.live hz
  have hholds_ne : ∀ q x, Holds w2 q x → q ≠ h := fun q x hq => P.holds_ne hq
  have hholds_back : ∀ q x, Holds w2 q x → Holds w q x := fun q x hq => P.holds_back hq
  have hholder : ∀ q x, q ≠ h → Holds w q x → (w2.cont? x).isSome → Holds w2 q x :=
    fun q x hq hh hx => P.holder hq hh hx
  have hCA : ∀ x hi lim e, ClosureAt w2.prune x hi lim e → ClosureAt w x hi lim e :=
    fun x hi lim e hca => P.closureAt_back hca
  have hhiP : ∀ x hi, AList.find? w2.prune.hinfo x = some hi → AList.find? w.hinfo x = some hi :=
    fun x hi hx => P.hinfo_sub (find?_prune_some.mp hx).1
  have hmut : MutIdxOkX w2.prune (fun _ => False) := by
    intro p a hpa x i hi _
    rw [cont?_prune] at hpa
    rw [idxOf_prune] at hi
    by_cases hph : p = h
    · subst hph; rw [P.idx_h] at hi; cases hi
    · obtain ⟨a1, a2⟩ := hkept p _ hph hpa
      rw [a2] at hi
      exact H.mutIdx p a a1 x i hi id
  have hKroot : ∀ x, K x → ∀ q, ¬ Holds w2.prune q x := by
    intro x hKx q hq
    have hq2 : Holds w2 q x := hq
    have hne := hholds_ne q x hq2
    obtain ⟨qc, hqc, hm⟩ := hholds_back q x hq2
    obtain ⟨hm0, hxl⟩ := hK x hKx
    obtain ⟨i, hi⟩ := List.mem_iff_getElem?.mp hm
    obtain ⟨j, hj⟩ := List.mem_iff_getElem?.mp hm0
    exact hne (H.unique q h qc pc i j x hqc hp hi hj hxl).1
  refine ⟨⟨by rw [T_prune, hT]; exact H.legal, ?_, ?_, ?_, ?_, ?_, ?_, ?_, fun p a hpa x i hi _ => hmut p a hpa x i hi id,
    ?_, ?_, ?_, ?_, hinfoLive_prune w2⟩, hmut, hKroot⟩
  · -- ids
    intro z cz hz
    rw [cont?_prune] at hz
    by_cases hzh : z = h
    · subst hzh; rw [hcp] at hz; cases hz; rw [hvid]; exact H.ids _ _ hp
    · exact H.ids z cz (hkept z cz hzh hz).1
  · -- addr
    intro z cz hz
    rw [cont?_prune] at hz
    rw [addr_prune, ha]
    by_cases hzh : z = h
    · subst hzh; exact H.addr _ _ hp
    · exact H.addr z cz (hkept z cz hzh hz).1
  · -- conts
    intro z cz hz
    rw [cont?_prune] at hz
    rw [T_prune, hT]
    by_cases hzh : z = h
    · subst hzh; rw [hcp] at hz; cases hz; exact hokp
    · exact (H.conts z cz (hkept z cz hzh hz).1).mono hctr
  · -- slots
    intro q qc hq le hle x cx hx hcx
    rw [cont?_prune] at hq hcx
    rw [T_prune, hT] at hle
    have hqh : q ≠ h := by
      intro he; subst he
      rw [hcp] at hq; cases hq
      rw [hslots'] at hle; cases hle
    have hq0 := (hkept q qc hqh hq).1
    by_cases hxh : x = h
    · have hxh' := hxh.symm
      subst hxh'
      rw [hcp] at hcx; cases hcx
      obtain ⟨wr, h1, h2, _, h4⟩ := H.slots q qc hq0 le hle h pc hx hp
      obtain ⟨h2a, _⟩ := h2 (by intro he; cases he)
      refine ⟨wr, h1, fun hne => absurd rfl hne, fun _ hni => ?_, ?_⟩
      · rw [h2a, slotSize_standalone hni, slotSize_standalone (by rw [← hinlp]; exact hni)]
      · intro hi _ hhi hca
        exact h4 hi id (hhiP h hi hhi) (hCA h hi _ _ hca)
    · have hcx0 := (hkept x cx hxh hcx).1
      obtain ⟨wr, h1, h2, _, h4⟩ := H.slots q qc hq0 le hle x cx hx hcx0
      refine ⟨wr, h1, fun _ => h2 (by intro he; cases he), fun he => ?_, ?_⟩
      · cases he; exact absurd rfl hxh
      · intro hi _ hhi hca
        exact h4 hi id (hhiP x hi hhi) (hCA x hi _ _ hca)
  · -- band
    intro z cz hz hi
    rw [cont?_prune] at hz
    rw [T_prune, hT]
    by_cases hzh : z = h
    · subst hzh; rw [hcp] at hz; cases hz; exact hbp hi
    · exact H.band z cz (hkept z cz hzh hz).1 hi
  · -- unique
    intro q q' qc qc' i j x hq hq' hi hj hx
    rw [cont?_prune] at hq hq' hx
    have hqh : q ≠ h := hholds_ne q x ⟨qc, hq, List.mem_of_getElem? hi⟩
    have hqh' : q' ≠ h := hholds_ne q' x ⟨qc', hq', List.mem_of_getElem? hj⟩
    exact H.unique q q' qc qc' i j x (hkept q qc hqh hq).1 (hkept q' qc' hqh' hq').1 hi hj (hlive x hx)
  · -- inlRef
    intro z cz hz hi hKz
    rw [cont?_prune] at hz
    by_cases hzh : z = h
    · have hzh' := hzh.symm
      subst hzh'
      rw [hcp] at hz; cases hz
      obtain ⟨q, hq⟩ := H.inlRef h pc hp (by rw [← hinlp]; exact hi) id
      have hqh : q ≠ h := by
        intro he; subst he
        have := H.rank q q hq (by rw [hp]; rfl)
        omega
      exact ⟨q, hholder q h hqh hq (by rw [hcp]; rfl)⟩
    · have hz0 := (hkept z cz hzh hz).1
      obtain ⟨q, hq⟩ := H.inlRef z cz hz0 hi id
      by_cases hqh : q = h
      · subst hqh
        obtain ⟨qc, hqc, hm⟩ := hq
        rw [hp] at hqc; cases hqc
        rcases hpop z hm (by rw [hz0]; rfl) with hd | hk
        · rw [hd] at hz; cases hz
        · exact absurd hk hKz
      · exact ⟨q, hholder q z hqh hq (by rw [hz]; rfl)⟩
  · -- closure
    intro x hi hx
    have hx0 := hhiP x hi hx
    obtain ⟨c1, c2⟩ := H.closure x hi hx0
    refine ⟨fun pa2 hpa2 => ?_, fun pm2 k2 hpm2 hk2 => ?_⟩
    · rw [cont?_prune] at hpa2
      rw [T_prune, hT]
      by_cases hpp : hi.parent = h
      · rw [hpp, hcp] at hpa2; cases hpa2
        cases pc with
        | map m => cases harr
        | arr pa => exact c1 pa (by rw [hpp]; exact hp)
      · exact c1 pa2 (hkept _ _ hpp hpa2).1
    · rw [cont?_prune] at hpm2
      rw [T_prune, hT]
      by_cases hpp : hi.parent = h
      · rw [hpp, hcp] at hpm2; cases hpm2
        cases pc with
        | arr pa => cases harr
        | map pm => exact c2 pm k2 (by rw [hpp]; exact hp) hk2
      · exact c2 pm2 k2 (hkept _ _ hpp hpm2).1 hk2
  · -- rank
    intro q x hq hx
    rw [cont?_prune] at hx
    exact H.rank q x (hholds_back q x hq) (hlive x hx)
  · -- below
    intro q qc hq r hr
    rw [cont?_prune] at hq
    by_cases hqh : q = h
    · subst hqh; rw [hcp] at hq; cases hq; rw [hpays'] at hr; cases hr
    · exact Nat.le_trans (H.below q qc (hkept q qc hqh hq).1 r hr) hctr
  · -- idxLive
    intro q x i hi
    rw [idxOf_prune] at hi
    rw [cont?_prune, cont?_prune]
    by_cases hqh : q = h
    · subst hqh; rw [P.idx_h] at hi; cases hi
    · rcases P.other q hqh with ⟨a, _, b⟩ | ⟨_, _, _, b⟩
      · have hi0 : AList.find? (w.idxOf q) x = some i := by
          simp only [idxOf, b] at hi; exact hi
        obtain ⟨hxl, aq, haq⟩ := H.idxLive q x i hi0
        have hpay := H.mutIdx q aq haq x i hi0 id
        refine ⟨P.dang q (.arr aq) hqh (by rw [a]; exact haq) x (List.mem_of_getElem? hpay) hxl, aq, by rw [a]; exact haq⟩
      · simp only [idxOf, b] at hi; cases hi

end World
end Atree
