import AtreeProofs.World.HeapOps
import AtreeProofs.World.NotifyPrep
import AtreeProofs.WorldOkPop
/-
  World-level heap accounting, part 1: the light invariant `HInv` (the clauses of `WorldOk'` that the
  accounting needs), `childStorable` / `storableOf` / `uninlineIfNeeded` (the inline <-> standalone
  transitions of a child handed to / handed back by a container operation).
-/
namespace Atree
open Gen

namespace World

/-- the clauses of `WorldOk'` (`WorldOkPK`) used by the heap accounting, plus the inline budget that
    follows from `SlotSync` and `InlRef`: an inlined container fits the per-element limit -/
structure HInv (D : SlabID → DigestFn 4) (rank : SlabID → Nat) (w : World) (ctr : Nat) : Prop where
  legal   : legalThreshold w.T = true
  ids     : IdsOk w
  addr    : ∀ x c, w.cont? x = some c → x.addr = w.addr
  conts   : ∀ x c, w.cont? x = some c → ContOk w.T (D x) ctr c
  closure : ClosureOk D w
  rank    : CRank rank w
  room    : ∀ x c, w.cont? x = some c → c.isInlined = true → c.rootSize ≤ maxInlineArr w.T

theorem HInv.of_pk {D : SlabID → DigestFn 4} {rank : SlabID → Nat} {w : World} {ctr : Nat}
    (H : WorldOkPK D rank (fun _ => False) w ctr) : HInv D rank w ctr := by
  refine ⟨H.legal, H.ids, H.addr, H.conts, H.closure, H.rank, ?_⟩
  intro p pc hp hi
  obtain ⟨q, hq⟩ := H.inlRef p pc hp hi (fun h => h)
  obtain ⟨qc, le, hqc, hle, hpay⟩ := holds_slot hq
  obtain ⟨wr, _, h2, _, _⟩ := H.slots q qc hqc le hle p pc hpay hp
  obtain ⟨_, h2b⟩ := h2 (by simp)
  rw [hi, (H.conts p pc hp).inlinable_inl hi] at h2b
  have := of_decide_eq_true h2b.symm
  have := slot_lim_le hle
  omega

theorem HInv.band {D : SlabID → DigestFn 4} {rank : SlabID → Nat} {w : World} {ctr : Nat} (H : HInv D rank w ctr)
    {x : SlabID} {c : Cont} (hx : w.cont? x = some c) (hi : c.isInlined = true) : c.rootSize ≤ w.T := by
  have := H.room x c hx hi
  have := two_inline_le w.T H.legal
  omega

/-! ### `childStorable`: validity of the child in its new form (copy of `childStorable_valid` for the
    light hypotheses) -/

theorem childStorable_validL {D : SlabID → DigestFn 4} {w : World} {ctr : Nat}
    (hlegal : legalThreshold w.T = true) {y : SlabID} {c : Cont} (hy : w.cont? y = some c)
    (hok : ContOk w.T (D y) ctr c) (hband : c.isInlined = true → c.rootSize ≤ w.T)
    {wrap lim : Nat} (hwb : slabIDStorableSize + 2 * wrap ≤ lim) (_hlim : lim ≤ maxInlineArr w.T)
    {cx : Ctx} {e : Elem} {w1 : World} {cx1 : Ctx}
    (hst : w.childStorable y wrap lim cx = .ok (e, w1, cx1)) :
    ∃ c1, Cont.SameData c c1 ∧ ContOk w.T (D y) ctr c1 ∧
      c1.isInlined = c1.inlinable (lim - 2 * wrap) ∧ c1.isInlined = c.inlinable (lim - 2 * wrap) ∧
      (c1.isInlined = true → c1.rootSize ≤ lim - 2 * wrap) ∧
      e = ⟨slotSize c1 wrap, .ref y⟩ ∧ 1 ≤ e.size ∧ e.size ≤ lim ∧
      w1.cont? y = some c1 ∧ (∀ z, z ≠ y → w1.cont? z = w.cont? z) ∧
      w1.T = w.T ∧ w1.addr = w.addr ∧ w1.hinfo = w.hinfo ∧ w1.mutIdx = w.mutIdx ∧ cx1.ctr = cx.ctr := by
  unfold childStorable at hst
  simp only [hy] at hst
  have fin : ∀ c1, Cont.SameData c c1 → ContOk w.T (D y) ctr c1 → c1.isInlined = c.inlinable (lim - 2 * wrap) →
      c1.inlinable (lim - 2 * wrap) = c.inlinable (lim - 2 * wrap) →
      (c1.isInlined = true → c1.rootSize ≤ lim - 2 * wrap) →
      w1.cont? y = some c1 → (∀ z, z ≠ y → w1.cont? z = w.cont? z) →
      w1.T = w.T → w1.addr = w.addr → w1.hinfo = w.hinfo → w1.mutIdx = w.mutIdx → cx1.ctr = cx.ctr →
      e = ⟨slotSize c1 wrap, .ref y⟩ →
      ∃ c1, Cont.SameData c c1 ∧ ContOk w.T (D y) ctr c1 ∧
        c1.isInlined = c1.inlinable (lim - 2 * wrap) ∧ c1.isInlined = c.inlinable (lim - 2 * wrap) ∧
        (c1.isInlined = true → c1.rootSize ≤ lim - 2 * wrap) ∧
        e = ⟨slotSize c1 wrap, .ref y⟩ ∧ 1 ≤ e.size ∧ e.size ≤ lim ∧
        w1.cont? y = some c1 ∧ (∀ z, z ≠ y → w1.cont? z = w.cont? z) ∧
        w1.T = w.T ∧ w1.addr = w.addr ∧ w1.hinfo = w.hinfo ∧ w1.mutIdx = w.mutIdx ∧ cx1.ctr = cx.ctr := by
    intro c1 h1 h2 h3 h4 h5 h6 h7 h8 h9 h10 h11 h12 h13
    refine ⟨c1, h1, h2, by rw [h3, h4], h3, h5, h13, ?_, ?_, h6, h7, h8, h9, h10, h11, h12⟩
    · rw [h13]
      show 1 ≤ slotSize c1 wrap
      simp only [slotSize, slabIDStorableSize, SlabIDLength]
      split
      · rename_i hi
        have := Cont.rootSize_pos_of_inl h2 hi
        omega
      · omega
    · rw [h13]
      show slotSize c1 wrap ≤ lim
      cases hi : c1.isInlined
      · rw [slotSize_standalone hi]; exact hwb
      · rw [slotSize_inl hi]
        have := h5 hi
        simp only [slabIDStorableSize, SlabIDLength] at hwb
        omega
  split at hst
  · rename_i h1
    simp only [Bool.and_eq_true] at h1
    cases hst
    refine fin c (Cont.SameData.refl c) hok (by rw [h1.1, h1.2]) rfl ?_ hy (fun _ _ => rfl) rfl rfl rfl rfl rfl
      (by simp [slotSize, h1.2])
    intro hi
    have := hok.inlinable_inl hi (lim - 2 * wrap)
    rw [h1.1] at this
    exact of_decide_eq_true this.symm
  · split at hst
    · rename_i h1 h2
      simp only [Bool.and_eq_true, Bool.not_eq_true'] at h2
      cases hst
      refine fin c (Cont.SameData.refl c) hok (by rw [h2.1, h2.2]) rfl ?_ hy (fun _ _ => rfl) rfl rfl rfl rfl rfl
        (by simp [slotSize, h2.2])
      intro hi; rw [h2.2] at hi; cases hi
    · split at hst
      · rename_i h1 h2 h3
        simp only [Bool.and_eq_true, Bool.not_eq_true'] at h3
        split at hst
        · cases hst
        · rename_i c' cx2 hin
          cases hst
          obtain ⟨i1, i2, i3, i4⟩ := Cont.inline_ok hin
          obtain ⟨j1, j2⟩ := Cont.inline_inlinable hin (lim - 2 * wrap)
          refine fin c' i3 (contOk_inline hok hin) (by rw [i2, h3.1]) j1 (fun _ => j2 h3.1)
            (by simp) (fun z hz => cont?_setCont_ne _ _ _ _ hz) rfl rfl rfl rfl (by rw [i4]; rfl)
            (by simp [slotSize, i2])
      · rename_i h1 h2 h3
        split at hst
        · cases hst
        · rename_i c' cx2 hun
          cases hst
          obtain ⟨i1, i2, i3, i4⟩ := Cont.uninline_ok hun
          have hable : c.inlinable (lim - 2 * wrap) = false := by
            cases hb : c.inlinable (lim - 2 * wrap) with
            | false => rfl
            | true => simp [hb, i1] at h1
          refine fin c' i3 (contOk_uninline hlegal hok (hband i1) hun) (by rw [i2, hable])
            (Cont.uninline_inlinable hok hun _) (fun hi => by rw [i2] at hi; cases hi)
            (by simp) (fun z hz => cont?_setCont_ne _ _ _ _ hz) rfl rfl rfl rfl (by rw [i4]; rfl)
            (by simp [slotSize, i2])

/-! ### the heap account of the transitions -/

/-- a container changes form (`Inline` / `Uninline`) inside the world -/
theorem form_heap {w : World} {ctr : Nat} (H : HeapOk w ctr) {y : SlabID} {c c' : Cont} (hy : w.cont? y = some c)
    {E : List Eff} (hca : CAcct ctr ctr c c' E []) (hids : c'.treeIds = c.treeIds) :
    WAcct ctr ctr w (w.setCont y c') E [] ∧ HeapOk (w.setCont y c') ctr :=
  hca.lift H hy (by rw [hids]; exact H.nodup y c hy)
    (fun id hid => by rw [hids] at hid; exact ⟨H.below y c id hy hid, H.addr y c id hy hid⟩)

theorem childStorable_heap {w : World} {ctr : Nat} (H : HeapOk w ctr) {y : SlabID} {c : Cont}
    (hy : w.cont? y = some c) (hvid : c.vid = y) {wrap lim : Nat} {cx : Ctx} {e : Elem} {w1 : World} {cx1 : Ctx}
    (hst : w.childStorable y wrap lim cx = .ok (e, w1, cx1)) :
    ∃ E, Log cx cx1 E [] ∧ WAcct ctr ctr w w1 E [] ∧ HeapOk w1 ctr := by
  unfold childStorable at hst
  simp only [hy] at hst
  split at hst
  · cases hst; exact ⟨[], Log.refl _, WAcct.refl _ _, H⟩
  · split at hst
    · cases hst; exact ⟨[], Log.refl _, WAcct.refl _ _, H⟩
    · split at hst
      · split at hst
        · cases hst
        · rename_i c' cx2 hin
          cases hst
          obtain ⟨hca, hids, hcx⟩ := cacct_inline hin hvid (H.nodup y c hy) ctr
          obtain ⟨g1, g2⟩ := form_heap H hy hca hids
          exact ⟨[.remove y], by rw [hcx]; exact Log.remove cx y, g1, g2⟩
      · split at hst
        · cases hst
        · rename_i c' cx2 hun
          cases hst
          obtain ⟨hca, hids, hcx⟩ := cacct_uninline hun hvid ctr
          obtain ⟨g1, g2⟩ := form_heap H hy hca hids
          exact ⟨[.store y], by rw [hcx]; exact Log.store cx y, g1, g2⟩

/-- `uninlineStorableIfNeeded`: an inlined child handed back becomes a standalone slab -/
theorem uninlineIfNeeded_heap {w : World} {ctr : Nat} (H : HeapOk w ctr) (hids : IdsOk w) {e e' : Elem}
    {ov : Option SlabID} {cx cx1 : Ctx} {w1 : World}
    (h : w.uninlineIfNeeded e cx = .ok (e', ov, w1, cx1)) :
    ∃ E, Log cx cx1 E [] ∧ WAcct ctr ctr w w1 E [] ∧ HeapOk w1 ctr ∧ IdsOk w1 ∧ w1.T = w.T ∧ w1.addr = w.addr := by
  unfold uninlineIfNeeded at h
  split at h
  · rename_i vid hpay
    split at h
    · cases h; exact ⟨[], Log.refl _, WAcct.refl _ _, H, hids, rfl, rfl⟩
    · rename_i c hc
      split at h
      · split at h
        · cases h
        · rename_i c' cx2 hun
          cases h
          obtain ⟨hca, hti, hcx⟩ := cacct_uninline hun (hids vid c hc) ctr
          obtain ⟨g1, g2⟩ := form_heap H hc hca hti
          refine ⟨[.store vid], by rw [hcx]; exact Log.store cx vid, g1, g2, ?_, rfl, rfl⟩
          intro x cc hx
          rw [cont?_setCont] at hx
          split at hx
          · rename_i e1
            cases hx
            rw [← e1, (Cont.uninline_tail hun).2]
            exact hids vid c hc
          · exact hids x cc hx
      · cases h; exact ⟨[], Log.refl _, WAcct.refl _ _, H, hids, rfl, rfl⟩
  · cases h; exact ⟨[], Log.refl _, WAcct.refl _ _, H, hids, rfl, rfl⟩

end World
end Atree
