import AtreeProofs.World.Ops
/-
  Array and map operations keep the ID of the root slab — for EVERY tree, no invariant needed
  (every meta slab update is `{ m with hdr := { m.hdr with size / count / firstKey := … } }`).
  Hence the `hroot…` hypotheses of `C10.value_id_stable_…` are satisfiable.
-/
namespace Atree
open Gen

theorem bind_ok {ε α β : Type} {x : Except ε α} {f : α → Except ε β} {b : β}
    (h : x >>= f = .ok b) : ∃ a, x = .ok a ∧ f a = .ok b := by
  cases x with
  | error e => cases h
  | ok a => exact ⟨a, rfl, h⟩

namespace ATree

theorem hdr_setRoot (d : Nat) (t : ATree d) (b : Bool) : hdr d (setRoot d t b) = hdr d t := by
  cases d <;> rfl

theorem hdr_setId_id (d : Nat) (t : ATree d) (id : SlabID) : (hdr d (setId d t id)).id = id := by
  cases d <;> rfl

end ATree

namespace MetaSlab
open ATree
variable {d : Nat}

theorem splitChildSlab_id {m m' : MetaSlab (ATree d)} {child : ATree d} {k : Nat} {c c' : Ctx}
    (h : m.splitChildSlab child k c = .ok (m', c')) : m'.hdr.id = m.hdr.id := by
  unfold splitChildSlab at h
  simp only [bind, Except.bind, pure, Except.pure] at h
  split at h
  · cases h
  · cases h; rfl

theorem rebalanceChildren_id (T : Nat) (m : MetaSlab (ATree d)) (l r : ATree d) (li ri : Nat) (b : Bool) (c : Ctx) :
    (m.rebalanceChildren T l r li ri b c).1.hdr.id = m.hdr.id := rfl

theorem mergeChildren_id (m : MetaSlab (ATree d)) (l r : ATree d) (li ri : Nat) (c : Ctx) :
    (m.mergeChildren l r li ri c).1.hdr.id = m.hdr.id := rfl

theorem mergeOrRebalanceChildSlab_id {T : Nat} {m m' : MetaSlab (ATree d)} {child : ATree d} {k u : Nat} {c c' : Ctx}
    (h : m.mergeOrRebalanceChildSlab T child k u c = .ok (m', c')) : m'.hdr.id = m.hdr.id := by
  unfold mergeOrRebalanceChildSlab at h
  simp only at h
  repeat' split at h
  all_goals first
    | (cases h; done)
    | (cases h; rfl)

end MetaSlab

namespace ATree
open MetaSlab

theorem afterSet_id {T d : Nat} {m m' : MetaSlab (ATree d)} {child : ATree d} {k : Nat} {c c' : Ctx}
    (h : afterSet T m child k c = .ok (m', c')) : m'.hdr.id = m.hdr.id := by
  unfold afterSet at h
  split at h
  · exact splitChildSlab_id h
  · split at h
    · exact mergeOrRebalanceChildSlab_id h
    · cases h; rfl

theorem set_id {T : Nat} : ∀ {d : Nat} {t t' : ATree d} {i : Nat} {e old : Elem} {c c' : Ctx},
    set T d t i e c = .ok (old, t', c') → (hdr d t').id = (hdr d t).id
  | 0, t, t', i, e, old, c, c', h => by
    simp only [set, DataSlab.set] at h
    split at h
    · cases h
    · cases h; rfl
  | d + 1, t, t', i, e, old, c, c', h => by
    unfold ATree.set at h
    obtain ⟨⟨k, adj⟩, _, h⟩ := bind_ok h
    simp only at h
    split at h
    · cases h
    · obtain ⟨⟨old1, child', c1⟩, _, h⟩ := bind_ok h
      simp only at h
      obtain ⟨⟨m2, c2⟩, haf, h⟩ := bind_ok h
      simp only [pure, Except.pure] at h
      cases h
      have := afterSet_id haf
      exact this

theorem insert_id {T : Nat} : ∀ {d : Nat} {t t' : ATree d} {i : Nat} {e : Elem} {c c' : Ctx},
    insert T d t i e c = .ok (t', c') → (hdr d t').id = (hdr d t).id
  | 0, t, t', i, e, c, c', h => by
    simp only [insert, DataSlab.insert] at h
    split at h
    · cases h
    · cases h; rfl
  | d + 1, t, t', i, e, c, c', h => by
    unfold ATree.insert at h
    split at h
    · cases h
    · -- the join point of the `do` block
      have key : ∀ (x : Nat × Nat), (match x with
          | (k, adj) =>
            match t.children[k]? with
            | none => Except.error AErr.slabNotFound
            | some child => do
              let __x ← ATree.insert T d child adj e c
              match __x with
                | (child', c) =>
                  have m1 : MetaSlab (ATree d) :=
                    { hdr := { id := t.hdr.id, size := t.hdr.size, count := t.hdr.count + 1 },
                      childHdrs := t.childHdrs.set k (ATree.hdr d child'),
                      countSum := bumpFrom k (fun x => x + 1) t.countSum, children := t.children.set k child',
                      root := t.root };
                  if ATree.isFull T d child' = true then m1.splitChildSlab child' k c
                  else pure (m1, c.emit (Eff.store m1.hdr.id))) = Except.ok (t', c') →
          (hdr (d+1) t').id = (hdr (d+1) t).id := by
        rintro ⟨k, adj⟩ hk
        simp only at hk
        split at hk
        · cases hk
        · obtain ⟨⟨child', c1⟩, _, hk⟩ := bind_ok hk
          simp only at hk
          cases hf : ATree.isFull T d child'
          · simp only [hf] at hk
            cases hk; rfl
          · simp only [hf] at hk
            have := splitChildSlab_id hk
            exact this
      simp only at h
      split at h
      · split at h
        · obtain ⟨x, _, h⟩ := bind_ok h
          exact key x h
        · obtain ⟨x, hx, h⟩ := bind_ok h
          cases hx
      · obtain ⟨x, _, h⟩ := bind_ok h
        exact key x h

theorem remove_id {T : Nat} : ∀ {d : Nat} {t t' : ATree d} {i : Nat} {old : Elem} {c c' : Ctx},
    remove T d t i c = .ok (old, t', c') → (hdr d t').id = (hdr d t).id
  | 0, t, t', i, old, c, c', h => by
    simp only [remove, DataSlab.remove] at h
    split at h
    · cases h
    · cases h; rfl
  | d + 1, t, t', i, old, c, c', h => by
    unfold ATree.remove at h
    split at h
    · cases h
    · obtain ⟨⟨k, adj⟩, _, h⟩ := bind_ok h
      simp only at h
      split at h
      · cases h
      · obtain ⟨⟨v, child', c1⟩, _, h⟩ := bind_ok h
        simp only at h
        split at h
        · obtain ⟨⟨m2, c2⟩, hm, h⟩ := bind_ok h
          simp only [pure, Except.pure] at h
          cases h
          have := mergeOrRebalanceChildSlab_id hm
          exact this
        · obtain ⟨⟨m2, c2⟩, hm, h⟩ := bind_ok h
          simp only [pure, Except.pure] at h hm
          cases h; cases hm; rfl

end ATree

namespace Arr
open ATree

theorem splitRoot_rootID {a a' : Arr} {c c' : Ctx} (h : a.splitRoot c = .ok (a', c')) : a'.rootID = a.rootID := by
  unfold splitRoot at h
  simp only [bind, Except.bind, pure, Except.pure] at h
  split at h
  · cases h
  · cases h
    obtain ⟨d, root, ty⟩ := a
    cases d <;> rfl

theorem promoteIfSingleChild_rootID (a : Arr) (c : Ctx) : (a.promoteIfSingleChild c).1.rootID = a.rootID := by
  obtain ⟨d, root, ty⟩ := a
  cases d with
  | zero => rfl
  | succ d =>
    unfold promoteIfSingleChild
    simp only
    split
    · simp only [rootID, rootHdr, hdr_setRoot, hdr_setId_id]; rfl
    · rfl

theorem set_rootID {T : Nat} {a a' : Arr} {i : Nat} {e old : Elem} {c c' : Ctx}
    (h : a.set T i e c = .ok (old, a', c')) : a'.rootID = a.rootID := by
  unfold Arr.set at h
  obtain ⟨⟨old1, root', c1⟩, hs, h⟩ := bind_ok h
  have hid := set_id hs
  simp only at h
  split at h
  · obtain ⟨⟨a2, c2⟩, h2, h⟩ := bind_ok h
    simp only [pure, Except.pure] at h
    cases h
    rw [promoteIfSingleChild_rootID, splitRoot_rootID h2]; exact hid
  · obtain ⟨⟨a2, c2⟩, h2, h⟩ := bind_ok h
    simp only [pure, Except.pure] at h h2
    cases h; cases h2
    rw [promoteIfSingleChild_rootID]; exact hid

theorem insert_rootID {T : Nat} {a a' : Arr} {i : Nat} {e : Elem} {c c' : Ctx}
    (h : a.insert T i e c = .ok (a', c')) : a'.rootID = a.rootID := by
  unfold Arr.insert at h
  split at h
  · cases h
  · obtain ⟨⟨root', c1⟩, hs, h⟩ := bind_ok h
    have hid := insert_id hs
    simp only at h
    split at h
    · rw [splitRoot_rootID h]; exact hid
    · cases h; exact hid

theorem remove_rootID {T : Nat} {a a' : Arr} {i : Nat} {old : Elem} {c c' : Ctx}
    (h : a.remove T i c = .ok (old, a', c')) : a'.rootID = a.rootID := by
  unfold Arr.remove at h
  obtain ⟨⟨old1, root', c1⟩, hs, h⟩ := bind_ok h
  have hid := remove_id hs
  simp only [pure, Except.pure] at h
  cases h
  rw [promoteIfSingleChild_rootID]; exact hid

end Arr

/-! ### maps -/

namespace MTree
variable {r : Nat}

theorem hdr_setRoot (d : Nat) (t : MTree r d) (b : Bool) : hdr d (setRoot d t b) = hdr d t := by
  cases d <;> rfl

theorem hdr_setId_id (d : Nat) (t : MTree r d) (id : SlabID) : (hdr d (setId d t id)).id = id := by
  cases d <;> rfl

end MTree

namespace MMetaSlab
open MTree
variable {r d : Nat}

theorem splitChildSlab_id {m m' : MMetaSlab (MTree r d)} {child : MTree r d} {k : Nat} {c c' : Ctx}
    (h : m.splitChildSlab child k c = .ok (m', c')) : m'.hdr.id = m.hdr.id := by
  unfold splitChildSlab at h
  obtain ⟨⟨l, rr, c1⟩, _, h⟩ := bind_ok h
  simp only [pure, Except.pure] at h
  cases h; rfl

theorem rebalanceChildren_id {T : Nat} {m m' : MMetaSlab (MTree r d)} {l x : MTree r d} {li ri : Nat} {b : Bool} {c c' : Ctx}
    (h : m.rebalanceChildren T l x li ri b c = .ok (m', c')) : m'.hdr.id = m.hdr.id := by
  unfold rebalanceChildren at h
  simp only at h
  split at h
  all_goals
    obtain ⟨⟨l', r'⟩, _, h⟩ := bind_ok h
    simp only [pure, Except.pure] at h
    cases h; rfl

theorem mergeChildren_id (m : MMetaSlab (MTree r d)) (l x : MTree r d) (li ri : Nat) (c : Ctx) :
    (m.mergeChildren l x li ri c).1.hdr.id = m.hdr.id := by
  simp only [mergeChildren]

theorem mergeOrRebalance_aux {T : Nat} {m m' : MMetaSlab (MTree r d)} {child : MTree r d} {k : Nat} {c c' : Ctx}
    (leftSib rightSib : Option (MTree r d)) (lcl rcl : Bool)
    (h : (if (lcl || rcl) = true then
        match leftSib, rightSib with
        | some l, some x =>
          if (!lcl) = true then rebalanceChildren T m child x k (k + 1) true c
          else if (!rcl) = true then rebalanceChildren T m l child (k - 1) k false c
          else if (MTree.hdr d l).size > (MTree.hdr d x).size then rebalanceChildren T m l child (k - 1) k false c
          else rebalanceChildren T m child x k (k + 1) true c
        | some l, none => rebalanceChildren T m l child (k - 1) k false c
        | none, some x => rebalanceChildren T m child x k (k + 1) true c
        | none, none => .error .goPanic
      else
        match leftSib, rightSib with
        | none, some x => .ok (mergeChildren m child x k (k + 1) c)
        | some l, none => .ok (mergeChildren m l child (k - 1) k c)
        | some l, some x =>
          if (MTree.hdr d l).size < (MTree.hdr d x).size then .ok (mergeChildren m l child (k - 1) k c)
          else .ok (mergeChildren m child x k (k + 1) c)
        | none, none => .error .goPanic) = Except.ok (m', c')) : m'.hdr.id = m.hdr.id := by
  split at h
  · cases leftSib <;> cases rightSib <;> simp only at h
    · cases h
    · exact rebalanceChildren_id h
    · exact rebalanceChildren_id h
    · repeat' split at h
      all_goals exact rebalanceChildren_id h
  · cases leftSib <;> cases rightSib <;> simp only at h
    · cases h
    · cases h; exact mergeChildren_id _ _ _ _ _ c
    · cases h; exact mergeChildren_id _ _ _ _ _ c
    · split at h <;> (cases h; exact mergeChildren_id _ _ _ _ _ c)

theorem mergeOrRebalanceChildSlab_id {T : Nat} {m m' : MMetaSlab (MTree r d)} {child : MTree r d} {k u : Nat} {c c' : Ctx}
    (h : m.mergeOrRebalanceChildSlab T child k u c = .ok (m', c')) : m'.hdr.id = m.hdr.id := by
  unfold mergeOrRebalanceChildSlab at h
  exact mergeOrRebalance_aux _ _ _ _ h

theorem afterChild_id {T : Nat} {m m' : MMetaSlab (MTree r d)} {child : MTree r d} {k : Nat} {c c' : Ctx}
    (h : m.afterChild T child k c = .ok (m', c')) : m'.hdr.id = m.hdr.id := by
  unfold afterChild at h
  simp only at h
  split at h
  · have := splitChildSlab_id h; exact this
  · split at h
    · have := mergeOrRebalanceChildSlab_id h; exact this
    · cases h; rfl

end MMetaSlab

namespace MTree
open MMetaSlab
variable {r : Nat}

theorem set_id {cfg : MCfg} : ∀ {d : Nat} {t t' : MTree r d} {k ks : MKey} {v : Elem} {old : Option Elem} {c c' : Ctx},
    set cfg d t k v c = .ok (ks, old, t', c') → (hdr d t').id = (hdr d t).id
  | 0, t, t', k, ks, v, old, c, c', h => by
    unfold MTree.set MDataSlab.set at h
    obtain ⟨⟨ks1, old1, elems, c1⟩, _, h⟩ := bind_ok h
    simp only [pure, Except.pure] at h
    cases h; rfl
  | d + 1, t, t', k, ks, v, old, c, c', h => by
    unfold MTree.set at h
    simp only [bind_pure_comp] at h
    split at h
    · cases h
    · obtain ⟨⟨ks1, old1, child', c1⟩, _, h⟩ := bind_ok h
      simp only at h
      obtain ⟨⟨m2, c2⟩, haf, h⟩ := bind_ok h
      simp only at h
      cases h
      have := afterChild_id haf
      exact this

theorem remove_id {cfg : MCfg} : ∀ {d : Nat} {t t' : MTree r d} {k rk : MKey} {rv : Elem} {c c' : Ctx},
    remove cfg d t k c = .ok (rk, rv, t', c') → (hdr d t').id = (hdr d t).id
  | 0, t, t', k, rk, rv, c, c', h => by
    unfold MTree.remove MDataSlab.remove at h
    obtain ⟨⟨rk1, rv1, elems, c1⟩, _, h⟩ := bind_ok h
    simp only [pure, Except.pure] at h
    cases h; rfl
  | d + 1, t, t', k, rk, rv, c, c', h => by
    unfold MTree.remove at h
    simp only [bind_pure_comp] at h
    split at h
    · cases h
    · split at h
      · cases h
      · obtain ⟨⟨rk1, rv1, child', c1⟩, _, h⟩ := bind_ok h
        simp only at h
        obtain ⟨⟨m2, c2⟩, haf, h⟩ := bind_ok h
        simp only at h
        cases h
        have := afterChild_id haf
        exact this

end MTree

namespace OMap
open MTree
variable {r : Nat}

theorem splitRoot_rootID {m m' : OMap r} {c c' : Ctx} (h : m.splitRoot c = .ok (m', c')) : m'.rootID = m.rootID := by
  unfold splitRoot at h
  simp only at h
  obtain ⟨⟨l, rr, c1⟩, _, h⟩ := bind_ok h
  simp only [pure, Except.pure] at h
  cases h
  obtain ⟨d, root, ty, cnt, seed⟩ := m
  cases d <;> rfl

theorem promoteIfSingleChild_rootID (m : OMap r) (c : Ctx) : (m.promoteIfSingleChild c).1.rootID = m.rootID := by
  obtain ⟨d, root, ty, cnt, seed⟩ := m
  cases d with
  | zero => rfl
  | succ d =>
    unfold promoteIfSingleChild
    simp only
    split
    · simp only [rootID, rootHdr, hdr_setRoot, hdr_setId_id]; rfl
    · rfl

theorem splitRootIfFull_rootID {T : Nat} {m m' : OMap r} {c c' : Ctx}
    (h : m.splitRootIfFull T c = .ok (m', c')) : m'.rootID = m.rootID := by
  unfold splitRootIfFull at h
  split at h
  · exact splitRoot_rootID h
  · cases h; rfl

theorem set_rootID {cfg : MCfg} {m m' : OMap r} {k : MKey} {v : Elem} {old : Option Elem} {c c' : Ctx}
    (h : m.set cfg k v c = .ok (old, m', c')) : m'.rootID = m.rootID := by
  unfold OMap.set at h
  obtain ⟨⟨ks, old1, root', c1⟩, hs, h⟩ := bind_ok h
  have hid := set_id hs
  simp only at h
  obtain ⟨⟨m3, c3⟩, h3, h⟩ := bind_ok h
  simp only [pure, Except.pure] at h
  cases h
  rw [splitRootIfFull_rootID h3, promoteIfSingleChild_rootID]; exact hid

theorem remove_rootID {cfg : MCfg} {m m' : OMap r} {k rk : MKey} {rv : Elem} {c c' : Ctx}
    (h : m.remove cfg k c = .ok (rk, rv, m', c')) : m'.rootID = m.rootID := by
  unfold OMap.remove at h
  obtain ⟨⟨rk1, rv1, root', c1⟩, hs, h⟩ := bind_ok h
  have hid := remove_id hs
  simp only at h
  obtain ⟨⟨m3, c3⟩, h3, h⟩ := bind_ok h
  simp only [pure, Except.pure] at h
  cases h
  rw [splitRootIfFull_rootID h3, promoteIfSingleChild_rootID]; exact hid

end OMap

theorem rootStable (T : Nat) (cfg : MCfg) : RootStable T cfg :=
  ⟨fun _ _ _ _ _ _ _ h => Arr.set_rootID h, fun _ _ _ _ _ _ _ h => OMap.set_rootID h⟩
theorem mapRemoveRootStable (cfg : MCfg) : MapRemoveRootStable cfg := fun _ _ _ _ _ _ _ h => OMap.remove_rootID h
theorem insertRootStable (T : Nat) : InsertRootStable T := fun _ _ _ _ _ _ h => Arr.insert_rootID h
theorem removeRootStable (T : Nat) : RemoveRootStable T := fun _ _ _ _ _ _ h => Arr.remove_rootID h

end Atree
