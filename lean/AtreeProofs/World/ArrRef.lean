import AtreeProofs.WorldOk
import AtreeProofs.World.ArrRefCore
/-
  Container-level facts about arrays in EITHER form (standalone under `ArrInv`, inlined single-slab
  root under `ArrInvInl`) holding arbitrary elements within the inline limit (references included):
  `get` reads the list, `set` / `insert` / `remove` refine `List.set` / `insertIdx` / `eraseIdx`,
  keep the form, the root ID, the type and the invariant.

  INLINED ROOTS CAN SPLIT IN THE MODEL (as in the Go code it transcribes): `Arr.insert` / `Arr.set`
  test `isFull` (size > maxThr T) whatever the form of the root, and `splitRoot` would turn an
  inlined root into a two-level tree (`inlined_root_splits` below exhibits it).  It does not happen
  when the root has room (`hroom`): its size plus one element within the inline limit stays within
  `maxThr T` — which the inline budget of the parent slot guarantees before the operation.
-/
namespace Atree
open Gen ATree MetaSlab

variable {T : Nat}

/-- an array in either form -/
def ArrOk (T : Nat) (a : Arr) (ctr : Nat) : Prop :=
  (a.isInlined = false → ArrInv T a ctr) ∧ (a.isInlined = true → ArrInvInl T a ctr)

theorem contOk_arr (T : Nat) (D : DigestFn 4) (ctr : Nat) (a : Arr) :
    ContOk T D ctr (.arr a) ↔ ArrOk T a ctr := Iff.rfl

/-! ### standalone arrays: consequences of `ArrInv` -/

theorem shape_elems_ok : ∀ (d : Nat) (top : Bool) (t : ATree d), Shape T d top t →
    ∀ e ∈ flatten d t, ElemOk T e
  | 0, top, t => by
    refine forall_ofData ?_ t; intro s hs e he
    exact ((shape_zero T top s).1 hs).elems_ok e he
  | d + 1, top, t => by
    refine forall_ofMeta ?_ t; intro m hs e he
    have hs := (shape_succ T d top m).1 hs
    simp only [flatten_succ, List.mem_flatMap] at he
    obtain ⟨c, hc, hec⟩ := he
    exact shape_elems_ok d false c (hs.kids_inv c hc).shape_false e hec

theorem ArrInv.elems_ok {a : Arr} {ctr : Nat} (h : ArrInv T a ctr) : ∀ e ∈ a.toList, ElemOk T e := by
  obtain ⟨d, t, ty⟩ := a
  exact shape_elems_ok d true t h.shape

theorem ArrInv.mono {a : Arr} {ctr ctr' : Nat} (h : ArrInv T a ctr) (hc : ctr ≤ ctr') : ArrInv T a ctr' :=
  ⟨h.tree, h.chain, h.ids.mono hc, h.standalone, h.count_lt⟩

theorem ArrInv.rootID_ok {a : Arr} {ctr : Nat} (h : ArrInv T a ctr) :
    1 ≤ a.rootID.idx ∧ a.rootID.idx ≤ ctr := by
  obtain ⟨d, t, ty⟩ := a
  have := h.ids.2 _ (hdr_id_mem_slabIds d t)
  exact this.2

theorem ArrInvInl.mono {a : Arr} {ctr ctr' : Nat} (h : ArrInvInl T a ctr) (hc : ctr ≤ ctr') :
    ArrInvInl T a ctr' := by
  obtain ⟨s, ty, rfl, h1, h2, h3, h4, h5, h6, h7, h8, h9⟩ := h
  exact ⟨s, ty, rfl, h1, h2, h3, h4, h5, h6, h7, Nat.le_trans h8 hc, h9⟩

theorem ArrInvInl.isInlined {a : Arr} {ctr : Nat} (h : ArrInvInl T a ctr) : a.isInlined = true := by
  obtain ⟨s, ty, rfl, _, h2, _⟩ := h
  exact h2

theorem ArrOk.mono {a : Arr} {ctr ctr' : Nat} (h : ArrOk T a ctr) (hc : ctr ≤ ctr') : ArrOk T a ctr' :=
  ⟨fun hi => (h.1 hi).mono hc, fun hi => (h.2 hi).mono hc⟩

theorem ArrOk.of_inv {a : Arr} {ctr : Nat} (h : ArrInv T a ctr) : ArrOk T a ctr :=
  ⟨fun _ => h, fun hi => by rw [h.standalone] at hi; cases hi⟩

theorem ArrOk.of_inl {a : Arr} {ctr : Nat} (h : ArrInvInl T a ctr) : ArrOk T a ctr :=
  ⟨fun hi => (by rw [h.isInlined] at hi; cases hi), fun _ => h⟩

theorem ArrOk.elems_ok {a : Arr} {ctr : Nat} (h : ArrOk T a ctr) : ∀ e ∈ a.toList, ElemOk T e := by
  cases hi : a.isInlined
  · exact (h.1 hi).elems_ok
  · obtain ⟨s, ty, rfl, _, _, _, _, _, h6, _⟩ := h.2 hi
    exact h6

theorem ArrOk.count_eq {a : Arr} {ctr : Nat} (h : ArrOk T a ctr) : a.count = a.toList.length := by
  cases hi : a.isInlined
  · obtain ⟨d, t, ty⟩ := a
    exact (h.1 hi).shape.count_eq_length
  · obtain ⟨s, ty, rfl, _, _, _, h4, _⟩ := h.2 hi
    exact h4

theorem ArrOk.rootID_ok {a : Arr} {ctr : Nat} (h : ArrOk T a ctr) :
    1 ≤ a.rootID.idx ∧ a.rootID.idx ≤ ctr := by
  cases hi : a.isInlined
  · exact (h.1 hi).rootID_ok
  · obtain ⟨s, ty, rfl, _, _, _, _, _, _, h7, h8, _⟩ := h.2 hi
    exact ⟨h7, h8⟩

/-- `Arr.get` reads the list (either form) -/
theorem ArrOk.get_spec (hT : legalThreshold T = true) {a : Arr} {ctr : Nat} (h : ArrOk T a ctr) (i : Nat) :
    (i < a.toList.length → a.get i = .ok (a.toList.getD i default)) ∧
    (a.toList.length ≤ i → a.get i = .error .indexOutOfBounds) := by
  cases hi : a.isInlined
  · obtain ⟨d, t, ty⟩ := a
    exact get_gen hT d t true i (h.1 hi).shape
  · obtain ⟨s, ty, rfl, _⟩ := h.2 hi
    exact DataSlab.get_spec s i

theorem ArrOk.get_ok (hT : legalThreshold T = true) {a : Arr} {ctr : Nat} (h : ArrOk T a ctr) {i : Nat}
    {el : Elem} (hg : a.get i = .ok el) : a.toList[i]? = some el := by
  obtain ⟨g1, g2⟩ := h.get_spec hT i
  rcases Nat.lt_or_ge i a.toList.length with hi | hi
  · rw [g1 hi] at hg
    cases hg
    rw [List.getD_eq_getElem?_getD, List.getElem?_eq_getElem hi]; rfl
  · rw [g2 hi] at hg; cases hg

theorem ArrOk.get_of_getElem? (hT : legalThreshold T = true) {a : Arr} {ctr : Nat} (h : ArrOk T a ctr)
    {i : Nat} {el : Elem} (hg : a.toList[i]? = some el) : a.get i = .ok el := by
  obtain ⟨hi, he⟩ := List.getElem?_eq_some_iff.mp hg
  rw [(h.get_spec hT i).1 hi, List.getD_eq_getElem?_getD, hg]; rfl

/-! ### inlined roots: the three operations on a single inlined data slab -/

theorem getD_getElem? {α : Type} (l : List α) (i : Nat) (d : α) (h : i < l.length) :
    l[i]? = some (l.getD i d) := by
  rw [List.getD_eq_getElem?_getD, List.getElem?_eq_getElem h]; rfl

/-- the slab `DataSlab.set` builds -/
def inlSetSlab (s : DataSlab) (i : Nat) (e : Elem) : DataSlab :=
  { s with elems := s.elems.set i e, hdr := { s.hdr with size := s.prefixSize + sumSizes (s.elems.set i e) } }
/-- the slab `DataSlab.insert` builds -/
def inlInsSlab (s : DataSlab) (i : Nat) (e : Elem) : DataSlab :=
  { s with elems := s.elems.insertIdx i e, hdr := { s.hdr with count := s.hdr.count + 1, size := s.hdr.size + e.size } }
/-- the slab `DataSlab.remove` builds -/
def inlRemSlab (s : DataSlab) (i : Nat) (v : Elem) : DataSlab :=
  { s with elems := s.elems.eraseIdx i, hdr := { s.hdr with count := s.hdr.count - 1, size := s.hdr.size - v.size } }

/-- `Arr.set` on an inlined root with room -/
theorem arrInl_set (hT : legalThreshold T = true) {a : Arr} {c : Ctx} (h : ArrInvInl T a c.ctr)
    {i : Nat} {v : Elem} (hv : StorOk T v) (hroom : a.rootHdr.size + maxInlineArr T ≤ maxThr T)
    (hi : i < a.toList.length) :
    ∃ a' c', a.set T i v c = .ok (a.toList.getD i default, a', c') ∧ ArrInvInl T a' c'.ctr ∧
      a'.toList = a.toList.set i (toStorable T a.addr v c).1 ∧ a'.rootID = a.rootID ∧ a'.ty = a.ty ∧
      c.ctr ≤ c'.ctr ∧
      a'.rootHdr.size + (a.toList.getD i default).size = a.rootHdr.size + (toStorable T a.addr v c).1.size := by
  obtain ⟨s, ty, rfl, h1, h2, h3, h4, h5, h6, h7, h8, h9⟩ := h
  have hi : i < s.elems.length := hi
  have hget : s.elems[i]? = some (s.elems.getD i default) := getD_getElem? _ _ _ hi
  have hnew := toStorable_okR T s.hdr.id.addr hT v c hv
  have hctr := toStorable_ctr_le T s.hdr.id.addr v c
  have hroom : s.hdr.size + maxInlineArr T ≤ maxThr T := hroom
  show ∃ a' c', Arr.set T ⟨0, s, ty⟩ i v c = .ok (s.elems.getD i default, a', c') ∧ ArrInvInl T a' c'.ctr ∧
      a'.toList = s.elems.set i (toStorable T s.hdr.id.addr v c).1 ∧ a'.rootID = s.hdr.id ∧ a'.ty = ty ∧
      c.ctr ≤ c'.ctr ∧
      a'.rootHdr.size + (s.elems.getD i default).size = s.hdr.size + (toStorable T s.hdr.id.addr v c).1.size
  obtain ⟨e, c1, hp⟩ : ∃ e c1, toStorable T s.hdr.id.addr v c = (e, c1) := ⟨_, _, rfl⟩
  rw [hp] at hnew hctr ⊢
  simp only at hnew hctr ⊢
  have hsum := sumSizes_set s.elems i e _ hget
  have hpfx : s.prefixSize = inlinedArrayDataSlabPrefixSize := by simp [DataSlab.prefixSize, h2]
  have hsz : (inlSetSlab s i e).hdr.size + (s.elems.getD i default).size = s.hdr.size + e.size := by
    show s.prefixSize + sumSizes _ + _ = _
    rw [hpfx, h5]; omega
  have hnotfull : ¬ ATree.isFull T 0 (ofData (inlSetSlab s i e)) = true := by
    show ¬ decide ((inlSetSlab s i e).hdr.size > maxThr T) = true
    have := hnew.2
    simp only [decide_eq_true_eq]; omega
  have hst : (inlSetSlab s i e).storeIfNotInlined c1 = c1 := by
    simp [DataSlab.storeIfNotInlined, inlSetSlab, h2]
  refine ⟨⟨0, inlSetSlab s i e, ty⟩, c1, ?_, ?_, rfl, rfl, rfl, hctr, hsz⟩
  · have hset : ATree.set T 0 (ofData s) i v c = .ok (s.elems.getD i default, ofData (inlSetSlab s i e), c1) := by
      apply set_zero_ok
      unfold DataSlab.set
      rw [hget]
      simp only [hp]
      show Except.ok (_, inlSetSlab s i e, (inlSetSlab s i e).storeIfNotInlined c1) = _
      rw [hst]
    unfold Arr.set
    show (ATree.set T 0 (ofData s) i v c >>= _) = _
    rw [hset]
    show (if ATree.isFull T 0 (ofData (inlSetSlab s i e)) = true then _ else _) = _
    rw [if_neg hnotfull]; rfl
  · refine ⟨inlSetSlab s i e, ty, rfl, h1, h2, h3, ?_, ?_, ?_, h7, Nat.le_trans h8 hctr, h9⟩
    · show s.hdr.count = (s.elems.set i _).length
      simp [h4]
    · show s.prefixSize + sumSizes _ = _
      rw [hpfx]; rfl
    · intro x hx
      rcases List.mem_or_eq_of_mem_set hx with h | h
      · exact h6 x h
      · rw [h]; exact hnew

/-- `Arr.insert` on an inlined root with room -/
theorem arrInl_insert (hT : legalThreshold T = true) {a : Arr} {c : Ctx} (h : ArrInvInl T a c.ctr)
    {i : Nat} {v : Elem} (hv : StorOk T v) (hroom : a.rootHdr.size + maxInlineArr T ≤ maxThr T)
    (hcount : a.count < maxArrayElementCount) (hi : i ≤ a.toList.length) :
    ∃ a' c', a.insert T i v c = .ok (a', c') ∧ ArrInvInl T a' c'.ctr ∧
      a'.toList = a.toList.insertIdx i (toStorable T a.addr v c).1 ∧ a'.rootID = a.rootID ∧ a'.ty = a.ty ∧
      c.ctr ≤ c'.ctr ∧
      a'.rootHdr.size = a.rootHdr.size + (toStorable T a.addr v c).1.size := by
  obtain ⟨s, ty, rfl, h1, h2, h3, h4, h5, h6, h7, h8, h9⟩ := h
  have hi : i ≤ s.elems.length := hi
  have hnew := toStorable_okR T s.hdr.id.addr hT v c hv
  have hctr := toStorable_ctr_le T s.hdr.id.addr v c
  have hroom : s.hdr.size + maxInlineArr T ≤ maxThr T := hroom
  have hcount : s.hdr.count < maxArrayElementCount := hcount
  show ∃ a' c', Arr.insert T ⟨0, s, ty⟩ i v c = .ok (a', c') ∧ ArrInvInl T a' c'.ctr ∧
      a'.toList = s.elems.insertIdx i (toStorable T s.hdr.id.addr v c).1 ∧ a'.rootID = s.hdr.id ∧ a'.ty = ty ∧
      c.ctr ≤ c'.ctr ∧ a'.rootHdr.size = s.hdr.size + (toStorable T s.hdr.id.addr v c).1.size
  obtain ⟨e, c1, hp⟩ : ∃ e c1, toStorable T s.hdr.id.addr v c = (e, c1) := ⟨_, _, rfl⟩
  rw [hp] at hnew hctr ⊢
  simp only at hnew hctr ⊢
  have hsum := sumSizes_insertIdx s.elems i e hi
  have hnotfull : ¬ ATree.isFull T 0 (ofData (inlInsSlab s i e)) = true := by
    show ¬ decide ((inlInsSlab s i e).hdr.size > maxThr T) = true
    have := hnew.2
    have : (inlInsSlab s i e).hdr.size = s.hdr.size + e.size := rfl
    simp only [decide_eq_true_eq]; omega
  have hst : (inlInsSlab s i e).storeIfNotInlined c1 = c1 := by
    simp [DataSlab.storeIfNotInlined, inlInsSlab, h2]
  refine ⟨⟨0, inlInsSlab s i e, ty⟩, c1, ?_, ?_, rfl, rfl, rfl, hctr, rfl⟩
  · have hins : ATree.insert T 0 (ofData s) i v c = .ok (ofData (inlInsSlab s i e), c1) := by
      apply insert_zero_ok
      unfold DataSlab.insert
      rw [if_neg (by omega)]
      simp only [hp]
      show Except.ok (inlInsSlab s i e, (inlInsSlab s i e).storeIfNotInlined c1) = _
      rw [hst]
    unfold Arr.insert
    show (if s.hdr.count = maxArrayElementCount then _ else _) = _
    rw [if_neg (by omega)]
    show (ATree.insert T 0 (ofData s) i v c >>= _) = _
    rw [hins]
    show (if ATree.isFull T 0 (ofData (inlInsSlab s i e)) = true then _ else _) = _
    rw [if_neg hnotfull]; rfl
  · refine ⟨inlInsSlab s i e, ty, rfl, h1, h2, h3, ?_, ?_, ?_, h7, Nat.le_trans h8 hctr, ?_⟩
    · show s.hdr.count + 1 = (s.elems.insertIdx i _).length
      rw [List.length_insertIdx, if_pos hi, h4]
    · show s.hdr.size + _ = _ + sumSizes (s.elems.insertIdx i _)
      rw [hsum, h5]; omega
    · intro x hx
      rcases (List.mem_insertIdx hi).1 hx with h | h
      · rw [h]; exact hnew
      · exact h6 x h
    · show s.hdr.count + 1 < _
      omega

/-- `Arr.remove` on an inlined root -/
theorem arrInl_remove {a : Arr} {c : Ctx} (h : ArrInvInl T a c.ctr) {i : Nat} (hi : i < a.toList.length) :
    ∃ a' c', a.remove T i c = .ok (a.toList.getD i default, a', c') ∧ ArrInvInl T a' c'.ctr ∧
      a'.toList = a.toList.eraseIdx i ∧ a'.rootID = a.rootID ∧ a'.ty = a.ty ∧ c.ctr ≤ c'.ctr ∧
      a'.rootHdr.size + (a.toList.getD i default).size = a.rootHdr.size := by
  obtain ⟨s, ty, rfl, h1, h2, h3, h4, h5, h6, h7, h8, h9⟩ := h
  have hi : i < s.elems.length := hi
  have hget : s.elems[i]? = some (s.elems.getD i default) := getD_getElem? _ _ _ hi
  have hsum := sumSizes_eraseIdx s.elems i _ hget
  have hst : (inlRemSlab s i (s.elems.getD i default)).storeIfNotInlined c = c := by
    simp [DataSlab.storeIfNotInlined, inlRemSlab, h2]
  refine ⟨⟨0, inlRemSlab s i (s.elems.getD i default), ty⟩, c, ?_, ?_, rfl, rfl, rfl, Nat.le_refl _, ?_⟩
  · have hrem : ATree.remove T 0 (ofData s) i c
        = .ok (s.elems.getD i default, ofData (inlRemSlab s i (s.elems.getD i default)), c) := by
      apply remove_zero_ok
      unfold DataSlab.remove
      rw [hget]
      simp only
      show Except.ok (_, inlRemSlab s i (s.elems.getD i default),
        (inlRemSlab s i (s.elems.getD i default)).storeIfNotInlined c) = _
      rw [hst]
    unfold Arr.remove
    show (ATree.remove T 0 (ofData s) i c >>= _) = _
    rw [hrem]
    rfl
  · refine ⟨_, ty, rfl, h1, h2, h3, ?_, ?_, ?_, h7, h8, ?_⟩
    · show s.hdr.count - 1 = (s.elems.eraseIdx i).length
      rw [List.length_eraseIdx, if_pos hi, h4]
    · show s.hdr.size - _ = _ + sumSizes (s.elems.eraseIdx i)
      rw [h5]; omega
    · intro x hx
      exact h6 x (List.mem_of_mem_eraseIdx hx)
    · show s.hdr.count - 1 < _
      omega
  · show s.hdr.size - (s.elems.getD i default).size + (s.elems.getD i default).size = s.hdr.size
    rw [h5]; omega

/-! ### either form: what a SUCCESSFUL operation did -/

/-- result of a successful `Arr.set` -/
theorem ArrOk.set_ok (hT : legalThreshold T = true) {a : Arr} {c : Ctx} (h : ArrOk T a c.ctr)
    {i : Nat} {v : Elem} (hv : StorOk T v)
    (hroom : a.isInlined = true → a.rootHdr.size + maxInlineArr T ≤ maxThr T)
    {old : Elem} {a' : Arr} {c' : Ctx} (hr : a.set T i v c = .ok (old, a', c')) :
    a.toList[i]? = some old ∧ a'.toList = a.toList.set i (toStorable T a.addr v c).1 ∧
      ArrOk T a' c'.ctr ∧ a'.isInlined = a.isInlined ∧ a'.rootID = a.rootID ∧ a'.ty = a.ty ∧
      c.ctr ≤ c'.ctr ∧
      (a.isInlined = true → a'.rootHdr.size + old.size = a.rootHdr.size + (toStorable T a.addr v c).1.size) := by
  cases hinl : a.isInlined
  · have hinv := h.1 hinl
    rcases Nat.lt_or_ge i a.toList.length with hi | hi
    · obtain ⟨a2, c2, heq, hinv2, hl, hid, hty, hc⟩ := arr_set_okR hT a c i v hv hinv hi
      rw [heq] at hr; cases hr
      exact ⟨getD_getElem? _ _ _ hi, hl, ArrOk.of_inv hinv2, hinv2.standalone, hid, hty, hc,
        fun h => by cases h⟩
    · rw [arr_set_err a c i v hinv hi] at hr; cases hr
  · have hinv := h.2 hinl
    rcases Nat.lt_or_ge i a.toList.length with hi | hi
    · obtain ⟨a2, c2, heq, hinv2, hl, hid, hty, hc, hsz⟩ := arrInl_set hT hinv hv (hroom hinl) hi
      rw [heq] at hr; cases hr
      exact ⟨getD_getElem? _ _ _ hi, hl, ArrOk.of_inl hinv2, hinv2.isInlined, hid, hty, hc, fun _ => hsz⟩
    · exfalso
      obtain ⟨s, ty, rfl, _⟩ := hinv
      have : Arr.set T ⟨0, s, ty⟩ i v c = .error .indexOutOfBounds := by
        unfold Arr.set
        show (ATree.set T 0 (ofData s) i v c >>= _) = _
        rw [set_zero_err s i v c _ (DataSlab.set_err T s i v c hi)]; rfl
      rw [this] at hr; cases hr

/-- result of a successful `Arr.insert` -/
theorem ArrOk.insert_ok (hT : legalThreshold T = true) {a : Arr} {c : Ctx} (h : ArrOk T a c.ctr)
    {i : Nat} {v : Elem} (hv : StorOk T v)
    (hroom : a.isInlined = true → a.rootHdr.size + maxInlineArr T ≤ maxThr T)
    {a' : Arr} {c' : Ctx} (hr : a.insert T i v c = .ok (a', c')) :
    i ≤ a.toList.length ∧ a'.toList = a.toList.insertIdx i (toStorable T a.addr v c).1 ∧
      ArrOk T a' c'.ctr ∧ a'.isInlined = a.isInlined ∧ a'.rootID = a.rootID ∧ a'.ty = a.ty ∧
      c.ctr ≤ c'.ctr ∧
      (a.isInlined = true → a'.rootHdr.size = a.rootHdr.size + (toStorable T a.addr v c).1.size) := by
  have hne : a.count ≠ maxArrayElementCount := by
    intro heq
    unfold Arr.insert at hr
    rw [if_pos heq] at hr
    cases hr
  cases hinl : a.isInlined
  · have hinv := h.1 hinl
    have hlt : a.count < maxArrayElementCount := by have := hinv.count_lt; omega
    rcases Nat.lt_or_ge a.toList.length i with hi | hi
    · rw [arr_insert_err a c i v hinv hne hi] at hr; cases hr
    · obtain ⟨a2, c2, heq, hinv2, hl, hid, hty, hc⟩ := arr_insert_okR hT a c i v hv hinv hlt hi
      rw [heq] at hr; cases hr
      exact ⟨hi, hl, ArrOk.of_inv hinv2, hinv2.standalone, hid, hty, hc, fun h => by cases h⟩
  · have hinv := h.2 hinl
    have hlt : a.count < maxArrayElementCount := by
      obtain ⟨s, ty, rfl, _, _, _, _, _, _, _, _, h9⟩ := hinv
      have : s.hdr.count ≠ maxArrayElementCount := hne
      show s.hdr.count < _
      omega
    rcases Nat.lt_or_ge a.toList.length i with hi | hi
    · exfalso
      obtain ⟨s, ty, rfl, _⟩ := hinv
      have : Arr.insert T ⟨0, s, ty⟩ i v c = .error .indexOutOfBounds := by
        unfold Arr.insert
        have hne' : ¬ s.hdr.count = maxArrayElementCount := hne
        show (if s.hdr.count = maxArrayElementCount then _ else _) = _
        rw [if_neg hne']
        show (ATree.insert T 0 (ofData s) i v c >>= _) = _
        rw [insert_zero_err s i v c _ (DataSlab.insert_err T s i v c hi)]; rfl
      rw [this] at hr; cases hr
    · obtain ⟨a2, c2, heq, hinv2, hl, hid, hty, hc, hsz⟩ := arrInl_insert hT hinv hv (hroom hinl) hlt hi
      rw [heq] at hr; cases hr
      exact ⟨hi, hl, ArrOk.of_inl hinv2, hinv2.isInlined, hid, hty, hc, fun _ => hsz⟩

/-- result of a successful `Arr.remove` -/
theorem ArrOk.remove_ok (hT : legalThreshold T = true) {a : Arr} {c : Ctx} (h : ArrOk T a c.ctr)
    {i : Nat} {old : Elem} {a' : Arr} {c' : Ctx} (hr : a.remove T i c = .ok (old, a', c')) :
    a.toList[i]? = some old ∧ a'.toList = a.toList.eraseIdx i ∧
      ArrOk T a' c'.ctr ∧ a'.isInlined = a.isInlined ∧ a'.rootID = a.rootID ∧ a'.ty = a.ty ∧
      c.ctr ≤ c'.ctr ∧
      (a.isInlined = true → a'.rootHdr.size + old.size = a.rootHdr.size) := by
  cases hinl : a.isInlined
  · have hinv := h.1 hinl
    rcases Nat.lt_or_ge i a.toList.length with hi | hi
    · obtain ⟨a2, c2, heq, hinv2, hl, hid, hty, hc⟩ := arr_remove_okR hT a c i hinv hi
      rw [heq] at hr; cases hr
      exact ⟨getD_getElem? _ _ _ hi, hl, ArrOk.of_inv hinv2, hinv2.standalone, hid, hty, hc,
        fun h => by cases h⟩
    · rw [arr_remove_err a c i hinv hi] at hr; cases hr
  · have hinv := h.2 hinl
    rcases Nat.lt_or_ge i a.toList.length with hi | hi
    · obtain ⟨a2, c2, heq, hinv2, hl, hid, hty, hc, hsz⟩ := arrInl_remove hinv hi
      rw [heq] at hr; cases hr
      exact ⟨getD_getElem? _ _ _ hi, hl, ArrOk.of_inl hinv2, hinv2.isInlined, hid, hty, hc, fun _ => hsz⟩
    · exfalso
      obtain ⟨s, ty, rfl, _⟩ := hinv
      have : Arr.remove T ⟨0, s, ty⟩ i c = .error .indexOutOfBounds := by
        unfold Arr.remove
        show (ATree.remove T 0 (ofData s) i c >>= _) = _
        rw [remove_zero_err s i c _ (DataSlab.remove_err s i c hi)]; rfl
      rw [this] at hr; cases hr

/-! ### the inline / un-inline transitions keep the invariant -/

/-- the slab `Cont.inline` builds -/
def inlineSlab (s : DataSlab) : DataSlab :=
  { s with inlined := true, hdr := { s.hdr with size := s.hdr.size - arrayRootDataSlabPrefixSize + inlinedArrayDataSlabPrefixSize } }
/-- the slab `Cont.uninline` builds -/
def uninlineSlab (s : DataSlab) : DataSlab :=
  { s with inlined := false, hdr := { s.hdr with size := s.hdr.size - inlinedArrayDataSlabPrefixSize + arrayRootDataSlabPrefixSize } }

/-- a standalone single-slab root becomes a valid inlined root -/
theorem arrInv_inline {s : DataSlab} {ty ctr : Nat} (h : ArrInv T ⟨0, s, ty⟩ ctr) :
    ArrInvInl T ⟨0, inlineSlab s, ty⟩ ctr := by
  have hd : DataInv T true s := h.tree
  have hni : s.inlined = false := h.standalone
  have hsz := hd.size_eq
  have hpfx : s.prefixSize = arrayRootDataSlabPrefixSize := by
    simp [DataSlab.prefixSize, hni, hd.root_eq]
  have hids := h.ids.2 s.hdr.id (by show s.hdr.id ∈ [s.hdr.id]; simp)
  refine ⟨_, ty, rfl, hd.root_eq, rfl, h.chain, hd.count_eq, ?_, hd.elems_ok, hids.2.1, hids.2.2, h.count_lt⟩
  show s.hdr.size - arrayRootDataSlabPrefixSize + inlinedArrayDataSlabPrefixSize
    = inlinedArrayDataSlabPrefixSize + sumSizes s.elems
  rw [hsz, hpfx]; omega

/-- an inlined root (below the slab threshold) becomes a valid standalone array -/
theorem arrInvInl_uninline (hT : legalThreshold T = true) {s : DataSlab} {ty ctr : Nat}
    (h : ArrInvInl T ⟨0, s, ty⟩ ctr) (hband : s.hdr.size ≤ T) :
    ArrInv T ⟨0, uninlineSlab s, ty⟩ ctr := by
  obtain ⟨s0, ty0, heq, h1, h2, h3, h4, h5, h6, h7, h8, h9⟩ := h
  cases heq
  have F := thrFacts hT
  have hsz : (uninlineSlab s).hdr.size = arrayRootDataSlabPrefixSize + sumSizes s.elems := by
    show s.hdr.size - inlinedArrayDataSlabPrefixSize + arrayRootDataSlabPrefixSize = _
    rw [h5]; omega
  have hdi : DataInv T true (uninlineSlab s) := by
    refine ⟨h4, ?_, h6, h1, fun hh => ?_, ?_, fun hh => ?_⟩
    · rw [hsz]
      show _ = (if false = true then _ else if s.root = true then _ else _) + _
      simp [h1]; rfl
    · rfl
    · rw [hsz, F.maxE, F.rpfx]
      rw [h5] at hband
      simp only [inlinedArrayDataSlabPrefixSize] at hband
      have := F.lo; omega
    · cases hh
  refine ⟨hdi, h3, ?_, rfl, h9⟩
  show IdsOk s.hdr.id.addr ctr [s.hdr.id]
  exact ⟨by simp, fun id hid => by simp at hid; subst hid; exact ⟨rfl, h7, h8⟩⟩

/-! ### the model lets an inlined root split when it has no room -/

/-- an inlined root holding two 200-byte elements (`T = 256`, so `maxThr = 384`): `Arr.insert` of a
    third element splits it — the result is a two-level tree, not an inlined slab.  (The inline
    budget of a parent slot, at most `maxInlineArr 256 = 117` bytes, excludes this situation.) -/
theorem inlined_root_splits :
    let s : DataSlab := ⟨⟨⟨1, 2⟩, 17 + 400, 2⟩, SlabID.undef, [⟨200, .val 0⟩, ⟨200, .val 1⟩], true, true⟩
    (match Arr.insert 256 ⟨0, s, 0⟩ 2 ⟨100, .val 2⟩ ⟨5, [], []⟩ with
     | .ok (a', _) => some (a'.d, a'.isInlined)
     | .error _ => none) = some (1, false) := by
  decide

end Atree
