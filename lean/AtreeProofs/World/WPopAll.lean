import AtreeProofs.World.WPopOps
import AtreeProofs.World.HandleKeep
/-
  Transport of "all current handles stay current" and of the strong frame along the simulation
  `World.Sim` (a world that satisfies `WorldOk'` and the world without its dead closures).
-/
namespace Atree
open Gen

namespace World

variable {D : SlabID → DigestFn 4}

theorem Sim.handlesKept {n n' : Nat} {w0 w w0' w' : World} (S : Sim n w0 w) (S' : Sim n' w0' w')
    (h : HandlesKept w0 w0') : HandlesKept w w' :=
  fun z hz hl => S'.handleOk_up (h z (S.handleOk_down hz) (by rw [S'.cont?]; exact hl))

theorem Sim.ancFrame {n n' : Nat} {w0 w w0' w' : World} (S : Sim n w0 w) (S' : Sim n' w0' w') {p : SlabID}
    {M : SlabID → Prop} (h : AncFrame w0 w0' p M) : AncFrame w w' p M := by
  refine ⟨fun z hz hM => ?_, fun q x hq => ?_⟩
  · rw [← S'.cont?, ← S.cont?]
    exact h.1 z (fun ha => hz ((S.anc_iff z p).mp ha)) hM
  · rw [← S'.idxOf, ← S.idxOf]
    exact h.2 q x hq

/-- from the rank-relative form (for every rank function of the world) to the public form -/
theorem all_of_opFrame {rank : SlabID → Nat} {w w' : World} {ctr : Nat} {p : SlabID} {E : SlabID → Prop}
    (H0 : WorldOkGen D rank none (fun _ => False) w ctr)
    (h : ∀ rank0, WorldOkGen D rank0 none (fun _ => False) w ctr → OpFrame rank0 w w' p E) :
    HandlesKept w w' ∧ AncFrame w w' p E :=
  ⟨(h rank H0).2.2, ancFrame_of_opFrame H0.rank (fun r hr => h r (H0.with_rank hr))⟩

end World
end Atree
