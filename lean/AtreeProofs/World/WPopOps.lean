import AtreeProofs.World.WPopPrune
import AtreeProofs.World.OpsMisc
import AtreeProofs.World.OpsArr2
import AtreeProofs.World.OpsMap
/-
  The PUBLIC operations of the World model behave alike on a world and on the same world without
  the closures whose recorded parent has been disposed of (`Sim`): same results, related final
  worlds.  With `WorldOkPK.to_sim` / `WorldOkPK.of_sim` this transports every operation theorem of
  `Props/C10W.lean` from `WorldOk` to `WorldOk'`.
-/
namespace Atree
open Gen

namespace World

/-- the simulation is kept by a common change of one live container -/
theorem Sim.setCont_withH {n : Nat} {w : World} {H0 : AList SlabID HInfo} (S : Sim n (w.withH H0) w)
    {v : SlabID} (hv : (w.cont? v).isSome) (c : Cont) : Sim n ((w.setCont v c).withH H0) (w.setCont v c) :=
  S.step (w2 := w.setCont v c) rfl (fun q hq => by
    rw [cont?_setCont, if_neg]
    · exact hq
    · intro he; subst he; rw [hq] at hv; cases hv)

/-- `storableOf` on both sides -/
theorem Sim.storableOf {n : Nat} {w : World} {H0 : AList SlabID HInfo} (S : Sim n (w.withH H0) w)
    {v : WVal} {lim : Nat} {cx : Ctx} {e : Elem} {w1 : World} {cx1 : Ctx}
    (h : w.storableOf v lim cx = .ok (e, w1, cx1)) :
    (w.withH H0).storableOf v lim cx = .ok (e, w1.withH H0, cx1) ∧ Sim n (w1.withH H0) w1 ∧
      ∀ q, (w.cont? q).isSome → (w1.cont? q).isSome := by
  obtain ⟨f1, f2⟩ := storableOf_dead h
  refine ⟨by rw [storableOf_withH, h]; rfl, S.step f1 f2, ?_⟩
  intro q hq
  cases v with
  | plain e0 => simp only [World.storableOf] at h; cases h; exact hq
  | child x wrap =>
    obtain ⟨_, _, _, _, h5, ⟨c, c', hc, hc', _⟩, _⟩ := childStorable_frame h
    by_cases hqx : q = x
    · subst hqx; rw [hc']; rfl
    · rw [h5 q hqx]; exact hq

/-- `uninlineIfNeeded` on both sides -/
theorem Sim.uninlineIfNeeded {n : Nat} {w : World} {H0 : AList SlabID HInfo} (S : Sim n (w.withH H0) w)
    {e : Elem} {cx : Ctx} {e' : Elem} {ov : Option SlabID} {w1 : World} {cx1 : Ctx}
    (h : w.uninlineIfNeeded e cx = .ok (e', ov, w1, cx1)) :
    (w.withH H0).uninlineIfNeeded e cx = .ok (e', ov, w1.withH H0, cx1) ∧ Sim n (w1.withH H0) w1 := by
  refine ⟨by rw [uninlineIfNeeded_withH, h], ?_⟩
  obtain ⟨_, f1, _, _, _, hcase⟩ := uninlineIfNeeded_ok h
  refine S.step f1 (fun q hq => ?_)
  rcases hcase with ⟨_, _, rfl, _, _⟩ | ⟨x, c, _, _, hxc, hform⟩
  · exact hq
  · rcases hform with ⟨_, _, rfl, _⟩ | ⟨_, c', _, _, rfl, _, _⟩
    · exact hq
    · rw [cont?_setCont, if_neg]
      · exact hq
      · intro he; subst he; rw [hxc] at hq; cases hq

/-- `Array.Insert` on both sides -/
theorem sim_arrInsert {n : Nat} {w0 w : World} {p : SlabID} {i : Nat} {v : WVal} {cx : Ctx} {w' : World} {cx' : Ctx}
    (S : Sim n w0 w) (h : w.arrInsert p i v cx = .ok (w', cx')) :
    ∃ w0', w0.arrInsert p i v cx = .ok (w0', cx') ∧ Sim n w0' w' := by
  have e0 := S.eq
  generalize w0.hinfo = H0 at e0
  subst e0
  unfold arrInsert at h ⊢
  simp only [cont?_withH, T_withH]
  split at h
  · rename_i a hpa
    by_cases hi : i > a.count
    · rw [if_pos hi] at h; cases h
    · rw [if_neg hi] at h ⊢
      simp only [bind, Except.bind] at h ⊢
      split at h
      · cases h
      · rename_i r hst
        obtain ⟨e, w1, cx1⟩ := r
        obtain ⟨g1, S1, hl1⟩ := S.storableOf hst
        rw [g1]
        simp only [T_withH] at h ⊢
        split at h
        · cases h
        · rename_i a' cx2 hins
          simp only [setCont_withH, shiftIdx_withH, fuelOf_withH] at h ⊢
          split at h
          · cases h
          · rename_i r2 hnp
            obtain ⟨w3, cx3⟩ := r2
            simp only [pure, Except.pure] at h
            cases h
            have S2 := (S1.setCont_withH (hl1 p (by rw [hpa]; rfl)) (.arr a')).shiftIdx p
              (fun j => if j ≥ i then j + 1 else j)
            obtain ⟨w03, hn0, S3⟩ := sim_notifyParent _ _ _ _ _ _ _ _ S2 hnp
            simp only [shiftIdx_withH] at hn0
            rw [hn0]
            exact ⟨_, rfl, S3.setCallbackArr p i v⟩
  · cases h

/-- `Array.Set` on both sides -/
theorem sim_arrSet {n : Nat} {w0 w : World} {p : SlabID} {i : Nat} {v : WVal} {cx : Ctx} {old : Elem}
    {w' : World} {cx' : Ctx} (S : Sim n w0 w) (h : w.arrSet p i v cx = .ok (old, w', cx')) :
    ∃ w0', w0.arrSet p i v cx = .ok (old, w0', cx') ∧ Sim n w0' w' := by
  have e0 := S.eq
  generalize w0.hinfo = H0 at e0
  subst e0
  unfold arrSet at h ⊢
  simp only [bind, Except.bind, fuelOf_withH] at h ⊢
  split at h
  · cases h
  · rename_i r hraw
    obtain ⟨old1, w1, cx1⟩ := r
    obtain ⟨w01, hr0, S1⟩ := sim_arrSetRaw _ (sim_notifyParent _) _ _ _ _ _ _ _ _ _ _ S hraw
    rw [hr0]
    have e1 := S1.eq
    generalize w01.hinfo = H1 at e1
    subst e1
    simp only at h ⊢
    split at h
    · cases h
    · rename_i r2 hun
      obtain ⟨old', ov, w2, cx2⟩ := r2
      obtain ⟨g2, S2⟩ := S1.uninlineIfNeeded hun
      rw [g2]
      simp only [pure, Except.pure] at h ⊢
      cases h
      refine ⟨_, rfl, ?_⟩
      cases ov with
      | none => exact S2
      | some o =>
        simp only
        split
        · split
          · exact S2
          · exact S2.setIdx _ _
        · exact S2.setIdx _ _

/-- `Array.Remove` on both sides -/
theorem sim_arrRemove {n : Nat} {w0 w : World} {p : SlabID} {i : Nat} {cx : Ctx} {old : Elem}
    {w' : World} {cx' : Ctx} (S : Sim n w0 w) (h : w.arrRemove p i cx = .ok (old, w', cx')) :
    ∃ w0', w0.arrRemove p i cx = .ok (old, w0', cx') ∧ Sim n w0' w' := by
  have e0 := S.eq
  generalize w0.hinfo = H0 at e0
  subst e0
  unfold arrRemove at h ⊢
  simp only [cont?_withH, T_withH]
  split at h
  · rename_i a hpa
    split at h
    · cases h
    · rename_i old1 a' cx1 hrem
      simp only [bind, Except.bind, setCont_withH, shiftIdx_withH, fuelOf_withH] at h ⊢
      split at h
      · cases h
      · rename_i r hnp
        obtain ⟨w2, cx2⟩ := r
        have S1 := (S.setCont_withH (by rw [hpa]; rfl) (.arr a')).shiftIdx p (fun j => if j > i then j - 1 else j)
        obtain ⟨w02, hn0, S2⟩ := sim_notifyParent _ _ _ _ _ _ _ _ S1 hnp
        simp only [shiftIdx_withH] at hn0
        rw [hn0]
        have e2 := S2.eq
        generalize w02.hinfo = H2 at e2
        subst e2
        simp only at h ⊢
        split at h
        · cases h
        · rename_i r3 hun
          obtain ⟨old', ov, w3, cx3⟩ := r3
          obtain ⟨g3, S3⟩ := S2.uninlineIfNeeded hun
          rw [g3]
          simp only [pure, Except.pure] at h ⊢
          cases h
          refine ⟨_, rfl, ?_⟩
          cases ov with
          | none => exact S3
          | some o => exact S3.setIdx _ _
  · cases h

/-- `OrderedMap.Set` on both sides -/
theorem sim_mapSet {n : Nat} {w0 w : World} {p : SlabID} {k : MKey} {v : WVal} {cx : Ctx} {old : Option Elem}
    {w' : World} {cx' : Ctx} (S : Sim n w0 w) (h : w.mapSet p k v cx = .ok (old, w', cx')) :
    ∃ w0', w0.mapSet p k v cx = .ok (old, w0', cx') ∧ Sim n w0' w' := by
  have e0 := S.eq
  generalize w0.hinfo = H0 at e0
  subst e0
  unfold mapSet at h ⊢
  simp only [bind, Except.bind, fuelOf_withH] at h ⊢
  split at h
  · cases h
  · rename_i r hraw
    obtain ⟨old1, w1, cx1⟩ := r
    obtain ⟨w01, hr0, S1⟩ := sim_mapSetRaw _ (sim_notifyParent _) _ _ _ _ _ _ _ _ _ _ S hraw
    rw [hr0]
    have e1 := S1.eq
    generalize w01.hinfo = H1 at e1
    subst e1
    simp only at h ⊢
    cases old1 with
    | none =>
      simp only [pure, Except.pure] at h ⊢
      cases h
      exact ⟨_, rfl, S1⟩
    | some o =>
      simp only at h ⊢
      split at h
      · cases h
      · rename_i r2 hun
        obtain ⟨o', ov, w2, cx2⟩ := r2
        obtain ⟨g2, S2⟩ := S1.uninlineIfNeeded hun
        rw [g2]
        simp only [pure, Except.pure] at h ⊢
        cases h
        exact ⟨_, rfl, S2⟩

/-- `OrderedMap.Remove` on both sides -/
theorem sim_mapRemove {n : Nat} {w0 w : World} {p : SlabID} {k : MKey} {cx : Ctx} {rk : MKey} {rv : Elem}
    {w' : World} {cx' : Ctx} (S : Sim n w0 w) (h : w.mapRemove p k cx = .ok (rk, rv, w', cx')) :
    ∃ w0', w0.mapRemove p k cx = .ok (rk, rv, w0', cx') ∧ Sim n w0' w' := by
  have e0 := S.eq
  generalize w0.hinfo = H0 at e0
  subst e0
  unfold mapRemove at h ⊢
  simp only [cont?_withH, mcfg_withH]
  split at h
  · rename_i m hpm
    split at h
    · cases h
    · rename_i rk1 rv1 m' cx1 hrem
      simp only [bind, Except.bind, setCont_withH, fuelOf_withH] at h ⊢
      split at h
      · cases h
      · rename_i r hnp
        obtain ⟨w2, cx2⟩ := r
        have S1 := S.setCont_withH (by rw [hpm]; rfl) (.map m')
        obtain ⟨w02, hn0, S2⟩ := sim_notifyParent _ _ _ _ _ _ _ _ S1 hnp
        rw [hn0]
        have e2 := S2.eq
        generalize w02.hinfo = H2 at e2
        subst e2
        simp only at h ⊢
        split at h
        · cases h
        · rename_i r3 hun
          obtain ⟨rv', ov, w3, cx3⟩ := r3
          obtain ⟨g3, S3⟩ := S2.uninlineIfNeeded hun
          rw [g3]
          simp only [pure, Except.pure] at h ⊢
          cases h
          exact ⟨_, rfl, S3⟩
  · cases h

/-- `Array.Get` on both sides -/
theorem sim_arrGet {n : Nat} {w0 w : World} {p : SlabID} {i : Nat} {el : Elem} {w' : World}
    (S : Sim n w0 w) (h : w.arrGet p i = .ok (el, w')) :
    ∃ w0', w0.arrGet p i = .ok (el, w0') ∧ Sim n w0' w' := by
  have e0 := S.eq
  generalize w0.hinfo = H0 at e0
  subst e0
  unfold arrGet at h ⊢
  simp only [cont?_withH]
  split at h
  · split at h
    · cases h
    · split at h
      · split at h
        · cases h; exact ⟨_, rfl, S⟩
        · cases h; exact ⟨_, rfl, S.setCallbackArr _ _ _⟩
      · cases h; exact ⟨_, rfl, S⟩
  · cases h

/-- `OrderedMap.Get` on both sides -/
theorem sim_mapGet {n : Nat} {w0 w : World} {p : SlabID} {k : MKey} {el : Elem} {w' : World}
    (S : Sim n w0 w) (h : w.mapGet p k = .ok (el, w')) :
    ∃ w0', w0.mapGet p k = .ok (el, w0') ∧ Sim n w0' w' := by
  have e0 := S.eq
  generalize w0.hinfo = H0 at e0
  subst e0
  unfold mapGet at h ⊢
  simp only [cont?_withH, mcfg_withH]
  split at h
  · split at h
    · cases h
    · split at h
      · split at h
        · cases h; exact ⟨_, rfl, S⟩
        · cases h; exact ⟨_, rfl, S.setCallbackMap _ _ _⟩
      · cases h; exact ⟨_, rfl, S⟩
  · cases h

/-- reopening on both sides -/
theorem sim_reopen {n : Nat} {w0 w : World} (S : Sim n w0 w) : Sim n w0.reopen w.reopen :=
  ⟨S.T, S.addr, S.conts, rfl, fun _ => Or.inl rfl⟩

/-- `SetType` on both sides -/
theorem sim_setType {n : Nat} {w0 w : World} {p : SlabID} {ty : Nat} {cx : Ctx} {w' : World} {cx' : Ctx}
    (S : Sim n w0 w) (h : w.setType p ty cx = .ok (w', cx')) :
    ∃ w0', w0.setType p ty cx = .ok (w0', cx') ∧ Sim n w0' w' := by
  have e0 := S.eq
  generalize w0.hinfo = H0 at e0
  subst e0
  unfold setType at h ⊢
  simp only [cont?_withH]
  split at h
  · rename_i a hpa
    simp only [setCont_withH, fuelOf_withH] at h ⊢
    have S1 := S.setCont_withH (by rw [hpa]; rfl) (.arr (a.setType ty cx).1)
    by_cases hinl : a.isInlined = true
    · rw [if_pos hinl] at h ⊢
      obtain ⟨w01, hn0, S2⟩ := sim_notifyParent _ _ _ _ _ _ _ _ S1 h
      exact ⟨_, hn0, S2⟩
    · rw [if_neg hinl] at h ⊢
      cases h; exact ⟨_, rfl, S1⟩
  · rename_i m hpm
    simp only [setCont_withH, fuelOf_withH] at h ⊢
    have S1 := S.setCont_withH (by rw [hpm]; rfl) (.map (m.setType ty cx).1)
    by_cases hinl : m.isInlined = true
    · rw [if_pos hinl] at h ⊢
      obtain ⟨w01, hn0, S2⟩ := sim_notifyParent _ _ _ _ _ _ _ _ S1 h
      exact ⟨_, hn0, S2⟩
    · rw [if_neg hinl] at h ⊢
      cases h; exact ⟨_, rfl, S1⟩
  · cases h

/-- a NEW container is filed on both sides: its ID is beyond the bound `n` of the disposed parents -/
theorem Sim.setCont_new {n : Nat} {w0 w : World} (S : Sim n w0 w) {v : SlabID} (hv : n < v.idx) (c : Cont) :
    Sim n (w0.setCont v c) (w.setCont v c) := by
  refine ⟨S.T, S.addr, by simp only [World.setCont, S.conts], S.mutIdx, fun x => ?_⟩
  rcases S.hinfo x with a | ⟨a, hi, b, c', d⟩
  · exact Or.inl a
  · refine Or.inr ⟨a, hi, b, ?_, d⟩
    rw [cont?_setCont, if_neg]
    · exact c'
    · intro he; subst he; omega

/-! ### transport of hypotheses and conclusions along a simulation -/

theorem Sim.anc_iff {n : Nat} {w0 w : World} (S : Sim n w0 w) (a z : SlabID) : Anc w0 a z ↔ Anc w a z := by
  constructor
  · intro h
    induction h with
    | refl => exact Anc.refl
    | step _ hp ih => exact Anc.step ih ((S.holds_iff _ _).mp hp)
  · intro h
    induction h with
    | refl => exact Anc.refl
    | step _ hp ih => exact Anc.step ih ((S.holds_iff _ _).mpr hp)

/-- a value that may be stored on one side may be stored on the other -/
theorem Sim.wValOk {n : Nat} {w0 w : World} (S : Sim n w0 w) {p : SlabID} {lim : Nat} {v : WVal}
    (h : WValOk w p lim v) : WValOk w0 p lim v := by
  cases v with
  | plain e => exact h
  | child x wrap =>
    obtain ⟨h1, h2, h3, h4⟩ := h
    exact ⟨by rw [S.cont?]; exact h1, fun q hq => h2 q ((S.holds_iff q x).mp hq),
      fun ha => h3 ((S.anc_iff x p).mp ha), h4⟩

/-- `SigFrame` across two simulations -/
theorem Sim.sigFrame {n n' : Nat} {w0 w w0' w' : World} (S : Sim n w0 w) (S' : Sim n' w0' w') {p : SlabID}
    (h : SigFrame w0 w0' p) : SigFrame w w' p := by
  intro z hz
  rw [← S.cont?, ← S'.cont?]
  exact h z hz

/-- `HandedBack` across two simulations -/
theorem Sim.handedBack {n n' : Nat} {w0 w w0' w' : World} (S : Sim n w0 w) (S' : Sim n' w0' w') {old : Elem}
    (h : HandedBack w0 w0' old) : HandedBack w w' old := by
  intro x c hx hc
  rw [← S.cont?] at hc
  obtain ⟨c', h1, h2, h3, h4, h5⟩ := h x c hx hc
  exact ⟨c', by rw [← S'.cont?]; exact h1, h2, h3, h4, fun q hq => h5 q ((S'.holds_iff q x).mpr hq)⟩

/-- `InsertedAt` across two simulations -/
theorem Sim.insertedAt {n n' : Nat} {w0 w w0' w' : World} (S : Sim n w0 w) (S' : Sim n' w0' w')
    {p : SlabID} {i : Nat} {v : WVal} (h : InsertedAt w0 w0' p i v) : InsertedAt w w' p i v := by
  obtain ⟨a, a', e, h1, h2, h3, h4, h5, h6⟩ := h
  refine ⟨a, a', e, by rw [← S.cont?]; exact h1, by rw [← S'.cont?]; exact h2, h3, h4, h5, fun x wr hv => ?_⟩
  obtain ⟨g1, g2, c, g3, g4⟩ := h6 x wr hv
  exact ⟨g1, S'.handleOk_up g2, c, by rw [← S'.cont?]; exact g3, g4⟩

/-- `SetAt` across two simulations -/
theorem Sim.setAt {n n' : Nat} {w0 w w0' w' : World} (S : Sim n w0 w) (S' : Sim n' w0' w')
    {p : SlabID} {i : Nat} {v : WVal} {old' : Elem} (h : SetAt w0 w0' p i v old') : SetAt w w' p i v old' := by
  obtain ⟨a, a', old, e, h1, h2, h3, h4, h5, h6, h7, h8⟩ := h
  refine ⟨a, a', old, e, by rw [← S.cont?]; exact h1, by rw [← S'.cont?]; exact h2, h3, h4, h5,
    S.handedBack S' h6, h7, fun x wr hv => ?_⟩
  obtain ⟨g1, g2, c, g3, g4⟩ := h8 x wr hv
  exact ⟨g1, S'.handleOk_up g2, c, by rw [← S'.cont?]; exact g3, g4⟩

/-- `RemovedAt` across two simulations -/
theorem Sim.removedAt {n n' : Nat} {w0 w w0' w' : World} (S : Sim n w0 w) (S' : Sim n' w0' w')
    {p : SlabID} {i : Nat} {old' : Elem} (h : RemovedAt w0 w0' p i old') : RemovedAt w w' p i old' := by
  obtain ⟨a, a', old, h1, h2, h3, h4, h5, h6⟩ := h
  exact ⟨a, a', old, by rw [← S.cont?]; exact h1, by rw [← S'.cont?]; exact h2, h3, h4, h5, S.handedBack S' h6⟩

/-- `MapSetAt` across two simulations -/
theorem Sim.mapSetAt {n n' : Nat} {w0 w w0' w' : World} (S : Sim n w0 w) (S' : Sim n' w0' w')
    {p : SlabID} {k : MKey} {v : WVal} {old' : Option Elem} (h : MapSetAt w0 w0' p k v old') :
    MapSetAt w w' p k v old' := by
  obtain ⟨m, m', e, oldo, h1, h2, h3, h4, h5, h6, h7⟩ := h
  refine ⟨m, m', e, oldo, by rw [← S.cont?]; exact h1, by rw [← S'.cont?]; exact h2, h3, fun o ho => ?_, h5, h6,
    fun x wr hv => ?_⟩
  · obtain ⟨o', g1, g2, g3⟩ := h4 o ho
    exact ⟨o', g1, g2, S.handedBack S' g3⟩
  · obtain ⟨g1, g2, c, g3, g4⟩ := h7 x wr hv
    exact ⟨g1, S'.handleOk_up g2, c, by rw [← S'.cont?]; exact g3, g4⟩

/-- `MapRemovedAt` across two simulations -/
theorem Sim.mapRemovedAt {n n' : Nat} {w0 w w0' w' : World} (S : Sim n w0 w) (S' : Sim n' w0' w')
    {p : SlabID} {k rk : MKey} {rv' : Elem} (h : MapRemovedAt w0 w0' p k rk rv') : MapRemovedAt w w' p k rk rv' := by
  obtain ⟨m, m', rv, h1, h2, h3, h4, h5, h6⟩ := h
  exact ⟨m, m', rv, by rw [← S.cont?]; exact h1, by rw [← S'.cont?]; exact h2, h3, h4, h5, S.handedBack S' h6⟩

variable {D : SlabID → DigestFn 4}

/-- from `WorldOk'` down to `WorldOk` of the pruned world, which simulates the world -/
theorem WorldOk'.down {w : World} {ctr : Nat} (H : WorldOk' D w ctr) :
    WorldOk D w.prune ctr ∧ Sim ctr w.prune w := by
  obtain ⟨rank, H0⟩ := H
  exact ⟨⟨rank, H0.prune⟩, sim_prune H0.hinfoBelow⟩

/-- … and back up from `WorldOk` of any world that simulates the world -/
theorem WorldOk'.up {n ctr : Nat} {w0 w : World} (H : WorldOk D w0 ctr) (S : Sim n w0 w) (hn : n ≤ ctr) :
    WorldOk' D w ctr := by
  obtain ⟨rank, H0⟩ := H
  exact ⟨rank, WorldOkPK.of_sim H0 S hn H0.mutIdx (fun _ h => absurd h id)⟩

end World
end Atree
