import AtreeProofs.World.TotalOps
/-
  TOTAL correctness, part 4 (audit item S3): `mapSet` and `mapRemove` SUCCEED through a current
  handle under `WorldOk` (+ `KeyedClosures`): `mapSet` unless the collision limit refuses the (new)
  key, `mapRemove` on a key that is present.
-/
namespace Atree
open Gen

namespace World

variable {D : SlabID → DigestFn 4}

/-! ### the operations computed from their steps -/

theorem mapSet_run_none {w : World} {p : SlabID} {k : MKey} {v : WVal} {cx : Ctx} {w3 : World} {cx3 : Ctx}
    (hraw : mapSetRaw w.fuelOf w p k v cx = .ok (none, w3, cx3)) :
    w.mapSet p k v cx = .ok (none, w3, cx3) := by
  unfold mapSet
  simp only [bind, Except.bind, hraw, pure, Except.pure]

theorem mapSet_run_some {w : World} {p : SlabID} {k : MKey} {v : WVal} {cx : Ctx} {o : Elem} {w3 : World} {cx3 : Ctx}
    {o' : Elem} {ov : Option SlabID} {w4 : World} {cx4 : Ctx}
    (hraw : mapSetRaw w.fuelOf w p k v cx = .ok (some o, w3, cx3))
    (hun : w3.uninlineIfNeeded o cx3 = .ok (o', ov, w4, cx4)) :
    w.mapSet p k v cx = .ok (some o', w4, cx4) := by
  unfold mapSet
  simp only [bind, Except.bind, hraw, hun, pure, Except.pure]

theorem mapRemove_run {w : World} {p : SlabID} {m : OMap 3} {k : MKey} {cx : Ctx}
    {rk : MKey} {rv : Elem} {m' : OMap 3} {cx1 : Ctx} {w3 : World} {cx3 : Ctx}
    {rv' : Elem} {ov : Option SlabID} {w4 : World} {cx4 : Ctx}
    (hpm : w.cont? p = some (.map m)) (hrem : m.remove w.mcfg k cx = .ok (rk, rv, m', cx1))
    (hnp : notifyParent (w.setCont p (.map m')).fuelOf (w.setCont p (.map m')) p cx1 = .ok (w3, cx3))
    (hun : w3.uninlineIfNeeded rv cx3 = .ok (rv', ov, w4, cx4)) :
    w.mapRemove p k cx = .ok (rk, rv', w4, cx4) := by
  unfold mapRemove
  simp only [hpm, hrem, bind, Except.bind, hnp, hun, pure, Except.pure]

/-! ### `mapSet` -/

/-- the raw `OrderedMap.Set` (before the old value is handed back) succeeds -/
theorem mapSetRaw_succeeds {w : World} {p : SlabID} {k : MKey} {v : WVal} {cx : Ctx} {m : OMap 3}
    (H : WorldOk D w cx.ctr) (hK : KeyedClosures w) (hhand : HandleOk w p) (hk : KeyOk w.T 4 (D p) k)
    (hv : WValOk w p (maxInlineMapValue w.T k.size) v) (hpm : w.cont? p = some (.map m))
    (hnl : ¬ TLimited w.mcfg m.d m.root k) :
    ∃ oldo w3 cx3, mapSetRaw w.fuelOf w p k v cx = .ok (oldo, w3, cx3) := by
  obtain ⟨rank0, H0⟩ := H
  obtain ⟨e, w1, cx1, hst⟩ := storableOf_total hv cx
  obtain ⟨rank', O1, H1, hr', hS1, hT1, ha1, hh1, hm1, hctr1, he1, he2, hco1, hO1p, hO1, hO1e, hplain⟩ :=
    prep_value H0 (maxInlineMapValue_le_arr _ _) hv hst
  have hpm1 : w1.cont? p = some (.map m) := by rw [hco1 p hO1p]; exact hpm
  have hmok : MapOk w.T (D p) m cx1.ctr := by rw [hctr1]; exact H0.conts p _ hpm
  have hcfg := H0.cfgOk hpm
  have hcfg1 : w1.mcfg = w.mcfg := by simp [World.mcfg, hT1, ha1]
  have hroom := H1.map_room hpm1 (by intro h; cases h) hO1p
  rw [hT1] at hroom
  have hvr : ValueOkR w.T k.size e := ⟨he1, Or.inr he2⟩
  obtain ⟨oldo, m', cx2, hs⟩ := hmok.set_total H0.legal hcfg hk hvr hroom hnl
  obtain ⟨heff, hok', hinl', hrid, hctr2, hsz⟩ := hmok.set_ok H0.legal hcfg hk hvr hroom hs
  have hsv : storedValue w.mcfg k e cx1 = e := by
    show (toStorableLim (maxInlineMapValue w.T k.size) w.addr e cx1).1 = e
    rw [toStorableLim_of_le _ _ _ _ he2]
  rw [hsv] at heff
  have hb2 := inline_plus_entry_le w.T H0.legal
  have hb3 := two_inline_le w.T H0.legal
  have hbp : (Cont.map m').isInlined = true → (Cont.map m').rootSize ≤ w1.T := by
    intro hi2
    have hi2' : m.isInlined = true := by rw [← hinl']; exact hi2
    have hroom' : m.rootHdr.size ≤ maxInlineArr w1.T :=
      H1.inl_budget hpm1 hi2' (by intro h; cases h) hO1p
    have := hsz hi2'
    rw [hT1] at hroom' ⊢
    show m'.rootHdr.size ≤ w.T
    omega
  have hnew : ∀ x c, e.pay = .ref x → w1.cont? x = some c →
      (∀ q, ¬ Holds w1 q x) ∧ (O1 x ∨ ∃ o, oldo = some o ∧ o.pay = .ref x) ∧ rank' p < rank' x ∧
      ∃ wrap, slabIDStorableSize + 2 * wrap ≤ maxInlineMapValue w1.T k.size ∧ e.size = slotSize c wrap ∧
        c.isInlined = c.inlinable (maxInlineMapValue w1.T k.size - 2 * wrap) := by
    intro x c hx hc
    obtain ⟨g1, g2, _, c0, c1, wr, _, _, g6, _, g8, g9, g10⟩ := hO1 x (hO1e x hx)
    rw [hc] at g6; cases g6
    refine ⟨fun q hq => g1 q ((hS1.holds_iff q x).mp hq), Or.inl (hO1e x hx), g2, wr, ?_, ?_, ?_⟩
    · rw [hT1]; exact g9
    · rw [g8]
    · rw [hT1]; exact g10
  have hnewb : ∀ r, e.pay = .ref r → r.idx ≤ cx2.ctr := by
    intro r hr
    obtain ⟨_, _, _, c0, _, _, g5, _⟩ := hO1 r (hO1e r hr)
    have := (H0.conts r c0 g5).vid_le
    rw [H0.ids r c0 g5] at this
    have := hctr1; omega
  -- the world at the notification
  have H2 : WorldOkGen D rank' (some p) (fun z => O1 z ∨ ∃ o, oldo = some o ∧ o.pay = .ref z)
      (w1.setCont p (.map m')) cx2.ctr := by
    rcases heff with ⟨hnone, habs, A, B, hA, hB⟩ | ⟨v0, A, B, hsome, hA, hB⟩
    · refine step_insert (pc' := .map m') (i := A.length) H1 hpm1 (fun _ h => Or.inl h) (by rw [hT1]; exact hok')
        rfl hinl' hrid hbp (by rw [← hctr1]; exact hctr2) (kslots_map_insert w1.T hA hB)
        (by simp [Cont.kslots, hA]) hnew hnewb rfl rfl rfl ?_ (by simp) (fun z hz => by simp [Ne.symm hz])
      intro q x
      split
      · rename_i hpq; subst hpq
        rw [idxOf_setCont, H1.map_noidx hpm1 x]; rfl
      · rfl
    · refine step_set (pc' := .map m') (i := A.length) H1 hpm1 (fun _ h => Or.inl h) (by rw [hT1]; exact hok')
        rfl hinl' hrid hbp (by rw [← hctr1]; exact hctr2) (kslots_map_set w1.T hA hB)
        (kslots_map_mid w1.T hA) (fun x hx => Or.inr ⟨v0, hsome, hx⟩) hnew hnewb rfl rfl rfl
        (fun q x => rfl) (by simp) (fun z hz => by simp [Ne.symm hz])
  have hidx1 : ∀ q z, AList.find? (w1.idxOf q) z = AList.find? (w.idxOf q) z := by
    intro q z; simp [World.idxOf, hm1]
  have hhand1 : HandleOk w1 p :=
    hhand.transfer (fun q y => (hS1.holds_iff q y).mp)
      (CurKept.of_sig hS1 hidx1 (fun y hiy hy _ => by rw [hh1]; exact hy))
  have hhand2 : HandleOk (w1.setCont p (.map m')) p :=
    handleOk_mutate (pc' := .map m') H1.rank H2.rank hpm1 (by simp) (fun z hz => by simp [Ne.symm hz])
      rfl rfl (fun q y hq => rfl) hhand1
  have hsome2 : ∀ z, ((w1.setCont p (.map m')).cont? z).isSome = (w.cont? z).isSome := by
    intro z
    rw [cont?_setCont, ← hS1.isSome]
    split
    · rename_i hpz; subst hpz; rw [hpm1]; rfl
    · rfl
  have holdmem : ∀ o, oldo = some o → (k, o) ∈ m.toList := by
    intro o ho
    rcases heff with ⟨hnone, _⟩ | ⟨v0, A, B, hsome, hA, _⟩
    · rw [ho] at hnone; cases hnone
    · rw [ho] at hsome; cases hsome
      rw [hA]; simp
  have holdholds : ∀ o z, oldo = some o → o.pay = .ref z → Holds w p z := by
    intro o z ho hz
    refine ⟨_, hpm, ?_⟩
    rw [Cont.pays, Cont.storedElems]
    exact List.mem_map.mpr ⟨o, List.mem_map.mpr ⟨_, holdmem o ho, rfl⟩, hz⟩
  have hK2 : KeyedClosures (w1.setCont p (.map m')) :=
    hK.mutate hS1 hh1 hpm (pc' := .map m') rfl (by simp) (fun z hz => by simp [Ne.symm hz]) rfl
  obtain ⟨w3, cx3, hnp⟩ := notify_total D rank' (fun z => O1 z ∨ ∃ o, oldo = some o ∧ o.pay = .ref z)
    w.fuelOf _ _ _ H2 hhand2
    (fun z hz hzs => by
      rw [hsome2] at hzs
      rcases hz with h | ⟨o, ho, hz⟩
      · exact (hO1 z h).2.1
      · exact hr' p z (holdholds o z ho hz) hzs) (by simp) hK2
    (fuelOk_fuelOf_of_live rank' p (fun z hz => by rw [← hsome2]; exact hz))
  rw [← hcfg1] at hs
  exact ⟨_, _, _, mapSetRaw_ok hpm hst hs hnp⟩

/-- `OrderedMap.Set` through a current handle succeeds unless the collision limit refuses the key -/
theorem mapSet_succeeds {w : World} {p : SlabID} {k : MKey} {v : WVal} {cx : Ctx} {m : OMap 3}
    (H : WorldOk D w cx.ctr) (hK : KeyedClosures w) (hhand : HandleOk w p) (hk : KeyOk w.T 4 (D p) k)
    (hv : WValOk w p (maxInlineMapValue w.T k.size) v) (hpm : w.cont? p = some (.map m))
    (hnl : ¬ TLimited w.mcfg m.d m.root k) :
    ∃ old w' cx', w.mapSet p k v cx = .ok (old, w', cx') := by
  obtain ⟨oldo, w3, cx3, hraw⟩ := mapSetRaw_succeeds H hK hhand hk hv hpm hnl
  cases oldo with
  | none => exact ⟨_, _, _, mapSet_run_none hraw⟩
  | some o =>
    obtain ⟨o', ov, w4, cx4, hun⟩ := uninlineIfNeeded_total w3 o cx3
    exact ⟨_, _, _, mapSet_run_some hraw hun⟩

/-! ### `mapRemove` -/

/-- `OrderedMap.Remove` through a current handle succeeds on a key that is present, and hands back
    that key -/
theorem mapRemove_succeeds {w : World} {p : SlabID} {k : MKey} {cx : Ctx} {m : OMap 3} {rv : Elem}
    (H : WorldOk D w cx.ctr) (hK : KeyedClosures w) (hhand : HandleOk w p) (hk : KeyOk w.T 4 (D p) k)
    (hpm : w.cont? p = some (.map m)) (hmem : (k, rv) ∈ m.toList) :
    ∃ rv' w' cx', w.mapRemove p k cx = .ok (k, rv', w', cx') := by
  obtain ⟨rank0, H0⟩ := H
  have hmok : MapOk w.T (D p) m cx.ctr := H0.conts p _ hpm
  have hcfg := H0.cfgOk hpm
  have hroom := H0.map_room hpm (by intro h; cases h) (fun h => h)
  obtain ⟨m', cx1, hrem⟩ := hmok.remove_total H0.legal hcfg hk hroom hmem
  obtain ⟨hrk, heff, hok', hinl', hrid, hctr1, hsz⟩ := hmok.remove_ok H0.legal hcfg hk hroom hrem
  obtain ⟨A, B, hA, hB⟩ := heff
  have hks := kslots_map_mid w.T hA
  have hb2 := inline_plus_entry_le w.T H0.legal
  have H2 : WorldOkGen D rank0 (some p) (fun z => rv.pay = .ref z) (w.setCont p (.map m')) cx1.ctr := by
    refine step_remove (pc' := .map m') (i := A.length) H0 hpm (fun _ h => absurd h id) hok' rfl hinl' hrid ?_ hctr1
      (kslots_map_erase w.T hA hB) hks (fun x hx => hx) rfl rfl rfl ?_ (by simp)
      (fun z hz => by simp [Ne.symm hz])
    · intro hi2
      have hi2' : m.isInlined = true := by rw [← hinl']; exact hi2
      have hroom : m.rootHdr.size ≤ maxInlineArr w.T :=
        H0.inl_budget hpm hi2' (by intro h; cases h) (fun h => h)
      have := hsz hi2'
      show m'.rootHdr.size ≤ w.T
      omega
    · intro q x
      split
      · rename_i hpq; subst hpq
        rw [idxOf_setCont, H0.map_noidx hpm x]; rfl
      · rfl
  have hhand2 : HandleOk (w.setCont p (.map m')) p :=
    handleOk_mutate (pc' := .map m') H0.rank H2.rank hpm (by simp) (fun z hz => by simp [Ne.symm hz]) rfl rfl
      (fun q x hq => rfl) hhand
  have hsome2 : ∀ z, ((w.setCont p (.map m')).cont? z).isSome = (w.cont? z).isSome := by
    intro z
    rw [cont?_setCont]
    split
    · rename_i hpz; subst hpz; rw [hpm]; rfl
    · rfl
  have hK2 : KeyedClosures (w.setCont p (.map m')) :=
    hK.mutate (ContsSig.refl w) rfl hpm (pc' := .map m') rfl (by simp) (fun z hz => by simp [Ne.symm hz]) rfl
  obtain ⟨w3, cx3, hnp⟩ := notify_fuelOf_total H2 hhand2
    (fun z hz hzs => by
      rw [hsome2] at hzs
      exact H0.rank p z (holds_of_kslot hpm hks hz) hzs) (by simp) hK2
  obtain ⟨rv', ov, w4, cx4, hun⟩ := uninlineIfNeeded_total w3 rv cx3
  exact ⟨_, _, _, mapRemove_run hpm hrem hnp hun⟩

end World
end Atree
