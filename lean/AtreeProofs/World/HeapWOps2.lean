import AtreeProofs.World.HeapWOps
import AtreeProofs.World.OpsMisc
/-
  World-level heap accounting, part 4: `setType`, `newArr`, `newMap`.
-/
namespace Atree
open Gen

namespace World

variable {D : SlabID → DigestFn 4} {rank : SlabID → Nat}

/-! ### the extra data of the root slab changes (`SetType`) -/

theorem cacct_retag {c c' : Cont} (hinl : c'.isInlined = c.isInlined) (hvid : c'.vid = c.vid)
    (hids : c'.treeIds = c.treeIds) (hnd : c.treeIds.Nodup)
    (hrest : ∀ p ∈ c'.treeSlabs, p.1 ≠ c.vid → p ∈ c.treeSlabs) (ctr : Nat) :
    CAcct ctr ctr c c' (if c.isInlined then [] else [.store c.vid]) [] := by
  have hh : c'.heapIds = c.heapIds := by
    cases hi : c.isInlined
    · rw [Cont.heapIds_of_standalone hi, Cont.heapIds_of_standalone (hinl.trans hi), hids]
    · rw [Cont.heapIds_of_inlined hi, Cont.heapIds_of_inlined (hinl.trans hi), hids]
  cases hi : c.isInlined
  · simp only [Bool.false_eq_true, if_false]
    have hs : c.slabs = c.treeSlabs := Cont.slabs_of_standalone hi
    have hs' : c'.slabs = c'.treeSlabs := Cont.slabs_of_standalone (hinl.trans hi)
    refine ⟨Nat.le_refl _, ?_, ?_, ?_, ?_, ?_, by simp, ?_⟩
    · intro p hp
      rw [hs'] at hp
      by_cases hv : p.1 = c.vid
      · right; rw [hv, lastAction_store1, if_pos rfl]
      · left; rw [hs]; exact hrest p hp hv
    · intro id h1 h2; rw [hh] at h2; exact absurd h1 h2
    · intro id h1
      rw [lastAction_store1] at h1
      split at h1
      · rename_i e; subst e; left
        rw [hh, Cont.heapIds_of_standalone hi]; exact Cont.vid_mem_treeIds c
      · cases h1
    · intro id h1
      rw [lastAction_store1] at h1
      split at h1 <;> cases h1
    · intro id h1
      rw [lastAction_store1] at h1
      split at h1
      · rename_i e; subst e; exact Or.inl (Cont.vid_mem_treeIds c)
      · exact absurd rfl h1
    · intro id h1; rw [hids] at h1; exact Or.inl h1
  · simp only [if_true]
    have hs : c.slabs = c.treeSlabs.tail := Cont.slabs_of_inlined hi
    have hs' : c'.slabs = c'.treeSlabs.tail := Cont.slabs_of_inlined (hinl.trans hi)
    refine ⟨Nat.le_refl _, ?_, ?_, by simp, by simp, by simp, by simp, ?_⟩
    · intro p hp
      rw [hs'] at hp
      left
      have hnd' : (c.vid :: AList.keys c'.treeSlabs.tail).Nodup := by
        rw [← hvid, ← Cont.treeIds_cons, hids]; exact hnd
      have hne : p.1 ≠ c.vid := fun e => (List.nodup_cons.1 hnd').1 (e ▸ mem_keys_of_mem hp)
      have := hrest p (List.mem_of_mem_tail hp) hne
      obtain ⟨x, hx⟩ := Cont.treeSlabs_cons c
      rw [hx] at this
      rw [hs]
      rcases List.mem_cons.1 this with e | e
      · exact absurd (by rw [e]) hne
      · exact e
    · intro id h1 h2; rw [hh] at h2; exact absurd h1 h2
    · intro id h1; rw [hids] at h1; exact Or.inl h1

theorem treeSlabs_arr_setType (a : Arr) (ty : Nat) :
    (Cont.arr { a with ty := ty }).treeIds = (Cont.arr a).treeIds ∧
    ∀ p ∈ (Cont.arr { a with ty := ty }).treeSlabs, p.1 ≠ (Cont.arr a).vid → p ∈ (Cont.arr a).treeSlabs := by
  refine ⟨by rw [Cont.treeIds_arr, Cont.treeIds_arr], ?_⟩
  intro p hp hne
  simp only [Cont.treeSlabs, List.mem_map] at hp ⊢
  obtain ⟨q, hq, rfl⟩ := hp
  have hq1 : q.1 ≠ a.rootID := hne
  refine ⟨q, hq, ?_⟩
  have h2 : q.1 ≠ ({ a with ty := ty } : Arr).rootID := hq1
  simp only [hq1, h2, if_false]

theorem treeSlabs_map_setType (m : OMap 3) (ty : Nat) :
    (Cont.map { m with ty := ty }).treeIds = (Cont.map m).treeIds ∧
    ∀ p ∈ (Cont.map { m with ty := ty }).treeSlabs, p.1 ≠ (Cont.map m).vid → p ∈ (Cont.map m).treeSlabs := by
  refine ⟨by rw [Cont.treeIds_map, Cont.treeIds_map], ?_⟩
  intro p hp hne
  simp only [Cont.treeSlabs, List.mem_map] at hp ⊢
  obtain ⟨q, hq, rfl⟩ := hp
  have hq1 : q.1 ≠ m.rootID := hne
  refine ⟨q, hq, ?_⟩
  have h2 : q.1 ≠ ({ m with ty := ty } : OMap 3).rootID := hq1
  simp only [hq1, h2, if_false]

theorem log_of_emit_if (cx : Ctx) (b : Bool) (id : SlabID) :
    Log cx (if b then cx else cx.emit (.store id)) (if b then [] else [.store id]) [] := by
  cases b
  · exact Log.store cx id
  · exact Log.refl cx

/-- `SetType` -/
theorem setType_heap {w w' : World} {p : SlabID} {ty : Nat} {cx cx' : Ctx}
    (H : HInv D rank w cx.ctr) (Hh : HeapOk w cx.ctr)
    (h : w.setType p ty cx = .ok (w', cx')) : Post w cx w' cx' := by
  have P := WPre.of_inv H Hh
  unfold setType at h
  split at h
  · rename_i a hp
    have hpok : ArrOk w.T a cx.ctr := (P.conts p _ hp).1
    have hvid : a.rootID = p := (P.conts p _ hp).2.1
    have hinl : (Cont.arr { a with ty := ty }).isInlined = (Cont.arr a).isInlined := by
      obtain ⟨d, t, ty0⟩ := a; cases d <;> rfl
    obtain ⟨hids, hrest⟩ := treeSlabs_arr_setType a ty
    have hca := cacct_retag hinl rfl hids (Hh.nodup p _ hp) hrest cx.ctr
    have hlog : Log cx (a.setType ty cx).2 (if (Cont.arr a).isInlined then [] else [.store (Cont.arr a).vid]) [] :=
      log_of_emit_if cx a.isInlined a.rootID
    have htree : TreeOk w.addr (a.setType ty cx).2.ctr (.arr { a with ty := ty }) := by
      have := (Hh.treeOk hp).mono hlog.ctr_le
      rw [TreeOk, hids]; exact this
    have hok' : ContOk w.T (D p) (a.setType ty cx).2.ctr (.arr { a with ty := ty }) :=
      ContOk.mono (arrOk_setType hpok) hlog.ctr_le
    have hband : (Cont.arr { a with ty := ty }).isInlined = true → (Cont.arr { a with ty := ty }).rootSize ≤ w.T := by
      intro hi
      rw [hinl] at hi
      show (Cont.arr a).rootSize ≤ w.T
      exact H.band hp hi
    have hctr : (a.setType ty cx).2.ctr = cx.ctr := by
      simp only [Arr.setType]; split <;> rfl
    have hca : CAcct cx.ctr (a.setType ty cx).2.ctr (.arr a) (.arr { a with ty := ty })
        (if (Cont.arr a).isInlined then [] else [.store (Cont.arr a).vid]) (([] : List (SlabID × Elem)).map (·.1)) := by
      rw [hctr]; exact hca
    have hpays : ∀ x, Pay.ref x ∈ (Cont.arr { a with ty := ty }).pays → Pay.ref x ∈ (Cont.arr a).pays ∨ rank p < rank x :=
      fun x hx => Or.inl hx
    have hst : a.setType ty cx = ({ a with ty := ty }, (a.setType ty cx).2) := rfl
    rw [hst] at h
    dsimp only at h
    split at h
    · exact mutate_notify (notifyHeap D rank _) P (fun _ _ => rfl) hp hlog hca hok' htree hvid hband rfl hpays
        (SameTab.refl _) h
    · cases h
      obtain ⟨hacct, hheap⟩ := hca.lift Hh hp htree.1 htree.2
      refine ⟨_, [], hlog, hacct, hheap, ?_⟩
      intro x c hx
      rw [cont?_setCont] at hx
      split at hx
      · rename_i e1; cases hx; subst e1; exact hvid
      · exact H.ids x c hx
  · rename_i m hp
    have hpok : MapOk w.T (D p) m cx.ctr := (P.conts p _ hp).1
    have hvid : m.rootID = p := (P.conts p _ hp).2.1
    have hinl : (Cont.map { m with ty := ty }).isInlined = (Cont.map m).isInlined := by
      obtain ⟨d, t, ty0, cnt0, seed0⟩ := m; cases d <;> rfl
    obtain ⟨hids, hrest⟩ := treeSlabs_map_setType m ty
    have hca := cacct_retag hinl rfl hids (Hh.nodup p _ hp) hrest cx.ctr
    have hlog : Log cx (m.setType ty cx).2 (if (Cont.map m).isInlined then [] else [.store (Cont.map m).vid]) [] :=
      log_of_emit_if cx m.isInlined m.rootID
    have htree : TreeOk w.addr (m.setType ty cx).2.ctr (.map { m with ty := ty }) := by
      have := (Hh.treeOk hp).mono hlog.ctr_le
      rw [TreeOk, hids]; exact this
    have hok' : ContOk w.T (D p) (m.setType ty cx).2.ctr (.map { m with ty := ty }) :=
      ContOk.mono (mapOk_setType hpok) hlog.ctr_le
    have hband : (Cont.map { m with ty := ty }).isInlined = true → (Cont.map { m with ty := ty }).rootSize ≤ w.T := by
      intro hi
      rw [hinl] at hi
      show (Cont.map m).rootSize ≤ w.T
      exact H.band hp hi
    have hctr : (m.setType ty cx).2.ctr = cx.ctr := by
      simp only [OMap.setType]; split <;> rfl
    have hca : CAcct cx.ctr (m.setType ty cx).2.ctr (.map m) (.map { m with ty := ty })
        (if (Cont.map m).isInlined then [] else [.store (Cont.map m).vid]) (([] : List (SlabID × Elem)).map (·.1)) := by
      rw [hctr]; exact hca
    have hpays : ∀ x, Pay.ref x ∈ (Cont.map { m with ty := ty }).pays → Pay.ref x ∈ (Cont.map m).pays ∨ rank p < rank x :=
      fun x hx => Or.inl hx
    have hst : m.setType ty cx = ({ m with ty := ty }, (m.setType ty cx).2) := rfl
    rw [hst] at h
    dsimp only at h
    split at h
    · exact mutate_notify (notifyHeap D rank _) P (fun _ _ => rfl) hp hlog hca hok' htree hvid hband rfl hpays
        (SameTab.refl _) h
    · cases h
      obtain ⟨hacct, hheap⟩ := hca.lift Hh hp htree.1 htree.2
      refine ⟨_, [], hlog, hacct, hheap, ?_⟩
      intro x c hx
      rw [cont?_setCont] at hx
      split at hx
      · rename_i e1; cases hx; subst e1; exact hvid
      · exact H.ids x c hx
  · cases h

/-! ### a new container -/

theorem lastAction_alloc_store (a : Nat) (i id : SlabID) :
    lastAction [Eff.alloc a i, Eff.store i] id = if i = id then some true else none := by
  show actStep id (actStep id none (Eff.alloc a i)) (Eff.store i) = _
  simp only [actStep]

/-- a new standalone single-slab container under a fresh ID -/
theorem WAcct.new {w : World} {c : Nat} (H : HeapOk w c) {id : SlabID} {cn : Cont} {x : WSlab}
    (hidx : id.idx = c + 1) (haddr : id.addr = w.addr) (hfresh : w.cont? id = none)
    (hs : cn.slabs = [(id, x)]) (ht : cn.treeIds = [id]) (a : Nat) :
    WAcct c (c + 1) w (w.setCont id cn) [.alloc a id, .store id] [] ∧ HeapOk (w.setCont id cn) (c + 1) := by
  have hh : cn.heapIds = [id] := by unfold Cont.heapIds; rw [hs]; rfl
  have hne : ∀ z cc, w.cont? z = some cc → z ≠ id := by
    intro z cc hz e; rw [e, hfresh] at hz; cases hz
  refine ⟨⟨by omega, ?_, ?_, ?_, ?_, ?_, by simp, ?_⟩, ?_, ?_, ?_, ?_⟩
  · intro j s h1
    rcases (hasSlab_setCont w id cn j s).1 h1 with h2 | ⟨z, cc, _, hz, h2⟩
    · rw [hs, List.mem_singleton] at h2
      cases h2
      right; rw [lastAction_alloc_store, if_pos rfl]
    · exact Or.inl ⟨z, cc, hz, h2⟩
  · intro j h1 h2
    obtain ⟨z, cc, hz, hm⟩ := h1
    exact absurd ((inHeap_setCont w id cn j).2 (Or.inr ⟨z, cc, hne z cc hz, hz, hm⟩)) h2
  · intro j h1
    rw [lastAction_alloc_store] at h1
    split at h1
    · rename_i e; subst e; left
      exact (inHeap_setCont w _ cn _).2 (Or.inl (by rw [hh]; exact List.mem_singleton.2 rfl))
    · cases h1
  · intro j h1
    rw [lastAction_alloc_store] at h1
    split at h1 <;> cases h1
  · intro j h1
    rw [lastAction_alloc_store] at h1
    split at h1
    · rename_i e; subst e; right; omega
    · exact absurd rfl h1
  · intro j h1
    rcases (inTree_setCont w id cn j).1 h1 with h2 | ⟨z, cc, _, hz, h2⟩
    · rw [ht, List.mem_singleton] at h2
      subst h2; right; omega
    · exact Or.inl ⟨z, cc, hz, h2⟩
  · intro z cc z' cc' j hz hz' hm hm'
    rw [cont?_setCont] at hz hz'
    split at hz <;> split at hz'
    · rename_i e1 e2; exact e1.symm.trans e2
    · cases hz
      rw [ht, List.mem_singleton] at hm
      subst hm
      have := H.below z' cc' _ hz' hm'; omega
    · cases hz'
      rw [ht, List.mem_singleton] at hm'
      subst hm'
      have := H.below z cc _ hz hm; omega
    · exact H.own z cc z' cc' j hz hz' hm hm'
  · intro z cc hz
    rw [cont?_setCont] at hz
    split at hz
    · cases hz; rw [ht]; simp
    · exact H.nodup z cc hz
  · intro z cc j hz hm
    rw [cont?_setCont] at hz
    split at hz
    · cases hz; rw [ht, List.mem_singleton] at hm; subst hm; omega
    · have := H.below z cc j hz hm; omega
  · intro z cc j hz hm
    rw [cont?_setCont] at hz
    split at hz
    · cases hz; rw [ht, List.mem_singleton] at hm; subst hm; exact haddr
    · exact H.addr z cc j hz hm

theorem fresh_of_inv {w : World} {ctr : Nat} (H : HInv D rank w ctr) {id : SlabID} (h : ctr < id.idx) :
    w.cont? id = none := by
  cases hc : w.cont? id with
  | none => rfl
  | some c =>
    have h1 := (H.conts id c hc).vid_le
    rw [H.ids id c hc] at h1
    omega

/-- `NewArray` -/
theorem newArr_heap {w : World} {ty : Nat} {cx : Ctx} (H : HInv D rank w cx.ctr) (Hh : HeapOk w cx.ctr) :
    Post w cx (w.newArr ty cx).2.1 (w.newArr ty cx).2.2 := by
  have hfresh : w.cont? ⟨w.addr, cx.ctr + 1⟩ = none := fresh_of_inv H (by simp)
  obtain ⟨hacct, hheap⟩ := WAcct.new (cn := .arr (Arr.new w.addr ty cx).1) (id := ⟨w.addr, cx.ctr + 1⟩) Hh rfl rfl hfresh
    rfl rfl w.addr
  refine ⟨_, [], ?_, hacct, hheap, ?_⟩
  · exact (Log.alloc cx w.addr).trans (Log.store _ _)
  · intro x c hx
    have : (w.newArr ty cx).2.1 = w.setCont ⟨w.addr, cx.ctr + 1⟩ (.arr (Arr.new w.addr ty cx).1) := rfl
    rw [this, cont?_setCont] at hx
    split at hx
    · rename_i e1; cases hx; subst e1; rfl
    · exact H.ids x c hx

/-- `NewMap` -/
theorem newMap_heap {w : World} {ty seed : Nat} {cx : Ctx} (H : HInv D rank w cx.ctr) (Hh : HeapOk w cx.ctr) :
    Post w cx (w.newMap ty seed cx).2.1 (w.newMap ty seed cx).2.2 := by
  have hfresh : w.cont? ⟨w.addr, cx.ctr + 1⟩ = none := fresh_of_inv H (by simp)
  obtain ⟨hacct, hheap⟩ := WAcct.new
    (cn := .map (OMap.new w.addr ty (fun _ => seed) cx : OMap 3 × Ctx).1) (id := ⟨w.addr, cx.ctr + 1⟩) Hh rfl rfl hfresh
    rfl rfl w.addr
  refine ⟨_, [], ?_, hacct, hheap, ?_⟩
  · exact (Log.alloc cx w.addr).trans (Log.store _ _)
  · intro x c hx
    have : (w.newMap ty seed cx).2.1
        = w.setCont ⟨w.addr, cx.ctr + 1⟩ (.map (OMap.new w.addr ty (fun _ => seed) cx : OMap 3 × Ctx).1) := rfl
    rw [this, cont?_setCont] at hx
    split at hx
    · rename_i e1; cases hx; subst e1; rfl
    · exact H.ids x c hx

end World
end Atree
