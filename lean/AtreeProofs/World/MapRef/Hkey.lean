import AtreeProofs.World.MapRef.Single
/-
  `MElemF.set`, `HkeyElems.set` for `ValueOkR` values; `SetSpecR` is inherited by `HkeyElems.ops`,
  hence holds for `MElems.ops r` at every `r`.
-/
namespace Atree
open Gen

namespace MElemOk
variable {T L : Nat} {D : DigestFn L} {cfg : MCfg} {α : Type} {o : ElemsOps α}
  {Inv : Nat → List Nat → α → Prop} {rr : Nat}

theorem inlSet_spec_ref (S : OpsSpec T L D cfg o Inv rr) (S' : SetSpecR T L D cfg o Inv rr) (hc : CfgFor cfg T L)
    {ℓ : Nat} {path : List Nat} {hk : Nat}
    (hℓ : ℓ + rr + 1 = L) {g : α} (hg : Inv (ℓ + 1) (path ++ [hk]) g) {k : MKey}
    (h2 : 2 ≤ (o.toList g).length ∨ (∃ x, o.toList g = [x] ∧ x.1 ≠ k))
    (hkk : KeyOk T L D k) (hp : k.digs.take (ℓ + 1) = path ++ [hk]) {v : Elem} (hv : ValueOkR T k.size v) (c : Ctx) :
    ∃ e' old c', MElemF.inlSet o cfg g ℓ k v c = .ok (e', k, old, c') ∧ MElemOk T L D o Inv ℓ path hk e' ∧
      SetEffect (o.toList g) (e'.toList o) k (storedValue cfg k v c) old ∧ c.ctr ≤ c'.ctr ∧
      (∀ id, e'.extId? = some id → id.idx ≤ c'.ctr) := by
  have hlev : ¬ (ℓ + 1 > cfg.L) := by rw [hc.hL]; omega
  obtain ⟨old, g', c', hset, hinv', heff, hctr⟩ := S'.set c hg (by omega) hkk hp hv
  have hlen : 2 ≤ (o.toList g').length := by
    rcases h2 with h2 | ⟨x, hx, hxk⟩
    · have := heff.length_ge; omega
    · rcases heff with ⟨_, _, A, B, hAB, hAB'⟩ | ⟨v0, A, B, _, hAB, _⟩
      · rw [hAB', List.length_append, List.length_cons]
        have : (A ++ B).length = 1 := by rw [← hAB, hx]; rfl
        rw [List.length_append] at this; omega
      · exfalso
        rw [hx] at hAB
        have hm : (k, v0) ∈ [x] := by rw [hAB]; simp
        simp at hm; rw [← hm] at hxk; exact hxk rfl
  obtain ⟨hcnt, hsole⟩ := grp_of_two S.toOpsStruct hinv' hlen
  simp only [MElemF.inlSet, hset, if_neg hlev, bind, Except.bind, pure, Except.pure]
  split
  · rename_i hbig
    refine ⟨_, _, _, rfl, ?_, heff, ?_, ?_⟩
    · simp only [Bool.and_eq_true, beq_iff_eq, decide_eq_true_eq] at hbig
      exact ⟨by omega, rfl, rfl, rfl, rfl, hinv', hcnt, hsole⟩
    · simp [Ctx.alloc, Ctx.emit]; omega
    · intro id hid
      simp [MElemF.extId?] at hid
      subst hid
      simp [Ctx.alloc, Ctx.emit]
  · rename_i hbig
    refine ⟨_, _, _, rfl, ?_, heff, hctr, ?_⟩
    · refine ⟨hinv', hcnt, hsole, ?_⟩
      intro h0
      simp only [Bool.and_eq_true, beq_iff_eq, decide_eq_true_eq, not_and, Nat.not_lt] at hbig
      have := hbig (by omega)
      rw [hc.hT] at this; omega
    · intro id hid; simp [MElemF.extId?] at hid

theorem set_ref (S : OpsSpec T L D cfg o Inv rr) (S' : SetSpecR T L D cfg o Inv rr)
    (hT : legalThreshold T = true) (hc : CfgFor cfg T L)
    {ℓ : Nat} {path : List Nat} {hk : Nat} {e : MElemF α} (hℓ : ℓ + rr + 1 = L)
    (h : MElemOk T L D o Inv ℓ path hk e) {k : MKey} (hkk : KeyOk T L D k)
    (hp : k.digs.take (ℓ + 1) = path ++ [hk]) {v : Elem} (hv : ValueOkR T k.size v) (c : Ctx) :
    ∃ e' old c', e.set o cfg ℓ k v c = .ok (e', k, old, c') ∧ MElemOk T L D o Inv ℓ path hk e' ∧
      SetEffect (e.toList o) (e'.toList o) k (storedValue cfg k v c) old ∧ c.ctr ≤ c'.ctr ∧
      (∀ id, e'.extId? = some id → e.extId? = some id ∨ id.idx ≤ c'.ctr) := by
  have hlev : ¬ (ℓ + 1 > cfg.L) := by rw [hc.hL]; omega
  cases e with
  | single x =>
    obtain ⟨hx, hxp⟩ := h
    cases hs : x.key.same k with
    | true =>
      have hxk := (KeyOk.same_iff hx.1 hkk).mp hs
      rcases hts : toStorableLim (maxInlineMapValue cfg.T k.size) cfg.addr v c with ⟨vs, c1⟩
      have hsv : storedValue cfg k v c = vs := by simp [storedValue, hts]
      have hspec := toStorableLim_specR (T := cfg.T) (ks := k.size) (addr := cfg.addr) c (by rw [hc.hT]; exact hv)
        (by rw [hc.hT]; exact maxInlineMapValue_ge hT hkk.2.2)
      rw [hts, hc.hT] at hspec
      subst hxk
      simp only [MElemF.set, hs, if_true, hts, hsv]
      refine ⟨_, _, _, rfl, ⟨⟨hx.1, hspec.1, hspec.2.1, rfl⟩, hxp⟩, ?_, hspec.2.2, ?_⟩
      · right; exact ⟨x.val, [], [], rfl, rfl, rfl⟩
      · intro id hid; simp [MElemF.extId?] at hid
    | false =>
      have hxk := (KeyOk.same_false_iff hx.1 hkk).mp hs
      obtain ⟨g, hnew, hginv, hgl⟩ := S.newWith (ℓ := ℓ + 1) (by omega) hx hxp
      obtain ⟨e', old, c', h1, h2, h3, h4, h5⟩ := inlSet_spec_ref S S' hc hℓ hginv
        (Or.inr ⟨(x.key, x.val), hgl, hxk⟩) hkk hp hv c
      simp only [MElemF.set, hs, Bool.false_eq_true, if_false, hnew, bind, Except.bind, h1]
      refine ⟨_, _, _, rfl, h2, ?_, h4, fun id hid => Or.inr (h5 id hid)⟩
      rw [hgl] at h3; exact h3
  | inl g =>
    obtain ⟨hg, hcnt, hsole, _⟩ := h
    obtain ⟨e', old, c', h1, h2, h3, h4, h5⟩ := inlSet_spec_ref S S' hc hℓ hg
      (Or.inl (S.two_keys hg hcnt hsole)) hkk hp hv c
    simp only [MElemF.set, h1]
    exact ⟨_, _, _, rfl, h2, h3, h4, fun id hid => Or.inr (h5 id hid)⟩
  | ext id sz s =>
    obtain ⟨h0, hsz, hid, hsize, hfk, hg, hcnt, hsole⟩ := h
    obtain ⟨old, g', c', hset, hinv', heff, hctr⟩ := S'.set c hg (by omega) hkk hp hv
    have hlen : 2 ≤ (o.toList g').length := by
      have := heff.length_ge; have := S.two_keys hg hcnt hsole; omega
    obtain ⟨hcnt', hsole'⟩ := grp_of_two S.toOpsStruct hinv' hlen
    simp only [MElemF.set, if_neg hlev, hset, bind, Except.bind, pure, Except.pure, MElemF.groupSlabUpdate]
    refine ⟨_, _, _, rfl, ⟨h0, hsz, hid, rfl, rfl, hinv', hcnt', hsole'⟩, heff, ?_, ?_⟩
    · simp [Ctx.emit]; exact hctr
    · intro id' hid'; left; exact hid'

end MElemOk

namespace HInv
variable {T L : Nat} {D : DigestFn L} {cfg : MCfg} {α : Type} {o : ElemsOps α}
  {Inv : Nat → List Nat → α → Prop} {rr : Nat} {ℓ : Nat} {path : List Nat} {he : HkeyElems α}

theorem insertNew_spec_ref (S : OpsSpec T L D cfg o Inv rr) (hT : legalThreshold T = true) (hc : CfgFor cfg T L)
    (H : HInv T L D o Inv rr ℓ path he) {k : MKey} (hkk : KeyOk T L D k) (hpath : k.digs.take ℓ = path)
    {v : Elem} (hv : ValueOkR T k.size v) (c : Ctx) {q : Nat} (hq : q ≤ he.hkeys.length)
    (hlt : ∀ p a, p < q → he.hkeys[p]? = some a → a < k.dig ℓ)
    (hgt : ∀ p a, q ≤ p → he.hkeys[p]? = some a → k.dig ℓ < a) :
    SetPost T L D o Inv rr ℓ path he k (storedValue cfg k v c) c (HkeyElems.insertNew cfg he q (k.dig ℓ) k v c) := by
  have hp1 : k.digs.take (ℓ + 1) = path ++ [k.dig ℓ] := by rw [hkk.take_succ H.level_lt, hpath]
  rcases hts : toStorableLim (maxInlineMapValue cfg.T k.size) cfg.addr v c with ⟨vs, c1⟩
  have hsv : storedValue cfg k v c = vs := by simp [storedValue, hts]
  have hspec := toStorableLim_specR (T := cfg.T) (ks := k.size) (addr := cfg.addr) c (by rw [hc.hT]; exact hv)
    (by rw [hc.hT]; exact maxInlineMapValue_ge hT hkk.2.2)
  rw [hts, hc.hT] at hspec
  have hq' : q ≤ he.elems.length := by rw [← H.len_eq]; exact hq
  have hno : ∀ j : Nat, he.hkeys[j]? ≠ some (k.dig ℓ) := by
    intro j hj
    rcases Nat.lt_or_ge j q with h | h
    · have := hlt j _ h hj; omega
    · have := hgt j _ h hj; omega
  have habs := H.absent_of_dig S hno
  simp only [HkeyElems.insertNew, newSingleElement, hts, hsv, SetPost]
  refine ⟨trivial, ?_, ?_, hspec.2.2, ?_, ?_, ?_, ?_, ?_⟩
  · refine ⟨H.1, H.2.1, ?_, sorted_insertIdx H.sorted hq hlt hgt, ?_, ?_⟩
    · simp only [List.length_insertIdx, if_pos hq', H.len_eq]
    · simp only [HkeyElems.elemSizes]
      rw [sum_map_insertIdx _ hq', H.size_eq]
      simp only [HkeyElems.elemSizes, MElemF.size]; omega
    · intro j hk el hj hel
      rw [List.getElem?_insertIdx] at hj hel
      by_cases h1 : j < q
      · rw [if_pos h1] at hj hel; exact H.elemOk hj hel
      · rw [if_neg h1] at hj hel
        by_cases h2 : j = q
        · rw [if_pos h2] at hj hel
          rw [if_pos (by omega)] at hj hel
          cases hj; cases hel
          exact ⟨⟨hkk, hspec.1, hspec.2.1, rfl⟩, hp1⟩
        · rw [if_neg h2] at hj hel; exact H.elemOk hj hel
  · left
    refine ⟨rfl, habs, (he.elems.take q).flatMap (MElemF.toList o), (he.elems.drop q).flatMap (MElemF.toList o), ?_, ?_⟩
    · exact flatMap_take_drop q _
    · simp only [HkeyElems.toList]
      rw [flatMap_insertIdx _ hq']; rfl
  · intro id hid
    left
    rw [mem_extIds] at hid ⊢
    obtain ⟨e, he', hid⟩ := hid
    rw [List.mem_insertIdx hq'] at he'
    rcases he' with rfl | he'
    · simp [MElemF.extId?] at hid
    · exact ⟨e, he', hid⟩
  · intro x hx
    rw [List.mem_insertIdx hq] at hx
    rcases hx with rfl | hx
    · right; rfl
    · left; exact hx
  · intro x hx; rw [List.mem_insertIdx hq]; exact Or.inr hx
  · rw [List.mem_insertIdx hq]; exact Or.inl rfl
  · intro _
    have := single_size_le hT hkk.2.2 hspec.2.1
    simp only [digestSize] at *
    omega


theorem set_ref (S : OpsSpec T L D cfg o Inv rr) (S' : SetSpecR T L D cfg o Inv rr)
    (hT : legalThreshold T = true) (hc : CfgFor cfg T L)
    (H : HInv T L D o Inv rr ℓ path he) {k : MKey} (hkk : KeyOk T L D k) (hpath : k.digs.take ℓ = path)
    {v : Elem} (hv : ValueOkR T k.size v) (c : Ctx) :
    (Limited o cfg he ℓ k → HkeyElems.set o cfg he ℓ k v c = .error .collisionLimit) ∧
    (¬ Limited o cfg he ℓ k → ∃ res, HkeyElems.set o cfg he ℓ k v c = .ok res ∧
        SetPost T L D o Inv rr ℓ path he k (storedValue cfg k v c) c res) := by
  have hlev : ¬ (ℓ ≥ cfg.L) := by rw [hc.hL]; have := H.level_lt; omega
  have hp1 : k.digs.take (ℓ + 1) = path ++ [k.dig ℓ] := by rw [hkk.take_succ H.level_lt, hpath]
  by_cases hex : ∃ i : Nat, he.hkeys[i]? = some (k.dig ℓ)
  · obtain ⟨i, hi⟩ := hex
    obtain ⟨el, hel⟩ := H.elem_at hi
    rw [HkeyElems.set_eq_setAt o cfg he ℓ k v c H.sorted hlev hi hel]
    have hEl := H.elemOk hi hel
    obtain ⟨hloc, hP, hQ⟩ := H.locate S hi hel
    have hget := hEl.get S hc H.1 hkk hp1
    obtain ⟨el', old, c', hs, hEl', heff, hctr, hids⟩ := hEl.set_ref S S' hT hc H.1 hkk hp1 hv c
    have hcnt := hEl.count_pos
    have habs_iff : (∀ p ∈ HkeyElems.toList o he, p.1 ≠ k) ↔ (∀ p ∈ el.toList o, p.1 ≠ k) := by
      constructor
      · intro h p hp; apply h; rw [hloc]; exact List.mem_append_right _ (List.mem_append_left _ hp)
      · intro h p hp
        rw [hloc] at hp
        rcases List.mem_append.mp hp with hp | hp
        · exact hP p hp
        · rcases List.mem_append.mp hp with hp | hp
          · exact h p hp
          · exact hQ p hp
    constructor
    · rintro ⟨h0, i2, el2, hi2, hel2, hcl, habs⟩
      have := sorted_get_inj H.sorted hi2 hi
      subst this
      rw [hel] at hel2; cases hel2
      exact HkeyElems.setAt_limited el k v c i2 (by rw [H.2.1]; exact h0) hcnt hcl (hget.2 (habs_iff.mp habs))
    · intro hnl
      have hlim : he.level = 0 → 1 ≤ el.count o ∧ (cfg.climit ≤ el.count o - 1 → ∃ r, el.get o cfg ℓ k = .ok r) := by
        intro h0
        refine ⟨hcnt, ?_⟩
        intro hcl
        by_cases hpres : ∃ v0, (k, v0) ∈ el.toList o
        · obtain ⟨v0, hv0⟩ := hpres
          exact ⟨_, hget.1 v0 hv0⟩
        · exfalso
          apply hnl
          refine ⟨by rw [← H.2.1]; exact h0, i, el, hi, hel, hcl, habs_iff.mpr ?_⟩
          intro p hp hpk
          exact hpres ⟨p.2, by rw [← hpk]; exact hp⟩
      rw [HkeyElems.setAt_ok el k v c i hlim hs]
      refine ⟨_, rfl, rfl, ?_, ?_, hctr, ?_, ?_, ?_, ?_, ?_⟩
      · refine ⟨H.1, H.2.1, ?_, H.sorted, rfl, ?_⟩
        · simp only [List.length_set]; exact H.len_eq
        · intro j hk el2 hj hel2
          simp only [List.getElem?_set] at hel2
          by_cases hij : i = j
          · subst hij
            rw [if_pos rfl, if_pos (lt_of_getElem?_eq_some hel)] at hel2
            cases hel2
            rw [hi] at hj; cases hj
            exact hEl'
          · rw [if_neg hij] at hel2
            exact H.elemOk hj hel2
      · simp only
        have : HkeyElems.toList o { he with elems := he.elems.set i el', size := hkeyElementsPrefixSize + HkeyElems.elemSizes o (he.elems.set i el') }
            = (he.elems.take i).flatMap (MElemF.toList o) ++ (el'.toList o ++ (he.elems.drop (i + 1)).flatMap (MElemF.toList o)) := by
          simp only [HkeyElems.toList]; exact flatMap_set _ hel
        rw [this, hloc]
        exact heff.lift _ _ hP hQ
      · intro id hid
        simp only at hid ⊢
        rw [mem_extIds] at hid
        obtain ⟨e, he', hide⟩ := hid
        rcases List.mem_or_eq_of_mem_set he' with he' | rfl
        · left; rw [mem_extIds]; exact ⟨e, he', hide⟩
        · rcases hids id hide with h | h
          · left; rw [mem_extIds]; exact ⟨el, List.mem_of_getElem? hel, h⟩
          · right; exact h
      · intro x hx; left; exact hx
      · intro x hx; exact hx
      · exact List.mem_of_getElem? hi
      · intro h0
        simp only
        have h1 := hEl.size_le hT h0
        have h2 := hEl'.size_le hT h0
        have h3 := sum_map_set (fun e => MElemF.size o e + digestSize) (b := el') hel
        rw [H.size_eq]
        simp only [HkeyElems.elemSizes, digestSize] at *
        omega
  · have hno : ∀ j : Nat, he.hkeys[j]? ≠ some (k.dig ℓ) := fun j hj => hex ⟨j, hj⟩
    constructor
    · rintro ⟨_, i, _, hi, _⟩; exact absurd hi (hno i)
    · intro _
      obtain ⟨q, hq, hlt, hgt, heq⟩ := HkeyElems.set_absent o cfg he ℓ k v c H.sorted hlev hno
      exact ⟨_, heq, insertNew_spec_ref S hT hc H hkk hpath hv c hq hlt hgt⟩


theorem setSpecR (S : OpsSpec T L D cfg o Inv rr) (S' : SetSpecR T L D cfg o Inv rr)
    (hT : legalThreshold T = true) (hc : CfgFor cfg T L) :
    SetSpecR T L D cfg (HkeyElems.ops o) (HInv T L D o Inv rr) (rr + 1) where
  set := by
    intro ℓ path e k v c H h1 hk hp hv
    have hnl : ¬ Limited o cfg e ℓ k := by rintro ⟨h0, _⟩; omega
    obtain ⟨res, hres, hpost⟩ := (H.set_ref S S' hT hc hk hp hv c).2 hnl
    obtain ⟨rk, old, e', c'⟩ := res
    obtain ⟨h1, h2, h3, h4, _⟩ := hpost
    simp only at h1 h2 h3 h4
    subst h1
    exact ⟨old, e', c', hres, h2, h3, h4⟩

end HInv

theorem MElems.setSpecR {T L : Nat} (D : DigestFn L) {cfg : MCfg} (hT : legalThreshold T = true)
    (hc : CfgFor cfg T L) : ∀ r, SetSpecR T L D cfg (MElems.ops r) (ElemsInv T L D r) r
  | 0 => SingleElems.setSpecR hT hc
  | r + 1 => by
    rw [elemsInv_succ_eq]
    exact HInv.setSpecR (MElems.opsSpec D hT hc r) (MElems.setSpecR D hT hc r) hT hc

end Atree
