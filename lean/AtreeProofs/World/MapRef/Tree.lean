import AtreeProofs.World.MapRef.Data
import AtreeProofs.Map.TreeSet
/-
  `MTree.set` for `ValueOkR` values (the inductive step `set_spec_succ` does not look at the value
  and is reused).
-/
namespace Atree
open Gen

variable {T : Nat} {r : Nat} {D : DigestFn (r + 1)} {d : Nat} {cfg : MCfg}

theorem set_spec_zero_ref (hT : legalThreshold T = true) (hc : CfgFor cfg T (r + 1)) {top : Bool} (s : MDataSlab r)
    (hs : MDataLoose T D top s) {k : MKey} (hk : KeyOk T (r + 1) D k) {v : Elem} (hv : ValueOkR T k.size v) (c : Ctx) :
    (TLimited cfg 0 s k → MTree.set cfg 0 s k v c = .error .collisionLimit) ∧
    (¬ TLimited cfg 0 s k → ∃ old t' c', MTree.set cfg 0 s k v c = .ok (k, old, t', c') ∧
      TSetPost T D 0 top s t' k (storedValue cfg k v c) old c c') := by
  have hiff : TLimited cfg 0 s k ↔ Limited (MElems.ops r) cfg s.elems 0 k := by
    constructor
    · rintro ⟨s', hs', hl⟩
      have : s' = s := by simpa [MTree.leaves] using hs'
      subst this; exact hl
    · intro hl; exact ⟨s, by simp [MTree.leaves], hl⟩
  obtain ⟨h1, h2⟩ := MDataSlab.set_spec_ref hT hc hs hk hv c
  constructor
  · intro hl; exact h1 (hiff.mp hl)
  · intro hnl
    obtain ⟨old, s', c', heq, hp⟩ := h2 (fun h => hnl (hiff.mpr h))
    refine ⟨old, s', c', heq, ⟨hp.loose, hp.size_le, hp.eff, hp.ctr, ?_, hp.hk_new, hp.id_eq, ?_, hp.inl_eq⟩⟩
    · intro id hid
      rw [mapSlabIds_zero] at hid ⊢
      rcases List.mem_cons.mp hid with h | h
      · left; rw [h, hp.id_eq]; exact List.mem_cons_self
      · rcases hp.ids id h with h' | h'
        · left; exact List.mem_cons_of_mem _ h'
        · right; exact h'
    · show LeafRel [s] [s']
      refine ⟨by simp, by simp, fun _ => ?_, fun nxt h => ?_⟩
      · simp only [firstId]; exact hp.id_eq
      · simp only [ChainTo] at h ⊢; rw [hp.next_eq]; exact h

theorem MTree.set_spec_ref (hT : legalThreshold T = true) (hc : CfgFor cfg T (r + 1)) {k : MKey}
    (hk : KeyOk T (r + 1) D k) {v : Elem} (hv : ValueOkR T k.size v) :
    ∀ (d : Nat) (top : Bool) (t : MTree r d) (c : Ctx), MTreeInv T D d top t →
    (TLimited cfg d t k → MTree.set cfg d t k v c = .error .collisionLimit) ∧
    (¬ TLimited cfg d t k → ∃ old t' c', MTree.set cfg d t k v c = .ok (k, old, t', c') ∧
      TSetPost T D d top t t' k (storedValue cfg k v c) old c c')
  | 0, _, s, c, h => set_spec_zero_ref hT hc s ((mtreeInv_zero_iff T D _ _).mp h).loose hk hv c
  | d + 1, _, m, c, h =>
    have h' := MTreeInv.two_children hT h
    set_spec_succ hT hc.hT m h'.1 h'.2.1 c
      (fun ch hch => MTree.set_spec_ref hT hc hk hv d false ch c (h'.1.2.2.2.2.1 ch hch))

end Atree
