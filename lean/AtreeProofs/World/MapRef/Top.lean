import AtreeProofs.World.MapRef.Tree
import AtreeProofs.Map.MapOps
import AtreeProofs.Map.Example
/-
  `OMap.set` for `ValueOkR` values, and a concrete instance with a reference value.
-/
namespace Atree
open Gen

variable {T : Nat} {r : Nat} {D : DigestFn (r + 1)} {cfg : MCfg}

theorem OMap.set_spec_ref (hT : legalThreshold T = true) {m : OMap r} (hcfg : CfgOk cfg T m) (h : MapInv T D m)
    {k : MKey} (hk : KeyOk T (r + 1) D k) {v : Elem} (hv : ValueOkR T k.size v) (c : Ctx) :
    (TLimited cfg m.d m.root k → m.set cfg k v c = .error .collisionLimit) ∧
    (¬ TLimited cfg m.d m.root k → ∃ old m' c', m.set cfg k v c = .ok (old, m', c') ∧
      OSetPost T D cfg m m' k v old c c') := by
  have hc' : CfgFor cfg T (r + 1) := ⟨hcfg.1, hcfg.2.1⟩
  obtain ⟨d, root, ty, cnt, seed⟩ := m
  obtain ⟨h1, h2⟩ := MTree.set_spec_ref hT hc' hk hv d true root c h.tree
  constructor
  · intro hl
    have := h1 hl
    simp only [OMap.set, this, bind, Except.bind]
  · intro hnl
    obtain ⟨old, root', c1, heq, hp⟩ := h2 hnl
    have hinl : treeInl d root' = false := by
      rw [hp.inl, ← isInlined_eq d root ty cnt seed]; exact h.standalone
    have hle : (MTree.hdr d root').size ≤ maxThr T + slack1 T d := by
      have := hp.size_le; have := MTreeInv.le_max d true root h.tree; omega
    have hchain : ChainTo (MTree.leaves d root') SlabID.undef :=
      hp.leaves.2.2.2 _ ((mLeafChain_iff _).mp h.chain)
    obtain ⟨m3, c3, heq3, hpost⟩ := root_fixup hT d root' ty (if old.isNone then cnt + 1 else cnt) seed c1
      hp.sinv hinl hle hchain
    have hT' : cfg.T = T := hcfg.1
    refine ⟨old, m3, c3, ?_, ?_⟩
    · simp only [OMap.set, heq, bind, Except.bind, pure, Except.pure, hT']
      simp only [heq3]
    · have htl : m3.toList = MTree.toList d root' := hpost.toList
      have hcnt : cnt = (MTree.toList d root).length := h.count_eq
      have hlen := hp.eff.length
      have hrid : m3.rootID = (⟨d, root, ty, cnt, seed⟩ : OMap r).rootID := by
        rw [hpost.rootID]; exact hp.id_eq
      refine ⟨by rw [htl]; exact hp.eff, MapInv.of_rootPost hpost ?_, ?_, hrid, hpost.ty, hpost.seed, hpost.count⟩
      · rw [hpost.count, htl, hlen]
        show (if old.isNone then cnt + 1 else cnt) = _
        cases old <;> simp [hcnt]
      · intro hc
        refine ctxOk_of hc (by have := hp.ctr; have := hpost.ctr; omega) hrid ?_
        intro id hid
        rcases hpost.ids id hid with h' | h'
        · rcases hp.ids id h' with h'' | h''
          · exact Or.inl h''
          · right; have := hpost.ctr; omega
        · exact Or.inr h'

/-- a reference stored through `OMap.set` ends up in the map as it is -/
theorem OSetPost.mem_ref {m m' : OMap r} {k : MKey} {v : Elem} {old : Option Elem} {c c' : Ctx}
    (hp : OSetPost T D cfg m m' k v old c c') (id : SlabID) (h : v.pay = .ref id) : (k, v) ∈ m'.toList := by
  have heff := hp.eff
  rw [storedValue_ref cfg k v c id h] at heff
  rcases heff with ⟨_, _, A, B, _, hl⟩ | ⟨v0, A, B, _, _, hl⟩ <;> rw [hl] <;> simp

/-! ### Non-vacuity: a reference value stored in the concrete map `MapExample.run` -/
namespace MapRefExample
open MapExample

/-- a value of 19 bytes referring to the slab `⟨1, 7⟩` (a child container) -/
def refVal : Elem := ⟨19, .ref ⟨1, 7⟩⟩

theorem refVal_ok (n : Nat) : ValueOkR 256 (key n).size refVal :=
  ⟨(by decide : 1 ≤ 19), Or.inr (by decide : 19 ≤ maxInlineMapValue 256 10)⟩

/-- `refVal` is not a `ValueOkM` value: the existing `OMap.set_spec` does not apply to it -/
example : ¬ ValueOkM refVal := by rintro ⟨_, n, hn⟩; cases hn

/-- the theorem applies as it is -/
example := OMap.set_spec_ref legal256 run_good.cfgok run_good.inv (key_ok 312) (refVal_ok 312) run.2

/-- `set` of a reference succeeds on the concrete map (overwriting inside the external collision group
    under digest 3, and inserting a new key under the free digest 4), with all of `OSetPost`, and the
    reference itself is then in the map -/
theorem set_ref_example (n : Nat)
    (hrun : (run.1.set cfg2 (key n) refVal run.2).toOption.isSome = true) :
    ∃ old m' c', run.1.set cfg2 (key n) refVal run.2 = .ok (old, m', c') ∧
      OSetPost 256 D2 cfg2 run.1 m' (key n) refVal old run.2 c' ∧ (key n, refVal) ∈ m'.toList := by
  have hs := OMap.set_spec_ref legal256 run_good.cfgok run_good.inv (key_ok n) (refVal_ok n) run.2
  have hnl : ¬ TLimited cfg2 run.1.d run.1.root (key n) := by
    intro hl
    rw [hs.1 hl] at hrun
    exact absurd hrun (by decide)
  obtain ⟨old, m', c', heq, hp⟩ := hs.2 hnl
  exact ⟨old, m', c', heq, hp, hp.mem_ref ⟨1, 7⟩ rfl⟩

example := set_ref_example 312 (by decide)
example := set_ref_example 431 (by decide)

end MapRefExample

end Atree
