import AtreeProofs.World.MapRef.Hkey
import AtreeProofs.Map.DataSlab
/-
  `MDataSlab.set` for `ValueOkR` values, on any slab satisfying `MDataLoose` (inlined or not).
-/
namespace Atree
open Gen

namespace MDataSlab
variable {T : Nat} {r : Nat} {D : DigestFn (r + 1)} {cfg : MCfg}

theorem set_spec_ref (hT : legalThreshold T = true) (hc : CfgFor cfg T (r + 1)) {top : Bool} {s : MDataSlab r}
    (hs : MDataLoose T D top s) {k : MKey} (hk : KeyOk T (r + 1) D k) {v : Elem} (hv : ValueOkR T k.size v) (c : Ctx) :
    (Limited (MElems.ops r) cfg s.elems 0 k → s.set cfg k v c = .error .collisionLimit) ∧
    (¬ Limited (MElems.ops r) cfg s.elems 0 k → ∃ old s' c', s.set cfg k v c = .ok (k, old, s', c') ∧
        SetPost T D top s s' k (storedValue cfg k v c) old c c') := by
  obtain ⟨h1, h2⟩ := hs.hinv.set_ref (MElems.opsSpec D hT hc r) (MElems.setSpecR D hT hc r) hT hc hk rfl hv c
  constructor
  · intro hl
    have := h1 hl
    simp only [MDataSlab.set, eops, this, bind, Except.bind]
  · intro hnl
    obtain ⟨⟨rk, old, e', c'⟩, hres, hpost⟩ := h2 hnl
    obtain ⟨p1, p2, p3, p4, p5, p6, p7, p8, p9⟩ := hpost
    simp only at p1 p2 p3 p4 p5 p6 p7 p8 p9
    subst p1
    have hp := p9 trivial
    simp only [MDataSlab.set, eops, hres, bind, Except.bind, pure, Except.pure]
    refine ⟨_, _, _, rfl, ?_⟩
    refine ⟨⟨(elemsInv_succ_iff T (r + 1) D r 0 [] e').mpr p2, rfl, rfl, hs.root_eq, hs.inl_root⟩,
      p3, ?_, ?_, p6, p7, p8, rfl, rfl, rfl, ?_, ?_⟩
    · rw [storeIfNotInlined_ctr]; exact p4
    · intro id hid
      rcases p5 id hid with h | h
      · exact Or.inl h
      · right; rw [storeIfNotInlined_ctr]; exact h
    · simp only [maxEntry]; rw [hs.size_eq]; show s.prefixSize + e'.size ≤ _; omega
    · rw [hs.size_eq]; show _ ≤ s.prefixSize + e'.size + _; omega


end MDataSlab
end Atree
