import AtreeProofs.Map.HkeySpec
/-
  The `set` path of the map for values that may carry a reference payload (a child container),
  provided they fit the per-element inline limit: `ValueOkR`.  This file: `toStorableLim`, the
  generalised `set` field (`SetSpecR`) and its instance for `SingleElems.ops`.

  The proofs are copies of the `ValueOkM` chain (`SingleLemmas`, `ElemLemmas`, `HkeyOps`, `HkeySet`,
  `HkeySpec`, `DataSlab`, `TreeSet`, `MapOps`) with `toStorableLim_spec` replaced by
  `toStorableLim_specR`.
-/
namespace Atree
open Gen

/-- a value the map can store next to a key of size `ks`: a plain value of any size (it is externalised
    when too large), or any value (e.g. a reference to a child container) that fits the inline limit -/
def ValueOkR (T ks : Nat) (v : Elem) : Prop :=
  1 ≤ v.size ∧ ((∃ n, v.pay = .val n) ∨ v.size ≤ maxInlineMapValue T ks)

theorem ValueOkM.okR {v : Elem} (h : ValueOkM v) (T ks : Nat) : ValueOkR T ks v := ⟨h.1, Or.inl h.2⟩

theorem ValueOkR.of_le {T ks : Nat} {v : Elem} (h1 : 1 ≤ v.size) (h2 : v.size ≤ maxInlineMapValue T ks) :
    ValueOkR T ks v := ⟨h1, Or.inr h2⟩

/-- a reference is stored as it is (the same statement is `toStorableLim_ref` of
    `AtreeProofs/World/PopMapParent.lean`, which this file does not import) -/
theorem toStorableLim_refR (lim addr : Nat) (v : Elem) (c : Ctx) (r : SlabID) (h : v.pay = .ref r) :
    toStorableLim lim addr v c = (v, c) := by
  unfold toStorableLim; rw [h]

/-- a value within the limit is stored as it is -/
theorem toStorableLim_of_le (lim addr : Nat) (v : Elem) (c : Ctx) (h : v.size ≤ lim) :
    toStorableLim lim addr v c = (v, c) := by
  unfold toStorableLim
  split
  · rfl
  · rw [if_neg (by omega)]

theorem storedValue_ref (cfg : MCfg) (k : MKey) (v : Elem) (c : Ctx) (r : SlabID) (h : v.pay = .ref r) :
    storedValue cfg k v c = v := by
  simp only [storedValue, toStorableLim_refR _ _ v c r h]

theorem toStorableLim_specR {T ks addr : Nat} {v : Elem} (c : Ctx) (hv : ValueOkR T ks v)
    (hlim : slabIDStorableSize ≤ maxInlineMapValue T ks) :
    1 ≤ (toStorableLim (maxInlineMapValue T ks) addr v c).1.size ∧
    (toStorableLim (maxInlineMapValue T ks) addr v c).1.size ≤ maxInlineMapValue T ks ∧
    c.ctr ≤ (toStorableLim (maxInlineMapValue T ks) addr v c).2.ctr := by
  obtain ⟨h1, h2 | h2⟩ := hv
  · exact toStorableLim_spec c ⟨h1, h2⟩ hlim
  · rw [toStorableLim_of_le _ _ _ _ h2]
    exact ⟨h1, h2, Nat.le_refl _⟩

/-- the `set` field of `OpsSpec` for `ValueOkR` values -/
structure SetSpecR (T L : Nat) (D : DigestFn L) (cfg : MCfg) {α : Type} (o : ElemsOps α)
    (Inv : Nat → List Nat → α → Prop) (rr : Nat) : Prop where
  set : ∀ {ℓ path e k v} (c : Ctx), Inv ℓ path e → 1 ≤ ℓ → KeyOk T L D k → k.digs.take ℓ = path →
    ValueOkR T k.size v →
    ∃ old e' c', o.set cfg e ℓ k v c = .ok (k, old, e', c') ∧ Inv ℓ path e' ∧
      SetEffect (o.toList e) (o.toList e') k (storedValue cfg k v c) old ∧ c.ctr ≤ c'.ctr

namespace SingleElems
variable {T L : Nat} {D : DigestFn L} {cfg : MCfg}

theorem set_spec_ref (hT : legalThreshold T = true) (hc : CfgFor cfg T L) {e : SingleElems} {ℓ : Nat} {path : List Nat}
    (h : ElemsInv T L D 0 ℓ path e) {k : MKey} (hk : KeyOk T L D k) (hp : k.digs.take ℓ = path)
    {v : Elem} (hv : ValueOkR T k.size v) (c : Ctx) :
    ∃ old e' c', SingleElems.set cfg e ℓ k v c = .ok (k, old, e', c') ∧ ElemsInv T L D 0 ℓ path e' ∧
      SetEffect (e.elems.map pairOf) (e'.elems.map pairOf) k (storedValue cfg k v c) old ∧ c.ctr ≤ c'.ctr := by
  have hinv := (inv_iff ℓ path e).mp h
  have hℓ : (ℓ ≠ cfg.L) ↔ False := by rw [hc.hL]; simp [hinv.1]
  have hcT := hc.hT
  rcases hts : toStorableLim (maxInlineMapValue cfg.T k.size) cfg.addr v c with ⟨vs, c1⟩
  have hsv : storedValue cfg k v c = vs := by simp [storedValue, hts]
  have hspec := toStorableLim_specR (T := cfg.T) (ks := k.size) (addr := cfg.addr) c (by rw [hc.hT]; exact hv)
    (by rw [hcT]; exact maxInlineMapValue_ge hT hk.2.2)
  rw [hts, hcT] at hspec
  rw [hsv]
  have hall := allKeyOk h
  by_cases hex : ∃ v0, (k, v0) ∈ e.elems.map pairOf
  · obtain ⟨v0, hm⟩ := hex
    obtain ⟨A, x, B, hAB, hxk, hxv, hA, hB⟩ := split_of_mem h hm
    have hf : e.elems.findIdx? (fun x => x.key.same k) = some A.length := by
      rw [hAB]; exact findIdx?_zipper hA (by rw [hxk]; exact MKey.same_self k)
    have hg : e.elems[A.length]? = some x := by rw [hAB]; exact getElem?_zipper A B x
    subst hxk
    have heff : SetEffect (e.elems.map pairOf) ((A ++ { x with val := vs, size := singleElementPrefixSize + x.key.size + vs.size } :: B).map pairOf)
        x.key vs (some x.val) := by
      right
      refine ⟨x.val, A.map pairOf, B.map pairOf, rfl, ?_, ?_⟩
      · rw [hAB]; simp [pairOf]
      · simp [pairOf]
    simp only [SingleElems.set, hℓ, if_false, hf, hg, hts]
    refine ⟨_, _, _, rfl, ?_, ?_, hspec.2.2⟩
    · rw [inv_iff]
      simp only
      rw [hAB, set_zipper]
      refine ⟨hinv.1, hinv.2.1, trivial, ?_, ?_⟩
      · intro y hy
        rcases List.mem_append.mp hy with hy | hy
        · exact hinv.2.2.2.1 y (by rw [hAB]; exact List.mem_append_left _ hy)
        · rcases List.mem_cons.mp hy with rfl | hy
          · have hx := hinv.2.2.2.1 x (by rw [hAB]; simp)
            exact ⟨⟨hx.1.1, hspec.1, hspec.2.1, rfl⟩, hx.2⟩
          · exact hinv.2.2.2.1 y (by rw [hAB]; simp [hy])
      · exact (SetEffect.spec hall hinv.2.2.2.2 hk heff).2.2.1
    · simp only
      rw [hAB, set_zipper, ← hAB]
      rw [hxv]; rw [hxv] at heff; exact heff
  · have hne : ∀ p ∈ e.elems.map pairOf, p.1 ≠ k := by
      intro p hp hpk
      exact hex ⟨p.2, by rw [← hpk]; exact hp⟩
    have hf : e.elems.findIdx? (fun x => x.key.same k) = none := by
      rw [List.findIdx?_eq_none_iff]; intro x hx; simp [absent h hk hne x hx]
    have heff : SetEffect (e.elems.map pairOf) ((e.elems ++ [({ key := k, val := vs, size := singleElementPrefixSize + k.size + vs.size } : SElem)]).map pairOf)
        k vs none := by
      left
      refine ⟨rfl, hne, e.elems.map pairOf, [], by simp, by simp [pairOf]⟩
    simp only [SingleElems.set, hℓ, if_false, hf, newSingleElement, hts]
    refine ⟨_, _, _, rfl, ?_, heff, hspec.2.2⟩
    rw [inv_iff]
    simp only
    refine ⟨hinv.1, hinv.2.1, ?_, ?_, ?_⟩
    · rw [hinv.2.2.1]; simp [List.sum_append]; omega
    · intro y hy
      rcases List.mem_append.mp hy with hy | hy
      · exact hinv.2.2.2.1 y hy
      · simp only [List.mem_singleton] at hy
        subst hy
        exact ⟨⟨hk, hspec.1, hspec.2.1, rfl⟩, hp⟩
    · exact (SetEffect.spec hall hinv.2.2.2.2 hk heff).2.2.1

theorem setSpecR (hT : legalThreshold T = true) (hc : CfgFor cfg T L) :
    SetSpecR T L D cfg SingleElems.ops (ElemsInv T L D 0) 0 where
  set := by
    intro ℓ path e k v c h _ hk hp hv
    exact set_spec_ref hT hc h hk hp hv c

end SingleElems
end Atree
