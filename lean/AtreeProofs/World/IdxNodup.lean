import AtreeProofs.World.Frame
/-
  `IdxNodup`: no index table of `World.mutIdx` lists a key twice.

  Go's `mutableElementIndex` is a Go map (`map[ValueID]uint64`): a key occurs at most once.  The
  model keeps it as an association list.  Every operation of the World model writes the tables only
  through `AList.insert` (= cons ∘ erase), `AList.erase`, a map over the values (`shiftIdx`), the
  empty table, or erases / replaces a whole table, so "no key twice" is an invariant of EVERY
  operation, from ANY world, without `WorldOk`: it is a purely functional fact about the
  transcription (audit a5, S6).
-/
namespace Atree
open Gen

namespace AList
variable {κ : Type} {α β : Type}

/-- mapping the values keeps the keys -/
theorem keys_map_val (m : AList κ α) (f : α → β) :
    keys (m.map (fun e => (e.1, f e.2))) = keys m :=
  keys_map_snd m (fun _ v => f v)

theorem nodup_keys_map_val (m : AList κ α) (f : α → β) (h : (keys m).Nodup) :
    (keys (m.map (fun e => (e.1, f e.2)))).Nodup := by
  rw [keys_map_val]; exact h

theorem nodup_keys_nil : (keys ([] : AList κ α)).Nodup := List.nodup_nil

end AList

namespace World

/-- no index table lists a value ID twice (Go: `mutableElementIndex` is a Go map) -/
def IdxNodup (w : World) : Prop := ∀ p, (AList.keys (w.idxOf p)).Nodup

/-- `IdxNodup` depends on `mutIdx` only -/
theorem IdxNodup.of_mutIdx {w w' : World} (h : IdxNodup w) (hm : w'.mutIdx = w.mutIdx) : IdxNodup w' := by
  intro p
  have := h p
  unfold idxOf at this ⊢
  rw [hm]; exact this

/-- the empty world -/
theorem idxNodup_empty (T addr : Nat) : IdxNodup { T := T, addr := addr } := by
  intro p
  exact List.nodup_nil

/-! ### the table accessors -/

theorem IdxNodup.setCont {w : World} (h : IdxNodup w) (vid : SlabID) (c : Cont) : IdxNodup (w.setCont vid c) :=
  h.of_mutIdx rfl

theorem IdxNodup.setIdx {w : World} (h : IdxNodup w) (p : SlabID) (m : AList SlabID Nat)
    (hm : (AList.keys m).Nodup) : IdxNodup (w.setIdx p m) := by
  intro q
  rw [idxOf_setIdx]
  split
  · exact hm
  · exact h q

theorem IdxNodup.shiftIdx {w : World} (h : IdxNodup w) (p : SlabID) (f : Nat → Nat) : IdxNodup (w.shiftIdx p f) :=
  h.setIdx p _ (AList.nodup_keys_map_val _ f (h p))

/-- `Array.Set` / `Array.Remove` delete the entry of the overwritten / removed child -/
theorem IdxNodup.eraseIdx {w : World} (h : IdxNodup w) (p x : SlabID) :
    IdxNodup (w.setIdx p (AList.erase (w.idxOf p) x)) :=
  h.setIdx p _ (AList.nodup_keys_erase _ x (h p))

/-- `PopIterate` clears the table -/
theorem IdxNodup.clearIdx {w : World} (h : IdxNodup w) (p : SlabID) : IdxNodup (w.setIdx p []) :=
  h.setIdx p _ List.nodup_nil

theorem IdxNodup.setHinfo {w : World} (h : IdxNodup w) (H : AList SlabID HInfo) : IdxNodup { w with hinfo := H } :=
  h.of_mutIdx rfl

theorem IdxNodup.setCallbackArr {w : World} (h : IdxNodup w) (p : SlabID) (i : Nat) (v : WVal) :
    IdxNodup (w.setCallbackArr p i v) := by
  cases v with
  | plain e => exact h
  | child vid wrap =>
    have h1 : IdxNodup (w.setIdx p (AList.insert (w.idxOf p) vid i)) :=
      h.setIdx p _ (AList.nodup_keys_insert _ vid i (h p))
    exact h1.of_mutIdx rfl

theorem IdxNodup.setCallbackMap {w : World} (h : IdxNodup w) (p : SlabID) (k : MKey) (v : WVal) :
    IdxNodup (w.setCallbackMap p k v) := by
  cases v with
  | plain e => exact h
  | child vid wrap => exact h.of_mutIdx rfl

/-- `forget` drops a whole table: the table of an erased key reads as `[]` -/
theorem IdxNodup.eraseAll {w : World} (h : IdxNodup w) (vid : SlabID) :
    IdxNodup { w with conts := AList.erase w.conts vid, hinfo := AList.erase w.hinfo vid,
                      mutIdx := AList.erase w.mutIdx vid } := by
  intro q
  have hq := h q
  simp only [idxOf, AList.find?_erase] at hq ⊢
  split
  · exact List.nodup_nil
  · exact hq

theorem IdxNodup.reopen {w : World} (_h : IdxNodup w) : IdxNodup w.reopen := by
  intro p
  exact List.nodup_nil

/-- reopening yields `IdxNodup` from any world -/
theorem idxNodup_reopen (w : World) : IdxNodup w.reopen := by
  intro p
  exact List.nodup_nil

/-! ### `Storable()` and `uninlineStorableIfNeeded` touch no index table -/

theorem IdxNodup.childStorable {w : World} (h : IdxNodup w) {x : SlabID} {wrap lim : Nat} {cx : Ctx}
    {e : Elem} {w' : World} {cx' : Ctx} (hs : w.childStorable x wrap lim cx = .ok (e, w', cx')) :
    IdxNodup w' :=
  h.of_mutIdx (childStorable_frame hs).2.1

theorem IdxNodup.storableOf {w : World} (h : IdxNodup w) {v : WVal} {lim : Nat} {cx : Ctx}
    {e : Elem} {w' : World} {cx' : Ctx} (hs : w.storableOf v lim cx = .ok (e, w', cx')) :
    IdxNodup w' :=
  h.of_mutIdx (storableOf_frame hs).2.1

theorem IdxNodup.uninlineIfNeeded {w : World} (h : IdxNodup w) {e : Elem} {cx : Ctx}
    {e' : Elem} {ov : Option SlabID} {w' : World} {cx' : Ctx}
    (hs : w.uninlineIfNeeded e cx = .ok (e', ov, w', cx')) : IdxNodup w' :=
  h.of_mutIdx (uninlineIfNeeded_ok hs).2.2.1

/-! ### the mutual block `notifyParent` / `arrSetRaw` / `mapSetRaw` -/

/-- The three preservation statements, proved simultaneously by induction on the fuel. -/
theorem mutual_idxNodup (fuel : Nat) :
    (∀ w x cx w' cx', IdxNodup w → notifyParent fuel w x cx = .ok (w', cx') → IdxNodup w') ∧
    (∀ w p i v cx old w' cx', IdxNodup w → arrSetRaw fuel w p i v cx = .ok (old, w', cx') → IdxNodup w') ∧
    (∀ w p k v cx old w' cx', IdxNodup w → mapSetRaw fuel w p k v cx = .ok (old, w', cx') → IdxNodup w') := by
  have harr : ∀ fuel,
      (∀ w x cx w' cx', IdxNodup w → notifyParent fuel w x cx = .ok (w', cx') → IdxNodup w') →
      (∀ w p i v cx old w' cx', IdxNodup w → arrSetRaw fuel w p i v cx = .ok (old, w', cx') → IdxNodup w') := by
    intro fuel ihn w p i v cx old w' cx' hw h
    rw [arrSetRaw] at h
    split at h
    · split at h
      · cases h
      · split at h
        · cases h
        · rename_i e w1 cx1 hst
          split at h
          · cases h
          · rename_i old1 a' cx2 hset
            simp only at h
            split at h
            · cases h
            · rename_i w3 cx3 hnp
              cases h
              exact (ihn _ _ _ _ _ ((hw.storableOf hst).setCont p _) hnp).setCallbackArr p i v
    · cases h
  have hmap : ∀ fuel,
      (∀ w x cx w' cx', IdxNodup w → notifyParent fuel w x cx = .ok (w', cx') → IdxNodup w') →
      (∀ w p k v cx old w' cx', IdxNodup w → mapSetRaw fuel w p k v cx = .ok (old, w', cx') → IdxNodup w') := by
    intro fuel ihn w p k v cx old w' cx' hw h
    rw [mapSetRaw] at h
    split at h
    · split at h
      · cases h
      · rename_i e w1 cx1 hst
        split at h
        · cases h
        · rename_i old1 m' cx2 hset
          simp only at h
          split at h
          · cases h
          · rename_i w3 cx3 hnp
            cases h
            exact (ihn _ _ _ _ _ ((hw.storableOf hst).setCont p _) hnp).setCallbackMap p k v
    · cases h
  have hnot : ∀ fuel,
      (∀ w x cx w' cx', IdxNodup w → notifyParent fuel w x cx = .ok (w', cx') → IdxNodup w') := by
    intro fuel
    induction fuel with
    | zero => intro w x cx w' cx' _ h; rw [notifyParent] at h; cases h
    | succ fuel ih =>
      intro w x cx w' cx' hw h
      have hnf : IdxNodup { w with hinfo := AList.erase w.hinfo x } := hw.setHinfo _
      rw [notifyParent] at h
      split at h
      · cases h; exact hw
      · cases h
      · rename_i hi c hhi hc
        split at h
        · cases h; exact hw
        · simp only at h
          split at h
          · cases h; exact hnf
          · -- array parent
            split at h
            · cases h; exact hnf
            · split at h
              · cases h
              · split at h
                · cases h; exact hnf
                · split at h
                  · cases h
                  · rename_i old w2 cx2 hset
                    split at h
                    · cases h
                    · cases h
                      exact harr fuel ih _ _ _ _ _ _ _ _ hw hset
          · -- map parent
            split at h
            · cases h
            · split at h
              · cases h; exact hnf
              · cases h
              · split at h
                · cases h; exact hnf
                · split at h
                  · cases h
                  · rename_i old w2 cx2 hset
                    split at h
                    · split at h
                      · cases h
                      · cases h
                        exact hmap fuel ih _ _ _ _ _ _ _ _ hw hset
                    · cases h
  exact ⟨hnot fuel, harr fuel (hnot fuel), hmap fuel (hnot fuel)⟩

theorem IdxNodup.notifyParent {w : World} (h : IdxNodup w) {fuel : Nat} {x : SlabID} {cx : Ctx}
    {w' : World} {cx' : Ctx} (hn : World.notifyParent fuel w x cx = .ok (w', cx')) : IdxNodup w' :=
  (mutual_idxNodup fuel).1 _ _ _ _ _ h hn

theorem IdxNodup.arrSetRaw {w : World} (h : IdxNodup w) {fuel : Nat} {p : SlabID} {i : Nat} {v : WVal} {cx : Ctx}
    {old : Elem} {w' : World} {cx' : Ctx} (hs : World.arrSetRaw fuel w p i v cx = .ok (old, w', cx')) :
    IdxNodup w' :=
  (mutual_idxNodup fuel).2.1 _ _ _ _ _ _ _ _ h hs

theorem IdxNodup.mapSetRaw {w : World} (h : IdxNodup w) {fuel : Nat} {p : SlabID} {k : MKey} {v : WVal} {cx : Ctx}
    {old : Option Elem} {w' : World} {cx' : Ctx} (hs : World.mapSetRaw fuel w p k v cx = .ok (old, w', cx')) :
    IdxNodup w' :=
  (mutual_idxNodup fuel).2.2 _ _ _ _ _ _ _ _ h hs

/-! ### the public operations -/

theorem IdxNodup.newArr {w : World} (h : IdxNodup w) (ty : Nat) (cx : Ctx) : IdxNodup (w.newArr ty cx).2.1 :=
  h.of_mutIdx rfl

theorem IdxNodup.newMap {w : World} (h : IdxNodup w) (ty seed : Nat) (cx : Ctx) : IdxNodup (w.newMap ty seed cx).2.1 :=
  h.of_mutIdx rfl

theorem IdxNodup.arrInsert {w : World} (hw : IdxNodup w) {p : SlabID} {i : Nat} {v : WVal} {cx : Ctx}
    {w' : World} {cx' : Ctx} (h : w.arrInsert p i v cx = .ok (w', cx')) : IdxNodup w' := by
  unfold World.arrInsert at h
  split at h
  · split at h
    · cases h
    · simp only [bind, Except.bind] at h
      split at h
      · cases h
      · rename_i r hst
        obtain ⟨e, w1, cx1⟩ := r
        simp only at h
        split at h
        · cases h
        · split at h
          · cases h
          · rename_i r2 hnp
            obtain ⟨w3, cx3⟩ := r2
            simp only [pure, Except.pure] at h
            cases h
            exact ((((hw.storableOf hst).setCont p _).shiftIdx p _).notifyParent hnp).setCallbackArr p i v
  · cases h

theorem IdxNodup.arrSet {w : World} (hw : IdxNodup w) {p : SlabID} {i : Nat} {v : WVal} {cx : Ctx}
    {old : Elem} {w' : World} {cx' : Ctx} (h : w.arrSet p i v cx = .ok (old, w', cx')) : IdxNodup w' := by
  unfold World.arrSet at h
  simp only [bind, Except.bind] at h
  split at h
  · cases h
  · rename_i r hset
    obtain ⟨old1, w1, cx1⟩ := r
    simp only at h
    split at h
    · cases h
    · rename_i r2 hun
      obtain ⟨old2, ov, w2, cx2⟩ := r2
      simp only [pure, Except.pure] at h
      cases h
      have h2 : IdxNodup w2 := (hw.arrSetRaw hset).uninlineIfNeeded hun
      cases ov with
      | none => exact h2
      | some o =>
        simp only
        repeat' split
        all_goals first | exact h2 | exact h2.eraseIdx _ _

theorem IdxNodup.arrRemove {w : World} (hw : IdxNodup w) {p : SlabID} {i : Nat} {cx : Ctx}
    {old : Elem} {w' : World} {cx' : Ctx} (h : w.arrRemove p i cx = .ok (old, w', cx')) : IdxNodup w' := by
  unfold World.arrRemove at h
  split at h
  · split at h
    · cases h
    · simp only [bind, Except.bind] at h
      split at h
      · cases h
      · rename_i r hnp
        obtain ⟨w3, cx3⟩ := r
        simp only at h
        split at h
        · cases h
        · rename_i r2 hun
          obtain ⟨old2, ov, w4, cx4⟩ := r2
          simp only [pure, Except.pure] at h
          cases h
          have h4 : IdxNodup w4 := (((hw.setCont p _).shiftIdx p _).notifyParent hnp).uninlineIfNeeded hun
          split
          · exact h4
          · exact h4.eraseIdx _ _
  · cases h

theorem IdxNodup.mapSet {w : World} (hw : IdxNodup w) {p : SlabID} {k : MKey} {v : WVal} {cx : Ctx}
    {old : Option Elem} {w' : World} {cx' : Ctx} (h : w.mapSet p k v cx = .ok (old, w', cx')) : IdxNodup w' := by
  unfold World.mapSet at h
  simp only [bind, Except.bind] at h
  split at h
  · cases h
  · rename_i r hset
    obtain ⟨old1, w1, cx1⟩ := r
    simp only at h
    have h1 : IdxNodup w1 := hw.mapSetRaw hset
    split at h
    · simp only [pure, Except.pure] at h
      cases h; exact h1
    · split at h
      · cases h
      · rename_i r2 hun
        obtain ⟨o', ov, w2, cx2⟩ := r2
        simp only [pure, Except.pure] at h
        cases h
        exact h1.uninlineIfNeeded hun

theorem IdxNodup.mapRemove {w : World} (hw : IdxNodup w) {p : SlabID} {k : MKey} {cx : Ctx}
    {rk : MKey} {rv : Elem} {w' : World} {cx' : Ctx} (h : w.mapRemove p k cx = .ok (rk, rv, w', cx')) :
    IdxNodup w' := by
  unfold World.mapRemove at h
  split at h
  · split at h
    · cases h
    · simp only [bind, Except.bind] at h
      split at h
      · cases h
      · rename_i r hnp
        obtain ⟨w3, cx3⟩ := r
        simp only at h
        split at h
        · cases h
        · rename_i r2 hun
          obtain ⟨rv2, ov, w4, cx4⟩ := r2
          simp only [pure, Except.pure] at h
          cases h
          exact ((hw.setCont p _).notifyParent hnp).uninlineIfNeeded hun
  · cases h

theorem IdxNodup.arrGet {w : World} (hw : IdxNodup w) {p : SlabID} {i : Nat}
    {el : Elem} {w' : World} (h : w.arrGet p i = .ok (el, w')) : IdxNodup w' := by
  unfold World.arrGet at h
  split at h
  · split at h
    · cases h
    · split at h
      · split at h
        · cases h; exact hw
        · cases h; exact hw.setCallbackArr _ _ _
      · cases h; exact hw
  · cases h

theorem IdxNodup.mapGet {w : World} (hw : IdxNodup w) {p : SlabID} {k : MKey}
    {el : Elem} {w' : World} (h : w.mapGet p k = .ok (el, w')) : IdxNodup w' := by
  unfold World.mapGet at h
  split at h
  · split at h
    · cases h
    · split at h
      · split at h
        · cases h; exact hw
        · cases h; exact hw.setCallbackMap _ _ _
      · cases h; exact hw
  · cases h

theorem IdxNodup.setType {w : World} (hw : IdxNodup w) {x : SlabID} {ty : Nat} {cx : Ctx}
    {w' : World} {cx' : Ctx} (h : w.setType x ty cx = .ok (w', cx')) : IdxNodup w' := by
  unfold World.setType at h
  split at h
  · simp only at h
    split at h
    · exact (hw.setCont x _).notifyParent h
    · cases h; exact hw.setCont x _
  · simp only at h
    split at h
    · exact (hw.setCont x _).notifyParent h
    · cases h; exact hw.setCont x _
  · cases h

/-! ### disposal: `forget`, `forgetElems`, the pops -/

theorem foldl_idxNodup {β : Type} (f : World → β → World) (hf : ∀ w b, IdxNodup w → IdxNodup (f w b)) :
    ∀ (l : List β) (w : World), IdxNodup w → IdxNodup (l.foldl f w) := by
  intro l
  induction l with
  | nil => intro w h; exact h
  | cons b l ih => intro w h; exact ih _ (hf w b h)

theorem IdxNodup.forget (fuel : Nat) : ∀ {w : World}, IdxNodup w → ∀ vid, IdxNodup (World.forget fuel w vid) := by
  induction fuel with
  | zero => intro w h vid; exact h
  | succ fuel ih =>
    intro w h vid
    rw [World.forget]
    split
    · exact h
    · exact foldl_idxNodup _ (fun w b hw => ih hw b) _ _ (h.eraseAll vid)

theorem IdxNodup.forgetElems {w : World} (h : IdxNodup w) (es : List Elem) : IdxNodup (w.forgetElems es) := by
  unfold World.forgetElems
  refine foldl_idxNodup _ (fun w e hw => ?_) es w h
  split
  · exact hw.forget _ _
  · exact hw

theorem IdxNodup.arrPopKeep {w : World} (hw : IdxNodup w) {x : SlabID} {keep : List SlabID} {cx : Ctx}
    {es : List Elem} {w' : World} {cx' : Ctx} (h : w.arrPopKeep x keep cx = .ok (es, w', cx')) :
    IdxNodup w' := by
  unfold World.arrPopKeep at h
  split at h
  · simp only at h
    split at h
    · cases h
    · rename_i w2 cx2 hnp
      cases h
      exact ((((hw.setCont x _).clearIdx x).forgetElems _).notifyParent hnp)
  · cases h

theorem IdxNodup.mapPopKeep {w : World} (hw : IdxNodup w) {x : SlabID} {keep : List SlabID} {cx : Ctx}
    {kvs : List (MKey × Elem)} {w' : World} {cx' : Ctx} (h : w.mapPopKeep x keep cx = .ok (kvs, w', cx')) :
    IdxNodup w' := by
  unfold World.mapPopKeep at h
  split at h
  · simp only at h
    split at h
    · cases h
    · rename_i w2 cx2 hnp
      cases h
      exact (((hw.setCont x _).forgetElems _).notifyParent hnp)
  · cases h

theorem IdxNodup.arrPop {w : World} (hw : IdxNodup w) {x : SlabID} {cx : Ctx}
    {es : List Elem} {w' : World} {cx' : Ctx} (h : w.arrPop x cx = .ok (es, w', cx')) :
    IdxNodup w' := by
  unfold World.arrPop at h
  split at h
  · simp only at h
    split at h
    · cases h
    · rename_i w2 cx2 hnp
      cases h
      exact ((((hw.setCont x _).clearIdx x).forgetElems _).notifyParent hnp)
  · cases h

theorem IdxNodup.mapPop {w : World} (hw : IdxNodup w) {x : SlabID} {cx : Ctx}
    {kvs : List (MKey × Elem)} {w' : World} {cx' : Ctx} (h : w.mapPop x cx = .ok (kvs, w', cx')) :
    IdxNodup w' := by
  unfold World.mapPop at h
  split at h
  · simp only at h
    split at h
    · cases h
    · rename_i w2 cx2 hnp
      cases h
      exact (((hw.setCont x _).forgetElems _).notifyParent hnp)
  · cases h

end World
end Atree
