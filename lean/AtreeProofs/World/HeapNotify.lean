import AtreeProofs.World.HeapStorable
import AtreeProofs.World.Slots
import AtreeProofs.World.Sig
/-
  World-level heap accounting, part 2: the callback chain.

  `WPre D rank w0 ctr0 w ctr` is the situation in the middle of an operation: `w0` is the world the
  operation started from (it satisfies the light invariant `HInv`), `w` the current world.  A
  notification from `y` only ever looks at containers ABOVE `y` (smaller rank), and those are still
  the ones of `w0` (`same`): that is all the accounting needs — every step of the chain is ONE core
  operation on an untouched, valid container (`cstep_*`, HeapOps.lean), framed into the world
  (`CAcct.lift`), preceded by the inline / un-inline transition of the child (`childStorable_heap`).

  `Post w cx w' cx'` is what every piece of the chain delivers: the appended log, its account, the
  ownership invariant of the new world.
-/
namespace Atree
open Gen

namespace World

variable {D : SlabID → DigestFn 4} {rank : SlabID → Nat}

theorem sameData_isArr_heap {c c' : Cont} (h : Cont.SameData c c') : c'.isArr = c.isArr := by
  cases c <;> cases c' <;> simp_all [Cont.SameData, Cont.isArr]

/-! ### pre- and postconditions -/

structure WPre (D : SlabID → DigestFn 4) (rank : SlabID → Nat) (w0 : World) (ctr0 : Nat) (w : World) (ctr : Nat) :
    Prop where
  inv0 : HInv D rank w0 ctr0
  le : ctr0 ≤ ctr
  T : w.T = w0.T
  addr : w.addr = w0.addr
  conts : ∀ x c, w.cont? x = some c →
    ContOk w.T (D x) ctr c ∧ c.vid = x ∧ x.addr = w.addr ∧ (c.isInlined = true → c.rootSize ≤ w.T)
  rank : CRank rank w
  heap : HeapOk w ctr
  closure : ClosureOk D w

/-- the invariant is its own precondition -/
theorem WPre.of_inv {w : World} {ctr : Nat} (H : HInv D rank w ctr) (Hh : HeapOk w ctr) : WPre D rank w ctr w ctr :=
  ⟨H, Nat.le_refl _, rfl, rfl, fun x c hx => ⟨H.conts x c hx, H.ids x c hx, H.addr x c hx, H.band hx⟩, H.rank, Hh,
    H.closure⟩

def Post (w : World) (cx : Ctx) (w' : World) (cx' : Ctx) : Prop :=
  ∃ E C, Log cx cx' E C ∧ WAcct cx.ctr cx'.ctr w w' E (C.map (·.1)) ∧ HeapOk w' cx'.ctr ∧ IdsOk w'

theorem Post.refl {w : World} {cx : Ctx} (H : HeapOk w cx.ctr) (hi : IdsOk w) : Post w cx w cx :=
  ⟨[], [], Log.refl _, WAcct.refl _ _, H, hi⟩

theorem Post.trans {w w1 w2 : World} {cx cx1 cx2 : Ctx} (h1 : Post w cx w1 cx1) (h2 : Post w1 cx1 w2 cx2)
    (H : HeapOk w cx.ctr) : Post w cx w2 cx2 := by
  obtain ⟨E1, C1, l1, a1, _, _⟩ := h1
  obtain ⟨E2, C2, l2, a2, k2, i2⟩ := h2
  refine ⟨E1 ++ E2, C1 ++ C2, l1.trans l2, ?_, k2, i2⟩
  rw [List.map_append]
  exact a1.trans a2 (fun id hid => H.inTree_le hid)

/-- only the table of containers matters -/
theorem Post.congr_right {w w1 w1' : World} {cx cx1 : Ctx} (h : Post w cx w1 cx1)
    (hc : ∀ z, w1'.cont? z = w1.cont? z) (ha : w1'.addr = w1.addr) : Post w cx w1' cx1 := by
  obtain ⟨E, C, l, a, k, i⟩ := h
  exact ⟨E, C, l, a.congr (fun _ => rfl) hc, k.congr hc ha, fun x c hx => i x c (by rw [← hc]; exact hx)⟩

theorem Post.congr_left {w w' w1 : World} {cx cx1 : Ctx} (h : Post w cx w1 cx1)
    (hc : ∀ z, w'.cont? z = w.cont? z) : Post w' cx w1 cx1 := by
  obtain ⟨E, C, l, a, k, i⟩ := h
  exact ⟨E, C, l, a.congr hc (fun _ => rfl), k, i⟩

theorem Post.ctr_le {w w1 : World} {cx cx1 : Ctx} (h : Post w cx w1 cx1) : cx.ctr ≤ cx1.ctr := by
  obtain ⟨E, C, l, _, _, _⟩ := h; exact l.ctr_le

theorem Post.heapOk {w w1 : World} {cx cx1 : Ctx} (h : Post w cx w1 cx1) : HeapOk w1 cx1.ctr := by
  obtain ⟨E, C, _, _, k, _⟩ := h; exact k

theorem Post.idsOk {w w1 : World} {cx cx1 : Ctx} (h : Post w cx w1 cx1) : IdsOk w1 := by
  obtain ⟨E, C, _, _, _, i⟩ := h; exact i

/-- two worlds with the same parameters, closures and table of containers (they may differ in
    `mutableElementIndex`) -/
structure SameTab (w w' : World) : Prop where
  T : w'.T = w.T
  addr : w'.addr = w.addr
  hinfo : w'.hinfo = w.hinfo
  conts : ∀ z, w'.cont? z = w.cont? z

theorem SameTab.refl (w : World) : SameTab w w := ⟨rfl, rfl, rfl, fun _ => rfl⟩

theorem holds_congr {w w' : World} (h : ∀ z, w'.cont? z = w.cont? z) (q x : SlabID) : Holds w' q x ↔ Holds w q x := by
  unfold Holds; simp only [h]

theorem closureOk_of_kind {w w' : World} (hT : w'.T = w.T) (hh : w'.hinfo = w.hinfo)
    (hk : ∀ z, (w'.cont? z).map Cont.isArr = (w.cont? z).map Cont.isArr) (H : ClosureOk D w) : ClosureOk D w' := by
  intro x hi hx
  rw [hh] at hx
  obtain ⟨h1, h2⟩ := H x hi hx
  rw [hT]
  refine ⟨?_, ?_⟩
  · intro pa hpa
    have := hk hi.parent
    rw [hpa] at this
    cases hc : w.cont? hi.parent with
    | none => rw [hc] at this; cases this
    | some c =>
      rw [hc] at this
      cases c with
      | arr a0 => exact h1 a0 hc
      | map m0 => simp [Cont.isArr] at this
  · intro pm k hpm hkey
    have := hk hi.parent
    rw [hpm] at this
    cases hc : w.cont? hi.parent with
    | none => rw [hc] at this; cases this
    | some c =>
      rw [hc] at this
      cases c with
      | arr a0 => simp [Cont.isArr] at this
      | map m0 => exact h2 m0 k hc hkey

theorem WPre.congr {w0 w w' : World} {ctr0 ctr : Nat} (P : WPre D rank w0 ctr0 w ctr) (S : SameTab w w') :
    WPre D rank w0 ctr0 w' ctr := by
  refine ⟨P.inv0, P.le, S.T.trans P.T, S.addr.trans P.addr, ?_, ?_, P.heap.congr S.conts S.addr, ?_⟩
  · intro x c hx
    rw [S.conts] at hx
    rw [S.T, S.addr]
    exact P.conts x c hx
  · intro q x hq hx
    rw [holds_congr S.conts] at hq
    rw [S.conts] at hx
    exact P.rank q x hq hx
  · exact closureOk_of_kind S.T S.hinfo (fun z => by rw [S.conts]) P.closure

theorem WPre.mono {w0 w : World} {ctr0 ctr ctr' : Nat} (P : WPre D rank w0 ctr0 w ctr) (h : ctr ≤ ctr') :
    WPre D rank w0 ctr0 w ctr' :=
  ⟨P.inv0, Nat.le_trans P.le h, P.T, P.addr,
    fun x c hx => ⟨(P.conts x c hx).1.mono h, (P.conts x c hx).2⟩, P.rank, P.heap.mono h, P.closure⟩

theorem WPre.idsOk {w0 w : World} {ctr0 ctr : Nat} (P : WPre D rank w0 ctr0 w ctr) : IdsOk w :=
  fun x c hx => (P.conts x c hx).2.1

/-! ### values handed to `set` / `insert` -/

/-- what the accounting needs to know about a value stored into a slot of container `p`: a plain
    value that fits the slot, or a live container below `p` in the rank whose wrapped reference
    fits the slot -/
def WValH (rank : SlabID → Nat) (w : World) (p : SlabID) (lim : Nat) : WVal → Prop
  | .plain e => 1 ≤ e.size ∧ e.size ≤ lim ∧ ∃ n, e.pay = .val n
  | .child v wr => v ≠ p ∧ rank p < rank v ∧ slabIDStorableSize + 2 * wr ≤ lim ∧ (w.cont? v).isSome

/-- `Value.Storable`: the world after the inline / un-inline transition of the child -/
theorem storableOf_pre {w0 w : World} {ctr0 : Nat} {p : SlabID} {lim : Nat} {v : WVal} {cx : Ctx} {e : Elem}
    {w1 : World} {cx1 : Ctx} (P : WPre D rank w0 ctr0 w cx.ctr) (hv : WValH rank w p lim v)
    (hlim : lim ≤ maxInlineArr w.T) (h : w.storableOf v lim cx = .ok (e, w1, cx1)) :
    WPre D rank w0 ctr0 w1 cx1.ctr ∧ Post w cx w1 cx1 ∧ cx1.ctr = cx.ctr ∧ w1.mutIdx = w.mutIdx ∧
      w1.hinfo = w.hinfo ∧
      (∀ z, rank z ≤ rank p → w1.cont? z = w.cont? z) ∧
      1 ≤ e.size ∧ e.size ≤ lim ∧ (∀ x, e.pay = .ref x → rank p < rank x) := by
  cases v with
  | plain e0 =>
    simp only [storableOf] at h
    cases h
    obtain ⟨h1, h2, n, h3⟩ := hv
    exact ⟨P, Post.refl P.heap P.idsOk, rfl, rfl, rfl, fun _ _ => rfl, h1, h2, fun x hx => by rw [h3] at hx; cases hx⟩
  | child vid wr =>
    simp only [storableOf] at h
    obtain ⟨hne, hrk, hwb, hlive⟩ := hv
    obtain ⟨c, hc⟩ := Option.isSome_iff_exists.1 hlive
    obtain ⟨hok, hvid, haddr, hband⟩ := P.conts vid c hc
    have hlegal : legalThreshold w.T = true := by rw [P.T]; exact P.inv0.legal
    obtain ⟨c1, hsd, hok1, _, _, hfit, he, he1, he2, hc1, hco, hT1, ha1, hh1, hm1, hctr⟩ :=
      childStorable_validL hlegal hc hok hband hwb hlim h
    obtain ⟨E, hlog, hacct, hheap⟩ := childStorable_heap P.heap hc hvid h
    have hctr' : cx1.ctr = cx.ctr := hctr
    have hpays : ∀ z cz, w1.cont? z = some cz → ∃ cz0, w.cont? z = some cz0 ∧ cz.pays = cz0.pays ∧
        cz.isArr = cz0.isArr := by
      intro z cz hz
      by_cases hzv : z = vid
      · subst hzv
        rw [hc1] at hz; cases hz
        exact ⟨c, hc, by simp only [Cont.pays, hsd.storedElems], sameData_isArr_heap hsd⟩
      · rw [hco z hzv] at hz; exact ⟨cz, hz, rfl, rfl⟩
    have hsome : ∀ z, (w1.cont? z).isSome = (w.cont? z).isSome := by
      intro z
      by_cases hzv : z = vid
      · subst hzv; rw [hc1, hc]; rfl
      · rw [hco z hzv]
    have P1 : WPre D rank w0 ctr0 w1 cx1.ctr := by
      refine ⟨P.inv0, by rw [hctr']; exact P.le, hT1.trans P.T, ha1.trans P.addr, ?_, ?_, by rw [hctr']; exact hheap, ?_⟩
      · intro x cx0 hx
        rw [hT1, ha1, hctr']
        by_cases hxv : x = vid
        · subst hxv
          rw [hc1] at hx; cases hx
          refine ⟨hok1, by rw [hsd.vid]; exact hvid, haddr, ?_⟩
          intro hi
          have := hfit hi
          have := two_inline_le w.T hlegal
          omega
        · rw [hco x hxv] at hx; exact P.conts x cx0 hx
      · intro q x hq hx
        obtain ⟨qc, hqc, hm⟩ := hq
        obtain ⟨qc0, hqc0, hp0, _⟩ := hpays q qc hqc
        rw [hsome] at hx
        exact P.rank q x ⟨qc0, hqc0, hp0 ▸ hm⟩ hx
      · refine closureOk_of_kind hT1 hh1 ?_ P.closure
        intro z
        cases hz : w1.cont? z with
        | none =>
          have := hsome z
          rw [hz] at this
          cases hz0 : w.cont? z with
          | none => rfl
          | some _ => rw [hz0] at this; cases this
        | some cz =>
          obtain ⟨cz0, hz0, _, hk⟩ := hpays z cz hz
          rw [hz0]; simp [hk]
    refine ⟨P1, ⟨E, [], hlog, by rw [hctr']; exact hacct, by rw [hctr']; exact hheap, P1.idsOk⟩, hctr', hm1, hh1, ?_, he1, he2, ?_⟩
    · intro z hz
      apply hco
      intro e1; subst e1; omega
    · intro x hx
      rw [he] at hx
      cases hx
      exact hrk

/-! ### a mutation of `p` followed by the notification of its parent -/

/-- the statement proved by induction on the fuel -/
def NotifyHeap (D : SlabID → DigestFn 4) (rank : SlabID → Nat) (fuel : Nat) : Prop :=
  ∀ w0 ctr0 w y cx w' cx', WPre D rank w0 ctr0 w cx.ctr → (∀ z, rank z < rank y → w.cont? z = w0.cont? z) →
    notifyParent fuel w y cx = .ok (w', cx') → Post w cx w' cx'

/-- container `p` of `w1` is replaced by `pc'` (account `hca`), then the parent of `p` is notified -/
theorem mutate_notify {fuel : Nat} (hN : NotifyHeap D rank fuel) {w0 w1 w2 w3 : World} {ctr0 : Nat} {p : SlabID}
    {pc pc' : Cont} {cx1 cx2 cx3 : Ctx} {E : List Eff} {C : List (SlabID × Elem)}
    (P1 : WPre D rank w0 ctr0 w1 cx1.ctr) (hsame : ∀ z, rank z < rank p → w1.cont? z = w0.cont? z)
    (hp : w1.cont? p = some pc)
    (hlog : Log cx1 cx2 E C) (hca : CAcct cx1.ctr cx2.ctr pc pc' E (C.map (·.1)))
    (hok' : ContOk w1.T (D p) cx2.ctr pc') (htree : TreeOk w1.addr cx2.ctr pc') (hvid : pc'.vid = p)
    (hband : pc'.isInlined = true → pc'.rootSize ≤ w1.T) (hkind : pc'.isArr = pc.isArr)
    (hpays : ∀ x, Pay.ref x ∈ pc'.pays → Pay.ref x ∈ pc.pays ∨ rank p < rank x)
    (htab : SameTab (w1.setCont p pc') w2)
    (hn : notifyParent fuel w2 p cx2 = .ok (w3, cx3)) : Post w1 cx1 w3 cx3 := by
  obtain ⟨hacct, hheap⟩ := hca.lift P1.heap hp htree.1 htree.2
  have hle := hlog.ctr_le
  have hpaddr : p.addr = w1.addr := (P1.conts p pc hp).2.2.1
  have P2 : WPre D rank w0 ctr0 (w1.setCont p pc') cx2.ctr := by
    refine ⟨P1.inv0, Nat.le_trans P1.le hle, P1.T, P1.addr, ?_, ?_, hheap, ?_⟩
    · intro x c hx
      rw [cont?_setCont] at hx
      split at hx
      · rename_i e1
        cases hx
        subst e1
        exact ⟨hok', hvid, hpaddr, hband⟩
      · obtain ⟨g1, g2⟩ := P1.conts x c hx
        exact ⟨g1.mono hle, g2⟩
    · intro q x hq hx
      have hx1 : (w1.cont? x).isSome := by
        rw [cont?_setCont] at hx
        split at hx
        · rename_i e1; subst e1; rw [hp]; rfl
        · exact hx
      obtain ⟨qc, hqc, hm⟩ := hq
      rw [cont?_setCont] at hqc
      split at hqc
      · rename_i e1
        cases hqc
        subst e1
        rcases hpays x hm with h1 | h1
        · exact P1.rank _ x ⟨pc, hp, h1⟩ hx1
        · exact h1
      · exact P1.rank q x ⟨qc, hqc, hm⟩ hx1
    · refine closureOk_of_kind (w := w1) (w' := w1.setCont p pc') rfl rfl ?_ P1.closure
      intro z
      rw [cont?_setCont]
      split
      · rename_i e1; subst e1; rw [hp]; simp [hkind]
      · rfl
  have P2' := P2.congr htab
  have hsame2 : ∀ z, rank z < rank p → w2.cont? z = w0.cont? z := by
    intro z hz
    rw [htab.conts, cont?_setCont_ne _ _ _ _ (by intro e1; subst e1; omega)]
    exact hsame z hz
  have hpost := hN w0 ctr0 w2 p cx2 w3 cx3 P2' hsame2 hn
  have h12 : Post w1 cx1 w2 cx2 :=
    Post.congr_right ⟨E, C, hlog, hacct, hheap, P2.idsOk⟩ htab.conts htab.addr
  exact h12.trans hpost P1.heap

/-! ### `Array.set` and `OrderedMap.set` -/

theorem addr_setCallbackArr (w : World) (p : SlabID) (i : Nat) (v : WVal) : (w.setCallbackArr p i v).addr = w.addr := by
  cases v <;> rfl

theorem addr_setCallbackMap (w : World) (p : SlabID) (k : MKey) (v : WVal) : (w.setCallbackMap p k v).addr = w.addr := by
  cases v <;> rfl

/-- room for one more element in an inlined array that is still the one of the initial world -/
theorem WPre.arr_room {w0 w : World} {ctr0 ctr : Nat} (P : WPre D rank w0 ctr0 w ctr) {p : SlabID} {a : Arr}
    (hp : w.cont? p = some (.arr a)) (h0 : w.cont? p = w0.cont? p) :
    a.isInlined = true → a.rootHdr.size + maxInlineArr w.T ≤ maxThr w.T := by
  intro hi
  rw [hp] at h0
  have := P.inv0.room p (.arr a) h0.symm hi
  have h2 := two_inline_le w0.T P.inv0.legal
  rw [P.T]
  have : (Cont.arr a).rootSize = a.rootHdr.size := rfl
  omega

theorem WPre.map_room {w0 w : World} {ctr0 ctr : Nat} (P : WPre D rank w0 ctr0 w ctr) {p : SlabID} {m : OMap 3}
    (hp : w.cont? p = some (.map m)) (h0 : w.cont? p = w0.cont? p) :
    m.isInlined = true → m.rootHdr.size + maxEntry w.T ≤ maxThr w.T := by
  intro hi
  rw [hp] at h0
  have := P.inv0.room p (.map m) h0.symm hi
  have h2 := two_inline_le w0.T P.inv0.legal
  have h3 := inline_plus_entry_le w0.T P.inv0.legal
  rw [P.T]
  have : (Cont.map m).rootSize = m.rootHdr.size := rfl
  omega

theorem WPre.legal {w0 w : World} {ctr0 ctr : Nat} (P : WPre D rank w0 ctr0 w ctr) : legalThreshold w.T = true := by
  rw [P.T]; exact P.inv0.legal

theorem WPre.cfgOk {w0 w : World} {ctr0 ctr : Nat} (P : WPre D rank w0 ctr0 w ctr) {p : SlabID} {m : OMap 3}
    (hp : w.cont? p = some (.map m)) : CfgOk w.mcfg w.T m := by
  obtain ⟨_, hv, ha, _⟩ := P.conts p _ hp
  refine ⟨rfl, rfl, ?_⟩
  show w.addr = m.rootID.addr
  have : m.rootID = p := hv
  rw [this, ha]

/-- `Array.set(index, value)` including the callback chain -/
theorem arrSetRaw_heap {fuel : Nat} (hN : NotifyHeap D rank fuel) {w0 w w' : World} {ctr0 : Nat} {p : SlabID}
    {i : Nat} {v : WVal} {cx cx' : Ctx} {old : Elem}
    (P : WPre D rank w0 ctr0 w cx.ctr) (hsame : ∀ z, rank z ≤ rank p → w.cont? z = w0.cont? z)
    (hv : WValH rank w p (maxInlineArr w.T) v)
    (h : arrSetRaw fuel w p i v cx = .ok (old, w', cx')) :
    Post w cx w' cx' ∧ ∃ a, w.cont? p = some (.arr a) ∧ a.toList[i]? = some old := by
  rw [arrSetRaw] at h
  split at h
  · rename_i a hp
    split at h
    · cases h
    · split at h
      · cases h
      · rename_i e w1 cx1 hst
        split at h
        · cases h
        · rename_i old1 a' cx2 hs
          dsimp only at h
          split at h
          · cases h
          · rename_i w3 cx3 hnp
            cases h
            obtain ⟨P1, post1, hctr1, hm1, hh1, hco1, he1, he2, hepay⟩ := storableOf_pre P hv (Nat.le_refl _) hst
            have hT1 : w1.T = w.T := P1.T.trans P.T.symm
            have hp1 : w1.cont? p = some (.arr a) := by rw [hco1 p (Nat.le_refl _)]; exact hp
            have hlegal := P1.legal
            have hpok : ArrOk w1.T a cx1.ctr := (P1.conts p _ hp1).1
            have hvid : a.rootID = p := (P1.conts p _ hp1).2.1
            have hpaddr : p.addr = w1.addr := (P1.conts p _ hp1).2.2.1
            have hroom := P1.arr_room hp1 ((hco1 p (Nat.le_refl _)).trans (hsame p (Nat.le_refl _)))
            have hve : ElemOk w1.T e := ⟨he1, by rw [hT1]; exact he2⟩
            obtain ⟨hold, hl, hok', hinl', hrid, hty, hle, hsz⟩ := hpok.set_ok hlegal (StorOk.of_elemOk hve) hroom hs
            rw [toStorable_fit w1.T a.addr e cx1 hve.2] at hl hsz
            simp only at hl hsz
            obtain ⟨E, C, hlog, hca, _, _⟩ := cstep_arr_set hlegal hpok hve hroom hs
            have htree : TreeOk w1.addr cx2.ctr (.arr a') := by
              have := treeOk_arr hok'
              have ha : a'.addr = w1.addr := by
                show a'.rootID.addr = w1.addr
                rw [hrid, hvid, hpaddr]
              rw [ha] at this; exact this
            have hb2 := two_inline_le w1.T hlegal
            have postMN : Post w1 cx1 w3 cx' := by
              refine mutate_notify hN P1 (fun z hz => (hco1 z (Nat.le_of_lt hz)).trans (hsame z (Nat.le_of_lt hz)))
                hp1 hlog hca hok' htree (hrid.trans hvid) ?_ rfl ?_ (SameTab.refl _) hnp
              · intro hi
                have hi0 : a.isInlined = true := by rw [← hinl']; exact hi
                have h1 := hsz hi0
                have h2 := hroom hi0
                have h3 := hve.2
                show a'.rootHdr.size ≤ w1.T
                have : a.rootHdr.size ≤ maxInlineArr w1.T := by
                  have := P1.inv0.room p (.arr a) (by
                    rw [← hsame p (Nat.le_refl _), ← hco1 p (Nat.le_refl _)]; exact hp1) hi0
                  rw [← P1.T] at this
                  exact this
                omega
              · intro x hx
                simp only [Cont.pays, Cont.storedElems, hl, List.mem_map] at hx ⊢
                obtain ⟨e', he', hpe⟩ := hx
                rcases List.mem_or_eq_of_mem_set he' with h1 | h1
                · exact Or.inl ⟨e', h1, hpe⟩
                · subst h1; exact Or.inr (hepay x hpe)
            refine ⟨(post1.trans postMN P.heap).congr_right (fun z => cont?_setCallbackArr _ _ _ _ _)
              (addr_setCallbackArr _ _ _ _), a, hp, hold⟩
  · cases h

/-- `OrderedMap.set(key, value)` including the callback chain -/
theorem mapSetRaw_heap {fuel : Nat} (hN : NotifyHeap D rank fuel) {w0 w w' : World} {ctr0 : Nat} {p : SlabID}
    {k : MKey} {v : WVal} {cx cx' : Ctx} {old : Option Elem}
    (P : WPre D rank w0 ctr0 w cx.ctr) (hsame : ∀ z, rank z ≤ rank p → w.cont? z = w0.cont? z)
    (hk : KeyOk w.T 4 (D p) k) (hv : WValH rank w p (maxInlineMapValue w.T k.size) v)
    (h : mapSetRaw fuel w p k v cx = .ok (old, w', cx')) :
    Post w cx w' cx' := by
  rw [mapSetRaw] at h
  split at h
  · rename_i m hp
    split at h
    · cases h
    · rename_i e w1 cx1 hst
      split at h
      · cases h
      · rename_i old1 m' cx2 hs
        dsimp only at h
        split at h
        · cases h
        · rename_i w3 cx3 hnp
          cases h
          obtain ⟨P1, post1, hctr1, hm1, hh1, hco1, he1, he2, hepay⟩ :=
            storableOf_pre P hv (maxInlineMapValue_le_arr _ _) hst
          have hT1 : w1.T = w.T := P1.T.trans P.T.symm
          have hp1 : w1.cont? p = some (.map m) := by rw [hco1 p (Nat.le_refl _)]; exact hp
          have hlegal := P1.legal
          have hpok : MapOk w1.T (D p) m cx1.ctr := (P1.conts p _ hp1).1
          have hvid : m.rootID = p := (P1.conts p _ hp1).2.1
          have hpaddr : p.addr = w1.addr := (P1.conts p _ hp1).2.2.1
          have hroom := P1.map_room hp1 ((hco1 p (Nat.le_refl _)).trans (hsame p (Nat.le_refl _)))
          have hcfg := P1.cfgOk hp1
          have hk1 : KeyOk w1.T 4 (D p) k := by rw [hT1]; exact hk
          have he2' : e.size ≤ maxInlineMapValue w1.T k.size := by rw [hT1]; exact he2
          have hvr : ValueOkR w1.T k.size e := ValueOkR.of_le he1 he2'
          obtain ⟨heff, hok', hinl', hrid, hle, hsz⟩ := hpok.set_ok hlegal hcfg hk1 hvr hroom hs
          have hsv : storedValue w1.mcfg k e cx1 = e := by
            show (toStorableLim (maxInlineMapValue w1.T k.size) w1.addr e cx1).1 = e
            rw [toStorableLim_of_le _ _ _ _ he2']
          rw [hsv] at heff
          have htree0 : TreeOk m.addr cx1.ctr (.map m) := by
            have := P1.heap.treeOk hp1
            have ha : m.addr = w1.addr := by
              show m.rootID.addr = w1.addr
              rw [hvid, hpaddr]
            rw [ha]; exact this
          obtain ⟨E, C, hlog, hca, _, _, htree⟩ := cstep_map_set hlegal hpok hcfg hk1 hvr hroom htree0 hs
          have htree' : TreeOk w1.addr cx2.ctr (.map m') := by
            have ha : m.addr = w1.addr := by
              show m.rootID.addr = w1.addr
              rw [hvid, hpaddr]
            rw [ha] at htree; exact htree
          have postMN : Post w1 cx1 w3 cx' := by
            refine mutate_notify hN P1 (fun z hz => (hco1 z (Nat.le_of_lt hz)).trans (hsame z (Nat.le_of_lt hz)))
              hp1 hlog hca hok' htree' (hrid.trans hvid) ?_ rfl ?_ (SameTab.refl _) hnp
            · intro hi
              have hi0 : m.isInlined = true := by rw [← hinl']; exact hi
              have h1 := hsz hi0
              show m'.rootHdr.size ≤ w1.T
              have : m.rootHdr.size ≤ maxInlineArr w1.T := by
                have := P1.inv0.room p (.map m) (by
                  rw [← hsame p (Nat.le_refl _), ← hco1 p (Nat.le_refl _)]; exact hp1) hi0
                rw [← P1.T] at this
                exact this
              have := inline_plus_entry_le w1.T hlegal
              omega
            · intro x hx
              simp only [Cont.pays, Cont.storedElems, List.mem_map] at hx ⊢
              obtain ⟨e', ⟨q, hq, rfl⟩, hpe⟩ := hx
              rcases heff with ⟨_, _, A, B, hA, hB⟩ | ⟨v0, A, B, _, hA, hB⟩
              · rw [hB] at hq
                rcases List.mem_append.1 hq with h1 | h1
                · exact Or.inl ⟨q.2, ⟨q, by rw [hA]; exact List.mem_append.2 (Or.inl h1), rfl⟩, hpe⟩
                · rcases List.mem_cons.1 h1 with h2 | h2
                  · subst h2; exact Or.inr (hepay x hpe)
                  · exact Or.inl ⟨q.2, ⟨q, by rw [hA]; exact List.mem_append.2 (Or.inr h2), rfl⟩, hpe⟩
              · rw [hB] at hq
                rcases List.mem_append.1 hq with h1 | h1
                · exact Or.inl ⟨q.2, ⟨q, by rw [hA]; exact List.mem_append.2 (Or.inl h1), rfl⟩, hpe⟩
                · rcases List.mem_cons.1 h1 with h2 | h2
                  · subst h2; exact Or.inr (hepay x hpe)
                  · exact Or.inl ⟨q.2, ⟨q, by rw [hA]; exact List.mem_append.2 (Or.inr (List.mem_cons_of_mem _ h2)), rfl⟩, hpe⟩
          exact (post1.trans postMN P.heap).congr_right (fun z => cont?_setCallbackMap _ _ _ _ _)
            (addr_setCallbackMap _ _ _ _)
  · cases h

/-! ### `notifyParentIfNeeded` -/

/-- the world in which the closure of `y` has been dropped has the same heap -/
theorem post_notFound {w0 w : World} {ctr0 : Nat} {cx : Ctx} (P : WPre D rank w0 ctr0 w cx.ctr) (h : List (SlabID × HInfo)) :
    Post w cx { w with hinfo := h } cx :=
  (Post.refl P.heap P.idsOk).congr_right (fun _ => rfl) rfl

theorem notify_step {fuel : Nat} (hN : NotifyHeap D rank fuel) : NotifyHeap D rank (fuel + 1) := by
  intro w0 ctr0 w y cx w' cx' P hsame h
  rw [notifyParent] at h
  split at h
  · cases h; exact Post.refl P.heap P.idsOk
  · cases h
  · rename_i hi c hh hc
    split at h
    · cases h; exact Post.refl P.heap P.idsOk
    · dsimp only at h
      have hlegal := P.legal
      have hylive : (w.cont? y).isSome := by rw [hc]; rfl
      split at h
      · cases h; exact post_notFound P _
      · rename_i pa hpa
        split at h
        · cases h; exact post_notFound P _
        · rename_i idx hidx
          split at h
          · cases h
          · rename_i el hget
            split at h
            · cases h; exact post_notFound P _
            · rename_i hel
              have hel : el.pay = .ref y := by simpa using hel
              split at h
              · cases h
              · rename_i old w4 cx4 hsr
                split at h
                · cases h
                · cases h
                  have hpok : ArrOk w.T pa cx.ctr := (P.conts _ _ hpa).1
                  have hge : pa.toList[idx]? = some el := hpok.get_ok hlegal hget
                  have hpy : Holds w hi.parent y :=
                    ⟨_, hpa, by
                      simp only [Cont.pays, Cont.storedElems, List.mem_map]
                      exact ⟨el, List.mem_of_getElem? hge, hel⟩⟩
                  have hrk : rank hi.parent < rank y := P.rank _ _ hpy hylive
                  obtain ⟨_, hwb⟩ := (P.closure y hi hh).1 pa hpa
                  refine (arrSetRaw_heap hN P (fun z hz => hsame z (by omega)) ?_ hsr).1
                  exact ⟨fun e1 => by rw [e1] at hrk; omega, hrk, hwb, hylive⟩
      · rename_i pm hpm
        split at h
        · cases h
        · rename_i k hkey
          have hcl := (P.closure y hi hh).2 pm k hpm hkey
          have hpok : MapOk w.T (D hi.parent) pm cx.ctr := (P.conts _ _ hpm).1
          split at h
          · cases h; exact post_notFound P _
          · cases h
          · rename_i k' el hget
            split at h
            · cases h; exact post_notFound P _
            · rename_i hel
              have hel : el.pay = .ref y := by simpa using hel
              split at h
              · cases h
              · rename_i old w4 cx4 hsr
                have hmem : (k, el) ∈ pm.toList := (hpok.get_ok hlegal (P.cfgOk hpm) hcl.1 hget).2
                have hpy : Holds w hi.parent y :=
                  ⟨_, hpm, by
                    simp only [Cont.pays, Cont.storedElems, List.mem_map]
                    exact ⟨el, ⟨(k, el), hmem, rfl⟩, hel⟩⟩
                have hrk : rank hi.parent < rank y := P.rank _ _ hpy hylive
                have hpost : Post w cx w4 cx4 := by
                  refine mapSetRaw_heap hN P (fun z hz => hsame z (by omega)) hcl.1 ?_ hsr
                  exact ⟨fun e1 => by rw [e1] at hrk; omega, hrk, hcl.2.2, hylive⟩
                split at h
                · split at h
                  · cases h
                  · cases h; exact hpost
                · cases h

/-- THE CALLBACK CHAIN: a notification from `y`, in a world whose containers above `y` are those of a
    world satisfying the invariant, appends a log that is a complete account of what it did to the
    heap — for every fuel, through any number of ancestors, inlined or standalone. -/
theorem notifyHeap (D : SlabID → DigestFn 4) (rank : SlabID → Nat) : ∀ fuel, NotifyHeap D rank fuel
  | 0 => by
    intro w0 ctr0 w y cx w' cx' _ _ h
    rw [notifyParent] at h
    cases h
  | fuel + 1 => notify_step (notifyHeap D rank fuel)

end World
end Atree
