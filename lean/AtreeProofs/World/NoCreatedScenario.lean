import AtreeProofs.World.NoCreated
import AtreeProofs.World.BytesScenario
/-
  NON-VACUITY of `World/NoCreated.lean`: the requests of the run of `World/OkScenario.lean` (insertion of a
  child container into an array, of a wrapped child container into a map, of a plain value into a nested
  array) meet the hypotheses of `Req.created_eq`; the byte-level history `histB8` of
  `World/BytesScenario.lean` is rebuilt (`HistB.req` needs no evaluation of `newCreated`).
-/
namespace Atree.NoCreatedScenario
open Atree Atree.Codec Gen World St
open Atree.OkScenario
open Atree.HeapScenario
open Atree.PersistScenario (hv5 hv6 hv7 hv8)
open Atree.Scenario (w0 cx0)
open Atree.C09 (newEffects newCreated)
open Atree.WC

/-- a child container inserted into an array: a real request, and it moved the effect log -/
example : t5.2.created = t4.2.2.created ∧ newEffects t4.2.2 t5.2 ≠ [] :=
  ⟨(Req.arrInsert (D := D) handles4.1 hv5 run5).created_eq, by decide⟩

/-- a wrapped child container stored into a map -/
example : newCreated t5.2 t6.2.2 = [] := (Req.mapSet (D := D) ok5.2.2 keyOk_K1 hv6 run6).newCreated_nil

/-- a plain value inserted into a nested array (the parents are notified) -/
example : newCreated t6.2.2 t7.2 = [] ∧ newEffects t6.2.2 t7.2 ≠ [] :=
  ⟨(Req.arrInsert (D := D) ok6.2.2 hv7 run7).newCreated_nil, by decide⟩

/-- the byte-level history of the depth-3 world `t8`, with no evaluation of `newCreated` -/
theorem histB8' : ∃ s, HistB D t8.1 t8.2 s := by
  have h0 : HistB D w0 cx0 St.init := .new 256 1 (by decide)
  have h1 := HistB.req h0 (Req.newArr (D := D) (w := w0) (cx := cx0) 7)
  have h2 := HistB.req h1 (Req.newMap (D := D) 8 5)
  have h3 := HistB.req h2 (Req.newArr (D := D) 9)
  have h4 := HistB.req h3 (Req.newArr (D := D) 10)
  have h5 := HistB.req h4 (Req.arrInsert (D := D) handles4.1 hv5 run5)
  have h6 := HistB.req h5 (Req.mapSet (D := D) ok5.2.2 keyOk_K1 hv6 run6)
  have h7 := HistB.req h6 (Req.arrInsert (D := D) ok6.2.2 hv7 run7)
  have h8 := HistB.req h7 (Req.arrInsert (D := D) handleR7 hv8 run8)
  exact ⟨_, h8⟩

/-- the frame property is NOT a triviality of the model: an oversized plain value handed to the array code
    does create a large-value slab (such a value violates `WValOk`, so it is not a `Req`) -/
example : (toStorable 256 1 { size := 200, pay := .val 0 } ⟨0, [], []⟩).2.created.length = 1 := by decide

end Atree.NoCreatedScenario
