import AtreeProofs.World.WPopSim
import AtreeProofs.World.StepMisc
/-
  `World.prune` (the closures whose recorded parent has been disposed of are dropped) relates the
  weakened invariant `WorldOk'` to `WorldOk`:  `WorldOk' D w ctr ↔ WorldOk D w.prune ctr ∧
  HinfoBelow w ctr`; more generally any world `w0` that simulates `w` (`Sim`) will do.
-/
namespace Atree
open Gen

namespace AList
variable {κ : Type} [DecidableEq κ] {α : Type}

/-- filtering an association list by a predicate on the keys -/
theorem find?_filter_key (m : AList κ α) (P : κ → Bool) (k : κ) :
    find? (m.filter (fun e => P e.1)) k = if P k then find? m k else none := by
  induction m with
  | nil => simp
  | cons p m ih =>
    obtain ⟨k', v⟩ := p
    by_cases hP : P k' = true
    · rw [List.filter_cons_of_pos (by simpa using hP), find?_cons, find?_cons, ih]
      by_cases hk : k' = k
      · subst hk; simp [hP]
      · simp [hk]
    · rw [List.filter_cons_of_neg (by simpa using hP), find?_cons, ih]
      by_cases hk : k' = k
      · subst hk; simp [hP]
      · simp [hk]

end AList

namespace World

variable {D : SlabID → DigestFn 4} {rank : SlabID → Nat}

/-- pruning does not change the containers -/
@[simp] theorem cont?_prune (w : World) (y : SlabID) : w.prune.cont? y = w.cont? y := rfl
/-- pruning does not change the container table -/
@[simp] theorem conts_prune (w : World) : w.prune.conts = w.conts := rfl
/-- pruning does not change the threshold -/
@[simp] theorem T_prune (w : World) : w.prune.T = w.T := rfl
/-- pruning does not change the address -/
@[simp] theorem addr_prune (w : World) : w.prune.addr = w.addr := rfl
/-- pruning does not change the index tables -/
@[simp] theorem mutIdx_prune (w : World) : w.prune.mutIdx = w.mutIdx := rfl
/-- pruning does not change the index table of a container -/
@[simp] theorem idxOf_prune (w : World) (p : SlabID) : w.prune.idxOf p = w.idxOf p := rfl
/-- pruning does not change the fuel -/
@[simp] theorem fuelOf_prune (w : World) : w.prune.fuelOf = w.fuelOf := rfl

/-- the closures that survive pruning -/
theorem find?_prune (w : World) (x : SlabID) :
    AList.find? w.prune.hinfo x =
      match AList.find? w.hinfo x with
      | some hi => if (w.cont? hi.parent).isSome then some hi else none
      | none => none := by
  show AList.find? (w.hinfo.filter (fun e => match AList.find? w.hinfo e.1 with
      | some hi => (w.cont? hi.parent).isSome
      | none => false)) x = _
  rw [AList.find?_filter_key w.hinfo (fun k => match AList.find? w.hinfo k with
      | some hi => (w.cont? hi.parent).isSome
      | none => false) x]
  cases h : AList.find? w.hinfo x with
  | none => simp
  | some hi => simp

/-- a closure survives pruning exactly when its recorded parent is live -/
theorem find?_prune_some {w : World} {x : SlabID} {hi : HInfo} :
    AList.find? w.prune.hinfo x = some hi ↔ AList.find? w.hinfo x = some hi ∧ (w.cont? hi.parent).isSome := by
  rw [find?_prune]
  cases h : AList.find? w.hinfo x with
  | none => simp
  | some hi' =>
    simp only
    by_cases hl : (w.cont? hi'.parent).isSome = true
    · rw [if_pos hl]
      constructor
      · intro he; cases he; exact ⟨rfl, hl⟩
      · rintro ⟨he, _⟩; exact he
    · rw [if_neg hl]
      constructor
      · intro he; cases he
      · rintro ⟨he, hl'⟩; cases he; exact absurd hl' hl

/-- after pruning every closure names a live parent -/
theorem hinfoLive_prune (w : World) : HinfoLive w.prune := by
  intro x hi hx
  exact (find?_prune_some.mp hx).2

/-- the pruned world simulates the world -/
theorem sim_prune {w : World} {n : Nat} (hb : HinfoBelow w n) : Sim n w.prune w := by
  refine ⟨rfl, rfl, rfl, rfl, fun x => ?_⟩
  rw [find?_prune]
  cases h : AList.find? w.hinfo x with
  | none => exact Or.inl rfl
  | some hi =>
    simp only
    by_cases hl : (w.cont? hi.parent).isSome = true
    · rw [if_pos hl]; exact Or.inl rfl
    · rw [if_neg hl]
      refine Or.inr ⟨rfl, hi, rfl, ?_, hb x hi h⟩
      cases hc : w.cont? hi.parent with
      | none => rfl
      | some c => rw [hc] at hl; exact absurd rfl hl

/-! ### `ClosureAt` / `HandleOk` across a simulation -/

theorem Sim.closureAt_iff {n : Nat} {w0 w : World} (S : Sim n w0 w) (x : SlabID) (hi : HInfo) (lim : Nat) (e : Elem) :
    ClosureAt w0 x hi lim e ↔ ClosureAt w x hi lim e := by
  unfold ClosureAt
  rw [S.cont?, S.idxOf, S.T]

/-- both sides have the same references -/
theorem Sim.holds_iff {n : Nat} {w0 w : World} (S : Sim n w0 w) (p x : SlabID) : Holds w0 p x ↔ Holds w p x := by
  unfold Holds
  rw [S.cont?]

/-- a current closure is present on both sides -/
theorem Sim.current {n : Nat} {w0 w : World} (S : Sim n w0 w) {x : SlabID} {hi : HInfo}
    (hx : AList.find? w.hinfo x = some hi) (hc : ClosureCurrent w x hi) : AList.find? w0.hinfo x = some hi := by
  rcases S.hinfo x with a | ⟨_, hi', b, c, _⟩
  · rw [a]; exact hx
  · rw [hx] at b; cases b
    obtain ⟨lim, e, hca⟩ := hc
    rcases hca with ⟨pa, _, hpa, _⟩ | ⟨pm, _, hpm, _⟩
    · rw [c] at hpa; cases hpa
    · rw [c] at hpm; cases hpm

/-- a current handle of the world is current in the simulating world -/
theorem Sim.handleOk_down {n : Nat} {w0 w : World} (S : Sim n w0 w) {z : SlabID} (h : HandleOk w z) :
    HandleOk w0 z := by
  induction h with
  | root x hr => exact HandleOk.root x (fun p hp => hr p ((S.holds_iff p x).mp hp))
  | child x hi hhi hc _ ih =>
    refine HandleOk.child x hi (S.current hhi hc) ?_ ih
    obtain ⟨lim, e, hca⟩ := hc
    exact ⟨lim, e, (S.closureAt_iff x hi lim e).mpr hca⟩

/-- a current handle of the simulating world is current in the world -/
theorem Sim.handleOk_up {n : Nat} {w0 w : World} (S : Sim n w0 w) {z : SlabID} (h : HandleOk w0 z) :
    HandleOk w z := by
  induction h with
  | root x hr => exact HandleOk.root x (fun p hp => hr p ((S.holds_iff p x).mpr hp))
  | child x hi hhi hc _ ih =>
    have hx : AList.find? w.hinfo x = some hi := by
      rcases S.hinfo x with a | ⟨a, _⟩
      · rw [← a]; exact hhi
      · rw [a] at hhi; cases hhi
    refine HandleOk.child x hi hx ?_ ih
    obtain ⟨lim, e, hca⟩ := hc
    exact ⟨lim, e, (S.closureAt_iff x hi lim e).mp hca⟩

/-! ### the invariants across a simulation -/

/-- The weakened invariant of `w` from the full (generalised) invariant of a world `w0` that
    simulates it, the clauses that `K` relaxes in `WorldOkGen` being provided separately. -/
theorem WorldOkPK.of_sim {n ctr : Nat} {w0 w : World} {K : SlabID → Prop}
    (H : WorldOkGen D rank none K w0 ctr) (S : Sim n w0 w) (hn : n ≤ ctr)
    (hmi : MutIdxOkX w0 (fun _ => False))
    (hK : ∀ x, K x → ∀ q, ¬ Holds w0 q x) :
    WorldOkPK D rank K w ctr := by
  have hc : ∀ z, w.cont? z = w0.cont? z := fun z => (S.cont? z).symm
  have hidx : ∀ q, w.idxOf q = w0.idxOf q := fun q => (S.idxOf q).symm
  -- a closure of `w` whose parent is live is a closure of `w0`
  have hlive : ∀ x hi, AList.find? w.hinfo x = some hi → (w.cont? hi.parent).isSome →
      AList.find? w0.hinfo x = some hi := by
    intro x hi hx hl
    rcases S.hinfo x with a | ⟨_, hi', b, c, _⟩
    · rw [a]; exact hx
    · rw [hx] at b; cases b; rw [c] at hl; cases hl
  refine ⟨by rw [← S.T]; exact H.legal, ?_, ?_, ?_, ?_, ?_, ?_, ?_, ?_, ?_, ?_, ?_, ?_, ?_⟩
  · intro z cz hz; rw [hc] at hz; exact H.ids z cz hz
  · intro z cz hz; rw [hc] at hz; rw [← S.addr]; exact H.addr z cz hz
  · intro z cz hz; rw [hc] at hz; rw [← S.T]; exact H.conts z cz hz
  · -- slots
    intro p pc hp le hle x c hx hcx
    rw [hc] at hp hcx
    rw [← S.T] at hle
    obtain ⟨wr, h1, h2, h3, h4⟩ := H.slots p pc hp le hle x c hx hcx
    refine ⟨wr, h1, h2, h3, ?_⟩
    intro hi _ hhi hca
    have hca0 : ClosureAt w0 x hi le.1 le.2 := (S.closureAt_iff x hi _ _).mpr hca
    have hpl : (w.cont? hi.parent).isSome := by
      rcases hca with ⟨pa, _, hpa, _⟩ | ⟨pm, _, hpm, _⟩
      · rw [hpa]; rfl
      · rw [hpm]; rfl
    refine h4 hi ?_ (hlive x hi hhi hpl) hca0
    intro hKx
    exact hK x hKx p (holds_of_slot hp hle hx)
  · intro z cz hz hi; rw [hc] at hz; rw [← S.T]; exact H.band z cz hz hi
  · intro p p' pc pc' i j x h1 h2 h3 h4 h5
    rw [hc] at h1 h2 h5
    exact H.unique p p' pc pc' i j x h1 h2 h3 h4 h5
  · intro z cz hz hi hO
    rw [hc] at hz
    obtain ⟨q, hq⟩ := H.inlRef z cz hz hi hO
    exact ⟨q, (S.holds_iff q z).mp hq⟩
  · intro p a hp x i hi hO
    rw [hc] at hp; rw [hidx] at hi
    exact hmi p a hp x i hi hO
  · -- closure
    intro x hi hx
    refine ⟨fun pa hpa => ?_, fun pm k hpm hk => ?_⟩
    · have h0 := hlive x hi hx (by rw [hpa]; rfl)
      rw [hc] at hpa
      rw [← S.T]
      exact (H.closure x hi h0).1 pa hpa
    · have h0 := hlive x hi hx (by rw [hpm]; rfl)
      rw [hc] at hpm
      rw [← S.T]
      exact (H.closure x hi h0).2 pm k hpm hk
  · intro p x hpx hx
    rw [hc] at hx
    exact H.rank p x ((S.holds_iff p x).mpr hpx) hx
  · intro p pc hp r hr; rw [hc] at hp; exact H.below p pc hp r hr
  · intro p x i hi
    rw [hidx] at hi
    rw [hc, hc]
    exact H.idxLive p x i hi
  · -- hinfoBelow
    intro x hi hx
    rcases S.hinfo x with a | ⟨_, hi', b, _, d⟩
    · rw [← a] at hx
      have hl := H.hinfoLive x hi hx
      obtain ⟨c, hcp⟩ := Option.isSome_iff_exists.mp hl
      have := (H.conts _ c hcp).vid_le
      rw [H.ids _ c hcp] at this
      exact this
    · rw [hx] at b; cases b; exact Nat.le_trans d hn

/-- The full invariant of a world `w0` that simulates `w` and whose closures all have a live
    parent, from the weakened invariant of `w`. -/
theorem WorldOkPK.to_sim {n ctr : Nat} {w0 w : World}
    (H : WorldOkPK D rank (fun _ => False) w ctr) (S : Sim n w0 w) (hl : HinfoLive w0) :
    WorldOkGen D rank none (fun _ => False) w0 ctr := by
  have hc : ∀ z, w0.cont? z = w.cont? z := S.cont?
  have hidx : ∀ q, w0.idxOf q = w.idxOf q := S.idxOf
  have hsub : ∀ x hi, AList.find? w0.hinfo x = some hi → AList.find? w.hinfo x = some hi := by
    intro x hi hx
    rcases S.hinfo x with a | ⟨a, _⟩
    · rw [← a]; exact hx
    · rw [a] at hx; cases hx
  refine ⟨by rw [S.T]; exact H.legal, ?_, ?_, ?_, ?_, ?_, ?_, ?_, ?_, ?_, ?_, ?_, ?_, hl⟩
  · intro z cz hz; rw [hc] at hz; exact H.ids z cz hz
  · intro z cz hz; rw [hc] at hz; rw [S.addr]; exact H.addr z cz hz
  · intro z cz hz; rw [hc] at hz; rw [S.T]; exact H.conts z cz hz
  · intro p pc hp le hle x c hx hcx
    rw [hc] at hp hcx
    rw [S.T] at hle
    obtain ⟨wr, h1, h2, h3, h4⟩ := H.slots p pc hp le hle x c hx hcx
    exact ⟨wr, h1, h2, h3, fun hi hO hhi hca => h4 hi hO (hsub x hi hhi) ((S.closureAt_iff x hi _ _).mp hca)⟩
  · intro z cz hz hi; rw [hc] at hz; rw [S.T]; exact H.band z cz hz hi
  · intro p p' pc pc' i j x h1 h2 h3 h4 h5
    rw [hc] at h1 h2 h5
    exact H.unique p p' pc pc' i j x h1 h2 h3 h4 h5
  · intro z cz hz hi hO
    rw [hc] at hz
    obtain ⟨q, hq⟩ := H.inlRef z cz hz hi hO
    exact ⟨q, (S.holds_iff q z).mpr hq⟩
  · intro p a hp x i hi hO
    rw [hc] at hp; rw [hidx] at hi
    exact H.mutIdx p a hp x i hi hO
  · intro x hi hx
    have hx' := hsub x hi hx
    refine ⟨fun pa hpa => ?_, fun pm k hpm hk => ?_⟩
    · rw [hc] at hpa; rw [S.T]; exact (H.closure x hi hx').1 pa hpa
    · rw [hc] at hpm; rw [S.T]; exact (H.closure x hi hx').2 pm k hpm hk
  · intro p x hpx hx
    rw [hc] at hx
    exact H.rank p x ((S.holds_iff p x).mp hpx) hx
  · intro p pc hp r hr; rw [hc] at hp; exact H.below p pc hp r hr
  · intro p x i hi
    rw [hidx] at hi
    rw [hc, hc]
    exact H.idxLive p x i hi

/-- `WorldOk'` of `w` gives `WorldOk` of the pruned world -/
theorem WorldOkPK.prune {ctr : Nat} {w : World} (H : WorldOkPK D rank (fun _ => False) w ctr) :
    WorldOkGen D rank none (fun _ => False) w.prune ctr :=
  H.to_sim (sim_prune H.hinfoBelow) (hinfoLive_prune w)

/-- `WorldOk` implies `WorldOk'` -/
theorem WorldOkPK.of_gen {ctr : Nat} {w : World} (H : WorldOkGen D rank none (fun _ => False) w ctr) :
    WorldOkPK D rank (fun _ => False) w ctr :=
  WorldOkPK.of_sim H (Sim.refl ctr w) (Nat.le_refl _) H.mutIdx (fun _ h => absurd h id)

/-- the relaxation for `K` is monotone -/
theorem WorldOkPK.mono_K {ctr : Nat} {w : World} {K K' : SlabID → Prop} (H : WorldOkPK D rank K w ctr)
    (h : ∀ x, K x → (w.cont? x).isSome → K' x) : WorldOkPK D rank K' w ctr :=
  ⟨H.legal, H.ids, H.addr, H.conts, H.slots, H.band, H.unique,
    fun x c hx hi hO => H.inlRef x c hx hi (fun hk => hO (h x hk (by rw [hx]; rfl))),
    H.mutIdx, H.closure, H.rank, H.below, H.idxLive, H.hinfoBelow⟩

/-- the allocation counter may grow -/
theorem WorldOkPK.mono_ctr {ctr ctr' : Nat} {w : World} {K : SlabID → Prop} (H : WorldOkPK D rank K w ctr)
    (h : ctr ≤ ctr') : WorldOkPK D rank K w ctr' :=
  ⟨H.legal, H.ids, H.addr, fun x c hx => (H.conts x c hx).mono h, H.slots, H.band, H.unique, H.inlRef,
    H.mutIdx, H.closure, H.rank, fun p pc hp r hr => Nat.le_trans (H.below p pc hp r hr) h, H.idxLive,
    fun x hi hx => Nat.le_trans (H.hinfoBelow x hi hx) h⟩

end World
end Atree
