import AtreeProofs.World.HeapNotify
/-
  World-level heap accounting, part 3: the public operations (`arrInsert`, `arrSet`, `arrRemove`,
  `mapSet`, `mapRemove`, `setType`, `newArr`, `newMap`).  Each one is: the inline / un-inline
  transition of the value handed in, ONE core operation on the target container, the callback
  chain (`notifyHeap`), and the un-inlining of the value handed back.
-/
namespace Atree
open Gen

namespace World

variable {D : SlabID → DigestFn 4} {rank : SlabID → Nat}

theorem HInv.with_rank {w : World} {ctr : Nat} (H : HInv D rank w ctr) {rank' : SlabID → Nat} (hr : CRank rank' w) :
    HInv D rank' w ctr :=
  ⟨H.legal, H.ids, H.addr, H.conts, H.closure, hr, H.room⟩

theorem sameTab_shiftIdx (w : World) (p : SlabID) (f : Nat → Nat) : SameTab w (w.shiftIdx p f) :=
  ⟨rfl, rfl, rfl, fun _ => rfl⟩

theorem sameTab_setIdx (w : World) (p : SlabID) (m : AList SlabID Nat) : SameTab w (w.setIdx p m) :=
  ⟨rfl, rfl, rfl, fun _ => rfl⟩

/-- `Array.Insert` -/
theorem arrInsert_heap {w w' : World} {p : SlabID} {i : Nat} {v : WVal} {cx cx' : Ctx}
    (H : HInv D rank w cx.ctr) (Hh : HeapOk w cx.ctr) (hv : WValH rank w p (maxInlineArr w.T) v)
    (h : w.arrInsert p i v cx = .ok (w', cx')) : Post w cx w' cx' := by
  have P := WPre.of_inv H Hh
  unfold arrInsert at h
  split at h
  · rename_i a hp
    split at h
    · cases h
    · simp only [bind, Except.bind] at h
      split at h
      · cases h
      · rename_i r hst
        obtain ⟨e, w1, cx1⟩ := r
        simp only at h
        split at h
        · cases h
        · rename_i a' cx2 hs
          split at h
          · cases h
          · rename_i r2 hnp
            obtain ⟨w3, cx3⟩ := r2
            simp only [pure, Except.pure] at h
            cases h
            obtain ⟨P1, post1, hctr1, hm1, hh1, hco1, he1, he2, hepay⟩ := storableOf_pre P hv (Nat.le_refl _) hst
            have hT1 : w1.T = w.T := P1.T
            have hp1 : w1.cont? p = some (.arr a) := by rw [hco1 p (Nat.le_refl _)]; exact hp
            have hlegal := P1.legal
            have hpok : ArrOk w1.T a cx1.ctr := (P1.conts p _ hp1).1
            have hvid : a.rootID = p := (P1.conts p _ hp1).2.1
            have hpaddr : p.addr = w1.addr := (P1.conts p _ hp1).2.2.1
            have hroom := P1.arr_room hp1 (hco1 p (Nat.le_refl _))
            have hve : ElemOk w1.T e := ⟨he1, by rw [hT1]; exact he2⟩
            obtain ⟨_, hl, hok', hinl', hrid, hty, hle, hsz⟩ := hpok.insert_ok hlegal (StorOk.of_elemOk hve) hroom hs
            rw [toStorable_fit w1.T a.addr e cx1 hve.2] at hl hsz
            simp only at hl hsz
            obtain ⟨E, C, hlog, hca, _, _⟩ := cstep_arr_insert hlegal hpok hve hroom hs
            have htree : TreeOk w1.addr cx2.ctr (.arr a') := by
              have := treeOk_arr hok'
              have ha : a'.addr = w1.addr := by
                show a'.rootID.addr = w1.addr
                rw [hrid, hvid, hpaddr]
              rw [ha] at this; exact this
            have hb2 := two_inline_le w1.T hlegal
            have postMN : Post w1 cx1 w3 cx' := by
              refine mutate_notify (notifyHeap D rank _) P1 (fun z hz => hco1 z (Nat.le_of_lt hz))
                hp1 hlog hca hok' htree (hrid.trans hvid) ?_ rfl ?_ (sameTab_shiftIdx _ _ _) hnp
              · intro hi
                have hi0 : a.isInlined = true := by rw [← hinl']; exact hi
                have h1 := hsz hi0
                have h3 := hve.2
                show a'.rootHdr.size ≤ w1.T
                have : a.rootHdr.size ≤ maxInlineArr w1.T := by
                  have := P1.inv0.room p (.arr a) (by rw [← hco1 p (Nat.le_refl _)]; exact hp1) hi0
                  rw [← P1.T] at this
                  exact this
                omega
              · intro x hx
                simp only [Cont.pays, Cont.storedElems, hl, List.mem_map] at hx ⊢
                obtain ⟨e', he', hpe⟩ := hx
                have hi : i ≤ a.toList.length := by
                  have := (hpok.insert_ok hlegal (StorOk.of_elemOk hve) hroom hs).1; exact this
                rcases (List.mem_insertIdx hi).1 he' with h1 | h1
                · subst h1; exact Or.inr (hepay x hpe)
                · exact Or.inl ⟨e', h1, hpe⟩
            exact (post1.trans postMN P.heap).congr_right (fun z => cont?_setCallbackArr _ _ _ _ _)
              (addr_setCallbackArr _ _ _ _)
  · cases h

/-- `uninlineStorableIfNeeded` as a step of an operation -/
theorem uninlineIfNeeded_post {w w1 : World} {cx cx1 : Ctx} (H : HeapOk w cx.ctr) (hids : IdsOk w) {e e' : Elem}
    {ov : Option SlabID} (h : w.uninlineIfNeeded e cx = .ok (e', ov, w1, cx1)) :
    Post w cx w1 cx1 := by
  obtain ⟨E, hlog, hacct, hheap, hi, _, _⟩ := uninlineIfNeeded_heap H hids h
  have hc : cx1.ctr = cx.ctr := by
    have h1 := hlog.ctr_le
    have h2 := hacct.le
    -- the transition allocates nothing
    unfold uninlineIfNeeded at h
    split at h
    · split at h
      · cases h; rfl
      · split at h
        · split at h
          · cases h
          · rename_i c' cx2 hun
            cases h
            rw [(Cont.uninline_ok hun).2.2.2]; rfl
        · cases h; rfl
    · cases h; rfl
  exact ⟨E, [], hlog, by rw [hc]; exact hacct, by rw [hc]; exact hheap, hi⟩

/-- `Array.Set` -/
theorem arrSet_heap {w w' : World} {p : SlabID} {i : Nat} {v : WVal} {cx cx' : Ctx} {old' : Elem}
    (H : HInv D rank w cx.ctr) (Hh : HeapOk w cx.ctr) (hv : WValH rank w p (maxInlineArr w.T) v)
    (h : w.arrSet p i v cx = .ok (old', w', cx')) : Post w cx w' cx' := by
  have P := WPre.of_inv H Hh
  unfold arrSet at h
  simp only [bind, Except.bind] at h
  split at h
  · cases h
  · rename_i r hsr
    obtain ⟨old, w1, cx1⟩ := r
    simp only at h
    split at h
    · cases h
    · rename_i r2 hun
      obtain ⟨o', ov, w2, cx2⟩ := r2
      simp only [pure, Except.pure] at h
      cases h
      obtain ⟨post1, _⟩ := arrSetRaw_heap (notifyHeap D rank _) P (fun _ _ => rfl) hv hsr
      have post2 := uninlineIfNeeded_post post1.heapOk post1.idsOk hun
      refine (post1.trans post2 P.heap).congr_right ?_ ?_
      · intro z; split <;> (try split) <;> (try split) <;> rfl
      · split <;> (try split) <;> (try split) <;> rfl

/-- `Array.Remove` -/
theorem arrRemove_heap {w w' : World} {p : SlabID} {i : Nat} {cx cx' : Ctx} {old' : Elem}
    (H : HInv D rank w cx.ctr) (Hh : HeapOk w cx.ctr)
    (h : w.arrRemove p i cx = .ok (old', w', cx')) : Post w cx w' cx' := by
  have P := WPre.of_inv H Hh
  unfold arrRemove at h
  split at h
  · rename_i a hp
    split at h
    · cases h
    · rename_i old a' cx2 hs
      simp only [bind, Except.bind] at h
      split at h
      · cases h
      · rename_i r hnp
        obtain ⟨w3, cx3⟩ := r
        simp only at h
        split at h
        · cases h
        · rename_i r2 hun
          obtain ⟨o', ov, w4, cx4⟩ := r2
          simp only [pure, Except.pure] at h
          cases h
          have hlegal := P.legal
          have hpok : ArrOk w.T a cx.ctr := (P.conts p _ hp).1
          have hvid : a.rootID = p := (P.conts p _ hp).2.1
          have hpaddr : p.addr = w.addr := (P.conts p _ hp).2.2.1
          obtain ⟨_, hl, hok', hinl', hrid, hty, hle, hsz⟩ := hpok.remove_ok hlegal hs
          obtain ⟨E, C, hlog, hca, _, _⟩ := cstep_arr_remove hlegal hpok hs
          have htree : TreeOk w.addr cx2.ctr (.arr a') := by
            have := treeOk_arr hok'
            have ha : a'.addr = w.addr := by
              show a'.rootID.addr = w.addr
              rw [hrid, hvid, hpaddr]
            rw [ha] at this; exact this
          have hb2 := two_inline_le w.T hlegal
          have postMN : Post w cx w3 cx3 := by
            refine mutate_notify (notifyHeap D rank _) P (fun _ _ => rfl)
              hp hlog hca hok' htree (hrid.trans hvid) ?_ rfl ?_ (sameTab_shiftIdx _ _ _) hnp
            · intro hi
              have hi0 : a.isInlined = true := by rw [← hinl']; exact hi
              have h1 := hsz hi0
              show a'.rootHdr.size ≤ w.T
              have : a.rootHdr.size ≤ maxInlineArr w.T := H.room p (.arr a) hp hi0
              omega
            · intro x hx
              simp only [Cont.pays, Cont.storedElems, hl, List.mem_map] at hx ⊢
              obtain ⟨e', he', hpe⟩ := hx
              exact Or.inl ⟨e', List.mem_of_mem_eraseIdx he', hpe⟩
          have post2 := uninlineIfNeeded_post postMN.heapOk postMN.idsOk hun
          refine (postMN.trans post2 P.heap).congr_right ?_ ?_
          · intro z; split <;> rfl
          · split <;> rfl
  · cases h

/-- `OrderedMap.Set` -/
theorem mapSet_heap {w w' : World} {p : SlabID} {k : MKey} {v : WVal} {cx cx' : Ctx} {old' : Option Elem}
    (H : HInv D rank w cx.ctr) (Hh : HeapOk w cx.ctr) (hk : KeyOk w.T 4 (D p) k)
    (hv : WValH rank w p (maxInlineMapValue w.T k.size) v)
    (h : w.mapSet p k v cx = .ok (old', w', cx')) : Post w cx w' cx' := by
  have P := WPre.of_inv H Hh
  unfold mapSet at h
  simp only [bind, Except.bind] at h
  split at h
  · cases h
  · rename_i r hsr
    obtain ⟨old, w1, cx1⟩ := r
    simp only at h
    have post1 := mapSetRaw_heap (notifyHeap D rank _) P (fun _ _ => rfl) hk hv hsr
    split at h
    · simp only [pure, Except.pure] at h
      cases h
      exact post1
    · rename_i o
      split at h
      · cases h
      · rename_i r2 hun
        obtain ⟨o', ov, w2, cx2⟩ := r2
        simp only [pure, Except.pure] at h
        cases h
        exact post1.trans (uninlineIfNeeded_post post1.heapOk post1.idsOk hun) P.heap

/-- `OrderedMap.Remove` -/
theorem mapRemove_heap {w w' : World} {p : SlabID} {k : MKey} {cx cx' : Ctx} {rk : MKey} {rv' : Elem}
    (H : HInv D rank w cx.ctr) (Hh : HeapOk w cx.ctr) (hk : KeyOk w.T 4 (D p) k)
    (h : w.mapRemove p k cx = .ok (rk, rv', w', cx')) : Post w cx w' cx' := by
  have P := WPre.of_inv H Hh
  unfold mapRemove at h
  split at h
  · rename_i m hp
    split at h
    · cases h
    · rename_i rk0 rv m' cx2 hs
      simp only [bind, Except.bind] at h
      split at h
      · cases h
      · rename_i r hnp
        obtain ⟨w3, cx3⟩ := r
        simp only at h
        split at h
        · cases h
        · rename_i r2 hun
          obtain ⟨o', ov, w4, cx4⟩ := r2
          simp only [pure, Except.pure] at h
          cases h
          have hlegal := P.legal
          have hpok : MapOk w.T (D p) m cx.ctr := (P.conts p _ hp).1
          have hvid : m.rootID = p := (P.conts p _ hp).2.1
          have hpaddr : p.addr = w.addr := (P.conts p _ hp).2.2.1
          have hroom := P.map_room hp rfl
          have hcfg := P.cfgOk hp
          obtain ⟨_, heff, hok', hinl', hrid, hle, hsz⟩ := hpok.remove_ok hlegal hcfg hk hroom hs
          have hma : m.addr = w.addr := by
            show m.rootID.addr = w.addr
            rw [hvid, hpaddr]
          have htree0 : TreeOk m.addr cx.ctr (.map m) := by
            rw [hma]; exact P.heap.treeOk hp
          obtain ⟨E, C, hlog, hca, _, _, htree⟩ := cstep_map_remove hlegal hpok hcfg hk hroom htree0 hs
          rw [hma] at htree
          have postMN : Post w cx w3 cx3 := by
            refine mutate_notify (notifyHeap D rank _) P (fun _ _ => rfl)
              hp hlog hca hok' htree (hrid.trans hvid) ?_ rfl ?_ (SameTab.refl _) hnp
            · intro hi
              have hi0 : m.isInlined = true := by rw [← hinl']; exact hi
              have h1 := hsz hi0
              show m'.rootHdr.size ≤ w.T
              have : m.rootHdr.size ≤ maxInlineArr w.T := H.room p (.map m) hp hi0
              have := inline_plus_entry_le w.T hlegal
              omega
            · intro x hx
              simp only [Cont.pays, Cont.storedElems, List.mem_map] at hx ⊢
              obtain ⟨e', ⟨q, hq, rfl⟩, hpe⟩ := hx
              obtain ⟨A, B, hA, hB⟩ := heff
              rw [hB] at hq
              refine Or.inl ⟨q.2, ⟨q, ?_, rfl⟩, hpe⟩
              rw [hA]
              rcases List.mem_append.1 hq with h1 | h1
              · exact List.mem_append.2 (Or.inl h1)
              · exact List.mem_append.2 (Or.inr (List.mem_cons_of_mem _ h1))
          exact postMN.trans (uninlineIfNeeded_post postMN.heapOk postMN.idsOk hun) P.heap
  · cases h

end World
end Atree
