import AtreeProofs.World.NotifyPrep
/-
  THE MAIN INDUCTION: a notification from a container `y` whose parent slot is out of date, issued
  through a current handle, re-establishes the global invariant and only touches `y` (in form) and
  the containers `y` is nested in.
-/
namespace Atree
open Gen

namespace World

variable {D : SlabID → DigestFn 4} {rank : SlabID → Nat} {O : SlabID → Prop}

/-- the statement proved by induction on the fuel -/
def NotifyOk (D : SlabID → DigestFn 4) (rank : SlabID → Nat) (O : SlabID → Prop) (fuel : Nat) : Prop :=
  ∀ w y cx w' cx', WorldOkGen D rank (some y) O w cx.ctr → HandleOk w y →
    (∀ z, O z → (w.cont? z).isSome → rank y < rank z) →
    notifyParent fuel w y cx = .ok (w', cx') →
    WorldOkGen D rank none O w' cx'.ctr ∧ NFrame rank w w' y ∧ cx.ctr ≤ cx'.ctr

/-! ### the world after `setCallbackArr` / `setCallbackMap` -/

theorem hinfo_setCallbackArr (w : World) (p : SlabID) (i : Nat) (y : SlabID) (wr : Nat) (z : SlabID) :
    AList.find? (w.setCallbackArr p i (.child y wr)).hinfo z =
      if y = z then some ⟨p, none, maxInlineArr w.T - 2 * wr, wr⟩ else AList.find? w.hinfo z := by
  simp only [setCallbackArr, AList.find?_insert]
  rfl

theorem idxOf_setCallbackArr (w : World) (p : SlabID) (i : Nat) (y : SlabID) (wr : Nat) (q z : SlabID) :
    AList.find? ((w.setCallbackArr p i (.child y wr)).idxOf q) z =
      if p = q ∧ y = z then some i else AList.find? (w.idxOf q) z := by
  have : (w.setCallbackArr p i (.child y wr)).idxOf q =
      if p = q then AList.insert (w.idxOf p) y i else w.idxOf q := by
    simp only [setCallbackArr, idxOf, setIdx, AList.find?_insert]
    split <;> rfl
  rw [this]
  by_cases hpq : p = q
  · subst hpq
    simp only [if_true, AList.find?_insert, true_and]
  · simp [hpq]

theorem hinfo_setCallbackMap (w : World) (p : SlabID) (k : MKey) (y : SlabID) (wr : Nat) (z : SlabID) :
    AList.find? (w.setCallbackMap p k (.child y wr)).hinfo z =
      if y = z then some ⟨p, some k, maxInlineMapValue w.T k.size - 2 * wr, wr⟩ else AList.find? w.hinfo z := by
  simp only [setCallbackMap, AList.find?_insert]

/-- after the closure of `y` has been (re)installed for slot `idx` of the array `p`, current closures
    are still current -/
theorem curKept_callback_arr {w w' : World} {p y : SlabID} {pa : Arr} {idx : Nat} {hn : HInfo}
    (hp : w.cont? p = some (.arr pa)) (hpay : (Cont.arr pa).pays[idx]? = some (Pay.ref y))
    (hpar : hn.parent = p) (hT : w'.T = w.T) (hc : ∀ z, w'.cont? z = w.cont? z)
    (hh : ∀ z, AList.find? w'.hinfo z = if y = z then some hn else AList.find? w.hinfo z)
    (hidx : ∀ q z, AList.find? (w'.idxOf q) z = if p = q ∧ y = z then some idx else AList.find? (w.idxOf q) z)
    (hold : ∀ hi, AList.find? w.hinfo y = some hi → ClosureCurrent w y hi → hi.parent = p) :
    CurKept w w' := by
  have hS : ContsSig w w' := ⟨hT, fun q => by rw [hc]⟩
  intro x hi hx hcur
  by_cases hyx : y = x
  · subst hyx
    refine ⟨hn, by rw [hh, if_pos rfl], by rw [hpar, hold hi hx hcur], ?_⟩
    rw [closureCurrent_iff]
    refine ⟨idx, .arr pa, by rw [hpar, hc]; exact hp, hpay, fun _ => ?_, fun h => by cases h⟩
    rw [hpar, hidx, if_pos ⟨rfl, rfl⟩]
  · refine ⟨hi, by rw [hh, if_neg hyx]; exact hx, rfl, ?_⟩
    rw [closureCurrent_iff] at hcur ⊢
    obtain ⟨j, hj⟩ := hcur
    refine ⟨j, hj.transfer hS ?_⟩
    rw [hidx, if_neg (fun h => hyx h.2)]

theorem curKept_callback_map {w w' : World} {p y : SlabID} {pm : OMap 3} {k : MKey} {e : Elem} {hn : HInfo}
    (hp : w.cont? p = some (.map pm)) (he : (k, e) ∈ pm.toList) (hpay : e.pay = .ref y)
    (hpar : hn.parent = p) (hkey : hn.key = some k) (hT : w'.T = w.T) (hc : ∀ z, w'.cont? z = w.cont? z)
    (hm : w'.mutIdx = w.mutIdx)
    (hh : ∀ z, AList.find? w'.hinfo z = if y = z then some hn else AList.find? w.hinfo z)
    (hold : ∀ hi, AList.find? w.hinfo y = some hi → ClosureCurrent w y hi → hi.parent = p) :
    CurKept w w' := by
  have hS : ContsSig w w' := ⟨hT, fun q => by rw [hc]⟩
  have hidx : ∀ q, w'.idxOf q = w.idxOf q := fun q => by simp [World.idxOf, hm]
  intro x hi hx hcur
  by_cases hyx : y = x
  · subst hyx
    refine ⟨hn, by rw [hh, if_pos rfl], by rw [hpar, hold hi hx hcur], ?_⟩
    refine ⟨maxInlineMapValue w'.T k.size, e, Or.inr ⟨pm, k, by rw [hpar, hc]; exact hp, hkey, he, hpay, rfl⟩⟩
  · refine ⟨hi, by rw [hh, if_neg hyx]; exact hx, rfl, ?_⟩
    rw [closureCurrent_iff] at hcur ⊢
    obtain ⟨j, hj⟩ := hcur
    exact ⟨j, hj.transfer hS (by rw [hidx])⟩

/-- a closure that is current points at the container that holds its owner -/
theorem closureCurrent_parent {w : World} {ctr : Nat} {stale : Option SlabID}
    (H : WorldOkGen D rank stale O w ctr) {y p : SlabID} (hpy : Holds w p y) (hy : (w.cont? y).isSome)
    {hi : HInfo} (hcur : ClosureCurrent w y hi) : hi.parent = p := by
  rw [closureCurrent_iff] at hcur
  obtain ⟨j, pc, hpc, hpay, _⟩ := hcur
  obtain ⟨pc', hpc', hm⟩ := hpy
  obtain ⟨j', hj'⟩ := List.mem_iff_getElem?.mp hm
  exact (H.unique hi.parent p pc pc' j j' y hpc hpc' hpay hj' hy).1

/-! ### the step through an ARRAY parent -/

theorem notify_arr_core {fuel : Nat} (IH : NotifyOk D rank O fuel) {w : World} {y : SlabID} {cx : Ctx}
    {hi : HInfo} {c : Cont} {pa : Arr} {idx : Nat} {el : Elem}
    (H : WorldOkGen D rank (some y) O w cx.ctr) (hO : ∀ z, O z → (w.cont? z).isSome → rank y < rank z)
    (hh : AList.find? w.hinfo y = some hi) (hc : w.cont? y = some c)
    (hpa : w.cont? hi.parent = some (.arr pa)) (hidx : AList.find? (w.idxOf hi.parent) y = some idx)
    (hget : pa.get idx = .ok el) (hel : el.pay = .ref y) (hpar : HandleOk w hi.parent)
    {old : Elem} {w4 : World} {cx4 : Ctx}
    (hsr : arrSetRaw fuel w hi.parent idx (.child y hi.wrap) cx = .ok (old, w4, cx4)) :
    WorldOkGen D rank none O w4 cx4.ctr ∧ NFrame rank w w4 y ∧ cx.ctr ≤ cx4.ctr := by
  have hpok : ArrOk w.T pa cx.ctr := H.conts hi.parent _ hpa
  have hge : pa.toList[idx]? = some el := hpok.get_ok H.legal hget
  have hks : ((Cont.arr pa).kslots w.T)[idx]? = some (none, maxInlineArr w.T, el) := by
    rw [Cont.kslots_arr]; exact ⟨el, hge, rfl⟩
  have hysome : (w.cont? y).isSome := by rw [hc]; rfl
  have hpy : Holds w hi.parent y := holds_of_kslot hpa hks hel
  have hrk : rank hi.parent < rank y := H.rank _ _ hpy hysome
  have hne : y ≠ hi.parent := by intro h; rw [← h] at hrk; omega
  have hOp : ¬ O hi.parent := fun h => by have := hO _ h (by rw [hpa]; rfl); omega
  obtain ⟨hmax, hwb⟩ := (H.closure y hi hh).1 pa hpa
  rw [arrSetRaw] at hsr
  simp only [hpa] at hsr
  split at hsr
  · cases hsr
  · simp only [World.storableOf] at hsr
    split at hsr
    · cases hsr
    · rename_i e w1 cx1 hst
      split at hsr
      · cases hsr
      · rename_i old1 a' cx3 hs
        split at hsr
        · cases hsr
        · rename_i w3 cx3' hnp
          cases hsr
          obtain ⟨c1, hsd, hok1, hinl1, _, hfit1, he, he1, he2, hc1, hco1, hT1, ha1, hh1, hm1, hctr1⟩ :=
            childStorable_valid H hc hwb (Nat.le_refl _) hst
          rw [hT1] at hs
          have hpok1 : ArrOk w.T pa cx1.ctr := by rw [hctr1]; exact hpok
          have hepay : e.pay = .ref y := by rw [he]
          obtain ⟨hold, hl, hok', hinl', hrid, _, hctr3, hsz⟩ :=
            hpok1.set_ok H.legal (StorOk.of_elemOk ⟨he1, he2⟩)
              (H.arr_room hpa (by intro h; cases h; exact hne rfl) hOp) hs
          rw [toStorable_ref _ _ e cx1 y hepay] at hl hsz
          simp only at hl hsz
          rw [hge] at hold
          cases hold
          have hks' : (Cont.arr a').kslots w.T
              = ((Cont.arr pa).kslots w.T).set idx (none, maxInlineArr w.T, ⟨slotSize c1 hi.wrap, .ref y⟩) := by
            simp only [Cont.kslots, hl, List.map_set, he]
          have hb2 := two_inline_le w.T H.legal
          -- the world at the recursive notification
          have H2 : WorldOkGen D rank (some hi.parent) O (w1.setCont hi.parent (.arr a')) cx3.ctr := by
            refine step_slot H hc hpa hks hel hsd (hok1.mono (by rw [← hctr1]; exact hctr3)) hwb hinl1
              (fun hi1 => by have := hfit1 hi1; omega)
              (fun hi' _ hhi' _ => by rw [hh] at hhi'; cases hhi'; rfl)
              hks' rfl hok' hinl' hrid ?_ (by rw [← hctr1]; exact hctr3) hT1 ha1 hh1 hm1
              (by rw [cont?_setCont_ne _ _ _ _ hne]; exact hc1) (by simp)
              (fun z hzy hzp => by rw [cont?_setCont_ne _ _ _ _ hzp]; exact hco1 z hzy)
            intro hi2
            have hi2' : pa.isInlined = true := by rw [← hinl']; exact hi2
            have hroom : pa.rootHdr.size ≤ maxInlineArr w.T :=
              H.inl_budget hpa hi2' (by intro h; cases h; exact hne rfl) hOp
            have := hsz hi2'
            show a'.rootHdr.size ≤ w.T
            omega
          have hS12 : ContsSig w (w1.setCont hi.parent (.arr a')) := by
            refine ⟨hT1, fun q => ?_⟩
            by_cases hq : hi.parent = q
            · subst hq
              rw [cont?_setCont_self, hpa]
              simp only [Option.map_some, Option.some.injEq]
              rw [Cont.sig_eq_kslots w.T, Cont.sig_eq_kslots w.T (Cont.arr pa), hks', List.map_set]
              congr 1
              apply list_set_self
              rw [List.getElem?_map, hks]; simp [hel]
            · rw [cont?_setCont, if_neg hq]
              by_cases hqy : q = y
              · subst hqy; rw [hc1, hc]; simp [hsd.sig_eq]
              · rw [hco1 q hqy]
          have hidx12 : ∀ q z, AList.find? ((w1.setCont hi.parent (.arr a')).idxOf q) z = AList.find? (w.idxOf q) z := by
            intro q z; simp [World.idxOf, hm1]
          have hcur12 : CurKept w (w1.setCont hi.parent (.arr a')) :=
            CurKept.of_sig hS12 hidx12 (fun x hix hx _ => by simp only [hinfo_setCont, hh1]; exact hx)
          have hpar2 : HandleOk (w1.setCont hi.parent (.arr a')) hi.parent :=
            hpar.transfer (fun p x => (hS12.holds_iff p x).mp) hcur12
          obtain ⟨H3, F3, hctr4⟩ := IH _ _ _ _ _ H2 hpar2
            (fun z hz hzs => by have := hO z hz (by rw [← hS12.isSome]; exact hzs); omega) hnp
          -- the world after the recursive notification
          have hy3 : w3.cont? y = some c1 := by
            rw [F3.above y hne (by omega), cont?_setCont_ne _ _ _ _ hne]; exact hc1
          obtain ⟨cp3, hcp3, hsd3⟩ := (by
            have := F3.self
            rw [cont?_setCont_self] at this
            exact this.get_some : ∃ cp3, w3.cont? hi.parent = some cp3 ∧ Cont.SameData (.arr a') cp3)
          obtain ⟨a3, rfl, hl3, _, _⟩ := hsd3.arr
          have he3 : a3.toList[idx]? = some (⟨slotSize c1 hi.wrap, .ref y⟩ : Elem) := by
            rw [hl3, hl, he]
            rw [List.getElem?_set_self (List.getElem?_eq_some_iff.mp hge).1]
          have hT3 : w3.T = w.T := F3.T.trans hT1
          have H4 := H3.callback_arr (w' := w3.setCallbackArr hi.parent idx (.child y hi.wrap))
            (hn := ⟨hi.parent, none, maxInlineArr w3.T - 2 * hi.wrap, hi.wrap⟩) hcp3 he3 rfl hy3 rfl rfl rfl
            (T_setCallbackArr _ _ _ _) rfl (fun z => cont?_setCallbackArr _ _ _ _ _)
            (hinfo_setCallbackArr _ _ _ _ _) (idxOf_setCallbackArr _ _ _ _ _)
          have hhi3 : AList.find? w3.hinfo y = some hi := by
            rw [F3.hinfo y hne (by omega)]; simp only [hinfo_setCont, hh1]; exact hh
          have hcur34 : CurKept w3 (w3.setCallbackArr hi.parent idx (.child y hi.wrap)) :=
            curKept_callback_arr (hn := ⟨hi.parent, none, maxInlineArr w3.T - 2 * hi.wrap, hi.wrap⟩) hcp3
              (by rw [Cont.pays, Cont.storedElems, List.getElem?_map, he3]; rfl) rfl (T_setCallbackArr _ _ _ _)
              (fun z => cont?_setCallbackArr _ _ _ _ _)
              (hinfo_setCallbackArr _ _ _ _ _) (idxOf_setCallbackArr _ _ _ _ _)
              (fun hi' hhi' _ => by rw [hhi3] at hhi'; cases hhi'; rfl)
          refine ⟨H4, ⟨by simp [hT3], (F3.addr.trans ha1 : _), ?_, ?_, ?_, ?_, ?_, (hcur12.trans F3.cur).trans hcur34⟩,
            by have := hctr1; omega⟩
          · exact (hS12.trans F3.sig).trans ⟨T_setCallbackArr _ _ _ _, fun q => by rw [cont?_setCallbackArr]⟩
          · intro z hzy hrz
            have hzp : z ≠ hi.parent := by intro h; rw [h] at hrz; omega
            rw [cont?_setCallbackArr, F3.above z hzp (by omega), cont?_setCont_ne _ _ _ _ hzp]
            exact hco1 z hzy
          · rw [cont?_setCallbackArr, hy3, hc]; exact hsd
          · intro z hzy hrz
            have hzp : z ≠ hi.parent := by intro h; rw [h] at hrz; omega
            rw [hinfo_setCallbackArr, if_neg (Ne.symm hzy), F3.hinfo z hzp (by omega)]
            simp only [hinfo_setCont, hh1]
          · intro q z
            rw [idxOf_setCallbackArr, F3.idx, hidx12]
            split
            · rename_i hqz
              obtain ⟨rfl, rfl⟩ := hqz
              exact hidx.symm
            · rfl

/-! ### the step through a MAP parent -/

/-- the configuration of the world fits every valid map of the world -/
theorem WorldOkGen.cfgOk {w : World} {ctr : Nat} {stale : Option SlabID} (H : WorldOkGen D rank stale O w ctr)
    {p : SlabID} {pm : OMap 3} (hp : w.cont? p = some (.map pm)) : CfgOk w.mcfg w.T pm := by
  refine ⟨rfl, rfl, ?_⟩
  have h1 : pm.rootID = p := H.ids p _ hp
  have h2 := H.addr p _ hp
  show w.addr = pm.rootID.addr
  rw [h1, h2]

theorem notify_map_core {fuel : Nat} (IH : NotifyOk D rank O fuel) {w : World} {y : SlabID} {cx : Ctx}
    {hi : HInfo} {c : Cont} {pm : OMap 3} {k k' : MKey} {el : Elem}
    (H : WorldOkGen D rank (some y) O w cx.ctr) (hO : ∀ z, O z → (w.cont? z).isSome → rank y < rank z)
    (hh : AList.find? w.hinfo y = some hi) (hc : w.cont? y = some c)
    (hpm : w.cont? hi.parent = some (.map pm)) (hk : hi.key = some k)
    (hget : pm.get w.mcfg k = .ok (k', el)) (hel : el.pay = .ref y) (hpar : HandleOk w hi.parent)
    {old : Option Elem} {w4 : World} {cx4 : Ctx}
    (hsr : mapSetRaw fuel w hi.parent k (.child y hi.wrap) cx = .ok (old, w4, cx4)) :
    WorldOkGen D rank none O w4 cx4.ctr ∧ NFrame rank w w4 y ∧ cx.ctr ≤ cx4.ctr := by
  have hmok : MapOk w.T (D hi.parent) pm cx.ctr := H.conts hi.parent _ hpm
  have hcfg := H.cfgOk hpm
  obtain ⟨hkok, hmax, hwb⟩ := (H.closure y hi hh).2 pm k hpm hk
  obtain ⟨_, hmem⟩ := hmok.get_ok H.legal hcfg hkok hget
  obtain ⟨j, hj⟩ := List.mem_iff_getElem?.mp hmem
  have hks : ((Cont.map pm).kslots w.T)[j]? = some (some k, maxInlineMapValue w.T k.size, el) := by
    rw [Cont.kslots_map]; exact ⟨k, el, hj, rfl⟩
  have hysome : (w.cont? y).isSome := by rw [hc]; rfl
  have hpy : Holds w hi.parent y := holds_of_kslot hpm hks hel
  have hrk : rank hi.parent < rank y := H.rank _ _ hpy hysome
  have hne : y ≠ hi.parent := by intro h; rw [← h] at hrk; omega
  have hOp : ¬ O hi.parent := fun h => by have := hO _ h (by rw [hpm]; rfl); omega
  rw [mapSetRaw] at hsr
  simp only [hpm] at hsr
  simp only [World.storableOf] at hsr
  split at hsr
  · cases hsr
  · rename_i e w1 cx1 hst
    split at hsr
    · cases hsr
    · rename_i old1 m' cx3 hs
      split at hsr
      · cases hsr
      · rename_i w3 cx3' hnp
        cases hsr
        obtain ⟨c1, hsd, hok1, hinl1, _, hfit1, he, he1, he2, hc1, hco1, hT1, ha1, hh1, hm1, hctr1⟩ :=
          childStorable_valid H hc hwb (maxInlineMapValue_le_arr _ _) hst
        have hcfg1 : w1.mcfg = w.mcfg := by simp [World.mcfg, hT1, ha1]
        rw [hcfg1] at hs
        have hmok1 : MapOk w.T (D hi.parent) pm cx1.ctr := by rw [hctr1]; exact hmok
        have hepay : e.pay = .ref y := by rw [he]
        obtain ⟨heff, hok', hinl', hrid, hctr3, hsz⟩ :=
          hmok1.set_ok H.legal hcfg hkok (⟨he1, Or.inr he2⟩ : ValueOkR w.T k.size e)
            (H.map_room hpm (by intro h; cases h; exact hne rfl) hOp) hs
        rw [storedValue_ref _ _ e cx1 y hepay] at heff
        -- the effect is an overwrite at position `j`
        have hl : m'.toList = pm.toList.set j (k, e) := by
          rcases heff with ⟨_, hnone, _⟩ | ⟨v0, A, B, _, hA, hB⟩
          · exact absurd rfl (hnone _ hmem)
          · have hA' : ((Cont.map pm).kslots w.T)[A.length]? = some (some k, maxInlineMapValue w.T k.size, v0) := by
              rw [Cont.kslots_map]; exact ⟨k, v0, by rw [hA]; exact getElem?_mid rfl, rfl⟩
            have := Cont.kslot_key_unique hmok hks hA' rfl rfl
            subst this
            rw [hB, hA, set_mid rfl]
        have hks' : (Cont.map m').kslots w.T
            = ((Cont.map pm).kslots w.T).set j (some k, maxInlineMapValue w.T k.size, ⟨slotSize c1 hi.wrap, .ref y⟩) := by
          simp only [Cont.kslots, hl, List.map_set, he]
        have hb2 := inline_plus_entry_le w.T H.legal
        have H2 : WorldOkGen D rank (some hi.parent) O (w1.setCont hi.parent (.map m')) cx3.ctr := by
          refine step_slot H hc hpm hks hel hsd (hok1.mono (by rw [← hctr1]; exact hctr3)) hwb hinl1
            (fun hi1 => by
              have := hfit1 hi1
              have := maxInlineMapValue_le_arr w.T k.size
              have := two_inline_le w.T H.legal
              omega)
            (fun hi' _ hhi' _ => by rw [hh] at hhi'; cases hhi'; rfl)
            hks' rfl hok' hinl' hrid ?_ (by rw [← hctr1]; exact hctr3) hT1 ha1 hh1 hm1
            (by rw [cont?_setCont_ne _ _ _ _ hne]; exact hc1) (by simp)
            (fun z hzy hzp => by rw [cont?_setCont_ne _ _ _ _ hzp]; exact hco1 z hzy)
          intro hi2
          have hi2' : pm.isInlined = true := by rw [← hinl']; exact hi2
          have hroom : pm.rootHdr.size ≤ maxInlineArr w.T :=
            H.inl_budget hpm hi2' (by intro h; cases h; exact hne rfl) hOp
          have := hsz hi2'
          show m'.rootHdr.size ≤ w.T
          omega
        have hS12 : ContsSig w (w1.setCont hi.parent (.map m')) := by
          refine ⟨hT1, fun q => ?_⟩
          by_cases hq : hi.parent = q
          · subst hq
            rw [cont?_setCont_self, hpm]
            simp only [Option.map_some, Option.some.injEq]
            rw [Cont.sig_eq_kslots w.T, Cont.sig_eq_kslots w.T (Cont.map pm), hks', List.map_set]
            congr 1
            apply list_set_self
            rw [List.getElem?_map, hks]; simp [hel]
          · rw [cont?_setCont, if_neg hq]
            by_cases hqy : q = y
            · subst hqy; rw [hc1, hc]; simp [hsd.sig_eq]
            · rw [hco1 q hqy]
        have hidx12 : ∀ q z, AList.find? ((w1.setCont hi.parent (.map m')).idxOf q) z = AList.find? (w.idxOf q) z := by
          intro q z; simp [World.idxOf, hm1]
        have hcur12 : CurKept w (w1.setCont hi.parent (.map m')) :=
          CurKept.of_sig hS12 hidx12 (fun x hix hx _ => by simp only [hinfo_setCont, hh1]; exact hx)
        have hpar2 : HandleOk (w1.setCont hi.parent (.map m')) hi.parent :=
          hpar.transfer (fun p x => (hS12.holds_iff p x).mp) hcur12
        obtain ⟨H3, F3, hctr4⟩ := IH _ _ _ _ _ H2 hpar2
            (fun z hz hzs => by have := hO z hz (by rw [← hS12.isSome]; exact hzs); omega) hnp
        have hy3 : w3.cont? y = some c1 := by
          rw [F3.above y hne (by omega), cont?_setCont_ne _ _ _ _ hne]; exact hc1
        obtain ⟨cp3, hcp3, hsd3⟩ := (by
          have := F3.self
          rw [cont?_setCont_self] at this
          exact this.get_some : ∃ cp3, w3.cont? hi.parent = some cp3 ∧ Cont.SameData (.map m') cp3)
        obtain ⟨m3, rfl, hl3, _, _⟩ := hsd3.map
        have he3 : (k, (⟨slotSize c1 hi.wrap, .ref y⟩ : Elem)) ∈ m3.toList := by
          rw [hl3, hl, he]
          exact List.mem_of_getElem? (List.getElem?_set_self (List.getElem?_eq_some_iff.mp hj).1)
        have hT3 : w3.T = w.T := F3.T.trans hT1
        have H4 := H3.callback_map (w' := w3.setCallbackMap hi.parent k (.child y hi.wrap))
          (hn := ⟨hi.parent, some k, maxInlineMapValue w3.T k.size - 2 * hi.wrap, hi.wrap⟩) hcp3 he3 hy3 (fun _ => rfl)
          (by rw [hT3]; exact hwb) (by rw [hT3]; exact hkok) rfl rfl rfl
          (T_setCallbackMap _ _ _ _) rfl (fun z => cont?_setCallbackMap _ _ _ _ _) (mutIdx_setCallbackMap _ _ _ _)
          (hinfo_setCallbackMap _ _ _ _ _)
        have hhi3 : AList.find? w3.hinfo y = some hi := by
          rw [F3.hinfo y hne (by omega)]; simp only [hinfo_setCont, hh1]; exact hh
        have hcur34 : CurKept w3 (w3.setCallbackMap hi.parent k (.child y hi.wrap)) :=
          curKept_callback_map (hn := ⟨hi.parent, some k, maxInlineMapValue w3.T k.size - 2 * hi.wrap, hi.wrap⟩) hcp3
            he3 rfl rfl rfl (T_setCallbackMap _ _ _ _) (fun z => cont?_setCallbackMap _ _ _ _ _)
            (mutIdx_setCallbackMap _ _ _ _) (hinfo_setCallbackMap _ _ _ _ _)
            (fun hi' hhi' _ => by rw [hhi3] at hhi'; cases hhi'; rfl)
        refine ⟨H4, ⟨by simp [hT3], (F3.addr.trans ha1 : _), ?_, ?_, ?_, ?_, ?_, (hcur12.trans F3.cur).trans hcur34⟩,
          by have := hctr1; omega⟩
        · exact (hS12.trans F3.sig).trans ⟨T_setCallbackMap _ _ _ _, fun q => by rw [cont?_setCallbackMap]⟩
        · intro z hzy hrz
          have hzp : z ≠ hi.parent := by intro h; rw [h] at hrz; omega
          rw [cont?_setCallbackMap, F3.above z hzp (by omega), cont?_setCont_ne _ _ _ _ hzp]
          exact hco1 z hzy
        · rw [cont?_setCallbackMap, hy3, hc]; exact hsd
        · intro z hzy hrz
          have hzp : z ≠ hi.parent := by intro h; rw [h] at hrz; omega
          rw [hinfo_setCallbackMap, if_neg (Ne.symm hzy), F3.hinfo z hzp (by omega)]
          simp only [hinfo_setCont, hh1]
        · intro q z
          have : (w3.setCallbackMap hi.parent k (.child y hi.wrap)).idxOf q = w3.idxOf q := by
            simp [World.idxOf]
          rw [this, F3.idx, hidx12]

/-! ### the induction -/

/-- the slot a current closure points at is THE slot that refers to the container -/
theorem closureAt_unique_slot {w : World} {ctr : Nat} {stale : Option SlabID}
    (H : WorldOkGen D rank stale O w ctr) {y : SlabID} {hi : HInfo} {lim : Nat} {e : Elem}
    (hca : ClosureAt w y hi lim e) (hy : (w.cont? y).isSome) {p : SlabID} {pc : Cont} {le : Nat × Elem}
    (hp : w.cont? p = some pc) (hle : le ∈ pc.slots w.T) (hpay : le.2.pay = .ref y) : le = (lim, e) := by
  obtain ⟨j, pc0, ko, hpos, hpc0, hk⟩ := (closureAt_iff w y hi lim e).mp hca
  obtain ⟨j', hj'⟩ := List.mem_iff_getElem?.mp hle
  obtain ⟨ko', hk'⟩ := Cont.slot_kslot hj'
  have hpay0 : (ko, lim, e).2.2.pay = .ref y := by
    obtain ⟨pc1, hpc1, hp1, _⟩ := hpos
    rw [hpc0] at hpc1; cases hpc1
    have := Cont.kslot_pay hk
    rw [hp1] at this
    simpa using this.symm
  obtain ⟨h1, h2⟩ := H.unique.slot hpc0 hp hk hk' hpay0 hpay hy
  subst h1; subst h2
  rw [hp] at hpc0; cases hpc0
  rw [hk] at hk'
  simp only [Option.some.injEq, Prod.mk.injEq] at hk'
  exact hk'.2.symm

/-- the budget recorded by a closure is the one of the slot it points at -/
theorem closure_budget {w : World} {ctr : Nat} {stale : Option SlabID} (H : WorldOkGen D rank stale O w ctr)
    {y : SlabID} {hi : HInfo} (hh : AList.find? w.hinfo y = some hi) {lim : Nat} {e : Elem}
    (hca : ClosureAt w y hi lim e) : hi.maxInline = lim - 2 * hi.wrap := by
  rcases hca with ⟨pa, i, hpa, _, _, _, hlim⟩ | ⟨pm, k, hpm, hk, _, _, hlim⟩
  · rw [hlim]; exact ((H.closure y hi hh).1 pa hpa).1
  · rw [hlim]; exact ((H.closure y hi hh).2 pm k hpm hk).2.1

/-- a handle without current closure is the handle of a root -/
theorem HandleOk.root_of_not_current {w : World} {y : SlabID} (h : HandleOk w y)
    (hn : ∀ hi, AList.find? w.hinfo y = some hi → ¬ ClosureCurrent w y hi) : ∀ p, ¬ Holds w p y := by
  cases h with
  | root _ hr => exact hr
  | child _ hi h1 h2 _ => exact absurd h2 (hn hi h1)

/-- a notification that finds nothing to do (and at most drops the stale closure of a root) -/
theorem notify_root {w w' : World} {y : SlabID} {ctr : Nat} (H : WorldOkGen D rank (some y) O w ctr)
    (hroot : ∀ p, ¬ Holds w p y) (hT : w'.T = w.T) (ha : w'.addr = w.addr) (hc : w'.conts = w.conts)
    (hm : w'.mutIdx = w.mutIdx)
    (hh : ∀ z, z ≠ y → AList.find? w'.hinfo z = AList.find? w.hinfo z)
    (hhy : ∀ hi, AList.find? w'.hinfo y = some hi → AList.find? w.hinfo y = some hi) :
    WorldOkGen D rank none O w' ctr ∧ NFrame rank w w' y := by
  have hc' : ∀ z, w'.cont? z = w.cont? z := fun z => by simp [World.cont?, hc]
  have hidx : ∀ q, w'.idxOf q = w.idxOf q := fun q => by simp [World.idxOf, hm]
  have hsub : ∀ x hi, AList.find? w'.hinfo x = some hi → AList.find? w.hinfo x = some hi := by
    intro x hi hx
    by_cases hxy : x = y
    · subst hxy; exact hhy hi hx
    · rw [← hh x hxy]; exact hx
  have hS : ContsSig w w' := ⟨hT, fun q => by rw [hc']⟩
  refine ⟨(H.unstale_root hroot).hinfo_sub hT ha hc' hm hsub,
    ⟨hT, ha, hS, fun z _ _ => hc' z, OSame.of_eq (hc' y), fun z hz _ => hh z hz, fun q z => by rw [hidx], ?_⟩⟩
  refine CurKept.of_sig hS (fun q z => by rw [hidx]) ?_
  intro x hi hx hcur
  by_cases hxy : x = y
  · subst hxy
    rw [closureCurrent_iff] at hcur
    obtain ⟨j, hj⟩ := hcur
    exact absurd hj.holds (hroot _)
  · rw [hh x hxy]; exact hx

theorem notify_ok (D : SlabID → DigestFn 4) (rank : SlabID → Nat) (O : SlabID → Prop) :
    ∀ fuel, NotifyOk D rank O fuel := by
  intro fuel
  induction fuel with
  | zero => intro w y cx w' cx' _ _ _ h; rw [notifyParent] at h; cases h
  | succ fuel ih =>
    intro w y cx w' cx' H hhand hO h
    rw [notifyParent] at h
    split at h
    · -- no closure
      rename_i hnone
      cases h
      have hroot := hhand.root_of_not_current (fun hi hhi => by rw [hnone] at hhi; cases hhi)
      obtain ⟨h1, h2⟩ := notify_root H hroot rfl rfl rfl rfl (fun _ _ => rfl) (fun _ h => h)
      exact ⟨h1, h2, Nat.le_refl _⟩
    · cases h
    · rename_i hi c hh hc
      have hysome : (w.cont? y).isSome := by rw [hc]; rfl
      have hOy : ¬ O y := fun hh => by have := hO y hh hysome; omega
      -- the two ways of finding nothing
      have hnotfound : (∀ hi', AList.find? w.hinfo y = some hi' → ¬ ClosureCurrent w y hi') →
          WorldOkGen D rank none O { w with hinfo := AList.erase w.hinfo y } cx.ctr ∧
          NFrame rank w { w with hinfo := AList.erase w.hinfo y } y := by
        intro hn
        refine notify_root H (hhand.root_of_not_current hn) rfl rfl rfl rfl ?_ ?_
        · intro z hz
          show AList.find? (AList.erase w.hinfo y) z = _
          rw [AList.find?_erase, if_neg (Ne.symm hz)]
        · intro hi' hx
          have hx' : AList.find? (AList.erase w.hinfo y) y = some hi' := hx
          rw [AList.find?_erase, if_pos rfl] at hx'
          cases hx'
      split at h
      · -- the child stays a separate slab
        rename_i hstay
        cases h
        simp only [Bool.and_eq_true, Bool.not_eq_true'] at hstay
        refine ⟨?_, NFrame.refl _ _ _, Nat.le_refl _⟩
        by_cases hcur : ClosureCurrent w y hi
        · obtain ⟨lim, e, hca⟩ := hcur
          have hbud := closure_budget H hh hca
          refine H.unstale ?_
          intro p pc hp le hle c' hpay hc' wr _ hstand hfaith
          rw [hc] at hc'; cases hc'
          have hle' := closureAt_unique_slot H hca hysome hp hle hpay
          subst hle'
          have hw : hi.wrap = wr := hfaith hi hOy hh hca
          refine ⟨hstand hstay.1, ?_⟩
          rw [hstay.1, ← hw, ← hbud, hstay.2]
        · exact H.unstale_root (hhand.root_of_not_current
            (fun hi' hhi' => by rw [hh] at hhi'; cases hhi'; exact hcur))
      · simp only at h
        split at h
        · -- the recorded parent is gone
          rename_i hpnone
          cases h
          obtain ⟨h1, h2⟩ := hnotfound (fun hi' hhi' hcur => by
            rw [hh] at hhi'; cases hhi'
            rw [closureCurrent_iff] at hcur
            obtain ⟨j, pc, hpc, _⟩ := hcur
            rw [hpnone] at hpc; cases hpc)
          exact ⟨h1, h2, Nat.le_refl _⟩
        · -- array parent
          rename_i pa hpa
          split at h
          · rename_i hidxn
            cases h
            obtain ⟨h1, h2⟩ := hnotfound (fun hi' hhi' hcur => by
              rw [hh] at hhi'; cases hhi'
              rw [closureCurrent_iff] at hcur
              obtain ⟨j, pc, hpc, _, harr, _⟩ := hcur
              rw [hpa] at hpc; cases hpc
              rw [hidxn] at harr
              exact absurd (harr rfl) (by simp))
            exact ⟨h1, h2, Nat.le_refl _⟩
          · rename_i idx hidx
            split at h
            · cases h
            · rename_i el hget
              have hpok : ArrOk w.T pa cx.ctr := H.conts hi.parent _ hpa
              have hge : pa.toList[idx]? = some el := hpok.get_ok H.legal hget
              have hpay : el.pay = .ref y := by
                have := H.mutIdx hi.parent pa hpa y idx hidx hOy
                rw [Cont.pays, Cont.storedElems, List.getElem?_map, hge] at this
                simpa using this
              split at h
              · rename_i hne
                exact absurd hpay hne
              · split at h
                · cases h
                · rename_i old w2 cx2 hsr
                  split at h
                  · cases h
                  · cases h
                    have hks : ((Cont.arr pa).kslots w.T)[idx]? = some (none, maxInlineArr w.T, el) := by
                      rw [Cont.kslots_arr]; exact ⟨el, hge, rfl⟩
                    obtain ⟨hi', hhi', _, hpar⟩ := hhand.of_held (holds_of_kslot hpa hks hpay)
                    rw [hh] at hhi'; cases hhi'
                    exact notify_arr_core ih H hO hh hc hpa hidx hget hpay hpar hsr
        · -- map parent
          rename_i pm hpm
          split at h
          · cases h
          · rename_i k hk
            obtain ⟨hkok, _, _⟩ := (H.closure y hi hh).2 pm k hpm hk
            have hmok : MapOk w.T (D hi.parent) pm cx.ctr := H.conts hi.parent _ hpm
            have hcfg := H.cfgOk hpm
            -- a current closure finds its element
            have hfind : ClosureCurrent w y hi → ∃ e, e.pay = .ref y ∧ (k, e) ∈ pm.toList ∧
                pm.get w.mcfg k = .ok (k, e) := by
              rintro ⟨lim, e, hca⟩
              rcases hca with ⟨pa2, _, hpa2, _⟩ | ⟨pm2, k2, hpm2, hk2, hmem, hpay2, _⟩
              · rw [hpm] at hpa2; cases hpa2
              · rw [hpm] at hpm2; cases hpm2
                rw [hk] at hk2; cases hk2
                exact ⟨e, hpay2, hmem, (hmok.get_spec H.legal hcfg hkok).1 e hmem⟩
            split at h
            · rename_i hgetn
              cases h
              obtain ⟨h1, h2⟩ := hnotfound (fun hi' hhi' hcur => by
                rw [hh] at hhi'; cases hhi'
                obtain ⟨e, _, _, hg⟩ := hfind hcur
                rw [hg] at hgetn; cases hgetn)
              exact ⟨h1, h2, Nat.le_refl _⟩
            · cases h
            · rename_i k' el hget
              split at h
              · rename_i hne
                cases h
                obtain ⟨h1, h2⟩ := hnotfound (fun hi' hhi' hcur => by
                  rw [hh] at hhi'; cases hhi'
                  obtain ⟨e, hp, _, hg⟩ := hfind hcur
                  rw [hg] at hget; cases hget
                  exact hne hp)
                exact ⟨h1, h2, Nat.le_refl _⟩
              · rename_i hpay'
                have hpay : el.pay = .ref y := by
                  by_cases hq : el.pay = .ref y
                  · exact hq
                  · exact absurd hq hpay'
                split at h
                · cases h
                · rename_i old w2 cx2 hsr
                  obtain ⟨_, hmem⟩ := hmok.get_ok H.legal hcfg hkok hget
                  obtain ⟨j, hj⟩ := List.mem_iff_getElem?.mp hmem
                  have hks : ((Cont.map pm).kslots w.T)[j]? = some (some k, maxInlineMapValue w.T k.size, el) := by
                    rw [Cont.kslots_map]; exact ⟨k, el, hj, rfl⟩
                  obtain ⟨hi', hhi', _, hpar⟩ := hhand.of_held (holds_of_kslot hpm hks hpay)
                  rw [hh] at hhi'; cases hhi'
                  have hres := notify_map_core ih H hO hh hc hpm hk hget hpay hpar hsr
                  split at h
                  · split at h
                    · cases h
                    · cases h; exact hres
                  · cases h

end World
end Atree
