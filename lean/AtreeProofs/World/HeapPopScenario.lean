import AtreeProofs.Props.C09WPop
import AtreeProofs.World.WPopScenario
import AtreeProofs.World.HeapScenario
/-
  NON-VACUITY of the pop / disposal theorems of `Props/C09WPop.lean`, on run H of
  `World/WPopScenario.lean` (T = 256): root array `R` ∋ inlined array `F`; `X`, removed from `F`, is a
  standalone detached root; `R` is popped through its handle and `F` disposed of.
-/
namespace Atree.HeapPopScenario
open Atree Gen World
open Atree.PopOkScenario
open Atree.OkScenario (D unrefB_sound freshB_live not_anc_of_fresh)
open Atree.Scenario (w0 cx0)
open Atree.C09 (newEffects newCreated)

theorem hkH1 : HeapOk h1.2.1 h1.2.2.ctr := HeapScenario.hk1
theorem hkH2 : HeapOk h2.2.1 h2.2.2.ctr :=
  (C09W.newArr_effects_complete D h1.2.1 8 h1.2.2 (C10W.worldOk'_of_worldOk OkScenario.ok1.1) hkH1).2.2.1
theorem hkH3 : HeapOk h3.2.1 h3.2.2.ctr :=
  (C09W.newArr_effects_complete D h2.2.1 9 h2.2.2
    (C10W.worldOk'_of_worldOk (World.newArr_ok (D := D) (ty := 8) OkScenario.ok1.1).1) hkH2).2.2.1

theorem hkH4 : HeapOk h4.1 h4.2.ctr := by
  have hv : WValOk h3.2.1 R (maxInlineArr h3.2.1.T) (.child F 0) :=
    ⟨freshB_live (by decide), unrefB_sound (by decide), not_anc_of_fresh (by decide) (by decide), by decide⟩
  exact (C09W.arrInsert_effects_complete D _ _ _ _ _ _ _ (C10W.worldOk'_of_worldOk okH3) hkH3 hv runH4).2.2.1

theorem hkH5 : HeapOk h5.1 h5.2.ctr := by
  have hv : WValOk h4.1 F (maxInlineArr h4.1.T) (.child X 0) :=
    ⟨freshB_live (by decide), unrefB_sound (by decide), not_anc_of_fresh (by decide) (by decide), by decide⟩
  exact (C09W.arrInsert_effects_complete D _ _ _ _ _ _ _ (C10W.worldOk'_of_worldOk okH4.1) hkH4 hv runH5).2.2.1

/-- `X` removed from the inlined `F`: handed back, un-inlined -/
theorem stepH6 : WEffectsComplete h5.1 h6.2.1 (newEffects h5.2 h6.2.2) (newCreated h5.2 h6.2.2) ∧
    HeapOk h6.2.1 h6.2.2.ctr := by
  obtain ⟨_, g2, g3, _⟩ := C09W.arrRemove_effects_complete D _ _ _ _ _ _ _ (C10W.worldOk'_of_worldOk okH5.1) hkH5 runH6
  exact ⟨g2, g3⟩

/-- the pop of `R`: the theorem applies (its hypotheses hold on this run) -/
example := C09W.arrPop_effects_complete D _ _ _ _ _ _ (C10W.worldOk'_of_worldOk okH6) stepH6.2 runH7

/-- before the removal: `R` (embedding `F`, embedding `X`) is the only slab -/
example : h5.1.heapIds = [R] := by decide
/-- `X` handed back by `F.Remove`: it becomes a standalone slab; `R` is rewritten (chain `F` → `R`) -/
example : newEffects h5.2 h6.2.2 = [.store R, .store X] := by decide
example : h6.2.1.heapIds = [X, R] := by decide
/-- the pop of `R`: the library rewrites the root; `F` was inlined, so the caller's disposal of it
    removes no slab; afterwards the heap is the emptied `R` and the detached root `X` -/
example : newEffects h6.2.2 h7.2.2 = [.store R] := by decide
example : h7.2.1.heapIds = [R, X] := by decide

/-- disposal of the detached root `X` by the caller: one remove; only `R` remains -/
example : dropLog h7.2.1 (forget h7.2.1.fuelOf h7.2.1 X) = [.remove X] ∧
    (forget h7.2.1.fuelOf h7.2.1 X).heapIds = [R] := by decide
example := C09W.forget_effects_complete h7.2.1 h7.2.2.ctr
  (C09W.arrPop_effects_complete D _ _ _ _ _ _ (C10W.worldOk'_of_worldOk okH6) stepH6.2 runH7).choose_spec.choose_spec.choose_spec.2.2.2.1 X

/-! ### run P: the inlined map `M` of the depth-3 world is popped through its handle, its inlined
    child `A` disposed of; the chain rewrites `R` -/

/-- the theorem applies (hypotheses hold on this run) -/
example := C09W.mapPop_effects_complete D _ _ _ _ _ _ okV0 HeapScenario.step14.2 runP1

example : v0.1.heapIds = [OkScenario.R, OkScenario.B] := by decide
/-- `M` and `A` were inlined: emptying `M` and disposing of `A` remove no slab; the parent chain
    stores `R` (which embeds the now empty `M`) -/
example : newEffects v0.2 p1.2.2 = [.store OkScenario.R] := by decide
example : p1.2.1.heapIds = [OkScenario.R, OkScenario.B] ∧ (p1.2.1.cont? OkScenario.A).isSome = false := by decide

end Atree.HeapPopScenario
