import AtreeProofs.World.TotalSim
import AtreeProofs.World.TotalOpsMap
import AtreeProofs.World.WPopMid
import AtreeProofs.World.WPopCont
/-
  TOTAL correctness, part 6 (audit item S3): the BULK POPS through a current handle always succeed
  (`arrPop`, `mapPop`, `arrPopKeep`, `mapPopKeep`), and the lookups `arrGet` / `mapGet` succeed in
  range / on a present key (they never notify).  Directly for the invariant `WorldOk'`
  (`WorldOkPK`): the world after the disposal of the popped containers is where closures with dead
  parents appear; the notification is run on its pruned version (`step_pop` gives the generalised
  invariant there, `notify_total` the success) and carried back by the reverse simulation
  (`rsim_notifyParent`).
-/
namespace Atree
open Gen

namespace World

variable {D : SlabID → DigestFn 4} {rank : SlabID → Nat}

/-- `KeyedClosures` of the pruned world after a pop -/
theorem PopRel.keyed {w w2 : World} {h : SlabID} {pc pc' : Cont} (P : PopRel w w2 h pc pc')
    (harr : pc'.isArr = pc.isArr) (hK : KeyedClosures w) : KeyedClosures w2.prune := by
  refine hK.transfer (fun z m' hz => ?_) (fun x hi hx => Or.inl (P.hinfo_sub (find?_prune_some.mp hx).1))
  rw [cont?_prune] at hz
  by_cases hzh : z = h
  · subst hzh
    rw [P.now] at hz; cases hz
    have hw := P.was
    cases pc with
    | arr a => cases harr
    | map m => exact ⟨m, hw⟩
  · exact ⟨m', (P.kept hzh hz).1⟩

/-- Generic core of the totality of the bulk pops (hypotheses of `pop_core`, without the run) -/
theorem pop_core_total {w e0 : World} {h : SlabID} {pc pc' : Cont} {keep : List SlabID} {es : List Elem}
    {cx1 : Ctx} {ctr : Nat}
    (H : WorldOkPK D rank (fun _ => False) w ctr) (hKc : KeyedClosures w) (hhand : HandleOk w h)
    (hp : w.cont? h = some pc)
    (E : Emptied w h pc' e0) (hidx : ∀ x, AList.find? (e0.idxOf h) x = none)
    (hes : ∀ e, e ∈ es ↔ e ∈ pc.storedElems)
    (hokp : ContOk w.T (D h) cx1.ctr pc') (harr : pc'.isArr = pc.isArr) (hinlp : pc'.isInlined = pc.isInlined)
    (hvid : pc'.vid = pc.vid) (hbp : pc'.isInlined = true → pc'.rootSize ≤ w.T) (hctr : ctr ≤ cx1.ctr) :
    ∃ w' cx', notifyParent (e0.forgetElems (disposed keep es)).fuelOf (e0.forgetElems (disposed keep es)) h cx1
      = .ok (w', cx') := by
  let K : SlabID → Prop := fun x => KeptOf keep pc x ∧ (w.cont? x).isSome
  let ds := disposed keep es
  have hds : ∀ e ∈ ds, e ∈ pc.storedElems := fun e he => (hes e).mp (mem_disposed.mp he).1
  obtain ⟨P, hfree⟩ := popRel_mid H hp E hidx ds hds
  obtain ⟨s, cl, n1, snd⟩ := forgetElems_spec ds e0
  have hpop : ∀ x, Pay.ref x ∈ pc.pays → (w.cont? x).isSome → (e0.forgetElems ds).cont? x = none ∨ K x := by
    intro x hx hxl
    by_cases hk : x ∈ keep
    · exact Or.inr ⟨⟨hk, hx⟩, hxl⟩
    · obtain ⟨e, he, hpe⟩ := mem_pays_iff.mp hx
      refine Or.inl (n1 e (mem_disposed.mpr ⟨(hes e).mpr he, fun v hv => ?_⟩) x hpe)
      rw [hpe] at hv; cases hv; exact hk
  have hK : ∀ x, K x → Pay.ref x ∈ pc.pays ∧ (w.cont? x).isSome := fun x hx => ⟨hx.1.2, hx.2⟩
  obtain ⟨Hm, hmut, hKroot⟩ := step_pop (K := K) H P hokp harr hinlp hvid hbp hctr hpop hK
  have hhand' : HandleOk (e0.forgetElems ds).prune h := P.handleOk H.unique hhand (by rw [P.now]; rfl)
  have hbm : HinfoBelow (e0.forgetElems ds) cx1.ctr :=
    fun x hi hx => Nat.le_trans (H.hinfoBelow x hi (P.hinfo_sub hx)) hctr
  obtain ⟨w0', cx', hn0⟩ := notify_total D rank K (e0.forgetElems ds).fuelOf (e0.forgetElems ds).prune h cx1 Hm hhand'
    (fun z hz _ => H.rank h z ⟨pc, hp, hz.1.2⟩ hz.2) (by rw [cont?_prune, P.now]; rfl) (P.keyed harr hKc)
    (fuelOk_fuelOf_of_live rank h (fun z hz => by rw [cont?_prune] at hz; exact hz))
  obtain ⟨w', hn, _⟩ := rsim_notifyParent _ _ _ _ _ _ _ _ (sim_prune hbm) (by rw [P.now]; rfl) hn0
  exact ⟨w', cx', hn⟩

/-- a legal threshold is at least 256 -/
theorem legal_ge256 {T : Nat} (h : legalThreshold T = true) : 256 ≤ T := by
  simp only [legalThreshold, minSlabSize, Bool.and_eq_true, decide_eq_true_eq] at h
  exact of_decide_eq_true h.1

/-- `Array.PopIterate` through a current handle (the caller keeping the children `keep`) succeeds
    and hands out the elements, last to first -/
theorem arrPopKeep_succeeds {w : World} {h : SlabID} {keep : List SlabID} {cx : Ctx} {a : Arr}
    (H : WorldOk' D w cx.ctr) (hKc : KeyedClosures w) (hh : HandleOk w h) (hc : w.cont? h = some (.arr a)) :
    ∃ w' cx', w.arrPopKeep h keep cx = .ok (a.toList.reverse, w', cx') := by
  obtain ⟨rank, H0⟩ := H
  obtain ⟨k1, k2, k3, k4, k5, k6⟩ := contOk_arr_pop H0.legal a cx (H0.conts h _ hc)
  have hfst : (a.popIterate cx).1 = a.toList.reverse := (arr_popIterate_refines a cx).1
  obtain ⟨w', cx', hn⟩ := pop_core_total (keep := keep) (es := (a.popIterate cx).1) H0 hKc hh hc
    (emptied_arr hc cx) (fun x => by simp) (fun e => by rw [hfst]; exact List.mem_reverse)
    k1 rfl k3 k4 (fun hi => by
      rw [k6 hi]; have := legal_ge256 H0.legal; simp [inlinedArrayDataSlabPrefixSize]; omega)
    (by rw [k2]; exact Nat.le_refl _)
  refine ⟨w', cx', ?_⟩
  unfold arrPopKeep
  simp only [hc]
  rw [← hfst]
  simp only [hn]

/-- `OrderedMap.PopIterate` through a current handle (the caller keeping the children `keep`) -/
theorem mapPopKeep_succeeds {w : World} {h : SlabID} {keep : List SlabID} {cx : Ctx} {m : OMap 3}
    (H : WorldOk' D w cx.ctr) (hKc : KeyedClosures w) (hh : HandleOk w h) (hc : w.cont? h = some (.map m)) :
    ∃ w' cx', w.mapPopKeep h keep cx = .ok (m.toList.reverse, w', cx') := by
  obtain ⟨rank, H0⟩ := H
  obtain ⟨k1, k2, k3, k4, k5, k6⟩ := contOk_map_pop H0.legal m cx (H0.conts h _ hc)
  have hfst : (m.popIterate cx).1 = m.toList.reverse := MTree.popIterate_fst m.d m.root cx
  have hidx : ∀ x, AList.find? ((w.setCont h (.map (m.popIterate cx).2.1)).idxOf h) x = none := by
    intro x
    cases hx : AList.find? ((w.setCont h (.map (m.popIterate cx).2.1)).idxOf h) x with
    | none => rfl
    | some i =>
      obtain ⟨_, a, ha⟩ := H0.idxLive h x i hx
      rw [hc] at ha; cases ha
  obtain ⟨w', cx', hn⟩ := pop_core_total (keep := keep) (es := (m.popIterate cx).1.map (·.2)) H0 hKc hh hc
    (emptied_map hc cx) hidx
    (fun e => by
      rw [hfst, List.map_reverse]
      exact List.mem_reverse)
    k1 rfl k3 k4 (fun hi => by
      rw [k6 hi]; have := legal_ge256 H0.legal
      simp [inlinedMapDataSlabPrefixSize, hkeyElementsPrefixSize]; omega)
    (by rw [k2]; exact Nat.le_refl _)
  refine ⟨w', cx', ?_⟩
  unfold mapPopKeep
  simp only [hc]
  rw [← hfst]
  simp only [hn]

/-! ### the lookups -/

/-- `Array.Get` succeeds on an index in range and returns the element -/
theorem arrGet_succeeds {w : World} {p : SlabID} {i : Nat} {a : Arr} {el : Elem} {T ctr : Nat}
    (hT : legalThreshold T = true) (hok : ArrOk T a ctr) (hpa : w.cont? p = some (.arr a))
    (hi : a.toList[i]? = some el) : ∃ w', w.arrGet p i = .ok (el, w') := by
  unfold arrGet
  simp only [hpa, hok.get_of_getElem? hT hi]
  cases hp : el.pay with
  | val n => exact ⟨_, rfl⟩
  | ref vid =>
    simp only
    cases w.cont? vid with
    | none => exact ⟨_, rfl⟩
    | some c => exact ⟨_, rfl⟩

/-- `Array.Get` rejects an index out of range -/
theorem arrGet_oob {w : World} {p : SlabID} {i : Nat} {a : Arr} {T ctr : Nat}
    (hT : legalThreshold T = true) (hok : ArrOk T a ctr) (hpa : w.cont? p = some (.arr a))
    (hi : a.toList.length ≤ i) : w.arrGet p i = .error (.arr .indexOutOfBounds) := by
  unfold arrGet
  simp only [hpa, (hok.get_spec hT i).2 hi]

/-- `OrderedMap.Get` succeeds on a key that is present and returns its value -/
theorem mapGet_succeeds {w : World} {p : SlabID} {k : MKey} {m : OMap 3} {el : Elem} {Dm : DigestFn 4} {ctr : Nat}
    (hT : legalThreshold w.T = true) (hok : MapOk w.T Dm m ctr) (hcfg : CfgOk w.mcfg w.T m)
    (hk : KeyOk w.T 4 Dm k) (hpm : w.cont? p = some (.map m)) (hmem : (k, el) ∈ m.toList) :
    ∃ w', w.mapGet p k = .ok (el, w') := by
  unfold mapGet
  simp only [hpm, (hok.get_spec hT hcfg hk).1 el hmem]
  cases hp : el.pay with
  | val n => exact ⟨_, rfl⟩
  | ref vid =>
    simp only
    cases w.cont? vid with
    | none => exact ⟨_, rfl⟩
    | some c => exact ⟨_, rfl⟩

/-- `OrderedMap.Get` of an absent key: `keyNotFound` -/
theorem mapGet_absent {w : World} {p : SlabID} {k : MKey} {m : OMap 3} {Dm : DigestFn 4} {ctr : Nat}
    (hT : legalThreshold w.T = true) (hok : MapOk w.T Dm m ctr) (hcfg : CfgOk w.mcfg w.T m)
    (hk : KeyOk w.T 4 Dm k) (hpm : w.cont? p = some (.map m)) (habs : ∀ q ∈ m.toList, q.1 ≠ k) :
    w.mapGet p k = .error (.map .keyNotFound) := by
  unfold mapGet
  simp only [hpm, (hok.get_spec hT hcfg hk).2 habs]

end World
end Atree
