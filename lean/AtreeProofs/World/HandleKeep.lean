import AtreeProofs.World.OpsPrep
import AtreeProofs.WorldOkFrame
/-
  ALL current handles stay current (audit a5, S2).

  `HKeep E w w'`: what the handles of the containers OUTSIDE `E` need from a world update — no new
  holder, current closures stay current.  `E` is the set of containers an operation moves: the
  container it stores into a slot, the container(s) whose slot it overwrites or removes; their
  handles are re-established separately (`HKeep.handleOk`).  `HKeep` composes along the steps of an
  operation; `hkeep_mutate` is the step that changes the content of the target container (one slot
  inserted, overwritten or removed — the same interface as `step_mutate`).
-/
namespace Atree
open Gen

namespace World

/-- what the handles of the containers outside `E` need from a world update -/
structure HKeep (E : SlabID → Prop) (w w' : World) : Prop where
  holds : ∀ q x, ¬ E x → Holds w' q x → Holds w q x
  cur : ∀ x hi, ¬ E x → AList.find? w.hinfo x = some hi → ClosureCurrent w x hi →
    ∃ hi', AList.find? w'.hinfo x = some hi' ∧ hi'.parent = hi.parent ∧ ClosureCurrent w' x hi'

namespace HKeep
variable {E : SlabID → Prop} {w w' w1 w2 w3 : World}

theorem refl (E : SlabID → Prop) (w : World) : HKeep E w w :=
  ⟨fun _ _ _ h => h, fun _ hi _ h1 h2 => ⟨hi, h1, rfl, h2⟩⟩

theorem trans (h12 : HKeep E w1 w2) (h23 : HKeep E w2 w3) : HKeep E w1 w3 := by
  refine ⟨fun q x hE h => h12.holds q x hE (h23.holds q x hE h), ?_⟩
  intro x hi hE h1 h2
  obtain ⟨hi2, a1, a2, a3⟩ := h12.cur x hi hE h1 h2
  obtain ⟨hi3, b1, b2, b3⟩ := h23.cur x hi2 hE a1 a3
  exact ⟨hi3, b1, b2.trans a2, b3⟩

theorem mono {E' : SlabID → Prop} (h : HKeep E w w') (hE : ∀ x, E x → E' x) : HKeep E' w w' :=
  ⟨fun q x hx => h.holds q x (fun he => hx (hE x he)), fun x hi hx => h.cur x hi (fun he => hx (hE x he))⟩

/-- no new holder, every current closure stays current -/
theorem of_curKept (E : SlabID → Prop) (hholds : ∀ q x, Holds w' q x → Holds w q x) (hcur : CurKept w w') :
    HKeep E w w' :=
  ⟨fun q x _ h => hholds q x h, fun x hi _ h1 h2 => hcur x hi h1 h2⟩

/-- same signatures, same index lookups, same closures -/
theorem of_sig (E : SlabID → Prop) (hS : ContsSig w w')
    (hidx : ∀ q z, AList.find? (w'.idxOf q) z = AList.find? (w.idxOf q) z) (hh : w'.hinfo = w.hinfo) :
    HKeep E w w' :=
  of_curKept E (fun q x => (hS.holds_iff q x).mp)
    (CurKept.of_sig hS hidx (fun y hiy hy _ => by rw [hh]; exact hy))

/-- same containers and closures; the index lookups of the containers outside `E` are the same -/
theorem of_idx (hT : w'.T = w.T) (hc : ∀ z, w'.cont? z = w.cont? z) (hh : w'.hinfo = w.hinfo)
    (hidx : ∀ q z, ¬ E z → AList.find? (w'.idxOf q) z = AList.find? (w.idxOf q) z) : HKeep E w w' := by
  refine ⟨fun q x _ ⟨qc, hqc, hm⟩ => ⟨qc, by rw [← hc]; exact hqc, hm⟩, ?_⟩
  intro x hi hE h1 h2
  refine ⟨hi, by rw [hh]; exact h1, rfl, ?_⟩
  rw [closureCurrent_iff] at h2 ⊢
  obtain ⟨j, hj⟩ := h2
  exact ⟨j, hj.transfer ⟨hT, fun q => by rw [hc]⟩ (hidx _ _ hE)⟩

/-- THE ASSEMBLY: the handles of the containers of `E` being current afterwards, every current
    handle of a live container stays current. -/
theorem handleOk (K : HKeep E w w') (hE : ∀ x, E x → (w.cont? x).isSome → HandleOk w' x)
    {z : SlabID} (h : HandleOk w z) (hz : (w.cont? z).isSome) : HandleOk w' z := by
  classical
  induction h with
  | root x hr =>
    by_cases hx : E x
    · exact hE x hx hz
    · exact HandleOk.root x (fun p hp => hr p (K.holds p x hx hp))
  | child x hi hhi hc _ ih =>
    by_cases hx : E x
    · exact hE x hx hz
    · obtain ⟨hi', h1, h2, h3⟩ := K.cur x hi hx hhi hc
      have hpl : (w.cont? hi.parent).isSome := by
        rw [closureCurrent_iff] at hc
        obtain ⟨j, pc0, hpc0, _⟩ := hc
        rw [hpc0]; rfl
      exact HandleOk.child x hi' h1 h3 (by rw [h2]; exact ih hpl)

end HKeep

theorem Cont.pay_kslot {T : Nat} {c : Cont} {j : Nat} {py : Pay} (h : c.pays[j]? = some py) :
    ∃ t, (c.kslots T)[j]? = some t ∧ t.2.2.pay = py := by
  obtain ⟨le, hle, hpay⟩ := Cont.pay_slot (T := T) h
  obtain ⟨ko, hk⟩ := Cont.slot_kslot hle
  exact ⟨(ko, le), hk, hpay⟩

/-- THE STEP of a public mutation, for the handles: the content of `p` changes, positions of the
    new content being related to the old ones by `φ` (new ↦ old; `none` = a new slot), the index
    table of `p` following by `ψ`.  New slots refer only to containers of `E`; every old slot that
    refers to a container outside `E` is retained. -/
theorem hkeep_mutate {w w2 : World} {p : SlabID} {pc pc' : Cont} (E : SlabID → Prop)
    (hp : w.cont? p = some pc) (harr : pc'.isArr = pc.isArr)
    (φ : Nat → Option Nat) (ψ : Nat → Nat)
    (hφ : ∀ i i0, φ i = some i0 → (pc'.kslots w.T)[i]? = (pc.kslots w.T)[i0]?)
    (hφn : ∀ i t, φ i = none → (pc'.kslots w.T)[i]? = some t → ∀ x, t.2.2.pay = .ref x → E x)
    (hψ : ∀ i0 t x, (pc.kslots w.T)[i0]? = some t → t.2.2.pay = .ref x → ¬ E x → φ (ψ i0) = some i0)
    (hh : w2.hinfo = w.hinfo)
    (hidx : ∀ q x, AList.find? (w2.idxOf q) x =
      if p = q then (AList.find? (w.idxOf p) x).map ψ else AList.find? (w.idxOf q) x)
    (hcp : w2.cont? p = some pc') (hco : ∀ z, z ≠ p → w2.cont? z = w.cont? z) : HKeep E w w2 := by
  constructor
  · intro q x hE ⟨qc, hqc, hm⟩
    by_cases hqp : q = p
    · subst hqp
      rw [hcp] at hqc; cases hqc
      obtain ⟨j, hj⟩ := List.mem_iff_getElem?.mp hm
      obtain ⟨t, ht, htp⟩ := Cont.pay_kslot (T := w.T) hj
      cases hφj : φ j with
      | none => exact absurd (hφn j t hφj ht x htp) hE
      | some i0 =>
        rw [hφ j i0 hφj] at ht
        have := Cont.kslot_pay ht
        rw [htp] at this
        exact ⟨pc, hp, List.mem_of_getElem? this⟩
    · rw [hco q hqp] at hqc
      exact ⟨qc, hqc, hm⟩
  · intro x hi hE hhi hc
    refine ⟨hi, by rw [hh]; exact hhi, rfl, ?_⟩
    rw [closureCurrent_iff] at hc ⊢
    obtain ⟨j, pc0, hpc0, hpay, harr0, hmap0⟩ := hc
    by_cases hpp : hi.parent = p
    · rw [hpp, hp] at hpc0; cases hpc0
      obtain ⟨t, ht, htp⟩ := Cont.pay_kslot (T := w.T) hpay
      have hφψ := hψ j t x ht htp hE
      have ht' : (pc'.kslots w.T)[ψ j]? = some t := by rw [hφ _ _ hφψ]; exact ht
      refine ⟨ψ j, pc', by rw [hpp]; exact hcp, by rw [Cont.kslot_pay ht', htp], ?_, ?_⟩
      · intro ha
        rw [hpp, hidx, if_pos rfl, ← hpp, harr0 (by rw [← harr]; exact ha)]; rfl
      · intro ha
        obtain ⟨k, hk, py, hs⟩ := hmap0 (by rw [← harr]; exact ha)
        have h1 := Cont.kslot_sig ht
        rw [hs] at h1
        simp only [Option.some.injEq, Prod.mk.injEq] at h1
        exact ⟨k, hk, t.2.2.pay, by rw [Cont.kslot_sig ht', ← h1.1]⟩
    · refine ⟨j, pc0, by rw [hco _ hpp]; exact hpc0, hpay, ?_, hmap0⟩
      intro ha
      rw [hidx, if_neg (Ne.symm hpp)]; exact harr0 ha

/-- one slot inserted at position `i` (hypotheses as `step_insert`) -/
theorem hkeep_insert {w w2 : World} {p : SlabID} {pc pc' : Cont} (E : SlabID → Prop)
    (hp : w.cont? p = some pc) (harr : pc'.isArr = pc.isArr)
    {i : Nat} {tn : Option MKey × Nat × Elem}
    (hks : pc'.kslots w.T = (pc.kslots w.T).insertIdx i tn) (hi : i ≤ (pc.kslots w.T).length)
    (hnew : ∀ x, tn.2.2.pay = .ref x → E x)
    (hh : w2.hinfo = w.hinfo)
    (hidx : ∀ q x, AList.find? (w2.idxOf q) x =
      if p = q then (AList.find? (w.idxOf p) x).map (fun j => if j ≥ i then j + 1 else j)
      else AList.find? (w.idxOf q) x)
    (hcp : w2.cont? p = some pc') (hco : ∀ z, z ≠ p → w2.cont? z = w.cont? z) : HKeep E w w2 := by
  refine hkeep_mutate E hp harr
    (fun j => if j < i then some j else if j = i then none else some (j - 1))
    (fun j => if j ≥ i then j + 1 else j) ?_ ?_ ?_ hh hidx hcp hco
  · intro j j0 hj
    rw [hks]
    split at hj
    · cases hj
      rename_i hlt
      exact List.getElem?_insertIdx_of_lt hlt
    · split at hj
      · cases hj
      · cases hj
        rw [List.getElem?_insertIdx_of_gt (by omega)]
  · intro j t hj ht x hx
    rw [hks] at ht
    split at hj
    · cases hj
    · split at hj
      · rename_i hji; subst hji
        rw [List.getElem?_insertIdx_self, if_pos hi] at ht
        cases ht
        exact hnew x hx
      · cases hj
  · intro i0 t x _ _ _
    by_cases h0 : i0 ≥ i
    · simp only [if_pos h0]
      rw [if_neg (by omega), if_neg (by omega)]; simp
    · simp only [if_neg h0]
      rw [if_pos (by omega)]

/-- the slot at position `i` overwritten (hypotheses as `step_set`) -/
theorem hkeep_set {w w2 : World} {p : SlabID} {pc pc' : Cont} (E : SlabID → Prop)
    (hp : w.cont? p = some pc) (harr : pc'.isArr = pc.isArr)
    {i : Nat} {tn told : Option MKey × Nat × Elem}
    (hks : pc'.kslots w.T = (pc.kslots w.T).set i tn) (hi : (pc.kslots w.T)[i]? = some told)
    (hold : ∀ x, told.2.2.pay = .ref x → E x) (hnew : ∀ x, tn.2.2.pay = .ref x → E x)
    (hh : w2.hinfo = w.hinfo)
    (hidx : ∀ q x, AList.find? (w2.idxOf q) x = AList.find? (w.idxOf q) x)
    (hcp : w2.cont? p = some pc') (hco : ∀ z, z ≠ p → w2.cont? z = w.cont? z) : HKeep E w w2 := by
  have hilt : i < (pc.kslots w.T).length := (List.getElem?_eq_some_iff.mp hi).1
  refine hkeep_mutate E hp harr (fun j => if j = i then none else some j) (fun j => j) ?_ ?_ ?_ hh ?_ hcp hco
  · intro j j0 hj
    rw [hks]
    split at hj
    · cases hj
    · cases hj
      rename_i hne
      exact List.getElem?_set_ne (Ne.symm hne)
  · intro j t hj ht x hx
    rw [hks] at ht
    split at hj
    · rename_i hji; subst hji
      rw [List.getElem?_set_self hilt] at ht
      cases ht
      exact hnew x hx
    · cases hj
  · intro i0 t x ht hx hE
    by_cases h0 : i0 = i
    · subst h0
      rw [hi] at ht; cases ht
      exact absurd (hold x hx) hE
    · simp only [if_neg h0]
  · intro q x
    rw [hidx]
    split
    · rename_i hpq; subst hpq
      cases AList.find? (w.idxOf p) x <;> rfl
    · rfl

/-- the slot at position `i` removed (hypotheses as `step_remove`) -/
theorem hkeep_remove {w w2 : World} {p : SlabID} {pc pc' : Cont} (E : SlabID → Prop)
    (hp : w.cont? p = some pc) (harr : pc'.isArr = pc.isArr)
    {i : Nat} {told : Option MKey × Nat × Elem}
    (hks : pc'.kslots w.T = (pc.kslots w.T).eraseIdx i) (hi : (pc.kslots w.T)[i]? = some told)
    (hold : ∀ x, told.2.2.pay = .ref x → E x)
    (hh : w2.hinfo = w.hinfo)
    (hidx : ∀ q x, AList.find? (w2.idxOf q) x =
      if p = q then (AList.find? (w.idxOf p) x).map (fun j => if j > i then j - 1 else j)
      else AList.find? (w.idxOf q) x)
    (hcp : w2.cont? p = some pc') (hco : ∀ z, z ≠ p → w2.cont? z = w.cont? z) : HKeep E w w2 := by
  refine hkeep_mutate E hp harr (fun j => if j < i then some j else some (j + 1))
    (fun j => if j > i then j - 1 else j) ?_ ?_ ?_ hh hidx hcp hco
  · intro j j0 hj
    rw [hks]
    split at hj
    · cases hj
      rename_i hlt
      exact List.getElem?_eraseIdx_of_lt hlt
    · cases hj
      exact List.getElem?_eraseIdx_of_ge (by omega)
  · intro j t hj
    split at hj <;> cases hj
  · intro i0 t x ht hx hE
    by_cases h0 : i0 = i
    · subst h0
      rw [hi] at ht; cases ht
      exact absurd (hold x hx) hE
    · by_cases h1 : i0 > i
      · simp only [if_pos h1]
        rw [if_neg (by omega)]; congr 1; omega
      · simp only [if_neg h1]
        rw [if_pos (by omega)]

/-- every container other than `p` is live afterwards exactly when it was -/
theorem SigFrame.isSome {w w' : World} {p : SlabID} (h : SigFrame w w' p) {z : SlabID} (hz : z ≠ p) :
    (w'.cont? z).isSome = (w.cont? z).isSome := by
  have := h z hz
  cases h1 : w.cont? z <;> cases h2 : w'.cont? z <;> simp_all

/-! ### the moved containers -/

theorem moved_child (x : SlabID) (wr : Nat) (old : Option Elem) : Moved (some (WVal.child x wr)) old x :=
  Or.inl ⟨wr, rfl⟩

theorem moved_old {o : Elem} {z : SlabID} (v : Option WVal) (h : o.pay = .ref z) : Moved v (some o) z :=
  Or.inr ⟨o, rfl, h⟩

/-- a moved container is the stored child or the container the old element referred to -/
theorem Moved.cases {v : Option WVal} {old : Option Elem} {z : SlabID} (h : Moved v old z) :
    (∃ wr, v = some (.child z wr)) ∨ (∃ o, old = some o ∧ o.pay = .ref z) := h

theorem not_moved_plain {e : Elem} {z : SlabID} : ¬ Moved (some (WVal.plain e)) none z := by
  rintro (⟨wr, h⟩ | ⟨o, h, _⟩) <;> cases h

/-- the entry of the index table that the caller-side clean-up drops belongs to a moved container -/
theorem HKeep.of_erase {E : SlabID → Prop} {w w' : World} (hT : w'.T = w.T) (hc : ∀ z, w'.cont? z = w.cont? z)
    (hh : w'.hinfo = w.hinfo) (hidx : ∀ q z, ¬ E z → AList.find? (w'.idxOf q) z = AList.find? (w.idxOf q) z) :
    HKeep E w w' := HKeep.of_idx hT hc hh hidx

theorem hinfo_setCallbackMap_ne (w : World) (p : SlabID) (k : MKey) (v : WVal) (z : SlabID)
    (h : ∀ wr, v ≠ .child z wr) :
    AList.find? (w.setCallbackMap p k v).hinfo z = AList.find? w.hinfo z := by
  cases v with
  | plain e => rfl
  | child x wr => rw [hinfo_setCallbackMap, if_neg (fun hx => h wr (by rw [hx]))]

/-! ### the rank-relative frame of an operation (internal form of `AncFrame`) -/

/-- frame of an operation through the handle of `p`, relative to a rank function of the world
    before: the containers that are not below `p` in rank, other than `p` and the moved ones, are
    untouched; no other index table changes; the handles are kept. -/
def OpFrame (rank0 : SlabID → Nat) (w w' : World) (p : SlabID) (E : SlabID → Prop) : Prop :=
  (∀ z, z ≠ p → rank0 p ≤ rank0 z → ¬ E z →
    w'.cont? z = w.cont? z ∧ AList.find? w'.hinfo z = AList.find? w.hinfo z) ∧
  (∀ q x, q ≠ p → AList.find? (w'.idxOf q) x = AList.find? (w.idxOf q) x) ∧
  HandlesKept w w'

/-- a rank function that puts everything that is not `p` or above `p` at or over `p` -/
theorem rank_raise {rank : SlabID → Nat} {w : World} (hr : CRank rank w) (p : SlabID) :
    ∃ rank', CRank rank' w ∧ ∀ z, ¬ Anc w z p → rank' p ≤ rank' z := by
  classical
  refine ⟨fun u => rank u + (if Anc w u p then 0 else rank p + 1), ?_, ?_⟩
  · intro q x hqx hx
    have := hr q x hqx hx
    by_cases hax : Anc w x p
    · have haq : Anc w q p := Anc.prepend hqx hax
      simp only [if_pos hax, if_pos haq]; omega
    · simp only [if_neg hax]
      split <;> omega
  · intro z hz
    simp only [if_pos (Anc.refl : Anc w p p), if_neg hz]
    omega

/-- from the rank-relative frames (one per rank function) to the strong frame -/
theorem ancFrame_of_opFrame {rank : SlabID → Nat} {w w' : World} {p : SlabID} {E : SlabID → Prop}
    (hr : CRank rank w) (h : ∀ rank0, CRank rank0 w → OpFrame rank0 w w' p E) : AncFrame w w' p E := by
  refine ⟨fun z hz hE => ?_, (h rank hr).2.1⟩
  obtain ⟨rank', hr', hle⟩ := rank_raise hr p
  exact ((h rank' hr').1 z (fun he => hz (he ▸ Anc.refl)) (hle z hz) hE).1

/-- … and the closure of such a container is untouched as well (this part does not survive the
    transport along `World.Sim`, so it is stated for `WorldOk` only) -/
theorem hinfoFrame_of_opFrame {rank : SlabID → Nat} {w w' : World} {p : SlabID} {E : SlabID → Prop}
    (hr : CRank rank w) (h : ∀ rank0, CRank rank0 w → OpFrame rank0 w w' p E) :
    ∀ z, ¬ Anc w z p → ¬ E z → AList.find? w'.hinfo z = AList.find? w.hinfo z := by
  intro z hz hE
  obtain ⟨rank', hr', hle⟩ := rank_raise hr p
  exact ((h rank' hr').1 z (fun he => hz (he ▸ Anc.refl)) (hle z hz) hE).2

end World
end Atree
