import AtreeProofs.World.Sig
/-
  Keyed slots (`Cont.kslots`): per element the key (maps), the per-element limit and the element.
  `slots` and `sig` are projections of it.  `ClosurePos`: the closure of `x` points at position `j`
  of its parent — a fact about signatures, closures and index tables only; `ClosureAt` is
  `ClosurePos` plus the content of that slot.
-/
namespace Atree
open Gen

namespace Cont

/-- per element: the key (maps), the per-element limit of the slot, the element -/
def kslots (T : Nat) : Cont → List (Option MKey × Nat × Elem)
  | .arr a => a.toList.map (fun e => (none, maxInlineArr T, e))
  | .map m => m.toList.map (fun p => (some p.1, maxInlineMapValue T p.1.size, p.2))

def isArr : Cont → Bool
  | .arr _ => true
  | .map _ => false

theorem slots_eq_kslots (T : Nat) (c : Cont) : c.slots T = (c.kslots T).map (·.2) := by
  cases c <;> simp [slots, kslots, List.map_map, Function.comp_def]

theorem sig_eq_kslots (T : Nat) (c : Cont) :
    c.sig = (c.isArr, (c.kslots T).map (fun t => (t.1, t.2.2.pay))) := by
  cases c <;> simp [sig, kslots, isArr, List.map_map, Function.comp_def]

theorem pays_eq_kslots (T : Nat) (c : Cont) : c.pays = (c.kslots T).map (fun t => t.2.2.pay) := by
  rw [pays_eq_slots T, slots_eq_kslots, List.map_map]; rfl

theorem kslots_arr (T : Nat) (a : Arr) (j : Nat) (t : Option MKey × Nat × Elem) :
    ((Cont.arr a).kslots T)[j]? = some t ↔ ∃ e, a.toList[j]? = some e ∧ t = (none, maxInlineArr T, e) := by
  simp only [kslots, List.getElem?_map]
  cases a.toList[j]? with
  | none => simp
  | some e => simp [eq_comm]

theorem kslots_map (T : Nat) (m : OMap 3) (j : Nat) (t : Option MKey × Nat × Elem) :
    ((Cont.map m).kslots T)[j]? = some t ↔
      ∃ k v, m.toList[j]? = some (k, v) ∧ t = (some k, maxInlineMapValue T k.size, v) := by
  simp only [kslots, List.getElem?_map]
  cases m.toList[j]? with
  | none => simp
  | some p =>
    obtain ⟨k, v⟩ := p
    simp only [Option.map_some, Option.some.injEq, Prod.mk.injEq]
    constructor
    · intro h; exact ⟨k, v, ⟨rfl, rfl⟩, h.symm⟩
    · rintro ⟨k', v', ⟨rfl, rfl⟩, h⟩; exact h.symm

theorem kslot_slot {T : Nat} {c : Cont} {j : Nat} {t : Option MKey × Nat × Elem}
    (h : (c.kslots T)[j]? = some t) : (c.slots T)[j]? = some t.2 := by
  rw [slots_eq_kslots, List.getElem?_map, h]; rfl

theorem slot_kslot {T : Nat} {c : Cont} {j : Nat} {le : Nat × Elem} (h : (c.slots T)[j]? = some le) :
    ∃ ko, (c.kslots T)[j]? = some (ko, le) := by
  rw [slots_eq_kslots, List.getElem?_map] at h
  cases hk : (c.kslots T)[j]? with
  | none => rw [hk] at h; cases h
  | some t =>
    rw [hk] at h
    simp only [Option.map_some, Option.some.injEq] at h
    exact ⟨t.1, by rw [← h]⟩

theorem kslot_pay {T : Nat} {c : Cont} {j : Nat} {t : Option MKey × Nat × Elem}
    (h : (c.kslots T)[j]? = some t) : c.pays[j]? = some t.2.2.pay := by
  rw [pays_eq_kslots T, List.getElem?_map, h]; rfl

theorem kslot_sig {T : Nat} {c : Cont} {j : Nat} {t : Option MKey × Nat × Elem}
    (h : (c.kslots T)[j]? = some t) : c.sig.2[j]? = some (t.1, t.2.2.pay) := by
  rw [sig_eq_kslots T]
  simp only [List.getElem?_map, h]; rfl

/-- an array slot has no key -/
theorem kslot_arr_key {T : Nat} {c : Cont} {j : Nat} {t : Option MKey × Nat × Elem}
    (h : (c.kslots T)[j]? = some t) (ha : c.isArr = true) : t.1 = none ∧ t.2.1 = maxInlineArr T := by
  cases c with
  | arr a =>
    obtain ⟨e, _, rfl⟩ := (kslots_arr T a j t).mp h
    exact ⟨rfl, rfl⟩
  | map m => cases ha

theorem kslot_map_key {T : Nat} {c : Cont} {j : Nat} {t : Option MKey × Nat × Elem}
    (h : (c.kslots T)[j]? = some t) (ha : c.isArr = false) :
    ∃ k, t.1 = some k ∧ t.2.1 = maxInlineMapValue T k.size := by
  cases c with
  | arr a => cases ha
  | map m =>
    obtain ⟨k, v, _, rfl⟩ := (kslots_map T m j t).mp h
    exact ⟨k, rfl, rfl⟩

theorem isArr_of_sig {c c' : Cont} (h : c'.sig = c.sig) : c'.isArr = c.isArr := by
  cases c <;> cases c' <;> simp_all [sig, isArr]

/-- the keys of a valid map are pairwise different: the position of a key is unique -/
theorem kslot_key_unique {T : Nat} {D : DigestFn 4} {ctr : Nat} {m : OMap 3} (h : MapOk T D m ctr)
    {i j : Nat} {k : MKey} {t t' : Option MKey × Nat × Elem}
    (hi : ((Cont.map m).kslots T)[i]? = some t) (hj : ((Cont.map m).kslots T)[j]? = some t')
    (hti : t.1 = some k) (htj : t'.1 = some k) : i = j := by
  obtain ⟨k1, v1, g1, rfl⟩ := (kslots_map T m i t).mp hi
  obtain ⟨k2, v2, g2, rfl⟩ := (kslots_map T m j t').mp hj
  simp only [Option.some.injEq] at hti htj
  subst hti; subst htj
  have hd := h.distinct
  unfold KeysDistinct at hd
  rcases Nat.lt_trichotomy i j with hlt | heq | hgt
  · have := List.pairwise_iff_getElem.mp hd i j (List.getElem?_eq_some_iff.mp g1).1
      (List.getElem?_eq_some_iff.mp g2).1 hlt
    rw [(List.getElem?_eq_some_iff.mp g1).2, (List.getElem?_eq_some_iff.mp g2).2] at this
    simp [MKey.same_self] at this
  · exact heq
  · have := List.pairwise_iff_getElem.mp hd j i (List.getElem?_eq_some_iff.mp g2).1
      (List.getElem?_eq_some_iff.mp g1).1 hgt
    rw [(List.getElem?_eq_some_iff.mp g1).2, (List.getElem?_eq_some_iff.mp g2).2] at this
    simp [MKey.same_self] at this

end Cont

namespace World

/-- the closure `hi` of `x` points at position `j` of the container `hi.parent` -/
def ClosurePos (w : World) (x : SlabID) (hi : HInfo) (j : Nat) : Prop :=
  ∃ pc, w.cont? hi.parent = some pc ∧ pc.pays[j]? = some (Pay.ref x) ∧
    (pc.isArr = true → AList.find? (w.idxOf hi.parent) x = some j) ∧
    (pc.isArr = false → ∃ k, hi.key = some k ∧ ∃ py, pc.sig.2[j]? = some (some k, py))

theorem closureAt_iff (w : World) (x : SlabID) (hi : HInfo) (lim : Nat) (e : Elem) :
    ClosureAt w x hi lim e ↔
      ∃ j pc ko, ClosurePos w x hi j ∧ w.cont? hi.parent = some pc ∧ (pc.kslots w.T)[j]? = some (ko, lim, e) := by
  constructor
  · rintro (⟨pa, i, hpa, hidx, hge, hpay, hlim⟩ | ⟨pm, k, hpm, hk, hmem, hpay, hlim⟩)
    · have hks : ((Cont.arr pa).kslots w.T)[i]? = some (none, lim, e) := by
        rw [Cont.kslots_arr]; exact ⟨e, hge, by rw [hlim]⟩
      refine ⟨i, .arr pa, none, ⟨.arr pa, hpa, ?_, fun _ => hidx, fun h => by cases h⟩, hpa, hks⟩
      rw [Cont.kslot_pay hks, hpay]
    · obtain ⟨j, hj⟩ := List.mem_iff_getElem?.mp hmem
      have hks : ((Cont.map pm).kslots w.T)[j]? = some (some k, lim, e) := by
        rw [Cont.kslots_map]; exact ⟨k, e, hj, by rw [hlim]⟩
      refine ⟨j, .map pm, some k, ⟨.map pm, hpm, ?_, fun h => (by cases h), fun _ => ⟨k, hk, _, Cont.kslot_sig hks⟩⟩, hpm, hks⟩
      rw [Cont.kslot_pay hks, hpay]
  · rintro ⟨j, pc, ko, ⟨pc0, hpc0, hpay, harr, hmap⟩, hpc, hks⟩
    rw [hpc] at hpc0; cases hpc0
    have hp2 := Cont.kslot_pay hks
    rw [hpay] at hp2
    simp only [Option.some.injEq] at hp2
    cases pc with
    | arr pa =>
      obtain ⟨e', he', heq⟩ := (Cont.kslots_arr w.T pa j _).mp hks
      cases heq
      exact Or.inl ⟨pa, j, hpc, harr rfl, he', hp2.symm, rfl⟩
    | map pm =>
      obtain ⟨k', v', hkv, heq⟩ := (Cont.kslots_map w.T pm j _).mp hks
      cases heq
      obtain ⟨k, hk, py, hs⟩ := hmap rfl
      have := Cont.kslot_sig hks
      rw [hs] at this
      simp only [Option.some.injEq, Prod.mk.injEq] at this
      obtain ⟨h1, _⟩ := this
      subst h1
      exact Or.inr ⟨pm, _, hpc, hk, List.mem_of_getElem? hkv, hp2.symm, rfl⟩

/-- `ClosurePos` only depends on signatures, on the closure and on the index lookup -/
theorem ClosurePos.transfer {w w' : World} (h : ContsSig w w') {x : SlabID} {hi : HInfo} {j : Nat}
    (hidx : AList.find? (w'.idxOf hi.parent) x = AList.find? (w.idxOf hi.parent) x)
    (hc : ClosurePos w x hi j) : ClosurePos w' x hi j := by
  obtain ⟨pc, hpc, hpay, harr, hmap⟩ := hc
  obtain ⟨pc', hpc', hs⟩ := h.get hpc
  refine ⟨pc', hpc', by rw [Cont.sig_pays hs]; exact hpay, ?_, ?_⟩
  · intro ha
    rw [hidx]; exact harr (by rw [← Cont.isArr_of_sig hs]; exact ha)
  · intro ha
    rw [hs]; exact hmap (by rw [← Cont.isArr_of_sig hs]; exact ha)

end World
end Atree
