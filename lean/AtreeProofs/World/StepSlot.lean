import AtreeProofs.World.StepBasics
/-
  THE STEP of a notification: the child `y` (whose parent slot was out of date) takes its new form
  `c'` and the slot `j` of its parent `p` is rewritten with the matching element.  Afterwards the
  invariant holds with `p` as the container whose parent slot is out of date.
  Stated for an arbitrary world `w'` described pointwise (so that it applies whether or not
  `childStorable` touched the container table).
-/
namespace Atree
open Gen

namespace World

variable {D : SlabID → DigestFn 4} {rank : SlabID → Nat} {O : SlabID → Prop}

theorem WorldOkGen.holder_rank {w : World} {ctr : Nat} {stale : Option SlabID}
    (H : WorldOkGen D rank stale O w ctr) {p x : SlabID} (hh : Holds w p x) (hx : (w.cont? x).isSome) :
    rank p < rank x := H.rank p x hh hx

theorem step_slot {w w' : World} {ctr ctr' : Nat} {y p : SlabID} {c c' pc pc' : Cont}
    {j lim wrap : Nat} {ko : Option MKey} {el : Elem}
    (H : WorldOkGen D rank (some y) O w ctr)
    (hy : w.cont? y = some c) (hp : w.cont? p = some pc)
    (hj : (pc.kslots w.T)[j]? = some (ko, lim, el)) (hel : el.pay = .ref y)
    (hsd : Cont.SameData c c') (hokc : ContOk w.T (D y) ctr' c')
    (hwb : slabIDStorableSize + 2 * wrap ≤ lim)
    (hinl : c'.isInlined = c'.inlinable (lim - 2 * wrap))
    (hbc : c'.isInlined = true → c'.rootSize ≤ w.T)
    (hfaith : ∀ hi, ¬ O y → AList.find? w.hinfo y = some hi → ClosureAt w y hi lim el → hi.wrap = wrap)
    (hks : pc'.kslots w.T = (pc.kslots w.T).set j (ko, lim, ⟨slotSize c' wrap, .ref y⟩))
    (harr : pc'.isArr = pc.isArr) (hokp : ContOk w.T (D p) ctr' pc') (hinlp : pc'.isInlined = pc.isInlined)
    (hvid : pc'.vid = pc.vid) (hbp : pc'.isInlined = true → pc'.rootSize ≤ w.T)
    (hctr : ctr ≤ ctr')
    (hT : w'.T = w.T) (ha : w'.addr = w.addr) (hh : w'.hinfo = w.hinfo) (hm : w'.mutIdx = w.mutIdx)
    (hcy : w'.cont? y = some c') (hcp : w'.cont? p = some pc')
    (hco : ∀ z, z ≠ y → z ≠ p → w'.cont? z = w.cont? z) :
    WorldOkGen D rank (some p) O w' ctr' := by
  have hysome : (w.cont? y).isSome := by rw [hy]; rfl
  have hpy_holds : Holds w p y := holds_of_kslot hp hj hel
  have hrk : rank p < rank y := H.rank p y hpy_holds hysome
  have hpy : p ≠ y := by intro h; rw [h] at hrk; omega
  -- signatures
  have hsigp : pc'.sig = pc.sig := by
    rw [Cont.sig_eq_kslots w.T pc', Cont.sig_eq_kslots w.T pc, hks, harr, List.map_set]
    congr 1
    apply list_set_self
    rw [List.getElem?_map, hj]
    simp [hel]
  have hsigy : c'.sig = c.sig := hsd.sig_eq
  have hS : ContsSig w w' := by
    refine ⟨hT, fun q => ?_⟩
    by_cases hqp : q = p
    · subst hqp; rw [hcp, hp]; simp [hsigp]
    · by_cases hqy : q = y
      · subst hqy; rw [hcy, hy]; simp [hsigy]
      · rw [hco q hqy hqp]
  have hidx : ∀ q, w'.idxOf q = w.idxOf q := fun q => by simp [World.idxOf, hm]
  -- the new slot
  have hjlt : j < (pc.kslots w.T).length := (List.getElem?_eq_some_iff.mp hj).1
  have hj' : (pc'.kslots w.T)[j]? = some (ko, lim, ⟨slotSize c' wrap, .ref y⟩) := by
    rw [hks, List.getElem?_set_self hjlt]
  have hjne : ∀ i, i ≠ j → (pc'.kslots w.T)[i]? = (pc.kslots w.T)[i]? := by
    intro i hi
    rw [hks, List.getElem?_set_ne (Ne.symm hi)]
  -- `ClosureAt` for a container other than `y` did not change
  have hCAback : ∀ x hi lim0 e0, x ≠ y → ClosureAt w' x hi lim0 e0 → ClosureAt w x hi lim0 e0 := by
    intro x hi lim0 e0 hxy hca
    rw [closureAt_iff] at hca ⊢
    obtain ⟨j2, pc2, ko2, hpos, hpc2, hk2⟩ := hca
    have hpos' : ClosurePos w x hi j2 := hpos.transfer hS.symm (by rw [hidx])
    rw [hT] at hk2
    by_cases hpp : hi.parent = p
    · rw [hpp, hcp] at hpc2; cases hpc2
      have hj2 : j2 ≠ j := by
        intro he; subst he
        rw [hj'] at hk2
        simp only [Option.some.injEq, Prod.mk.injEq] at hk2
        obtain ⟨pcx, hpcx, hpay, _⟩ := hpos
        rw [hpp, hcp] at hpcx; cases hpcx
        have := Cont.kslot_pay hj'
        rw [hpay] at this
        simp only [Option.some.injEq, Pay.ref.injEq] at this
        exact hxy this
      exact ⟨j2, pc, ko2, hpos', by rw [hpp]; exact hp, by rw [← hjne j2 hj2]; exact hk2⟩
    · by_cases hpy' : hi.parent = y
      · rw [hpy', hcy] at hpc2; cases hpc2
        have hkc : c'.kslots w.T = c.kslots w.T := by
          cases c <;> cases c' <;> simp only [Cont.SameData] at hsd
          · simp [Cont.kslots, hsd.1]
          · simp [Cont.kslots, hsd.1]
        exact ⟨j2, c, ko2, hpos', by rw [hpy']; exact hy, by rw [← hkc]; exact hk2⟩
      · exact ⟨j2, pc2, ko2, hpos', by rw [← hco _ hpy' hpp]; exact hpc2, hk2⟩
  -- a slot referring to a container other than `y`, `p` keeps its clauses
  have hother : ∀ q qc le x cx, w.cont? q = some qc → le ∈ qc.slots w.T → le.2.pay = .ref x →
      w.cont? x = some cx → x ≠ y → x ≠ p →
      ∃ wrap, slabIDStorableSize + 2 * wrap ≤ le.1 ∧
        (some x ≠ some p → le.2.size = slotSize cx wrap ∧ cx.isInlined = cx.inlinable (le.1 - 2 * wrap)) ∧
        (some x = some p → cx.isInlined = false → le.2.size = slotSize cx wrap) ∧
        (∀ hi, ¬ O x → AList.find? w'.hinfo x = some hi → ClosureAt w' x hi le.1 le.2 → hi.wrap = wrap) := by
    intro q qc le x cx hq hle hx hcx hxy hxp
    obtain ⟨wr, h1, h2, _, h4⟩ := H.slots q qc hq le hle x cx hx hcx
    refine ⟨wr, h1, fun _ => h2 (by intro he; cases he; exact hxy rfl), fun he => ?_, ?_⟩
    · cases he; exact absurd rfl hxp
    · intro hi hO hhi hca
      rw [hh] at hhi
      exact h4 hi hO hhi (hCAback x hi _ _ hxy hca)
  -- slots of `p` other than `j` refer to containers other than `y` and `p`
  have hpslot : ∀ i t, (pc.kslots w.T)[i]? = some t → i ≠ j → ∀ x, t.2.2.pay = .ref x → (w.cont? x).isSome →
      x ≠ y ∧ x ≠ p := by
    intro i t hi hij x hx hxs
    constructor
    · intro he; subst he
      exact hij (H.unique.slot hp hp hi hj hx hel hxs).2
    · intro he; subst he
      have := H.rank x x (holds_of_kslot hp hi hx) hxs
      omega
  refine ⟨by rw [hT]; exact H.legal, ?_, ?_, ?_, ?_, ?_, hS.uniqueRef H.unique, ?_,
    hS.mutIdxOkX H.mutIdx (fun q x => by rw [hidx]), hS.closureOk H.closure (fun x hi hx => by rw [← hh]; exact hx),
    hS.cRank H.rank, hS.refsBelow H.below hctr,
    hS.idxLive H.idxLive (fun q x i hi => by rw [hidx] at hi; exact hi),
    hS.hinfoLive H.hinfoLive (fun x hi hx => by rw [← hh]; exact hx)⟩
  · -- ids
    intro z cz hz
    by_cases hzy : z = y
    · subst hzy; rw [hcy] at hz; cases hz; rw [hsd.vid]; exact H.ids _ _ hy
    · by_cases hzp : z = p
      · subst hzp; rw [hcp] at hz; cases hz; rw [hvid]; exact H.ids _ _ hp
      · rw [hco z hzy hzp] at hz; exact H.ids z cz hz
  · -- addr
    intro z cz hz
    rw [ha]
    by_cases hzy : z = y
    · subst hzy; exact H.addr _ _ hy
    · by_cases hzp : z = p
      · subst hzp; exact H.addr _ _ hp
      · rw [hco z hzy hzp] at hz; exact H.addr z cz hz
  · -- conts
    intro z cz hz
    rw [hT]
    by_cases hzy : z = y
    · subst hzy; rw [hcy] at hz; cases hz; exact hokc
    · by_cases hzp : z = p
      · subst hzp; rw [hcp] at hz; cases hz; exact hokp
      · rw [hco z hzy hzp] at hz; exact (H.conts z cz hz).mono hctr
  · -- slots
    intro q qc hq le hle x cx hx hcx
    rw [hT] at hle
    by_cases hqp : q = p
    · have hqp' := hqp.symm
      subst hqp'
      rw [hcp] at hq; cases hq
      obtain ⟨i, hi⟩ := List.mem_iff_getElem?.mp hle
      obtain ⟨ko', hki⟩ := Cont.slot_kslot hi
      by_cases hij : i = j
      · -- the rewritten slot
        rw [hij, hj'] at hki
        simp only [Option.some.injEq, Prod.mk.injEq] at hki
        have hle' : le = (lim, ⟨slotSize c' wrap, .ref y⟩) := hki.2.symm
        rw [hle'] at hx
        have hxy : y = x := by simpa using hx
        subst hxy
        rw [hcy] at hcx; cases hcx
        rw [hle']
        refine ⟨wrap, hwb, fun _ => ⟨rfl, hinl⟩, fun he => ?_, ?_⟩
        · cases he; exact absurd rfl hpy
        · intro hi' hO hhi hca
          rw [hh] at hhi
          refine hfaith hi' hO hhi ?_
          rw [closureAt_iff] at hca ⊢
          obtain ⟨j2, pc2, ko2, hpos, hpc2, hk2⟩ := hca
          have hpos' : ClosurePos w y hi' j2 := hpos.transfer hS.symm (by rw [hidx])
          obtain ⟨pc0, hpc0, hpay0, _⟩ := hpos'
          have hu := H.unique hi'.parent p pc0 pc j2 j y hpc0 hp hpay0
            (by rw [Cont.kslot_pay hj, hel]) hysome
          obtain ⟨hu1, hu2⟩ := hu
          subst hu2
          exact ⟨j2, pc, ko, hpos.transfer hS.symm (by rw [hidx]), by rw [hu1]; exact hp, hj⟩
      · -- another slot of `p`
        rw [hjne i hij] at hki
        have hxs : (w'.cont? x).isSome := by rw [hcx]; rfl
        rw [hS.isSome] at hxs
        obtain ⟨hxy, hxp⟩ := hpslot i _ hki hij x hx hxs
        rw [hco x hxy hxp] at hcx
        exact hother p pc le x cx hp (List.mem_of_getElem? (Cont.kslot_slot hki)) hx hcx hxy hxp
    · by_cases hqy : q = y
      · have hqy' := hqy.symm
        subst hqy'
        rw [hcy] at hq; cases hq
        rw [hsd.slots_eq] at hle
        have hxs : (w'.cont? x).isSome := by rw [hcx]; rfl
        rw [hS.isSome] at hxs
        have hqx : Holds w y x := holds_of_slot hy hle hx
        have hr1 := H.rank y x hqx hxs
        have hxy : x ≠ y := by intro he; rw [he] at hr1; omega
        have hxp : x ≠ p := by intro he; rw [he] at hr1; omega
        rw [hco x hxy hxp] at hcx
        exact hother y c le x cx hy hle hx hcx hxy hxp
      · rw [hco q hqy hqp] at hq
        have hxs : (w'.cont? x).isSome := by rw [hcx]; rfl
        rw [hS.isSome] at hxs
        have hqx : Holds w q x := holds_of_slot hq hle hx
        have hxy : x ≠ y := by
          intro he; subst he
          obtain ⟨i, hi⟩ := List.mem_iff_getElem?.mp hle
          obtain ⟨ko', hki⟩ := Cont.slot_kslot hi
          exact hqp (H.unique.slot hq hp hki hj hx hel hxs).1
        by_cases hxp : x = p
        · have hxp' := hxp.symm
          subst hxp'
          rw [hcp] at hcx; cases hcx
          obtain ⟨wr, h1, h2, _, h4⟩ := H.slots q qc hq le hle p pc hx hp
          obtain ⟨h2a, h2b⟩ := h2 (by intro he; cases he; exact hxy rfl)
          refine ⟨wr, h1, fun hne => absurd rfl hne, fun _ hni => ?_, ?_⟩
          · rw [h2a, slotSize_standalone hni, slotSize_standalone (by rw [← hinlp]; exact hni)]
          · intro hi hO hhi hca
            rw [hh] at hhi
            exact h4 hi hO hhi (hCAback p hi _ _ hxy hca)
        · rw [hco x hxy hxp] at hcx
          exact hother q qc le x cx hq hle hx hcx hxy hxp
  · -- band
    intro z cz hz hi
    rw [hT]
    by_cases hzy : z = y
    · subst hzy; rw [hcy] at hz; cases hz; exact hbc hi
    · by_cases hzp : z = p
      · subst hzp; rw [hcp] at hz; cases hz; exact hbp hi
      · rw [hco z hzy hzp] at hz; exact H.band z cz hz hi
  · -- inlRef
    intro z cz hz hi hO
    by_cases hzy : z = y
    · subst hzy
      exact ⟨p, hS.holds hpy_holds⟩
    · by_cases hzp : z = p
      · subst hzp
        rw [hcp] at hz; cases hz
        obtain ⟨q, hq⟩ := H.inlRef z pc hp (by rw [← hinlp]; exact hi) hO
        exact ⟨q, hS.holds hq⟩
      · rw [hco z hzy hzp] at hz
        obtain ⟨q, hq⟩ := H.inlRef z cz hz hi hO
        exact ⟨q, hS.holds hq⟩

end World
end Atree
