import AtreeProofs.World.HeapCont
import AtreeProofs.World.HeapArrR
import AtreeProofs.World.HeapArrInl
import AtreeProofs.World.HeapMapR
import AtreeProofs.World.HeapMapInl
import AtreeProofs.World.MapRefW
import AtreeProofs.WorldOk
/-
  Heap accounts of ONE container operation, in either form (standalone / inlined): what the World
  proofs use for `Arr.insert / set / remove`, `OMap.set / remove`.  Each lemma takes a SUCCESSFUL run
  of the core operation on a valid container (`ArrOk` / `MapOk` = `ContOk`) and returns the appended
  log, its account `CAcct`, and the validity of the new container and of its slab IDs (`TreeOk`).
-/
namespace Atree
open Gen

namespace World

/-- the slab IDs of a container's tree are distinct, allocated and owned by address `a` -/
def TreeOk (a ctr : Nat) (pc : Cont) : Prop :=
  pc.treeIds.Nodup ∧ ∀ id ∈ pc.treeIds, id.idx ≤ ctr ∧ id.addr = a

theorem TreeOk.mono {a ctr ctr' : Nat} {pc : Cont} (h : TreeOk a ctr pc) (hc : ctr ≤ ctr') : TreeOk a ctr' pc :=
  ⟨h.1, fun id hid => ⟨Nat.le_trans (h.2 id hid).1 hc, (h.2 id hid).2⟩⟩

theorem HeapOk.treeOk {w : World} {ctr : Nat} (H : HeapOk w ctr) {x : SlabID} {c : Cont} (hx : w.cont? x = some c) :
    TreeOk w.addr ctr c :=
  ⟨H.nodup x c hx, fun id hid => ⟨H.below x c id hx hid, H.addr x c id hx hid⟩⟩

variable {T : Nat}

theorem treeOk_arr {a : Arr} {ctr : Nat} (h : ArrOk T a ctr) : TreeOk a.addr ctr (.arr a) := by
  rw [TreeOk, Cont.treeIds_arr]
  cases hinl : a.isInlined
  · have hi := (h.1 hinl).ids
    exact ⟨hi.1, fun id hid => ⟨(hi.2 id hid).2.2, (hi.2 id hid).1⟩⟩
  · obtain ⟨s, ty, rfl, _, _, _, _, _, _, _, h8, _⟩ := h.2 hinl
    show ([s.hdr.id] : List SlabID).Nodup ∧ ∀ id ∈ ([s.hdr.id] : List SlabID), id.idx ≤ ctr ∧ id.addr = s.hdr.id.addr
    refine ⟨by simp, ?_⟩
    intro id hid
    rw [List.mem_singleton] at hid; subst hid
    exact ⟨h8, rfl⟩

/-! ### arrays -/

theorem slabs_arrInl {a : Arr} {ctr : Nat} (h : ArrInvInl T a ctr) :
    (Cont.arr a).slabs = [] ∧ (Cont.arr a).treeIds = [a.rootID] := by
  obtain ⟨s, ty, rfl, _, h2, _⟩ := h
  constructor
  · rw [Cont.slabs_of_inlined (c := .arr ⟨0, s, ty⟩) h2]; rfl
  · rw [Cont.treeIds_arr]; rfl

theorem cacct_arrInl {a a' : Arr} {ctr ctr' : Nat} (h : ArrInvInl T a ctr) (h' : ArrInvInl T a' ctr')
    (hid : a'.rootID = a.rootID) (c : Nat) : CAcct c c (.arr a) (.arr a') [] [] := by
  obtain ⟨s1, t1⟩ := slabs_arrInl h
  obtain ⟨s2, t2⟩ := slabs_arrInl h'
  exact cacct_nil (by rw [s1, s2]) (by rw [t1, t2, hid]) c

theorem cstep_arr_set (hT : legalThreshold T = true) {a : Arr} {c : Ctx} {i : Nat} {v old : Elem} {a' : Arr} {c' : Ctx}
    (h : ArrOk T a c.ctr) (hv : ElemOk T v)
    (hroom : a.isInlined = true → a.rootHdr.size + maxInlineArr T ≤ maxThr T)
    (hr : a.set T i v c = .ok (old, a', c')) :
    ∃ E C, Log c c' E C ∧ CAcct c.ctr c'.ctr (.arr a) (.arr a') E (C.map (·.1)) ∧ ArrOk T a' c'.ctr ∧
      a'.rootID = a.rootID := by
  obtain ⟨_, _, hok', hinl', hrid, hty, hle, _⟩ := h.set_ok hT (StorOk.of_elemOk hv) hroom hr
  cases hinl : a.isInlined
  · have hinv := h.1 hinl
    obtain ⟨E, C, hlog, hacct⟩ := arr_set_acctR hT a c i v (StorOk.of_elemOk hv) hinv old a' c' hr
    refine ⟨E, C, hlog, ?_, hok', hrid⟩
    exact cacct_of_acct_arr hacct hle hinl (by rw [hinl', hinl]) hrid (fun hne => absurd hty hne)
  · have hinv := h.2 hinl
    rcases Nat.lt_or_ge i a.toList.length with hi | hi
    · obtain ⟨a2, c2, heq, hinv2, _, _, _, _, _, hc2⟩ := arrInl_setC hT hinv (StorOk.of_elemOk hv) (hroom hinl) hi
      rw [heq] at hr; cases hr
      rw [toStorable_fit T a.addr v c hv.2] at hc2
      simp only at hc2
      subst hc2
      exact ⟨[], [], Log.refl _, cacct_arrInl hinv hinv2 hrid _, hok', hrid⟩
    · exfalso
      have := (h.set_ok hT (StorOk.of_elemOk hv) hroom hr).1
      have := (List.getElem?_eq_some_iff.1 this).1
      omega

theorem cstep_arr_insert (hT : legalThreshold T = true) {a : Arr} {c : Ctx} {i : Nat} {v : Elem} {a' : Arr} {c' : Ctx}
    (h : ArrOk T a c.ctr) (hv : ElemOk T v)
    (hroom : a.isInlined = true → a.rootHdr.size + maxInlineArr T ≤ maxThr T)
    (hr : a.insert T i v c = .ok (a', c')) :
    ∃ E C, Log c c' E C ∧ CAcct c.ctr c'.ctr (.arr a) (.arr a') E (C.map (·.1)) ∧ ArrOk T a' c'.ctr ∧
      a'.rootID = a.rootID := by
  obtain ⟨hi, _, hok', hinl', hrid, hty, hle, _⟩ := h.insert_ok hT (StorOk.of_elemOk hv) hroom hr
  cases hinl : a.isInlined
  · have hinv := h.1 hinl
    obtain ⟨E, C, hlog, hacct⟩ := arr_insert_acctR hT a c i v (StorOk.of_elemOk hv) hinv a' c' hr
    refine ⟨E, C, hlog, ?_, hok', hrid⟩
    exact cacct_of_acct_arr hacct hle hinl (by rw [hinl', hinl]) hrid (fun hne => absurd hty hne)
  · have hinv := h.2 hinl
    have hcount : a.count < maxArrayElementCount := by
      have hne : a.count ≠ maxArrayElementCount := by
        intro heq
        unfold Arr.insert at hr
        rw [if_pos heq] at hr
        cases hr
      obtain ⟨s, ty, rfl, _, _, _, _, _, _, _, _, h9⟩ := hinv
      have : (⟨0, s, ty⟩ : Arr).count = s.hdr.count := rfl
      omega
    obtain ⟨a2, c2, heq, hinv2, _, _, _, _, _, hc2⟩ :=
      arrInl_insertC hT hinv (StorOk.of_elemOk hv) (hroom hinl) hcount hi
    rw [heq] at hr; cases hr
    rw [toStorable_fit T a.addr v c hv.2] at hc2
    simp only at hc2
    subst hc2
    exact ⟨[], [], Log.refl _, cacct_arrInl hinv hinv2 hrid _, hok', hrid⟩

theorem cstep_arr_remove (hT : legalThreshold T = true) {a : Arr} {c : Ctx} {i : Nat} {old : Elem} {a' : Arr} {c' : Ctx}
    (h : ArrOk T a c.ctr) (hr : a.remove T i c = .ok (old, a', c')) :
    ∃ E C, Log c c' E C ∧ CAcct c.ctr c'.ctr (.arr a) (.arr a') E (C.map (·.1)) ∧ ArrOk T a' c'.ctr ∧
      a'.rootID = a.rootID := by
  obtain ⟨hget, _, hok', hinl', hrid, hty, hle, _⟩ := h.remove_ok hT hr
  have hi : i < a.toList.length := (List.getElem?_eq_some_iff.1 hget).1
  cases hinl : a.isInlined
  · have hinv := h.1 hinl
    obtain ⟨E, C, hlog, hacct⟩ := arr_remove_acct hT a c i hinv old a' c' hr
    refine ⟨E, C, hlog, ?_, hok', hrid⟩
    exact cacct_of_acct_arr hacct hle hinl (by rw [hinl', hinl]) hrid (fun hne => absurd hty hne)
  · have hinv := h.2 hinl
    obtain ⟨a2, c2, heq, hinv2, _, _, _, _, _, hc2⟩ := arrInl_removeC hinv hi
    rw [heq] at hr; cases hr
    subst hc2
    exact ⟨[], [], Log.refl _, cacct_arrInl hinv hinv2 hrid _, hok', hrid⟩

/-! ### maps -/

variable {D : DigestFn 4} {cfg : MCfg}

theorem treeOk_of_macct_map {m m' : OMap 3} {a c c' : Nat} {E : List Eff} {cr : List SlabID}
    (h : MAcct a c c' (MTree.slabs m.d m.root) (MTree.slabs m'.d m'.root) E cr)
    (ht : TreeOk a c (.map m)) : TreeOk a c' (.map m') := by
  rw [TreeOk, Cont.treeIds_map] at ht ⊢
  refine ⟨h.nodup ht.1, ?_⟩
  intro id hid
  rcases h.keys_new id hid with h1 | h1
  · exact ⟨Nat.le_trans (ht.2 id h1).1 h.le, (ht.2 id h1).2⟩
  · exact ⟨h1.2.2, h1.1⟩

theorem cstep_map_set (hT : legalThreshold T = true) {m : OMap 3} {c : Ctx} {k : MKey} {v : Elem}
    {old : Option Elem} {m' : OMap 3} {c' : Ctx}
    (h : MapOk T D m c.ctr) (hcfg : CfgOk cfg T m) (hk : KeyOk T 4 D k) (hv : ValueOkR T k.size v)
    (hroom : m.isInlined = true → m.rootHdr.size + maxEntry T ≤ maxThr T)
    (ht : TreeOk m.addr c.ctr (.map m))
    (hr : m.set cfg k v c = .ok (old, m', c')) :
    ∃ E C, Log c c' E C ∧ CAcct c.ctr c'.ctr (.map m) (.map m') E (C.map (·.1)) ∧ MapOk T D m' c'.ctr ∧
      m'.rootID = m.rootID ∧ TreeOk m.addr c'.ctr (.map m') := by
  obtain ⟨_, hok', hinl', hrid, hle, _⟩ := h.set_ok hT hcfg hk hv hroom hr
  cases hinl : m.isInlined
  · obtain ⟨hinv, hctr⟩ := h.1 hinl
    have hids : MIdsOk m := by
      have := ht.1
      rw [Cont.treeIds_map] at this
      exact this
    obtain ⟨E, C, hlog, hacct, hla, _⟩ := omap_set_acctR hT hcfg hinv hk hv c hctr hids hr
    refine ⟨E, C, hlog.toLog, ?_, hok', hrid, treeOk_of_macct_map hacct ht⟩
    exact cacct_of_macct_map hacct hinl (by rw [hinl', hinl]) hrid (fun _ => hla)
  · obtain ⟨s, ty, cnt, seed, rfl, _⟩ := h.2 hinl
    have hinv := h.2 hinl
    obtain ⟨hloose, hi2, _, _, _⟩ := MapInvInl.loose hinv
    have hti := treeIds_mapInl s ty cnt seed
    obtain ⟨htnd, htb⟩ := ht
    rw [hti] at htnd htb
    have hnd : (AList.keys (grp s.elems.elems)).Nodup := (List.nodup_cons.1 htnd).2
    have hrid0 : s.hdr.id ∉ AList.keys (grp s.elems.elems) := (List.nodup_cons.1 htnd).1
    have haddr : cfg.addr = s.hdr.id.addr := hcfg.2.2
    have hold : ∀ id ∈ AList.keys (grp s.elems.elems), Old cfg.addr c.ctr id :=
      fun id hid _ => (htb id (List.mem_cons_of_mem _ hid)).1
    have hinl'' : m'.isInlined = true := by rw [hinl', hinl]
    obtain ⟨s', cnt', rfl, hid', hi', E, C, hlog, hacct⟩ :=
      omapInl_set_acct s ty cnt seed hi2 (firstOk_of_inv hloose.elems_inv) hnd hold hr hinl''
    have hrb : s.hdr.id.idx ≤ c.ctr := (htb _ List.mem_cons_self).1
    refine ⟨E, C, hlog.toLog, cacct_of_macct_mapInl hacct hi2 hi' hid' hrid0 hrb, hok', hrid, ?_⟩
    rw [TreeOk, treeIds_mapInl, hid']
    have hnew := hacct.keys_new
    refine ⟨List.nodup_cons.2 ⟨?_, hacct.nodup hnd⟩, ?_⟩
    · intro hm
      rcases hnew _ hm with h1 | h1
      · exact hrid0 h1
      · have := h1.2.1; omega
    · intro id hid
      rcases List.mem_cons.1 hid with e | e
      · subst e; exact ⟨Nat.le_trans hrb hacct.le, rfl⟩
      · rcases hnew id e with h1 | h1
        · exact ⟨Nat.le_trans (htb id (List.mem_cons_of_mem _ h1)).1 hacct.le, (htb id (List.mem_cons_of_mem _ h1)).2⟩
        · exact ⟨h1.2.2, by rw [h1.1]; exact haddr⟩

theorem cstep_map_remove (hT : legalThreshold T = true) {m : OMap 3} {c : Ctx} {k : MKey}
    {rk : MKey} {rv : Elem} {m' : OMap 3} {c' : Ctx}
    (h : MapOk T D m c.ctr) (hcfg : CfgOk cfg T m) (hk : KeyOk T 4 D k)
    (hroom : m.isInlined = true → m.rootHdr.size + maxEntry T ≤ maxThr T)
    (ht : TreeOk m.addr c.ctr (.map m))
    (hr : m.remove cfg k c = .ok (rk, rv, m', c')) :
    ∃ E C, Log c c' E C ∧ CAcct c.ctr c'.ctr (.map m) (.map m') E (C.map (·.1)) ∧ MapOk T D m' c'.ctr ∧
      m'.rootID = m.rootID ∧ TreeOk m.addr c'.ctr (.map m') := by
  obtain ⟨_, _, hok', hinl', hrid, hle, _⟩ := h.remove_ok hT hcfg hk hroom hr
  cases hinl : m.isInlined
  · obtain ⟨hinv, hctr⟩ := h.1 hinl
    have hids : MIdsOk m := by
      have := ht.1
      rw [Cont.treeIds_map] at this
      exact this
    obtain ⟨E, C, hlog, hacct, hla, _⟩ := omap_remove_acct hT hcfg hinv hk c hctr hids hr
    refine ⟨E, C, hlog.toLog, ?_, hok', hrid, treeOk_of_macct_map hacct ht⟩
    exact cacct_of_macct_map hacct hinl (by rw [hinl', hinl]) hrid (fun _ => hla)
  · obtain ⟨s, ty, cnt, seed, rfl, _⟩ := h.2 hinl
    have hinv := h.2 hinl
    obtain ⟨hloose, hi2, _, _, _⟩ := MapInvInl.loose hinv
    have hti := treeIds_mapInl s ty cnt seed
    obtain ⟨htnd, htb⟩ := ht
    rw [hti] at htnd htb
    have hnd : (AList.keys (grp s.elems.elems)).Nodup := (List.nodup_cons.1 htnd).2
    have hrid0 : s.hdr.id ∉ AList.keys (grp s.elems.elems) := (List.nodup_cons.1 htnd).1
    have haddr : cfg.addr = s.hdr.id.addr := hcfg.2.2
    have hold : ∀ id ∈ AList.keys (grp s.elems.elems), Old cfg.addr c.ctr id :=
      fun id hid _ => (htb id (List.mem_cons_of_mem _ hid)).1
    have hinl'' : m'.isInlined = true := by rw [hinl', hinl]
    obtain ⟨s', cnt', rfl, hid', hi', E, hlog, hacct⟩ :=
      omapInl_remove_acct s ty cnt seed hi2 (firstOk_of_inv hloose.elems_inv) hnd hold hr hinl''
    have hrb : s.hdr.id.idx ≤ c.ctr := (htb _ List.mem_cons_self).1
    refine ⟨E, [], hlog.toLog, cacct_of_macct_mapInl hacct hi2 hi' hid' hrid0 hrb, hok', hrid, ?_⟩
    rw [TreeOk, treeIds_mapInl, hid']
    have hnew := hacct.keys_new
    refine ⟨List.nodup_cons.2 ⟨?_, hacct.nodup hnd⟩, ?_⟩
    · intro hm
      rcases hnew _ hm with h1 | h1
      · exact hrid0 h1
      · have := h1.2.1; omega
    · intro id hid
      rcases List.mem_cons.1 hid with e | e
      · subst e; exact ⟨Nat.le_trans hrb hacct.le, rfl⟩
      · rcases hnew id e with h1 | h1
        · exact ⟨Nat.le_trans (htb id (List.mem_cons_of_mem _ h1)).1 hacct.le, (htb id (List.mem_cons_of_mem _ h1)).2⟩
        · exact ⟨h1.2.2, by rw [h1.1]; exact haddr⟩

end World
end Atree
