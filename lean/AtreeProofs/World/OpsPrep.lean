import AtreeProofs.World.Notify
import AtreeProofs.World.StepMutate
/-
  Preparation of the public operations: a rank for the world after a container has been inserted,
  the form of an unreferenced container changes (`childStorable` on the inserted value,
  `uninlineIfNeeded` on the value handed back), transfer of a handle across the mutation.
-/
namespace Atree
open Gen

namespace World

variable {D : SlabID → DigestFn 4} {rank : SlabID → Nat} {O : SlabID → Prop}

/-! ### ancestors -/

theorem Anc.prepend {w : World} {q x p : SlabID} (hqx : Holds w q x) (h : Anc w x p) : Anc w q p := by
  induction h with
  | refl => exact Anc.step Anc.refl hqx
  | step _ hpz ih => exact Anc.step ih hpz

/-- Inserting an unreferenced container `v` below `p` (which `v` is not an ancestor of) keeps the
    world acyclic: a rank for the world with the new edge. -/
theorem rank_insert {w : World} (hr : CRank rank w) (hu : UniqueRef w) {p v : SlabID}
    (hroot : ∀ q, ¬ Holds w q v) (hanc : ¬ Anc w v p) :
    ∃ rank', CRank rank' w ∧ rank' p < rank' v ∧ rank' p = rank p ∧ ∀ z, rank z ≤ rank' z := by
  classical
  refine ⟨fun z => rank z + (if Anc w v z then rank p + 1 else 0), ?_, ?_, ?_, ?_⟩
  · intro q x hqx hx
    by_cases hax : Anc w v x
    · have haq : Anc w v q := by
        cases hax with
        | refl => exact absurd hqx (hroot q)
        | @step p' _ hvp' hp'x =>
          obtain ⟨qc, hqc, hm⟩ := hqx
          obtain ⟨pc', hpc', hm'⟩ := hp'x
          obtain ⟨i, hi⟩ := List.mem_iff_getElem?.mp hm
          obtain ⟨i', hi'⟩ := List.mem_iff_getElem?.mp hm'
          have := (hu q p' qc pc' i i' x hqc hpc' hi hi' hx).1
          rw [this]; exact hvp'
      have := hr q x hqx hx
      simp only [if_pos hax, if_pos haq]
      omega
    · have haq : ¬ Anc w v q := fun h => hax (Anc.step h hqx)
      have := hr q x hqx hx
      simp only [if_neg hax, if_neg haq]
      omega
  · simp only [if_neg hanc, if_pos Anc.refl]
    omega
  · simp only [if_neg hanc]; omega
  · intro z; show rank z ≤ rank z + _; omega

theorem WorldOkGen.with_rank {w : World} {ctr : Nat} {stale : Option SlabID}
    (H : WorldOkGen D rank stale O w ctr) {rank' : SlabID → Nat} (hr : CRank rank' w) :
    WorldOkGen D rank' stale O w ctr :=
  ⟨H.legal, H.ids, H.addr, H.conts, H.slots, H.band, H.unique, H.inlRef, H.mutIdx, H.closure, hr, H.below,
    H.idxLive, H.hinfoLive⟩

/-! ### the form of an unreferenced container changes -/

theorem sameData_kslots (T : Nat) {c c' : Cont} (h : Cont.SameData c c') : c'.kslots T = c.kslots T := by
  cases c <;> cases c' <;> simp only [Cont.SameData] at h
  · simp [Cont.kslots, h.1]
  · simp [Cont.kslots, h.1]

/-- `ClosureAt` does not see the form of the containers -/
theorem closureAt_sameData {w w1 : World} {v : SlabID} {c c1 : Cont} (hv : w.cont? v = some c)
    (hsd : Cont.SameData c c1) (hT : w1.T = w.T) (hm : w1.mutIdx = w.mutIdx)
    (hc1 : w1.cont? v = some c1) (hco : ∀ z, z ≠ v → w1.cont? z = w.cont? z)
    (x : SlabID) (hi : HInfo) (lim : Nat) (e : Elem) : ClosureAt w1 x hi lim e ↔ ClosureAt w x hi lim e := by
  have hidx : ∀ q, w1.idxOf q = w.idxOf q := fun q => by simp [World.idxOf, hm]
  by_cases hpv : hi.parent = v
  · unfold ClosureAt
    rw [hpv, hc1, hv, hidx, hT]
    cases c <;> cases c1 <;> simp only [Cont.SameData] at hsd
    · simp [hsd.1]
    · simp [hsd.1]
  · unfold ClosureAt
    rw [hco _ hpv, hidx, hT]

theorem step_childform {w w1 : World} {ctr : Nat} {v : SlabID} {c c1 : Cont}
    (H : WorldOkGen D rank none O w ctr) (hv : w.cont? v = some c) (hroot : ∀ q, ¬ Holds w q v)
    (hsd : Cont.SameData c c1) (hok : ContOk w.T (D v) ctr c1) (hband : c1.isInlined = true → c1.rootSize ≤ w.T)
    (hT : w1.T = w.T) (ha : w1.addr = w.addr) (hh : w1.hinfo = w.hinfo) (hm : w1.mutIdx = w.mutIdx)
    (hc1 : w1.cont? v = some c1) (hco : ∀ z, z ≠ v → w1.cont? z = w.cont? z) :
    WorldOkGen D rank none (fun x => O x ∨ x = v) w1 ctr := by
  have hS : ContsSig w w1 := by
    refine ⟨hT, fun q => ?_⟩
    by_cases hq : q = v
    · subst hq; rw [hc1, hv]; simp [hsd.sig_eq]
    · rw [hco q hq]
  have hidx : ∀ q, w1.idxOf q = w.idxOf q := fun q => by simp [World.idxOf, hm]
  refine ⟨by rw [hT]; exact H.legal, ?_, ?_, ?_, ?_, ?_, hS.uniqueRef H.unique, ?_, ?_,
    hS.closureOk H.closure (fun x hi hx => by rw [← hh]; exact hx), hS.cRank H.rank,
    hS.refsBelow H.below (Nat.le_refl _),
    hS.idxLive H.idxLive (fun q x i hi => by rw [hidx] at hi; exact hi),
    hS.hinfoLive H.hinfoLive (fun x hi hx => by rw [← hh]; exact hx)⟩
  · intro z cz hz
    by_cases hzv : z = v
    · subst hzv; rw [hc1] at hz; cases hz; rw [hsd.vid]; exact H.ids _ _ hv
    · rw [hco z hzv] at hz; exact H.ids z cz hz
  · intro z cz hz
    rw [ha]
    by_cases hzv : z = v
    · subst hzv; exact H.addr _ _ hv
    · rw [hco z hzv] at hz; exact H.addr z cz hz
  · intro z cz hz
    rw [hT]
    by_cases hzv : z = v
    · subst hzv; rw [hc1] at hz; cases hz; exact hok
    · rw [hco z hzv] at hz; exact H.conts z cz hz
  · -- slots: nobody refers to `v`
    intro q qc hq le hle x cx hx hcx
    rw [hT] at hle
    have hq' : ∃ qc0, w.cont? q = some qc0 ∧ le ∈ qc0.slots w.T := by
      by_cases hqv : q = v
      · subst hqv; rw [hc1] at hq; cases hq
        exact ⟨c, hv, by rw [← hsd.slots_eq]; exact hle⟩
      · rw [hco q hqv] at hq; exact ⟨qc, hq, hle⟩
    obtain ⟨qc0, hq0, hle0⟩ := hq'
    have hxv : x ≠ v := by
      intro he; subst he
      exact hroot q (holds_of_slot hq0 hle0 hx)
    rw [hco x hxv] at hcx
    obtain ⟨wr, h1, h2, h3, h4⟩ := H.slots q qc0 hq0 le hle0 x cx hx hcx
    refine ⟨wr, h1, h2, h3, ?_⟩
    intro hi hO hhi hca
    rw [hh] at hhi
    exact h4 hi (fun h => hO (Or.inl h)) hhi ((closureAt_sameData hv hsd hT hm hc1 hco _ _ _ _).mp hca)
  · intro z cz hz hi
    rw [hT]
    by_cases hzv : z = v
    · subst hzv; rw [hc1] at hz; cases hz; exact hband hi
    · rw [hco z hzv] at hz; exact H.band z cz hz hi
  · intro z cz hz hi hO
    have hzv : z ≠ v := fun h => hO (Or.inr h)
    rw [hco z hzv] at hz
    obtain ⟨q, hq⟩ := H.inlRef z cz hz hi (fun h => hO (Or.inl h))
    exact ⟨q, hS.holds hq⟩
  · exact hS.mutIdxOkX (fun p a hp x i hi hO => H.mutIdx p a hp x i hi (fun h => hO (Or.inl h)))
      (fun q x => by rw [hidx])

/-! ### every other container keeps its signature -/

theorem SigFrame.of_sig {w w' : World} (h : ContsSig w w') (p : SlabID) : SigFrame w w' p := fun z _ => h.sig z

theorem SigFrame.trans {w1 w2 w3 : World} {p : SlabID} (h1 : SigFrame w1 w2 p) (h2 : SigFrame w2 w3 p) :
    SigFrame w1 w3 p := fun z hz => (h2 z hz).trans (h1 z hz)

theorem SigFrame.of_conts {w w' : World} {p : SlabID} (h : ∀ z, z ≠ p → w'.cont? z = w.cont? z) : SigFrame w w' p :=
  fun z hz => by rw [h z hz]

theorem sigFrame_setCont (w : World) (p : SlabID) (c : Cont) : SigFrame w (w.setCont p c) p :=
  SigFrame.of_conts (fun _ hz => cont?_setCont_ne _ _ _ _ hz)

theorem sigFrame_setCont_shift (w : World) (p : SlabID) (c : Cont) (f : Nat → Nat) :
    SigFrame w ((w.setCont p c).shiftIdx p f) p :=
  SigFrame.of_conts (fun z hz => by rw [cont?_shiftIdx]; exact cont?_setCont_ne _ _ _ _ hz)

theorem sigFrame_cbArr (w : World) (p : SlabID) (i : Nat) (v : WVal) (q : SlabID) :
    SigFrame w (w.setCallbackArr p i v) q :=
  SigFrame.of_conts (fun _ _ => cont?_setCallbackArr _ _ _ _ _)

theorem sigFrame_cbMap (w : World) (p : SlabID) (k : MKey) (v : WVal) (q : SlabID) :
    SigFrame w (w.setCallbackMap p k v) q :=
  SigFrame.of_conts (fun _ _ => cont?_setCallbackMap _ _ _ _ _)

/-- a reference that is not in `p` is still there -/
theorem SigFrame.holds {w w' : World} {p : SlabID} (h : SigFrame w w' p) {q x : SlabID} (hq : q ≠ p)
    (hh : Holds w q x) : Holds w' q x := by
  obtain ⟨qc, hqc, hm⟩ := hh
  have := h q hq
  rw [hqc] at this
  cases hc' : w'.cont? q with
  | none => rw [hc'] at this; cases this
  | some c' =>
    rw [hc'] at this
    simp only [Option.map_some, Option.some.injEq] at this
    exact ⟨c', hc', by rw [Cont.sig_pays this]; exact hm⟩

/-! ### handles across an update that leaves the ancestors of `p` alone -/

theorem HandleOk.transfer_on {w w' : World} (P : SlabID → Prop)
    (hP : ∀ x hi, P x → AList.find? w.hinfo x = some hi → ClosureCurrent w x hi → P hi.parent)
    (hholds : ∀ q x, P x → Holds w' q x → Holds w q x)
    (hcur : ∀ x hi, P x → AList.find? w.hinfo x = some hi → ClosureCurrent w x hi →
      ∃ hi', AList.find? w'.hinfo x = some hi' ∧ hi'.parent = hi.parent ∧ ClosureCurrent w' x hi')
    {z : SlabID} (h : HandleOk w z) (hz : P z) : HandleOk w' z := by
  induction h with
  | root x hr => exact HandleOk.root x (fun p hp => hr p (hholds p x hz hp))
  | child x hi hhi hc _ ih =>
    obtain ⟨hi', h1, h2, h3⟩ := hcur x hi hz hhi hc
    exact HandleOk.child x hi' h1 h3 (by rw [h2]; exact ih (hP x hi hz hhi hc))

/-- the handle of `p` survives a change of the content of `p` -/
theorem handleOk_mutate {w w2 : World} {p : SlabID} {pc pc' : Cont} (hr : CRank rank w) (hr2 : CRank rank w2)
    (hp : w.cont? p = some pc) (hcp : w2.cont? p = some pc') (hco : ∀ z, z ≠ p → w2.cont? z = w.cont? z)
    (hT : w2.T = w.T) (hh : w2.hinfo = w.hinfo)
    (hidx : ∀ q x, q ≠ p → AList.find? (w2.idxOf q) x = AList.find? (w.idxOf q) x)
    (h : HandleOk w p) : HandleOk w2 p := by
  have hlive : ∀ x hi, ClosureCurrent w x hi → (w.cont? hi.parent).isSome := by
    intro x hi hc
    rw [closureCurrent_iff] at hc
    obtain ⟨j, pc0, hpc0, _⟩ := hc
    rw [hpc0]; rfl
  have hpar : ∀ x hi, rank x ≤ rank p → (w.cont? x).isSome → ClosureCurrent w x hi → rank hi.parent < rank p := by
    intro x hi hx hxs hc
    rw [closureCurrent_iff] at hc
    obtain ⟨j, hj⟩ := hc
    have := hr _ _ hj.holds hxs
    omega
  refine HandleOk.transfer_on (fun x => rank x ≤ rank p ∧ (w.cont? x).isSome) ?_ ?_ ?_ h
    ⟨Nat.le_refl _, by rw [hp]; rfl⟩
  · intro x hi ⟨hx, hxs⟩ _ hc
    exact ⟨by have := hpar x hi hx hxs hc; omega, hlive x hi hc⟩
  · intro q x ⟨hx, hxs⟩ hq
    have hqp : q ≠ p := by
      intro he; subst he
      have hxs2 : (w2.cont? x).isSome := by
        by_cases hxp : x = q
        · subst hxp; rw [hcp]; rfl
        · rw [hco x hxp]; exact hxs
      have := hr2 q x hq hxs2
      omega
    obtain ⟨qc, hqc, hm⟩ := hq
    exact ⟨qc, by rw [← hco q hqp]; exact hqc, hm⟩
  · intro x hi ⟨hx, hxs⟩ hhi hc
    have hpp : hi.parent ≠ p := by
      intro he
      have := hpar x hi hx hxs hc
      rw [he] at this; omega
    refine ⟨hi, by rw [hh]; exact hhi, rfl, ?_⟩
    obtain ⟨lim, e, hca⟩ := hc
    refine ⟨lim, e, ?_⟩
    unfold ClosureAt at hca ⊢
    rw [hco _ hpp, hidx _ _ hpp, hT]
    exact hca

end World
end Atree
