import AtreeProofs.Props.C10Persist
import AtreeProofs.World.HeapScenario
/-
  NON-VACUITY of `Props/C10Persist.lean`: the run of `World/OkScenario.lean` up to the depth-3 world
  `t8` (`R` ∋ inlined map `M` ∋ inlined wrapped array `A` holding one value; `R` ∋ inlined array `B`),
  run against the storage state machine with the identity codec: `HistS` holds, so
  `history_persisted` applies; the committed ledger is evaluated.
-/
namespace Atree.PersistScenario
open Atree Gen World St
open Atree.OkScenario
open Atree.HeapScenario
open Atree.Scenario (w0 cx0)
open Atree.C09 (newEffects newCreated)
open Atree.C09W (Hist)
open Atree.C10Persist

def idCodec : Codec WSlab WSlab := { enc := some, dec := fun _ b => some b, size := fun _ => 0 }

theorem idCodec_roundTrip : RoundTrip idCodec := by
  intro id v b h
  simp only [idCodec, Option.some.injEq] at h
  subst h; rfl

theorem idCodec_noEncodeFailure (s : St WSlab WSlab) : NoEncodeFailure idCodec s := fun _ _ _ => rfl

/-- the storage after each operation -/
def sOf (s : St WSlab WSlab) (cx cx' : Ctx) (w' : World) : St WSlab WSlab :=
  WE2E.applyEffs idCodec s w'.slabAt (newEffects cx cx')

def s1 := sOf St.init cx0 t1.2.2 t1.2.1
def s2 := sOf s1 t1.2.2 t2.2.2 t2.2.1
def s3 := sOf s2 t2.2.2 t3.2.2 t3.2.1
def s4 := sOf s3 t3.2.2 t4.2.2 t4.2.1
def s5 := sOf s4 t4.2.2 t5.2 t5.1
def s6 := sOf s5 t5.2 t6.2.2 t6.2.1
def s7 := sOf s6 t6.2.2 t7.2 t7.1
def s8 := sOf s7 t7.2 t8.2 t8.1

theorem hist1 : Hist D t1.2.1 t1.2.2 := .newArr 7 (.new 256 1 (by decide))
theorem hist2 : Hist D t2.2.1 t2.2.2 := .newMap 8 5 hist1
theorem hist3 : Hist D t3.2.1 t3.2.2 := .newArr 9 hist2

theorem hv5 : WValOk t4.2.1 R (maxInlineArr t4.2.1.T) (.child M 0) :=
  ⟨freshB_live (by decide), unrefB_sound (by decide), not_anc_of_fresh (by decide) (by decide), by decide⟩
theorem hv6 : WValOk t5.1 M (maxInlineMapValue t5.1.T K1.size) (.child A 1) :=
  ⟨freshB_live (by decide), unrefB_sound (by decide), not_anc_of_fresh (by decide) (by decide), by decide⟩
theorem hv7 : WValOk t6.2.1 A (maxInlineArr t6.2.1.T) (pl 1) := ⟨⟨by decide, 1, rfl⟩, by decide⟩
theorem hv8 : WValOk t7.1 R (maxInlineArr t7.1.T) (.child B 0) :=
  ⟨freshB_live (by decide), unrefB_sound (by decide), not_anc_of_fresh (by decide) (by decide), by decide⟩

theorem hist5 : Hist D t5.1 t5.2 := .arrInsert hist4 handles4.1 hv5 run5
theorem hist6 : Hist D t6.2.1 t6.2.2 := .mapSet hist5 ok5.2.2 keyOk_K1 hv6 run6
theorem hist7 : Hist D t7.1 t7.2 := .arrInsert hist6 ok6.2.2 hv7 run7

/-- THE RUN AGAINST THE STORAGE -/
theorem histS8 : HistS D idCodec t8.1 t8.2 s8 := by
  have h0 : HistS D idCodec w0 cx0 St.init := .new 256 1 (by decide)
  have h1 : HistS D idCodec t1.2.1 t1.2.2 s1 :=
    .step h0 hist1 (C09W.newArr_effects_complete D w0 7 cx0 w0_ok hk0).2.1 (by decide)
  have h2 : HistS D idCodec t2.2.1 t2.2.2 s2 :=
    .step h1 hist2 (C09W.newMap_effects_complete D t1.2.1 8 5 t1.2.2 (C10W.worldOk'_of_worldOk ok1.1) hk1).2.1
      (by decide)
  have h3 : HistS D idCodec t3.2.1 t3.2.2 s3 :=
    .step h2 hist3 (C09W.newArr_effects_complete D t2.2.1 9 t2.2.2 (C10W.worldOk'_of_worldOk ok2) hk2).2.1 (by decide)
  have h4 : HistS D idCodec t4.2.1 t4.2.2 s4 :=
    .step h3 hist4 (C09W.newArr_effects_complete D t3.2.1 10 t3.2.2 (C10W.worldOk'_of_worldOk ok3) hk3).2.1 (by decide)
  have h5 : HistS D idCodec t5.1 t5.2 s5 := .step h4 hist5 step5.1 (by decide)
  have h6 : HistS D idCodec t6.2.1 t6.2.2 s6 := .step h5 hist6 step6.1 (by decide)
  have h7 : HistS D idCodec t7.1 t7.2 s7 := .step h6 hist7 step7.1 (by decide)
  exact .step h7 hist8 step8.1 (by decide)

/-- the persistence theorem applies: after the mutation at depth 3 and the insertion of `B`, a commit
    and a reopen give a storage that shows exactly the heap of the (reopened) world -/
example := (history_persisted D idCodec idCodec_roundTrip t8.1 t8.2 s8 histS8).2.2 .det [] []
  (idCodec_noEncodeFailure _)

/-- the heap of `t8` is the single slab `R` (it embeds `M`, `A`, `B`) -/
example : t8.1.heapIds = [R] := by decide
/-- the write set before the commit: `R` dirty, the three inlined children deleted -/
example : s8.deltas.map (·.1) = [R, B, A, M] := by decide
/-- the ledger after commit + reopen holds exactly the register of `R` (by evaluation of the storage
    state machine) -/
example : (St.run idCodec s8 [.commit .det [] [] [], .recreate]).base.map (·.1) = [R] := by decide

end Atree.PersistScenario
