import AtreeProofs.World.HeapWOps2
import AtreeProofs.World.Pop
import AtreeProofs.E2E.Created
import AtreeProofs.World.WPopCont
/-
  World-level heap accounting, part 5: DISPOSAL.  `World.forget` / `forgetElems` drop containers from
  the table without any storage call of the library: the slabs are removed by the CALLER (the
  premise of C09: "the caller disposes of every value the library hands back").  `dropLog w w'` is
  that disposal: one `remove` for every slab of the heap of `w` that is not in the heap of `w'`.
  `Array.PopIterate` through a handle (`arrPopKeep`, `arrPop`): the library removes the slabs of the
  popped array, the caller disposes of what it was handed, the parent is notified.
-/
namespace Atree
open Gen

namespace World

variable {D : SlabID → DigestFn 4} {rank : SlabID → Nat}

/-- THE CALLER'S DISPOSAL: the slabs of the heap of `w` that are no longer needed in `w'` -/
def dropLog (w w' : World) : List Eff :=
  (w.heapIds.filter (fun id => !w'.heapIds.contains id)).map Eff.remove

theorem mem_dropLog (w w' : World) (id : SlabID) :
    Eff.remove id ∈ dropLog w w' ↔ w.InHeap id ∧ ¬ w'.InHeap id := by
  simp only [dropLog, List.mem_map, List.mem_filter, Eff.remove.injEq, exists_eq_right, Bool.not_eq_true',
    List.contains_eq_mem, decide_eq_false_iff_not, mem_heapIds_iff]

theorem dropLog_removes (w w' : World) : ∀ e ∈ dropLog w w', ∃ i, e = Eff.remove i := by
  intro e he
  simp only [dropLog, List.mem_map] at he
  obtain ⟨i, _, rfl⟩ := he
  exact ⟨i, rfl⟩

/-- containers are dropped from the table, the caller removes their slabs -/
theorem shrink_heap {w w' : World} {c : Nat} (S : Shrink w w') (H : HeapOk w c) :
    WAcct c c w w' (dropLog w w') [] ∧ HeapOk w' c := by
  have hsub : ∀ x cc, w'.cont? x = some cc → w.cont? x = some cc := fun x cc hx => S.some_of_some hx
  have hla := fun id => lastAction_only_removes (dropLog w w') (dropLog_removes w w') id
  refine ⟨⟨Nat.le_refl _, ?_, ?_, ?_, ?_, ?_, by simp, ?_⟩, ?_, ?_, ?_, ?_⟩
  · intro id s ⟨x, cc, hx, hm⟩
    exact Or.inl ⟨x, cc, hsub x cc hx, hm⟩
  · intro id h1 h2
    exact (hla id).1.2 ((mem_dropLog w w' id).2 ⟨h1, h2⟩)
  · intro id h1; exact absurd h1 (hla id).2
  · intro id h1
    exact ((mem_dropLog w w' id).1 ((hla id).1.1 h1)).2
  · intro id h1
    cases hl : lastAction (dropLog w w') id with
    | none => exact absurd hl h1
    | some b =>
      cases b with
      | true => exact absurd hl (hla id).2
      | false => exact Or.inl ((mem_dropLog w w' id).1 ((hla id).1.1 hl)).1.inTree
  · intro id ⟨x, cc, hx, hm⟩
    exact Or.inl ⟨x, cc, hsub x cc hx, hm⟩
  · intro x cc x' cc' id hx hx' hm hm'
    exact H.own x cc x' cc' id (hsub _ _ hx) (hsub _ _ hx') hm hm'
  · intro x cc hx; exact H.nodup x cc (hsub _ _ hx)
  · intro x cc id hx hm; exact H.below x cc id (hsub _ _ hx) hm
  · intro x cc id hx hm; rw [S.addr]; exact H.addr x cc id (hsub _ _ hx) hm

theorem WPre.shrink {w0 w w' : World} {ctr0 ctr : Nat} (P : WPre D rank w0 ctr0 w ctr) (S : Shrink w w') :
    WPre D rank w0 ctr0 w' ctr := by
  have hsub : ∀ x cc, w'.cont? x = some cc → w.cont? x = some cc := fun x cc hx => S.some_of_some hx
  refine ⟨P.inv0, P.le, S.T.trans P.T, S.addr.trans P.addr, ?_, ?_, (shrink_heap S P.heap).2, ?_⟩
  · intro x cc hx
    rw [S.T, S.addr]
    exact P.conts x cc (hsub _ _ hx)
  · intro q x ⟨qc, hqc, hm⟩ hx
    obtain ⟨cx, hcx⟩ := Option.isSome_iff_exists.1 hx
    exact P.rank q x ⟨qc, hsub _ _ hqc, hm⟩ (by rw [hsub _ _ hcx]; rfl)
  · intro x hi hx
    have hx0 : AList.find? w.hinfo x = some hi := by
      rcases S.keep x with ⟨_, h2, _⟩ | ⟨_, _, h3, _⟩
      · rw [← h2]; exact hx
      · rw [h3] at hx; cases hx
    obtain ⟨h1, h2⟩ := P.closure x hi hx0
    rw [S.T]
    exact ⟨fun pa hpa => h1 pa (hsub _ _ hpa), fun pm k hpm hk => h2 pm k (hsub _ _ hpm) hk⟩

theorem legal_ge' {T : Nat} (h : legalThreshold T = true) : 256 ≤ T := by
  simp only [legalThreshold, minSlabSize, Bool.and_eq_true, decide_eq_true_eq] at h
  exact of_decide_eq_true h.1

/-! ### `Array.PopIterate` on one array -/

theorem cstep_arr_pop {T : Nat} {Dm : DigestFn 4} (_hT : legalThreshold T = true) {a : Arr} {c : Ctx}
    (h : ContOk T Dm c.ctr (.arr a)) :
    ∃ E, Log c (a.popIterate c).2.2 E [] ∧
      CAcct c.ctr (a.popIterate c).2.2.ctr (.arr a) (.arr (a.popIterate c).2.1) E [] ∧
      (Cont.arr (a.popIterate c).2.1).treeIds = [a.rootID] := by
  obtain ⟨hcr, hctr⟩ := arr_popIterate_ctx a c
  have hinl' : (a.popIterate c).2.1.isInlined = a.isInlined := rfl
  have hti' : (Cont.arr (a.popIterate c).2.1).treeIds = [a.rootID] := by rw [Cont.treeIds_arr]; rfl
  have hrid : a.rootID ∈ (Cont.arr a).treeIds := Cont.vid_mem_treeIds (.arr a)
  cases hinl : a.isInlined
  · obtain ⟨E, heff, hE1, hE2⟩ := arr_popIterate_eff a c hinl
    have hrem : ∀ e ∈ E, ∃ i, e = Eff.remove i := fun e he => by
      obtain ⟨id, _, rfl⟩ := hE1 e he; exact ⟨id, rfl⟩
    have hla : ∀ id, lastAction (E ++ [.store a.rootID]) id = if a.rootID = id then some true else lastAction E id :=
      fun id => lastAction_concat_store E a.rootID id
    have hlr := fun id => lastAction_only_removes E hrem id
    have hs' : (Cont.arr (a.popIterate c).2.1).slabs = (Cont.arr (a.popIterate c).2.1).treeSlabs :=
      Cont.slabs_of_standalone (c := .arr (a.popIterate c).2.1) (hinl'.trans hinl)
    have hh' : (Cont.arr (a.popIterate c).2.1).heapIds = [a.rootID] := by
      rw [Cont.heapIds_of_standalone (c := .arr (a.popIterate c).2.1) (hinl'.trans hinl), hti']
    have hh : (Cont.arr a).heapIds = a.rootID :: subIds a.d a.root := by
      rw [Cont.heapIds_of_standalone (c := .arr a) hinl, Cont.treeIds_arr, slabIds_eq]; rfl
    have hsubt : ∀ id ∈ subIds a.d a.root, id ∈ (Cont.arr a).treeIds := by
      intro id hid
      rw [Cont.treeIds_arr, slabIds_eq]; exact List.mem_cons_of_mem _ hid
    refine ⟨E ++ [.store a.rootID], ⟨heff, by rw [hcr]; simp, by rw [hctr]; exact Nat.le_refl _, ?_⟩,
      ⟨by rw [hctr]; exact Nat.le_refl _, ?_, ?_, ?_, ?_, ?_, by simp, ?_⟩, hti'⟩
    · intro addr id hm
      rcases List.mem_append.1 hm with h1 | h1
      · obtain ⟨j, _, hj⟩ := hE1 _ h1; cases hj
      · simp at h1
    · intro p hp
      right
      have : p.1 ∈ (Cont.arr (a.popIterate c).2.1).heapIds := mem_keys_of_mem hp
      rw [hh', List.mem_singleton] at this
      rw [hla, if_pos this.symm]
    · intro id h1 h2
      rw [hh] at h1; rw [hh', List.mem_singleton] at h2
      rcases List.mem_cons.1 h1 with e | e
      · exact absurd e h2
      · rw [hla, if_neg (fun e1 => h2 e1.symm)]
        exact (hlr id).1.2 (hE2 id e)
    · intro id h1
      rw [hla] at h1
      split at h1
      · rename_i e; left; rw [hh']; exact List.mem_singleton.2 e.symm
      · exact absurd h1 (hlr id).2
    · intro id h1
      rw [hla] at h1
      split at h1
      · cases h1
      · rename_i e; rw [hh', List.mem_singleton]; exact fun e1 => e e1.symm
    · intro id h1
      left
      rw [hla] at h1
      split at h1
      · rename_i e; rw [← e]; exact hrid
      · cases hl : lastAction E id with
        | none => exact absurd hl h1
        | some b =>
          cases b with
          | true => exact absurd hl (hlr id).2
          | false =>
            obtain ⟨j, hj, he⟩ := hE1 _ ((hlr id).1.1 hl)
            cases he
            exact hsubt _ hj
    · intro id h1
      rw [hti', List.mem_singleton] at h1
      left; rw [h1]; exact hrid
  · -- inlined: nothing in storage, nothing touched
    have hinv := (h : ArrOk T a c.ctr).2 hinl
    obtain ⟨s, ty, rfl, _⟩ := hinv
    have hc' : ((⟨0, s, ty⟩ : Arr).popIterate c).2.2 = c := by
      show (if (⟨0, s, ty⟩ : Arr).isInlined = true then _ else _) = c
      rw [hinl]; rfl
    rw [hc']
    have hs := slabs_arrInl ((h : ArrOk T _ c.ctr).2 hinl)
    have hs' : (Cont.arr ((⟨0, s, ty⟩ : Arr).popIterate c).2.1).slabs = [] := by
      rw [Cont.slabs_of_inlined (c := .arr ((⟨0, s, ty⟩ : Arr).popIterate c).2.1) (hinl'.trans hinl)]; rfl
    refine ⟨[], Log.refl c, cacct_nil (by rw [hs.1, hs']) (by rw [hti', hs.2]) _, hti'⟩

/-! ### `Array.PopIterate` through a handle -/

theorem arrPopKeep_unfold' {w : World} {h : SlabID} {keep : List SlabID} {cx : Ctx} {a : Arr}
    {es : List Elem} {w' : World} {cx' : Ctx}
    (hc : w.cont? h = some (.arr a)) (hp : w.arrPopKeep h keep cx = .ok (es, w', cx')) :
    es = (a.popIterate cx).1 ∧
    ∃ fuel, notifyParent fuel
      (((w.setCont h (.arr (a.popIterate cx).2.1)).setIdx h []).forgetElems (disposed keep (a.popIterate cx).1))
      h (a.popIterate cx).2.2 = .ok (w', cx') := by
  unfold arrPopKeep at hp
  rw [hc] at hp
  simp only at hp
  split at hp
  · cases hp
  · rename_i w1 cx1 hn
    cases hp
    exact ⟨rfl, _, hn⟩

/-- `Array.PopIterate` through the handle `h` (the caller keeps the popped containers `keep` and
    disposes of the rest): the library's log up to the disposal `E1`, the caller's disposal `Dsp`,
    the parent notification `E2`. -/
theorem arrPopKeep_heap {w w' : World} {h : SlabID} {keep : List SlabID} {cx cx' : Ctx} {es : List Elem}
    (H : HInv D rank w cx.ctr) (Hh : HeapOk w cx.ctr)
    (hp : w.arrPopKeep h keep cx = .ok (es, w', cx')) :
    ∃ (a : Arr) (E1 E2 : List Eff) (C : List (SlabID × Elem)),
      w.cont? h = some (.arr a) ∧ Log cx cx' (E1 ++ E2) C ∧
      WAcct cx.ctr cx'.ctr w w'
        (E1 ++ dropLog ((w.setCont h (.arr (a.popIterate cx).2.1)).setIdx h [])
          (((w.setCont h (.arr (a.popIterate cx).2.1)).setIdx h []).forgetElems (disposed keep es)) ++ E2)
        (C.map (·.1)) ∧
      HeapOk w' cx'.ctr ∧
      (∀ id, Eff.remove id ∈ dropLog ((w.setCont h (.arr (a.popIterate cx).2.1)).setIdx h [])
          (((w.setCont h (.arr (a.popIterate cx).2.1)).setIdx h []).forgetElems (disposed keep es)) →
        ¬ w'.InHeap id) ∧
      (∀ x c, ((w.setCont h (.arr (a.popIterate cx).2.1)).setIdx h []).cont? x = some c →
        (((w.setCont h (.arr (a.popIterate cx).2.1)).setIdx h []).forgetElems (disposed keep es)).cont? x = none →
        ∀ id ∈ c.heapIds, Eff.remove id ∈ dropLog ((w.setCont h (.arr (a.popIterate cx).2.1)).setIdx h [])
          (((w.setCont h (.arr (a.popIterate cx).2.1)).setIdx h []).forgetElems (disposed keep es))) := by
  have P := WPre.of_inv H Hh
  obtain ⟨a, hc⟩ : ∃ a, w.cont? h = some (.arr a) := by
    unfold arrPopKeep at hp
    split at hp
    · exact ⟨_, by assumption⟩
    · cases hp
  obtain ⟨hes, fuel, hn⟩ := arrPopKeep_unfold' hc hp
  have hlegal := H.legal
  have hok := H.conts h _ hc
  obtain ⟨E1, hlog1, hca, hti'⟩ := cstep_arr_pop hlegal (c := cx) hok
  obtain ⟨hok', hctr, hinl', hvid', hse, hrs⟩ := contOk_arr_pop hlegal a cx hok
  have hvid : a.rootID = h := H.ids h _ hc
  have hpaddr : h.addr = w.addr := H.addr h _ hc
  have htree : TreeOk w.addr (a.popIterate cx).2.2.ctr (.arr (a.popIterate cx).2.1) := by
    rw [TreeOk, hti']
    refine ⟨by simp, ?_⟩
    intro id hid
    rw [List.mem_singleton] at hid
    subst hid
    have := Hh.treeOk hc
    have hm : a.rootID ∈ (Cont.arr a).treeIds := Cont.vid_mem_treeIds (.arr a)
    exact ⟨by rw [hctr]; exact (this.2 _ hm).1, (this.2 _ hm).2⟩
  obtain ⟨hacct1, hheap1⟩ := hca.lift Hh hc htree.1 htree.2
  -- the world after the pop, before the disposal
  have P1 : WPre D rank w cx.ctr (w.setCont h (.arr (a.popIterate cx).2.1)) (a.popIterate cx).2.2.ctr := by
    refine ⟨H, by rw [hctr]; exact Nat.le_refl _, rfl, rfl, ?_, ?_, hheap1, ?_⟩
    · intro x c hx
      rw [cont?_setCont] at hx
      split at hx
      · rename_i e1
        cases hx
        subst e1
        refine ⟨hok', hvid, hpaddr, ?_⟩
        intro hi
        have h1 := hrs hi
        have h2 := legal_ge' hlegal
        rw [h1]
        simp only [inlinedArrayDataSlabPrefixSize]
        show _ ≤ w.T
        omega
      · rw [hctr]
        exact ⟨H.conts x c hx, H.ids x c hx, H.addr x c hx, H.band hx⟩
    · intro q x ⟨qc, hqc, hm⟩ hx
      have hx1 : (w.cont? x).isSome := by
        rw [cont?_setCont] at hx
        split at hx
        · rename_i e1; subst e1; rw [hc]; rfl
        · exact hx
      rw [cont?_setCont] at hqc
      split at hqc
      · cases hqc
        simp only [Cont.pays, hse, List.map_nil, List.not_mem_nil] at hm
      · exact H.rank q x ⟨qc, hqc, hm⟩ hx1
    · refine closureOk_of_kind (w := w) rfl rfl ?_ H.closure
      intro z
      rw [cont?_setCont]
      split
      · rename_i e1; subst e1; rw [hc]; rfl
      · rfl
  have P1' := P1.congr (sameTab_setIdx _ h [])
  obtain ⟨S, _, _, hgone⟩ := forgetElems_spec (disposed keep (a.popIterate cx).1)
    ((w.setCont h (.arr (a.popIterate cx).2.1)).setIdx h [])
  have P2 := P1'.shrink S
  obtain ⟨hacct2, hheap2⟩ := shrink_heap S P1'.heap
  -- what is above `h` is untouched
  have hsame : ∀ z, rank z < rank h →
      (((w.setCont h (.arr (a.popIterate cx).2.1)).setIdx h []).forgetElems (disposed keep (a.popIterate cx).1)).cont? z
        = w.cont? z := by
    intro z hz
    have hzh : z ≠ h := by intro e; subst e; omega
    rcases S.keep z with ⟨h1, _, _⟩ | ⟨h1, h2, _, _⟩
    · rw [h1, cont?_setIdx, cont?_setCont_ne _ _ _ _ hzh]
    · exfalso
      obtain ⟨e, he, v, hpv, hr⟩ := hgone z h1 h2
      have hemem : e ∈ a.toList := by
        have := (List.mem_filter.1 he).1
        rw [(arr_popIterate_refines a cx).1] at this
        exact List.mem_reverse.1 this
      have hrr : RefRankOk rank ((w.setCont h (.arr (a.popIterate cx).2.1)).setIdx h []) := by
        intro u c hu e' he' v' hpv' hv'
        exact P1'.rank u v' ⟨c, hu, by simp only [Cont.pays, List.mem_map]; exact ⟨e', he', hpv'⟩⟩ hv'
      have h1 := hr.rank_le hrr
      have hvlive : (w.cont? v).isSome := by
        have := hr.src_isSome
        rw [cont?_setIdx, cont?_setCont] at this
        split at this
        · rename_i e1; subst e1; rw [hc]; rfl
        · exact this
      have h2 := H.rank h v ⟨_, hc, by
        simp only [Cont.pays, Cont.storedElems, List.mem_map]; exact ⟨e, hemem, hpv⟩⟩ hvlive
      omega
  have hpost3 := notifyHeap D rank fuel w cx.ctr _ h _ w' cx' P2 hsame hn
  obtain ⟨E2, C, hlog3, hacct3, hheap3, _⟩ := hpost3
  have hown1 : ∀ id, ((w.setCont h (.arr (a.popIterate cx).2.1)).setIdx h []).InHeap id →
      (((w.setCont h (.arr (a.popIterate cx).2.1)).setIdx h []).forgetElems (disposed keep (a.popIterate cx).1)).InTree id →
      (((w.setCont h (.arr (a.popIterate cx).2.1)).setIdx h []).forgetElems (disposed keep (a.popIterate cx).1)).InHeap id := by
    rintro id ⟨x, cx0, hx, hm⟩ ⟨z, cz, hz, hmz⟩
    have hz1 := S.some_of_some hz
    have := P1'.heap.own x cx0 z cz id hx hz1 (cx0.heapIds_sub_treeIds id hm) hmz
    subst this
    rw [hx] at hz1; cases hz1
    exact ⟨x, cx0, hz, hm⟩
  refine ⟨a, E1, E2, C, hc, ?_, ?_, hheap3, ?_, ?_⟩
  · have := hlog1.trans hlog3
    simpa using this
  rotate_left
  · intro id hid hin
    rw [hes] at hid
    obtain ⟨h1, h2⟩ := (mem_dropLog _ _ id).1 hid
    obtain ⟨s, hs⟩ := (inHeap_iff w' id).1 hin
    rcases hacct3.kept id s hs with h3 | h3
    · exact h2 h3.inHeap
    · rcases hacct3.foot id (by rw [h3]; simp) with h4 | h4
      · exact h2 (hown1 id h1 h4)
      · have := P1'.heap.inTree_le h1.inTree
        omega
  · intro x c hx hx2 id hid
    rw [hes] at hx2 ⊢
    refine (mem_dropLog _ _ id).2 ⟨⟨x, c, hx, hid⟩, ?_⟩
    rintro ⟨z, cz, hz, hmz⟩
    have hz1 := S.some_of_some hz
    have := P1'.heap.own x c z cz id hx hz1 (c.heapIds_sub_treeIds id hid) (cz.heapIds_sub_treeIds id hmz)
    subst this
    rw [hx2] at hz; cases hz
  · have h12 : WAcct cx.ctr (a.popIterate cx).2.2.ctr w
        ((w.setCont h (.arr (a.popIterate cx).2.1)).setIdx h []) E1 [] :=
      hacct1.congr (fun _ => rfl) (fun _ => rfl)
    have h13 := h12.trans hacct2 (fun id hid => Hh.inTree_le hid)
    have h14 := h13.trans hacct3 (fun id hid => Hh.inTree_le hid)
    rw [hes]
    simpa using h14

/-- disposing of a container and everything below it (`World.forget`): the caller's removes are a
    complete account, the ownership invariant is kept -/
theorem forget_heap {w : World} {ctr : Nat} (Hh : HeapOk w ctr) (k : SlabID) :
    WAcct ctr ctr w (forget w.fuelOf w k) (dropLog w (forget w.fuelOf w k)) [] ∧
      HeapOk (forget w.fuelOf w k) ctr :=
  shrink_heap (forget_shrink _ w k) Hh

end World
end Atree
