import AtreeProofs.World.OpsArr2
/-
  `mapSet` and `mapRemove` keep the global invariant.
-/
namespace Atree
open Gen

namespace World

variable {D : SlabID → DigestFn 4}

/-- `storableOf` on the value about to be stored (plain value or child container), uniformly:
    `O1` is the pending set (the child, if any). -/
theorem prep_value {w : World} {ctr : Nat} {rank0 : SlabID → Nat}
    (H0 : WorldOkGen D rank0 none (fun _ => False) w ctr) {p : SlabID} {lim : Nat} (hlim : lim ≤ maxInlineArr w.T)
    {v : WVal} (hv : WValOk w p lim v) {cx : Ctx} {e : Elem} {w1 : World} {cx1 : Ctx}
    (hst : w.storableOf v lim cx = .ok (e, w1, cx1)) :
    ∃ rank' O1, WorldOkGen D rank' none O1 w1 ctr ∧ CRank rank' w ∧ ContsSig w w1 ∧ w1.T = w.T ∧
      w1.addr = w.addr ∧ w1.hinfo = w.hinfo ∧ w1.mutIdx = w.mutIdx ∧ cx1.ctr = cx.ctr ∧ 1 ≤ e.size ∧ e.size ≤ lim ∧
      (∀ z, ¬ O1 z → w1.cont? z = w.cont? z) ∧ ¬ O1 p ∧
      (∀ z, O1 z → (∀ q, ¬ Holds w q z) ∧ rank' p < rank' z ∧ e.pay = .ref z ∧
        ∃ c c1 wr, w.cont? z = some c ∧ v = .child z wr ∧ w1.cont? z = some c1 ∧ Cont.SameData c c1 ∧
          e = ⟨slotSize c1 wr, .ref z⟩ ∧ slabIDStorableSize + 2 * wr ≤ lim ∧
          c1.isInlined = c1.inlinable (lim - 2 * wr)) ∧
      (∀ x, e.pay = .ref x → O1 x) ∧ (∀ e0, v = .plain e0 → e = e0) ∧
      rank' p = rank0 p ∧ ∀ z, rank0 z ≤ rank' z := by
  cases v with
  | plain e0 =>
    simp only [World.storableOf] at hst
    cases hst
    obtain ⟨⟨h1, n, hn⟩, hsz⟩ := hv
    exact ⟨rank0, fun _ => False, H0, H0.rank, ContsSig.refl _, rfl, rfl, rfl, rfl, rfl, h1, hsz,
      fun _ _ => rfl, id, fun z hz => absurd hz id, fun x hx => (by rw [hn] at hx; cases hx),
      fun e0 he0 => (by cases he0; rfl), rfl, fun _ => Nat.le_refl _⟩
  | child x wr =>
    obtain ⟨hlive, hroot, hanc, hwb⟩ := hv
    obtain ⟨c, hx⟩ := Option.isSome_iff_exists.mp hlive
    simp only [World.storableOf] at hst
    obtain ⟨rank', c1, H1, hr', hrk, hc1, hsd1, he, hinl1, he1, he2, hco1, hT1, ha1, hh1, hm1, hctr1, hroot1, hS1,
      hrp, hrle⟩ := prep_child H0 hx hroot hanc hwb hlim hst
    have hxp : p ≠ x := by intro h; rw [h] at hrk; omega
    refine ⟨rank', PendChild (fun _ => False) x, H1, hr', hS1, hT1, ha1, hh1, hm1, hctr1, he1, he2, ?_, ?_, ?_, ?_,
      fun e0 he0 => (by cases he0), hrp, hrle⟩
    · intro z hz
      exact hco1 z (fun h => hz (Or.inr h))
    · rintro (h | h)
      · exact h
      · exact hxp h
    · rintro z (h | h)
      · exact absurd h id
      · subst h
        exact ⟨hroot, hrk, by rw [he], c, c1, wr, hx, rfl, hc1, hsd1, he, hwb, hinl1⟩
    · intro z hz
      rw [he] at hz
      cases hz
      exact Or.inr rfl

theorem kslots_map_insert (T : Nat) {m m' : OMap 3} {A B : List (MKey × Elem)} {k : MKey} {e : Elem}
    (h : m.toList = A ++ B) (h' : m'.toList = A ++ (k, e) :: B) :
    (Cont.map m').kslots T = ((Cont.map m).kslots T).insertIdx A.length (some k, maxInlineMapValue T k.size, e) := by
  simp only [Cont.kslots, h, h', List.map_append, List.map_cons]
  rw [insertIdx_at (by simp)]

theorem kslots_map_set (T : Nat) {m m' : OMap 3} {A B : List (MKey × Elem)} {k : MKey} {e v0 : Elem}
    (h : m.toList = A ++ (k, v0) :: B) (h' : m'.toList = A ++ (k, e) :: B) :
    (Cont.map m').kslots T = ((Cont.map m).kslots T).set A.length (some k, maxInlineMapValue T k.size, e) := by
  simp only [Cont.kslots, h, h', List.map_append, List.map_cons]
  rw [set_mid (by simp)]

theorem kslots_map_erase (T : Nat) {m m' : OMap 3} {A B : List (MKey × Elem)} {k : MKey} {v0 : Elem}
    (h : m.toList = A ++ (k, v0) :: B) (h' : m'.toList = A ++ B) :
    (Cont.map m').kslots T = ((Cont.map m).kslots T).eraseIdx A.length := by
  simp only [Cont.kslots, h, h', List.map_append, List.map_cons]
  rw [eraseIdx_mid (by simp)]

theorem kslots_map_mid (T : Nat) {m : OMap 3} {A B : List (MKey × Elem)} {k : MKey} {v0 : Elem}
    (h : m.toList = A ++ (k, v0) :: B) :
    ((Cont.map m).kslots T)[A.length]? = some (some k, maxInlineMapValue T k.size, v0) := by
  rw [Cont.kslots_map]
  exact ⟨k, v0, by rw [h]; exact getElem?_mid rfl, rfl⟩

/-- a map has no index table -/
theorem WorldOkGen.map_noidx {w : World} {ctr : Nat} {rank : SlabID → Nat} {stale : Option SlabID}
    {O : SlabID → Prop} (H : WorldOkGen D rank stale O w ctr) {p : SlabID} {m : OMap 3}
    (hp : w.cont? p = some (.map m)) (x : SlabID) : AList.find? (w.idxOf p) x = none := by
  cases h : AList.find? (w.idxOf p) x with
  | none => rfl
  | some i =>
    obtain ⟨_, a, ha⟩ := H.idxLive p x i h
    rw [hp] at ha; cases ha

theorem mapSet_okA {rank0 : SlabID → Nat} {w : World} {p : SlabID} {k : MKey} {v : WVal} {cx : Ctx}
    {oldr : Option Elem} {w' : World} {cx' : Ctx} (H0 : WorldOkGen D rank0 none (fun _ => False) w cx.ctr)
    (hhand : HandleOk w p) (hk : KeyOk w.T 4 (D p) k) (hv : WValOk w p (maxInlineMapValue w.T k.size) v)
    (h : w.mapSet p k v cx = .ok (oldr, w', cx')) :
    WorldOk D w' cx'.ctr ∧ cx.ctr ≤ cx'.ctr ∧ MapSetAt w w' p k v oldr ∧ HandleOk w' p ∧ SigFrame w w' p ∧
      OpFrame rank0 w w' p (Moved (some v) oldr) := by
  unfold mapSet at h
  simp only [bind, Except.bind] at h
  split at h
  · cases h
  · rename_i r hset
    obtain ⟨oldo, w3c, cx3⟩ := r
    simp only at h
    rw [mapSetRaw] at hset
    split at hset
    · rename_i m hpm
      split at hset
      · cases hset
      · rename_i e w1 cx1 hst
        split at hset
        · cases hset
        · rename_i old1x m' cx2 hs
          simp only at hset
          split at hset
          · cases hset
          · rename_i w3 cx3' hnp
            cases hset
            obtain ⟨rank', O1, H1, hr', hS1, hT1, ha1, hh1, hm1, hctr1, he1, he2, hco1, hO1p, hO1, hO1e, hplain, hrp,
              hrle⟩ := prep_value H0 (maxInlineMapValue_le_arr _ _) hv hst
            have hpm1 : w1.cont? p = some (.map m) := by rw [hco1 p hO1p]; exact hpm
            have hmok : MapOk w.T (D p) m cx1.ctr := by rw [hctr1]; exact H0.conts p _ hpm
            have hcfg := H0.cfgOk hpm
            have hcfg1 : w1.mcfg = w.mcfg := by simp [World.mcfg, hT1, ha1]
            rw [hcfg1] at hs
            have hroom := H1.map_room hpm1 (by intro h; cases h) hO1p
            rw [hT1] at hroom
            obtain ⟨heff, hok', hinl', hrid, hctr2, hsz⟩ :=
              hmok.set_ok H0.legal hcfg hk (⟨he1, Or.inr he2⟩ : ValueOkR w.T k.size e) hroom hs
            have hsv : storedValue w.mcfg k e cx1 = e := by
              show (toStorableLim (maxInlineMapValue w.T k.size) w.addr e cx1).1 = e
              rw [toStorableLim_of_le _ _ _ _ he2]
            rw [hsv] at heff
            have hb2 := inline_plus_entry_le w.T H0.legal
            have hb3 := two_inline_le w.T H0.legal
            have hbp : (Cont.map m').isInlined = true → (Cont.map m').rootSize ≤ w1.T := by
              intro hi2
              have hi2' : m.isInlined = true := by rw [← hinl']; exact hi2
              have hroom' : m.rootHdr.size ≤ maxInlineArr w1.T :=
                H1.inl_budget hpm1 hi2' (by intro h; cases h) hO1p
              have := hsz hi2'
              rw [hT1] at hroom' ⊢
              show m'.rootHdr.size ≤ w.T
              omega
            have hnew : ∀ x c, e.pay = .ref x → w1.cont? x = some c →
                (∀ q, ¬ Holds w1 q x) ∧ (O1 x ∨ ∃ o, oldo = some o ∧ o.pay = .ref x) ∧ rank' p < rank' x ∧
                ∃ wrap, slabIDStorableSize + 2 * wrap ≤ maxInlineMapValue w1.T k.size ∧ e.size = slotSize c wrap ∧
                  c.isInlined = c.inlinable (maxInlineMapValue w1.T k.size - 2 * wrap) := by
              intro x c hx hc
              obtain ⟨g1, g2, _, c0, c1, wr, _, _, g6, _, g8, g9, g10⟩ := hO1 x (hO1e x hx)
              rw [hc] at g6; cases g6
              refine ⟨fun q hq => g1 q ((hS1.holds_iff q x).mp hq), Or.inl (hO1e x hx), g2, wr, ?_, ?_, ?_⟩
              · rw [hT1]; exact g9
              · rw [g8]
              · rw [hT1]; exact g10
            have hnewb : ∀ r, e.pay = .ref r → r.idx ≤ cx2.ctr := by
              intro r hr
              obtain ⟨_, _, _, c0, _, _, g5, _⟩ := hO1 r (hO1e r hr)
              have := (H0.conts r c0 g5).vid_le
              rw [H0.ids r c0 g5] at this
              have := hctr1; omega
            have hnoidx1 : ∀ q x, AList.find? ((w1.setCont p (.map m')).idxOf q) x =
                if p = q then (AList.find? (w1.idxOf p) x).map (fun j => if j ≥ 0 then j else j) else
                  AList.find? (w1.idxOf q) x := by
              intro q x
              split
              · rename_i hpq; subst hpq
                rw [idxOf_setCont, H1.map_noidx hpm1 x]; rfl
              · rfl
            -- the world at the notification
            have H2 : WorldOkGen D rank' (some p) (fun z => O1 z ∨ ∃ o, oldo = some o ∧ o.pay = .ref z)
                (w1.setCont p (.map m')) cx2.ctr := by
              rcases heff with ⟨hnone, habs, A, B, hA, hB⟩ | ⟨v0, A, B, hsome, hA, hB⟩
              · refine step_insert (pc' := .map m') (i := A.length) H1 hpm1 (fun _ h => Or.inl h) (by rw [hT1]; exact hok')
                  rfl hinl' hrid hbp (by rw [← hctr1]; exact hctr2) (kslots_map_insert w1.T hA hB)
                  (by simp [Cont.kslots, hA]) hnew hnewb rfl rfl rfl ?_ (by simp) (fun z hz => by simp [Ne.symm hz])
                intro q x
                split
                · rename_i hpq; subst hpq
                  rw [idxOf_setCont, H1.map_noidx hpm1 x]; rfl
                · rfl
              · refine step_set (pc' := .map m') (i := A.length) H1 hpm1 (fun _ h => Or.inl h) (by rw [hT1]; exact hok')
                  rfl hinl' hrid hbp (by rw [← hctr1]; exact hctr2) (kslots_map_set w1.T hA hB)
                  (kslots_map_mid w1.T hA) (fun x hx => Or.inr ⟨v0, hsome, hx⟩) hnew hnewb rfl rfl rfl
                  (fun q x => rfl) (by simp) (fun z hz => by simp [Ne.symm hz])
            clear hnoidx1
            have hidx1 : ∀ q z, AList.find? (w1.idxOf q) z = AList.find? (w.idxOf q) z := by
              intro q z; simp [World.idxOf, hm1]
            have hhand1 : HandleOk w1 p :=
              hhand.transfer (fun q y => (hS1.holds_iff q y).mp)
                (CurKept.of_sig hS1 hidx1 (fun y hiy hy _ => by rw [hh1]; exact hy))
            have hhand2 : HandleOk (w1.setCont p (.map m')) p :=
              handleOk_mutate (pc' := .map m') H1.rank H2.rank hpm1 (by simp) (fun z hz => by simp [Ne.symm hz])
                rfl rfl (fun q y hq => rfl) hhand1
            have hsome2 : ∀ z, ((w1.setCont p (.map m')).cont? z).isSome = (w.cont? z).isSome := by
              intro z
              rw [cont?_setCont, ← hS1.isSome]
              split
              · rename_i hpz; subst hpz; rw [hpm1]; rfl
              · rfl
            -- the old value, if any, sat in the map
            have holdmem : ∀ o, oldo = some o → (k, o) ∈ m.toList := by
              intro o ho
              rcases heff with ⟨hnone, _⟩ | ⟨v0, A, B, hsome, hA, _⟩
              · rw [ho] at hnone; cases hnone
              · rw [ho] at hsome; cases hsome
                rw [hA]; simp
            have holdholds : ∀ o z, oldo = some o → o.pay = .ref z → Holds w p z := by
              intro o z ho hz
              refine ⟨_, hpm, ?_⟩
              rw [Cont.pays, Cont.storedElems]
              exact List.mem_map.mpr ⟨o, List.mem_map.mpr ⟨_, holdmem o ho, rfl⟩, hz⟩
            obtain ⟨H3, F3, hctr3⟩ := notify_ok D rank'
              (fun z => O1 z ∨ ∃ o, oldo = some o ∧ o.pay = .ref z) _ _ _ _ _ _ H2 hhand2
              (fun z hz hzs => by
                rw [hsome2] at hzs
                rcases hz with h | ⟨o, ho, hz⟩
                · exact (hO1 z h).2.1
                · exact hr' p z (holdholds o z ho hz) hzs) hnp
            obtain ⟨cp3, hcp3, hsd3⟩ := (by
              have := F3.self
              rw [cont?_setCont_self] at this
              exact this.get_some : ∃ cp3, w3.cont? p = some cp3 ∧ Cont.SameData (.map m') cp3)
            obtain ⟨m3, rfl, hl3, hrid3, _⟩ := hsd3.map
            have hemem : (k, e) ∈ m'.toList := by
              rcases heff with ⟨_, _, A, B, _, hB⟩ | ⟨v0, A, B, _, _, hB⟩ <;> rw [hB] <;> simp
            have hT3 : w3.T = w.T := F3.T.trans hT1
            -- the closure of the new child is installed
            have H4 : WorldOkGen D rank' none (fun z => ∃ o, oldo = some o ∧ o.pay = .ref z)
                (w3.setCallbackMap p k v) cx3.ctr := by
              cases v with
              | plain e0 =>
                have hw : w3.setCallbackMap p k (.plain e0) = w3 := rfl
                rw [hw]
                refine H3.congr_O (fun z => ⟨fun h => ?_, Or.inr⟩)
                rcases h with h | h
                · obtain ⟨_, _, _, _, _, wr, _, hv', _⟩ := hO1 z h
                  cases hv'
                · exact h
              | child x wr =>
                obtain ⟨hlive, hroot, hanc, hwb⟩ := hv
                have hx1 : O1 x := by
                  simp only [World.storableOf] at hst
                  obtain ⟨_, _, _, _, _, _, hep⟩ := childStorable_frame hst
                  exact hO1e x hep
                obtain ⟨g1, g2, g3, c0, c1, wr', g5, g6, g7, _, g9, _, _⟩ := hO1 x hx1
                cases g6
                have hxp : x ≠ p := fun h => hO1p (h ▸ hx1)
                have hx3 : w3.cont? x = some c1 := by
                  rw [F3.above x hxp (by omega), cont?_setCont_ne _ _ _ _ hxp]; exact g7
                refine finish_child_map H3 (fun z hz => ?_) (fun z hz => Or.inr hz) hcp3
                  (by rw [hl3, ← g9]; exact hemem) hx3 (by rw [hT3]; exact hwb) (by rw [hT3]; exact hk) ?_
                · rcases hz with h | h
                  · right
                    obtain ⟨_, _, h3, _⟩ := hO1 z h
                    rw [g3] at h3; cases h3; rfl
                  · exact Or.inl h
                · intro q aq j hq hj
                  rw [F3.idx] at hj
                  have hj' : AList.find? (w.idxOf q) x = some j := by
                    rw [← hidx1]; exact hj
                  obtain ⟨_, a0, ha0⟩ := H0.idxLive q x j hj'
                  have := H0.mutIdx q a0 ha0 x j hj' id
                  exact g1 q ⟨_, ha0, List.mem_of_getElem? this⟩
            -- the handle of `p`
            have hhand3 : HandleOk w3 p := hhand2.transfer (fun q y => (F3.sig.holds_iff q y).mp) F3.cur
            have hcur3c : CurKept w3 (w3.setCallbackMap p k v) := by
              cases v with
              | plain e0 => exact CurKept.refl w3
              | child x wr =>
                have hx1 : O1 x := by
                  simp only [World.storableOf] at hst
                  obtain ⟨_, _, _, _, _, _, hep⟩ := childStorable_frame hst
                  exact hO1e x hep
                obtain ⟨g1, g2, g3, c0, c1, wr', g5, g6, g7, _, g9, _, _⟩ := hO1 x hx1
                cases g6
                have hxp : x ≠ p := fun h => hO1p (h ▸ hx1)
                have hx3 : w3.cont? x = some c1 := by
                  rw [F3.above x hxp (by omega), cont?_setCont_ne _ _ _ _ hxp]; exact g7
                have hmem3 : (k, e) ∈ m3.toList := by rw [hl3]; exact hemem
                have hcur34 : CurKept w3 (w3.setCallbackMap p k (.child x wr)) :=
                  curKept_callback_map (hn := ⟨p, some k, maxInlineMapValue w3.T k.size - 2 * wr, wr⟩) hcp3 hmem3 g3 rfl rfl
                    (T_setCallbackMap _ _ _ _) (fun z => cont?_setCallbackMap _ _ _ _ _)
                    (mutIdx_setCallbackMap _ _ _ _) (hinfo_setCallbackMap _ _ _ _ _)
                    (fun hi' _ hcur => closureCurrent_parent H3
                      ⟨_, hcp3, by
                        rw [Cont.pays, Cont.storedElems]
                        exact List.mem_map.mpr ⟨e, List.mem_map.mpr ⟨_, hmem3, rfl⟩, g3⟩⟩
                      (by rw [hx3]; rfl) hcur)
                exact hcur34
            have hholds3c : ∀ q y, Holds (w3.setCallbackMap p k v) q y → Holds w3 q y := by
              intro q y hq
              obtain ⟨qc, hqc, hm⟩ := hq
              rw [cont?_setCallbackMap] at hqc
              exact ⟨qc, hqc, hm⟩
            have hhand3c : HandleOk (w3.setCallbackMap p k v) p := hhand3.transfer hholds3c hcur3c
            -- all the handles: the steps so far
            have K03 : HKeep (fun z => O1 z ∨ ∃ o, oldo = some o ∧ o.pay = .ref z) w (w3.setCallbackMap p k v) := by
              have K01 : HKeep (fun z => O1 z ∨ ∃ o, oldo = some o ∧ o.pay = .ref z) w w1 :=
                HKeep.of_sig _ hS1 hidx1 hh1
              have K12 : HKeep (fun z => O1 z ∨ ∃ o, oldo = some o ∧ o.pay = .ref z) w1 (w1.setCont p (.map m')) := by
                rcases heff with ⟨hnone, habs, A, B, hA, hB⟩ | ⟨v0, A, B, hsome, hA, hB⟩
                · refine hkeep_insert (pc' := .map m') (i := A.length) _ hpm1 rfl (kslots_map_insert w1.T hA hB)
                    (by simp [Cont.kslots, hA]) (fun x hx => Or.inl (hO1e x hx)) rfl ?_ (by simp)
                    (fun z hz => by simp [Ne.symm hz])
                  intro q x
                  split
                  · rename_i hpq; subst hpq
                    rw [idxOf_setCont, H1.map_noidx hpm1 x]; rfl
                  · rfl
                · exact hkeep_set (pc' := .map m') (i := A.length) _ hpm1 rfl (kslots_map_set w1.T hA hB)
                    (kslots_map_mid w1.T hA) (fun x hx => Or.inr ⟨v0, hsome, hx⟩) (fun x hx => Or.inl (hO1e x hx)) rfl
                    (fun q x => rfl) (by simp) (fun z hz => by simp [Ne.symm hz])
              have K23 : HKeep (fun z => O1 z ∨ ∃ o, oldo = some o ∧ o.pay = .ref z) _ w3 :=
                HKeep.of_curKept _ (fun q y => (F3.sig.holds_iff q y).mp) F3.cur
              exact ((K01.trans K12).trans K23).trans (HKeep.of_curKept _ hholds3c hcur3c)
            have hO1moved : ∀ z old, O1 z → Moved (some v) old z := by
              intro z old hz
              obtain ⟨_, _, _, _, _, wr, _, hv', _⟩ := hO1 z hz
              exact Or.inl ⟨wr, by rw [hv']⟩
            have hsome3c : ∀ z, ((w3.setCallbackMap p k v).cont? z).isSome = (w.cont? z).isSome := by
              intro z; rw [cont?_setCallbackMap, F3.sig.isSome, hsome2]
            -- the frame so far
            have hframe3c : ∀ z, z ≠ p → rank0 p ≤ rank0 z → ¬ O1 z → (∀ wr, v ≠ .child z wr) →
                (w3.setCallbackMap p k v).cont? z = w.cont? z ∧
                AList.find? (w3.setCallbackMap p k v).hinfo z = AList.find? w.hinfo z := by
              intro z hz hrk hzO hzv
              have hrk' : rank' p ≤ rank' z := by have := hrle z; omega
              refine ⟨?_, ?_⟩
              · rw [cont?_setCallbackMap, F3.above z hz hrk', cont?_setCont_ne _ _ _ _ hz, hco1 z hzO]
              · rw [hinfo_setCallbackMap_ne _ _ _ _ _ hzv, F3.hinfo z hz hrk']
                show AList.find? w1.hinfo z = _
                rw [hh1]
            have hidx3c' : ∀ q z, AList.find? ((w3.setCallbackMap p k v).idxOf q) z = AList.find? (w.idxOf q) z := by
              intro q z
              have : (w3.setCallbackMap p k v).idxOf q = w3.idxOf q := by simp [World.idxOf]
              rw [this, F3.idx]
              exact hidx1 q z
            -- the new child in the final worlds
            have hchild3 : ∀ x wr, v = .child x wr → e.pay = .ref x ∧
                (∃ c, (w3.setCallbackMap p k v).cont? x = some c ∧ e.size = slotSize c wr ∧
                  ¬ (∃ o, oldo = some o ∧ o.pay = .ref x)) ∧
                AList.find? (w3.setCallbackMap p k v).hinfo x
                  = some ⟨p, some k, maxInlineMapValue w3.T k.size - 2 * wr, wr⟩ := by
              intro x wr hvx
              subst hvx
              have hx1 : O1 x := by
                simp only [World.storableOf] at hst
                obtain ⟨_, _, _, _, _, _, hep⟩ := childStorable_frame hst
                exact hO1e x hep
              obtain ⟨g1, g2, g3, c0, c1, wr', g5, g6, g7, _, g9, _, _⟩ := hO1 x hx1
              cases g6
              have hxp : x ≠ p := fun h => hO1p (h ▸ hx1)
              refine ⟨g3, ⟨c1, ?_, by rw [g9], ?_⟩, by rw [hinfo_setCallbackMap, if_pos rfl]⟩
              · rw [cont?_setCallbackMap, F3.above x hxp (by omega), cont?_setCont_ne _ _ _ _ hxp]; exact g7
              · rintro ⟨o, ho, hz⟩
                exact g1 p (holdholds o x ho hz)
            -- hand the old value back
            cases oldo with
            | none =>
              simp only [pure, Except.pure] at h
              cases h
              have H5 := H4.congr_O (O' := fun _ => False) (fun z => ⟨fun ⟨o, ho, _⟩ => (by cases ho), fun h => absurd h id⟩)
              have hxhand : ∀ x wr, v = .child x wr → HandleOk (w3.setCallbackMap p k v) x := by
                intro x wr hvx
                obtain ⟨h1, ⟨c, h2, h3, _⟩, h5⟩ := hchild3 x wr hvx
                refine HandleOk.child x _ h5 ?_ hhand3c
                exact ⟨maxInlineMapValue (w3.setCallbackMap p k v).T k.size, e,
                  Or.inr ⟨m3, k, by rw [cont?_setCallbackMap]; exact hcp3, rfl, by rw [hl3]; exact hemem, h1,
                    rfl⟩⟩
              refine ⟨⟨rank', H5⟩, by have := hctr1; omega, ⟨m, m3, e, none, hpm, by rw [cont?_setCallbackMap]; exact hcp3,
                by rw [hl3]; exact heff, fun o ho => (by cases ho), fun _ => rfl, hplain, fun x wr hvx => ?_⟩, hhand3c,
                (((SigFrame.of_sig hS1 p).trans (sigFrame_setCont _ _ _)).trans (SigFrame.of_sig F3.sig p)).trans
                  (sigFrame_cbMap _ _ _ _ _),
                fun z hz hrk hzE => ?_, fun q y _ => hidx3c' q y, fun z hzh hzs => ?_⟩
              · obtain ⟨h1, ⟨c, h2, h3, _⟩, h5⟩ := hchild3 x wr hvx
                exact ⟨h1, hxhand x wr hvx, c, h2, h3⟩
              · exact hframe3c z hz hrk (fun h => hzE (hO1moved z none h)) (fun wr h => hzE (Or.inl ⟨wr, by rw [h]⟩))
              · refine (K03.mono (fun z hz => ?_)).handleOk (E := Moved (some v) none) (fun z hz _ => ?_) hzh
                  (by rw [← hsome3c]; exact hzs)
                · rcases hz with h | ⟨o, ho, _⟩
                  · exact hO1moved z none h
                  · cases ho
                · rcases hz with ⟨wr, h⟩ | ⟨o, ho, _⟩
                  · exact hxhand z wr (by cases h; rfl)
                  · cases ho
            | some o =>
              simp only at h
              split at h
              · cases h
              · rename_i r2 hun
                obtain ⟨o2, ov, w4, cx4⟩ := r2
                simp only [pure, Except.pure] at h
                cases h
                have hks : ∃ j : Nat, ((Cont.map m).kslots w.T)[j]? = some (some k, maxInlineMapValue w.T k.size, o) := by
                  obtain ⟨j, hj⟩ := List.mem_iff_getElem?.mp (holdmem o rfl)
                  exact ⟨j, by rw [Cont.kslots_map]; exact ⟨k, o, hj, rfl⟩⟩
                obtain ⟨jo, hjo⟩ := hks
                have H4' := H4.congr_O (O' := fun z => o.pay = .ref z)
                  (fun z => ⟨fun ⟨o', ho', hz⟩ => (by cases ho'; exact hz), fun hz => ⟨o, rfl, hz⟩⟩)
                -- nobody refers to the old child
                have hunref : ∀ z, o.pay = .ref z → ((w3.setCallbackMap p k v).cont? z).isSome →
                    ∀ q, ¬ Holds (w3.setCallbackMap p k v) q z := by
                  intro z hz hzs q hq
                  rw [cont?_setCallbackMap, F3.sig.isSome, hsome2] at hzs
                  obtain ⟨qc, hqc, hm⟩ := hq
                  rw [cont?_setCallbackMap] at hqc
                  have hq2 := (F3.sig.holds_iff q z).mp ⟨qc, hqc, hm⟩
                  obtain ⟨qc2, hqc2, hm2⟩ := hq2
                  obtain ⟨j, hj⟩ := List.mem_iff_getElem?.mp hm2
                  have hpi : (Cont.map m).pays[jo]? = some (Pay.ref z) := by
                    rw [Cont.kslot_pay hjo]; exact congrArg some hz
                  by_cases hqp : q = p
                  · subst hqp
                    rw [cont?_setCont_self] at hqc2; cases hqc2
                    -- the only slot of the new map that could refer to `z` is the overwritten one
                    rcases heff with ⟨hnone, _⟩ | ⟨v0, A, B, hsome, hA, hB⟩
                    · cases hnone
                    · cases hsome
                      have hj' := hj
                      rw [Cont.pays, Cont.storedElems, hB] at hj'
                      have hAj : jo = A.length :=
                        Cont.kslot_key_unique (H0.conts q _ hpm) hjo (kslots_map_mid w.T hA) rfl rfl
                      by_cases hjA : j = A.length
                      · subst hjA
                        simp only [List.map_append, List.map_cons, List.map_map] at hj'
                        rw [List.getElem?_append_right (by simp)] at hj'
                        simp only [List.length_map, Nat.sub_self, List.getElem?_cons_zero, Option.some.injEq] at hj'
                        -- the new element refers to `z`: it is the new child, which nobody referred to
                        obtain ⟨g1, _⟩ := hO1 z (hO1e z hj')
                        exact g1 q (holdholds o z rfl hz)
                      · have hjold : (Cont.map m).pays[j]? = some (Pay.ref z) := by
                          rw [Cont.pays, Cont.storedElems, hA]
                          simp only [List.map_append, List.map_cons, List.map_map] at hj' ⊢
                          by_cases hlt : j < A.length
                          · rw [List.getElem?_append_left (by simpa using hlt)] at hj' ⊢
                            exact hj'
                          · rw [List.getElem?_append_right (by simp; omega)] at hj' ⊢
                            simp only [List.length_map] at hj' ⊢
                            have : j - A.length = (j - A.length - 1) + 1 := by omega
                            rw [this] at hj' ⊢
                            simpa using hj'
                        have := (H0.unique q q _ _ j jo z hpm hpm hjold hpi hzs).2
                        omega
                  · rw [cont?_setCont_ne _ _ _ _ hqp] at hqc2
                    obtain ⟨qc0, hqc0, hs0⟩ := hS1.symm.get hqc2
                    have hj0 : qc0.pays[j]? = some (Pay.ref z) := by rw [Cont.sig_pays hs0]; exact hj
                    exact hqp (H0.unique q p qc0 _ j jo z hqc0 hpm hj0 hpi hzs).1
                have hun' := uninlineIfNeeded_ok hun
                have hidx43 : ∀ q z, AList.find? (w'.idxOf q) z
                    = AList.find? ((w3.setCallbackMap p k v).idxOf q) z := by
                  intro q z; simp [World.idxOf, hun'.2.2.1]
                have hidx3c : ∀ q z, AList.find? ((w3.setCallbackMap p k v).idxOf q) z = AList.find? (w.idxOf q) z := by
                  intro q z
                  have : (w3.setCallbackMap p k v).idxOf q = w3.idxOf q := by simp [World.idxOf]
                  rw [this, F3.idx]
                  exact hidx1 q z
                obtain ⟨H5, f1, f2, hT4, hh4, hm4, hS34, hpay, hctr4⟩ :=
                  finish_old (w5 := w') H4' hunref hun rfl rfl (fun _ => rfl) rfl (fun _ _ _ h => h) (by
                    intro z hz q aq j hq hj
                    rw [hidx43, hidx3c] at hj
                    obtain ⟨hzs, a0, ha0⟩ := H0.idxLive q z j hj
                    have := H0.mutIdx q a0 ha0 z j hj id
                    have hpi : (Cont.map m).pays[jo]? = some (Pay.ref z) := by
                      rw [Cont.kslot_pay hjo]; exact congrArg some hz
                    have := (H0.unique q p _ _ j jo z ha0 hpm this hpi hzs).1
                    subst this
                    rw [hpm] at ha0; cases ha0)
                have hpnot : ∀ z, o.pay = .ref z → z ≠ p := by
                  intro z hz he'
                  subst he'
                  have := H0.rank z z (holdholds o z rfl hz) (by rw [hpm]; rfl)
                  omega
                have hp4 : w'.cont? p = some (.map m3) := by
                  rw [f1 p (fun h => hpnot p h rfl), cont?_setCallbackMap]; exact hcp3
                have hhand4 : HandleOk w' p :=
                  hhand3c.transfer (fun q y => (hS34.holds_iff q y).mp)
                    (CurKept.of_sig hS34 hidx43 (fun y hiy hy _ => by rw [hh4]; exact hy))
                have hback : HandedBack w w' o := by
                  intro z c hz hc
                  have hzs3 : (w3.cont? z).isSome := by rw [F3.sig.isSome, hsome2, hc]; rfl
                  have hzp : z ≠ p := hpnot z hz
                  have hznew : ¬ O1 z := by
                    intro hO
                    exact (hO1 z hO).1 p (holdholds o z rfl hz)
                  have hc3' : (w3.setCallbackMap p k v).cont? z = some c := by
                    have hrk' := hr' p z (holdholds o z rfl hz) (by rw [hc]; rfl)
                    rw [cont?_setCallbackMap, F3.above z hzp (by omega), cont?_setCont_ne _ _ _ _ hzp, hco1 z hznew]
                    exact hc
                  obtain ⟨c'', hc'', hni, hsd⟩ := f2 z c hz hc3'
                  refine ⟨c'', hc'', hni, hsd.vid, hsd.storedElems, ?_⟩
                  intro q hq
                  exact hunref z hz (by rw [cont?_setCallbackMap]; exact hzs3) q ((hS34.holds_iff q z).mp hq)
                have hxhand : ∀ x wr, v = .child x wr → HandleOk w' x := by
                  intro x wr hvx
                  obtain ⟨h1, ⟨c, h2, h3, h4⟩, h5⟩ := hchild3 x wr hvx
                  refine HandleOk.child x _ (by rw [hh4]; exact h5) ?_ hhand4
                  exact ⟨maxInlineMapValue w'.T k.size, e,
                    Or.inr ⟨m3, k, hp4, rfl, by rw [hl3]; exact hemem, h1, rfl⟩⟩
                have hsome4 : ∀ z, (w'.cont? z).isSome = (w.cont? z).isSome := by
                  intro z; rw [hS34.isSome, hsome3c]
                have K34 : HKeep (fun z => O1 z ∨ ∃ o', some o = some o' ∧ o'.pay = .ref z)
                    (w3.setCallbackMap p k v) w' := HKeep.of_sig _ hS34 hidx43 hh4
                refine ⟨⟨rank', by rw [hctr4]; exact H5⟩, by have := hctr1; omega, ⟨m, m3, e, some o, hpm, hp4,
                  by rw [hl3]; exact heff, fun o' ho' => ?_, fun h => (by cases h), hplain, fun x wr hvx => ?_⟩, hhand4,
                  ((((SigFrame.of_sig hS1 p).trans (sigFrame_setCont _ _ _)).trans (SigFrame.of_sig F3.sig p)).trans
                    (sigFrame_cbMap _ _ _ _ _)).trans (SigFrame.of_sig hS34 p),
                  fun z hz hrk hzE => ?_, fun q y _ => by rw [hidx43]; exact hidx3c' q y, fun z hzh hzs => ?_⟩
                · cases ho'
                  exact ⟨o2, rfl, hpay, hback⟩
                · obtain ⟨h1, ⟨c, h2, h3, h4⟩, h5⟩ := hchild3 x wr hvx
                  refine ⟨h1, hxhand x wr hvx, c, ?_, h3⟩
                  rw [f1 x (fun hh => h4 ⟨o, rfl, hh⟩)]; exact h2
                · have hzo : o.pay ≠ .ref z := fun h => hzE (moved_old _ (by rw [hpay]; exact h))
                  obtain ⟨g1, g2⟩ := hframe3c z hz hrk (fun h => hzE (hO1moved z _ h))
                    (fun wr h => hzE (Or.inl ⟨wr, by rw [h]⟩))
                  exact ⟨by rw [f1 z hzo]; exact g1, by rw [hh4]; exact g2⟩
                · refine ((K03.trans K34).mono (fun z hz => ?_)).handleOk (E := Moved (some v) (some o2))
                    (fun z hz hl => ?_) hzh (by rw [← hsome4]; exact hzs)
                  · rcases hz with h | ⟨o', ho', hz'⟩
                    · exact hO1moved z _ h
                    · cases ho'; exact moved_old _ (by rw [hpay]; exact hz')
                  · rcases hz with ⟨wr, h⟩ | ⟨o', ho', hz'⟩
                    · exact hxhand z wr (by cases h; rfl)
                    · cases ho'
                      exact hback.handleOk (by rw [← hpay]; exact hz') hl
    · cases hset

theorem mapSet_ok {w : World} {p : SlabID} {k : MKey} {v : WVal} {cx : Ctx} {oldr : Option Elem} {w' : World}
    {cx' : Ctx} (H : WorldOk D w cx.ctr) (hhand : HandleOk w p) (hk : KeyOk w.T 4 (D p) k)
    (hv : WValOk w p (maxInlineMapValue w.T k.size) v)
    (h : w.mapSet p k v cx = .ok (oldr, w', cx')) :
    WorldOk D w' cx'.ctr ∧ cx.ctr ≤ cx'.ctr ∧ MapSetAt w w' p k v oldr ∧ HandleOk w' p ∧ SigFrame w w' p := by
  obtain ⟨rank0, H0⟩ := H
  obtain ⟨h1, h2, h3, h4, h5, _⟩ := mapSet_okA H0 hhand hk hv h
  exact ⟨h1, h2, h3, h4, h5⟩

/-! ### `mapRemove` -/

theorem mapRemove_okA {rank0 : SlabID → Nat} {w : World} {p : SlabID} {k : MKey} {cx : Ctx} {rk : MKey} {rv' : Elem}
    {w' : World} {cx' : Ctx} (H0 : WorldOkGen D rank0 none (fun _ => False) w cx.ctr) (hhand : HandleOk w p)
    (hk : KeyOk w.T 4 (D p) k) (h : w.mapRemove p k cx = .ok (rk, rv', w', cx')) :
    WorldOk D w' cx'.ctr ∧ cx.ctr ≤ cx'.ctr ∧ MapRemovedAt w w' p k rk rv' ∧ HandleOk w' p ∧ SigFrame w w' p ∧
      OpFrame rank0 w w' p (Moved none (some rv')) := by
  unfold mapRemove at h
  split at h
  · rename_i m hpm
    split at h
    · cases h
    · rename_i rk1 rv m' cx1 hrem
      simp only [bind, Except.bind] at h
      split at h
      · cases h
      · rename_i r hnp
        obtain ⟨w3, cx3⟩ := r
        simp only at h
        split at h
        · cases h
        · rename_i r2 hun
          obtain ⟨rv2, ov, w4, cx4⟩ := r2
          simp only [pure, Except.pure] at h
          cases h
          have hmok : MapOk w.T (D p) m cx.ctr := H0.conts p _ hpm
          have hcfg := H0.cfgOk hpm
          obtain ⟨hrk, heff, hok', hinl', hrid, hctr1, hsz⟩ :=
            hmok.remove_ok H0.legal hcfg hk (H0.map_room hpm (by intro h; cases h) (fun h => h)) hrem
          obtain ⟨A, B, hA, hB⟩ := heff
          have hks := kslots_map_mid w.T hA
          have hb2 := inline_plus_entry_le w.T H0.legal
          have H2 : WorldOkGen D rank0 (some p) (fun z => rv.pay = .ref z) (w.setCont p (.map m')) cx1.ctr := by
            refine step_remove (pc' := .map m') (i := A.length) H0 hpm (fun _ h => absurd h id) hok' rfl hinl' hrid ?_ hctr1
              (kslots_map_erase w.T hA hB) hks (fun x hx => hx) rfl rfl rfl ?_ (by simp)
              (fun z hz => by simp [Ne.symm hz])
            · intro hi2
              have hi2' : m.isInlined = true := by rw [← hinl']; exact hi2
              have hroom : m.rootHdr.size ≤ maxInlineArr w.T :=
                H0.inl_budget hpm hi2' (by intro h; cases h) (fun h => h)
              have := hsz hi2'
              show m'.rootHdr.size ≤ w.T
              omega
            · intro q x
              split
              · rename_i hpq; subst hpq
                rw [idxOf_setCont, H0.map_noidx hpm x]; rfl
              · rfl
          have hhand2 : HandleOk (w.setCont p (.map m')) p :=
            handleOk_mutate (pc' := .map m') H0.rank H2.rank hpm (by simp) (fun z hz => by simp [Ne.symm hz]) rfl rfl
              (fun q x hq => rfl) hhand
          have hsome2 : ∀ z, ((w.setCont p (.map m')).cont? z).isSome = (w.cont? z).isSome := by
            intro z
            rw [cont?_setCont]
            split
            · rename_i hpz; subst hpz; rw [hpm]; rfl
            · rfl
          obtain ⟨H3, F3, hctr3⟩ := notify_ok D rank0 (fun z => rv.pay = .ref z) _ _ _ _ _ _ H2 hhand2
            (fun z hz hzs => by
              rw [hsome2] at hzs
              exact H0.rank p z (holds_of_kslot hpm hks hz) hzs) hnp
          obtain ⟨cp3, hcp3, hsd3⟩ := (by
            have := F3.self
            rw [cont?_setCont_self] at this
            exact this.get_some : ∃ cp3, w3.cont? p = some cp3 ∧ Cont.SameData (.map m') cp3)
          obtain ⟨m3, rfl, hl3, hrid3, _⟩ := hsd3.map
          have hunref : ∀ z, rv.pay = .ref z → (w3.cont? z).isSome → ∀ q, ¬ Holds w3 q z := by
            intro z hz hzs q hq
            rw [F3.sig.isSome, hsome2] at hzs
            have hq2 := (F3.sig.holds_iff q z).mp hq
            obtain ⟨qc, hqc, hm⟩ := hq2
            obtain ⟨j, hj⟩ := List.mem_iff_getElem?.mp hm
            have hpi : (Cont.map m).pays[A.length]? = some (Pay.ref z) := by
              rw [Cont.kslot_pay hks]; exact congrArg some hz
            by_cases hqp : q = p
            · subst hqp
              rw [cont?_setCont_self] at hqc
              cases hqc
              have hjk := Cont.pay_slot (T := w.T) hj
              obtain ⟨le, hle, hpay⟩ := hjk
              obtain ⟨ko, hk'⟩ := Cont.slot_kslot hle
              rw [kslots_map_erase w.T hA hB] at hk'
              by_cases hji : j < A.length
              · rw [List.getElem?_eraseIdx_of_lt hji] at hk'
                have hj0 : (Cont.map m).pays[j]? = some (Pay.ref z) := by
                  rw [Cont.kslot_pay hk']; exact congrArg some hpay
                have := (H0.unique q q _ _ j A.length z hpm hpm hj0 hpi hzs).2
                omega
              · rw [List.getElem?_eraseIdx_of_ge (by omega)] at hk'
                have hj0 : (Cont.map m).pays[j + 1]? = some (Pay.ref z) := by
                  rw [Cont.kslot_pay hk']; exact congrArg some hpay
                have := (H0.unique q q _ _ (j + 1) A.length z hpm hpm hj0 hpi hzs).2
                omega
            · rw [cont?_setCont_ne _ _ _ _ hqp] at hqc
              exact hqp (H0.unique q p qc _ j A.length z hqc hpm hj hpi hzs).1
          have hun' := uninlineIfNeeded_ok hun
          have hidx43 : ∀ q z, AList.find? (w'.idxOf q) z = AList.find? (w3.idxOf q) z := by
            intro q z; simp [World.idxOf, hun'.2.2.1]
          obtain ⟨H5, f1, f2, hT4, hh4, hm4, hS34, hpay, hctr4⟩ :=
            finish_old (w5 := w') H3 hunref hun rfl rfl (fun _ => rfl) rfl (fun _ _ _ h => h) (by
              intro z hz q aq j hq hj
              rw [hidx43, F3.idx] at hj
              have hj' : AList.find? (w.idxOf q) z = some j := hj
              obtain ⟨hzs, a0, ha0⟩ := H0.idxLive q z j hj'
              have := H0.mutIdx q a0 ha0 z j hj' id
              have hpi : (Cont.map m).pays[A.length]? = some (Pay.ref z) := by
                rw [Cont.kslot_pay hks]; exact congrArg some hz
              have := (H0.unique q p _ _ j A.length z ha0 hpm this hpi hzs).1
              subst this
              rw [hpm] at ha0; cases ha0)
          have hpnot : ∀ z, rv.pay = .ref z → z ≠ p := by
            intro z hz he
            subst he
            have := H0.rank z z (holds_of_kslot hpm hks hz) (by rw [hpm]; rfl)
            omega
          have hp4 : w'.cont? p = some (.map m3) := by
            rw [f1 p (fun h => hpnot p h rfl)]; exact hcp3
          have hhand3 : HandleOk w3 p := hhand2.transfer (fun q y => (F3.sig.holds_iff q y).mp) F3.cur
          have hhand4 : HandleOk w' p :=
            hhand3.transfer (fun q y => (hS34.holds_iff q y).mp)
              (CurKept.of_sig hS34 hidx43 (fun y hiy hy _ => by rw [hh4]; exact hy))
          have hback : HandedBack w w' rv := by
            intro x c hx hc
            have hxs3 : (w3.cont? x).isSome := by rw [F3.sig.isSome, hsome2, hc]; rfl
            have hxp : x ≠ p := hpnot x hx
            have hc3' : w3.cont? x = some c := by
              have hrk' := H0.rank p x (holds_of_kslot hpm hks hx) (by rw [hc]; rfl)
              rw [F3.above x hxp (by omega), cont?_setCont_ne _ _ _ _ hxp]; exact hc
            obtain ⟨c', hc', hni, hsd⟩ := f2 x c hx hc3'
            refine ⟨c', hc', hni, hsd.vid, hsd.storedElems, ?_⟩
            intro q hq
            exact hunref x hx hxs3 q ((hS34.holds_iff q x).mp hq)
          -- all the handles
          have hEold : ∀ z, Moved none (some rv') z → rv.pay = .ref z := by
            rintro z (⟨wr, h⟩ | ⟨o, h, hz⟩)
            · cases h
            · cases h; rw [← hpay]; exact hz
          have hsome4 : ∀ z, (w'.cont? z).isSome = (w.cont? z).isSome := by
            intro z; rw [hS34.isSome, F3.sig.isSome, hsome2]
          have K12 : HKeep (Moved none (some rv')) w (w.setCont p (.map m')) := by
            refine hkeep_remove (pc' := .map m') (i := A.length) _ hpm rfl (kslots_map_erase w.T hA hB) hks
              (fun z hz => moved_old none (by rw [hpay]; exact hz)) rfl ?_ (by simp) (fun z hz => by simp [Ne.symm hz])
            intro q x
            split
            · rename_i hpq; subst hpq
              rw [idxOf_setCont, H0.map_noidx hpm x]; rfl
            · rfl
          have K23 : HKeep (Moved none (some rv')) _ w3 :=
            HKeep.of_curKept _ (fun q y => (F3.sig.holds_iff q y).mp) F3.cur
          have K34 : HKeep (Moved none (some rv')) w3 w' := HKeep.of_sig _ hS34 hidx43 hh4
          refine ⟨⟨rank0, by rw [hctr4]; exact H5⟩, by omega, ⟨m, m3, rv, hpm, hp4, hrk,
            ⟨A, B, hA, by rw [hl3]; exact hB⟩, hpay, hback⟩, hhand4,
            ((sigFrame_setCont _ _ _).trans (SigFrame.of_sig F3.sig p)).trans (SigFrame.of_sig hS34 p),
            fun z hz hrk' hzE => ⟨?_, ?_⟩, fun q y _ => ?_, fun z hzh hzs => ?_⟩
          · rw [f1 z (fun h => hzE (moved_old none (by rw [hpay]; exact h))), F3.above z hz hrk',
              cont?_setCont_ne _ _ _ _ hz]
          · rw [hh4, F3.hinfo z hz hrk']; rfl
          · rw [hidx43, F3.idx]; rfl
          · exact ((K12.trans K23).trans K34).handleOk
              (fun z hz hl => hback.handleOk (hEold z hz) hl) hzh (by rw [← hsome4]; exact hzs)
  · cases h

theorem mapRemove_ok {w : World} {p : SlabID} {k : MKey} {cx : Ctx} {rk : MKey} {rv' : Elem} {w' : World}
    {cx' : Ctx} (H : WorldOk D w cx.ctr) (hhand : HandleOk w p) (hk : KeyOk w.T 4 (D p) k)
    (h : w.mapRemove p k cx = .ok (rk, rv', w', cx')) :
    WorldOk D w' cx'.ctr ∧ cx.ctr ≤ cx'.ctr ∧ MapRemovedAt w w' p k rk rv' ∧ HandleOk w' p ∧ SigFrame w w' p := by
  obtain ⟨rank0, H0⟩ := H
  obtain ⟨h1, h2, h3, h4, h5, _⟩ := mapRemove_okA H0 hhand hk h
  exact ⟨h1, h2, h3, h4, h5⟩

end World
end Atree
