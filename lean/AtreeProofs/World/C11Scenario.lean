import AtreeProofs.Props.C10WPopOps
import AtreeProofs.World.OkScenario
/-
  Concrete runs of the model (T = 256) for the non-vacuity section of `Props/C11Slot.lean`.

  Run A (array parent): root array `R`; array `X` inserted in slot 0 and given one value through its
  handle (it is INLINED in `R`); a third array `Y`; `Array.Set R 0 Y` OVERWRITES `X` by `Y`; then
  the detached `X` is mutated through its handle (`Array.Insert X 1 …`): its stale closure fires
  (it would fit inline) and finds that its index is unknown.
  The global invariant of every state is established by chaining the operation theorems from the
  empty world, as in `World/OkScenario.lean`.
-/
namespace Atree.C11Scenario
open Atree Gen World
open Atree.Scenario (okW eq_okW okE eq_okE w0 cx0 preInsert)
open Atree.OkScenario (D D0 pl unrefB unrefB_sound freshB freshB_live not_anc_of_fresh holds_of_check)

def R : SlabID := ⟨1, 1⟩
def X : SlabID := ⟨1, 2⟩
def Y : SlabID := ⟨1, 3⟩

/-! ### Run A: array parent, child overwritten by another container -/

def c1 : SlabID × World × Ctx := w0.newArr 7 cx0
def c2 : SlabID × World × Ctx := c1.2.1.newArr 8 c1.2.2
def c3 : SlabID × World × Ctx := c2.2.1.newArr 9 c2.2.2
/-- `X` inserted into `R` -/
def c4 : World × Ctx := okW (c3.2.1.arrInsertS R 0 (.child X 0) c3.2.2)
/-- one value through the handle of `X` (inlined in `R`) -/
def c5 : World × Ctx := okW (c4.1.arrInsertS X 0 (pl 1) c4.2)
/-- `X` OVERWRITTEN by `Y` in slot 0 of `R` -/
def c6 : Elem × World × Ctx := okE (c5.1.arrSetS R 0 (.child Y 0) c5.2)
/-- the detached `X` mutated through its handle -/
def c7 : World × Ctx := okW (c6.2.1.arrInsertS X 1 (pl 2) c6.2.2)
/-- the state at the call of `notifyParent` inside that last insert -/
def mid7 : World × Ctx := preInsert c6.2.1 X 1 ⟨20, .val 2⟩ c6.2.2

theorem ids : c1.1 = R ∧ c2.1 = X ∧ c3.1 = Y := by decide

theorem okA0 : WorldOk' D w0 cx0.ctr := C10W.worldOk'_new D 256 1 0 (by decide)
theorem okA1 : WorldOk' D c1.2.1 c1.2.2.ctr := (C10W.worldOk'_newArr D w0 7 cx0 okA0).1
theorem okA2 : WorldOk' D c2.2.1 c2.2.2.ctr := (C10W.worldOk'_newArr D _ 8 _ okA1).1
theorem okA3 : WorldOk' D c3.2.1 c3.2.2.ctr := (C10W.worldOk'_newArr D _ 9 _ okA2).1

theorem runA4 : c3.2.1.arrInsert R 0 (.child X 0) c3.2.2 = .ok c4 := by
  rw [arrInsert_eq_S]; exact eq_okW _ (by decide)

theorem okA4 : WorldOk' D c4.1 c4.2.ctr ∧ HandleOk c4.1 X := by
  have hv : WValOk c3.2.1 R (maxInlineArr c3.2.1.T) (.child X 0) :=
    ⟨freshB_live (by decide), unrefB_sound (by decide), not_anc_of_fresh (by decide) (by decide), by decide⟩
  obtain ⟨h1, _, h3, _, _⟩ := C10W.worldOk'_arrInsert D _ R 0 _ _ _ _ okA3
    (HandleOk.root _ (unrefB_sound (by decide))) hv runA4
  obtain ⟨a, a', e, _, _, _, _, _, hch⟩ := h3
  exact ⟨h1, (hch X 0 rfl).2.1⟩

theorem runA5 : c4.1.arrInsert X 0 (pl 1) c4.2 = .ok c5 := by
  rw [arrInsert_eq_S]; exact eq_okW _ (by decide)

theorem okA5 : WorldOk' D c5.1 c5.2.ctr := by
  have hv : WValOk c4.1 X (maxInlineArr c4.1.T) (pl 1) := ⟨⟨by decide, 1, rfl⟩, by decide⟩
  exact (C10W.worldOk'_arrInsert D _ X 0 _ _ _ _ okA4.1 okA4.2 hv runA5).1

/-- the overwrite is a successful run of the MODEL operation -/
theorem runA6 : c5.1.arrSet R 0 (.child Y 0) c5.2 = .ok c6 := by
  rw [arrSet_eq_S]; exact eq_okE _ (by decide)

/-- the handle of the root `R` is current -/
theorem handleR5 : HandleOk c5.1 R := HandleOk.root _ (unrefB_sound (by decide))

/-- `Y` may be stored into `R`: live, unreferenced, not an ancestor of `R`, fits -/
theorem valY5 : WValOk c5.1 R (maxInlineArr c5.1.T) (.child Y 0) :=
  ⟨freshB_live (by decide), unrefB_sound (by decide), not_anc_of_fresh (by decide) (by decide), by decide⟩

theorem runA7 : c6.2.1.arrInsert X 1 (pl 2) c6.2.2 = .ok c7 := by
  rw [arrInsert_eq_S]; exact eq_okW _ (by decide)

/-! ### Run B: map parent; the child removed (B1) or overwritten by another container (B2)

Root map `P`; array `X` stored under the key `K1` and given one value through its handle (it is
INLINED in `P`).  B1: `OrderedMap.Remove P K1`, then `Array.Insert X 1 …` through the handle of the
detached `X` (its stale closure reads `K1`: key not found).  B2: `OrderedMap.Set P K1 Y` overwrites
`X` by the array `Y`, then the same mutation of `X` (its closure reads `K1`: another container). -/

/-- kernel-evaluable `mapRemove` -/
def mapRemoveS (w : World) (p : SlabID) (k : MKey) (cx : Ctx) : Except WErr (MKey × Elem × World × Ctx) :=
  match w.cont? p with
  | some (.map m) =>
    match m.remove w.mcfg k cx with
    | .error er => .error (.map er)
    | .ok (rk, rv, m', cx) => do
      let w := w.setCont p (.map m')
      let (w, cx) ← notifyS w.fuelOf w p cx
      let (rv', _, w, cx) ← w.uninlineIfNeeded rv cx
      return (rk, rv', w, cx)
  | _ => .error .unknownContainer

theorem mapRemove_eq_S : mapRemove = mapRemoveS := by
  funext w p k cx
  unfold mapRemove mapRemoveS
  simp only [notifyParent_eq_notifyS]
  rfl

def okR (r : Except WErr (MKey × Elem × World × Ctx)) : MKey × Elem × World × Ctx :=
  match r with | .ok x => x | .error _ => (default, default, w0, cx0)

theorem eq_okR (r : Except WErr (MKey × Elem × World × Ctx)) (h : r.toBool = true) : r = .ok (okR r) := by
  cases r with
  | ok x => rfl
  | error e => cases h

open Atree.OkScenario (mapSetS mapSet_eq_S okM eq_okM K1 keyOk_K1)

def P : SlabID := ⟨1, 1⟩

def d1 : SlabID × World × Ctx := w0.newMap 7 5 cx0
def d2 : SlabID × World × Ctx := d1.2.1.newArr 8 d1.2.2
def d3 : SlabID × World × Ctx := d2.2.1.newArr 9 d2.2.2
/-- `X` stored under `K1` in `P` -/
def d4 : Option Elem × World × Ctx := okM (mapSetS d3.2.1 P K1 (.child X 0) d3.2.2)
/-- one value through the handle of `X` (inlined in `P`) -/
def d5 : World × Ctx := okW (d4.2.1.arrInsertS X 0 (pl 1) d4.2.2)
/-- B1: `X` removed from `P` -/
def d6 : MKey × Elem × World × Ctx := okR (mapRemoveS d5.1 P K1 d5.2)
/-- B1: the detached `X` mutated through its handle -/
def d7 : World × Ctx := okW (d6.2.2.1.arrInsertS X 1 (pl 2) d6.2.2.2)
def midB1 : World × Ctx := preInsert d6.2.2.1 X 1 ⟨20, .val 2⟩ d6.2.2.2
/-- B2: `X` overwritten by `Y` under `K1` -/
def e6 : Option Elem × World × Ctx := okM (mapSetS d5.1 P K1 (.child Y 0) d5.2)
/-- B2: the detached `X` mutated through its handle -/
def e7 : World × Ctx := okW (e6.2.1.arrInsertS X 1 (pl 2) e6.2.2)
def midB2 : World × Ctx := preInsert e6.2.1 X 1 ⟨20, .val 2⟩ e6.2.2

deriving instance DecidableEq for Except

/-- the map a container is, or an empty one -/
def mapOf (w : World) (v : SlabID) : OMap 3 :=
  match w.cont? v with
  | some (.map m) => m
  | _ => (OMap.new 0 0 (fun _ => 0) cx0 : OMap 3 × Ctx).1

theorem idsB : d1.1 = P ∧ d2.1 = X ∧ d3.1 = Y := by decide

theorem okB1 : WorldOk' D d1.2.1 d1.2.2.ctr := (C10W.worldOk'_newMap D w0 7 5 cx0 okA0).1
theorem okB2 : WorldOk' D d2.2.1 d2.2.2.ctr := (C10W.worldOk'_newArr D _ 8 _ okB1).1
theorem okB3 : WorldOk' D d3.2.1 d3.2.2.ctr := (C10W.worldOk'_newArr D _ 9 _ okB2).1

theorem runB4 : d3.2.1.mapSet P K1 (.child X 0) d3.2.2 = .ok d4 := by
  rw [mapSet_eq_S]; exact eq_okM _ (by decide)

theorem okB4 : WorldOk' D d4.2.1 d4.2.2.ctr ∧ HandleOk d4.2.1 X := by
  have hv : WValOk d3.2.1 P (maxInlineMapValue d3.2.1.T K1.size) (.child X 0) :=
    ⟨freshB_live (by decide), unrefB_sound (by decide), not_anc_of_fresh (by decide) (by decide), by decide⟩
  obtain ⟨h1, _, h3, _, _⟩ := C10W.worldOk'_mapSet D _ P K1 _ _ _ _ _ okB3
    (HandleOk.root _ (unrefB_sound (by decide))) keyOk_K1 hv runB4
  obtain ⟨m, m', e, oldo, _, _, _, _, _, _, hch⟩ := h3
  exact ⟨h1, (hch X 0 rfl).2.1⟩

theorem runB5 : d4.2.1.arrInsert X 0 (pl 1) d4.2.2 = .ok d5 := by
  rw [arrInsert_eq_S]; exact eq_okW _ (by decide)

theorem okB5 : WorldOk' D d5.1 d5.2.ctr := by
  have hv : WValOk d4.2.1 X (maxInlineArr d4.2.1.T) (pl 1) := ⟨⟨by decide, 1, rfl⟩, by decide⟩
  exact (C10W.worldOk'_arrInsert D _ X 0 _ _ _ _ okB4.1 okB4.2 hv runB5).1

/-- the handle of the root `P` is current -/
theorem handleP5 : HandleOk d5.1 P := HandleOk.root _ (unrefB_sound (by decide))

theorem keyP5 : KeyOk d5.1.T 4 (D P) K1 := keyOk_K1

/-- B1: the removal is a successful run of the MODEL operation -/
theorem runB6 : d5.1.mapRemove P K1 d5.2 = .ok d6 := by
  rw [mapRemove_eq_S]; exact eq_okR _ (by decide)

theorem runB7 : d6.2.2.1.arrInsert X 1 (pl 2) d6.2.2.2 = .ok d7 := by
  rw [arrInsert_eq_S]; exact eq_okW _ (by decide)

/-- B2: `Y` may be stored into `P` under `K1` -/
theorem valYP5 : WValOk d5.1 P (maxInlineMapValue d5.1.T K1.size) (.child Y 0) :=
  ⟨freshB_live (by decide), unrefB_sound (by decide), not_anc_of_fresh (by decide) (by decide), by decide⟩

/-- B2: the overwrite is a successful run of the MODEL operation -/
theorem runE6 : d5.1.mapSet P K1 (.child Y 0) d5.2 = .ok e6 := by
  rw [mapSet_eq_S]; exact eq_okM _ (by decide)

theorem runE7 : e6.2.1.arrInsert X 1 (pl 2) e6.2.2 = .ok e7 := by
  rw [arrInsert_eq_S]; exact eq_okW _ (by decide)

/-! ### Run A continued: other mutations through the handle of the detached `X` (from `c6`) -/

/-- the value of `X` removed through its handle -/
def c8 : Elem × World × Ctx := okE (c6.2.1.arrRemoveS X 0 c6.2.2)
/-- the value of `X` overwritten through its handle -/
def c9 : Elem × World × Ctx := okE (c6.2.1.arrSetS X 0 (pl 9) c6.2.2)
/-- the type of `X` set through its handle -/
def c10 : World × Ctx := okW (c6.2.1.setType X 5 c6.2.2)

theorem runA8 : c6.2.1.arrRemove X 0 c6.2.2 = .ok c8 := by
  rw [arrRemove_eq_S]; exact eq_okE _ (by decide)
theorem runA9 : c6.2.1.arrSet X 0 (pl 9) c6.2.2 = .ok c9 := by
  rw [arrSet_eq_S]; exact eq_okE _ (by decide)
theorem runA10 : c6.2.1.setType X 5 c6.2.2 = .ok c10 := eq_okW _ (by decide)

/-- the detached `X` ATTACHED TO ANOTHER PARENT: inserted into `Y` (itself inlined in `R`) -/
def c11 : World × Ctx := okW (c6.2.1.arrInsertS Y 0 (.child X 0) c6.2.2)

theorem runA11 : c6.2.1.arrInsert Y 0 (.child X 0) c6.2.2 = .ok c11 := by
  rw [arrInsert_eq_S]; exact eq_okW _ (by decide)

/-- `X` holds plain values only: it is nobody's ancestor but its own -/
theorem not_anc_X_Y : ¬ Anc c6.2.1 X Y := Atree.OkScenario.not_anc_of_plain (by decide) (by decide)

/-! ### Run C: a detached MAP root

Root array `R`; map `M` inserted in slot 0 and given one entry through its handle (INLINED in `R`);
`Array.Remove R 0` detaches `M` (its closure keeps naming `R`).  Then, through the handle of the
detached `M`: `OrderedMap.Set M K1 …` (overwrite of the plain value) or `OrderedMap.Remove M K1`. -/

def M : SlabID := ⟨1, 2⟩

def g1 : SlabID × World × Ctx := w0.newArr 7 cx0
def g2 : SlabID × World × Ctx := g1.2.1.newMap 8 5 g1.2.2
def g3 : World × Ctx := okW (g2.2.1.arrInsertS R 0 (.child M 0) g2.2.2)
def g4 : Option Elem × World × Ctx := okM (mapSetS g3.1 M K1 (pl 1) g3.2)
/-- `M` removed from `R` -/
def g5 : Elem × World × Ctx := okE (g4.2.1.arrRemoveS R 0 g4.2.2)
/-- through the handle of the detached `M` -/
def g6 : Option Elem × World × Ctx := okM (mapSetS g5.2.1 M K1 (pl 2) g5.2.2)
def g7 : MKey × Elem × World × Ctx := okR (mapRemoveS g5.2.1 M K1 g5.2.2)

theorem idsC : g1.1 = R ∧ g2.1 = M := by decide

theorem okC1 : WorldOk' D g1.2.1 g1.2.2.ctr := (C10W.worldOk'_newArr D w0 7 cx0 okA0).1
theorem okC2 : WorldOk' D g2.2.1 g2.2.2.ctr := (C10W.worldOk'_newMap D _ 8 5 _ okC1).1

theorem runC3 : g2.2.1.arrInsert R 0 (.child M 0) g2.2.2 = .ok g3 := by
  rw [arrInsert_eq_S]; exact eq_okW _ (by decide)

theorem okC3 : WorldOk' D g3.1 g3.2.ctr ∧ HandleOk g3.1 M := by
  have hv : WValOk g2.2.1 R (maxInlineArr g2.2.1.T) (.child M 0) :=
    ⟨freshB_live (by decide), unrefB_sound (by decide), not_anc_of_fresh (by decide) (by decide), by decide⟩
  obtain ⟨h1, _, h3, _, _⟩ := C10W.worldOk'_arrInsert D _ R 0 _ _ _ _ okC2
    (HandleOk.root _ (unrefB_sound (by decide))) hv runC3
  obtain ⟨a, a', e, _, _, _, _, _, hch⟩ := h3
  exact ⟨h1, (hch M 0 rfl).2.1⟩

theorem runC4 : g3.1.mapSet M K1 (pl 1) g3.2 = .ok g4 := by
  rw [mapSet_eq_S]; exact eq_okM _ (by decide)

theorem okC4 : WorldOk' D g4.2.1 g4.2.2.ctr := by
  have hv : WValOk g3.1 M (maxInlineMapValue g3.1.T K1.size) (pl 1) := ⟨⟨by decide, 1, rfl⟩, by decide⟩
  exact (C10W.worldOk'_mapSet D _ M K1 _ _ _ _ _ okC3.1 okC3.2 keyOk_K1 hv runC4).1

theorem runC5 : g4.2.1.arrRemove R 0 g4.2.2 = .ok g5 := by
  rw [arrRemove_eq_S]; exact eq_okE _ (by decide)

theorem handleR4 : HandleOk g4.2.1 R := HandleOk.root _ (unrefB_sound (by decide))

theorem runC6 : g5.2.1.mapSet M K1 (pl 2) g5.2.2 = .ok g6 := by
  rw [mapSet_eq_S]; exact eq_okM _ (by decide)
theorem runC7 : g5.2.1.mapRemove M K1 g5.2.2 = .ok g7 := by
  rw [mapRemove_eq_S]; exact eq_okR _ (by decide)

end Atree.C11Scenario
