import AtreeProofs.Props.C10WPopOps
import AtreeProofs.World.OkScenario
/-
  Concrete runs of the model (T = 256) for the non-vacuity section of `Props/C11Slot.lean`.

  Run A (array parent): root array `R`; array `X` inserted in slot 0 and given one value through its
  handle (it is INLINED in `R`); a third array `Y`; `Array.Set R 0 Y` OVERWRITES `X` by `Y`; then
  the detached `X` is mutated through its handle (`Array.Insert X 1 …`): its stale closure fires
  (it would fit inline) and finds that its index is unknown.
  The global invariant of every state is established by chaining the operation theorems from the
  empty world, as in `World/OkScenario.lean`.
-/
namespace Atree.C11Scenario
open Atree Gen World
open Atree.Scenario (okW eq_okW okE eq_okE w0 cx0 preInsert)
open Atree.OkScenario (D D0 pl unrefB unrefB_sound freshB freshB_live not_anc_of_fresh holds_of_check)

def R : SlabID := ⟨1, 1⟩
def X : SlabID := ⟨1, 2⟩
def Y : SlabID := ⟨1, 3⟩

/-! ### Run A: array parent, child overwritten by another container -/

def c1 : SlabID × World × Ctx := w0.newArr 7 cx0
def c2 : SlabID × World × Ctx := c1.2.1.newArr 8 c1.2.2
def c3 : SlabID × World × Ctx := c2.2.1.newArr 9 c2.2.2
/-- `X` inserted into `R` -/
def c4 : World × Ctx := okW (c3.2.1.arrInsertS R 0 (.child X 0) c3.2.2)
/-- one value through the handle of `X` (inlined in `R`) -/
def c5 : World × Ctx := okW (c4.1.arrInsertS X 0 (pl 1) c4.2)
/-- `X` OVERWRITTEN by `Y` in slot 0 of `R` -/
def c6 : Elem × World × Ctx := okE (c5.1.arrSetS R 0 (.child Y 0) c5.2)
/-- the detached `X` mutated through its handle -/
def c7 : World × Ctx := okW (c6.2.1.arrInsertS X 1 (pl 2) c6.2.2)
/-- the state at the call of `notifyParent` inside that last insert -/
def mid7 : World × Ctx := preInsert c6.2.1 X 1 ⟨20, .val 2⟩ c6.2.2

theorem ids : c1.1 = R ∧ c2.1 = X ∧ c3.1 = Y := by decide

theorem okA0 : WorldOk' D w0 cx0.ctr := C10W.worldOk'_new D 256 1 0 (by decide)
theorem okA1 : WorldOk' D c1.2.1 c1.2.2.ctr := (C10W.worldOk'_newArr D w0 7 cx0 okA0).1
theorem okA2 : WorldOk' D c2.2.1 c2.2.2.ctr := (C10W.worldOk'_newArr D _ 8 _ okA1).1
theorem okA3 : WorldOk' D c3.2.1 c3.2.2.ctr := (C10W.worldOk'_newArr D _ 9 _ okA2).1

theorem runA4 : c3.2.1.arrInsert R 0 (.child X 0) c3.2.2 = .ok c4 := by
  rw [arrInsert_eq_S]; exact eq_okW _ (by decide)

theorem okA4 : WorldOk' D c4.1 c4.2.ctr ∧ HandleOk c4.1 X := by
  have hv : WValOk c3.2.1 R (maxInlineArr c3.2.1.T) (.child X 0) :=
    ⟨freshB_live (by decide), unrefB_sound (by decide), not_anc_of_fresh (by decide) (by decide), by decide⟩
  obtain ⟨h1, _, h3, _, _⟩ := C10W.worldOk'_arrInsert D _ R 0 _ _ _ _ okA3
    (HandleOk.root _ (unrefB_sound (by decide))) hv runA4
  obtain ⟨a, a', e, _, _, _, _, _, hch⟩ := h3
  exact ⟨h1, (hch X 0 rfl).2.1⟩

theorem runA5 : c4.1.arrInsert X 0 (pl 1) c4.2 = .ok c5 := by
  rw [arrInsert_eq_S]; exact eq_okW _ (by decide)

theorem okA5 : WorldOk' D c5.1 c5.2.ctr := by
  have hv : WValOk c4.1 X (maxInlineArr c4.1.T) (pl 1) := ⟨⟨by decide, 1, rfl⟩, by decide⟩
  exact (C10W.worldOk'_arrInsert D _ X 0 _ _ _ _ okA4.1 okA4.2 hv runA5).1

/-- the overwrite is a successful run of the MODEL operation -/
theorem runA6 : c5.1.arrSet R 0 (.child Y 0) c5.2 = .ok c6 := by
  rw [arrSet_eq_S]; exact eq_okE _ (by decide)

/-- the handle of the root `R` is current -/
theorem handleR5 : HandleOk c5.1 R := HandleOk.root _ (unrefB_sound (by decide))

/-- `Y` may be stored into `R`: live, unreferenced, not an ancestor of `R`, fits -/
theorem valY5 : WValOk c5.1 R (maxInlineArr c5.1.T) (.child Y 0) :=
  ⟨freshB_live (by decide), unrefB_sound (by decide), not_anc_of_fresh (by decide) (by decide), by decide⟩

theorem runA7 : c6.2.1.arrInsert X 1 (pl 2) c6.2.2 = .ok c7 := by
  rw [arrInsert_eq_S]; exact eq_okW _ (by decide)

end Atree.C11Scenario
