import AtreeProofs.Props.C10Hist
import AtreeProofs.Props.C11W
import AtreeProofs.World.OkScenario
/-
  NON-VACUITY of the history theorems (`Props/C10Hist.lean`): the run of `World/OkScenario.lean`
  (T = 256; root array `R`; map `M` inlined in `R`; array `A` wrapped and inlined in `M`; array `B`
  growing to a standalone slab inside `R`), continued by the removal of `M` from `R` and a mutation
  through the handle of `A` (now nested in the DETACHED `M`), is a `World.Run`: at every step the
  client uses a handle it obtained earlier (`R`, `M`, `A`, `R` again, `B`, `R`, `A`), the only side
  conditions being `WValOk` / `KeyOk` (decidable checks) — NO `HandleOk` is established by hand.
-/
namespace Atree.HistScenario
open Atree Gen World
open Atree.Scenario (okW eq_okW okE eq_okE w0 cx0)
open Atree.OkScenario

def h0 : HState := HState.init 256 1 cx0
def h1 : HState := ⟨t1.2.1, t1.2.2, fun z => h0.hs z ∨ z = t1.1⟩
def h2 : HState := ⟨t2.2.1, t2.2.2, fun z => h1.hs z ∨ z = t2.1⟩
def h3 : HState := ⟨t3.2.1, t3.2.2, fun z => h2.hs z ∨ z = t3.1⟩
def h4 : HState := ⟨t4.2.1, t4.2.2, fun z => h3.hs z ∨ z = t4.1⟩
def h5 : HState := ⟨t5.1, t5.2, h4.hs⟩
def h6 : HState := ⟨t6.2.1, t6.2.2, fun z => h5.hs z ∨ ∃ o, t6.1 = some o ∧ refOf h5.w o z⟩
def h7 : HState := ⟨t7.1, t7.2, h6.hs⟩
def h8 : HState := ⟨t8.1, t8.2, h7.hs⟩
def h9 : HState := ⟨t9.1, t9.2, h8.hs⟩
def h10 : HState := ⟨t10.1, t10.2, h9.hs⟩
def h11 : HState := ⟨t11.1, t11.2, h10.hs⟩
def h12 : HState := ⟨t12.1, t12.2, h11.hs⟩
def h13 : HState := ⟨t13.1, t13.2, h12.hs⟩
def h14 : HState := ⟨t14.1, t14.2, h13.hs⟩
/-- `M` removed from `R` (handed back: a detached root holding `A`) -/
def t15 : Elem × World × Ctx := okE (t14.1.arrRemoveS R 0 t14.2)
def h15 : HState := ⟨t15.2.1, t15.2.2, fun z => h14.hs z ∨ refOf h14.w t15.1 z⟩
/-- a value inserted through `A`, nested in the detached `M` -/
def t16 : World × Ctx := okW (t15.2.1.arrInsertS A 1 (pl 8) t15.2.2)
def h16 : HState := ⟨t16.1, t16.2, h15.hs⟩

theorem hsR : h4.hs R := Or.inl (Or.inl (Or.inl (Or.inr (by decide))))
theorem hsM : h4.hs M := Or.inl (Or.inl (Or.inr (by decide)))
theorem hsA : h4.hs A := Or.inl (Or.inr (by decide))
theorem hsB : h4.hs B := Or.inr (by decide)

theorem run15 : t14.1.arrRemove R 0 t14.2 = .ok t15 := by
  rw [arrRemove_eq_S]; exact eq_okE _ (by decide)
theorem run16 : t15.2.1.arrInsert A 1 (pl 8) t15.2.2 = .ok t16 := by
  rw [arrInsert_eq_S]; exact eq_okW _ (by decide)

theorem plOkAt (w : World) (p : SlabID) (hT : w.T = 256) (n : Nat) : WValOk w p (maxInlineArr w.T) (pl n) := by
  rw [hT]; exact ⟨⟨(by decide : 1 ≤ 20), n, rfl⟩, (by decide : 20 ≤ maxInlineArr 256)⟩

def trace14 : List (WOp × WObs) :=
  [(.newArr 7, .id t1.1), (.newMap 8 5, .id t2.1), (.newArr 9, .id t3.1), (.newArr 10, .id t4.1),
   (.arrInsert R 0 (.child M 0), .unit), (.mapSet M K1 (.child A 1), .opay (t6.1.map (·.pay))),
   (.arrInsert A 0 (pl 1), .unit), (.arrInsert R 1 (.child B 0), .unit),
   (.arrInsert B 0 (pl 2), .unit), (.arrInsert B 1 (pl 3), .unit), (.arrInsert B 2 (pl 4), .unit),
   (.arrInsert B 3 (pl 5), .unit), (.arrInsert B 4 (pl 6), .unit), (.arrInsert B 5 (pl 7), .unit)]

def trace : List (WOp × WObs) :=
  trace14 ++ [(.arrRemove R 0, .pay t15.1.pay), (.arrInsert A 1 (pl 8), .unit)]

/-- the run of `OkScenario` is a history in the sense of `World.Run` -/
theorem scenario_run14 : Run OkScenario.D h0 trace14 h14 := by
  have hv5 : WValOk t4.2.1 R (maxInlineArr t4.2.1.T) (.child M 0) :=
    ⟨freshB_live (by decide), unrefB_sound (by decide), not_anc_of_fresh (by decide) (by decide), by decide⟩
  have hv6 : WValOk t5.1 M (maxInlineMapValue t5.1.T K1.size) (.child A 1) :=
    ⟨freshB_live (by decide), unrefB_sound (by decide), not_anc_of_fresh (by decide) (by decide), by decide⟩
  have hv8 : WValOk t7.1 R (maxInlineArr t7.1.T) (.child B 0) :=
    ⟨freshB_live (by decide), unrefB_sound (by decide), not_anc_of_fresh (by decide) (by decide), by decide⟩
  refine Run.cons (Step.newArr h0 7) (Run.cons (Step.newMap h1 8 5) (Run.cons (Step.newArr h2 9)
    (Run.cons (Step.newArr h3 10) (Run.cons (Step.arrInsert h4 R 0 _ t5.1 t5.2 hsR hv5 run5)
    (Run.cons (Step.mapSet h5 M K1 _ t6.1 t6.2.1 t6.2.2 hsM keyOk_K1 hv6 run6)
    (Run.cons (Step.arrInsert h6 A 0 _ t7.1 t7.2 (Or.inl hsA) (plOkAt _ _ (by decide) 1) run7)
    (Run.cons (Step.arrInsert h7 R 1 _ t8.1 t8.2 (Or.inl hsR) hv8 run8)
    (Run.cons (Step.arrInsert h8 B 0 _ t9.1 t9.2 (Or.inl hsB) (plOkAt _ _ (by decide) 2) run9)
    (Run.cons (Step.arrInsert h9 B 1 _ t10.1 t10.2 (Or.inl hsB) (plOkAt _ _ (by decide) 3) run10)
    (Run.cons (Step.arrInsert h10 B 2 _ t11.1 t11.2 (Or.inl hsB) (plOkAt _ _ (by decide) 4) run11)
    (Run.cons (Step.arrInsert h11 B 3 _ t12.1 t12.2 (Or.inl hsB) (plOkAt _ _ (by decide) 5) run12)
    (Run.cons (Step.arrInsert h12 B 4 _ t13.1 t13.2 (Or.inl hsB) (plOkAt _ _ (by decide) 6) run13)
    (Run.cons (Step.arrInsert h13 B 5 _ t14.1 t14.2 (Or.inl hsB) (plOkAt _ _ (by decide) 7) run14)
    (Run.nil _))))))))))))))

/-- … and so is its continuation: `M` removed from `R`, then a value inserted through `A` -/
theorem scenario_run : Run OkScenario.D h0 trace h16 :=
  scenario_run14.append
    (Run.cons (Step.arrRemove h14 R 0 t15.1 t15.2.1 t15.2.2 (Or.inl hsR) run15)
    (Run.cons (Step.arrInsert h15 A 1 _ t16.1 t16.2 (Or.inl (Or.inl hsA)) (plOkAt _ _ (by decide) 8) run16)
    (Run.nil _)))

/-- what the final world looks like: `R` holds `B` only; the detached `M` still holds `A`, which holds
    the two values inserted through its handle — the second one AFTER `M` was detached -/
theorem final_shape :
    (t16.1.cont? R).map Cont.pays = some [.ref B] ∧ (t16.1.cont? M).map Cont.pays = some [.ref A] ∧
    (t16.1.cont? A).map Cont.pays = some [.val 1, .val 8] ∧ (t16.1.cont? M).map Cont.isInlined = some false ∧
    t15.1.pay = .ref M := by decide

/-- the history theorem applies: the final world satisfies the invariant and the handles of `R`, `M`,
    `A`, `B` — all obtained at creation, used in an interleaved way — are current -/
theorem scenario_history :
    WorldOk' OkScenario.D t16.1 t16.2.ctr ∧ HandleOk t16.1 R ∧ HandleOk t16.1 M ∧ HandleOk t16.1 A ∧
      HandleOk t16.1 B := by
  obtain ⟨H, hh⟩ := C10Hist.history_invariant OkScenario.D 256 1 cx0 (by decide) trace h16 scenario_run
  exact ⟨H, (hh R (Or.inl (Or.inl hsR))).1, (hh M (Or.inl (Or.inl hsM))).1, (hh A (Or.inl (Or.inl hsA))).1,
    (hh B (Or.inl (Or.inl hsB))).1⟩

/-- … and it refines the specification on the table of signatures -/
theorem scenario_refines : SpecRun (fun _ => none) trace (absTab t16.1) :=
  C10Hist.history_refines OkScenario.D 256 1 cx0 (by decide) trace h16 scenario_run

/-! ### C11: the detached `M` and its former parent `R` (non-vacuity of `Props/C11W.lean`) -/

theorem scenario_history14 : WorldOk' OkScenario.D t14.1 t14.2.ctr ∧ HandleOk t14.1 R := by
  obtain ⟨H, hh⟩ := C10Hist.history_invariant OkScenario.D 256 1 cx0 (by decide) trace14 h14 scenario_run14
  exact ⟨H, (hh R (Or.inl hsR)).1⟩

/-- `C11.detached_by_arrRemove` applies to the removal of `M` from `R` … -/
theorem scenario_detached :
    WorldOk' OkScenario.D t15.2.1 t15.2.2.ctr ∧ DetachedRoot t15.2.1 M ∧ HandleOk t15.2.1 M ∧
      ¬ Anc t15.2.1 M R :=
  C11.detached_by_arrRemove OkScenario.D t14.1 R 0 t14.2 t15.1 t15.2.1 t15.2.2 M scenario_history14.1
    scenario_history14.2 run15 (by decide) (by decide)

/-- … and `C11.detached_arrInsert` to the insertion through the handle of `A`, which is nested in the
    detached `M`: the former parent `R` is untouched (same table entry: content, sizes, form), `M` is
    still a detached root, the invariant holds. -/
theorem scenario_former_parent_untouched :
    WorldOk' OkScenario.D t16.1 t16.2.ctr ∧ DetachedRoot t16.1 M ∧ t16.1.cont? R = t15.2.1.cont? R := by
  obtain ⟨H15, hd, _, hnb⟩ := scenario_detached
  have hA : HandleOk t15.2.1 A :=
    ((C10Hist.history_invariant OkScenario.D 256 1 cx0 (by decide) _ h15
      (scenario_run14.append (Run.cons (Step.arrRemove h14 R 0 t15.1 t15.2.1 t15.2.2 (Or.inl hsR) run15)
        (Run.nil _)))).2 A (Or.inl (Or.inl hsA))).1
  have hMA : Anc t15.2.1 M A := Anc.step Anc.refl (holds_of_check (by decide))
  obtain ⟨g1, _, _, g4, g5⟩ := C11.detached_arrInsert OkScenario.D t15.2.1 M A 1 (pl 8) t15.2.2 t16.1 t16.2 H15 hd
    hMA hA (plOkAt _ _ (by decide) 8) run16
  exact ⟨g1, g4, g5 R hnb not_moved_plain⟩

end Atree.HistScenario
