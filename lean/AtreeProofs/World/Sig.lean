import AtreeProofs.World.ContOk
/-
  The reference structure of a World (who refers to whom, at which slot) only depends on the
  SIGNATURE of every container (kind, keys, payloads): `ContsSig`.  Transfer of the invariants that
  only talk about the reference structure.
-/
namespace Atree
open Gen

namespace Cont

theorem pays_eq_sig (c : Cont) : c.pays = c.sig.2.map (·.2) := by
  cases c <;> simp [pays, sig, storedElems, List.map_map, Function.comp_def]

theorem slots_map_snd (T : Nat) (c : Cont) : (c.slots T).map (·.2) = c.storedElems := by
  cases c <;> simp [slots, storedElems, List.map_map, Function.comp_def]

theorem pays_eq_slots (T : Nat) (c : Cont) : c.pays = (c.slots T).map (·.2.pay) := by
  rw [pays, ← slots_map_snd T, List.map_map]; rfl

theorem slots_length (T : Nat) (c : Cont) : (c.slots T).length = c.storedElems.length := by
  rw [← slots_map_snd T]; simp

theorem SameData.sig_eq {c c' : Cont} (h : SameData c c') : c'.sig = c.sig := by
  cases c <;> cases c' <;> simp only [SameData] at h
  · simp [sig, h.1]
  · simp [sig, h.1]

theorem SameData.slots_eq (T : Nat) {c c' : Cont} (h : SameData c c') : c'.slots T = c.slots T := by
  cases c <;> cases c' <;> simp only [SameData] at h
  · simp [slots, h.1]
  · simp [slots, h.1]

theorem SameData.pays_eq {c c' : Cont} (h : SameData c c') : c'.pays = c.pays := by
  rw [pays_eq_sig, pays_eq_sig, h.sig_eq]

/-- a slot of the container and its payload in `pays` -/
theorem slot_pay {T : Nat} {c : Cont} {j : Nat} {le : Nat × Elem} (h : (c.slots T)[j]? = some le) :
    c.pays[j]? = some le.2.pay := by
  rw [pays_eq_slots T, List.getElem?_map, h]; rfl

theorem pay_slot {T : Nat} {c : Cont} {j : Nat} {py : Pay} (h : c.pays[j]? = some py) :
    ∃ le, (c.slots T)[j]? = some le ∧ le.2.pay = py := by
  rw [pays_eq_slots T, List.getElem?_map] at h
  cases hs : (c.slots T)[j]? with
  | none => rw [hs] at h; cases h
  | some le => rw [hs] at h; exact ⟨le, rfl, by simpa using h⟩

theorem sig_pays {c c' : Cont} (h : c'.sig = c.sig) : c'.pays = c.pays := by
  rw [pays_eq_sig, pays_eq_sig, h]

theorem sig_kind_arr {a : Arr} {c' : Cont} (h : c'.sig = (Cont.arr a).sig) : ∃ a', c' = .arr a' := by
  cases c' with
  | arr a' => exact ⟨a', rfl⟩
  | map m => simp [sig] at h

theorem sig_kind_map {m : OMap 3} {c' : Cont} (h : c'.sig = (Cont.map m).sig) : ∃ m', c' = .map m' := by
  cases c' with
  | arr a' => simp [sig] at h
  | map m' => exact ⟨m', rfl⟩

end Cont

namespace World

/-- same threshold and same signature of every container -/
structure ContsSig (w w' : World) : Prop where
  T : w'.T = w.T
  sig : ∀ q, (w'.cont? q).map Cont.sig = (w.cont? q).map Cont.sig

theorem ContsSig.refl (w : World) : ContsSig w w := ⟨rfl, fun _ => rfl⟩

theorem ContsSig.symm {w w' : World} (h : ContsSig w w') : ContsSig w' w :=
  ⟨h.T.symm, fun q => (h.sig q).symm⟩

theorem ContsSig.trans {w1 w2 w3 : World} (h12 : ContsSig w1 w2) (h23 : ContsSig w2 w3) : ContsSig w1 w3 :=
  ⟨h23.T.trans h12.T, fun q => (h23.sig q).trans (h12.sig q)⟩

theorem ContsSig.get {w w' : World} (h : ContsSig w w') {q : SlabID} {c : Cont} (hc : w.cont? q = some c) :
    ∃ c', w'.cont? q = some c' ∧ c'.sig = c.sig := by
  have := h.sig q
  rw [hc] at this
  cases hc' : w'.cont? q with
  | none => rw [hc'] at this; cases this
  | some c' => rw [hc'] at this; exact ⟨c', rfl, by simpa using this⟩

theorem ContsSig.isSome {w w' : World} (h : ContsSig w w') (q : SlabID) :
    (w'.cont? q).isSome = (w.cont? q).isSome := by
  have := h.sig q
  cases h1 : w.cont? q <;> cases h2 : w'.cont? q <;> simp_all

theorem ContsSig.holds {w w' : World} (h : ContsSig w w') {p x : SlabID} (hh : Holds w p x) : Holds w' p x := by
  obtain ⟨pc, hpc, hm⟩ := hh
  obtain ⟨pc', hpc', hs⟩ := h.get hpc
  exact ⟨pc', hpc', by rw [Cont.sig_pays hs]; exact hm⟩

theorem ContsSig.holds_iff {w w' : World} (h : ContsSig w w') (p x : SlabID) : Holds w' p x ↔ Holds w p x :=
  ⟨h.symm.holds, h.holds⟩

theorem ContsSig.uniqueRef {w w' : World} (h : ContsSig w w') (hu : UniqueRef w) : UniqueRef w' := by
  intro p p' pc pc' i j x hp hp' hi hj hx
  obtain ⟨qc, hq, hs⟩ := h.symm.get hp
  obtain ⟨qc', hq', hs'⟩ := h.symm.get hp'
  refine hu p p' qc qc' i j x hq hq' ?_ ?_ ?_
  · rw [Cont.sig_pays hs]; exact hi
  · rw [Cont.sig_pays hs']; exact hj
  · rw [← h.isSome]; exact hx

theorem ContsSig.cRank {w w' : World} (h : ContsSig w w') {rank : SlabID → Nat} (hr : CRank rank w) :
    CRank rank w' := by
  intro p x hh hx
  exact hr p x (h.symm.holds hh) (by rw [← h.isSome]; exact hx)

theorem ContsSig.refsBelow {w w' : World} (h : ContsSig w w') {ctr ctr' : Nat} (hb : RefsBelow w ctr)
    (hc : ctr ≤ ctr') : RefsBelow w' ctr' := by
  intro p pc hp r hr
  obtain ⟨qc, hq, hs⟩ := h.symm.get hp
  exact Nat.le_trans (hb p qc hq r (by rw [Cont.sig_pays hs]; exact hr)) hc

/-- `MutIdxOkX` only depends on the signatures and on the lookups in the index tables -/
theorem ContsSig.mutIdxOkX {w w' : World} (h : ContsSig w w') {O : SlabID → Prop} (hm : MutIdxOkX w O)
    (hidx : ∀ p x, AList.find? (w'.idxOf p) x = AList.find? (w.idxOf p) x) : MutIdxOkX w' O := by
  intro p a hp x i hi hO
  obtain ⟨qc, hq, hs⟩ := h.symm.get hp
  obtain ⟨a0, rfl⟩ := Cont.sig_kind_arr hs
  rw [hidx] at hi
  have := hm p a0 hq x i hi hO
  rw [← Cont.sig_pays hs]; exact this

/-- `ClosureOk` only depends on the kind of the containers and on the closures -/
theorem ContsSig.closureOk {w w' : World} (h : ContsSig w w') {D : SlabID → DigestFn 4} (hc : ClosureOk D w)
    (hh : ∀ x hi, AList.find? w'.hinfo x = some hi → AList.find? w.hinfo x = some hi) : ClosureOk D w' := by
  intro x hi hx
  obtain ⟨c1, c2⟩ := hc x hi (hh x hi hx)
  refine ⟨?_, ?_⟩
  · intro pa hpa
    obtain ⟨qc, hq, hs⟩ := h.symm.get hpa
    obtain ⟨a0, rfl⟩ := Cont.sig_kind_arr hs
    rw [h.T]; exact c1 a0 hq
  · intro pm k hpm hk
    obtain ⟨qc, hq, hs⟩ := h.symm.get hpm
    obtain ⟨m0, rfl⟩ := Cont.sig_kind_map hs
    rw [h.T]; exact c2 m0 k hq hk

theorem ContsSig.idxLive {w w' : World} (h : ContsSig w w') (hl : IdxLive w)
    (hidx : ∀ p x (i : Nat), AList.find? (w'.idxOf p) x = some i → AList.find? (w.idxOf p) x = some i) :
    IdxLive w' := by
  intro p x i hi
  obtain ⟨h1, a, ha⟩ := hl p x i (hidx p x i hi)
  obtain ⟨c', hc', hs⟩ := h.get ha
  obtain ⟨a', rfl⟩ := Cont.sig_kind_arr hs
  exact ⟨by rw [h.isSome]; exact h1, a', hc'⟩

theorem ContsSig.hinfoLive {w w' : World} (h : ContsSig w w') (hl : HinfoLive w)
    (hh : ∀ x hi, AList.find? w'.hinfo x = some hi → AList.find? w.hinfo x = some hi) : HinfoLive w' := by
  intro x hi hx
  rw [h.isSome]; exact hl x hi (hh x hi hx)

/-! ### `Anc` and ranks -/

theorem CRank.lt_of_anc {w : World} {rank : SlabID → Nat} (hr : CRank rank w) {a z : SlabID}
    (h : Anc w a z) (hz : (w.cont? z).isSome) (hne : a ≠ z) : rank a < rank z := by
  induction h with
  | refl => exact absurd rfl hne
  | @step p z hap hpz ih =>
    have h1 := hr p z hpz hz
    by_cases hap' : a = p
    · subst hap'; exact h1
    · obtain ⟨pc, hpc, _⟩ := hpz
      have := ih (by rw [hpc]; rfl) hap'
      omega

end World
end Atree
