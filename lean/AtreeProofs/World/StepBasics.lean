import AtreeProofs.World.Slots
/-
  Small facts used by the step lemmas: arithmetic of the inline limits, `slotSize`, `inlinable`
  across the inline / un-inline transitions, uniqueness of the slot that refers to a container.
-/
namespace Atree
open Gen

theorem list_set_self {α : Type} (l : List α) (i : Nat) (a : α) (h : l[i]? = some a) : l.set i a = l := by
  apply List.ext_getElem?
  intro n
  rw [List.getElem?_set]
  split
  · rename_i hin; subst hin
    obtain ⟨h1, h2⟩ := List.getElem?_eq_some_iff.mp h
    simp [h1, h2]
  · rfl

/-! ### arithmetic -/

theorem maxInlineMapValue_le_arr (T ks : Nat) : maxInlineMapValue T ks ≤ maxInlineArr T := by
  simp only [maxInlineMapValue, maxInlineMapElem, maxInlineArr, mapDataSlabPrefixSize, hkeyElementsPrefixSize,
    minElementCountInSlab, digestSize, singleElementPrefixSize, arrayDataSlabPrefixSize]
  omega

/-- two elements within the inline limit stay below the slab threshold -/
theorem two_inline_le (T : Nat) (hT : legalThreshold T = true) : 2 * maxInlineArr T ≤ T ∧ T ≤ maxThr T := by
  have F := thrFacts hT
  rw [F.inlE, F.maxE]
  have := F.lo
  omega

theorem inline_plus_entry_le (T : Nat) (hT : legalThreshold T = true) :
    maxInlineArr T + maxEntry T ≤ T := by
  have F := thrFacts hT
  have := F.lo
  rw [F.inlE]
  simp only [maxEntry, maxInlineMapElem, mapDataSlabPrefixSize, hkeyElementsPrefixSize,
    minElementCountInSlab, digestSize]
  omega

namespace World

theorem slotSize_inj {c : Cont} {w1 w2 : Nat} (h : slotSize c w1 = slotSize c w2) : w1 = w2 := by
  simp only [slotSize] at h; omega

theorem slotSize_standalone {c : Cont} (h : c.isInlined = false) (wrap : Nat) :
    slotSize c wrap = slabIDStorableSize + 2 * wrap := by
  simp [slotSize, h]

theorem slotSize_inl {c : Cont} (h : c.isInlined = true) (wrap : Nat) :
    slotSize c wrap = c.rootSize + 2 * wrap := by
  simp [slotSize, h]

end World

/-! ### `inlinable` does not depend on the form of the root -/

namespace Cont

theorem rootSize_pos_of_inl {T : Nat} {D : DigestFn 4} {ctr : Nat} {c : Cont} (h : ContOk T D ctr c)
    (hi : c.isInlined = true) : 14 ≤ c.rootSize := by
  cases c with
  | arr a =>
    obtain ⟨s, ty, rfl, _, _, _, _, h5, _⟩ := (h : ArrOk T a ctr).2 hi
    show 14 ≤ s.hdr.size
    rw [h5]; simp only [inlinedArrayDataSlabPrefixSize]; omega
  | map m =>
    obtain ⟨s, ty, cnt, seed, rfl, _, _, _, _, h5, _⟩ := (h : MapOk T D m ctr).2 hi
    show 14 ≤ s.hdr.size
    rw [h5]; simp only [inlinedMapDataSlabPrefixSize]; omega

/-- after `Inline`, the inlined size is the one `Inlinable` tested -/
theorem inline_inlinable {c c' : Cont} {id : SlabID} {cx cx' : Ctx} (h : c.inline id cx = .ok (c', cx'))
    (lim : Nat) : c'.inlinable lim = c.inlinable lim ∧ (c.inlinable lim = true → c'.rootSize ≤ lim) := by
  unfold Cont.inline at h
  split at h
  · rename_i s ty
    split at h
    · cases h
    · rename_i hs
      cases h
      have hs' : s.inlined = false := by simpa using hs
      simp only [inlinable, rootSize, Arr.rootHdr, ATree.hdr, hs', Bool.false_eq_true, if_false, if_true]
      refine ⟨trivial, ?_⟩
      intro hh
      simp only [Bool.and_eq_true, decide_eq_true_eq] at hh
      exact hh.2
  · rename_i s ty cnt seed
    split at h
    · cases h
    · cases h
      simp only [inlinable, rootSize, OMap.rootHdr, MTree.hdr]
      refine ⟨trivial, ?_⟩
      intro hh
      simp only [Bool.and_eq_true, decide_eq_true_eq] at hh
      exact hh.2
  · cases h

/-- `Uninline` does not change what `Inlinable` answers (for a valid inlined root) -/
theorem uninline_inlinable {T : Nat} {D : DigestFn 4} {ctr : Nat} {c c' : Cont} {id : SlabID} {cx cx' : Ctx}
    (hok : ContOk T D ctr c) (h : c.uninline id cx = .ok (c', cx')) (lim : Nat) :
    c'.inlinable lim = c.inlinable lim := by
  unfold Cont.uninline at h
  split at h
  · rename_i s ty
    split at h
    · cases h
    · rename_i hs
      cases h
      have hs' : s.inlined = true := by simpa using hs
      have hi : (⟨0, s, ty⟩ : Arr).isInlined = true := hs'
      obtain ⟨s0, ty0, heq, _, _, _, _, h5, _⟩ := (hok : ArrOk T _ ctr).2 hi
      cases heq
      simp only [inlinable, hs', if_true, Bool.false_eq_true, if_false]
      have : s.hdr.size - inlinedArrayDataSlabPrefixSize + arrayRootDataSlabPrefixSize
          - arrayRootDataSlabPrefixSize + inlinedArrayDataSlabPrefixSize = s.hdr.size := by
        rw [h5]; omega
      rw [this]
  · rename_i s ty cnt seed
    split at h
    · cases h
    · cases h
      simp only [inlinable]
  · cases h

end Cont

namespace World

/-- The slot that refers to a live container is unique. -/
theorem UniqueRef.slot {w : World} (hu : UniqueRef w) {p p' : SlabID} {pc pc' : Cont} {i j : Nat} {x : SlabID}
    {t t' : Option MKey × Nat × Elem} (hp : w.cont? p = some pc) (hp' : w.cont? p' = some pc')
    (hi : (pc.kslots w.T)[i]? = some t) (hj : (pc'.kslots w.T)[j]? = some t')
    (ht : t.2.2.pay = .ref x) (ht' : t'.2.2.pay = .ref x) (hx : (w.cont? x).isSome) : p = p' ∧ i = j :=
  hu p p' pc pc' i j x hp hp' (by rw [Cont.kslot_pay hi, ht]) (by rw [Cont.kslot_pay hj, ht']) hx

theorem holds_of_kslot {w : World} {p : SlabID} {pc : Cont} {j : Nat} {x : SlabID}
    {t : Option MKey × Nat × Elem} (hp : w.cont? p = some pc) (hj : (pc.kslots w.T)[j]? = some t)
    (ht : t.2.2.pay = .ref x) : Holds w p x :=
  ⟨pc, hp, by
    have := Cont.kslot_pay hj
    rw [ht] at this
    exact List.mem_of_getElem? this⟩

theorem holds_of_slot {w : World} {p : SlabID} {pc : Cont} {x : SlabID} {le : Nat × Elem}
    (hp : w.cont? p = some pc) (hle : le ∈ pc.slots w.T) (ht : le.2.pay = .ref x) : Holds w p x := by
  obtain ⟨j, hj⟩ := List.mem_iff_getElem?.mp hle
  obtain ⟨ko, hk⟩ := Cont.slot_kslot hj
  exact holds_of_kslot hp hk ht

end World
end Atree
