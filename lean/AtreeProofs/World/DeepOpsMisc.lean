import AtreeProofs.World.DeepOpsArr
/-
  DEEP ACCOUNT, part 13: `SetType`, `NewArray`, `NewMap` (membership form `DeepM`).
-/
namespace Atree.Deep
open Gen World Codec
open MapHolder (StoredSince Ext)

variable {D : SlabID → DigestFn 4}

/-- only `p` changed, and it is standalone before and after: no storable changed -/
theorem deepM_standalone {w w' : World} {cx cx' : Ctx} {p : SlabID} {c c' : Cont}
    (ho : ∀ z, z ≠ p → w'.cont? z = w.cont? z) (hc : w.cont? p = some c) (hc' : w'.cont? p = some c')
    (hi : c.isInlined = false) (hi' : c'.isInlined = false) : DeepM w cx w' cx' := by
  intro id s _ _ hd
  obtain ⟨x, _, hns⟩ := not_deepSame hd
  exfalso
  apply hns
  by_cases hx : x = p
  · subst hx; exact Or.inr ⟨c, c', hc, hc', hi, hi'⟩
  · exact Or.inl (ho x hx)

/-- a new container under a fresh ID that nothing refers to: no storable changed -/
theorem deepM_new {w : World} {cx cx' : Ctx} {id : SlabID} {cn : Cont} (hfresh : w.cont? id = none)
    (hempty : cn.pays = []) (hnoref : ∀ q qc, w.cont? q = some qc → Pay.ref id ∉ qc.pays) :
    DeepM w cx (w.setCont id cn) cx' := by
  intro j s hs' _ hd
  obtain ⟨x, hx, hns⟩ := not_deepSame hd
  exfalso
  by_cases hxi : x = id
  · subst hxi
    obtain ⟨q, qc, hq, hm⟩ := held_of_dref hs' hx
    rw [cont?_setCont] at hq
    split at hq
    · cases hq; rw [hempty] at hm; cases hm
    · exact hnoref q qc hq hm
  · exact hns (Or.inl (cont?_setCont_ne _ _ _ _ hxi))

/-- `SetType` -/
theorem setType_deepM {rank0 : SlabID → Nat} {w w' : World} {p : SlabID} {ty : Nat} {cx cx' : Ctx}
    (H0 : WorldOkPK D rank0 (fun _ => False) w cx.ctr) (Hh : HeapOk w cx.ctr) (hh : HandleOk w p)
    (h : w.setType p ty cx = .ok (w', cx')) : DeepM w cx w' cx' := by
  obtain ⟨H', _, _, _, _, _, _⟩ := C10W.worldOk'_setType_all D w p ty cx w' cx' ⟨rank0, H0⟩ hh h
  have U' := uniqueRef_of_ok' H'
  have HI := HInv.of_pk H0
  have P := WPre.of_inv HI Hh
  unfold setType at h
  split at h
  · rename_i a hp
    have hpok : ArrOk w.T a cx.ctr := (P.conts p _ hp).1
    have hvid : a.rootID = p := (P.conts p _ hp).2.1
    have hinl : (Cont.arr { a with ty := ty }).isInlined = (Cont.arr a).isInlined := by
      obtain ⟨d, t, ty0⟩ := a; cases d <;> rfl
    obtain ⟨hids, hrest⟩ := treeSlabs_arr_setType a ty
    have hca := cacct_retag hinl rfl hids (Hh.nodup p _ hp) hrest cx.ctr
    have hlog : Log cx (a.setType ty cx).2 (if (Cont.arr a).isInlined then [] else [.store (Cont.arr a).vid]) [] :=
      log_of_emit_if cx a.isInlined a.rootID
    have htree : TreeOk w.addr (a.setType ty cx).2.ctr (.arr { a with ty := ty }) := by
      have := (Hh.treeOk hp).mono hlog.ctr_le
      rw [TreeOk, hids]; exact this
    have hok' : ContOk w.T (D p) (a.setType ty cx).2.ctr (.arr { a with ty := ty }) :=
      ContOk.mono (arrOk_setType hpok) hlog.ctr_le
    have hband : (Cont.arr { a with ty := ty }).isInlined = true → (Cont.arr { a with ty := ty }).rootSize ≤ w.T := by
      intro hi
      rw [hinl] at hi
      show (Cont.arr a).rootSize ≤ w.T
      exact HI.band hp hi
    have hctr : (a.setType ty cx).2.ctr = cx.ctr := by
      simp only [Arr.setType]; split <;> rfl
    have hca : CAcct cx.ctr (a.setType ty cx).2.ctr (.arr a) (.arr { a with ty := ty })
        (if (Cont.arr a).isInlined then [] else [.store (Cont.arr a).vid]) (([] : List (SlabID × Elem)).map (·.1)) := by
      rw [hctr]; exact hca
    have hpays : ∀ x, Pay.ref x ∈ (Cont.arr { a with ty := ty }).pays → Pay.ref x ∈ (Cont.arr a).pays ∨ rank0 p < rank0 x :=
      fun x hx => Or.inl hx
    have hst : a.setType ty cx = ({ a with ty := ty }, (a.setType ty cx).2) := rfl
    rw [hst] at h
    dsimp only at h
    have h2p : (w.setCont p (.arr { a with ty := ty })).cont? p = some (.arr { a with ty := ty }) := cont?_setCont_self _ _ _
    have h2o : ∀ z, z ≠ p → (w.setCont p (.arr { a with ty := ty })).cont? z = w.cont? z :=
      fun z hz => cont?_setCont_ne _ _ _ _ hz
    split at h
    · obtain ⟨P2, hsame2, post12⟩ := mutate_pre (w2 := w.setCont p (.arr { a with ty := ty })) P (fun _ _ => rfl) hp
        hlog hca hok' htree hvid hband rfl hpays (SameTab.refl _)
      have hpar2 : HandleOk (w.setCont p (.arr { a with ty := ty })) p :=
        handleOk_mutate HI.rank P2.rank hp h2p h2o rfl rfl (fun _ _ _ => rfl) hh
      have ND := notifyDeep D rank0 _ w cx.ctr _ p _ w' cx' P2 hsame2 hpar2 h
      have post23 := notifyHeap D rank0 _ w cx.ctr _ p _ w' cx' P2 hsame2 h
      have hpl' : (w'.cont? p).isSome := by rw [ND.sig.isSome, h2p]; rfl
      exact deep_of_track (p := p) (Mv := fun _ => False) (Mo := fun _ => False) (fun z hz _ => h2o z hz)
        (fun _ _ => rfl) (fun h => h) (by rw [hp]; rfl) hpl' (inl_of_form hp h2p hinl) (fun m hm => absurd hm id)
        (fun m hm => absurd hm id) (ND.track U') (ext_of_post post12) (ext_of_post post23) (Ext.refl _)
        (fun id s hs => Or.inl hs) (kept_of_post post23) U'
    · rename_i hni
      cases h
      have hni' : (Cont.arr a).isInlined = false := by
        show a.isInlined = false
        simpa using hni
      exact deepM_standalone h2o hp h2p hni' (by rw [hinl]; exact hni')
  · rename_i m hp
    have hpok : MapOk w.T (D p) m cx.ctr := (P.conts p _ hp).1
    have hvid : m.rootID = p := (P.conts p _ hp).2.1
    have hinl : (Cont.map { m with ty := ty }).isInlined = (Cont.map m).isInlined := by
      obtain ⟨d, t, ty0, cnt0, seed0⟩ := m; cases d <;> rfl
    obtain ⟨hids, hrest⟩ := treeSlabs_map_setType m ty
    have hca := cacct_retag hinl rfl hids (Hh.nodup p _ hp) hrest cx.ctr
    have hlog : Log cx (m.setType ty cx).2 (if (Cont.map m).isInlined then [] else [.store (Cont.map m).vid]) [] :=
      log_of_emit_if cx m.isInlined m.rootID
    have htree : TreeOk w.addr (m.setType ty cx).2.ctr (.map { m with ty := ty }) := by
      have := (Hh.treeOk hp).mono hlog.ctr_le
      rw [TreeOk, hids]; exact this
    have hok' : ContOk w.T (D p) (m.setType ty cx).2.ctr (.map { m with ty := ty }) :=
      ContOk.mono (mapOk_setType hpok) hlog.ctr_le
    have hband : (Cont.map { m with ty := ty }).isInlined = true → (Cont.map { m with ty := ty }).rootSize ≤ w.T := by
      intro hi
      rw [hinl] at hi
      show (Cont.map m).rootSize ≤ w.T
      exact HI.band hp hi
    have hctr : (m.setType ty cx).2.ctr = cx.ctr := by
      simp only [OMap.setType]; split <;> rfl
    have hca : CAcct cx.ctr (m.setType ty cx).2.ctr (.map m) (.map { m with ty := ty })
        (if (Cont.map m).isInlined then [] else [.store (Cont.map m).vid]) (([] : List (SlabID × Elem)).map (·.1)) := by
      rw [hctr]; exact hca
    have hpays : ∀ x, Pay.ref x ∈ (Cont.map { m with ty := ty }).pays → Pay.ref x ∈ (Cont.map m).pays ∨ rank0 p < rank0 x :=
      fun x hx => Or.inl hx
    have hst : m.setType ty cx = ({ m with ty := ty }, (m.setType ty cx).2) := rfl
    rw [hst] at h
    dsimp only at h
    have h2p : (w.setCont p (.map { m with ty := ty })).cont? p = some (.map { m with ty := ty }) := cont?_setCont_self _ _ _
    have h2o : ∀ z, z ≠ p → (w.setCont p (.map { m with ty := ty })).cont? z = w.cont? z :=
      fun z hz => cont?_setCont_ne _ _ _ _ hz
    split at h
    · obtain ⟨P2, hsame2, post12⟩ := mutate_pre (w2 := w.setCont p (.map { m with ty := ty })) P (fun _ _ => rfl) hp
        hlog hca hok' htree hvid hband rfl hpays (SameTab.refl _)
      have hpar2 : HandleOk (w.setCont p (.map { m with ty := ty })) p :=
        handleOk_mutate HI.rank P2.rank hp h2p h2o rfl rfl (fun _ _ _ => rfl) hh
      have ND := notifyDeep D rank0 _ w cx.ctr _ p _ w' cx' P2 hsame2 hpar2 h
      have post23 := notifyHeap D rank0 _ w cx.ctr _ p _ w' cx' P2 hsame2 h
      have hpl' : (w'.cont? p).isSome := by rw [ND.sig.isSome, h2p]; rfl
      exact deep_of_track (p := p) (Mv := fun _ => False) (Mo := fun _ => False) (fun z hz _ => h2o z hz)
        (fun _ _ => rfl) (fun h => h) (by rw [hp]; rfl) hpl' (inl_of_form hp h2p hinl) (fun m hm => absurd hm id)
        (fun m hm => absurd hm id) (ND.track U') (ext_of_post post12) (ext_of_post post23) (Ext.refl _)
        (fun id s hs => Or.inl hs) (kept_of_post post23) U'
    · rename_i hni
      cases h
      have hni' : (Cont.map m).isInlined = false := by
        show m.isInlined = false
        simpa using hni
      exact deepM_standalone h2o hp h2p hni' (by rw [hinl]; exact hni')
  · cases h

/-- `NewArray` -/
theorem newArr_deepM {rank0 : SlabID → Nat} {w : World} {ty : Nat} {cx : Ctx}
    (H0 : WorldOkPK D rank0 (fun _ => False) w cx.ctr) :
    DeepM w cx (w.newArr ty cx).2.1 (w.newArr ty cx).2.2 := by
  have hfresh : w.cont? ⟨w.addr, cx.ctr + 1⟩ = none := fresh_of_inv (HInv.of_pk H0) (by simp)
  have : (w.newArr ty cx).2.1 = w.setCont ⟨w.addr, cx.ctr + 1⟩ (.arr (Arr.new w.addr ty cx).1) := rfl
  rw [this]
  refine deepM_new hfresh rfl ?_
  intro q qc hq hm
  have := H0.below q qc hq _ hm
  simp at this
  omega

/-- `NewMap` -/
theorem newMap_deepM {rank0 : SlabID → Nat} {w : World} {ty seed : Nat} {cx : Ctx}
    (H0 : WorldOkPK D rank0 (fun _ => False) w cx.ctr) :
    DeepM w cx (w.newMap ty seed cx).2.1 (w.newMap ty seed cx).2.2 := by
  have hfresh : w.cont? ⟨w.addr, cx.ctr + 1⟩ = none := fresh_of_inv (HInv.of_pk H0) (by simp)
  have : (w.newMap ty seed cx).2.1
      = w.setCont ⟨w.addr, cx.ctr + 1⟩ (.map (OMap.new w.addr ty (fun _ => seed) cx : OMap 3 × Ctx).1) := rfl
  rw [this]
  refine deepM_new hfresh rfl ?_
  intro q qc hq hm
  have := H0.below q qc hq _ hm
  simp at this
  omega

end Atree.Deep
